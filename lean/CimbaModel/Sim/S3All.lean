/-
  S3 — the combined invariant of the process layer and what it says in plain terms.
-/
import CimbaModel.Sim.S3GInvDispatch

namespace CimbaModel.Sim.S3
open CimbaModel CimbaModel.Sim CimbaModel.Event CimbaModel.Generated CimbaModel.KPQ
open CimbaModel.HashHeap (HTag Item Order HH WF abs liveTags)

/-- everything that is proved to hold between any two dispatches -/
structure AllInv (w : World) : Prop where
  p : PInvB w
  t : TInvB w
  g : GInvB w
  nr : NRInv w
  side : SideOk w

theorem AllInv.dispatch {w w' : World} (h : AllInv w) (hd : dispatch w = some w') : AllInv w' :=
  ⟨h.p.dispatch hd, h.t.dispatch hd, h.g.dispatch h.p h.nr h.side hd, h.nr.dispatch hd, h.side.ofStat (Stat.dispatch hd)⟩

theorem AllInv.reach {w w' : World} (hr : Reach w w') (h : AllInv w) : AllInv w' := by
  induction hr with
  | refl => exact h
  | step _ hd ih => exact ih.dispatch hd

theorem AllInv.emit {w : World} (h : AllInv w) (l : String) : AllInv (w.emit l) :=
  ⟨(PInv.emit h.p l).toB, TInv.emit h.t l, (GInv.emit h.g l).toB, h.nr.ofPF ((PF.refl w).emit l),
   h.side.ofStat ((Stat.refl w).emit l)⟩

theorem AllInv.runAll (fuel : Nat) (w : World) (h : AllInv w) : AllInv (runAll fuel w) :=
  runAll_inv (I := AllInv) (fun _ l h => h.emit l) (fun _ _ h _ hd => h.dispatch hd) fuel w h

/-- a state before anything has happened: nothing registered, nobody suspended, all waiting lists empty and well-formed,
    fewer than 2³¹ processes, and nothing pending that looks like a library wake-up (start events, user events and
    non-SUCCESS interrupts etc. may be pending) -/
structure InitOkG (w : World) : Prop where
  base : InitOk w
  gw : AllGWF w
  gsz : w.procs.size < 2 ^ 31
  nq : ∀ g k, ¬ queued w g k
  bl : ∀ p, (w.proc p).blocked = none
  hm : ∀ e ∈ w.ev.pending, Harmless e

theorem InitOkG.ginv {w : World} (h : InitOkG w) : GInvB w where
  ei := h.base.ei
  gw := h.gw
  gsz := h.gsz
  gk := fun g k hq => absurd hq (h.nq g k)
  ga := fun p => Or.inl (by unfold guardAw; rw [h.base.aw]; rfl)
  gfb := fun p _ hb => absurd rfl hb
  gr := fun e he hg => absurd hg (h.hm e he).1
  gu := fun a ha _ _ hg => absurd hg (h.hm a ha).1
  gc := fun e he ha => absurd (Or.inr ha) (h.hm e he).1
  gkc := fun c g _ k hq => absurd hq (h.nq g k)
  nz := fun e he hc => ⟨((h.hm e he).2.2 hc).1, ((h.hm e he).2.2 hc).2.1, ((h.hm e he).2.2 hc).2.2.1⟩
  oth := fun e he ha => absurd ha (h.base.nt e he)
  cl := fun e he => (h.hm e he).2.1

theorem InitOkG.nrinv {w : World} (h : InitOkG w) : NRInv w := fun x _ => ⟨h.base.aw x, h.bl x⟩

theorem InitOkG.all {w : World} (h : InitOkG w) (hs : SideOk w) : AllInv w :=
  ⟨h.base.pinv, h.base.tinv, h.ginv, h.nrinv, hs⟩

/-! ### what `GInvB` says -/

/-- I_guard: a key in a waiting list is a process that awaits exactly this guard and is suspended in a wait on it -/
theorem GInvB.queued_means {w : World} (h : GInvB w) {g k : Nat} (hq : queued w g k) :
    ∃ p f, k = p + 1 ∧ p < w.procs.size ∧ Await.guard g ∈ (w.proc p).awaits ∧ guardAw w p = [.guard g] ∧
      (w.proc p).blocked = some f ∧ FrameOn w f g := by
  obtain ⟨h1, h2, h3⟩ := h.gk g k hq
  have ha := h3 (noEx_not _)
  have ha' := mem_awaits_guard.1 ha
  refine ⟨k - 1, ?_⟩
  rcases h.ga (k - 1) with h0 | ⟨g', f, hf, hon, haw⟩
  · rw [h0] at ha'; cases ha'
  · rw [haw] at ha'
    have : g = g' := by simpa using ha'
    subst this
    exact ⟨f, by omega, by omega, ha, haw, hf, hon⟩

/-- a process awaits at most one guard, and only while suspended in a wait on that guard -/
theorem GInvB.one_guard {w : World} (h : GInvB w) (p : Pid) :
    guardAw w p = [] ∨ ∃ g f, (w.proc p).blocked = some f ∧ FrameOn w f g ∧ guardAw w p = [.guard g] := h.ga p

/-- no stale grants: a pending grant (aRes, SUCCESS) or condition wake-up (aCond) is addressed to a process that is
    suspended in a wait on a guard, still awaits that guard, has already been taken off its waiting list, and it is the
    only such event for that process -/
theorem GInvB.grant_owned {w : World} (h : GInvB w) {e : HTag} (he : e ∈ w.ev.pending) (hg : isGrant e) :
    ∃ p g f, e.item.b = p + 1 ∧ (w.proc p).blocked = some f ∧ FrameOn w f g ∧ guardAw w p = [.guard g] ∧
      ¬ queued w g (p + 1) ∧ (∀ g', ¬ queued w g' (p + 1)) ∧
      ∀ e' ∈ w.ev.pending, isGrant e' → e'.item.b = p + 1 → e' = e := by
  obtain ⟨hb0, h2⟩ := h.gr e he hg
  obtain ⟨g, hga, hnq⟩ := h2 (noEx_not _)
  have hb : e.item.b = (e.item.b - 1) + 1 := by omega
  have ha' := mem_awaits_guard.1 hga
  rcases h.ga (e.item.b - 1) with h0 | ⟨g', f, hf, hon, haw⟩
  · rw [h0] at ha'; cases ha'
  · rw [haw] at ha'
    have : g = g' := by simpa using ha'
    subst this
    refine ⟨e.item.b - 1, g, f, hb, hf, hon, haw, by rw [← hb]; exact hnq, ?_, ?_⟩
    · intro g' hq
      obtain ⟨p', f', hk, _, _, haw', _⟩ := h.queued_means hq
      have : p' = e.item.b - 1 := by omega
      subst this
      rw [haw] at haw'
      have : g = g' := by simpa using haw'
      subst this
      exact hnq (by rw [hb]; exact hq)
    · intro e' he' hg' hb'
      exact h.gu e' he' e he hg' hg (hb'.trans hb.symm) (noEx_not _)

/-- a condition wake-up goes to a process suspended in `cond_wait` -/
theorem GInvB.cond_owned {w : World} (h : GInvB w) {e : HTag} (he : e ∈ w.ev.pending) (ha : e.item.a = aCond) :
    ∃ c, (w.proc (e.item.b - 1)).blocked = some (.condWait c) := h.gc e he ha (noEx_not _)

/-- no stale hold wake-ups: a pending timer with the success code is the timer of the `hold` its process is suspended in -/
theorem GInvB.hold_owned {w : World} (h : GInvB w) {e : HTag} (he : e ∈ w.ev.pending) (ha : e.item.a = aTime)
    (hc : e.item.c = 0) : ∃ p, e.item.b = p + 1 ∧ (w.proc p).blocked = some (.hold e.key) := by
  obtain ⟨h1, h2⟩ := h.oth e he ha hc
  exact ⟨e.item.b - 1, by omega, h2 (noEx_not _)⟩

/-- interrupts, resumes and preemptions never carry the success code -/
theorem GInvB.nonzero {w : World} (h : GInvB w) {e : HTag} (he : e ∈ w.ev.pending) (hc : e.item.c = 0) :
    e.item.a ≠ aIntr ∧ e.item.a ≠ aResume ∧ e.item.a ≠ aPreempt := h.nz e he hc

end CimbaModel.Sim.S3
