/-
  S3 — the grant invariant, part 19: the run loop of a process and the resumption of a suspended one.
-/
import CimbaModel.Sim.S3GrantCmd2

namespace CimbaModel.Sim.S3
open CimbaModel CimbaModel.Sim CimbaModel.Event CimbaModel.Generated CimbaModel.KPQ
open CimbaModel.HashHeap (HTag Item Order HH WF abs liveTags)

/-- the programs only cancel by value the variables in `S` -/
def CvOk (S : Nat → Prop) (w : World) : Prop :=
  ∀ (p : Pid) (i : Nat) (c : Cmd) (t : String), (w.proc p).script[i]? = some (c, t) →
    ∀ v, (c = .cancelUser v ∨ c = .timerCancel v) → S v

theorem CvOk.ofStat {S : Nat → Prop} {w w' : World} (h : CvOk S w) (hs : Stat w w') : CvOk S w' := by
  intro p i c t hc; rw [hs.script] at hc; exact h p i c t hc

/-- what holds whenever a process is about to execute a command or to be resumed; `df` is the deficit of the grant
    invariant (non-zero only right after the process's own grant has been taken off the event queue) -/
structure RunInv (S : Nat → Prop) (df : Demand → Nat) (w : World) : Prop where
  g : GInvB w
  t : TInvB w
  k : KInv S w
  side : SideOk w
  es : EndSep w
  kok : KOk S w
  cv : CvOk S w
  gh : w.fault = none → GH df w

variable {S : Nat → Prop} {df : Demand → Nat}

theorem RunInv.gs {w : World} (h : RunInv S df w) (hf : w.fault = none) : GS (blockedOf w) df w :=
  ⟨h.g, (h.gh hf).1, (h.gh hf).2⟩

/-- a log line and the next program counter -/
theorem RunInv.advance {w : World} (h : RunInv S df w) (p : Pid) (l : String) (pc' : Nat) :
    RunInv S df ((w.emit l).modProc p fun y => { y with pc := pc' }) := by
  have hi : Inert w ((w.emit l).modProc p fun y => { y with pc := pc' }) := by have h0 := Inert.refl w; inert
  have hst : Stat w ((w.emit l).modProc p fun y => { y with pc := pc' }) := by have h0 := Stat.refl w; stat
  have hk : KRel S w ((w.emit l).modProc p fun y => { y with pc := pc' }) := by have h := KRel.refl (S := S) w; krel
  refine ⟨h.g.advance p l pc', (TInv.modProc_ctl (TInv.emit h.t l) p _ (fun _ => rfl)), h.k.ofKRel hk, h.side.ofStat hst,
    h.es.ofStat hst, h.kok.ofStat hst, h.cv.ofStat hst, ?_⟩
  intro hf
  have hf' : w.fault = none := hk.evo.fault hf
  exact (h.gh hf').inert h.g.ei hi

theorem RunInv.emit {w : World} (h : RunInv S df w) (l : String) : RunInv S df (w.emit l) := by
  have hi : Inert w (w.emit l) := (Inert.refl w).emit l
  have hst : Stat w (w.emit l) := (Stat.refl w).emit l
  have hk : KRel S w (w.emit l) := (KRel.refl w).emit l
  exact ⟨(GInv.emit h.g l).toB, TInv.emit h.t l, h.k.ofKRel hk, h.side.ofStat hst, h.es.ofStat hst, h.kok.ofStat hst,
    h.cv.ofStat hst, fun hf => (h.gh hf).inert h.g.ei hi⟩

/-- the cancel-by-value commands are aimed at harmless handles -/
theorem RunInv.hcv {w : World} (h : RunInv S df w) {p : Pid} {i : Nat} {c : Cmd} {t : String}
    (hs : (w.proc p).script[i]? = some (c, t)) : ∀ v, (c = .cancelUser v ∨ c = .timerCancel v) → NG w (getVar w p v) :=
  fun v hv => (h.k.cv v (h.cv p i c t hs v hv) p).2

theorem gs_runScript : ∀ (fuel : Nat) {w : World} {p : Pid}, RunInv S (fun _ => 0) w → (w.proc p).blocked = none →
    (runScript fuel w p).fault = none → GH (fun _ => 0) (runScript fuel w p) := by
  intro fuel
  induction fuel with
  | zero =>
    intro w p _ _ hf
    simp only [Sim.runScript] at hf
    exact (fail_fault_none hf).elim
  | succ fuel ih =>
    intro w p h hb hf
    have hw : w.fault = none := ((Evo.refl w).runScript (fuel + 1) p).fault hf
    simp only [Sim.runScript] at hf ⊢
    split
    · -- the program has ended
      have he := h.emit s!"e {p} {w.now} 0"
      have := (he.gs (by exact hw)).finishProc p 0 false (TInv.timersOk he.t p)
      exact this.gh
    · rename_i c text hs
      rw [hs] at hf
      simp only at hf
      have hlt : p < w.procs.size := by
        rcases Nat.lt_or_ge p w.procs.size with h' | h'
        · exact h'
        · rw [script_none_of_oob h'] at hs; cases hs
      have he := h.emit s!"c {p} {(w.proc p).pc} {w.now} {text}"
      have hs' : ((w.emit s!"c {p} {(w.proc p).pc} {w.now} {text}").proc p).script[(w.proc p).pc]? = some (c, text) := hs
      have hcmd := gs_execCmd (p := p) (he.gs hw) he.es he.side.sep (TInv.timersOk he.t) hb hlt c (he.hcv hs')
      -- the other invariants of the state after the command
      obtain ⟨fr', hx⟩ := GInv.execCmd_ex (p := p) he.g hb hlt he.side.sep c (he.side.ok p _ c text hs')
      have hk := ContKeep.execCmd (w.emit s!"c {p} {(w.proc p).pc} {w.now} {text}") p c
      have hst : Stat w (execCmd (w.emit s!"c {p} {(w.proc p).pc} {w.now} {text}") p c).1 := by
        have h0 := Stat.refl w; stat
      have hT : TInvB (execCmd (w.emit s!"c {p} {(w.proc p).pc} {w.now} {text}") p c).1 :=
        TInv.execCmd_fst he.t hlt c
      have hK : KRel S (w.emit s!"c {p} {(w.proc p).pc} {w.now} {text}")
          (execCmd (w.emit s!"c {p} {(w.proc p).pc} {w.now} {text}") p c).1 :=
        KRel.execCmd_fst (KRel.refl _) he.g.ei p c (he.kok p _ c text hs')
      have hR : (execCmd (w.emit s!"c {p} {(w.proc p).pc} {w.now} {text}") p c).1.fault = none →
          RunInv S (fun _ => 0) (execCmd (w.emit s!"c {p} {(w.proc p).pc} {w.now} {text}") p c).1 := fun hf1 =>
        ⟨hx.toB, hT, he.k.ofKRel hK, h.side.ofStat hst, h.es.ofStat hst, h.kok.ofStat hst, h.cv.ofStat hst, fun _ => hcmd hf1⟩
      rcases hres : execCmd (w.emit s!"c {p} {(w.proc p).pc} {w.now} {text}") p c with ⟨w1, out⟩
      rw [hres] at hf hk hR
      cases out with
      | ret v extra =>
        simp only at hf ⊢
        have hkp : KeepP p (w.emit s!"c {p} {(w.proc p).pc} {w.now} {text}") w1 := hk rfl
        have hf1 : w1.fault = none := by
          have := ((Evo.refl ((w1.emit (s!"r {p} {(w.proc p).pc} {w1.now} {v}" ++ (if extra = "" then "" else " " ++ extra))).modProc p
            fun y => { y with pc := (w.proc p).pc + 1 })).runScript fuel p).fault hf
          exact this
        obtain ⟨a1, _, _⟩ := advance_proc w1 p
          (s!"r {p} {(w.proc p).pc} {w1.now} {v}" ++ (if extra = "" then "" else " " ++ extra)) ((w.proc p).pc + 1)
        exact ih ((hR hf1).advance p _ _) (a1.trans (hkp.1.trans hb)) hf
      | skip =>
        simp only at hf ⊢
        have hkp : KeepP p (w.emit s!"c {p} {(w.proc p).pc} {w.now} {text}") w1 := hk rfl
        have hf1 : w1.fault = none := by
          have := ((Evo.refl ((w1.emit s!"s {p} {(w.proc p).pc} {w1.now}").modProc p
            fun y => { y with pc := (w.proc p).pc + 1 })).runScript fuel p).fault hf
          exact this
        obtain ⟨a1, _, _⟩ := advance_proc w1 p s!"s {p} {(w.proc p).pc} {w1.now}" ((w.proc p).pc + 1)
        exact ih ((hR hf1).advance p _ _) (a1.trans (hkp.1.trans hb)) hf
      | blocked =>
        simp only at hf ⊢
        exact (hR hf).gh hf
      | ended =>
        clear hcmd hx hK hT hst hs hs'
        cases c <;> exact ((hR hf).emit _).gh hf

/-- resuming a suspended process: a deficit may be booked only at the object end its frame waits on, and only when it
    is resumed with SUCCESS (by its own grant) -/
theorem gs_resumeProc {w : World} {p : Pid} {sig : Int} (h : RunInv S df w)
    (hq : ∀ f, (w.proc p).blocked = some f → sig = sigSuccess → Quiet w p)
    (hdf : ∀ f, (w.proc p).blocked = some f → (∀ d, frameDemand f ≠ some d → df d = 0) ∧
      (∀ d, frameDemand f = some d → df d ≤ 1) ∧ (sig ≠ sigSuccess → ∀ d, df d = 0)) :
    (resumeProc w p sig).fault = none → GH (fun _ => 0) (resumeProc w p sig) := by
  intro hf
  have hw : w.fault = none := ((Evo.refl w).resumeProc p sig).fault hf
  simp only [Sim.resumeProc] at hf ⊢
  split
  · rename_i hst
    rw [if_pos hst] at hf
    exact (fail_fault_none hf).elim
  · rename_i hst
    rw [if_neg hst] at hf
    split
    · rename_i hbn
      rw [hbn] at hf
      exact (fail_fault_none hf).elim
    · rename_i f hbf
      rw [hbf] at hf
      simp only at hf
      have hfr : blockedOf w p = some f := hbf
      have hlt : p < w.procs.size := by
        rcases Nat.lt_or_ge p w.procs.size with h' | h'
        · exact h'
        · have : (w.proc p).blocked = none := by rw [proc_oob w h']
          rw [this] at hbf; cases hbf
      obtain ⟨d1, d2, d3⟩ := hdf f hbf
      have hfo : ∀ k, f = .hold k → NG w k := by
        intro k hk
        have := h.k.fo p f hbf
        rw [hk] at this; exact this.2
      have hres := gs_resumeFrame (df' := fun _ => 0) (h.gs hw) h.es h.side.sep f hfr hlt sig (hq f hbf) hfo
        (fun d hd => by rw [d1 d hd]; exact Nat.le_refl _) (fun d hd => by have := d2 d hd; omega)
        (fun hs d => by rw [d3 hs d]; exact Nat.le_refl _)
      obtain ⟨fr', hx⟩ := GInv.resume_ex h.g hfr hlt h.side.sep sig (hq f hbf)
      have hk := ContKeep.resumeFrame (w.modProc p fun y => { y with blocked := none }) p f sig
      have hst' : Stat w (resumeFrame (w.modProc p fun y => { y with blocked := none }) p f sig).1 := by
        have h0 := Stat.refl w; stat
      have hT : TInvB (resumeFrame (w.modProc p fun y => { y with blocked := none }) p f sig).1 :=
        TInv.resumeFrame_fst (p := p) (TInv.modProc_ctl h.t p (fun y => { y with blocked := none }) (fun _ => rfl)) f sig
      have hK : KRel S w (resumeFrame (w.modProc p fun y => { y with blocked := none }) p f sig).1 := by
        refine KRel.resumeFrame_fst (by have h := KRel.refl (S := S) w; krel) p f sig ?_
        intro k o pri v hfe
        have := h.k.fo p f hbf
        rw [hfe] at this; exact this
      have hR : (resumeFrame (w.modProc p fun y => { y with blocked := none }) p f sig).1.fault = none →
          RunInv S (fun _ => 0) (resumeFrame (w.modProc p fun y => { y with blocked := none }) p f sig).1 := fun hf1 =>
        ⟨hx.toB, hT, h.k.ofKRel hK, h.side.ofStat hst', h.es.ofStat hst', h.kok.ofStat hst', h.cv.ofStat hst', fun _ => hres hf1⟩
      rcases hrr : resumeFrame (w.modProc p fun y => { y with blocked := none }) p f sig with ⟨w1, out⟩
      rw [hrr] at hf hk hR
      cases out with
      | ret v extra =>
        simp only at hf ⊢
        have hkp : KeepP p (w.modProc p fun y => { y with blocked := none }) w1 := hk rfl
        have hf1 : w1.fault = none := by
          have := ((Evo.refl ((w1.emit (s!"r {p} {(w.proc p).pc} {w1.now} {v}" ++ (if extra = "" then "" else " " ++ extra))).modProc p
            fun y => { y with pc := (w.proc p).pc + 1 })).runScript ((w.proc p).script.size + 2) p).fault hf
          exact this
        obtain ⟨a1, _, _⟩ := advance_proc w1 p
          (s!"r {p} {(w.proc p).pc} {w1.now} {v}" ++ (if extra = "" then "" else " " ++ extra)) ((w.proc p).pc + 1)
        refine gs_runScript _ ((hR hf1).advance p _ _) (a1.trans (hkp.1.trans ?_)) hf
        rw [modProc_proc_self w _ hlt]
      | skip => simp only at hf ⊢; exact (hR hf).gh hf
      | blocked => simp only at hf ⊢; exact (hR hf).gh hf
      | ended => simp only at hf ⊢; exact (hR hf).gh hf

end CimbaModel.Sim.S3
