/-
  S3 — `PInv`, part 6: continuing a suspended `wait_process` / `wait_event` (recorded frame cleared, then the epilogue).
-/
import CimbaModel.Sim.S3PInvWait

namespace CimbaModel.Sim.S3
open CimbaModel CimbaModel.Sim CimbaModel.Event CimbaModel.Generated CimbaModel.KPQ
open CimbaModel.HashHeap (HTag Item Order HH WF abs liveTags)

variable {ex : Pid → Prop} {fr : Pid → Option Frame}

/-- the world after the recorded frame of `p` has been cleared and `a` has been taken off its awaits -/
def clearedWorld (w : World) (p : Pid) (a : Await) : World :=
  w.modProc p fun x => { x with blocked := none, awaits := (removeFirst x.awaits a).1 }

theorem removeAwait_cleared (w : World) (p : Pid) (a : Await) :
    removeAwait (w.modProc p fun y => { y with blocked := none }) p a =
      (clearedWorld w p a, decide (a ∈ (w.proc p).awaits)) := by
  have h1 : (removeAwait (w.modProc p fun y => { y with blocked := none }) p a).1 = clearedWorld w p a := by
    rw [removeAwait_fst_eq, modProc_modProc]; rfl
  have h2 : (removeAwait (w.modProc p fun y => { y with blocked := none }) p a).2 = decide (a ∈ (w.proc p).awaits) := by
    simp only [removeAwait]
    rw [removeFirst_snd]
    rw [modProc_proc]; split
    · rename_i h; rfl
    · rfl
  exact Prod.ext h1 h2

theorem clearedWorld_frame (w : World) (p : Pid) (a : Await) :
    (clearedWorld w p a).ev = w.ev ∧ (clearedWorld w p a).evWaiters = w.evWaiters ∧
    (∀ x, ((clearedWorld w p a).proc x).waiters = (w.proc x).waiters) := by
  refine ⟨rfl, rfl, ?_⟩
  intro x; unfold clearedWorld; rw [modProc_proc]; split
  · rename_i h; rw [h.1]
  · rfl

/-- what the invariant says about a process suspended in `wait_process q` -/
theorem PInv.waitProc_facts {w : World} (hp : PInv ex fr w) {p q : Pid} (hfr : fr p = some (.waitProc q)) (hxp : ¬ ex p) :
    evAw w p = [] ∧ (procAw w p = [] ∨ procAw w p = [.proc q]) ∧
    (∀ e ∈ w.ev.pending, e.item.a = aEvent → e.item.b ≠ p + 1) ∧
    (∀ h l, (h, l) ∈ w.evWaiters → p ∉ l) ∧
    (∀ x, p ∈ (w.proc x).waiters → x = q ∧ Await.proc q ∈ (w.proc p).awaits) ∧
    (∀ e ∈ w.ev.pending, e.item.a = aProc → e.item.b = p + 1 → Await.proc q ∈ (w.proc p).awaits ∧ p ∉ (w.proc q).waiters) := by
  have h1 : evAw w p = [] := by
    rcases hp.ae p with h | ⟨h', hf, _⟩
    · exact h
    · rw [hfr] at hf; cases hf
  have h2 : procAw w p = [] ∨ procAw w p = [.proc q] := by
    rcases hp.ap p with h | ⟨q', hf, h⟩
    · exact Or.inl h
    · rw [hfr] at hf; cases hf; exact Or.inr h
  have hmem : ∀ q', Await.proc q' ∈ (w.proc p).awaits → q' = q := by
    intro q' hq'
    rw [mem_awaits_proc] at hq'
    rcases h2 with h | h
    · rw [h] at hq'; cases hq'
    · rw [h] at hq'; simpa using hq'
  refine ⟨h1, h2, ?_, ?_, ?_, ?_⟩
  · intro e he ha hb
    obtain ⟨h, hm, _⟩ := hp.oe e he ha p hb hxp
    rw [mem_awaits_event, h1] at hm; cases hm
  · intro h l hm hpl
    have := hp.e1 h l p hm hpl hxp
    rw [mem_awaits_event, h1] at this; cases this
  · intro x hx
    have := hp.w1 x p hx hxp
    have hxq := hmem x this
    subst hxq; exact ⟨rfl, this⟩
  · intro e he ha hb
    obtain ⟨q', h1', h2'⟩ := hp.op e he ha p hb hxp
    have := hmem q' h1'; subst this
    exact ⟨h1', h2'⟩

/-- `wait_process q` continued (for whatever reason): afterwards `p` is registered nowhere, has no process-end wake-up
    pending, and the invariant holds with `p` not suspended -/
theorem PInv.resume_waitProc {w : World} (hp : PInv ex fr w) {p q : Pid} (hfr : fr p = some (.waitProc q)) (hxp : ¬ ex p)
    (sig : Int) :
    PInv ex (setFrame fr p none) (resumeFrame (w.modProc p fun y => { y with blocked := none }) p (.waitProc q) sig).1 := by
  obtain ⟨hev, hpa, hnoE, hnoW, hwt, hop⟩ := hp.waitProc_facts hfr hxp
  obtain ⟨hcev, hcew, hcw⟩ := clearedWorld_frame w p (.proc q)
  -- the cleared world, with p exempt
  have hfil1 : ((removeFirst (w.proc p).awaits (Await.proc q)).1).filter isProcA = [] := by
    rw [removeFirst_filter_self _ _ _ rfl]
    have : (w.proc p).awaits.filter isProcA = procAw w p := rfl
    rw [this]
    rcases hpa with h | h <;> rw [h] <;> simp [removeFirst]
  have hfil2 : ((removeFirst (w.proc p).awaits (Await.proc q)).1).filter isEventA = [] := by
    rw [removeFirst_filter_ne _ _ _ rfl]; exact hev
  have hB : PInv (exAdd ex p) fr (clearedWorld w p (.proc q)) :=
    (hp.exempt p).modProcEx _ rfl rfl hfil1 hfil2
  have hBnil : ∀ w', (∀ x, (w'.proc x).awaits = ((clearedWorld w p (.proc q)).proc x).awaits) →
      procAw w' p = [] ∧ evAw w' p = [] := by
    intro w' hw'
    unfold procAw evAw; rw [hw' p]
    by_cases hs : p < w.procs.size
    · unfold clearedWorld; rw [modProc_proc_self w _ hs]; exact ⟨hfil1, hfil2⟩
    · unfold clearedWorld; rw [modProc_proc]; simp only [hs, and_false, if_false]
      rw [proc_oob w (Nat.le_of_not_lt hs)]; exact ⟨rfl, rfl⟩
  -- finishing: set the frame, drop the exemption
  have finish : ∀ w', PInv (exAdd ex p) fr w' → (procAw w' p = [] ∧ evAw w' p = []) →
      (∀ e ∈ w'.ev.pending, e.item.a = aProc ∨ e.item.a = aEvent → e.item.b ≠ p + 1) →
      (∀ x, p ∉ (w'.proc x).waiters) → (∀ h l, (h, l) ∈ w'.evWaiters → p ∉ l) →
      PInv ex (setFrame fr p none) w' := by
    intro w' h' hnil hne hnw hnev
    have h'' : PInv (exAdd ex p) (setFrame fr p none) w' := by
      refine h'.setFr _ ?_ ?_
      · intro x hx
        by_cases hxp' : x = p
        · subst hxp'; exact hnil
        · rw [setFrame_ne _ _ hxp'] at hx; exact absurd rfl hx
      · intro x hxx hx
        have hxp' : x ≠ p := fun h => hxx (Or.inr h)
        rw [setFrame_ne _ _ hxp'] at hx; exact h'.fb x hxx hx
    exact h''.unexempt hne hnw hnev (fun _ => hnil)
  simp only [resumeFrame, removeAwait_cleared]
  by_cases hstill : Await.proc q ∈ (w.proc p).awaits
  · simp only [hstill, decide_true, if_true]
    have hwq : ((clearedWorld w p (.proc q)).proc q).waiters = (w.proc q).waiters := hcw q
    rw [hwq]
    by_cases hwas : p ∈ (w.proc q).waiters
    · have hs : (removeFirst (w.proc q).waiters p).2 = true := by rw [removeFirst_snd]; simp [hwas]
      simp only [hs, if_true]
      -- p is taken off q's waiter list
      have heq : ((clearedWorld w p (.proc q)).modProc q fun y => { y with waiters := (removeFirst (w.proc q).waiters p).1 }) =
          ((clearedWorld w p (.proc q)).modProc q fun y => { y with waiters := (removeFirst y.waiters p).1 }) := by
        apply modProc_congr; rw [hwq]
      rw [heq]
      have hC := hB.shrinkWaiters q (fun l => (removeFirst l p).1) (fun l x hx => removeFirst_subset l p x hx)
        (fun l hl => (removeFirst_nodup l p hl).1)
      refine finish _ hC ?_ ?_ ?_ ?_
      · apply hBnil; intro x
        rw [modProc_proc]; split
        · rename_i h; rw [h.1]
        · rfl
      · intro e he hk hb
        rcases hk with hk | hk
        · exact (hop e he hk hb).2 hwas
        · exact hnoE e he hk hb
      · intro x hx
        rw [modProc_proc] at hx
        split at hx
        · rename_i h
          have := (removeFirst_nodup ((clearedWorld w p (.proc q)).proc q).waiters p (by rw [hwq]; exact hp.wn q)).2
          exact this hx
        · rename_i h
          rw [hcw x] at hx
          have := (hwt x hx).1
          subst this
          have hq : x < w.procs.size := by
            rcases Nat.lt_or_ge x w.procs.size with h' | h'
            · exact h'
            · rw [proc_oob w h'] at hx; simp at hx
          exact h ⟨rfl, by simpa [clearedWorld] using hq⟩
      · intro h l hm; exact hnoW h l hm
    · have hs : (removeFirst (w.proc q).waiters p).2 = false := by rw [removeFirst_snd]; simp [hwas]
      simp only [hs, Bool.false_eq_true, if_false]
      -- the wake-up is already pending: cancel it
      have hD := hB.cancelKindFor_fst p aProc none
      obtain ⟨hrel, hgone, _, _⟩ := cancelKindFor_spec (clearedWorld w p (.proc q)) p aProc none hp.ei
      refine finish _ hD ?_ ?_ ?_ ?_
      · apply hBnil; intro x; rw [hrel.proc x]
      · intro e he hk hb
        rcases hrel.pend e he with hold | ⟨hc, h', l, x, hm, hx, heq⟩
        · rcases hk with hk | hk
          · have hle := EvInv.key_le hp.ei (show e ∈ w.ev.pending from hold)
            have := hgone e he hle
            simp [kindMatch, hb, hk] at this
          · exact hnoE e hold hk hb
        · rw [heq] at hb
          simp only [mkEv] at hb
          have : x = p := Nat.add_right_cancel hb
          subst this
          exact hnoW h' l hm hx
      · intro x hx
        rw [hrel.proc x, hcw x] at hx
        have := (hwt x hx).1
        subst this; exact hwas hx
      · intro h l hm; exact hnoW h l (hrel.evWaiters _ hm)
  · simp only [hstill, decide_false, Bool.false_eq_true, if_false]
    refine finish _ hB (hBnil _ (fun _ => rfl)) ?_ ?_ ?_
    · intro e he hk hb
      rcases hk with hk | hk
      · exact hstill (hop e he hk hb).1
      · exact hnoE e he hk hb
    · intro x hx; rw [hcw x] at hx; exact hstill (hwt x hx).2
    · intro h l hm; exact hnoW h l hm


/-! ### wait_event continued -/

/-- taking `p` off the waiter list of event `h` -/
def dropEvWaiter (ws : List (Nat × List Pid)) (h : Nat) (p : Pid) : List (Nat × List Pid) :=
  ws.map fun (k, l) => if k = h then (k, (removeFirst l p).1) else (k, l)

theorem dropEvWaiter_keys (ws : List (Nat × List Pid)) (h : Nat) (p : Pid) :
    (dropEvWaiter ws h p).map (·.1) = ws.map (·.1) := by
  unfold dropEvWaiter
  rw [List.map_map]
  apply List.map_congr_left
  intro x _
  rcases x with ⟨k, l⟩
  simp only [Function.comp]
  split <;> rfl

theorem dropEvWaiter_mem {ws : List (Nat × List Pid)} {h : Nat} {p : Pid} {k : Nat} {l' : List Pid}
    (hm : (k, l') ∈ dropEvWaiter ws h p) :
    ∃ l, (k, l) ∈ ws ∧ l' = if k = h then (removeFirst l p).1 else l := by
  unfold dropEvWaiter at hm
  obtain ⟨⟨k0, l0⟩, hx, heq⟩ := List.mem_map.1 hm
  simp only at heq
  split at heq
  · rename_i hk
    have h1 : k0 = k := congrArg Prod.fst heq
    have h2 : (removeFirst l0 p).1 = l' := congrArg Prod.snd heq
    subst h1; exact ⟨l0, hx, by rw [if_pos hk, h2]⟩
  · rename_i hk
    have h1 : k0 = k := congrArg Prod.fst heq
    have h2 : l0 = l' := congrArg Prod.snd heq
    subst h1; exact ⟨l0, hx, by rw [if_neg hk, h2]⟩

theorem dropEvWaiter_lookup (ws : List (Nat × List Pid)) (h : Nat) (p : Pid) (k : Nat) :
    (dropEvWaiter ws h p).lookup k = (ws.lookup k).map fun l => if k = h then (removeFirst l p).1 else l := by
  induction ws with
  | nil => rfl
  | cons x xs ih =>
    rcases x with ⟨k0, l0⟩
    unfold dropEvWaiter at ih ⊢
    simp only [List.map_cons]
    by_cases hk0 : k0 = h
    · simp only [hk0, if_true, List.lookup_cons]
      by_cases hk : k = h
      · subst hk; simp
      · have : (k == h) = false := by simpa using hk
        simp only [this]; exact ih
    · simp only [hk0, if_false, List.lookup_cons]
      by_cases hk : k = k0
      · subst hk; simp [hk0]
      · have : (k == k0) = false := by simpa using hk
        simp only [this]; exact ih

theorem PInv.dropEvWaiter {w : World} (hp : PInv ex fr w) (h : Nat) (p : Pid) :
    PInv ex fr { w with evWaiters := dropEvWaiter w.evWaiters h p } := by
  have hsubW : ∀ k x, x ∈ evWaitersOf { w with evWaiters := S3.dropEvWaiter w.evWaiters h p } k → x ∈ evWaitersOf w k := by
    intro k x hx
    unfold evWaitersOf at hx ⊢
    simp only [dropEvWaiter_lookup] at hx
    cases hl : w.evWaiters.lookup k with
    | none => rw [hl] at hx; simp at hx
    | some l =>
      rw [hl] at hx
      simp only [Option.map_some, Option.getD_some] at hx ⊢
      split at hx
      · exact removeFirst_subset l p x hx
      · exact hx
  refine { hp with e1 := ?_, en := ?_, es := ?_, oe := ?_ }
  · intro k l' q hm hq hx
    obtain ⟨l, hl, heq⟩ := dropEvWaiter_mem hm
    refine hp.e1 k l q hl ?_ hx
    rw [heq] at hq; split at hq
    · exact removeFirst_subset l p q hq
    · exact hq
  · refine ⟨by simp only [dropEvWaiter_keys]; exact hp.en.1, ?_⟩
    intro k l' hm
    obtain ⟨l, hl, heq⟩ := dropEvWaiter_mem hm
    rw [heq]; split
    · exact (removeFirst_nodup l p (hp.en.2 k l hl)).1
    · exact hp.en.2 k l hl
  · intro k l' hm
    obtain ⟨l, hl, _⟩ := dropEvWaiter_mem hm
    exact hp.es k l hl
  · intro e he ha x hb hx
    obtain ⟨h', h1, h2⟩ := hp.oe e he ha x hb hx
    exact ⟨h', h1, fun hm => h2 (hsubW h' x hm)⟩

/-- what the invariant says about a process suspended in `wait_event h` -/
theorem PInv.waitEvent_facts {w : World} (hp : PInv ex fr w) {p : Pid} {h : Nat} (hfr : fr p = some (.waitEvent h)) (hxp : ¬ ex p) :
    procAw w p = [] ∧ (evAw w p = [] ∨ evAw w p = [.event h]) ∧
    (∀ e ∈ w.ev.pending, e.item.a = aProc → e.item.b ≠ p + 1) ∧
    (∀ x, p ∉ (w.proc x).waiters) ∧
    (∀ k l, (k, l) ∈ w.evWaiters → p ∈ l → k = h ∧ Await.event h ∈ (w.proc p).awaits) ∧
    (∀ e ∈ w.ev.pending, e.item.a = aEvent → e.item.b = p + 1 →
      Await.event h ∈ (w.proc p).awaits ∧ p ∉ evWaitersOf w h ∧ h ∉ keys w.ev.pending) := by
  have h1 : procAw w p = [] := by
    rcases hp.ap p with h' | ⟨q, hf, _⟩
    · exact h'
    · rw [hfr] at hf; cases hf
  have h2 : evAw w p = [] ∨ evAw w p = [.event h] := by
    rcases hp.ae p with h' | ⟨h', hf, hh⟩
    · exact Or.inl h'
    · rw [hfr] at hf; cases hf; exact Or.inr hh
  have hmem : ∀ k, Await.event k ∈ (w.proc p).awaits → k = h := by
    intro k hk
    rw [mem_awaits_event] at hk
    rcases h2 with h' | h'
    · rw [h'] at hk; cases hk
    · rw [h'] at hk; simpa using hk
  refine ⟨h1, h2, ?_, ?_, ?_, ?_⟩
  · intro e he ha hb
    obtain ⟨q, hm, _⟩ := hp.op e he ha p hb hxp
    rw [mem_awaits_proc, h1] at hm; cases hm
  · intro x hx
    have := hp.w1 x p hx hxp
    rw [mem_awaits_proc, h1] at this; cases this
  · intro k l hm hpl
    have := hp.e1 k l p hm hpl hxp
    have hk := hmem k this
    subst hk; exact ⟨rfl, this⟩
  · intro e he ha hb
    obtain ⟨k, h1', h2'⟩ := hp.oe e he ha p hb hxp
    have := hmem k h1'; subst this
    exact ⟨h1', h2', (hp.oh e he ha p hb hxp k h1').1⟩

/-- `wait_event h` continued (for whatever reason): afterwards `p` is registered nowhere, has no event-done wake-up
    pending, and the invariant holds with `p` not suspended -/
theorem PInv.resume_waitEvent {w : World} (hp : PInv ex fr w) {p : Pid} {h : Nat} (hfr : fr p = some (.waitEvent h))
    (hxp : ¬ ex p) (sig : Int) :
    PInv ex (setFrame fr p none) (resumeFrame (w.modProc p fun y => { y with blocked := none }) p (.waitEvent h) sig).1 := by
  obtain ⟨hpa, hea, hnoP, hnoW, hwt, hoe⟩ := hp.waitEvent_facts hfr hxp
  obtain ⟨hcev, hcew, hcw⟩ := clearedWorld_frame w p (.event h)
  have hfil1 : ((removeFirst (w.proc p).awaits (Await.event h)).1).filter isProcA = [] := by
    rw [removeFirst_filter_ne _ _ _ rfl]; exact hpa
  have hfil2 : ((removeFirst (w.proc p).awaits (Await.event h)).1).filter isEventA = [] := by
    rw [removeFirst_filter_self _ _ _ rfl]
    have : (w.proc p).awaits.filter isEventA = evAw w p := rfl
    rw [this]
    rcases hea with h' | h' <;> rw [h'] <;> simp [removeFirst]
  have hB : PInv (exAdd ex p) fr (clearedWorld w p (.event h)) :=
    (hp.exempt p).modProcEx _ rfl rfl hfil1 hfil2
  have hBnil : ∀ w', (∀ x, (w'.proc x).awaits = ((clearedWorld w p (.event h)).proc x).awaits) →
      procAw w' p = [] ∧ evAw w' p = [] := by
    intro w' hw'
    unfold procAw evAw; rw [hw' p]
    by_cases hs : p < w.procs.size
    · unfold clearedWorld; rw [modProc_proc_self w _ hs]; exact ⟨hfil1, hfil2⟩
    · unfold clearedWorld; rw [modProc_proc]; simp only [hs, and_false, if_false]
      rw [proc_oob w (Nat.le_of_not_lt hs)]; exact ⟨rfl, rfl⟩
  have finish : ∀ w', PInv (exAdd ex p) fr w' → (procAw w' p = [] ∧ evAw w' p = []) →
      (∀ e ∈ w'.ev.pending, e.item.a = aProc ∨ e.item.a = aEvent → e.item.b ≠ p + 1) →
      (∀ x, p ∉ (w'.proc x).waiters) → (∀ k l, (k, l) ∈ w'.evWaiters → p ∉ l) →
      PInv ex (setFrame fr p none) w' := by
    intro w' h' hnil hne hnw hnev
    have h'' : PInv (exAdd ex p) (setFrame fr p none) w' := by
      refine h'.setFr _ ?_ ?_
      · intro x hx
        by_cases hxp' : x = p
        · subst hxp'; exact hnil
        · rw [setFrame_ne _ _ hxp'] at hx; exact absurd rfl hx
      · intro x hxx hx
        have hxp' : x ≠ p := fun h => hxx (Or.inr h)
        rw [setFrame_ne _ _ hxp'] at hx; exact h'.fb x hxx hx
    exact h''.unexempt hne hnw hnev (fun _ => hnil)
  simp only [resumeFrame, removeAwait_cleared]
  by_cases hstill : Await.event h ∈ (w.proc p).awaits
  · simp only [hstill, decide_true, if_true]
    by_cases hsch : isScheduled (clearedWorld w p (.event h)).ev h = true
    · simp only [hsch, if_true]
      have hC := hB.dropEvWaiter h p
      refine finish _ hC ?_ ?_ ?_ ?_
      · apply hBnil; intro x; rfl
      · intro e he hk hb
        rcases hk with hk | hk
        · exact hnoP e he hk hb
        · have := (hoe e he hk hb).2.2
          apply this
          have : (clearedWorld w p (.event h)).ev = w.ev := rfl
          rw [this] at hsch
          simpa [isScheduled] using hsch
      · intro x hx; exact hnoW x (by rw [← hcw x]; exact hx)
      · intro k l' hm hpl
        obtain ⟨l, hl, heq⟩ := dropEvWaiter_mem hm
        rw [heq] at hpl
        split at hpl
        · exact (removeFirst_nodup l p (hp.en.2 k l hl)).2 hpl
        · rename_i hk; exact hk (hwt k l hl hpl).1
    · simp only [hsch, Bool.false_eq_true, if_false]
      have hD := hB.cancelKindFor_fst p aEvent none
      obtain ⟨hrel, hgone, _, _⟩ := cancelKindFor_spec (clearedWorld w p (.event h)) p aEvent none hp.ei
      -- h is not scheduled, so nobody is registered with it; p is registered with nothing else
      have hnoreg : ∀ k l, (k, l) ∈ w.evWaiters → p ∉ l := by
        intro k l hm hpl
        have hk := (hwt k l hm hpl).1
        subst hk
        have := hp.es k l hm
        apply hsch
        have he : (clearedWorld w p (.event k)).ev = w.ev := rfl
        rw [he]
        simpa [isScheduled] using this
      refine finish _ hD ?_ ?_ ?_ ?_
      · apply hBnil; intro x; rw [hrel.proc x]
      · intro e he hk hb
        rcases hrel.pend e he with hold | ⟨hc, h', l, x, hm, hx, heq⟩
        · rcases hk with hk | hk
          · exact hnoP e hold hk hb
          · have hle := EvInv.key_le hp.ei (show e ∈ w.ev.pending from hold)
            have := hgone e he hle
            simp [kindMatch, hb, hk] at this
        · rw [heq] at hb
          simp only [mkEv] at hb
          have : x = p := Nat.add_right_cancel hb
          subst this
          exact hnoreg h' l hm hx
      · intro x hx
        rw [hrel.proc x, hcw x] at hx
        exact hnoW x hx
      · intro k l hm; exact hnoreg k l (hrel.evWaiters _ hm)
  · simp only [hstill, decide_false, Bool.false_eq_true, if_false]
    refine finish _ hB (hBnil _ (fun _ => rfl)) ?_ ?_ ?_
    · intro e he hk hb
      rcases hk with hk | hk
      · exact hnoP e he hk hb
      · exact hstill (hoe e he hk hb).1
    · intro x hx; rw [hcw x] at hx; exact hnoW x hx
    · intro k l hm hpl; exact hstill (hwt k l hm hpl).2

end CimbaModel.Sim.S3
