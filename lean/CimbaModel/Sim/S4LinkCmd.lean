/-
  S4 — `PL` (holder lists ⇔ `.pool` holdings, S4LinkBase) through every command (the peeling tactic
  `pl_peel` is also used for the resumptions, S4LinkFrame).
-/
import CimbaModel.Sim.S4LinkEnd

namespace CimbaModel.Sim.S4
open CimbaModel CimbaModel.Sim CimbaModel.Event CimbaModel.Generated CimbaModel.KPQ
open CimbaModel.HashHeap (HTag Item Order HH WF abs)

variable {w w' : World}

/-- peel a composition of library steps down to `h : PL w`; `hp : p < w.procs.size` for the caller -/
syntax "pl_peel " ident ident num : tactic
open Lean in
macro_rules
  | `(tactic| pl_peel $h $hp $n) => do
    if n.getNat = 0 then `(tactic| fail "pl_peel: out of fuel")
    else
      let m := Syntax.mkNumLit (toString (n.getNat - 1))
      `(tactic| first
          | with_reducible exact $h
          | (simpa using $hp)
          | (with_reducible first
              | apply PL.emit
              | apply PL.setGuardQ
              | apply PL.wakeEventWaiters
              | apply PL.evCancel
              | apply PL.cancelAllFor
              | apply PL.cancelKindFor
              | apply PL.cancelUserAll
              | apply PL.recordRes
              | apply PL.recordBuf
              | apply PL.recordOQ
              | apply PL.recordPQ
              | apply PL.guardRemove
              | apply PL.guardSignal
              | apply PL.guardWithdraw
              | apply PL.condSignal
              | apply PL.addAwait
              | apply PL.removeAwait_fst
              | apply PL.removeAwaitKind_fst
              | apply PL.setVar
              | apply PL.timerAdd
              | apply PL.timerCancel
              | apply PL.timersClear
              | apply PL.guardWaitLeave
              | apply PL.bufGetLoop
              | apply PL.bufPutLoop
              | apply PL.oqGetLoop
              | apply PL.oqPutLoop
              | apply PL.pqGetLoop
              | apply PL.fail
              | apply PL.sched
              | apply PL.signal
              | apply PL.recordPool
              | apply PL.setPoolInUse
              | apply PL.guardWaitEnter
              | apply PL.block
              | apply pl_poolUpdateRecord
              | apply pl_poolMug
              | apply pl_poolLoop
              | apply pl_setHeldAmount
              | apply pl_poolRollback
              | apply pl_dropResources
              | apply PL.cancelAwaiteds
              | apply PL.wakeWaiters
              | apply PL.finishProc
              | apply PL.setRecording
              | apply PL.removeHeld_res
              | apply PL.grab
              | apply PL.acquireStep
              | apply PL.pqPutLoop
              | apply PL.mkW
            ) <;> pl_peel $h $hp $m
          | (split <;> pl_peel $h $hp $m))

set_option maxHeartbeats 1000000 in
theorem pl_execCmd (h : PL w) (p : Pid) (hp : p < w.procs.size) (c : Cmd) : PL (execCmd w p c).1 := by
  cases c
  case prioSet q v => exact pl_prioSet h p q v
  case poolRelease pl n => exact pl_poolRelease h p pl n
  case preempt r =>
    simp only [execCmd]
    split
    · exact h
    · split
      · exact h
      · split
        · exact (h.grab _ _).recordRes _
        · split
          · dsimp only
            apply PL.grab
            apply PL.sched
            refine PL.of_same (w := cancelAwaiteds (removeHeld w _ (.res r)).1 _) ?_ (fun pl => rfl)
              (fun q pl => Iff.rfl) rfl
            exact (h.removeHeld_res _ _).cancelAwaiteds _
          · exact h.acquireStep _ _
  case release r =>
    simp only [execCmd]
    split
    · exact h
    · split
      · exact h
      · apply PL.signal
        apply PL.recordRes
        refine PL.of_same (w := (removeHeld w p (.res r)).1) (h.removeHeld_res _ _) (fun pl => rfl)
          (fun q pl => Iff.rfl) rfl
  case waitProc q =>
    simp only [execCmd]
    split
    · exact h
    · split
      · exact h
      · apply PL.block
        exact (h.addAwait p (.proc q)).modProc_keep _ _ (fun _ => rfl)
  case waitEvent v =>
    simp only [execCmd]
    split
    · exact h
    · apply PL.block
      apply PL.addAwait
      exact h.frame rfl rfl
  case condCancel c q =>
    simp only [execCmd]
    split
    · exact h
    · split
      · exact h
      · dsimp only
        split
        · exact (h.guardRemove _ _).sched _ _ _ _ _
        · exact h.guardRemove _ _
  all_goals simp only [execCmd]
  all_goals pl_peel h hp 14

end CimbaModel.Sim.S4
