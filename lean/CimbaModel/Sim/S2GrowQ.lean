/-
  S2 — histories only grow (C14): buffers, object queues, priority queues, resources.
-/
import CimbaModel.Sim.S2Grow

namespace CimbaModel.Sim
open CimbaModel CimbaModel.Event CimbaModel.Generated CimbaModel.KPQ
open CimbaModel.HashHeap (HTag Item Order HH)

/-- relative to the state `w0` right after the clock tick of the current event -/
def GBuf (w0 w : World) : Prop := w.now = w0.now ∧ GrowArr bufOps w0.now w0.bufs w.bufs
def GOQ (w0 w : World) : Prop := w.now = w0.now ∧ GrowArr oqOps w0.now w0.oqs w.oqs
def GPQ (w0 w : World) : Prop := w.now = w0.now ∧ GrowArr pqOps w0.now w0.pqs w.pqs
def GRes (w0 w : World) : Prop := w.now = w0.now ∧ GrowArr resOps w0.now w0.res w.res

/-! ### buffers -/

theorem GBuf.of_eq {w0 w w' : World} (h : w'.bufs = w.bufs) (hn : w'.now = w.now) (hi : GBuf w0 w) : GBuf w0 w' := by
  unfold GBuf; rw [h, hn]; exact hi

theorem GBuf.bufGetLoop {w0 w : World} (p : Pid) (b rem got : Nat) (h : GBuf w0 w) : GBuf w0 (bufGetLoop w p b rem got).1 := by
  obtain ⟨hn, h⟩ := h
  refine ⟨by rw [← hn]; simp, ?_⟩
  unfold Sim.bufGetLoop
  split
  · simpa using h
  · rename_i x hx
    split
    · (repeat' split) <;> simp [recordBuf_eq, hn] <;> grow_close
    · split
      rename_i heq
      split at heq <;> cases heq <;> simp [recordBuf_eq, hn] <;> grow_close

theorem GBuf.bufPutLoop {w0 w : World} (p : Pid) (b rem left : Nat) (h : GBuf w0 w) : GBuf w0 (bufPutLoop w p b rem left).1 := by
  obtain ⟨hn, h⟩ := h
  refine ⟨by rw [← hn]; simp, ?_⟩
  unfold Sim.bufPutLoop
  split
  · simpa using h
  · rename_i x hx
    split
    · (repeat' split) <;> simp [recordBuf_eq, hn] <;> grow_close
    · split
      rename_i heq
      split at heq <;> cases heq <;> simp [recordBuf_eq, hn] <;> grow_close

theorem GBuf.setRecording {w0 w : World} (kind idx : Nat) (on : Bool) (h : GBuf w0 w) : GBuf w0 (setRecording w kind idx on) := by
  by_cases hk : kind = 2
  · subst hk
    obtain ⟨hn, h⟩ := h
    refine ⟨by rw [← hn]; exact (setRecording_fp w 2 idx on).2.2.2.2.2.1, ?_⟩
    unfold Sim.setRecording
    dsimp only
    split
    · show GrowArr bufOps w0.now w0.bufs (recordBuf { w with bufs := w.bufs.modify idx fun x => { x with recording := on } } idx).bufs
      rw [recordBuf_eq]
      simp [hn]
      grow_close
    · show GrowArr bufOps w0.now w0.bufs ((recordBuf w idx).bufs.modify idx fun x => { x with recording := on })
      rw [recordBuf_eq]
      simp [hn]
      grow_close
  · have hf := setRecording_fp w kind idx on
    refine GBuf.of_eq (hf.2.2.1 ?_) hf.2.2.2.2.2.1 h
    unfold recMask
    split <;> simp_all

theorem GBuf.core (w0 : World) : PreservedCore (GBuf w0) where
  same hs h := GBuf.of_eq hs.2.2.1 hs.2.2.2.2.2.1 h
  finish w p v st h := GBuf.of_eq (by simp) (by simp) h
  clear w p f _ _ _ h := GBuf.of_eq (by simp) (by simp) h
  exec w p c _ h := by
    by_cases hm : (cmdMask c).bufs = false
    · exact GBuf.of_eq ((execCmd_fp w p c).2.2.1 hm) (execCmd_fp w p c).2.2.2.2.2.1 h
    · cases c <;> simp [cmdMask] at hm
      case bufGet b n => simp only [execCmd]; split; exact h; exact GBuf.bufGetLoop _ _ _ _ h
      case bufPut b n => simp only [execCmd]; split; exact h; exact GBuf.bufPutLoop _ _ _ _ h
      case recStart kind idx => exact GBuf.setRecording _ _ _ h
      case recStop kind idx => exact GBuf.setRecording _ _ _ h
  resume w p f sig _ _ h := by
    by_cases hm : (frameMask f).bufs = false
    · exact GBuf.of_eq ((resumeFrame_fp w p f sig).2.2.1 hm) (resumeFrame_fp w p f sig).2.2.2.2.2.1 h
    · cases f <;> simp [frameMask] at hm
      case bufGet b rem got =>
        simp only [resumeFrame]
        split
        · exact h
        · split
          · exact GBuf.bufGetLoop _ _ _ _ (GBuf.of_eq (by simp) (by simp) h)
          · exact GBuf.of_eq (by simp) (by simp) h
      case bufPut b rem left =>
        simp only [resumeFrame]
        split
        · exact h
        · split
          · exact GBuf.bufPutLoop _ _ _ _ (GBuf.of_eq (by simp) (by simp) h)
          · exact GBuf.of_eq (by simp) (by simp) h

/-! ### object queues -/

theorem GOQ.of_eq {w0 w w' : World} (h : w'.oqs = w.oqs) (hn : w'.now = w.now) (hi : GOQ w0 w) : GOQ w0 w' := by
  unfold GOQ; rw [h, hn]; exact hi

theorem GOQ.oqGetLoop {w0 w : World} (p : Pid) (q : Nat) (h : GOQ w0 w) : GOQ w0 (oqGetLoop w p q).1 := by
  obtain ⟨hn, h⟩ := h
  refine ⟨by rw [← hn]; simp, ?_⟩
  unfold Sim.oqGetLoop
  split
  · simpa using h
  · rename_i x hx
    split
    · simp [recordOQ_eq, hn]; grow_close
    · simpa using h

theorem GOQ.oqPutLoop {w0 w : World} (p : Pid) (q obj : Nat) (h : GOQ w0 w) : GOQ w0 (oqPutLoop w p q obj).1 := by
  obtain ⟨hn, h⟩ := h
  refine ⟨by rw [← hn]; simp, ?_⟩
  unfold Sim.oqPutLoop
  split
  · simpa using h
  · rename_i x hx
    split
    · simp [recordOQ_eq, hn]; grow_close
    · simpa using h

theorem GOQ.setRecording {w0 w : World} (kind idx : Nat) (on : Bool) (h : GOQ w0 w) : GOQ w0 (setRecording w kind idx on) := by
  by_cases hk : kind = 3
  · subst hk
    obtain ⟨hn, h⟩ := h
    refine ⟨by rw [← hn]; exact (setRecording_fp w 3 idx on).2.2.2.2.2.1, ?_⟩
    unfold Sim.setRecording
    dsimp only
    split
    · show GrowArr oqOps w0.now w0.oqs (recordOQ { w with oqs := w.oqs.modify idx fun x => { x with recording := on } } idx).oqs
      rw [recordOQ_eq]
      simp [hn]
      grow_close
    · show GrowArr oqOps w0.now w0.oqs ((recordOQ w idx).oqs.modify idx fun x => { x with recording := on })
      rw [recordOQ_eq]
      simp [hn]
      grow_close
  · have hf := setRecording_fp w kind idx on
    refine GOQ.of_eq (hf.2.2.2.1 ?_) hf.2.2.2.2.2.1 h
    unfold recMask
    split <;> simp_all

theorem GOQ.core (w0 : World) : PreservedCore (GOQ w0) where
  same hs h := GOQ.of_eq hs.2.2.2.1 hs.2.2.2.2.2.1 h
  finish w p v st h := GOQ.of_eq (by simp) (by simp) h
  clear w p f _ _ _ h := GOQ.of_eq (by simp) (by simp) h
  exec w p c _ h := by
    by_cases hm : (cmdMask c).oqs = false
    · exact GOQ.of_eq ((execCmd_fp w p c).2.2.2.1 hm) (execCmd_fp w p c).2.2.2.2.2.1 h
    · cases c <;> simp [cmdMask] at hm
      case oqGet q => simp only [execCmd]; split; exact h; exact GOQ.oqGetLoop _ _ h
      case oqPut q obj => simp only [execCmd]; split; exact h; exact GOQ.oqPutLoop _ _ _ h
      case recStart kind idx => exact GOQ.setRecording _ _ _ h
      case recStop kind idx => exact GOQ.setRecording _ _ _ h
  resume w p f sig _ _ h := by
    by_cases hm : (frameMask f).oqs = false
    · exact GOQ.of_eq ((resumeFrame_fp w p f sig).2.2.2.1 hm) (resumeFrame_fp w p f sig).2.2.2.2.2.1 h
    · cases f <;> simp [frameMask] at hm
      case oqGet q =>
        simp only [resumeFrame]
        split
        · exact h
        · split
          · exact GOQ.oqGetLoop _ _ (GOQ.of_eq (by simp) (by simp) h)
          · exact GOQ.of_eq (by simp) (by simp) h
      case oqPut q obj =>
        simp only [resumeFrame]
        split
        · exact h
        · split
          · exact GOQ.oqPutLoop _ _ _ (GOQ.of_eq (by simp) (by simp) h)
          · exact GOQ.of_eq (by simp) (by simp) h

/-! ### priority queues -/

theorem GPQ.of_eq {w0 w w' : World} (h : w'.pqs = w.pqs) (hn : w'.now = w.now) (hi : GPQ w0 w) : GPQ w0 w' := by
  unfold GPQ; rw [h, hn]; exact hi

theorem GPQ.pqGetLoop {w0 w : World} (p : Pid) (k : Nat) (h : GPQ w0 w) : GPQ w0 (pqGetLoop w p k).1 := by
  obtain ⟨hn, h⟩ := h
  refine ⟨by rw [← hn]; simp, ?_⟩
  unfold Sim.pqGetLoop
  split
  · simpa using h
  · rename_i x hx
    split
    · split
      · simp [recordPQ_eq, hn]; grow_close
      · simpa using h
      · simpa using h
    · simpa using h

theorem GPQ.pqPutLoop {w0 w : World} (p : Pid) (k obj : Nat) (pri : Int) (v : Nat) (h : GPQ w0 w) :
    GPQ w0 (pqPutLoop w p k obj pri v).1 := by
  obtain ⟨hn, h⟩ := h
  refine ⟨by rw [← hn]; simp, ?_⟩
  unfold Sim.pqPutLoop
  split
  · simpa using h
  · rename_i x hx
    split
    · split
      · simp [recordPQ_eq, hn]; grow_close
      · simpa using h
    · simpa using h

theorem GPQ.pqCancel {w0 w : World} (p : Pid) (k v : Nat) (h : GPQ w0 w) : GPQ w0 (execCmd w p (.pqCancel k v)).1 := by
  obtain ⟨hn, h⟩ := h
  refine ⟨by rw [← hn]; exact (execCmd_fp w p (.pqCancel k v)).2.2.2.2.2.1, ?_⟩
  simp only [execCmd]
  split
  · exact h
  · rename_i x hx
    split
    · exact h
    · split
      · split
        · simp [recordPQ_eq, hn]; grow_close
        · simp; grow_close
      · simpa using h

theorem GPQ.pqReprio {w0 w : World} (p : Pid) (k v : Nat) (pri : Int) (h : GPQ w0 w) :
    GPQ w0 (execCmd w p (.pqReprio k v pri)).1 := by
  obtain ⟨hn, h⟩ := h
  refine ⟨by rw [← hn]; exact (execCmd_fp w p (.pqReprio k v pri)).2.2.2.2.2.1, ?_⟩
  simp only [execCmd]
  split
  · exact h
  · rename_i x hx
    split
    · exact h
    · split
      · simp; grow_close
      · simpa using h

theorem GPQ.setRecording {w0 w : World} (kind idx : Nat) (on : Bool) (h : GPQ w0 w) : GPQ w0 (setRecording w kind idx on) := by
  by_cases hk : kind = 0 ∨ kind = 1 ∨ kind = 2 ∨ kind = 3
  · have hf := setRecording_fp w kind idx on
    refine GPQ.of_eq (hf.2.2.2.2.1 ?_) hf.2.2.2.2.2.1 h
    unfold recMask
    rcases hk with rfl | rfl | rfl | rfl <;> rfl
  · obtain ⟨hn, h⟩ := h
    refine ⟨by rw [← hn]; exact (setRecording_fp w kind idx on).2.2.2.2.2.1, ?_⟩
    unfold Sim.setRecording
    have e0 : kind ≠ 0 := fun e => hk (Or.inl e)
    have e1 : kind ≠ 1 := fun e => hk (Or.inr (Or.inl e))
    have e2 : kind ≠ 2 := fun e => hk (Or.inr (Or.inr (Or.inl e)))
    have e3 : kind ≠ 3 := fun e => hk (Or.inr (Or.inr (Or.inr e)))
    have hon : GrowArr pqOps w0.now w0.pqs
        (recordPQ { w with pqs := w.pqs.modify idx fun x => { x with recording := on } } idx).pqs := by
      rw [recordPQ_eq]
      simp [hn]
      grow_close
    have hoff : GrowArr pqOps w0.now w0.pqs ((recordPQ w idx).pqs.modify idx fun x => { x with recording := on }) := by
      rw [recordPQ_eq]
      simp [hn]
      grow_close
    dsimp only
    split
    · split <;> first | contradiction | (split <;> first | contradiction | exact hon)
    · split <;> first | contradiction | (split <;> first | contradiction | exact hoff)

theorem GPQ.core (w0 : World) : PreservedCore (GPQ w0) where
  same hs h := GPQ.of_eq hs.2.2.2.2.1 hs.2.2.2.2.2.1 h
  finish w p v st h := GPQ.of_eq (by simp) (by simp) h
  clear w p f _ _ _ h := GPQ.of_eq (by simp) (by simp) h
  exec w p c _ h := by
    by_cases hm : (cmdMask c).pqs = false
    · exact GPQ.of_eq ((execCmd_fp w p c).2.2.2.2.1 hm) (execCmd_fp w p c).2.2.2.2.2.1 h
    · cases c <;> simp [cmdMask] at hm
      case pqGet k => simp only [execCmd]; split; exact h; exact GPQ.pqGetLoop _ _ h
      case pqPut k obj pri v => simp only [execCmd]; split; exact h; exact GPQ.pqPutLoop _ _ _ _ _ h
      case pqCancel k v => exact GPQ.pqCancel _ _ _ h
      case pqReprio k v pri => exact GPQ.pqReprio _ _ _ _ h
      case recStart kind idx => exact GPQ.setRecording _ _ _ h
      case recStop kind idx => exact GPQ.setRecording _ _ _ h
  resume w p f sig _ _ h := by
    by_cases hm : (frameMask f).pqs = false
    · exact GPQ.of_eq ((resumeFrame_fp w p f sig).2.2.2.2.1 hm) (resumeFrame_fp w p f sig).2.2.2.2.2.1 h
    · cases f <;> simp [frameMask] at hm
      case pqGet k =>
        simp only [resumeFrame]
        split
        · exact h
        · split
          · exact GPQ.pqGetLoop _ _ (GPQ.of_eq (by simp) (by simp) h)
          · exact GPQ.of_eq (by simp) (by simp) h
      case pqPut k obj pri v =>
        simp only [resumeFrame]
        split
        · exact h
        · split
          · exact GPQ.pqPutLoop _ _ _ _ _ (GPQ.of_eq (by simp) (by simp) h)
          · exact GPQ.of_eq (by simp) (by simp) h

end CimbaModel.Sim
