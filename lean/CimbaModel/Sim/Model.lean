/-
  Executable model of the process layer (DESIGN.md §3.4, Appendix A):
  cmb_process.c, cmb_resourceguard.c, cmb_resource.c, cmb_resourcepool.c, cmb_buffer.c,
  cmb_objectqueue.c, cmb_priorityqueue.c, cmb_condition.c and the recording calls, on top of the
  event kernel model.  Waiting lists, holder lists and object priority queues are concrete
  hashheaps (HashHeap.Model) under the ordering functions regenerated from the C sources, so that
  heap-array iteration order (condition signals) is mirrored exactly.

  A blocking library call yields in the middle; it is modelled as a resumable procedure: the process
  records a `Frame` saying where it is suspended, `resumeProc` continues it with the yield's result.
  Every internal cmb_event_schedule of the C code is reproduced in the same order, so handles and
  FIFO tie-breaks, hence whole trajectories, agree with the implementation.

  Core Lean only (linked into the compiled driver simmain).
-/
import CimbaModel.Event.Model
import CimbaModel.HashHeap.Model
import CimbaModel.Generated.Orders

namespace CimbaModel.Sim
open CimbaModel CimbaModel.Event CimbaModel.Generated
open CimbaModel.HashHeap (HTag Item Order HH)

abbrev Pid := Nat

/-! ### constants -/
def sigSuccess : Int := 0
def sigPreempted : Int := -1
def sigInterrupted : Int := -2
def sigStopped : Int := -3
def sigCancelled : Int := -4
def sigTimeout : Int := -5

/-- action kinds of internally scheduled events (item.a of the event tag) -/
def aStart : Nat := 1
def aTime : Nat := 2
def aProc : Nat := 3
def aEvent : Nat := 4
def aRes : Nat := 5
def aPreempt : Nat := 6
def aCond : Nat := 7
def aIntr : Nat := 8
def aResume : Nat := 9
def aUser : Nat := 10

def encSig (s : Int) : Nat := (s % (2 ^ 64 : Int)).toNat
def decSig (n : Nat) : Int := if n < 2 ^ 63 then n else (n : Int) - 2 ^ 64

inductive Await where
  | time (h : Nat) | guard (g : Nat) | proc (p : Pid) | event (h : Nat)
  deriving DecidableEq, Repr, Inhabited

inductive HoldRef where
  | res (r : Nat) | pool (p : Nat)
  deriving DecidableEq, Repr, Inhabited

inductive Status where
  | created | running | finished
  deriving DecidableEq, Repr, Inhabited

def Status.toNat : Status → Nat
  | .created => 0 | .running => 1 | .finished => 2

/-- demand predicates of guards -/
inductive Demand where
  | resAvail (r : Nat) | poolAvail (p : Nat)
  | bufContent (b : Nat) | bufSpace (b : Nat)
  | oqContent (q : Nat) | oqSpace (q : Nat)
  | pqContent (k : Nat) | pqSpace (k : Nat)
  | cond (kind a b : Nat)
  deriving DecidableEq, Repr, Inhabited

inductive Cmd where
  | hold (d : Int) | yield
  | timerAdd (v : Nat) (d sig : Int) | timerSet (v : Nat) (d sig : Int) | timerCancel (v : Nat) | timersClear
  | resume (p : Pid) (sig : Int) | interrupt (p : Pid) (sig pri : Int) | stop (p : Pid) (val : Int)
  | start (p : Pid) | exit (val : Int) | prioSet (p : Pid) (v : Int)
  | waitProc (p : Pid) | schedUser (v : Nat) (d pri : Int) | cancelUser (v : Nat) | waitEvent (v : Nat)
  | cancelUserAll
  | timersClearOf (q : Pid) | timerAddOf (q : Pid) (d sig : Int)
  | acquire (r : Nat) | preempt (r : Nat) | release (r : Nat)
  | poolAcquire (p n : Nat) | poolPreempt (p n : Nat) | poolRelease (p n : Nat)
  | bufGet (b n : Nat) | bufPut (b n : Nat)
  | oqGet (q : Nat) | oqPut (q obj : Nat)
  | pqGet (k : Nat) | pqPut (k obj : Nat) (pri : Int) (v : Nat) | pqCancel (k v : Nat) | pqReprio (k v : Nat) (pri : Int)
  | pqPos (k v : Nat)
  | condWait (c kind a b : Nat) | condSignal (c : Nat) | condCancel (c : Nat) (p : Pid) | condRemove (c : Nat) (p : Pid)
  | setFlag (k : Nat) (v : Int)
  | recStart (kind idx : Nat) | recStop (kind idx : Nat)
  deriving Repr, Inhabited

/-- where a suspended process is inside a blocking library call -/
inductive Frame where
  | hold (h : Nat)
  | yield
  | waitProc (q : Pid)
  | waitEvent (h : Nat)
  | acquire (r : Nat)
  | pool (p rem initiallyHeld : Nat) (preempt : Bool)
  | bufGet (b rem got : Nat)
  | bufPut (b rem left : Nat)
  | oqGet (q : Nat) | oqPut (q obj : Nat)
  | pqGet (k : Nat) | pqPut (k obj : Nat) (pri : Int) (v : Nat)
  | condWait (c : Nat)
  deriving Repr, Inhabited

structure Proc where
  prio : Int := 0
  status : Status := .created
  awaits : List Await := []
  waiters : List Pid := []
  held : List HoldRef := []
  blocked : Option Frame := none
  pc : Nat := 0
  script : Array (Cmd × String) := #[]
  vars : Array Nat := Array.replicate 16 0
  exitVal : Int := 0
  deriving Inhabited

structure Guard where
  q : HH
  observers : List Nat := []     -- guard ids, LIFO
  /-- demand predicates by key (the C code stores a function pointer and context in the tag) -/
  demands : List (Nat × Demand) := []
  isCond : Bool := false

structure Res where
  holder : Option Pid := none
  guard : Nat
  recording : Bool := false
  hist : Array (Int × Int) := #[]      -- (value, time)

structure Pool where
  cap : Nat
  inUse : Nat := 0
  holders : HH
  guard : Nat
  recording : Bool := false
  hist : Array (Int × Int) := #[]

structure Buf where
  cap : Nat
  level : Nat := 0
  /-- ghost: total amount put / got so far (the implementation has no such fields) -/
  putTotal : Nat := 0
  getTotal : Nat := 0
  front : Nat
  rear : Nat
  recording : Bool := false
  hist : Array (Int × Int) := #[]

structure OQ where
  cap : Nat
  items : List Nat := []      -- head first
  /-- ghost: every object put / delivered so far, oldest first -/
  putLog : List Nat := []
  gotLog : List Nat := []
  front : Nat
  rear : Nat
  recording : Bool := false
  hist : Array (Int × Int) := #[]

structure PQ where
  cap : Nat
  queue : HH
  /-- ghost: handles put, delivered, cancelled so far -/
  putLog : List Nat := []
  gotLog : List Nat := []
  cancelLog : List Nat := []
  front : Nat
  rear : Nat
  recording : Bool := false
  hist : Array (Int × Int) := #[]

structure World where
  ev : EvQ := {}
  evWaiters : List (Nat × List Pid) := []
  procs : Array Proc := #[]
  guards : Array Guard := #[]
  res : Array Res := #[]
  pools : Array Pool := #[]
  bufs : Array Buf := #[]
  oqs : Array OQ := #[]
  pqs : Array PQ := #[]
  conds : Array Nat := #[]         -- guard id of each condition
  flags : Array Int := Array.replicate 8 0
  gvars : Array Nat := Array.replicate 16 0
  log : Array String := #[]
  fault : Option String := none
  dispatched : Nat := 0

def unlimited : Nat := 2 ^ 64 - 1

/-! ### small helpers -/

def World.fail (w : World) (m : String) : World :=
  if w.fault.isSome then w else { w with fault := some m }

def World.emit (w : World) (l : String) : World := { w with log := w.log.push l }

def World.proc (w : World) (p : Pid) : Proc := w.procs.getD p {}

def World.modProc (w : World) (p : Pid) (f : Proc → Proc) : World :=
  { w with procs := w.procs.modify p f }

def World.now (w : World) : Int := w.ev.now

def mkHH (e : Nat) : HH :=
  match HashHeap.init e with
  | .ok s => s
  | .error _ => { heap := #[], hash := #[], count := 0, exp := e, expInit := e, counter := 0 }

def removeFirst {α} [DecidableEq α] (l : List α) (a : α) : List α × Bool :=
  match l with
  | [] => ([], false)
  | x :: xs => if x = a then (xs, true) else
      let (r, f) := removeFirst xs a
      (x :: r, f)

/-- `cmb_event_schedule` on behalf of the library -/
def sched (w : World) (act subj : Nat) (sig : Int) (t pri : Int) : World × Nat :=
  match schedule w.ev act subj (encSig sig) t pri with
  | .ok (ev', h) => ({ w with ev := ev' }, h)
  | .error f => (w.fail s!"schedule in the past: {f}", 0)

def popWaiters (ws : List (Nat × List Pid)) (h : Nat) : List Pid × List (Nat × List Pid) :=
  ((ws.lookup h).getD [], ws.filter (·.1 ≠ h))

/-- `wake_event_waiters` -/
def wakeEventWaiters (w : World) (ps : List Pid) (sig : Int) : World :=
  ps.foldl (fun w q => (sched w aEvent (q + 1) sig w.now (w.proc q).prio).1) w

/-- `cmb_event_cancel`: cancels and notifies the event's waiters with CANCELLED -/
def evCancel (w : World) (h : Nat) : World × Bool :=
  let (ev', r) := cancel w.ev h
  if r then
    let (ps, ws') := popWaiters w.evWaiters h
    (wakeEventWaiters { w with ev := ev', evWaiters := ws' } ps sigCancelled, true)
  else (w, false)

/-- pending events whose subject is process `p`, in an unspecified order (here: queue list order) -/
def pendingOf (w : World) (p : Pid) : List Nat :=
  (w.ev.pending.filter fun e => e.item.b = p + 1).map (·.key)

/-- `cmb_event_pattern_cancel(ANY, p, ANY)` -/
def cancelAllFor (w : World) (p : Pid) : World :=
  (pendingOf w p).foldl (fun w h => (evCancel w h).1) w

/-- cancel pending events for `p` with the given action (and signal) -/
def cancelKindFor (w : World) (p : Pid) (act : Nat) (sig : Option Int) : World × Nat :=
  let hs := (w.ev.pending.filter fun e => e.item.b = p + 1 && e.item.a = act &&
      (match sig with | some s => e.item.c = encSig s | none => true)).map (·.key)
  (hs.foldl (fun w h => (evCancel w h).1) w, hs.length)

/-- handles of the pending user events (action `aUser`), in queue list order -/
def userPending (w : World) : List Nat :=
  (w.ev.pending.filter fun e => e.item.a = aUser).map (·.key)

/-- `cmb_event_pattern_cancel(user_action, ANY, ANY)`: every match is cancelled through `cmb_event_cancel`,
    so the waiters of each cancelled event are woken with CANCELLED; returns the number of matches.
    The library cancels in heap-array order, which the abstract queue does not have (here: list order, as in
    `cancelAllFor`); the order only decides which waiter gets which of the new handles (notes/S5.md) -/
def cancelUserAll (w : World) : World × Nat :=
  let hs := userPending w
  (hs.foldl (fun w h => (evCancel w h).1) w, hs.length)

/-! ### recording -/

def recordRes (w : World) (r : Nat) : World :=
  match w.res[r]? with
  | some x => if x.recording then
      { w with res := w.res.set! r { x with hist := x.hist.push (if x.holder.isSome then 1 else 0, w.now) } } else w
  | none => w

def recordPool (w : World) (p : Nat) : World :=
  match w.pools[p]? with
  | some x => if x.recording then
      { w with pools := w.pools.set! p { x with hist := x.hist.push ((x.inUse : Int), w.now) } } else w
  | none => w

def recordBuf (w : World) (b : Nat) : World :=
  match w.bufs[b]? with
  | some x => if x.recording then
      { w with bufs := w.bufs.set! b { x with hist := x.hist.push ((x.level : Int), w.now) } } else w
  | none => w

def recordOQ (w : World) (q : Nat) : World :=
  match w.oqs[q]? with
  | some x => if x.recording then
      { w with oqs := w.oqs.set! q { x with hist := x.hist.push ((x.items.length : Int), w.now) } } else w
  | none => w

def recordPQ (w : World) (k : Nat) : World :=
  match w.pqs[k]? with
  | some x => if x.recording then
      { w with pqs := w.pqs.set! k { x with hist := x.hist.push ((x.queue.count : Int), w.now) } } else w
  | none => w

/-! ### guards -/

def heldAmount (w : World) (p : Nat) (pid : Pid) : Nat :=
  match w.pools[p]? with
  | some x =>
    if x.holders.count = 0 then 0 else
    match HashHeap.findIndex x.holders (pid + 1) with
    | .ok 0 => 0
    | .ok i => (x.holders.heap.getD i {}).item.b
    | .error _ => 0
  | none => 0

def evalDemand (w : World) : Demand → Bool
  | .resAvail r => (w.res[r]?.map (·.holder.isNone)).getD false
  | .poolAvail p => (w.pools[p]?.map fun x => decide (x.cap - x.inUse > 0)).getD false
  | .bufContent b => (w.bufs[b]?.map fun x => decide (x.level > 0)).getD false
  | .bufSpace b => (w.bufs[b]?.map fun x => decide (x.level < x.cap)).getD false
  | .oqContent q => (w.oqs[q]?.map fun x => decide (x.items.length > 0)).getD false
  | .oqSpace q => (w.oqs[q]?.map fun x => decide (x.items.length < x.cap)).getD false
  | .pqContent k => (w.pqs[k]?.map fun x => decide (x.queue.count > 0)).getD false
  | .pqSpace k => (w.pqs[k]?.map fun x => decide (x.queue.count < x.cap)).getD false
  | .cond kind a b =>
    match kind with
    | 0 => decide (w.flags.getD a 0 ≠ 0)
    | 1 => (w.res[a]?.map (·.holder.isNone)).getD false
    | 2 => (w.pools[a]?.map fun x => decide (x.cap - x.inUse ≥ b)).getD false
    | 3 => (w.bufs[a]?.map fun x => decide (x.level ≥ b)).getD false
    | 4 => (w.oqs[a]?.map fun x => decide (x.items.length ≥ b)).getD false
    | _ => false

def guardEnqueued (w : World) (g : Nat) (p : Pid) : Bool :=
  match w.guards[g]? with
  | some gd => match HashHeap.isEnqueued gd.q (p + 1) with | .ok b => b | .error _ => false
  | none => false

def setGuardQ (w : World) (g : Nat) (q : HH) : World :=
  { w with guards := w.guards.modify g fun gd => { gd with q := q } }

/-- remove `p` from the waiting list of `g` (hashheap remove); true if it was queued -/
def guardRemove (w : World) (g : Nat) (p : Pid) : World × Bool :=
  match w.guards[g]? with
  | some gd =>
    match HashHeap.remove guard_queue_check gd.q (p + 1) with
    | .ok (q', r) => (setGuardQ w g q', r)
    | .error f => (w.fail s!"guard remove: {f}", false)
  | none => (w, false)

/-- `cmb_condition_signal`: every waiter (in heap-array order) whose predicate holds is woken and removed -/
def condSignal (w : World) (g : Nat) : World × Bool :=
  match w.guards[g]? with
  | none => (w, false)
  | some gd =>
    if gd.q.count = 0 then (w, false) else
    let tags := HashHeap.liveTags gd.q
    let sat := tags.filter fun t => evalDemand w ((gd.demands.lookup t.key).getD (.cond 99 0 0))
    let w := sat.foldl (fun w t =>
      let pid := t.key - 1
      (sched w aCond (pid + 1) sigSuccess w.now (w.proc pid).prio).1) w
    let w := sat.foldl (fun w t => (guardRemove w g (t.key - 1)).1) w
    (w, sat.length > 0)

/-- the guard carries a handler for forwarded signals (`on_signal != NULL`): `cmb_condition_initialize` installs one on the
    guard of every condition variable, nobody else does — so: `g` is the guard of a condition -/
def hasHandler (w : World) (g : Nat) : Bool := w.conds.contains g

/-- `cmb_resourceguard_signal` (`fwd = false`) and the delivery of a forwarded signal to an observer (`fwd = true`:
    the body of the loop of `forward_signal`), both followed by `forward_signal` to the guard's own observers.
    A forwarded signal reaches an observer with a handler (a condition) as `cmb_condition_signal` — every waiter is
    evaluated —, any other observer as a plain `cmb_resourceguard_signal` (front waiter only).
    `fuel` bounds observer chains (acyclic by precondition) -/
def guardSignalF : Bool → Nat → World → Nat → World
  | _, 0, w, _ => w.fail "observer chain too deep (cycle?)"
  | fwd, fuel + 1, w, g =>
    match w.guards[g]? with
    | none => w
    | some gd =>
      let w :=
        if fwd && hasHandler w g then (condSignal w g).1 else
        if gd.q.count = 0 then w else
        match HashHeap.peek gd.q with
        | .ok (some t) =>
          let dem := (gd.demands.lookup t.key).getD (.cond 99 0 0)
          if evalDemand w dem then
            match HashHeap.dequeue guard_queue_check gd.q with
            | .ok (q', _) =>
              let w := setGuardQ w g q'
              let pid := t.key - 1
              (sched w aRes (pid + 1) sigSuccess w.now (w.proc pid).prio).1
            | .error f => w.fail s!"guard dequeue: {f}"
          else w
        | .ok none => w
        | .error f => w.fail s!"guard peek: {f}"
      gd.observers.foldl (fun w o => guardSignalF true fuel w o) w

/-- `cmb_resourceguard_signal` with forwarding to observers -/
def guardSignal (fuel : Nat) (w : World) (g : Nat) : World := guardSignalF false fuel w g

def signal (w : World) (g : Nat) : World := guardSignal 8 w g

/-- what a process leaving its wait on `g` for another reason must withdraw: its queue entry, or, if it
    has already been granted (dequeued, wake-up pending), that grant — which is then passed on -/
def guardWithdraw (w : World) (g : Nat) (p : Pid) : World :=
  let (w, was) := guardRemove w g p
  if was then w
  else
    let (w, n) := cancelKindFor w p aRes (some sigSuccess)
    if n > 0 then signal w g else w

/-! ### process bookkeeping -/

def addAwait (w : World) (p : Pid) (a : Await) : World := w.modProc p fun x => { x with awaits := a :: x.awaits }

def removeAwait (w : World) (p : Pid) (a : Await) : World × Bool :=
  let (l, f) := removeFirst (w.proc p).awaits a
  (w.modProc p fun x => { x with awaits := l }, f)

/-- remove the first awaitable of a kind (the `awaitable == NULL` form) -/
def removeAwaitKind (w : World) (p : Pid) (isKind : Await → Bool) : World × Bool :=
  let rec go : List Await → List Await × Bool
    | [] => ([], false)
    | x :: xs => if isKind x then (xs, true) else let (r, f) := go xs; (x :: r, f)
  let (l, f) := go (w.proc p).awaits
  (w.modProc p fun x => { x with awaits := l }, f)

def removeHeld (w : World) (p : Pid) (h : HoldRef) : World × Bool :=
  let l := (w.proc p).held
  (w.modProc p fun x => { x with held := l.filter (· ≠ h) }, l.contains h)

/-- `cmb_process_timer_add` -/
def timerAdd (w : World) (p : Pid) (d sig : Int) : World × Nat :=
  let (w, h) := sched w aTime (p + 1) sig (w.now + d) (w.proc p).prio
  (addAwait w p (.time h), h)

/-- `cmb_process_timer_cancel` -/
def timerCancel (w : World) (p : Pid) (h : Nat) : World × Bool :=
  let (w, _) := removeAwait w p (.time h)
  evCancel w h

/-- `cmb_process_timers_clear` -/
def timersClear (w : World) (p : Pid) : World :=
  let ts := (w.proc p).awaits.filterMap fun a => match a with | .time h => some h | _ => none
  let w := w.modProc p fun x => { x with awaits := x.awaits.filter fun a => match a with | .time _ => false | _ => true }
  ts.foldl (fun w h => (evCancel w h).1) w

/-- `cmi_process_cancel_awaiteds` -/
def cancelAwaiteds (w : World) (p : Pid) : World :=
  let aws := (w.proc p).awaits
  let w := w.modProc p fun x => { x with awaits := [] }
  let w := aws.foldl (fun (w : World) a =>
    match a with
    | .time h => (evCancel w h).1
    | .guard g => guardWithdraw w g p
    | .proc q => w.modProc q fun x => { x with waiters := (removeFirst x.waiters p).1 }
    | .event h =>
      { w with evWaiters := w.evWaiters.map fun (k, l) => if k = h then (k, (removeFirst l p).1) else (k, l) }) w
  cancelAllFor w p

/-- `wake_process_waiters` -/
def wakeWaiters (w : World) (p : Pid) (sig : Int) : World :=
  let ws := (w.proc p).waiters
  let w := w.modProc p fun x => { x with waiters := [] }
  ws.foldl (fun w q => (sched w aProc (q + 1) sig w.now (w.proc q).prio).1) w

def poolDropHolder (w : World) (pl : Nat) (p : Pid) : World :=
  match w.pools[pl]? with
  | none => w
  | some x =>
    match HashHeap.findIndex x.holders (p + 1) with
    | .ok 0 => w
    | .ok i =>
      let amt := (x.holders.heap.getD i {}).item.b
      match HashHeap.remove holder_queue_check x.holders (p + 1) with
      | .ok (h', _) =>
        let w := { w with pools := w.pools.set! pl { x with inUse := x.inUse - amt, holders := h' } }
        let w := recordPool w pl
        signal w x.guard
      | .error f => w.fail s!"pool drop: {f}"
    | .error f => w.fail s!"pool drop: {f}"

/-- `cmi_process_drop_resources` -/
def dropResources (w : World) (p : Pid) : World :=
  let hs := (w.proc p).held
  let w := w.modProc p fun x => { x with held := [] }
  hs.foldl (fun w h =>
    match h with
    | .res r =>
      match w.res[r]? with
      | some x =>
        let w := { w with res := w.res.set! r { x with holder := none } }
        let w := recordRes w r
        signal w x.guard
      | none => w
    | .pool pl => poolDropHolder w pl p) w

/-- the end of a process: by return / exit (`stopped = false`) or by stop -/
def finishProc (w : World) (p : Pid) (val : Int) (stopped : Bool) : World :=
  let w := if stopped then
      let w := cancelAwaiteds w p
      dropResources w p
    else
      let w := dropResources w p
      cancelAwaiteds w p
  let w := wakeWaiters w p (if stopped then sigStopped else sigSuccess)
  w.modProc p fun x => { x with status := .finished, exitVal := val, blocked := none }

/-! ### guard wait prologue / epilogue -/

def guardWaitEnter (w : World) (g : Nat) (p : Pid) (d : Demand) : World :=
  match w.guards[g]? with
  | none => w.fail "no such guard"
  | some gd =>
    match HashHeap.enqueue guard_queue_check gd.q ⟨p + 1, 0, 0, 0⟩ (p + 1) w.now (w.proc p).prio with
    | .ok (q', _) =>
      let w := { w with guards := w.guards.set! g { gd with q := q', demands := (p + 1, d) :: gd.demands.filter (·.1 ≠ p + 1) } }
      addAwait w p (.guard g)
    | .error f => w.fail s!"guard enqueue: {f}"

def guardWaitLeave (w : World) (g : Nat) (p : Pid) (sig : Int) : World :=
  let w := if sig ≠ sigSuccess then guardWithdraw w g p else w
  (removeAwait w p (.guard g)).1

/-! ### resources -/

def grab (w : World) (r : Nat) (p : Pid) : World :=
  match w.res[r]? with
  | some x =>
    let w := if x.holder.isSome then w.fail s!"grab of held resource {r}" else w
    let w := { w with res := w.res.set! r { x with holder := some p } }
    w.modProc p fun y => { y with held := .res r :: y.held }
  | none => w

/-! ### pools -/

def poolUpdateRecord (w : World) (pl : Nat) (p : Pid) (amount : Nat) : World :=
  match w.pools[pl]? with
  | none => w
  | some x =>
    let present := if x.holders.count = 0 then false else
      (match HashHeap.findIndex x.holders (p + 1) with | .ok i => i ≠ 0 | .error _ => false)
    if present then
      match HashHeap.findIndex x.holders (p + 1) with
      | .ok i =>
        let t := x.holders.heap.getD i {}
        let h' := { x.holders with heap := x.holders.heap.set! i { t with item := { t.item with b := t.item.b + amount } } }
        { w with pools := w.pools.set! pl { x with holders := h' } }
      | .error f => w.fail s!"pool record: {f}"
    else
      let w := w.modProc p fun y => { y with held := .pool pl :: y.held }
      match HashHeap.enqueue holder_queue_check x.holders ⟨p + 1, amount, 0, 0⟩ (p + 1) 0 (w.proc p).prio with
      | .ok (h', _) => { w with pools := w.pools.set! pl { x with holders := h' } }
      | .error f => w.fail s!"pool record enqueue: {f}"

def setPoolInUse (w : World) (pl : Nat) (v : Nat) : World :=
  { w with pools := w.pools.modify pl fun x => { x with inUse := v } }

def setHeldAmount (w : World) (pl : Nat) (p : Pid) (amount : Nat) : World :=
  match w.pools[pl]? with
  | some x =>
    match HashHeap.findIndex x.holders (p + 1) with
    | .ok i =>
      if i = 0 then w.fail "reset_holder: no record" else
      let t := x.holders.heap.getD i {}
      let h' := { x.holders with heap := x.holders.heap.set! i { t with item := { t.item with b := amount } } }
      { w with pools := w.pools.set! pl { x with holders := h' } }
    | .error f => w.fail s!"reset_holder: {f}"
  | none => w

end CimbaModel.Sim
