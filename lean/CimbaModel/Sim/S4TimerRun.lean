/-
  S4 — the strong timer invariant, part 5: activations, `dispatch`, initial states; the bundles `TT` and `TTH`.

  `TXI fr w` = `S3.TInv noEx w` ∧ `TX fr w`.  `TT w` is `TXI false w` (I_timers without the escape, `TL`, `VarInv`),
  `TTH w` is `TXI true w` (`TT` plus `FrInv`: what the recorded frames `hold k` / `priority_queue_put … v` may mention).
-/
import CimbaModel.Sim.S4TimerCmd

namespace CimbaModel.Sim.S4
open CimbaModel CimbaModel.Sim CimbaModel.Sim.S3 CimbaModel.Event CimbaModel.Generated CimbaModel.KPQ
open CimbaModel.HashHeap (HTag Item Order HH WF abs liveTags)

structure TXI (fr : Bool) (w : World) : Prop where
  t : TInv noEx w
  x : TX fr w

/-- the static validity of the programs -/
def TProgOk (w : World) : Prop :=
  ∀ (p : Pid) (i : Nat) (c : Cmd) (t : String), (w.proc p).script[i]? = some (c, t) → CmdOk c ∧ DurOk c ∧ VarsOk c

theorem TProgOk.ofStat {w w' : World} (h : TProgOk w) (hs : Stat w w') : TProgOk w' := by
  intro p i c t hc; rw [hs.script] at hc; exact h p i c t hc

variable {fr : Bool} {w : World} {p : Pid}

theorem TXI.fail (h : TXI fr w) (m : String) : TXI fr (w.fail m) := ⟨h.t.fail m, h.x.fail m⟩
theorem TXI.emit (h : TXI fr w) (l : String) : TXI fr (w.emit l) := ⟨h.t.emit l, h.x.emit l⟩

theorem TXI.modProc_ctl (h : TXI fr w) (p : Pid) (f : Proc → Proc)
    (hf : ∀ x, (f x).awaits = x.awaits ∧ (f x).vars = x.vars ∧
      (fr = true → (f x).blocked = x.blocked ∨ (f x).blocked = none)) : TXI fr (w.modProc p f) :=
  ⟨h.t.modProc_ctl p f (fun x => (hf x).1), h.x.modProc_ctl p f hf⟩

theorem TXI.execCmd (h : TXI fr w) (hlt : p < w.procs.size) (c : Cmd) (hd : DurOk c) (hv : VarsOk c) :
    TXI fr (execCmd w p c).1 :=
  ⟨h.t.execCmd_fst hlt c, h.x.execCmd_fst (h.t.tnd p) c hd hv⟩

theorem TXI.resumeFrame (h : TXI fr w) (f : Frame) (sig : Int)
    (hh : ∀ k, f = .hold k → ∀ e ∈ w.ev.pending, e.key = k → e.item.a = aTime → e.item.b = p + 1)
    (hq : ∀ k obj pri v, f = .pqPut k obj pri v → 4 ≤ v ∧ v < 8) : TXI fr (resumeFrame w p f sig).1 :=
  ⟨h.t.resumeFrame_fst f sig, h.x.resumeFrame_fst (h.t.tnd p) f sig hh hq⟩

theorem TXI.resumeFrame_ok (h : TXI fr w) (f : Frame) (sig : Int) (hf : FrameOk w p f) :
    TXI fr (Sim.resumeFrame w p f sig).1 := by
  refine h.resumeFrame f sig ?_ ?_
  · intro k hk; subst hk; exact fun e he h1 _ => (hf.2 e he h1).2
  · intro k obj pri v hk; subst hk; exact hf

theorem TXI.finishProc (h : TXI fr w) (p : Pid) (v : Int) (s : Bool) : TXI fr (finishProc w p v s) :=
  ⟨h.t.finishProc p v s, h.x.finishProc p v s⟩

theorem TXI.removeAwaitKind_fst (h : TXI fr w) (p : Pid) (k : Await → Bool) (hk : ∀ a, k a = true → isTimeA a = false) :
    TXI fr (removeAwaitKind w p k).1 :=
  ⟨h.t.removeAwaitKind_other p k hk, h.x.removeAwaitKind_fst p k⟩

theorem TXI.cancelAwaiteds (h : TXI fr w) (p : Pid) : TXI fr (cancelAwaiteds w p) :=
  ⟨h.t.cancelAwaiteds p, h.x.cancelAwaiteds p⟩

theorem TXI.startProc (h : TXI fr w) (p : Pid) :
    TXI fr (w.modProc p fun y => { y with status := .running, pc := 0, blocked := none }) :=
  h.modProc_ctl p _ (fun _ => ⟨rfl, rfl, fun _ => Or.inr rfl⟩)

/-! ### activations -/

theorem TXI.runScript : ∀ (fuel : Nat) {w : World} {p : Pid}, TXI fr w →
    (∀ (i : Nat) (c : Cmd) (t : String), (w.proc p).script[i]? = some (c, t) → DurOk c ∧ VarsOk c) → TXI fr (runScript fuel w p) := by
  intro fuel
  induction fuel with
  | zero => intro w p h _; exact h.fail _
  | succ fuel ih =>
    intro w p h hprog
    simp only [Sim.runScript]
    split
    · exact (h.emit _).finishProc p 0 false
    · rename_i c text hs
      have hlt : p < w.procs.size := by
        rcases Nat.lt_or_ge p w.procs.size with h' | h'
        · exact h'
        · rw [script_none_of_oob h'] at hs; cases hs
      obtain ⟨hd, hv⟩ := hprog _ c text hs
      have hx := (h.emit s!"c {p} {(w.proc p).pc} {w.now} {text}").execCmd (p := p) hlt c hd hv
      have hst : Stat w (Sim.execCmd (w.emit s!"c {p} {(w.proc p).pc} {w.now} {text}") p c).1 := by
        have h0 := Stat.refl w; stat
      rcases hres : Sim.execCmd (w.emit s!"c {p} {(w.proc p).pc} {w.now} {text}") p c with ⟨w1, out⟩
      rw [hres] at hx hst
      cases out with
      | ret v extra =>
        refine ih ((hx.emit _).modProc_ctl p _ (fun _ => ⟨rfl, rfl, fun _ => Or.inl rfl⟩)) ?_
        intro i c' t' hc
        have : Stat w ((w1.emit (s!"r {p} {(w.proc p).pc} {w1.now} {v}" ++ (if extra = "" then "" else " " ++ extra))).modProc p
            fun y => { y with pc := (w.proc p).pc + 1 }) := by stat
        rw [this.script] at hc; exact hprog i c' t' hc
      | skip =>
        refine ih ((hx.emit _).modProc_ctl p _ (fun _ => ⟨rfl, rfl, fun _ => Or.inl rfl⟩)) ?_
        intro i c' t' hc
        have : Stat w ((w1.emit s!"s {p} {(w.proc p).pc} {w1.now}").modProc p
            fun y => { y with pc := (w.proc p).pc + 1 }) := by stat
        rw [this.script] at hc; exact hprog i c' t' hc
      | blocked => exact hx
      | ended =>
        dsimp only
        split <;> exact hx.emit _

theorem FrameOk.ofEv {w w' : World} {p : Pid} {f : Frame} (h : FrameOk w p f) (he : w'.ev = w.ev) : FrameOk w' p f :=
  h.mono (Stb.ofEv he)

/-- resuming a suspended process whose recorded frame is fine -/
theorem TXI.resumeProc (h : TXI fr w) (p : Pid) (sig : Int)
    (hprog : ∀ (i : Nat) (c : Cmd) (t : String), (w.proc p).script[i]? = some (c, t) → DurOk c ∧ VarsOk c)
    (hf : ∀ f, (w.proc p).blocked = some f → FrameOk w p f) : TXI fr (resumeProc w p sig) := by
  simp only [Sim.resumeProc]
  split
  · exact h.fail _
  · split
    · exact h.fail _
    · rename_i f hbf
      have hx := (h.modProc_ctl p (fun y => { y with blocked := none }) (fun _ => ⟨rfl, rfl, fun _ => Or.inr rfl⟩)).resumeFrame_ok
        (p := p) f sig ((hf f hbf).ofEv rfl)
      have hst : Stat w (Sim.resumeFrame (w.modProc p fun y => { y with blocked := none }) p f sig).1 := by
        have h0 := Stat.refl w; stat
      rcases hres : Sim.resumeFrame (w.modProc p fun y => { y with blocked := none }) p f sig with ⟨w1, out⟩
      rw [hres] at hx hst
      cases out with
      | ret v extra =>
        refine TXI.runScript _ ((hx.emit _).modProc_ctl p _ (fun _ => ⟨rfl, rfl, fun _ => Or.inl rfl⟩)) ?_
        intro i c' t' hc
        have : Stat w ((w1.emit (s!"r {p} {(w.proc p).pc} {w1.now} {v}" ++ (if extra = "" then "" else " " ++ extra))).modProc p
            fun y => { y with pc := (w.proc p).pc + 1 }) := by stat
        rw [this.script] at hc; exact hprog i c' t' hc
      | skip => exact hx
      | blocked => exact hx
      | ended => exact hx

/-! ### the top of dispatch -/

theorem takeNext_stb (hi : EvInv w.ev) {t : HTag} {ev' : EvQ} (hn : executeNext w.ev = some (t, ev')) :
    Stb w (takeNext w t ev') := by
  obtain ⟨_, _, hpend, hctr⟩ := executeNext_facts hi hn
  have hE := Evo.takeNext w t ev'
  have hc : (afterNext w ev').ev.counter = w.ev.counter := hctr
  refine ⟨by rw [← hc]; exact hE.counter, ?_⟩
  intro e' he' hk
  obtain ⟨e, he, h1, _, h3⟩ := hE.stable e' he' (by rw [hc]; exact hk)
  have : e ∈ remove w.ev.pending t.key := by rw [← hpend]; exact he
  exact ⟨e, (mem_remove.1 this).1, h1, h3⟩

theorem takeNext_gvars (w : World) (t : HTag) (ev' : EvQ) : (takeNext w t ev').gvars = w.gvars := by
  rw [takeNext_eq]; rfl

/-- the dispatched event was not a timer: nothing dangles -/
theorem TX.takeNext_other (h : TX fr w) {t : HTag} {ev' : EvQ} (hn : executeNext w.ev = some (t, ev'))
    (ha : t.item.a ≠ aTime) : TX fr (takeNext w t ev') := by
  obtain ⟨htm, hprocs, heiT, _, hstay, _, _⟩ := takeNext_facts h.ei hn
  refine h.of heiT (takeNext_stb h.ei hn) (procs_keep hprocs fr) (takeNext_gvars w t ev') ?_
  intro q k hk e he h1
  rw [proc_congr hprocs] at hk
  refine ⟨e, hstay e he (fun hkt => ?_), rfl, rfl⟩
  have : e = t := HashHeap.eq_of_key_eq h.ei.part.keysNodup he htm hkt
  subst this
  exact ha (h.tl.owner h.ei hk he h1).1

/-- the dispatched event was a timer: its registration dangles until the action removes it -/
theorem TX.takeNext_time (h : TX fr w) (hnd : ∀ q, ((timeAw w q).filter (· ≠ .time 0)).Nodup) {t : HTag} {ev' : EvQ}
    (hn : executeNext w.ev = some (t, ev')) :
    TX fr (removeAwait (takeNext w t ev') (t.item.b - 1) (.time t.key)).1 := by
  obtain ⟨htm, hprocs, heiT, _, hstay, _, _⟩ := takeNext_facts h.ei hn
  have hstb := takeNext_stb h.ei hn
  have hgv := takeNext_gvars w t ev'
  generalize takeNext w t ev' = wT at hprocs heiT hstay hstb hgv
  rw [removeAwait_fst_eq]
  have hprocT : ∀ x, wT.proc x = w.proc x := proc_congr hprocs
  have hpr : ∀ x, (wT.modProc (t.item.b - 1) fun x => { x with awaits := (removeFirst x.awaits (.time t.key)).1 }).proc x =
      if x = t.item.b - 1 ∧ t.item.b - 1 < w.procs.size then
        { w.proc x with awaits := (removeFirst (w.proc x).awaits (.time t.key)).1 }
      else w.proc x := by
    intro x; rw [modProc_proc, hprocs]; split
    · rename_i hx; rw [hx.1, hprocT]
    · rw [hprocT]
  refine h.of heiT hstb (fun q => ?_) hgv ?_
  · rw [hpr]; split
    · exact ⟨fun k hk => removeFirst_subset _ _ _ hk, rfl, fun _ => Or.inl rfl⟩
    · exact ⟨fun _ hk => hk, rfl, fun _ => Or.inl rfl⟩
  · intro q k hk e he h1
    rw [hpr] at hk
    have hold : Await.time k ∈ (w.proc q).awaits := by
      split at hk
      · exact removeFirst_subset _ _ _ hk
      · exact hk
    refine ⟨e, hstay e he (fun hkt => ?_), rfl, rfl⟩
    have het : e = t := HashHeap.eq_of_key_eq h.ei.part.keysNodup he htm hkt
    subst het
    have hb := (h.tl.owner h.ei hold he h1).2
    have hq : q = e.item.b - 1 := by rw [hb, Nat.add_sub_cancel]
    subst hq
    rw [if_pos ⟨rfl, mem_awaits_lt hold⟩, ← h1] at hk
    have hk0 : e.key ≠ 0 := by have := key_pos h.ei he; omega
    exact removeFirst_time_not_mem hk0 (hnd _) hk

theorem TXI.takeNext_other (h : TXI fr w) {t : HTag} {ev' : EvQ} (hn : executeNext w.ev = some (t, ev'))
    (ha : t.item.a ≠ aTime) : TXI fr (takeNext w t ev') :=
  ⟨TInvB.takeNext_other h.t hn ha, h.x.takeNext_other hn ha⟩

theorem TXI.takeNext_time (h : TXI fr w) {t : HTag} {ev' : EvQ} (hn : executeNext w.ev = some (t, ev'))
    (ha : t.item.a = aTime) : TXI fr (removeAwait (takeNext w t ev') (t.item.b - 1) (.time t.key)).1 :=
  ⟨TInvB.takeNext_time h.t hn ha, h.x.takeNext_time h.t.tnd hn⟩

/-! ### dispatch -/

theorem TXI.dispatch {w w' : World} (h : TXI true w) (hs : TProgOk w) (hd : dispatch w = some w') : TXI true w' := by
  rw [dispatch_eq] at hd
  split at hd
  · cases hd
  · rename_i t ev' hn
    simp only [Option.some.injEq] at hd
    subst hd
    have hsT : TProgOk (S3.takeNext w t ev') := hs.ofStat (Stat.takeNext w t ev')
    -- resuming a process in any state that satisfies the invariant and has the same programs
    have hres : ∀ {w1 : World}, TXI true w1 → TProgOk w1 → ∀ q sig, TXI true (Sim.resumeProc w1 q sig) :=
      fun {w1} h1 hp1 q sig => h1.resumeProc q sig (fun i c t hc => (hp1 q i c t hc).2) (fun f hf => h1.x.fi rfl q f hf)
    by_cases h2 : t.item.a = aTime
    · rw [dispatchBody_time _ _ h2]
      refine hres (h.takeNext_time hn h2) (hsT.ofStat ?_) _ _
      have h0 := Stat.refl (S3.takeNext w t ev'); stat
    · have hT := h.takeNext_other hn h2
      generalize S3.takeNext w t ev' = wT at hT hsT
      unfold dispatchBody
      dsimp only
      by_cases h1 : t.item.a = aStart
      · rw [if_pos h1]
        split
        · exact hT.fail _
        · refine TXI.runScript _ (hT.startProc _) ?_
          intro i c t' hc
          have : Stat wT (wT.modProc (t.item.b - 1) fun y => { y with status := .running, pc := 0, blocked := none }) := by
            have h0 := Stat.refl wT; stat
          rw [this.script] at hc
          exact (hsT _ i c t' hc).2
      rw [if_neg h1, if_neg h2]
      have hk1 : ∀ a, isProcA a = true → isTimeA a = false := fun a h => by cases a <;> simp_all [isProcA, isTimeA]
      have hk2 : ∀ a, isEventA a = true → isTimeA a = false := fun a h => by cases a <;> simp_all [isEventA, isTimeA]
      have hk3 : ∀ a, isGuardA a = true → isTimeA a = false := fun a h => by cases a <;> simp_all [isGuardA, isTimeA]
      have hrak : ∀ k : Await → Bool, TProgOk (removeAwaitKind wT (t.item.b - 1) k).1 := fun k => hsT.ofStat (by
        have h0 := Stat.refl wT; stat)
      by_cases h3 : t.item.a = aProc
      · rw [if_pos h3]
        have hD := hT.removeAwaitKind_fst (t.item.b - 1) isProcA hk1
        split
        · exact hres hD (hrak _) _ _
        · exact hD
      rw [if_neg h3]
      by_cases h4 : t.item.a = aEvent
      · rw [if_pos h4]
        have hD := hT.removeAwaitKind_fst (t.item.b - 1) isEventA hk2
        split
        · exact hres hD (hrak _) _ _
        · exact hD
      rw [if_neg h4]
      by_cases h5 : t.item.a = aRes ∨ t.item.a = aPreempt
      · rw [if_pos h5]
        split
        · exact hres hT hsT _ _
        · exact hT
      rw [if_neg h5]
      by_cases h6 : t.item.a = aCond
      · rw [if_pos h6]
        have hD := hT.removeAwaitKind_fst (t.item.b - 1) isGuardA hk3
        split
        · exact hres hD (hrak _) _ _
        · exact hD
      rw [if_neg h6]
      by_cases h7 : t.item.a = aIntr
      · rw [if_pos h7]
        refine hres (hT.cancelAwaiteds _) (hsT.ofStat ?_) _ _
        have h0 := Stat.refl wT; stat
      rw [if_neg h7]
      split
      · exact hres hT hsT _ _
      · exact hT

end CimbaModel.Sim.S4
