/-
  S4 — `PL` (holder lists ⇔ `.pool` holdings, S4LinkBase) through every command, resumption, dispatch and the run loop;
  it holds in the initial world.  Consequence `PL.prio_key`: the key that the holder re-sorting loop of
  `cmb_process_priority_set` passes to `HashHeap.reprioritize` is on the list.
-/
import CimbaModel.Sim.S4LinkFrame
import CimbaModel.Sim.S3Built

namespace CimbaModel.Sim.S4
open CimbaModel CimbaModel.Sim CimbaModel.Event CimbaModel.Generated CimbaModel.KPQ
open CimbaModel.HashHeap (HTag Item Order HH WF abs)

variable {w w' : World}

theorem pl_runScript : ∀ (fuel : Nat) {w : World}, PL w → ∀ p, PL (runScript fuel w p) := by
  intro fuel
  induction fuel with
  | zero => intro w h p; unfold runScript; exact h.fail _
  | succ n ih =>
    intro w h p
    unfold runScript
    dsimp only
    split
    · exact (h.emit _).finishProc p 0 false
    · rename_i c text hc
      have hp : p < w.procs.size := lt_np_of_script w p _ _ hc
      have h2 := pl_execCmd (h.emit s!"c {p} {(w.proc p).pc} {w.now} {text}") p (by simpa using hp) c
      split
      · rename_i w2 v extra heq
        rw [heq] at h2
        refine ih (PL.modProc_keep (h2.emit _) _ _ ?_) p; intro; rfl
      · rename_i w2 heq
        rw [heq] at h2
        refine ih (PL.modProc_keep (h2.emit _) _ _ ?_) p; intro; rfl
      · rename_i w2 heq
        rw [heq] at h2
        exact h2
      · rename_i w2 heq
        rw [heq] at h2
        split <;> exact h2.emit _

theorem pl_resumeProc (h : PL w) (p : Pid) (sig : Int) : PL (resumeProc w p sig) := by
  unfold resumeProc
  dsimp only
  split
  · exact h.fail _
  · rename_i hrun
    have hp : p < w.procs.size := lt_np_of_status w p (by
      intro e; apply hrun; rw [e]; decide)
    split
    · exact h.fail _
    · rename_i f hf
      have h2 := pl_resumeFrame (h.modProc_keep p (fun y => { y with blocked := none }) (fun _ => rfl)) p
        (by simpa using hp) f sig
      split
      · rename_i w2 v extra heq
        rw [heq] at h2
        refine pl_runScript _ (PL.modProc_keep (h2.emit _) _ _ ?_) p; intro; rfl
      all_goals (rename_i w2 heq; rw [heq] at h2; exact h2)

/-- **every dispatched event keeps `PL`** -/
theorem pl_dispatch (h : PL w) (hd : dispatch w = some w') : PL w' := by
  cases hex : executeNext w.ev with
  | none => unfold dispatch at hd; simp [hex] at hd
  | some x =>
    obtain ⟨t, ev'⟩ := x
    rw [dispatch_eq w t ev' hex] at hd
    injection hd with hd
    subst hd
    have h1 : PL (afterPop w t ev') := by
      unfold afterPop
      exact PL.wakeEventWaiters (w := { w with ev := ev', dispatched := w.dispatched + 1, evWaiters := (popWaiters w.evWaiters t.key).2 }) (h.frame rfl rfl) _ _
    split
    · split
      · exact h1.fail _
      · refine pl_runScript _ (PL.modProc_keep h1 _ _ ?_) _; intro; rfl
    · split
      · exact pl_resumeProc (h1.removeAwait_fst _ _) _ _
      · split
        · split
          · exact pl_resumeProc (h1.removeAwaitKind_fst _ _) _ _
          · exact h1.removeAwaitKind_fst _ _
        · split
          · split
            · exact pl_resumeProc (h1.removeAwaitKind_fst _ _) _ _
            · exact h1.removeAwaitKind_fst _ _
          · split
            · split
              · exact pl_resumeProc h1 _ _
              · exact h1
            · split
              · split
                · exact pl_resumeProc (h1.removeAwaitKind_fst _ _) _ _
                · exact h1.removeAwaitKind_fst _ _
              · split
                · exact pl_resumeProc (h1.cancelAwaiteds _) _ _
                · split
                  · exact pl_resumeProc h1 _ _
                  · exact h1

theorem pl_runAll : ∀ (fuel : Nat) {w : World}, PL w → PL (runAll fuel w) := by
  intro fuel
  induction fuel with
  | zero => intro w h; unfold runAll; exact h.emit _
  | succ n ih =>
    intro w h
    unfold runAll
    split
    · exact h
    · split
      · exact h
      · rename_i w' hd
        exact ih (pl_dispatch h hd)

/-! ### the statements under the agreed names -/

theorem PL.execCmd (h : PL w) (p : Pid) (hp : p < w.procs.size) (c : Cmd) : PL (execCmd w p c).1 :=
  pl_execCmd h p hp c

theorem PL.resumeFrame (h : PL w) (p : Pid) (hp : p < w.procs.size) (f : Frame) (sig : Int) :
    PL (resumeFrame w p f sig).1 := pl_resumeFrame h p hp f sig

theorem PL.runScript (h : PL w) (fuel : Nat) (p : Pid) : PL (runScript fuel w p) := pl_runScript fuel h p

theorem PL.resumeProc (h : PL w) (p : Pid) (sig : Int) : PL (resumeProc w p sig) := pl_resumeProc h p sig

theorem PL.dispatch (h : PL w) (hd : dispatch w = some w') : PL w' := pl_dispatch h hd

theorem PL.runAll (h : PL w) (fuel : Nat) : PL (runAll fuel w) := pl_runAll fuel h

theorem PL.poolUpdateRecord (h : PL w) (pl : Nat) (p : Pid) (n : Nat) (hp : p < w.procs.size) :
    PL (poolUpdateRecord w pl p n) := pl_poolUpdateRecord h pl p n hp

theorem PL.dropResources (h : PL w) (z : Pid) : PL (dropResources w z) := pl_dropResources h z

/-- fresh holder lists, nothing held: the initial world of the scenario loader -/
theorem PL.init (w : World) (hsz : w.procs.size < 2 ^ 31)
    (hh : ∀ (pl : Nat) (x : Pool), w.pools[pl]? = some x → x.holders = mkHH 3) (hheld : ∀ p, (w.proc p).held = []) : PL w := by
  obtain ⟨s, hi, hwf, habs, _⟩ := HashHeap.init_spec (lt := holder_queue_check) 3 (by decide) (by decide)
  have hmk : mkHH 3 = s := by unfold mkHH; rw [hi]
  have hph : ∀ pl h, w.ph pl = some h → h = s := by
    intro pl h hph
    unfold World.ph at hph
    cases hx : w.pools[pl]? with
    | none => rw [hx] at hph; cases hph
    | some x =>
      rw [hx] at hph
      injection hph with hph
      rw [← hph]
      show x.holders = s
      rw [hh pl x hx, hmk]
  refine ⟨⟨Nat.lt_trans hsz (by decide), ?_, ?_⟩, hsz, ?_⟩
  · intro pl h hp
    rw [hph pl h hp]; exact hwf
  · intro pl p hm
    unfold World.hk at hm
    cases hp : w.ph pl with
    | none => rw [hp] at hm; cases hm
    | some h =>
      rw [hp] at hm
      dsimp only at hm
      rw [hph pl h hp] at hm
      unfold hkeys at hm
      rw [habs] at hm
      cases hm
  · intro q pl hm
    rw [hheld q] at hm
    cases hm

end CimbaModel.Sim.S4
