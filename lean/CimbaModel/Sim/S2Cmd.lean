/-
  S2 — footprints of the commands (`execCmd`) and of the resumption of suspended calls (`resumeFrame`).
-/
import CimbaModel.Sim.S2Foot

namespace CimbaModel.Sim
open CimbaModel CimbaModel.Event CimbaModel.Generated
open CimbaModel.HashHeap (HTag Item Order HH)

def cmdMask : Cmd → Mask
  | .stop _ _ | .exit _ => mEnd
  | .prioSet _ _ => mPoolsPrio
  | .acquire _ | .preempt _ => mResHeldB
  | .release _ => mResHeld
  | .poolAcquire _ _ | .poolPreempt _ _ => mPoolsHeldB
  | .poolRelease _ _ => mPoolsHeld
  | .bufGet _ _ | .bufPut _ _ => mBufsB
  | .oqGet _ | .oqPut _ _ => mOqsB
  | .pqGet _ | .pqPut _ _ _ _ => mPqsB
  | .pqCancel _ _ | .pqReprio _ _ _ => mPqs
  | .recStart kind _ | .recStop kind _ => recMask kind
  | .hold _ | .yield | .waitProc _ | .waitEvent _ | .condWait _ _ _ _ => mBlocked
  | _ => {}

def frameMask : Frame → Mask
  | .acquire _ => mResHeldB
  | .pool _ _ _ _ => mPoolsHeldB
  | .bufGet _ _ _ | .bufPut _ _ _ => mBufsB
  | .oqGet _ | .oqPut _ _ => mOqsB
  | .pqGet _ | .pqPut _ _ _ _ => mPqsB
  | _ => {}

theorem timeOk_reprioritize {q q' : EvQ} {h : Nat} {p : Int} (hs : reprioritize q h p = .ok q') :
    q'.now = q.now ∧ (TimeOk q → TimeOk q') := by
  unfold reprioritize at hs
  split at hs
  · simp at hs
  · simp only [Except.ok.injEq] at hs; subst hs
    refine ⟨rfl, fun hq e he => ?_⟩
    simp only [List.mem_map] at he
    obtain ⟨e0, he0, rfl⟩ := he
    have := hq e0 he0
    split <;> exact this

theorem prioSet_fp (w : World) (p q : Pid) (v : Int) : Fp mPoolsPrio w (execCmd w p (.prioSet q v)).1 := by
  simp only [execCmd]
  split
  · exact Fp.refl _ _
  · dsimp only
    refine Fp.trans (Fp.trans (Fp.mono (by decide) (modProc_fp_prio w q _ ?_ ?_)) (foldl_fp _ _ ?_ _ _)) (foldl_fp _ _ ?_ _ _)
    · intro _; rfl
    · intro _; rfl
    · intro w a
      cases a with
      | time h =>
        dsimp only
        cases hr : reprioritize w.ev h v with
        | error f => exact Same.fp _ (fail_same _ _)
        | ok ev' =>
          have := timeOk_reprioritize hr
          dsimp only
          refine ⟨fun _ => rfl, fun _ => rfl, fun _ => rfl, fun _ => rfl, fun _ => rfl, this.1, this.2, rfl, fun _ _ => rfl, fun _ _ => rfl, fun _ _ => rfl⟩
      | guard g => fp_auto
      | proc _ => exact Fp.refl _ _
      | event _ => exact Fp.refl _ _
    · intro w h
      cases h with
      | res r => exact Fp.refl _ _
      | pool pl => fp_auto

theorem execCmd_fp (w : World) (p : Pid) (c : Cmd) : Fp (cmdMask c) w (execCmd w p c).1 := by
  cases c
  case prioSet q v => exact prioSet_fp w p q v
  case recStart kind idx => simp only [execCmd, cmdMask]; exact setRecording_fp _ _ _ _
  case recStop kind idx => simp only [execCmd, cmdMask]; exact setRecording_fp _ _ _ _
  all_goals (simp only [execCmd, cmdMask]; fp_auto)

theorem resumeFrame_fp (w : World) (p : Pid) (f : Frame) (sig : Int) : Fp (frameMask f) w (resumeFrame w p f sig).1 := by
  cases f
  all_goals (simp only [resumeFrame, frameMask]; fp_auto)

end CimbaModel.Sim
