/-
  S3 — `GInv`: the waiting lists and the ownership of grants (I_guard + the grant / condition / hold part of NoStaleInv).
  Part 1: definition, congruence, atomic transformers.
-/
import CimbaModel.Sim.S3PInvDispatch
import CimbaModel.Sim.S3Stat

namespace CimbaModel.Sim.S3
open CimbaModel CimbaModel.Sim CimbaModel.Event CimbaModel.Generated CimbaModel.KPQ
open CimbaModel.HashHeap (HTag Item Order HH WF abs liveTags)

/-- the RESOURCE(g) awaitables of `p` -/
def guardAw (w : World) (p : Pid) : List Await := (w.proc p).awaits.filter isGuardA

theorem mem_awaits_guard {w : World} {x : Pid} {g : Nat} : Await.guard g ∈ (w.proc x).awaits ↔ Await.guard g ∈ guardAw w x := by
  unfold guardAw; simp [List.mem_filter, isGuardA]

/-- frames that wait on a guard -/
def isGuardFrame : Frame → Bool
  | .acquire _ => true | .pool _ _ _ _ => true | .bufGet _ _ _ => true | .bufPut _ _ _ => true
  | .oqGet _ => true | .oqPut _ _ => true | .pqGet _ => true | .pqPut _ _ _ _ => true | .condWait _ => true
  | _ => false

/-- frame `f` is a wait on guard `g` (the guard assigned to the object the frame names) -/
def FrameOn (w : World) (f : Frame) (g : Nat) : Prop :=
  match f with
  | .acquire r => (w.res[r]?).map resStat = some g
  | .pool pl _ _ _ => (w.pools[pl]?).map (fun x => (poolStat x).1) = some g
  | .bufGet b _ _ => (w.bufs[b]?).map (fun x => (bufStat x).1) = some g
  | .bufPut b _ _ => (w.bufs[b]?).map (fun x => (bufStat x).2.1) = some g
  | .oqGet q => (w.oqs[q]?).map (fun x => (oqStat x).1) = some g
  | .oqPut q _ => (w.oqs[q]?).map (fun x => (oqStat x).2.1) = some g
  | .pqGet k => (w.pqs[k]?).map (fun x => (pqStat x).1) = some g
  | .pqPut k _ _ _ => (w.pqs[k]?).map (fun x => (pqStat x).2.1) = some g
  | .condWait c => w.conds[c]? = some g
  | _ => False

theorem frameOn_guardFrame {w : World} {f : Frame} {g : Nat} (h : FrameOn w f g) : isGuardFrame f = true := by
  cases f <;> first | rfl | exact h.elim

theorem frameOn_of_stat {w w' : World} (hs : Stat w w') (f : Frame) (g : Nat) : FrameOn w' f g ↔ FrameOn w f g := by
  have hmap : ∀ {α β γ : Type} (o o' : Option α) (st : α → β) (pr : β → γ), o'.map st = o.map st →
      o'.map (fun x => pr (st x)) = o.map (fun x => pr (st x)) := by
    intro α β γ o o' st pr h
    have := congrArg (Option.map pr) h
    simpa [Option.map_map, Function.comp_def] using this
  cases f <;> simp only [FrameOn]
  · rw [hs.res]
  · rw [hmap _ _ poolStat Prod.fst (hs.pools _)]
  · rw [hmap _ _ bufStat Prod.fst (hs.bufs _)]
  · rw [hmap _ _ bufStat (fun x => x.2.1) (hs.bufs _)]
  · rw [hmap _ _ oqStat Prod.fst (hs.oqs _)]
  · rw [hmap _ _ oqStat (fun x => x.2.1) (hs.oqs _)]
  · rw [hmap _ _ pqStat Prod.fst (hs.pqs _)]
  · rw [hmap _ _ pqStat (fun x => x.2.1) (hs.pqs _)]
  · rw [hs.conds]

theorem frameOn_congr {w w' : World} (hr : w'.res = w.res) (hpl : w'.pools = w.pools) (hb : w'.bufs = w.bufs)
    (ho : w'.oqs = w.oqs) (hq : w'.pqs = w.pqs) (hc : w'.conds = w.conds) (f : Frame) (g : Nat) :
    FrameOn w' f g ↔ FrameOn w f g := by
  cases f <;> simp only [FrameOn, hr, hpl, hb, ho, hq, hc]

/-- key `k` is in the waiting list of guard `g` -/
def queued (w : World) (g k : Nat) : Prop := ∃ gd, w.guards[g]? = some gd ∧ k ∈ keys (abs gd.q)

/-- the SUCCESS wake-ups of a guard wait: a grant (aRes with the success code) or a condition wake-up -/
def isGrant (e : HTag) : Prop := (e.item.a = aRes ∧ e.item.c = 0) ∨ e.item.a = aCond

/-- an event that is none of the wake-ups `GInv` talks about -/
def Harmless (e : HTag) : Prop :=
  ¬ isGrant e ∧ e.item.c < 2 ^ 64 ∧
  (e.item.c = 0 → e.item.a ≠ aIntr ∧ e.item.a ≠ aResume ∧ e.item.a ≠ aPreempt ∧ e.item.a ≠ aTime)

structure GInv (ex : Pid → Prop) (fr : Pid → Option Frame) (w : World) : Prop where
  ei : EvInv w.ev
  /-- every waiting list is a well-formed hashheap -/
  gw : AllGWF w
  gsz : w.procs.size < 2 ^ 31
  /-- I_guard: a queued key is a process (pid + 1) that awaits this guard -/
  gk : ∀ g k, queued w g k → k ≠ 0 ∧ k ≤ w.procs.size ∧ (¬ ex (k - 1) → Await.guard g ∈ (w.proc (k - 1)).awaits)
  /-- a process awaits at most one guard, and only while suspended in a guard wait -/
  ga : ∀ p, guardAw w p = [] ∨ ∃ g f, fr p = some f ∧ FrameOn w f g ∧ guardAw w p = [.guard g]
  /-- the logical frame is the recorded one wherever it matters -/
  gfb : ∀ p, ¬ ex p → (w.proc p).blocked ≠ fr p →
    guardAw w p = [] ∧ (∀ e ∈ w.ev.pending, e.item.a = aTime → e.item.c = 0 → e.item.b ≠ p + 1)
  /-- a pending grant / condition wake-up belongs to a process that awaits a guard and is no longer queued there -/
  gr : ∀ e ∈ w.ev.pending, isGrant e → e.item.b ≠ 0 ∧
    (¬ ex (e.item.b - 1) → ∃ g, Await.guard g ∈ (w.proc (e.item.b - 1)).awaits ∧ ¬ queued w g e.item.b)
  /-- at most one per process -/
  gu : ∀ e1 ∈ w.ev.pending, ∀ e2 ∈ w.ev.pending, isGrant e1 → isGrant e2 → e1.item.b = e2.item.b →
    ¬ ex (e1.item.b - 1) → e1 = e2
  /-- a condition wake-up goes to a process suspended in `cond_wait` -/
  gc : ∀ e ∈ w.ev.pending, e.item.a = aCond → ¬ ex (e.item.b - 1) → ∃ c, fr (e.item.b - 1) = some (.condWait c)
  /-- the waiters of a condition's guard are suspended in `cond_wait` -/
  gkc : ∀ (c g : Nat), w.conds[c]? = some g → ∀ k, queued w g k → ¬ ex (k - 1) → ∃ c', fr (k - 1) = some (.condWait c')
  /-- interrupts, resumes and preemptions never carry the success code -/
  nz : ∀ e ∈ w.ev.pending, e.item.c = 0 → e.item.a ≠ aIntr ∧ e.item.a ≠ aResume ∧ e.item.a ≠ aPreempt
  /-- a timer carrying the success code is the timer of the hold its process is suspended in -/
  oth : ∀ e ∈ w.ev.pending, e.item.a = aTime → e.item.c = 0 → e.item.b ≠ 0 ∧
    (¬ ex (e.item.b - 1) → fr (e.item.b - 1) = some (.hold e.key))
  cl : ∀ e ∈ w.ev.pending, e.item.c < 2 ^ 64

variable {ex : Pid → Prop} {fr : Pid → Option Frame}

theorem guardAw_congr {w w' : World} (h : ∀ p, (w'.proc p).awaits = (w.proc p).awaits) (p : Pid) : guardAw w' p = guardAw w p := by
  unfold guardAw; rw [h]

theorem queued_congr {w w' : World} (h : w'.guards = w.guards) (g k : Nat) : queued w' g k ↔ queued w g k := by
  unfold queued; rw [h]

/-- same registrations, recorded frames and waiting lists; events only disappear, change priority, or harmless ones are
    added -/
theorem GInv.congr {w w' : World} (hp : GInv ex fr w) (ha : ∀ p, (w'.proc p).awaits = (w.proc p).awaits)
    (hb : ∀ p, (w'.proc p).blocked = (w.proc p).blocked) (hg : w'.guards = w.guards) (hsz : w'.procs.size = w.procs.size)
    (hcd : w'.conds = w.conds) (hst : ∀ f g, FrameOn w' f g ↔ FrameOn w f g) (hei : EvInv w'.ev)
    (he : ∀ e' ∈ w'.ev.pending, (∃ e ∈ w.ev.pending, e.key = e'.key ∧ e.item = e'.item) ∨ Harmless e') : GInv ex fr w' where
  ei := hei
  gw := fun g gd h => hp.gw g gd (by rw [← hg]; exact h)
  gsz := by rw [hsz]; exact hp.gsz
  gk := fun g k hq => by
    have := hp.gk g k ((queued_congr hg g k).1 hq)
    rw [hsz, ha]; exact this
  ga := fun p => by
    rw [guardAw_congr ha]
    rcases hp.ga p with h | ⟨g, f, h1, h2, h3⟩
    · exact Or.inl h
    · exact Or.inr ⟨g, f, h1, (hst f g).2 h2, h3⟩
  gfb := fun p hx hbl => by
    rw [hb] at hbl
    obtain ⟨h1, h2⟩ := hp.gfb p hx hbl
    refine ⟨by rw [guardAw_congr ha]; exact h1, ?_⟩
    intro e' he' hea hec
    rcases he e' he' with ⟨e, hem, _, hi⟩ | hh
    · rw [← hi]; exact h2 e hem (by rw [hi]; exact hea) (by rw [hi]; exact hec)
    · exact absurd hea (hh.2.2 hec).2.2.2
  gr := fun e' he' hgr => by
    rcases he e' he' with ⟨e, hem, _, hi⟩ | hh
    · have hgr' : isGrant e := by unfold isGrant at *; rw [hi]; exact hgr
      obtain ⟨h1, h2⟩ := hp.gr e hem hgr'
      rw [← hi]
      refine ⟨h1, fun hx => ?_⟩
      obtain ⟨g, h3, h4⟩ := h2 hx
      exact ⟨g, by rw [ha]; exact h3, fun hq => h4 ((queued_congr hg g _).1 hq)⟩
    · exact absurd hgr hh.1
  gu := fun a ha' b hb' hga hgb hab hx => by
    rcases he a ha' with ⟨a0, ha0, hka, hia⟩ | hh
    · rcases he b hb' with ⟨b0, hb0, hkb, hib⟩ | hh'
      · have h1 : isGrant a0 := by unfold isGrant at *; rw [hia]; exact hga
        have h2 : isGrant b0 := by unfold isGrant at *; rw [hib]; exact hgb
        have : a0 = b0 := hp.gu a0 ha0 b0 hb0 h1 h2 (by rw [hia, hib]; exact hab) (by rw [hia]; exact hx)
        exact HashHeap.eq_of_key_eq hei.part.keysNodup ha' hb' (by rw [← hka, ← hkb, this])
      · exact absurd hgb hh'.1
    · exact absurd hga hh.1
  gc := fun e' he' hea hx => by
    rcases he e' he' with ⟨e, hem, _, hi⟩ | hh
    · rw [← hi]; exact hp.gc e hem (by rw [hi]; exact hea) (by rw [hi]; exact hx)
    · exact absurd (Or.inr hea) hh.1
  gkc := fun c g hc k hq hx => hp.gkc c g (by rw [← hcd]; exact hc) k ((queued_congr hg g k).1 hq) hx
  nz := fun e' he' hec => by
    rcases he e' he' with ⟨e, hem, _, hi⟩ | hh
    · rw [← hi]; exact hp.nz e hem (by rw [hi]; exact hec)
    · exact ⟨(hh.2.2 hec).1, (hh.2.2 hec).2.1, (hh.2.2 hec).2.2.1⟩
  oth := fun e' he' hea hec => by
    rcases he e' he' with ⟨e, hem, hk, hi⟩ | hh
    · rw [← hi, ← hk]; exact hp.oth e hem (by rw [hi]; exact hea) (by rw [hi]; exact hec)
    · exact absurd hea (hh.2.2 hec).2.2.2
  cl := fun e' he' => by
    rcases he e' he' with ⟨e, hem, _, hi⟩ | hh
    · rw [← hi]; exact hp.cl e hem
    · exact hh.2.1


/-! ### atomic transformers -/

theorem GInv.same {w w' : World} (hp : GInv ex fr w) (ha : ∀ p, (w'.proc p).awaits = (w.proc p).awaits)
    (hb : ∀ p, (w'.proc p).blocked = (w.proc p).blocked) (hg : w'.guards = w.guards) (hsz : w'.procs.size = w.procs.size)
    (hcd : w'.conds = w.conds) (hst : ∀ f g, FrameOn w' f g ↔ FrameOn w f g) (he : w'.ev = w.ev) : GInv ex fr w' :=
  hp.congr ha hb hg hsz hcd hst (by rw [he]; exact hp.ei) (by rw [he]; exact fun e h => Or.inl ⟨e, h, rfl, rfl⟩)

/-- nothing but objects (with their static data intact), flags, variables, log changed -/
theorem GInv.ofStat {w w' : World} (hp : GInv ex fr w) (hs : Stat w w') (hpr : w'.procs = w.procs) (hg : w'.guards = w.guards)
    (he : w'.ev = w.ev) : GInv ex fr w' :=
  hp.same (fun p => by rw [proc_congr hpr]) (fun p => by rw [proc_congr hpr]) hg (by rw [hpr]) hs.conds (frameOn_of_stat hs) he

theorem GInv.fail {w : World} (h : GInv ex fr w) (m : String) : GInv ex fr (w.fail m) :=
  h.same (fun _ => by simp) (fun _ => by simp) (by simp) (by simp) (by simp)
    (frameOn_congr (by simp) (by simp) (by simp) (by simp) (by simp) (by simp)) (by simp)
theorem GInv.emit {w : World} (h : GInv ex fr w) (l : String) : GInv ex fr (w.emit l) :=
  h.same (fun _ => rfl) (fun _ => rfl) rfl rfl rfl (fun _ _ => Iff.rfl) rfl
theorem GInv.modProc_ctl {w : World} (h : GInv ex fr w) (p : Pid) (f : Proc → Proc)
    (hf : ∀ x, (f x).awaits = x.awaits ∧ (f x).blocked = x.blocked) : GInv ex fr (w.modProc p f) := by
  refine h.same (fun q => ?_) (fun q => ?_) rfl (by simp) rfl (fun _ _ => Iff.rfl) rfl
  · rw [modProc_proc]; split
    · rename_i hq; rw [hq.1]; exact (hf _).1
    · rfl
  · rw [modProc_proc]; split
    · rename_i hq; rw [hq.1]; exact (hf _).2
    · rfl
theorem GInv.setResSet {w : World} (h : GInv ex fr w) (r : Nat) (y : Res) (hy : ∀ x, w.res[r]? = some x → resStat y = resStat x) :
    GInv ex fr { w with res := w.res.set! r y } := h.ofStat ((Stat.refl w).setResSet r y hy) rfl rfl rfl
theorem GInv.setResModify {w : World} (h : GInv ex fr w) (r : Nat) (g : Res → Res) (hg : ∀ x, resStat (g x) = resStat x) :
    GInv ex fr { w with res := w.res.modify r g } := h.ofStat ((Stat.refl w).setResModify r g hg) rfl rfl rfl
theorem GInv.setPoolsSet {w : World} (h : GInv ex fr w) (r : Nat) (y : Pool) (hy : ∀ x, w.pools[r]? = some x → poolStat y = poolStat x) :
    GInv ex fr { w with pools := w.pools.set! r y } := h.ofStat ((Stat.refl w).setPoolsSet r y hy) rfl rfl rfl
theorem GInv.setPoolsModify {w : World} (h : GInv ex fr w) (r : Nat) (g : Pool → Pool) (hg : ∀ x, poolStat (g x) = poolStat x) :
    GInv ex fr { w with pools := w.pools.modify r g } := h.ofStat ((Stat.refl w).setPoolsModify r g hg) rfl rfl rfl
theorem GInv.setBufsSet {w : World} (h : GInv ex fr w) (r : Nat) (y : Buf) (hy : ∀ x, w.bufs[r]? = some x → bufStat y = bufStat x) :
    GInv ex fr { w with bufs := w.bufs.set! r y } := h.ofStat ((Stat.refl w).setBufsSet r y hy) rfl rfl rfl
theorem GInv.setBufsModify {w : World} (h : GInv ex fr w) (r : Nat) (g : Buf → Buf) (hg : ∀ x, bufStat (g x) = bufStat x) :
    GInv ex fr { w with bufs := w.bufs.modify r g } := h.ofStat ((Stat.refl w).setBufsModify r g hg) rfl rfl rfl
theorem GInv.setOqsSet {w : World} (h : GInv ex fr w) (r : Nat) (y : OQ) (hy : ∀ x, w.oqs[r]? = some x → oqStat y = oqStat x) :
    GInv ex fr { w with oqs := w.oqs.set! r y } := h.ofStat ((Stat.refl w).setOqsSet r y hy) rfl rfl rfl
theorem GInv.setOqsModify {w : World} (h : GInv ex fr w) (r : Nat) (g : OQ → OQ) (hg : ∀ x, oqStat (g x) = oqStat x) :
    GInv ex fr { w with oqs := w.oqs.modify r g } := h.ofStat ((Stat.refl w).setOqsModify r g hg) rfl rfl rfl
theorem GInv.setPqsSet {w : World} (h : GInv ex fr w) (r : Nat) (y : PQ) (hy : ∀ x, w.pqs[r]? = some x → pqStat y = pqStat x) :
    GInv ex fr { w with pqs := w.pqs.set! r y } := h.ofStat ((Stat.refl w).setPqsSet r y hy) rfl rfl rfl
theorem GInv.setPqsModify {w : World} (h : GInv ex fr w) (r : Nat) (g : PQ → PQ) (hg : ∀ x, pqStat (g x) = pqStat x) :
    GInv ex fr { w with pqs := w.pqs.modify r g } := h.ofStat ((Stat.refl w).setPqsModify r g hg) rfl rfl rfl
theorem GInv.setFlags {w : World} (h : GInv ex fr w) (x : Array Int) : GInv ex fr { w with flags := x } :=
  h.same (fun _ => rfl) (fun _ => rfl) rfl rfl rfl (fun _ _ => Iff.rfl) rfl
theorem GInv.setGvars {w : World} (h : GInv ex fr w) (x : Array Nat) : GInv ex fr { w with gvars := x } :=
  h.same (fun _ => rfl) (fun _ => rfl) rfl rfl rfl (fun _ _ => Iff.rfl) rfl
theorem GInv.setEvWaiters {w : World} (h : GInv ex fr w) (x : List (Nat × List Pid)) : GInv ex fr { w with evWaiters := x } :=
  h.same (fun _ => rfl) (fun _ => rfl) rfl rfl rfl (fun _ _ => Iff.rfl) rfl

/-- what a newly scheduled event must satisfy to be none of `GInv`'s business -/
def HarmlessNew (a : Nat) (sig : Int) : Prop :=
  a ≠ aCond ∧ (a = aRes → encSig sig ≠ 0) ∧
  (encSig sig = 0 → a ≠ aIntr ∧ a ≠ aResume ∧ a ≠ aPreempt ∧ a ≠ aTime)

instance (a : Nat) (sig : Int) : Decidable (HarmlessNew a sig) := by unfold HarmlessNew; infer_instance

theorem harmless_mkEv {k a s : Nat} {sig t pri : Int} (h : HarmlessNew a sig) : Harmless (mkEv k a s sig t pri) := by
  refine ⟨?_, encSig_lt sig, fun hc => h.2.2 hc⟩
  intro hg
  rcases hg with ⟨h1, h2⟩ | h1
  · exact h.2.1 h1 h2
  · exact h.1 h1

theorem GInv.pushEv_harmless {w : World} (h : GInv ex fr w) (a s : Nat) (sig t pri : Int) (ht : w.now ≤ t)
    (ha : HarmlessNew a sig) : GInv ex fr (pushEv w a s sig t pri) := by
  refine h.congr (fun _ => rfl) (fun _ => rfl) rfl rfl rfl (fun _ _ => Iff.rfl) (pushEv_evinv a s sig t pri ht h.ei) ?_
  intro e' he'
  simp only [pushEv_pending, List.mem_cons] at he'
  rcases he' with rfl | he'
  · exact Or.inr (harmless_mkEv ha)
  · exact Or.inl ⟨e', he', rfl, rfl⟩

theorem GInv.sched_harmless {w : World} (h : GInv ex fr w) (a s : Nat) (sig t pri : Int) (ha : HarmlessNew a sig) :
    GInv ex fr (sched w a s sig t pri).1 := by
  rcases sched_cases w a s sig t pri with ⟨ht, he⟩ | ⟨_, m, he⟩
  · rw [he]; exact h.pushEv_harmless a s sig t pri ht ha
  · rw [he]; exact h.fail m

theorem GInv.reprioEv {w : World} (h : GInv ex fr w) {k : Nat} {v : Int} {ev' : EvQ}
    (hr : reprioritize w.ev k v = .ok ev') : GInv ex fr { w with ev := ev' } := by
  have hinv := (reprioritize_inv h.ei hr).1
  unfold reprioritize at hr
  split at hr
  · cases hr
  · simp only [Except.ok.injEq] at hr
    subst hr
    refine h.congr (fun _ => rfl) (fun _ => rfl) rfl rfl rfl (fun _ _ => Iff.rfl) hinv ?_
    intro e' he'
    simp only [List.mem_map] at he'
    obtain ⟨e, he, rfl⟩ := he'
    refine Or.inl ⟨e, he, ?_, ?_⟩ <;> split <;> rfl

/-- any number of cancellations -/
theorem GInv.ofCanRel {w w' : World} (h : GInv ex fr w) (hr : CanRel w w') : GInv ex fr w' := by
  refine h.congr (fun p => by rw [hr.proc]) (fun p => by rw [hr.proc]) hr.guards (by rw [hr.procs]) hr.conds
    (frameOn_congr hr.res hr.pools hr.bufs hr.oqs hr.pqs hr.conds) (hr.evinv h.ei) ?_
  intro e' he'
  rcases hr.pend e' he' with hold | ⟨_, _, _, _, _, _, heq⟩
  · exact Or.inl ⟨e', hold, rfl, rfl⟩
  · right
    rw [heq]
    exact harmless_mkEv (by decide)

theorem GInv.evCancel_fst {w : World} (h : GInv ex fr w) (k : Nat) : GInv ex fr (evCancel w k).1 := h.ofCanRel (evCancel_rel w k)

theorem GInv.foldl {α : Type} {f : World → α → World}
    (hf : ∀ w a, GInv ex fr w → GInv ex fr (f w a)) : ∀ (l : List α) {w : World}, GInv ex fr w → GInv ex fr (l.foldl f w) := by
  intro l
  induction l with
  | nil => intro w h; exact h
  | cons a l ih => intro w h; exact ih (hf w a h)

end CimbaModel.Sim.S3
