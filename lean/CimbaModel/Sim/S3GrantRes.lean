/-
  S3 — the grant invariant, part 8: resources (acquire, preempt, release and the `acquire` frame).
-/
import CimbaModel.Sim.S3GrantStep

namespace CimbaModel.Sim.S3
open CimbaModel CimbaModel.Sim CimbaModel.Event CimbaModel.Generated CimbaModel.KPQ
open CimbaModel.HashHeap (HTag Item Order HH WF abs liveTags)

theorem getD_map_set! {α : Type} (xs : Array α) (i j : Nat) (y : α) (f : α → Nat) :
    (((xs.set! i y)[j]?).map f).getD 0 = if j = i ∧ i < xs.size then f y else ((xs[j]?).map f).getD 0 := by
  rw [Array.set!_eq_setIfInBounds, Array.getElem?_setIfInBounds]
  by_cases hij : i = j
  · subst hij
    by_cases hlt : i < xs.size
    · simp [hlt]
    · simp [hlt, Array.getElem?_eq_none (Nat.le_of_not_lt hlt)]
  · have : ¬ j = i := fun h => hij h.symm
    simp [hij, this]

theorem getD_map_modify {α : Type} (xs : Array α) (i j : Nat) (g : α → α) (f : α → Nat) :
    (((xs.modify i g)[j]?).map f).getD 0 = if j = i then ((xs[j]?).map (fun x => f (g x))).getD 0 else ((xs[j]?).map f).getD 0 := by
  rw [Array.getElem?_modify]
  by_cases hij : i = j
  · subst hij; simp [Option.map_map, Function.comp_def]
  · have : ¬ j = i := fun h => hij h.symm
    simp [hij, this]

theorem lt_of_getElem? {α : Type} {xs : Array α} {i : Nat} {x : α} (h : xs[i]? = some x) : i < xs.size := by
  rcases Nat.lt_or_ge i xs.size with h' | h'
  · exact h'
  · rw [Array.getElem?_eq_none h'] at h; cases h

/-- the availability after the record of resource `r` has been replaced -/
theorem need_res_set {w : World} {r : Nat} {x : Res} (hx : w.res[r]? = some x) (y : Res) (d : Demand) :
    need { w with res := w.res.set! r y } d = if d = .resAvail r then resNeed y else need w d := by
  rw [need_eq, need_eq]
  cases d <;> simp only [reduceCtorEq, if_false]
  rename_i r'
  rw [getD_map_set!]
  by_cases hr : r' = r
  · subst hr; simp [lt_of_getElem? hx]
  · simp [hr]

theorem need_res_modify {w : World} {r : Nat} {x : Res} (hx : w.res[r]? = some x) (g : Res → Res) (d : Demand) :
    need { w with res := w.res.modify r g } d = if d = .resAvail r then resNeed (g x) else need w d := by
  rw [need_eq, need_eq]
  cases d <;> simp only [reduceCtorEq, if_false]
  rename_i r'
  rw [getD_map_modify]
  by_cases hr : r' = r
  · subst hr; simp [hx]
  · simp [hr]

theorem need_res_of {w : World} {r : Nat} {x : Res} (hx : w.res[r]? = some x) : need w (.resAvail r) = resNeed x := by
  rw [need_eq]; simp [hx]

theorem gOf_res_of {w : World} {r : Nat} {x : Res} (hx : w.res[r]? = some x) : gOf w (.resAvail r) = some x.guard := by
  simp [gOf, hx, resStat]

variable {fr : Pid → Option Frame} {df df' : Demand → Nat} {w : World} {p : Pid}

theorem Inert.setResLe {w0 : World} (h : Inert w0 w) {r : Nat} {x : Res} (hx : w.res[r]? = some x) (y : Res)
    (hs : resStat y = resStat x) (hn : resNeed y ≤ resNeed x) : Inert w0 { w with res := w.res.set! r y } := by
  have hst : Stat w { w with res := w.res.set! r y } := (Stat.refl w).setResSet r y (fun x' hx' => by rw [hx] at hx'; cases hx'; exact hs)
  refine h.objs rfl rfl rfl (gOf_of_stat hst) (fun d => ?_)
  rw [need_res_set hx]
  split
  · rename_i hd; subst hd; rw [need_res_of hx]; exact hn
  · exact Nat.le_refl _

/-- `grab` + `record`: the resource is taken; nothing is available there any more -/
theorem grab_record_inert {r : Nat} {x : Res} (hx : w.res[r]? = some x) (hh : x.holder = none) :
    Inert w (recordRes (grab w r p) r) ∧ need (recordRes (grab w r p) r) (.resAvail r) = 0 := by
  have hg : grab w r p = ({ w with res := w.res.set! r { x with holder := some p } }).modProc p fun y => { y with held := .res r :: y.held } := by
    unfold grab; rw [hx]; simp [hh]
  have hi1 : Inert w (grab w r p) := by
    rw [hg]
    exact ((Inert.refl w).setResLe hx { x with holder := some p } rfl (by simp [resNeed])).modProc p
      (fun y => { y with held := .res r :: y.held }) (fun _ => rfl)
  have hn1 : need (grab w r p) (.resAvail r) = 0 := by
    rw [hg]
    show need { w with res := w.res.set! r { x with holder := some p } } (.resAvail r) = 0
    rw [need_res_set hx, if_pos rfl]; simp [resNeed]
  refine ⟨hi1.recordRes r, ?_⟩
  have := ((Inert.refl (grab w r p)).recordRes r).need (.resAvail r)
  omega

theorem GH.clear (h : GH df w) (d0 : Demand) (h0 : need w d0 = 0) (hdf : ∀ d, d ≠ d0 → df d ≤ df' d) : GH df' w :=
  ⟨h.1, h.2.clear d0 h0 hdf⟩

/-- the acquisition step: the resource is taken (nothing available any more), or the caller joins the waiting list (nothing
    was available); either way a deficit booked at this resource is settled -/
theorem GS.acquireStep (h : GS fr df w) (hes : EndSep w) (hsep : CondSep w) (hfr : fr p = none) (hlt : p < w.procs.size)
    (r : Nat) (hdf : ∀ d, d ≠ .resAvail r → df d ≤ df' d) : GH df' (acquireStep w p r).1 := by
  simp only [Sim.acquireStep]
  split
  · rename_i hn
    have hi : Inert w (w.fail "no such resource") := (Inert.refl w).fail _
    refine (h.gh.inert h.ginv.ei hi).clear (.resAvail r) ?_ hdf
    have := hi.need (.resAvail r)
    have h0 : need w (.resAvail r) = 0 := by rw [need_eq]; simp [hn]
    omega
  · rename_i x hx
    split
    · rename_i hh
      have hh' : x.holder = none := by simpa using hh
      obtain ⟨hi, h0⟩ := grab_record_inert (p := p) hx hh'
      exact (h.gh.inert h.ginv.ei hi).clear (.resAvail r) h0 hdf
    · rename_i hh
      have h0 : need w (.resAvail r) = 0 := by
        rw [need_res_of hx]; unfold resNeed; simp only [hh]; rfl
      have h' : GS fr df' w := h.clear (.resAvail r) h0 hdf
      have hon : FrameOn w (.acquire r) x.guard := by simp [FrameOn, hx, resStat]
      refine (h'.enterBlock x.guard (.resAvail r) (.acquire r) hfr hlt hon (fun c hc => hsep c _ _ hc hon) ?_).gh
      intro d' hd'
      have := hes d' (.resAvail r) x.guard hd' (gOf_res_of hx)
      subst this
      exact ⟨rfl, by omega⟩

/-- `release`: the resource becomes free and its guard is signalled in the same step -/
theorem GS.release (h : GS fr df w) (r : Nat) : GH df (execCmd w p (.release r)).1 := by
  simp only [Sim.execCmd]
  split
  · exact h.gh
  · rename_i x hx
    split
    · exact h.gh
    · have hp := h.ginv
      have hst := Stat.refl w
      -- the deficit booked while the resource is free but nobody has been told yet
      let df1 : Demand → Nat := fun d => df d + (if d = .resAvail r then 1 else 0)
      have hx1 : (removeHeld w p (.res r)).1.res[r]? = some x := hx
      refine GS.gh (fr := fr) ?_
      refine GS.signal (df := df1) ?_ x.guard (fun d _ => by show df d + _ ≤ df d + 1; split <;> omega) ?_
      · refine GS.inert (w := { (removeHeld w p (.res r)).1 with res := (removeHeld w p (.res r)).1.res.set! r { x with holder := none } })
          ?_ (by ginv) ((Inert.refl _).recordRes r)
        refine GS.bump (w := (removeHeld w p (.res r)).1) (df := df) ?_ (by ginv) rfl rfl (fun _ => rfl) ?_ ?_
        · exact h.inert (by ginv) ((Inert.refl w).removeHeld_fst p _)
        · exact gOf_of_stat ((Stat.refl _).setResSet r _ (fun x' hx' => by rw [hx1] at hx'; cases hx'; rfl))
        · intro d
          rw [need_res_set hx1]
          show _ ≤ _ + (df d + _)
          split
          · simp [resNeed]; omega
          · omega
      · intro d hd
        show df d + _ ≤ df d
        split
        · rename_i hdd; subst hdd
          exfalso; apply hd
          have hs : Stat w (recordRes { (removeHeld w p (.res r)).1 with res := (removeHeld w p (.res r)).1.res.set! r { x with holder := none } } r) := by stat
          rw [gOf_of_stat hs]; exact gOf_res_of hx
        · omega

end CimbaModel.Sim.S3
