/-
  S3 — `GInv`, part 4: frames, awaits, exemption of one process, entering a guard wait, `hold`.
-/
import CimbaModel.Sim.S3GInvFrame

namespace CimbaModel.Sim.S3
open CimbaModel CimbaModel.Sim CimbaModel.Event CimbaModel.Generated CimbaModel.KPQ
open CimbaModel.HashHeap (HTag Item Order HH WF abs liveTags)

variable {ex : Pid → Prop} {fr : Pid → Option Frame}

/-- nothing of a guard wait or a hold is left for `p` -/
structure Clean (w : World) (p : Pid) : Prop where
  aw : guardAw w p = []
  nq : ∀ g, ¬ queued w g (p + 1)
  ng : ∀ e ∈ w.ev.pending, isGrant e → e.item.b ≠ p + 1
  nt : ∀ e ∈ w.ev.pending, e.item.a = aTime → e.item.c = 0 → e.item.b ≠ p + 1

/-- a process whose logical frame is neither a guard wait nor a hold is clean -/
theorem GInv.clean {w : World} (hp : GInv ex fr w) {p : Pid} (hx : ¬ ex p)
    (hf : ∀ f, fr p = some f → isGuardFrame f = false ∧ ∀ h, f ≠ .hold h) : Clean w p := by
  have haw : guardAw w p = [] := by
    rcases hp.ga p with h | ⟨g, f, h1, h2, _⟩
    · exact h
    · have := frameOn_guardFrame h2
      rw [(hf f h1).1] at this; cases this
  refine ⟨haw, ?_, ?_, ?_⟩
  · intro g hq
    have := (hp.gk g _ hq).2.2 (by simpa using hx)
    simp only [Nat.add_sub_cancel] at this
    rw [mem_awaits_guard, haw] at this; cases this
  · intro e he hgr hb
    obtain ⟨_, h2⟩ := hp.gr e he hgr
    rw [hb] at h2
    obtain ⟨g, h3, _⟩ := h2 (by simpa using hx)
    simp only [Nat.add_sub_cancel] at h3
    rw [mem_awaits_guard, haw] at h3; cases h3
  · intro e he hea hec hb
    obtain ⟨_, h2⟩ := hp.oth e he hea hec
    rw [hb] at h2
    have := h2 (by simpa using hx)
    simp only [Nat.add_sub_cancel] at this
    exact (hf _ this).2 _ rfl

theorem GInv.clean_of_none {w : World} (hp : GInv ex fr w) {p : Pid} (hx : ¬ ex p) (hfr : fr p = none) : Clean w p :=
  hp.clean hx (fun f h => by rw [hfr] at h; cases h)

/-- the logical frame of a clean process is irrelevant -/
theorem GInv.setFr_clean {w : World} (hp : GInv ex fr w) {p : Pid} (hc : Clean w p) (x : Option Frame) :
    GInv ex (setFrame fr p x) w := by
  have hne : ∀ y, y ≠ p → setFrame fr p x y = fr y := fun y hy => setFrame_ne fr x hy
  refine { hp with ga := ?_, gfb := ?_, gc := ?_, gkc := ?_, oth := ?_ }
  · intro y
    by_cases hy : y = p
    · subst hy; exact Or.inl hc.aw
    · rw [hne y hy]; exact hp.ga y
  · intro y hxy hbl
    by_cases hy : y = p
    · subst hy; exact ⟨hc.aw, hc.nt⟩
    · rw [hne y hy] at hbl; exact hp.gfb y hxy hbl
  · intro e he hea hxe
    by_cases hy : e.item.b - 1 = p
    · exfalso
      have hb0 := (hp.gr e he (Or.inr hea)).1
      exact hc.ng e he (Or.inr hea) (by omega)
    · rw [hne _ hy]; exact hp.gc e he hea hxe
  · intro c g hcg k hq hxk
    by_cases hy : k - 1 = p
    · exfalso
      have hk0 := (hp.gk g k hq).1
      have : k = p + 1 := by omega
      exact hc.nq g (this ▸ hq)
    · rw [hne _ hy]; exact hp.gkc c g hcg k hq hxk
  · intro e he hea hec
    obtain ⟨h1, h2⟩ := hp.oth e he hea hec
    refine ⟨h1, fun hxe => ?_⟩
    by_cases hy : e.item.b - 1 = p
    · exfalso; exact hc.nt e he hea hec (by omega)
    · rw [hne _ hy]; exact h2 hxe

/-- between activations the logical frames are the recorded ones -/
theorem GInv.toBlocked {w : World} (hp : GInv ex fr w) (hne : ∀ x, ¬ ex x) : GInv ex (blockedOf w) w := by
  -- wherever the two differ the process is clean
  have hcl : ∀ p, blockedOf w p ≠ fr p → Clean w p := by
    intro p hd
    obtain ⟨h1, h2⟩ := hp.gfb p (hne p) hd
    refine ⟨h1, ?_, ?_, h2⟩
    · intro g hq
      have := (hp.gk g _ hq).2.2 (by simpa using hne p)
      simp only [Nat.add_sub_cancel] at this
      rw [mem_awaits_guard, h1] at this; cases this
    · intro e he hgr hb
      obtain ⟨_, h3⟩ := hp.gr e he hgr
      rw [hb] at h3
      obtain ⟨g, h4, _⟩ := h3 (by simpa using hne p)
      simp only [Nat.add_sub_cancel] at h4
      rw [mem_awaits_guard, h1] at h4; cases h4
  refine { hp with ga := ?_, gfb := fun p _ h => absurd rfl h, gc := ?_, gkc := ?_, oth := ?_ }
  · intro p
    by_cases hd : blockedOf w p = fr p
    · rw [hd]; exact hp.ga p
    · exact Or.inl (hcl p hd).aw
  · intro e he hea hxe
    by_cases hd : blockedOf w (e.item.b - 1) = fr (e.item.b - 1)
    · rw [hd]; exact hp.gc e he hea hxe
    · exfalso
      have hb0 := (hp.gr e he (Or.inr hea)).1
      exact (hcl _ hd).ng e he (Or.inr hea) (by omega)
  · intro c g hcg k hq hxk
    by_cases hd : blockedOf w (k - 1) = fr (k - 1)
    · rw [hd]; exact hp.gkc c g hcg k hq hxk
    · exfalso
      have hk0 := (hp.gk g k hq).1
      have : k = (k - 1) + 1 := by omega
      exact (hcl _ hd).nq g (this ▸ hq)
  · intro e he hea hec
    obtain ⟨h1, h2⟩ := hp.oth e he hea hec
    refine ⟨h1, fun hxe => ?_⟩
    by_cases hd : blockedOf w (e.item.b - 1) = fr (e.item.b - 1)
    · rw [hd]; exact h2 hxe
    · exfalso; exact (hcl _ hd).nt e he hea hec (by omega)

/-- rewriting the awaits of a process without touching its RESOURCE awaitables -/
theorem GInv.mapAwaits {w : World} (hp : GInv ex fr w) (p : Pid) (g : List Await → List Await)
    (hg : ∀ l, (g l).filter isGuardA = l.filter isGuardA) :
    GInv ex fr (w.modProc p fun x => { x with awaits := g x.awaits }) := by
  have hga : ∀ x, guardAw (w.modProc p fun x => { x with awaits := g x.awaits }) x = guardAw w x := by
    intro x; unfold guardAw; rw [modProc_proc]; split
    · rename_i h; rw [h.1]; exact hg _
    · rfl
  have hm : ∀ x k, Await.guard k ∈ ((w.modProc p fun x => { x with awaits := g x.awaits }).proc x).awaits ↔
      Await.guard k ∈ (w.proc x).awaits := by
    intro x k; rw [mem_awaits_guard, mem_awaits_guard, hga]
  have hbl : ∀ x, ((w.modProc p fun x => { x with awaits := g x.awaits }).proc x).blocked = (w.proc x).blocked := by
    intro x; rw [modProc_proc]; split
    · rename_i h; rw [h.1]
    · rfl
  refine { hp with gsz := by simpa using hp.gsz, gk := ?_, ga := fun x => by rw [hga]; exact hp.ga x, gfb := ?_, gr := ?_ }
  · intro g' k hq
    obtain ⟨h1, h2, h3⟩ := hp.gk g' k hq
    exact ⟨h1, by simpa using h2, fun hx => (hm _ _).2 (h3 hx)⟩
  · intro x hx hb
    rw [hbl] at hb; rw [hga]; exact hp.gfb x hx hb
  · intro e he hgr
    obtain ⟨h1, h2⟩ := hp.gr e he hgr
    refine ⟨h1, fun hx => ?_⟩
    obtain ⟨g', h3, h4⟩ := h2 hx
    exact ⟨g', (hm _ _).2 h3, h4⟩

theorem GInv.addAwait_other {w : World} (hp : GInv ex fr w) (p : Pid) (a : Await) (ha : isGuardA a = false) :
    GInv ex fr (addAwait w p a) :=
  hp.mapAwaits p (fun l => a :: l) (fun l => by simp [List.filter_cons, ha])

theorem GInv.removeAwait_other {w : World} (hp : GInv ex fr w) (p : Pid) (a : Await) (ha : isGuardA a = false) :
    GInv ex fr (removeAwait w p a).1 := by
  rw [removeAwait_fst_eq]
  exact hp.mapAwaits p (fun l => (removeFirst l a).1) (fun l => removeFirst_filter_ne l _ _ ha)

theorem GInv.removeAwaitKind_other {w : World} (hp : GInv ex fr w) (p : Pid) (k : Await → Bool)
    (hk : ∀ a, k a = true → isGuardA a = false) : GInv ex fr (removeAwaitKind w p k).1 := by
  rw [removeAwaitKind_fst_eq]
  exact hp.mapAwaits p (fun l => (removeAwaitKind.go k l).1) (fun l => rak_go_filter _ _ hk l)

/-- recording a frame for a process for which it does not matter (clean, or the same frame) -/
theorem GInv.modBlocked {w : World} (hp : GInv ex fr w) (p : Pid) (b : Option Frame)
    (hc : ex p ∨ b = fr p ∨ Clean w p) : GInv ex fr (w.modProc p fun x => { x with blocked := b }) := by
  have haw : ∀ x, ((w.modProc p fun x => { x with blocked := b }).proc x).awaits = (w.proc x).awaits := by
    intro x; rw [modProc_proc]; split
    · rename_i h; rw [h.1]
    · rfl
  have hga : ∀ x, guardAw (w.modProc p fun x => { x with blocked := b }) x = guardAw w x := fun x => by
    unfold guardAw; rw [haw]
  refine { hp with gsz := by simpa using hp.gsz, gk := ?_, ga := fun x => by rw [hga]; exact hp.ga x, gfb := ?_, gr := ?_ }
  · intro g' k hq
    obtain ⟨h1, h2, h3⟩ := hp.gk g' k hq
    exact ⟨h1, by simpa using h2, fun hx => by rw [haw]; exact h3 hx⟩
  · intro x hx hb
    rw [hga]
    rw [modProc_proc] at hb
    split at hb
    · rename_i h
      obtain ⟨rfl, _⟩ := h
      rcases hc with hc | hc | hc
      · exact absurd hc hx
      · exact absurd hc hb
      · exact ⟨hc.aw, hc.nt⟩
    · exact hp.gfb x hx hb
  · intro e he hgr
    obtain ⟨h1, h2⟩ := hp.gr e he hgr
    refine ⟨h1, fun hx => ?_⟩
    obtain ⟨g', h3, h4⟩ := h2 hx
    exact ⟨g', by rw [haw]; exact h3, h4⟩

/-- suspending a clean process in any frame -/
theorem GInv.block_fst {w : World} (hp : GInv ex fr w) (p : Pid) (f : Frame) (hx : ¬ ex p) (hfr : fr p = none) :
    GInv ex (setFrame fr p (some f)) (block w p f).1 := by
  have hc := hp.clean_of_none hx hfr
  have h1 := hp.setFr_clean hc (some f)
  exact h1.modBlocked p (some f) (Or.inr (Or.inl (setFrame_self _ _ _).symm))

end CimbaModel.Sim.S3
