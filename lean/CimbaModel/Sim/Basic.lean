/-
  First lemmas about the primitives of the process-layer model.
-/
import CimbaModel.Sim.Run

namespace CimbaModel.Sim
open CimbaModel CimbaModel.Event CimbaModel.Generated
open CimbaModel.HashHeap (HTag Item Order HH)

/-- scheduling at or after the current time succeeds, appends exactly one pending event and leaves the clock alone -/
theorem sched_ok (w : World) (act subj : Nat) (sig t pri : Int) (ht : w.now ≤ t) :
    (sched w act subj sig t pri).2 = w.ev.counter + 1 ∧
    (sched w act subj sig t pri).1.ev.pending =
      { key := w.ev.counter + 1, item := ⟨act, subj, encSig sig, 0⟩, d := t, i := pri } :: w.ev.pending ∧
    (sched w act subj sig t pri).1.now = w.now ∧
    (sched w act subj sig t pri).1.procs = w.procs ∧
    (sched w act subj sig t pri).1.res = w.res := by
  unfold sched schedule World.now at *
  have : ¬ t < w.ev.now := by omega
  simp [this, KPQ.insert, KPQ.norm]

/-- a timer armed for duration `d ≥ 0` is a pending event at exactly now + d carrying the signal,
    addressed to the process; the clock is untouched -/
theorem timerAdd_due (w : World) (p : Pid) (d sig : Int) (hd : 0 ≤ d) :
    (∃ e ∈ (timerAdd w p d sig).1.ev.pending, e.key = (timerAdd w p d sig).2 ∧ e.d = w.now + d ∧ e.item.b = p + 1 ∧
        e.item.c = encSig sig ∧ e.item.a = aTime) ∧
    (timerAdd w p d sig).1.now = w.now := by
  have h := sched_ok w aTime (p + 1) sig (w.now + d) (w.proc p).prio (by omega)
  have hp : (timerAdd w p d sig).1.ev = (sched w aTime (p + 1) sig (w.now + d) (w.proc p).prio).1.ev := by
    simp [timerAdd, addAwait, World.modProc]
  have h2 : (timerAdd w p d sig).2 = (sched w aTime (p + 1) sig (w.now + d) (w.proc p).prio).2 := by
    simp [timerAdd]
  refine ⟨⟨{ key := w.ev.counter + 1, item := ⟨aTime, p + 1, encSig sig, 0⟩, d := w.now + d, i := (w.proc p).prio }, ?_, ?_⟩, ?_⟩
  · rw [hp, h.2.1]; exact List.mem_cons_self
  · rw [h2, h.1]; simp
  · have := h.2.2.1
    simp only [World.now] at this ⊢
    rw [hp]; exact this

end CimbaModel.Sim
