/-
  S3 — a command that returns (does not block, does not end the caller) leaves the caller's recorded frame and status
  alone.
-/
import CimbaModel.Sim.S3PF

namespace CimbaModel.Sim.S3
open CimbaModel CimbaModel.Sim CimbaModel.Event CimbaModel.Generated CimbaModel.KPQ
open CimbaModel.HashHeap (HTag Item Order HH WF abs liveTags)

/-- recorded frame and status of `p` are the same -/
def KeepP (p : Pid) (w w' : World) : Prop :=
  (w'.proc p).blocked = (w.proc p).blocked ∧ (w'.proc p).status = (w.proc p).status

theorem KeepP.refl (p : Pid) (w : World) : KeepP p w w := ⟨rfl, rfl⟩
theorem KeepP.trans {p : Pid} {w w1 w2 : World} (h1 : KeepP p w w1) (h2 : KeepP p w1 w2) : KeepP p w w2 :=
  ⟨h2.1.trans h1.1, h2.2.trans h1.2⟩
theorem KeepP.ofPF {p : Pid} {w0 w w' : World} (h : KeepP p w0 w) (hpf : PF w w') : KeepP p w0 w' :=
  h.trans ⟨(hpf.ctl p).2.2.2, (hpf.ctl p).2.2.1⟩

/-- a modification of `p`'s record that keeps frame and status, or of another process -/
theorem KeepP.modProc {p : Pid} {w0 w : World} (h : KeepP p w0 w) (q : Pid) (f : Proc → Proc)
    (hf : q ≠ p ∨ ∀ x, (f x).blocked = x.blocked ∧ (f x).status = x.status) : KeepP p w0 (w.modProc q f) := by
  refine h.trans ?_
  unfold KeepP
  rw [modProc_proc]
  split
  · rename_i hq
    rcases hf with hf | hf
    · exact absurd hq.1.symm hf
    · rw [hq.1]; exact hf _
  · exact ⟨rfl, rfl⟩

theorem KeepP.addAwait {p : Pid} {w0 w : World} (h : KeepP p w0 w) (q : Pid) (a : Await) : KeepP p w0 (addAwait w q a) :=
  h.modProc q _ (Or.inr fun _ => ⟨rfl, rfl⟩)
theorem KeepP.removeAwait_fst {p : Pid} {w0 w : World} (h : KeepP p w0 w) (q : Pid) (a : Await) :
    KeepP p w0 (removeAwait w q a).1 := by
  simp only [removeAwait]; exact h.modProc q _ (Or.inr fun _ => ⟨rfl, rfl⟩)
theorem KeepP.timerAdd_fst {p : Pid} {w0 w : World} (h : KeepP p w0 w) (q : Pid) (d sig : Int) :
    KeepP p w0 (timerAdd w q d sig).1 := by
  simp only [timerAdd]
  exact (h.ofPF ((PF.refl w).sched_fst _ _ _ _ _)).addAwait q _
theorem KeepP.timerCancel_fst {p : Pid} {w0 w : World} (h : KeepP p w0 w) (q : Pid) (k : Nat) :
    KeepP p w0 (timerCancel w q k).1 := by
  simp only [timerCancel]
  exact (h.removeAwait_fst q _).ofPF ((PF.refl _).evCancel_fst k)
theorem KeepP.timersClear {p : Pid} {w0 w : World} (h : KeepP p w0 w) (q : Pid) : KeepP p w0 (timersClear w q) := by
  unfold Sim.timersClear
  refine KeepP.ofPF ?_ (PF.foldl (fun w k => (PF.refl w).evCancel_fst k) _ (PF.refl _))
  exact h.modProc q _ (Or.inr fun _ => ⟨rfl, rfl⟩)

theorem KeepP.foldl {α : Type} {p : Pid} {f : World → α → World} (hf : ∀ w a, KeepP p w (f w a)) {w0 : World} :
    ∀ (l : List α) {w : World}, KeepP p w0 w → KeepP p w0 (l.foldl f w) := by
  intro l
  induction l with
  | nil => intro w h; exact h
  | cons a l ih => intro w h; exact ih (h.trans (hf w a))

theorem KeepP.cancelAwaiteds {p : Pid} {w0 w : World} (h : KeepP p w0 w) (q : Pid) : KeepP p w0 (cancelAwaiteds w q) := by
  unfold Sim.cancelAwaiteds
  refine KeepP.ofPF ?_ ((PF.refl _).cancelAllFor q)
  refine KeepP.foldl (fun w a => ?_) _ (h.modProc q _ (Or.inr fun _ => ⟨rfl, rfl⟩))
  cases a with
  | time k => exact (KeepP.refl p w).ofPF ((PF.refl w).evCancel_fst k)
  | guard g => exact (KeepP.refl p w).ofPF ((PF.refl w).guardWithdraw g q)
  | proc r => exact (KeepP.refl p w).modProc r _ (Or.inr fun _ => ⟨rfl, rfl⟩)
  | event k => exact ⟨rfl, rfl⟩

theorem KeepP.wakeWaiters {p : Pid} {w0 w : World} (h : KeepP p w0 w) (q : Pid) (sig : Int) : KeepP p w0 (wakeWaiters w q sig) := by
  unfold Sim.wakeWaiters
  refine KeepP.ofPF ?_ (PF.foldl (fun w k => (PF.refl w).sched_fst _ _ _ _ _) _ (PF.refl _))
  exact h.modProc q _ (Or.inr fun _ => ⟨rfl, rfl⟩)

/-- the end of another process -/
theorem KeepP.finishProc_other {p : Pid} {w0 w : World} (h : KeepP p w0 w) {q : Pid} (hq : q ≠ p) (v : Int) (s : Bool) :
    KeepP p w0 (finishProc w q v s) := by
  unfold Sim.finishProc
  refine KeepP.modProc ?_ q _ (Or.inl hq)
  apply KeepP.wakeWaiters
  split
  · exact (h.cancelAwaiteds q).ofPF ((PF.refl _).dropResources q)
  · exact (h.ofPF ((PF.refl _).dropResources q)).cancelAwaiteds q

def isCont : Outcome → Bool
  | .ret _ _ => true
  | .skip => true
  | _ => false

/-- if the call returns, the caller's frame and status are as before -/
def ContKeep (p : Pid) (w0 : World) (r : World × Outcome) : Prop := isCont r.2 = true → KeepP p w0 r.1

theorem ContKeep.ret {p : Pid} {w0 w : World} (h : KeepP p w0 w) (v : Int) (e : String) : ContKeep p w0 (w, .ret v e) := fun _ => h
theorem ContKeep.skip {p : Pid} {w0 w : World} (h : KeepP p w0 w) : ContKeep p w0 (w, .skip) := fun _ => h
theorem ContKeep.blocked {p : Pid} {w0 w : World} : ContKeep p w0 (w, .blocked) := fun h => by cases h
theorem ContKeep.ended {p : Pid} {w0 w : World} : ContKeep p w0 (w, .ended) := fun h => by cases h
theorem ContKeep.block {p : Pid} {w0 w : World} (q : Pid) (f : Frame) : ContKeep p w0 (block w q f) := fun h => by cases h

theorem KeepP.guardWaitEnter {p : Pid} {w0 w : World} (h : KeepP p w0 w) (g : Nat) (q : Pid) (d : Demand) :
    KeepP p w0 (guardWaitEnter w g q d) := by
  unfold Sim.guardWaitEnter
  split
  · exact h.ofPF ((PF.refl w).fail _)
  · split
    · exact (h.ofPF ((PF.refl w).setGuards _)).addAwait q _
    · exact h.ofPF ((PF.refl w).fail _)

theorem KeepP.guardWaitLeave {p : Pid} {w0 w : World} (h : KeepP p w0 w) (g : Nat) (q : Pid) (sig : Int) :
    KeepP p w0 (guardWaitLeave w g q sig) := by
  unfold Sim.guardWaitLeave
  apply KeepP.removeAwait_fst
  split
  · exact h.ofPF ((PF.refl w).guardWithdraw g q)
  · exact h


/-! ### the tactic -/

syntax "keep_step" : tactic
macro_rules | `(tactic| keep_step) => `(tactic| dsimp only)
macro_rules | `(tactic| keep_step) => `(tactic| (apply KeepP.ofPF; rotate_left; pf_fun; with_reducible exact PF.refl _))
macro_rules | `(tactic| keep_step) => `(tactic| split)
macro_rules | `(tactic| keep_step) => `(tactic| (with_reducible refine KeepP.finishProc_other ?_ (by assumption) _ _))
macro_rules | `(tactic| keep_step) => `(tactic| with_reducible apply KeepP.guardWaitLeave)
macro_rules | `(tactic| keep_step) => `(tactic| with_reducible apply KeepP.guardWaitEnter)
macro_rules | `(tactic| keep_step) => `(tactic| with_reducible apply KeepP.cancelAwaiteds)
macro_rules | `(tactic| keep_step) => `(tactic| with_reducible apply KeepP.timersClear)
macro_rules | `(tactic| keep_step) => `(tactic| with_reducible apply KeepP.timerCancel_fst)
macro_rules | `(tactic| keep_step) => `(tactic| with_reducible apply KeepP.timerAdd_fst)
macro_rules | `(tactic| keep_step) => `(tactic| with_reducible apply KeepP.removeAwait_fst)
macro_rules | `(tactic| keep_step) => `(tactic| with_reducible apply KeepP.addAwait)
macro_rules | `(tactic| keep_step) => `(tactic| (with_reducible refine KeepP.modProc ?_ _ _ (Or.inr fun _ => ⟨rfl, rfl⟩)))
macro_rules | `(tactic| keep_step) => `(tactic| with_reducible apply ContKeep.block)
macro_rules | `(tactic| keep_step) => `(tactic| with_reducible apply ContKeep.ended)
macro_rules | `(tactic| keep_step) => `(tactic| with_reducible apply ContKeep.blocked)
macro_rules | `(tactic| keep_step) => `(tactic| with_reducible apply ContKeep.skip)
macro_rules | `(tactic| keep_step) => `(tactic| with_reducible apply ContKeep.ret)
macro_rules | `(tactic| keep_step) => `(tactic| with_reducible exact KeepP.refl _ _)
macro_rules | `(tactic| keep_step) => `(tactic| with_reducible assumption)
macro "keep" : tactic => `(tactic| repeat' keep_step)

variable {p : Pid} {w0 w : World}

theorem ContKeep.acquireStep (h : KeepP p w0 w) (q : Pid) (r : Nat) : ContKeep p w0 (acquireStep w q r) := by
  simp only [Sim.acquireStep]; keep
macro_rules | `(tactic| keep_step) => `(tactic| with_reducible apply ContKeep.acquireStep)

theorem ContKeep.poolLoop (h : KeepP p w0 w) (q : Pid) (pl rem ini : Nat) (pre : Bool) :
    ContKeep p w0 (poolLoop w q pl rem ini pre) := by
  simp only [Sim.poolLoop]; keep
macro_rules | `(tactic| keep_step) => `(tactic| with_reducible apply ContKeep.poolLoop)

theorem ContKeep.bufGetLoop (h : KeepP p w0 w) (q : Pid) (b rem got : Nat) : ContKeep p w0 (bufGetLoop w q b rem got) := by
  simp only [Sim.bufGetLoop]; keep
macro_rules | `(tactic| keep_step) => `(tactic| with_reducible apply ContKeep.bufGetLoop)
theorem ContKeep.bufPutLoop (h : KeepP p w0 w) (q : Pid) (b rem left : Nat) : ContKeep p w0 (bufPutLoop w q b rem left) := by
  simp only [Sim.bufPutLoop]; keep
macro_rules | `(tactic| keep_step) => `(tactic| with_reducible apply ContKeep.bufPutLoop)
theorem ContKeep.oqGetLoop (h : KeepP p w0 w) (q : Pid) (k : Nat) : ContKeep p w0 (oqGetLoop w q k) := by
  simp only [Sim.oqGetLoop]; keep
macro_rules | `(tactic| keep_step) => `(tactic| with_reducible apply ContKeep.oqGetLoop)
theorem ContKeep.oqPutLoop (h : KeepP p w0 w) (q : Pid) (k obj : Nat) : ContKeep p w0 (oqPutLoop w q k obj) := by
  simp only [Sim.oqPutLoop]; keep
macro_rules | `(tactic| keep_step) => `(tactic| with_reducible apply ContKeep.oqPutLoop)
theorem ContKeep.pqGetLoop (h : KeepP p w0 w) (q : Pid) (k : Nat) : ContKeep p w0 (pqGetLoop w q k) := by
  simp only [Sim.pqGetLoop]; keep
macro_rules | `(tactic| keep_step) => `(tactic| with_reducible apply ContKeep.pqGetLoop)
theorem ContKeep.pqPutLoop (h : KeepP p w0 w) (q : Pid) (k obj : Nat) (pri : Int) (v : Nat) :
    ContKeep p w0 (pqPutLoop w q k obj pri v) := by
  simp only [Sim.pqPutLoop]; keep
macro_rules | `(tactic| keep_step) => `(tactic| with_reducible apply ContKeep.pqPutLoop)

/-- a command that returns leaves the caller's recorded frame and status as they were -/
theorem ContKeep.execCmd (w : World) (p : Pid) (c : Cmd) : ContKeep p w (execCmd w p c) := by
  have h := KeepP.refl p w
  cases c with
  | prioSet q v =>
    by_cases hq : q < w.procs.size
    · rw [prioSet_eq w p q v hq]
      dsimp only
      apply ContKeep.ret
      refine KeepP.ofPF ?_ (PF.foldl (fun w x => (PF.refl w).prioHeldStep q v x) _ (PF.refl _))
      refine KeepP.ofPF ?_ (PF.foldl (fun w x => (PF.refl w).prioAwaitStep q v x) _ (PF.refl _))
      exact h.modProc q _ (Or.inr fun _ => ⟨rfl, rfl⟩)
    · have : q ≥ w.procs.size := Nat.le_of_not_lt hq
      simp only [Sim.execCmd, this, if_true]
      exact ContKeep.skip h
  | stop q v =>
    simp only [Sim.execCmd]
    by_cases hqp : q = p
    · simp only [hqp, if_true]; exact ContKeep.ended
    · simp only [hqp, if_false]
      split
      · exact ContKeep.ret (h.finishProc_other hqp v true) _ _
      · exact ContKeep.ret h _ _
  | waitProc q =>
    simp only [Sim.execCmd]; keep
  | waitEvent v =>
    simp only [Sim.execCmd]; keep
  | _ => simp only [Sim.execCmd] <;> keep


theorem KeepP.setEvWaiters {w0 w : World} {p : Pid} (h : KeepP p w0 w) (x : List (Nat × List Pid)) :
    KeepP p w0 { w with evWaiters := x } := h
macro_rules | `(tactic| keep_step) => `(tactic| (guard_world_lit; with_reducible apply KeepP.setEvWaiters))

/-- a resumed call that returns leaves the caller's recorded frame and status as they were -/
theorem ContKeep.resumeFrame (w : World) (p : Pid) (f : Frame) (sig : Int) : ContKeep p w (resumeFrame w p f sig) := by
  have h := KeepP.refl p w
  cases f <;> simp only [Sim.resumeFrame] <;> keep

end CimbaModel.Sim.S3
