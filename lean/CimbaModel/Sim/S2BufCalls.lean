/-
  S2 — buffers (C11): exact accounting of one pass of the get / put loops and of a whole call seen as the sequence of
  its passes.
-/
import CimbaModel.Sim.S2Buf

namespace CimbaModel.Sim
open CimbaModel CimbaModel.Event CimbaModel.Generated
open CimbaModel.HashHeap (HTag Item Order HH)

/-- the part of a buffer that matters here -/
structure BView where
  cap : Nat
  level : Nat
  putTotal : Nat
  getTotal : Nat
  deriving DecidableEq, Repr

def Buf.view (x : Buf) : BView := ⟨x.cap, x.level, x.putTotal, x.getTotal⟩

def bufView (w : World) (b : Nat) : Option BView := w.bufs[b]?.map Buf.view

theorem bufView_of_eq {w w' : World} (h : w'.bufs = w.bufs) (b : Nat) : bufView w' b = bufView w b := by
  unfold bufView; rw [h]

theorem bufView_set {w : World} {b : Nat} {x : Buf} (hx : w.bufs[b]? = some x) (y : Buf) :
    ((w.bufs.set! b y)[b]?).map Buf.view = some y.view := by
  rw [Array.set!_eq_setIfInBounds, Array.getElem?_setIfInBounds, if_pos rfl, if_pos (Array.getElem?_eq_some_iff.1 hx).1]
  rfl

theorem bufView_recordBuf (w : World) (a b : Nat) : bufView (recordBuf w a) b = bufView w b := by
  unfold recordBuf
  split
  · split
    · rename_i x hx _
      unfold bufView
      show ((w.bufs.set! a _)[b]?).map Buf.view = _
      rw [Array.set!_eq_setIfInBounds, Array.getElem?_setIfInBounds]
      split
      · rename_i e; subst e
        rw [if_pos (Array.getElem?_eq_some_iff.1 hx).1, hx]; rfl
      · rfl
    · rfl
  · rfl

/-- the total got from / put into buffer `b` so far (ghost) -/
def getTotalOf (w : World) (b : Nat) : Nat := match bufView w b with | some v => v.getTotal | none => 0
def putTotalOf (w : World) (b : Nat) : Nat := match bufView w b with | some v => v.putTotal | none => 0
def levelOf (w : World) (b : Nat) : Nat := match bufView w b with | some v => v.level | none => 0

/-- **one pass of `cmb_buffer_get`**: either the whole remaining claim `rem` is there: success, reporting `got + rem`,
    and exactly `rem` left the buffer; or the pass takes all there is (`level`), and waits for `rem − level` with
    `got + level` recorded as received so far -/
theorem bufGetLoop_pass {w : World} (p : Pid) {b : Nat} {x : Buf} (hx : w.bufs[b]? = some x) (rem got : Nat) :
    (x.level ≥ rem ∧ (bufGetLoop w p b rem got).2 = .ret sigSuccess s!"amt={got + rem}" ∧
      bufView (bufGetLoop w p b rem got).1 b = some ⟨x.cap, x.level - rem, x.putTotal, x.getTotal + rem⟩) ∨
    (x.level < rem ∧ ∃ w1, bufGetLoop w p b rem got = block w1 p (.bufGet b (rem - x.level) (got + x.level)) ∧
      bufView w1 b = some ⟨x.cap, 0, x.putTotal, x.getTotal + x.level⟩) := by
  by_cases hge : x.level ≥ rem
  · left
    refine ⟨hge, ?_, ?_⟩
    · unfold bufGetLoop; simp only [hx, hge, if_true]
    · unfold bufGetLoop; simp only [hx, hge, if_true]
      have : ∀ w' : World, w'.bufs = (recordBuf { w with bufs := w.bufs.set! b ({ x with level := x.level - rem, getTotal := x.getTotal + rem }) } b).bufs →
          bufView w' b = some ⟨x.cap, x.level - rem, x.putTotal, x.getTotal + rem⟩ := by
        intro w' hw'
        rw [bufView_of_eq hw', bufView_recordBuf]
        exact bufView_set hx _
      apply this
      split <;> simp
  · right
    refine ⟨by omega, ?_⟩
    by_cases h0 : x.level > 0
    · refine ⟨guardWaitEnter (signal (signal (recordBuf { w with bufs := w.bufs.set! b ({ x with level := 0, getTotal := x.getTotal + x.level }) } b) x.rear) x.rear) x.front p (.bufContent b), ?_, ?_⟩
      · unfold bufGetLoop; simp only [hx, hge, if_false, h0, if_true]
      · rw [bufView_of_eq (w := recordBuf { w with bufs := w.bufs.set! b ({ x with level := 0, getTotal := x.getTotal + x.level }) } b) (by simp), bufView_recordBuf]
        exact bufView_set hx _
    · have hz : x.level = 0 := by omega
      refine ⟨guardWaitEnter (signal w x.rear) x.front p (.bufContent b), ?_, ?_⟩
      · unfold bufGetLoop
        have h1 : ¬ (0 ≥ rem) := by omega
        have h2 : ¬ (0 > 0) := by omega
        simp only [hx, hz, h1, h2, if_false, Nat.sub_zero, Nat.add_zero]
      · rw [bufView_of_eq (w := w) (by simp)]
        unfold bufView; rw [hx]; simp [Buf.view, hz]

/-- **one pass of `cmb_buffer_put`** (`left` = what the caller will be told was *not* put) -/
theorem bufPutLoop_pass {w : World} (p : Pid) {b : Nat} {x : Buf} (hx : w.bufs[b]? = some x) (rem left : Nat) :
    (x.cap - x.level ≥ rem ∧ (bufPutLoop w p b rem left).2 = .ret sigSuccess s!"amt={left - rem}" ∧
      bufView (bufPutLoop w p b rem left).1 b = some ⟨x.cap, x.level + rem, x.putTotal + rem, x.getTotal⟩) ∨
    (x.cap - x.level < rem ∧ ∃ w1, bufPutLoop w p b rem left =
        block w1 p (.bufPut b (rem - (x.cap - x.level)) (left - (x.cap - x.level))) ∧
      bufView w1 b = some ⟨x.cap, x.level + (x.cap - x.level), x.putTotal + (x.cap - x.level), x.getTotal⟩) := by
  by_cases hge : x.cap - x.level ≥ rem
  · left
    refine ⟨hge, ?_, ?_⟩
    · unfold bufPutLoop; simp only [hx, hge, if_true]
    · unfold bufPutLoop; simp only [hx, hge, if_true]
      have : ∀ w' : World, w'.bufs = (recordBuf { w with bufs := w.bufs.set! b ({ x with level := x.level + rem, putTotal := x.putTotal + rem }) } b).bufs →
          bufView w' b = some ⟨x.cap, x.level + rem, x.putTotal + rem, x.getTotal⟩ := by
        intro w' hw'
        rw [bufView_of_eq hw', bufView_recordBuf]
        exact bufView_set hx _
      apply this
      split <;> simp
  · right
    refine ⟨by omega, ?_⟩
    by_cases h0 : x.level < x.cap
    · refine ⟨guardWaitEnter (signal (signal (recordBuf { w with bufs := w.bufs.set! b ({ x with level := x.cap, putTotal := x.putTotal + (x.cap - x.level) }) } b) x.front) x.front) x.rear p (.bufSpace b), ?_, ?_⟩
      · unfold bufPutLoop; simp only [hx, hge, if_false, h0, if_true]
      · rw [bufView_of_eq (w := recordBuf { w with bufs := w.bufs.set! b ({ x with level := x.cap, putTotal := x.putTotal + (x.cap - x.level) }) } b) (by simp), bufView_recordBuf]
        rw [show x.level + (x.cap - x.level) = x.cap by omega]
        exact bufView_set hx _
    · have hz : x.cap - x.level = 0 := by omega
      refine ⟨guardWaitEnter (signal w x.front) x.rear p (.bufSpace b), ?_, ?_⟩
      · unfold bufPutLoop
        have h1 : ¬ (0 ≥ rem) := by omega
        simp only [hx, hz, h1, h0, if_false, Nat.sub_zero, Nat.add_zero]
      · rw [bufView_of_eq (w := w) (by simp)]
        unfold bufView; rw [hx]; simp [Buf.view, hz]

/-! ### how the passes are chained by the interpreter -/

theorem execCmd_bufGet (w : World) (p : Pid) (b n : Nat) (hb : b < w.bufs.size) :
    execCmd w p (.bufGet b n) = bufGetLoop w p b n 0 := by
  simp only [execCmd]; rw [if_neg (by omega)]

theorem execCmd_bufPut (w : World) (p : Pid) (b n : Nat) (hb : b < w.bufs.size) (hn : n ≠ 0) :
    execCmd w p (.bufPut b n) = bufPutLoop w p b n n := by
  simp only [execCmd]; rw [if_neg (by rintro (h | h) <;> omega)]

/-- the call resumes where it was suspended: another pass after a grant, an immediate return reporting the part
    transferred so far (`got`) after any other signal; in the latter case the buffer is not touched -/
theorem resumeFrame_bufGet (w : World) (p : Pid) (b rem got : Nat) (sig : Int) (x : Buf) (hx : w.bufs[b]? = some x) :
    resumeFrame w p (.bufGet b rem got) sig =
      if sig = sigSuccess then bufGetLoop (guardWaitLeave w x.front p sig) p b rem got
      else (guardWaitLeave w x.front p sig, .ret sig s!"amt={got}") := by
  simp only [resumeFrame, hx]

theorem resumeFrame_bufPut (w : World) (p : Pid) (b rem left : Nat) (sig : Int) (x : Buf) (hx : w.bufs[b]? = some x) :
    resumeFrame w p (.bufPut b rem left) sig =
      if sig = sigSuccess then bufPutLoop (guardWaitLeave w x.rear p sig) p b rem left
      else (guardWaitLeave w x.rear p sig, .ret sig s!"amt={left}") := by
  simp only [resumeFrame, hx]

theorem bufView_guardWaitLeave (w : World) (g : Nat) (p : Pid) (sig : Int) (b : Nat) :
    bufView (guardWaitLeave w g p sig) b = bufView w b := bufView_of_eq (by simp) b

/-! ### a whole call = the sequence of its passes -/

theorem bufView_block (w : World) (p : Pid) (f : Frame) (b : Nat) : bufView (block w p f).1 b = bufView w b :=
  bufView_of_eq (by simp) b

/-- `GetRun p b rem got m sig extra`: a `cmb_buffer_get` by `p` on buffer `b`, suspended (or just starting) with remaining
    claim `rem` and `got` received so far, runs to its return `(sig, extra)` through some number of further passes which
    together move `m` units out of the buffer (measured on the ghost total).  Between two passes anything may happen to
    the world.  A pass that suspends stores the frame `(rem − level, got + level)` (`bufGetLoop_pass`), which is what
    the next pass is started with (`resumeFrame_bufGet`). -/
inductive GetRun (p : Pid) (b : Nat) : Nat → Nat → Nat → Int → String → Prop
  /-- a pass that returns -/
  | last {w : World} {x : Buf} {rem got : Nat} {sig : Int} {extra : String} (hx : w.bufs[b]? = some x)
      (h : (bufGetLoop w p b rem got).2 = .ret sig extra) :
      GetRun p b rem got (getTotalOf (bufGetLoop w p b rem got).1 b - getTotalOf w b) sig extra
  /-- a pass that suspends again, followed by the rest of the call -/
  | wait {w : World} {x : Buf} {rem got m : Nat} {sig : Int} {extra : String} (hx : w.bufs[b]? = some x)
      (h : x.level < rem)
      (rest : GetRun p b (rem - x.level) (got + x.level) m sig extra) :
      GetRun p b rem got (getTotalOf (bufGetLoop w p b rem got).1 b - getTotalOf w b + m) sig extra
  /-- woken by anything but a grant: returns at once, nothing moved -/
  | intr {rem got : Nat} {sig : Int} (hs : sig ≠ sigSuccess) : GetRun p b rem got 0 sig s!"amt={got}"

theorem getTotalOf_of_view {w : World} {b : Nat} {v : BView} (h : bufView w b = some v) : getTotalOf w b = v.getTotal := by
  unfold getTotalOf; rw [h]

theorem putTotalOf_of_view {w : World} {b : Nat} {v : BView} (h : bufView w b = some v) : putTotalOf w b = v.putTotal := by
  unfold putTotalOf; rw [h]

theorem bufView_of_get {w : World} {b : Nat} {x : Buf} (hx : w.bufs[b]? = some x) : bufView w b = some x.view := by
  unfold bufView; rw [hx]; rfl

/-- **get_ok / get_intr**: however the call ends, it reports exactly `got` + what its passes moved; and if it ends with
    success, its passes moved exactly the remaining claim.  For a whole call (`rem = n`, `got = 0`): success reports and
    has transferred exactly `n`; an interrupted call reports exactly the part transferred before the interruption. -/
theorem GetRun.exact {p : Pid} {b rem got m : Nat} {sig : Int} {extra : String} (h : GetRun p b rem got m sig extra) :
    extra = s!"amt={got + m}" ∧ (sig = sigSuccess → m = rem) := by
  induction h with
  | @last w x rem got sig extra hx h =>
    rcases bufGetLoop_pass p hx rem got with ⟨hge, hret, hview⟩ | ⟨hlt, w1, hblk, _⟩
    · rw [hret] at h
      injection h with hs he
      have hm : getTotalOf (bufGetLoop w p b rem got).1 b - getTotalOf w b = rem := by
        rw [getTotalOf_of_view hview, getTotalOf_of_view (bufView_of_get hx)]
        simp [Buf.view]
      rw [hm]
      exact ⟨he.symm, fun _ => rfl⟩
    · rw [hblk] at h; cases h
  | @wait w x rem got m sig extra hx hlt rest ih =>
    rcases bufGetLoop_pass p hx rem got with ⟨hge, _, _⟩ | ⟨_, w1, hblk, hview⟩
    · omega
    · have hm : getTotalOf (bufGetLoop w p b rem got).1 b - getTotalOf w b = x.level := by
        rw [hblk, getTotalOf_of_view (by rw [bufView_block]; exact hview), getTotalOf_of_view (bufView_of_get hx)]
        simp [Buf.view]
      rw [hm]
      obtain ⟨e1, e2⟩ := ih
      refine ⟨by rw [e1, Nat.add_assoc], fun hs => ?_⟩
      have := e2 hs
      omega
  | intr hs => exact ⟨by simp, fun e => absurd e hs⟩

/-- the same for `cmb_buffer_put`; `left` is what the caller is told was *not* put -/
inductive PutRun (p : Pid) (b : Nat) : Nat → Nat → Nat → Int → String → Prop
  | last {w : World} {x : Buf} {rem left : Nat} {sig : Int} {extra : String} (hx : w.bufs[b]? = some x)
      (h : (bufPutLoop w p b rem left).2 = .ret sig extra) :
      PutRun p b rem left (putTotalOf (bufPutLoop w p b rem left).1 b - putTotalOf w b) sig extra
  | wait {w : World} {x : Buf} {rem left m : Nat} {sig : Int} {extra : String} (hx : w.bufs[b]? = some x)
      (h : x.cap - x.level < rem)
      (rest : PutRun p b (rem - (x.cap - x.level)) (left - (x.cap - x.level)) m sig extra) :
      PutRun p b rem left (putTotalOf (bufPutLoop w p b rem left).1 b - putTotalOf w b + m) sig extra
  | intr {rem left : Nat} {sig : Int} (hs : sig ≠ sigSuccess) : PutRun p b rem left 0 sig s!"amt={left}"

/-- **put_ok / put_intr**: the amount reported as not put is exactly `left` minus what the passes moved into the buffer;
    on success the passes moved exactly the remaining claim.  For a whole call (`rem = left = n`): success reports 0 left
    and has transferred exactly `n`; an interrupted call reports exactly `n` minus the part transferred. -/
theorem PutRun.exact {p : Pid} {b rem left m : Nat} {sig : Int} {extra : String} (h : PutRun p b rem left m sig extra)
    (hrl : rem ≤ left) : extra = s!"amt={left - m}" ∧ m ≤ rem ∧ (sig = sigSuccess → m = rem) := by
  induction h with
  | @last w x rem left sig extra hx h =>
    rcases bufPutLoop_pass p hx rem left with ⟨hge, hret, hview⟩ | ⟨hlt, w1, hblk, _⟩
    · rw [hret] at h
      injection h with hs he
      have hm : putTotalOf (bufPutLoop w p b rem left).1 b - putTotalOf w b = rem := by
        rw [putTotalOf_of_view hview, putTotalOf_of_view (bufView_of_get hx)]
        simp [Buf.view]
      rw [hm]
      exact ⟨he.symm, Nat.le_refl _, fun _ => rfl⟩
    · rw [hblk] at h; cases h
  | @wait w x rem left m sig extra hx hlt rest ih =>
    rcases bufPutLoop_pass p hx rem left with ⟨hge, _, _⟩ | ⟨_, w1, hblk, hview⟩
    · omega
    · have hm : putTotalOf (bufPutLoop w p b rem left).1 b - putTotalOf w b = x.cap - x.level := by
        rw [hblk, putTotalOf_of_view (by rw [bufView_block]; exact hview), putTotalOf_of_view (bufView_of_get hx)]
        simp [Buf.view]
      rw [hm]
      obtain ⟨e1, e2, e3⟩ := ih (by omega)
      refine ⟨by rw [e1]; congr 2; omega, by omega, fun hs => ?_⟩
      have := e3 hs
      omega
  | intr hs => exact ⟨by simp, Nat.zero_le _, fun e => absurd e hs⟩

end CimbaModel.Sim
