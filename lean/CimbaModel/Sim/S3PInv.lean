/-
  S3 — the ownership invariant of process / event wake-ups (`PInv`), part 1: definition, congruence, the atomic
  transformers, and the footprint tactic `pinv` for all functions that do not touch registrations.

  `fr p` is the frame process `p` is (logically) suspended in: between dispatches `fr = blockedOf w`; while a
  suspended call of `p` is being continued, `blocked` has already been cleared but `fr p` is still that frame.
-/
import CimbaModel.Sim.S3Clock

namespace CimbaModel.Sim.S3
open CimbaModel CimbaModel.Sim CimbaModel.Event CimbaModel.Generated CimbaModel.KPQ
open CimbaModel.HashHeap (HTag Item Order HH WF abs liveTags)

def blockedOf (w : World) : Pid → Option Frame := fun p => (w.proc p).blocked

/-- the PROCESS(q) awaitables of `p` -/
def procAw (w : World) (p : Pid) : List Await := (w.proc p).awaits.filter isProcA
/-- the EVENT(h) awaitables of `p` -/
def evAw (w : World) (p : Pid) : List Await := (w.proc p).awaits.filter isEventA
/-- the processes registered as waiting for event `h` -/
def evWaitersOf (w : World) (h : Nat) : List Pid := (w.evWaiters.lookup h).getD []

structure PInv (ex : Pid → Prop) (fr : Pid → Option Frame) (w : World) : Prop where
  /-- the kernel invariant (handles unique, nothing pending in the past) -/
  ei : EvInv w.ev
  /-- a process awaits at most one process, and only while suspended in `wait_process` on it -/
  ap : ∀ p, procAw w p = [] ∨ ∃ q, fr p = some (.waitProc q) ∧ procAw w p = [.proc q]
  /-- … at most one event, and only while suspended in `wait_event` on it -/
  ae : ∀ p, evAw w p = [] ∨ ∃ h, fr p = some (.waitEvent h) ∧ evAw w p = [.event h]
  /-- only running processes await a process or an event -/
  ar : ∀ p, (w.proc p).status ≠ .running → procAw w p = [] ∧ evAw w p = []
  /-- the logical frame is the recorded one wherever it matters -/
  fb : ∀ p, ¬ ex p → (w.proc p).blocked ≠ fr p → procAw w p = [] ∧ evAw w p = []
  /-- I_waiters: a registered waiter awaits that process -/
  w1 : ∀ p q, q ∈ (w.proc p).waiters → ¬ ex q → Await.proc p ∈ (w.proc q).awaits
  wn : ∀ p, (w.proc p).waiters.Nodup
  /-- the same for event waiters -/
  e1 : ∀ h l q, (h, l) ∈ w.evWaiters → q ∈ l → ¬ ex q → Await.event h ∈ (w.proc q).awaits
  en : (w.evWaiters.map (·.1)).Nodup ∧ ∀ h l, (h, l) ∈ w.evWaiters → l.Nodup
  /-- process-end / event-done wake-ups are addressed to a process -/
  sb : ∀ e ∈ w.ev.pending, e.item.a = aProc ∨ e.item.a = aEvent → e.item.b ≠ 0
  /-- waiters are only registered with scheduled events -/
  es : ∀ h l, (h, l) ∈ w.evWaiters → h ∈ keys w.ev.pending
  /-- a pending process-end wake-up belongs to a process that awaits a process and is no longer registered with it -/
  op : ∀ e ∈ w.ev.pending, e.item.a = aProc → ∀ p, e.item.b = p + 1 → ¬ ex p →
    ∃ q, Await.proc q ∈ (w.proc p).awaits ∧ p ∉ (w.proc q).waiters
  /-- a pending event-done wake-up belongs to a process that awaits an event and is no longer registered with it -/
  oe : ∀ e ∈ w.ev.pending, e.item.a = aEvent → ∀ p, e.item.b = p + 1 → ¬ ex p →
    ∃ h, Await.event h ∈ (w.proc p).awaits ∧ p ∉ evWaitersOf w h
  /-- … whose event is no longer scheduled (it has been executed or cancelled) -/
  oh : ∀ e ∈ w.ev.pending, e.item.a = aEvent → ∀ p, e.item.b = p + 1 → ¬ ex p →
    ∀ h, Await.event h ∈ (w.proc p).awaits → h ∉ keys w.ev.pending ∧ h ≤ w.ev.counter
  /-- at most one of each per process -/
  up : ∀ e1 ∈ w.ev.pending, ∀ e2 ∈ w.ev.pending, e1.item.a = aProc → e2.item.a = aProc → e1.item.b = e2.item.b →
    ∀ p, e1.item.b = p + 1 → ¬ ex p → e1 = e2
  ue : ∀ e1 ∈ w.ev.pending, ∀ e2 ∈ w.ev.pending, e1.item.a = aEvent → e2.item.a = aEvent → e1.item.b = e2.item.b →
    ∀ p, e1.item.b = p + 1 → ¬ ex p → e1 = e2

/-- the registration-relevant part of the process table is the same -/
def SameCtl (w w' : World) : Prop :=
  ∀ p, (w'.proc p).awaits = (w.proc p).awaits ∧ (w'.proc p).waiters = (w.proc p).waiters ∧
    (w'.proc p).status = (w.proc p).status ∧ (w'.proc p).blocked = (w.proc p).blocked

theorem SameCtl.refl (w : World) : SameCtl w w := fun _ => ⟨rfl, rfl, rfl, rfl⟩

theorem procAw_congr {w w' : World} (h : SameCtl w w') (p : Pid) : procAw w' p = procAw w p := by
  unfold procAw; rw [(h p).1]
theorem evAw_congr {w w' : World} (h : SameCtl w w') (p : Pid) : evAw w' p = evAw w p := by
  unfold evAw; rw [(h p).1]

/-- `PInv` only looks at registrations, the waiter table and the process/event wake-ups -/
theorem PInv.congr {ex : Pid → Prop} {fr : Pid → Option Frame} {w w' : World} (hp : PInv ex fr w) (hc : SameCtl w w')
    (hw : w'.evWaiters = w.evWaiters)
    (he : ∀ e' ∈ w'.ev.pending, e'.item.a = aProc ∨ e'.item.a = aEvent → ∃ e ∈ w.ev.pending, e.key = e'.key ∧ e.item = e'.item)
    (hei : EvInv w'.ev)
    (hkeys : ∀ e' ∈ w'.ev.pending, e'.key ≤ w.ev.counter → e'.key ∈ keys w.ev.pending)
    (hctr : w.ev.counter ≤ w'.ev.counter)
    (hkeep : ∀ k ∈ keys w.ev.pending, k ∈ keys w'.ev.pending) : PInv ex fr w' where
  ei := hei
  sb := fun e' he' hk => by
    obtain ⟨e, hem, _, hi⟩ := he e' he' hk
    rw [← hi]; exact hp.sb e hem (by rw [hi]; exact hk)
  es := fun h l hm => hkeep h (hp.es h l (by rw [← hw]; exact hm))
  oh := by
    intro e' he' ha p hb hx h hh
    obtain ⟨e, hem, _, hi⟩ := he e' he' (Or.inr ha)
    obtain ⟨h1, h2⟩ := hp.oh e hem (by rw [hi]; exact ha) p (by rw [hi]; exact hb) hx h (by rw [← (hc p).1]; exact hh)
    refine ⟨fun hm => ?_, Nat.le_trans h2 hctr⟩
    obtain ⟨e2, he2, hk2⟩ := Event.mem_keys.1 hm
    exact h1 (hk2 ▸ hkeys e2 he2 (by rw [hk2]; exact h2))
  ap := fun p => by rw [procAw_congr hc]; exact hp.ap p
  ae := fun p => by rw [evAw_congr hc]; exact hp.ae p
  ar := fun p h => by rw [procAw_congr hc, evAw_congr hc]; exact hp.ar p (by rw [← (hc p).2.2.1]; exact h)
  fb := fun p hx h => by rw [procAw_congr hc, evAw_congr hc]; exact hp.fb p hx (by rw [← (hc p).2.2.2]; exact h)
  w1 := fun p q h hx => by rw [(hc q).1]; exact hp.w1 p q (by rw [← (hc p).2.1]; exact h) hx
  wn := fun p => by rw [(hc p).2.1]; exact hp.wn p
  e1 := fun h l q hm hq hx => by rw [(hc q).1]; exact hp.e1 h l q (by rw [← hw]; exact hm) hq hx
  en := by rw [hw]; exact hp.en
  op := by
    intro e' he' ha p hb hx
    obtain ⟨e, hem, _, hi⟩ := he e' he' (Or.inl ha)
    obtain ⟨q, h1, h2⟩ := hp.op e hem (by rw [hi]; exact ha) p (by rw [hi]; exact hb) hx
    exact ⟨q, by rw [(hc p).1]; exact h1, by rw [(hc q).2.1]; exact h2⟩
  oe := by
    intro e' he' ha p hb hx
    obtain ⟨e, hem, _, hi⟩ := he e' he' (Or.inr ha)
    obtain ⟨h, h1, h2⟩ := hp.oe e hem (by rw [hi]; exact ha) p (by rw [hi]; exact hb) hx
    exact ⟨h, by rw [(hc p).1]; exact h1, by unfold evWaitersOf at *; rw [hw]; exact h2⟩
  up := by
    intro a ha b hb haa hba hbb p hbp hx
    obtain ⟨a0, ha0, hka, hia⟩ := he a ha (Or.inl haa)
    obtain ⟨b0, hb0, hkb, hib⟩ := he b hb (Or.inl hba)
    have : a0 = b0 := hp.up a0 ha0 b0 hb0 (by rw [hia]; exact haa) (by rw [hib]; exact hba) (by rw [hia, hib]; exact hbb)
      p (by rw [hia]; exact hbp) hx
    exact HashHeap.eq_of_key_eq hei.part.keysNodup ha hb (by rw [← hka, ← hkb, this])
  ue := by
    intro a ha b hb haa hba hbb p hbp hx
    obtain ⟨a0, ha0, hka, hia⟩ := he a ha (Or.inr haa)
    obtain ⟨b0, hb0, hkb, hib⟩ := he b hb (Or.inr hba)
    have : a0 = b0 := hp.ue a0 ha0 b0 hb0 (by rw [hia]; exact haa) (by rw [hib]; exact hba) (by rw [hia, hib]; exact hbb)
      p (by rw [hia]; exact hbp) hx
    exact HashHeap.eq_of_key_eq hei.part.keysNodup ha hb (by rw [← hka, ← hkb, this])


/-! ### atomic transformers -/

theorem sameCtl_of_procs {w w' : World} (h : w'.procs = w.procs) : SameCtl w w' := by
  intro p; unfold World.proc; rw [h]; exact ⟨rfl, rfl, rfl, rfl⟩

theorem sameCtl_modProc (w : World) (p : Pid) (f : Proc → Proc)
    (hf : ∀ x, (f x).awaits = x.awaits ∧ (f x).waiters = x.waiters ∧ (f x).status = x.status ∧ (f x).blocked = x.blocked) :
    SameCtl w (w.modProc p f) := by
  intro q
  rw [modProc_proc]
  split
  · rename_i h; rw [h.1]; exact hf _
  · exact ⟨rfl, rfl, rfl, rfl⟩

/-- nothing relevant changed: same event queue, same waiter table, same registrations -/
theorem PInv.same {ex : Pid → Prop} {fr : Pid → Option Frame} {w w' : World} (hp : PInv ex fr w) (hc : SameCtl w w')
    (hw : w'.evWaiters = w.evWaiters) (he : w'.ev = w.ev) : PInv ex fr w' :=
  hp.congr hc hw (by rw [he]; exact fun e h _ => ⟨e, h, rfl, rfl⟩) (by rw [he]; exact hp.ei)
    (by rw [he]; exact fun e h _ => Event.mem_keys.2 ⟨e, h, rfl⟩) (by rw [he]; exact Nat.le_refl _)
    (by rw [he]; exact fun _ h => h)

theorem PInv.fail {ex : Pid → Prop} {fr : Pid → Option Frame} {w : World} (h : PInv ex fr w) (m : String) : PInv ex fr (w.fail m) :=
  h.same (sameCtl_of_procs (by simp)) (by simp) (by simp)
theorem PInv.emit {ex : Pid → Prop} {fr : Pid → Option Frame} {w : World} (h : PInv ex fr w) (l : String) : PInv ex fr (w.emit l) :=
  h.same (SameCtl.refl _) rfl rfl
theorem PInv.modProc_ctl {ex : Pid → Prop} {fr : Pid → Option Frame} {w : World} (h : PInv ex fr w) (p : Pid) (f : Proc → Proc)
    (hf : ∀ x, (f x).awaits = x.awaits ∧ (f x).waiters = x.waiters ∧ (f x).status = x.status ∧ (f x).blocked = x.blocked) :
    PInv ex fr (w.modProc p f) :=
  h.same (sameCtl_modProc w p f hf) rfl rfl
theorem PInv.setRes {ex : Pid → Prop} {fr : Pid → Option Frame} {w : World} (h : PInv ex fr w) (x : Array Res) : PInv ex fr { w with res := x } :=
  h.same (SameCtl.refl _) rfl rfl
theorem PInv.setPools {ex : Pid → Prop} {fr : Pid → Option Frame} {w : World} (h : PInv ex fr w) (x : Array Pool) : PInv ex fr { w with pools := x } :=
  h.same (SameCtl.refl _) rfl rfl
theorem PInv.setBufs {ex : Pid → Prop} {fr : Pid → Option Frame} {w : World} (h : PInv ex fr w) (x : Array Buf) : PInv ex fr { w with bufs := x } :=
  h.same (SameCtl.refl _) rfl rfl
theorem PInv.setOqs {ex : Pid → Prop} {fr : Pid → Option Frame} {w : World} (h : PInv ex fr w) (x : Array OQ) : PInv ex fr { w with oqs := x } :=
  h.same (SameCtl.refl _) rfl rfl
theorem PInv.setPqs {ex : Pid → Prop} {fr : Pid → Option Frame} {w : World} (h : PInv ex fr w) (x : Array PQ) : PInv ex fr { w with pqs := x } :=
  h.same (SameCtl.refl _) rfl rfl
theorem PInv.setFlags {ex : Pid → Prop} {fr : Pid → Option Frame} {w : World} (h : PInv ex fr w) (x : Array Int) : PInv ex fr { w with flags := x } :=
  h.same (SameCtl.refl _) rfl rfl
theorem PInv.setGvars {ex : Pid → Prop} {fr : Pid → Option Frame} {w : World} (h : PInv ex fr w) (x : Array Nat) : PInv ex fr { w with gvars := x } :=
  h.same (SameCtl.refl _) rfl rfl
theorem PInv.setGuards {ex : Pid → Prop} {fr : Pid → Option Frame} {w : World} (h : PInv ex fr w) (x : Array Guard) : PInv ex fr { w with guards := x } :=
  h.same (SameCtl.refl _) rfl rfl
theorem PInv.setGuardQ {ex : Pid → Prop} {fr : Pid → Option Frame} {w : World} (h : PInv ex fr w) (g : Nat) (q : HH) : PInv ex fr (setGuardQ w g q) :=
  h.same (SameCtl.refl _) rfl rfl

/-- scheduling anything but a process-end / event-done wake-up -/
theorem PInv.pushEv_other {ex : Pid → Prop} {fr : Pid → Option Frame} {w : World} (h : PInv ex fr w) (a s : Nat) (sig t pri : Int)
    (ht : w.now ≤ t) (ha : a ≠ aProc ∧ a ≠ aEvent) : PInv ex fr (pushEv w a s sig t pri) := by
  refine h.congr (SameCtl.refl _) rfl ?_ (pushEv_evinv a s sig t pri ht h.ei) ?_ (by simp)
    (fun k hk => by simp only [pushEv_pending, keys, List.map_cons]; exact List.mem_cons_of_mem _ hk)
  · intro e' he' hk
    simp only [pushEv_pending, List.mem_cons] at he'
    rcases he' with rfl | he'
    · simp only [mkEv] at hk
      rcases hk with hk | hk
      · exact absurd hk ha.1
      · exact absurd hk ha.2
    · exact ⟨e', he', rfl, rfl⟩
  · intro e' he' hk
    simp only [pushEv_pending, List.mem_cons] at he'
    rcases he' with rfl | he'
    · simp only [mkEv] at hk; omega
    · exact Event.mem_keys.2 ⟨e', he', rfl⟩

theorem PInv.sched_other {ex : Pid → Prop} {fr : Pid → Option Frame} {w : World} (h : PInv ex fr w) (a s : Nat) (sig t pri : Int)
    (ha : a ≠ aProc ∧ a ≠ aEvent) : PInv ex fr (sched w a s sig t pri).1 := by
  rcases sched_cases w a s sig t pri with ⟨ht, he⟩ | ⟨_, m, he⟩
  · rw [he]; exact h.pushEv_other a s sig t pri ht ha
  · rw [he]; exact h.fail m

/-- a priority change of a pending event -/
theorem PInv.reprioEv {ex : Pid → Prop} {fr : Pid → Option Frame} {w : World} (h : PInv ex fr w) {k : Nat} {v : Int} {ev' : EvQ}
    (hr : reprioritize w.ev k v = .ok ev') : PInv ex fr { w with ev := ev' } := by
  have hinv := (reprioritize_inv h.ei hr).1
  unfold reprioritize at hr
  split at hr
  · cases hr
  · simp only [Except.ok.injEq] at hr
    subst hr
    refine h.congr (SameCtl.refl _) rfl ?_ hinv ?_ (Nat.le_refl _) ?_
    rotate_left 2
    · intro k' hk'
      obtain ⟨e, he, rfl⟩ := Event.mem_keys.1 hk'
      refine Event.mem_keys.2 ⟨_, List.mem_map.2 ⟨e, he, rfl⟩, ?_⟩
      split <;> rfl
    · intro e' he' _
      simp only [List.mem_map] at he'
      obtain ⟨e, he, rfl⟩ := he'
      refine ⟨e, he, ?_, ?_⟩ <;> split <;> rfl
    · intro e' he' _
      simp only [List.mem_map] at he'
      obtain ⟨e, he, rfl⟩ := he'
      refine Event.mem_keys.2 ⟨e, he, ?_⟩
      split <;> rfl


/-! ### cancelling an event (any handle) -/

theorem wakeEvs_subj_inj {c : Nat} {now : Int} {l : List Wake} (hnd : (l.map (·.subj)).Nodup) {e1 e2 : HTag}
    (h1 : e1 ∈ wakeEvs c now l) (h2 : e2 ∈ wakeEvs c now l) (hs : e1.item.b = e2.item.b) : e1 = e2 := by
  obtain ⟨i, hi, rfl⟩ := mem_wakeEvs.1 h1
  obtain ⟨j, hj, rfl⟩ := mem_wakeEvs.1 h2
  simp only [mkEv] at hs
  have : (l.map (·.subj))[i]'(by simpa using hi) = (l.map (·.subj))[j]'(by simpa using hj) := by simpa using hs
  have hij : i = j := (List.getElem_inj hnd).1 this
  subst hij; rfl

theorem lookup_filter_self {β : Type} (l : List (Nat × β)) (a : Nat) : (l.filter (·.1 ≠ a)).lookup a = none := by
  induction l with
  | nil => rfl
  | cons x xs ih =>
    rcases x with ⟨x1, x2⟩
    by_cases hx : x1 = a
    · subst hx; rw [List.filter_cons_of_neg (by simp)]; exact ih
    · rw [List.filter_cons_of_pos (by simpa using hx), List.lookup_cons]
      have : (a == x1) = false := by simpa using fun h => hx h.symm
      rw [this]; exact ih

theorem evWaitersOf_mem {w : World} {h : Nat} {q : Pid} (hq : q ∈ evWaitersOf w h) :
    ∃ l, (h, l) ∈ w.evWaiters ∧ q ∈ l := by
  unfold evWaitersOf at hq
  cases hl : w.evWaiters.lookup h with
  | none => rw [hl] at hq; simp at hq
  | some l => rw [hl] at hq; exact ⟨l, lookup_mem hl, hq⟩

/-- the subjects of a batch of event-waiter wake-ups -/
theorem evWakes_subj (w : World) (ps : List Pid) (sig : Int) : (evWakes w ps sig).map (·.subj) = ps.map (· + 1) := by
  simp [evWakes, List.map_map, Function.comp_def]

theorem nodup_map_succ {l : List Nat} (h : l.Nodup) : (l.map (· + 1)).Nodup := by
  induction l with
  | nil => simp
  | cons x xs ih =>
    simp only [List.nodup_cons, List.map_cons, List.mem_map] at h ⊢
    refine ⟨?_, ih h.2⟩
    rintro ⟨y, hy, he⟩
    have : y = x := by omega
    exact h.1 (this ▸ hy)

/-- the waiters of `h` (in the world before) are distinct -/
theorem PInv.evWaitersOf_nodup {ex : Pid → Prop} {fr : Pid → Option Frame} {w : World} (hp : PInv ex fr w) (h : Nat) : (evWaitersOf w h).Nodup := by
  unfold evWaitersOf
  cases hl : w.evWaiters.lookup h with
  | none => simp
  | some l => exact hp.en.2 h l (lookup_mem hl)

theorem PInv.event_unique' {ex : Pid → Prop} {fr : Pid → Option Frame} {w : World} (hp : PInv ex fr w) {x : Pid} {a b : Nat}
    (ha : Await.event a ∈ (w.proc x).awaits) (hb : Await.event b ∈ (w.proc x).awaits) : a = b := by
  have ha' : Await.event a ∈ evAw w x := List.mem_filter.2 ⟨ha, rfl⟩
  have hb' : Await.event b ∈ evAw w x := List.mem_filter.2 ⟨hb, rfl⟩
  rcases hp.ae x with h | ⟨q, _, h⟩
  · rw [h] at ha'; cases ha'
  · rw [h] at ha' hb'
    simp only [List.mem_singleton, Await.event.injEq] at ha' hb'
    rw [ha', hb']

theorem proc_congr {w w' : World} (h : w'.procs = w.procs) (p : Pid) : w'.proc p = w.proc p := by
  unfold World.proc; rw [h]

/-- an event `h` stops being pending (it is executed, or cancelled): its registered waiters get their wake-ups, the
    registrations are taken off the table -/
theorem PInv.popWake {ex : Pid → Prop} {fr : Pid → Option Frame} {w w1 : World} (hp : PInv ex fr w) (h : Nat) (sig : Int)
    (hprocs : w1.procs = w.procs) (hwt : w1.evWaiters = w.evWaiters.filter (·.1 ≠ h))
    (hsub : ∀ e ∈ w1.ev.pending, e ∈ w.ev.pending) (hei : EvInv w1.ev)
    (hh : h ∈ keys w.ev.pending) (hgone : h ∉ keys w1.ev.pending) (hctr : w1.ev.counter = w.ev.counter)
    (hkeep : ∀ k ∈ keys w.ev.pending, k ≠ h → k ∈ keys w1.ev.pending) :
    PInv ex fr (pushAll w1 (evWakes w (evWaitersOf w h) sig)) := by
  have hpr : ∀ x, (pushAll w1 (evWakes w (evWaitersOf w h) sig)).proc x = w.proc x := fun x => by
    rw [pushAll_proc]; exact proc_congr hprocs x
  have hsc : SameCtl w (pushAll w1 (evWakes w (evWaitersOf w h) sig)) := fun x => by rw [hpr]; exact ⟨rfl, rfl, rfl, rfl⟩
  have hL : ∀ q ∈ evWaitersOf w h, ¬ ex q → Await.event h ∈ (w.proc q).awaits := by
    intro q hq hx
    obtain ⟨l, hm, hql⟩ := evWaitersOf_mem hq
    exact hp.e1 h l q hm hql hx
  have hwo : ∀ h', evWaitersOf (pushAll w1 (evWakes w (evWaitersOf w h) sig)) h' =
      if h' = h then [] else evWaitersOf w h' := by
    intro h'
    unfold evWaitersOf
    simp only [pushAll_evWaiters, hwt]
    by_cases he : h' = h
    · subst he
      rw [lookup_filter_self]; simp
    · simp only [he, if_false]; rw [lookup_filter_ne _ _ _ he]
  have hnew : ∀ e ∈ wakeEvs w1.ev.counter w1.now (evWakes w (evWaitersOf w h) sig),
      e.item.a = aEvent ∧ ∃ q ∈ evWaitersOf w h, e.item.b = q + 1 := by
    intro e he
    obtain ⟨_, _, _, _, x, hx, heq⟩ := wakeEvs_props he
    simp only [evWakes, List.mem_map] at hx
    obtain ⟨q, hq, rfl⟩ := hx
    rw [heq]; exact ⟨rfl, q, hq, rfl⟩
  have hnp : (aEvent : Nat) ≠ aProc := by decide
  refine { sb := fun e he _ => by
             simp only [pushAll_pending, List.mem_append] at he
             rcases he with he | he
             · obtain ⟨_, q, _, hbq⟩ := hnew e he
               rw [hbq]; exact Nat.succ_ne_zero q
             · exact hp.sb e (hsub e he) (by assumption),
           ei := pushAll_evinv _ hei,
           ap := fun x => by rw [procAw_congr hsc]; exact hp.ap x,
           ae := fun x => by rw [evAw_congr hsc]; exact hp.ae x,
           ar := fun x hx => by rw [procAw_congr hsc, evAw_congr hsc]; rw [hpr] at hx; exact hp.ar x hx,
           fb := fun x hxx hx => by rw [procAw_congr hsc, evAw_congr hsc]; rw [hpr] at hx; exact hp.fb x hxx hx,
           w1 := fun x q hq hx => by rw [hpr] at hq ⊢; exact hp.w1 x q hq hx,
           wn := fun x => by rw [hpr]; exact hp.wn x,
           e1 := ?_, en := ?_, op := ?_, oe := ?_, up := ?_, ue := ?_, oh := ?_,
           es := fun h' l hm => by
             simp only [pushAll_evWaiters, hwt, List.mem_filter] at hm
             have hne : h' ≠ h := by simpa using hm.2
             obtain ⟨e2, he2, hk2⟩ := Event.mem_keys.1 (hkeep h' (hp.es h' l hm.1) hne)
             exact Event.mem_keys.2 ⟨e2, by simp only [pushAll_pending]; exact List.mem_append_right _ he2, hk2⟩ }
  · intro h' l q hm hq hx
    simp only [pushAll_evWaiters, hwt, List.mem_filter] at hm
    rw [hpr]; exact hp.e1 h' l q hm.1 hq hx
  · simp only [pushAll_evWaiters, hwt]
    refine ⟨List.Nodup.sublist ((List.filter_sublist).map _) hp.en.1, ?_⟩
    intro h' l hm
    exact hp.en.2 h' l (List.mem_filter.1 hm).1
  · intro e he ha p hb hx
    simp only [pushAll_pending, List.mem_append] at he
    rcases he with he | he
    · exact absurd ((hnew e he).1.symm.trans ha) hnp
    · obtain ⟨q, h1, h2⟩ := hp.op e (hsub e he) ha p hb hx
      exact ⟨q, by rw [hpr]; exact h1, by rw [hpr]; exact h2⟩
  · intro e he ha p hb hx
    simp only [pushAll_pending, List.mem_append] at he
    rcases he with he | he
    · obtain ⟨_, q, hq, hbq⟩ := hnew e he
      have hqp : q + 1 = p + 1 := hbq.symm.trans hb
      have : q = p := Nat.add_right_cancel hqp
      subst this
      exact ⟨h, by rw [hpr]; exact hL q hq hx, by rw [hwo]; simp⟩
    · obtain ⟨h', h1, h2⟩ := hp.oe e (hsub e he) ha p hb hx
      refine ⟨h', by rw [hpr]; exact h1, ?_⟩
      rw [hwo]; split
      · simp
      · exact h2
  · -- the awaited event of a pending event-done wake-up is no longer scheduled
    have hhle : h ≤ w.ev.counter := by
      obtain ⟨e0, he0, hk0⟩ := Event.mem_keys.1 hh
      rw [← hk0]; exact EvInv.key_le hp.ei he0
    have hfresh : ∀ k, k ≤ w.ev.counter → k ∉ keys w.ev.pending →
        k ∉ keys (pushAll w1 (evWakes w (evWaitersOf w h) sig)).ev.pending := by
      intro k hk hkn hm
      obtain ⟨e2, he2, hk2⟩ := Event.mem_keys.1 hm
      simp only [pushAll_pending, List.mem_append] at he2
      rcases he2 with he2 | he2
      · have := (wakeEvs_props he2).1
        rw [hctr] at this; omega
      · exact hkn (Event.mem_keys.2 ⟨e2, hsub e2 he2, hk2⟩)
    intro e he ha p hb hx h' hh'
    rw [hpr] at hh'
    simp only [pushAll_pending, List.mem_append] at he
    rcases he with he | he
    · obtain ⟨_, q, hq, hbq⟩ := hnew e he
      have : q = p := Nat.add_right_cancel (hbq.symm.trans hb)
      subst this
      have : h' = h := (hp.event_unique' hh' (hL q hq hx))
      subst this
      refine ⟨fun hm => ?_, by simp only [pushAll_counter]; rw [hctr]; omega⟩
      obtain ⟨e2, he2, hk2⟩ := Event.mem_keys.1 hm
      simp only [pushAll_pending, List.mem_append] at he2
      rcases he2 with he2 | he2
      · have := (wakeEvs_props he2).1
        rw [hctr] at this; omega
      · exact hgone (Event.mem_keys.2 ⟨e2, he2, hk2⟩)
    · obtain ⟨h1, h2⟩ := hp.oh e (hsub e he) ha p hb hx h' hh'
      exact ⟨hfresh h' h2 h1, by simp only [pushAll_counter]; rw [hctr]; omega⟩
  · intro a ha b hb haa hba hbb p hbp hx
    simp only [pushAll_pending, List.mem_append] at ha hb
    rcases ha with ha | ha
    · exact absurd ((hnew a ha).1.symm.trans haa) hnp
    · rcases hb with hb | hb
      · exact absurd ((hnew b hb).1.symm.trans hba) hnp
      · exact hp.up a (hsub a ha) b (hsub b hb) haa hba hbb p hbp hx
  · intro a ha b hb haa hba hbb p hbp hx
    simp only [pushAll_pending, List.mem_append] at ha hb
    -- an old event-done wake-up for q excludes q from the waiters of the event it awaits
    have hclash : ∀ x ∈ w.ev.pending, x.item.a = aEvent → ∀ q ∈ evWaitersOf w h, ¬ ex q → x.item.b = q + 1 → False := by
      intro x hx hxa q hq hxq hxb
      obtain ⟨h', h1, h2⟩ := hp.oe x hx hxa q hxb hxq
      have hh : h' = h := by
        rcases hp.ae q with hnil | ⟨h'', _, hone⟩
        · have : Await.event h' ∈ evAw w q := List.mem_filter.2 ⟨h1, rfl⟩
          rw [hnil] at this; cases this
        · have m1 : Await.event h' ∈ evAw w q := List.mem_filter.2 ⟨h1, rfl⟩
          have m2 : Await.event h ∈ evAw w q := List.mem_filter.2 ⟨hL q hq hxq, rfl⟩
          rw [hone] at m1 m2
          simp only [List.mem_singleton, Await.event.injEq] at m1 m2
          rw [m1, m2]
      rw [hh] at h2; exact h2 hq
    rcases ha with ha | ha <;> rcases hb with hb | hb
    · refine wakeEvs_subj_inj ?_ ha hb hbb
      rw [evWakes_subj]; exact nodup_map_succ (hp.evWaitersOf_nodup h)
    · obtain ⟨_, q, hq, hbq⟩ := hnew a ha
      have : q = p := Nat.add_right_cancel (hbq.symm.trans hbp)
      subst this
      exact (hclash b (hsub b hb) hba q hq hx (by rw [← hbb, hbq])).elim
    · obtain ⟨_, q, hq, hbq⟩ := hnew b hb
      have : q = p := Nat.add_right_cancel (hbq.symm.trans (hbb.symm.trans hbp))
      subst this
      exact (hclash a (hsub a ha) haa q hq hx hbp).elim
    · exact hp.ue a (hsub a ha) b (hsub b hb) haa hba hbb p hbp hx

theorem PInv.evCancel_fst {ex : Pid → Prop} {fr : Pid → Option Frame} {w : World} (hp : PInv ex fr w) (h : Nat) :
    PInv ex fr (evCancel w h).1 := by
  rw [evCancel_eq]
  split
  · rename_i hk
    change PInv ex fr (pushAll (cancelEv w h) (evWakes w (evWaitersOf w h) sigCancelled))
    exact hp.popWake h sigCancelled rfl rfl (fun e he => (mem_remove.1 he).1) (cancelEv_evinv hk hp.ei) hk
      (fun hm => by
        obtain ⟨e2, he2, hk2⟩ := Event.mem_keys.1 hm
        exact (mem_remove.1 he2).2 hk2) rfl
      (fun k hk' hne => by
        obtain ⟨e2, he2, hk2⟩ := Event.mem_keys.1 hk'
        exact Event.mem_keys.2 ⟨e2, mem_remove.2 ⟨he2, by rw [hk2]; exact hne⟩, hk2⟩)
  · exact hp

end CimbaModel.Sim.S3
