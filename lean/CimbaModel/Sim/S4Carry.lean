/-
  S4 — "no fault" through `runScript` and `resumeProc`.

  `Carry X`: a family of invariants `X` that can be carried from command boundary to command boundary inside one
  dispatched event (the other invariants of the process layer: timers, pool holder records, priority queues).
  `Facts X`: what the no-fault argument needs from them at a command boundary.  With these, `Safe` (S4Safe*.lean) is
  carried along and gives `fault = none` at the end: `nf_runScript`, `nf_resumeProc`.
-/
import CimbaModel.Sim.S4SafeFrame
import CimbaModel.Sim.S4PqInv
import CimbaModel.Sim.S4Defs

namespace CimbaModel.Sim.S4
open CimbaModel CimbaModel.Sim CimbaModel.Sim.S3 CimbaModel.Event CimbaModel.Generated CimbaModel.KPQ
open CimbaModel.HashHeap (HTag Item Order HH WF abs liveTags KeysBelowCounter)

/-- every command of every script is a valid call: signals (`S3.CmdOk`), durations, variable discipline, and `acquire`
    names an existing resource -/
def ProgOk (w : World) : Prop :=
  ∀ (p : Pid) (i : Nat) (c : Cmd) (t : String), (w.proc p).script[i]? = some (c, t) →
    S3.CmdOk c ∧ DurOk c ∧ VarsOk c ∧ ∀ r, c = .acquire r → r < w.res.size

theorem stat_rsize {w w' : World} (hs : Stat w w') : w'.res.size = w.res.size := by
  have h1 : ∀ i, i < w'.res.size ↔ i < w.res.size := by
    intro i
    have := hs.res i
    constructor
    · intro hi
      rw [Array.getElem?_eq_getElem hi] at this
      by_cases h : i < w.res.size
      · exact h
      · rw [Array.getElem?_eq_none (Nat.le_of_not_lt h)] at this; cases this
    · intro hi
      rw [Array.getElem?_eq_getElem hi] at this
      by_cases h : i < w'.res.size
      · exact h
      · rw [Array.getElem?_eq_none (Nat.le_of_not_lt h)] at this; cases this
  rcases Nat.lt_trichotomy w'.res.size w.res.size with h | h | h
  · exact absurd ((h1 _).2 h) (Nat.lt_irrefl _)
  · exact h
  · exact absurd ((h1 _).1 h) (Nat.lt_irrefl _)

theorem ProgOk.ofStat {w w' : World} (h : ProgOk w) (hs : Stat w w') : ProgOk w' := by
  intro p i c t hc
  rw [hs.script] at hc
  obtain ⟨a, b, c', d⟩ := h p i c t hc
  exact ⟨a, b, c', fun r hr => by rw [stat_rsize hs]; exact d r hr⟩

theorem ProgOk.cmdSafe {w : World} (h : ProgOk w) {p : Pid} {i : Nat} {c : Cmd} {t : String}
    (hc : (w.proc p).script[i]? = some (c, t)) : CmdSafe w c := by
  obtain ⟨_, hd, _, ha⟩ := h p i c t hc
  cases c <;> first | exact hd | exact trivial | exact ha _ rfl

/-- the world in which `dispatchBody` starts / resumes the addressed process, for the action of the dispatched event -/
def prep (w1 : World) (t : HTag) : World :=
  if t.item.a = aTime then (removeAwait w1 (t.item.b - 1) (.time t.key)).1
  else if t.item.a = aProc then (removeAwaitKind w1 (t.item.b - 1) isProcA).1
  else if t.item.a = aEvent then (removeAwaitKind w1 (t.item.b - 1) isEventA).1
  else if t.item.a = aCond then (removeAwaitKind w1 (t.item.b - 1) isGuardA).1
  else if t.item.a = aIntr then cancelAwaiteds w1 (t.item.b - 1)
  else w1

structure Carry (X : World → Prop) : Prop where
  fail : ∀ {w : World} (m : String), X w → X (w.fail m)
  emit : ∀ {w : World} (l : String), X w → X (w.emit l)
  adv : ∀ {w : World} (p : Pid) (n : Nat), X w → X (w.modProc p fun y => { y with pc := n })
  exec : ∀ {w : World} {p : Pid} (c : Cmd), X w → p < w.procs.size → S3.CmdOk c → DurOk c → VarsOk c → X (execCmd w p c).1
  resume : ∀ {w0 : World} {p : Pid} {f : Frame} (sig : Int), X w0 → (w0.proc p).blocked = some f → p < w0.procs.size →
    X (resumeFrame (w0.modProc p fun y => { y with blocked := none }) p f sig).1
  finish : ∀ {w : World} (p : Pid) (v : Int) (s : Bool), X w → X (finishProc w p v s)
  start : ∀ {w : World} (p : Pid), X w → X (w.modProc p fun y => { y with status := .running, pc := 0, blocked := none })
  prep : ∀ {w : World} {t : HTag} {ev' : EvQ}, X w → executeNext w.ev = some (t, ev') → X (prep (S3.takeNext w t ev') t)

theorem Carry.and {X Y : World → Prop} (hX : Carry X) (hY : Carry Y) : Carry (fun w => X w ∧ Y w) := by
  refine ⟨?_, ?_, ?_, ?_, ?_, ?_, ?_, ?_⟩
  · intro w m h; exact ⟨hX.fail m h.1, hY.fail m h.2⟩
  · intro w l h; exact ⟨hX.emit l h.1, hY.emit l h.2⟩
  · intro w p n h; exact ⟨hX.adv p n h.1, hY.adv p n h.2⟩
  · intro w p c h hp h1 h2 h3; exact ⟨hX.exec c h.1 hp h1 h2 h3, hY.exec c h.2 hp h1 h2 h3⟩
  · intro w0 p f sig h hb hp; exact ⟨hX.resume sig h.1 hb hp, hY.resume sig h.2 hb hp⟩
  · intro w p v s h; exact ⟨hX.finish p v s h.1, hY.finish p v s h.2⟩
  · intro w p h; exact ⟨hX.start p h.1, hY.start p h.2⟩
  · intro w t ev' h hn; exact ⟨hX.prep h.1 hn, hY.prep h.2 hn⟩

/-- what the no-fault argument reads off the carried invariants -/
structure Facts (X : World → Prop) : Prop where
  prio : ∀ {w : World}, X w → ∀ q, PrioPre w q
  pq : ∀ {w : World}, X w → PQS w

/-! ### the priority queues are a carried family -/

@[simp] theorem takeNext_pqs (w : World) (t : HTag) (ev' : EvQ) : (S3.takeNext w t ev').pqs = w.pqs := by
  unfold S3.takeNext; simp [S3.afterNext]

theorem prep_pqs (w1 : World) (t : HTag) : (prep w1 t).pqs = w1.pqs := by
  unfold S4.prep
  repeat' split
  all_goals simp

theorem PQS.carry : Carry PQS := by
  refine ⟨?_, ?_, ?_, ?_, ?_, ?_, ?_, ?_⟩
  · intro w m h; exact h.of_eq (by simp)
  · intro w l h; exact h.of_eq rfl
  · intro w p n h; exact h.of_eq rfl
  · intro w p c h _ _ _ _; exact h.execCmd p c
  · intro w0 p f sig h _ _; exact (PQS.of_eq (w' := w0.modProc p fun y => { y with blocked := none }) h rfl).resumeFrame p f sig
  · intro w p v s h; exact h.of_eq (by simp)
  · intro w p h; exact h.of_eq rfl
  · intro w t ev' h _; exact h.of_eq (by rw [prep_pqs, takeNext_pqs])

/-! ### commands: what `CmdPre` needs follows from the facts -/

theorem cmdPre_of {X : World → Prop} (hF : Facts X) {w : World} (hx : X w) (hroom : PqRoom w) (c : Cmd) : CmdPre w c := by
  have hq := hF.pq hx
  cases c <;> try exact trivial
  case prioSet q v => exact hF.prio hx q
  case pqGet k => intro x hxk; exact (hq.room hxk (hroom k x hxk)).1
  case pqPut k o pr v => intro x hxk; obtain ⟨a, b, c⟩ := hq.room hxk (hroom k x hxk); exact ⟨a, b, c⟩
  case pqCancel k v => intro x hxk; exact (hq.room hxk (hroom k x hxk)).1
  case pqReprio k v pr => intro x hxk; exact (hq.room hxk (hroom k x hxk)).1

theorem framePre_of {X : World → Prop} (hF : Facts X) {w : World} (hx : X w) (hroom : PqRoom w) (f : Frame) : FramePre w f := by
  have hq := hF.pq hx
  cases f <;> try exact trivial
  case pqGet k => intro x hxk; exact (hq.room hxk (hroom k x hxk)).1
  case pqPut k o pr v => intro x hxk; obtain ⟨a, b, c⟩ := hq.room hxk (hroom k x hxk); exact ⟨a, b, c⟩

/-! ### the run loop of a process -/

theorem nf_runScript {X : World → Prop} (hX : Carry X) (hF : Facts X) : ∀ (fuel : Nat) (w : World) (p : Pid),
    Safe (isKey p) w → X w → ProgOk w → (w.proc p).script.size - (w.proc p).pc < fuel →
    PqRoom (runScript fuel w p) → (runScript fuel w p).fault = none := by
  intro fuel
  induction fuel with
  | zero => intro w p _ _ _ hf _; omega
  | succ fuel ih =>
    intro w p hs hx hprog hfuel hroom
    have hroomw : PqRoom w := hroom.of_mono (PqMono.runScript (fuel + 1) w p)
    simp only [Sim.runScript] at hroom ⊢
    split
    · exact (hs.emit _).finishProc p 0 false |>.nf
    · rename_i c text hsc
      have hlt : p < w.procs.size := by
        rcases Nat.lt_or_ge p w.procs.size with h' | h'
        · exact h'
        · rw [script_none_of_oob h'] at hsc; cases hsc
      obtain ⟨hok, hd, hv, _⟩ := hprog p _ c text hsc
      have hpc : (w.proc p).pc < (w.proc p).script.size := lt_of_getElem? hsc
      have hcs : CmdSafe w c := hprog.cmdSafe hsc
      have hx0 : X (w.emit s!"c {p} {(w.proc p).pc} {w.now} {text}") := hX.emit _ hx
      have hs0 : Safe (isKey p) (w.emit s!"c {p} {(w.proc p).pc} {w.now} {text}") := hs.emit _
      have hR := SafeR.execCmd hs0 (p := p) hlt c hcs (cmdPre_of hF hx0 hroomw c)
      have hx1 := hX.exec c hx0 (p := p) hlt hok hd hv
      have hst : Stat w (execCmd (w.emit s!"c {p} {(w.proc p).pc} {w.now} {text}") p c).1 := by
        have h0 := Stat.refl w; stat
      rw [hsc] at hroom
      simp only at hroom
      rcases hres : execCmd (w.emit s!"c {p} {(w.proc p).pc} {w.now} {text}") p c with ⟨w1, out⟩
      rw [hres] at hR hx1 hst hroom
      cases out with
      | ret v extra =>
        dsimp only at hroom ⊢
        have hs1 : Safe (isKey p) w1 := hR
        have hsz : w1.procs.size = w.procs.size := hst.psize
        refine ih _ p ((hs1.emit _).modProc p _ (fun _ => rfl)) (hX.adv p _ (hX.emit _ hx1)) (hprog.ofStat ?_) ?_ hroom
        · have h0 := hst; stat
        · have hp1 : p < (w1.emit (s!"r {p} {(w.proc p).pc} {w1.now} {v}" ++ (if extra = "" then "" else " " ++ extra))).procs.size := by
            simpa [hsz] using hlt
          rw [S3.modProc_proc_self _ _ hp1]
          simp only [S3.emit_proc]
          rw [hst.script p]
          omega
      | skip =>
        dsimp only at hroom ⊢
        have hs1 : Safe (isKey p) w1 := hR
        have hsz : w1.procs.size = w.procs.size := hst.psize
        refine ih _ p ((hs1.emit _).modProc p _ (fun _ => rfl)) (hX.adv p _ (hX.emit _ hx1)) (hprog.ofStat ?_) ?_ hroom
        · have h0 := hst; stat
        · have hp1 : p < (w1.emit s!"s {p} {(w.proc p).pc} {w1.now}").procs.size := by
            simpa [hsz] using hlt
          rw [S3.modProc_proc_self _ _ hp1]
          simp only [S3.emit_proc]
          rw [hst.script p]
          omega
      | blocked => exact hR
      | ended =>
        dsimp only
        have : w1.fault = none := hR
        split <;> simpa using this

/-- resuming a suspended process -/
theorem nf_resumeProc {X : World → Prop} (hX : Carry X) (hF : Facts X) (w : World) (p : Pid) (sig : Int)
    (hs : Safe noKey w) (hx : X w) (hprog : ProgOk w) (hrun : (w.proc p).status = .running)
    (hq : ∀ f, (w.proc p).blocked = some f → ResumePre w p f sig)
    (hbl : (w.proc p).blocked ≠ none)
    (hroom : PqRoom (resumeProc w p sig)) : (resumeProc w p sig).fault = none := by
  have hroomw : PqRoom w := hroom.of_mono (PqMono.resumeProc w p sig)
  simp only [Sim.resumeProc] at hroom ⊢
  rw [if_neg (by simp [hrun])] at hroom ⊢
  split
  · rename_i hb; exact absurd hb hbl
  · rename_i f hbf
    rw [hbf] at hroom
    simp only at hroom
    have hlt : p < w.procs.size := by
      rcases Nat.lt_or_ge p w.procs.size with h' | h'
      · exact h'
      · have : (w.proc p).blocked = none := by rw [S3.proc_oob w h']
        rw [this] at hbf; cases hbf
    have hs0 : Safe noKey (w.modProc p fun y => { y with blocked := none }) := hs.modProc p _ (fun _ => rfl)
    have hq0 : ResumePre (w.modProc p fun y => { y with blocked := none }) p f sig := by
      intro g hqq
      have := hq f hbf g ((queued_congr (by rfl) g _).1 hqq)
      exact ⟨this.1, (frameOn_congr rfl rfl rfl rfl rfl rfl f g).2 this.2⟩
    have hfp : FramePre (w.modProc p fun y => { y with blocked := none }) f := by
      have := framePre_of hF hx hroomw f
      cases f <;> first | exact trivial | exact this
    have hR := SafeR.resumeFrame hs0 (p := p) (by simpa using hlt) f sig hq0 hfp
    have hx1 := hX.resume sig hx hbf hlt
    have hst : Stat w (resumeFrame (w.modProc p fun y => { y with blocked := none }) p f sig).1 := by
      have h0 := Stat.refl w; stat
    rcases hres : resumeFrame (w.modProc p fun y => { y with blocked := none }) p f sig with ⟨w1, out⟩
    rw [hres] at hR hx1 hst hroom
    cases out with
    | ret v extra =>
      dsimp only at hroom ⊢
      have hs1 : Safe (isKey p) w1 := hR
      have hsz : w1.procs.size = w.procs.size := hst.psize
      refine nf_runScript hX hF _ _ p ((hs1.emit _).modProc p _ (fun _ => rfl)) (hX.adv p _ (hX.emit _ hx1)) (hprog.ofStat ?_) ?_ hroom
      · have h0 := hst; stat
      · have hp1 : p < (w1.emit (s!"r {p} {(w.proc p).pc} {w1.now} {v}" ++ (if extra = "" then "" else " " ++ extra))).procs.size := by
          simpa [hsz] using hlt
        rw [S3.modProc_proc_self _ _ hp1]
        simp only [S3.emit_proc]
        rw [hst.script p]
        omega
    | skip => exact SafeR.nf hR
    | blocked => exact hR
    | ended => exact hR


/-! ### a carried family is preserved by `dispatch` (for valid programs) -/

theorem Carry.runScript {X : World → Prop} (hX : Carry X) : ∀ (fuel : Nat) (w : World) (p : Pid),
    X w → ProgOk w → X (Sim.runScript fuel w p) := by
  intro fuel
  induction fuel with
  | zero => intro w p hx _; exact hX.fail _ hx
  | succ fuel ih =>
    intro w p hx hprog
    simp only [Sim.runScript]
    split
    · exact hX.finish p 0 false (hX.emit _ hx)
    · rename_i c text hsc
      have hlt : p < w.procs.size := by
        rcases Nat.lt_or_ge p w.procs.size with h' | h'
        · exact h'
        · rw [script_none_of_oob h'] at hsc; cases hsc
      obtain ⟨hok, hd, hv, _⟩ := hprog p _ c text hsc
      have hx1 := hX.exec c (hX.emit s!"c {p} {(w.proc p).pc} {w.now} {text}" hx) (p := p) hlt hok hd hv
      have hst : Stat w (execCmd (w.emit s!"c {p} {(w.proc p).pc} {w.now} {text}") p c).1 := by
        have h0 := Stat.refl w; stat
      rcases hres : execCmd (w.emit s!"c {p} {(w.proc p).pc} {w.now} {text}") p c with ⟨w1, out⟩
      rw [hres] at hx1 hst
      cases out with
      | ret v extra =>
        dsimp only
        exact ih _ p (hX.adv p _ (hX.emit _ hx1)) (hprog.ofStat (by have h0 := hst; stat))
      | skip =>
        dsimp only
        exact ih _ p (hX.adv p _ (hX.emit _ hx1)) (hprog.ofStat (by have h0 := hst; stat))
      | blocked => exact hx1
      | ended =>
        dsimp only
        split <;> exact hX.emit _ hx1

theorem Carry.resumeProc {X : World → Prop} (hX : Carry X) (w : World) (p : Pid) (sig : Int) (hx : X w) (hprog : ProgOk w) :
    X (Sim.resumeProc w p sig) := by
  simp only [Sim.resumeProc]
  split
  · exact hX.fail _ hx
  · split
    · exact hX.fail _ hx
    · rename_i f hbf
      have hlt : p < w.procs.size := by
        rcases Nat.lt_or_ge p w.procs.size with h' | h'
        · exact h'
        · have : (w.proc p).blocked = none := by rw [S3.proc_oob w h']
          rw [this] at hbf; cases hbf
      have hx1 := hX.resume sig hx hbf hlt
      have hst : Stat w (resumeFrame (w.modProc p fun y => { y with blocked := none }) p f sig).1 := by
        have h0 := Stat.refl w; stat
      rcases hres : resumeFrame (w.modProc p fun y => { y with blocked := none }) p f sig with ⟨w1, out⟩
      rw [hres] at hx1 hst
      cases out with
      | ret v extra =>
        dsimp only
        exact hX.runScript _ _ p (hX.adv p _ (hX.emit _ hx1)) (hprog.ofStat (by have h0 := hst; stat))
      | skip => exact hx1
      | blocked => exact hx1
      | ended => exact hx1

theorem progOk_prep {w1 : World} (h : ProgOk w1) (t : HTag) : ProgOk (prep w1 t) := by
  refine h.ofStat ?_
  unfold S4.prep
  have h0 := Stat.refl w1
  repeat' split
  all_goals stat

theorem Carry.dispatch {X : World → Prop} (hX : Carry X) {w w' : World} (hx : X w) (hprog : ProgOk w)
    (hd : dispatch w = some w') : X w' := by
  rw [S3.dispatch_eq] at hd
  split at hd
  · cases hd
  · rename_i t ev' hn
    simp only [Option.some.injEq] at hd
    subst hd
    have hxW : X (S4.prep (S3.takeNext w t ev') t) := hX.prep hx hn
    have hprogT : ProgOk (S3.takeNext w t ev') := hprog.ofStat (Stat.takeNext w t ev')
    have hprogW := progOk_prep hprogT t
    generalize S3.takeNext w t ev' = wT at *
    simp only [S3.dispatchBody]
    generalize hpdef : t.item.b - 1 = p at *
    by_cases ha : t.item.a = aStart
    · rw [if_pos ha]
      have hpw : S4.prep wT t = wT := by
        unfold S4.prep
        simp [ha, aStart, aTime, aProc, aEvent, aCond, aIntr]
      rw [hpw] at hxW
      split
      · exact hX.fail _ hxW
      · exact hX.runScript _ _ p (hX.start p hxW) (hprogT.ofStat (by have h0 := Stat.refl wT; stat))
    rw [if_neg ha]
    by_cases hat : t.item.a = aTime
    · rw [if_pos hat]
      have hpw : S4.prep wT t = (removeAwait wT p (.time t.key)).1 := by
        unfold S4.prep; rw [if_pos hat, hpdef]
      rw [hpw] at hxW hprogW
      exact hX.resumeProc _ p _ hxW hprogW
    rw [if_neg hat]
    by_cases hap : t.item.a = aProc
    · rw [if_pos hap]
      have hpw : S4.prep wT t = (removeAwaitKind wT p isProcA).1 := by
        unfold S4.prep; rw [if_neg hat, if_pos hap, hpdef]
      rw [hpw] at hxW hprogW
      split
      · exact hX.resumeProc _ p _ hxW hprogW
      · exact hxW
    rw [if_neg hap]
    by_cases hae : t.item.a = aEvent
    · rw [if_pos hae]
      have hpw : S4.prep wT t = (removeAwaitKind wT p isEventA).1 := by
        unfold S4.prep; rw [if_neg hat, if_neg hap, if_pos hae, hpdef]
      rw [hpw] at hxW hprogW
      split
      · exact hX.resumeProc _ p _ hxW hprogW
      · exact hxW
    rw [if_neg hae]
    by_cases har : t.item.a = aRes ∨ t.item.a = aPreempt
    · rw [if_pos har]
      have hpw : S4.prep wT t = wT := by
        unfold S4.prep
        rw [if_neg hat, if_neg hap, if_neg hae]
        rcases har with h | h <;> simp [h, aRes, aPreempt, aCond, aIntr]
      rw [hpw] at hxW hprogW
      split
      · exact hX.resumeProc _ p _ hxW hprogW
      · exact hxW
    rw [if_neg har]
    by_cases hac : t.item.a = aCond
    · rw [if_pos hac]
      have hpw : S4.prep wT t = (removeAwaitKind wT p isGuardA).1 := by
        unfold S4.prep; rw [if_neg hat, if_neg hap, if_neg hae, if_pos hac, hpdef]
      rw [hpw] at hxW hprogW
      split
      · exact hX.resumeProc _ p _ hxW hprogW
      · exact hxW
    rw [if_neg hac]
    by_cases hai : t.item.a = aIntr
    · rw [if_pos hai]
      have hpw : S4.prep wT t = cancelAwaiteds wT p := by
        unfold S4.prep; rw [if_neg hat, if_neg hap, if_neg hae, if_neg hac, if_pos hai, hpdef]
      rw [hpw] at hxW hprogW
      exact hX.resumeProc _ p _ hxW hprogW
    rw [if_neg hai]
    have hpw : S4.prep wT t = wT := by
      unfold S4.prep; rw [if_neg hat, if_neg hap, if_neg hae, if_neg hac, if_neg hai]
    rw [hpw] at hxW hprogW
    split
    · exact hX.resumeProc _ p _ hxW hprogW
    · exact hxW

end CimbaModel.Sim.S4
