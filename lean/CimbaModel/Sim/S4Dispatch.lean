/-
  S4 — "no fault" through `dispatch`: given everything that holds between two dispatches (`Good`), a dispatched event
  records no fault (`nf_dispatch`), provided the priority queues stay below the growth limit (`PqRoom` of the result).
-/
import CimbaModel.Sim.S4Carry
import CimbaModel.Sim.S1SilentIRun
import CimbaModel.Sim.S4StartBlk

namespace CimbaModel.Sim.S4
open CimbaModel CimbaModel.Sim CimbaModel.Sim.S3 CimbaModel.Event CimbaModel.Generated CimbaModel.KPQ
open CimbaModel.HashHeap (HTag Item Order HH WF abs liveTags KeysBelowCounter)

/-- everything that holds between two dispatches; `X` = the carried family (timers, pool records, priority queues) -/
structure Good (X : World → Prop) (w : World) : Prop where
  s3 : S3.AllInv w
  s1 : Sim.FullInv w
  start : StartOk w
  rb : RunBlocked w
  st : StaticOk w
  prog : ProgOk w
  x : X w

theorem safe_of_good {X : World → Prop} {w : World} (h : Good X w) (hnf : w.fault = none) : Safe noKey w := by
  refine ⟨hnf, h.st, ?_, ?_⟩
  · intro g gd hg
    refine ⟨h.s3.g.gw g gd hg, fun k hk => ⟨(h.s3.g.gk g k ⟨gd, hg, hk⟩).2.1, fun hx => hx⟩⟩
  · intro pl x hx
    have hph : w.ph pl = some x.holders := ph_eq w pl x hx
    have hwf := h.s1.pool.wf pl x.holders hph
    refine ⟨hwf, fun k hk => ?_⟩
    have hk0 := (hwf.keys_ne_zero hk).1
    have hm : (k - 1) + 1 ∈ w.hk pl := by
      rw [hk_eq w pl x hx]
      have : k - 1 + 1 = k := by omega
      rw [this]; exact hk
    have h2 : k - 1 < w.procs.size := lt_np_of_held w (k - 1) _ (h.s1.pool.listed pl (k - 1) hm)
    omega

/-- where a suspended process may still be queued: from the guard invariant -/
theorem resumePre_of_ginv {W : World} {p : Pid} {f : Frame} {sig : Int} (hg : GInvB W) (hbf : (W.proc p).blocked = some f)
    (hq : sig = sigSuccess → Quiet W p) : ResumePre W p f sig := by
  intro g hqq
  obtain ⟨_, _, h3⟩ := hg.gk g (p + 1) hqq
  have haw : Await.guard g ∈ (W.proc p).awaits := by
    have := h3 (noEx_not _)
    simpa using this
  refine ⟨fun hs => (hq hs).nq g haw hqq, ?_⟩
  have haw' := mem_awaits_guard.1 haw
  rcases hg.ga p with h0 | ⟨g', f', hf', hon, hga⟩
  · rw [h0] at haw'; cases haw'
  · have : f' = f := by
      have : blockedOf W p = some f := hbf
      rw [this] at hf'; exact (Option.some.inj hf').symm
    subst this
    rw [hga] at haw'
    have : g = g' := by simpa using haw'
    subst this
    exact hon

theorem prep_ctl (w1 : World) (t : HTag) (x : Pid) :
    ((prep w1 t).proc x).status = (w1.proc x).status ∧ ((prep w1 t).proc x).blocked = (w1.proc x).blocked := by
  unfold S4.prep
  repeat' split
  all_goals (constructor <;> simp)

theorem safe_takeNext {w : World} (h : Safe noKey w) (t : HTag) (ev' : EvQ) : Safe noKey (S3.takeNext w t ev') := by
  unfold S3.takeNext
  apply Safe.wakeEventWaiters
  refine h.same rfl rfl rfl ((Stat.refl w).same rfl rfl rfl rfl rfl rfl rfl rfl)

theorem safe_prep {w1 : World} (h : Safe noKey w1) (t : HTag) : Safe noKey (prep w1 t) := by
  unfold S4.prep
  safe

/-- a guarded or unguarded resumption at the prepared world -/
theorem nf_resume_at {X : World → Prop} (hX : Carry X) (hF : Facts X) {W : World} {p : Pid} {sig : Int}
    (hs : Safe noKey W) (hx : X W) (hprog : ProgOk W) (hg : GInvB W)
    (hrun : (W.proc p).status = .running) (hbl : (W.proc p).blocked ≠ none)
    (hq : ∀ f, (W.proc p).blocked = some f → sig = sigSuccess → Quiet W p)
    (hroom : PqRoom (resumeProc W p sig)) : (resumeProc W p sig).fault = none :=
  nf_resumeProc hX hF W p sig hs hx hprog hrun (fun f hbf => resumePre_of_ginv hg hbf (hq f hbf)) hbl hroom

theorem nf_dispatch {X : World → Prop} (hX : Carry X) (hF : Facts X) {w w' : World} (hG : Good X w)
    (hnf : w.fault = none) (hd : dispatch w = some w') (hroom : PqRoom w') : w'.fault = none := by
  rw [S3.dispatch_eq] at hd
  split at hd
  · cases hd
  · rename_i t ev' hn
    simp only [Option.some.injEq] at hd
    subst hd
    have hp := hG.s3.g
    have hP := hG.s3.p
    have hnr := hG.s3.nr
    have hT := hp.takeNext hn
    have hk := took_takeNext hp.ei hn
    obtain ⟨_, htm, _, _⟩ := executeNext_facts hp.ei hn
    have hprocT : ∀ x, (S3.takeNext w t ev').proc x = w.proc x := takeNext_proc w t ev'
    have hc64 : t.item.c < 2 ^ 64 := hp.cl t htm
    have hsig0 : decSig t.item.c = sigSuccess → t.item.c = 0 := (decSig_eq_zero hc64).1
    have hsT : Safe noKey (S3.takeNext w t ev') := safe_takeNext (safe_of_good hG hnf) t ev'
    have hxW : X (prep (S3.takeNext w t ev') t) := hX.prep hG.x hn
    have hprogT : ProgOk (S3.takeNext w t ev') := hG.prog.ofStat (Stat.takeNext w t ev')
    have hsW : Safe noKey (prep (S3.takeNext w t ev') t) := safe_prep hsT t
    have hctl := prep_ctl (S3.takeNext w t ev') t
    have hprogW : ProgOk (prep (S3.takeNext w t ev') t) := by
      refine hprogT.ofStat ?_
      unfold S4.prep
      have h0 := Stat.refl (S3.takeNext w t ev')
      repeat' split
      all_goals stat
    generalize S3.takeNext w t ev' = wT at *
    simp only [S3.dispatchBody] at hroom ⊢
    generalize hpdef : t.item.b - 1 = p at *
    have hstat : ∀ x, ((prep wT t).proc x).status = (w.proc x).status := fun x => by rw [(hctl x).1, hprocT]
    have hblk : ∀ x, ((prep wT t).proc x).blocked = (w.proc x).blocked := fun x => by rw [(hctl x).2, hprocT]
    -- the guarded resumptions
    have hres : ∀ {W : World}, W = prep wT t → GInvB W →
        (∀ f, (W.proc p).blocked = some f → decSig t.item.c = sigSuccess → Quiet W p) →
        PqRoom (if isRunning W p = true then resumeProc W p (decSig t.item.c) else W) →
        (if isRunning W p = true then resumeProc W p (decSig t.item.c) else W).fault = none := by
      intro W hW h1 h3 hr
      subst hW
      split
      · rename_i hrun
        rw [if_pos hrun] at hr
        have hrun' : ((prep wT t).proc p).status = .running := by simpa [isRunning] using hrun
        refine nf_resume_at hX hF hsW hxW hprogW h1 hrun' ?_ h3 hr
        rw [hblk]; exact hG.rb p (by rw [← hstat]; exact hrun')
      · exact hsW.nf
    have hquietF : ∀ {W : World} {f : Frame}, Took w t W → t.item.b = p + 1 → (w.proc p).blocked = some f →
        (∀ g, ¬ FrameOn w f g) → (∀ h, f ≠ .hold h) → Quiet W p := by
      intro W f hkW hb hfr hno hnh
      refine hkW.quiet_frame hp (p := p) hfr hno ?_
      intro e he _ hea hec hbe
      have := (hp.oth e he hea hec).2 (noEx_not _)
      rw [hbe, Nat.add_sub_cancel] at this
      exact hnh e.key (Option.some.inj (hfr.symm.trans this))
    by_cases ha : t.item.a = aStart
    · -- start
      rw [if_pos ha] at hroom ⊢
      have hpw : prep wT t = wT := by
        unfold S4.prep
        simp [ha, aStart, aTime, aProc, aEvent, aCond, aIntr]
      have hnrun : (w.proc p).status ≠ .running := by
        have := hG.start.inv.nr t htm ha
        rw [hpdef] at this; exact this
      have hnrunT : ¬ (wT.proc p).status = .running := by rw [hprocT]; exact hnrun
      rw [if_neg hnrunT] at hroom ⊢
      have hin : (w.proc p).awaits = [] ∧ (w.proc p).blocked = none := hnr p hnrun
      have hnq : ∀ g, ¬ queued wT g (p + 1) := by
        intro g hqq
        have := (hT.gk g _ hqq).2.2 (noEx_not _)
        rw [Nat.add_sub_cancel, hprocT, hin.1] at this
        cases this
      have hs2 : Safe (isKey p) (wT.modProc p fun y => { y with status := .running, pc := 0, blocked := none }) :=
        ((hsT.toKey p hnq).modProc p _ (fun _ => rfl))
      have hx2 : X (wT.modProc p fun y => { y with status := .running, pc := 0, blocked := none }) := by
        rw [hpw] at hxW; exact hX.start p hxW
      refine nf_runScript hX hF _ _ p hs2 hx2 (hprogT.ofStat (by have h0 := Stat.refl wT; stat)) ?_ hroom
      omega
    rw [if_neg ha] at hroom ⊢
    by_cases hat : t.item.a = aTime
    · -- timer
      rw [if_pos hat] at hroom ⊢
      have hpw : prep wT t = (removeAwait wT p (.time t.key)).1 := by
        unfold S4.prep; rw [if_pos hat, hpdef]
      rw [hpw] at hsW hxW hprogW hstat hblk
      have hsil := hG.s1.all.silent t htm (by rw [hat]; rfl)
      have hb : t.item.b = p + 1 := by omega
      have hrunw : (w.proc p).status = .running := by rw [← hpdef]; exact hsil.2
      have hW : GInvB (removeAwait wT p (.time t.key)).1 := (hT.removeAwait_other p _ rfl).toB
      refine nf_resume_at hX hF hsW hxW hprogW hW (by rw [hstat]; exact hrunw) (by rw [hblk]; exact hG.rb p hrunw) ?_ hroom
      intro f _ hs
      have hc0 := hsig0 hs
      obtain ⟨hb0, hfr⟩ := hp.oth t htm hat hc0
      have hfr' := hfr (noEx_not _)
      rw [hpdef] at hfr'
      refine (hk.removeAwait p _).quiet_frame hp (p := p) hfr' (fun g h => h) ?_
      intro e he hne hea hec hbe
      have := (hp.oth e he hea hec).2 (noEx_not _)
      rw [hbe, Nat.add_sub_cancel, hfr'] at this
      exact hne (Frame.hold.inj (Option.some.inj this)).symm
    rw [if_neg hat] at hroom ⊢
    by_cases hap : t.item.a = aProc
    · -- process end
      rw [if_pos hap] at hroom ⊢
      have hpw : prep wT t = (removeAwaitKind wT p isProcA).1 := by
        unfold S4.prep; rw [if_neg hat, if_pos hap, hpdef]
      refine hres hpw.symm (hT.removeAwaitKind_other p _ isProcA_not_guard).toB ?_ hroom
      intro f _ _
      obtain ⟨p', q, hb, hbl, _⟩ := hP.procWake_owned htm hap
      have hpp : p' = p := by omega
      subst hpp
      exact hquietF (hk.removeAwaitKind _ _) hb hbl (fun g h => h) (fun h hh => by cases hh)
    rw [if_neg hap] at hroom ⊢
    by_cases hae : t.item.a = aEvent
    · -- event done
      rw [if_pos hae] at hroom ⊢
      have hpw : prep wT t = (removeAwaitKind wT p isEventA).1 := by
        unfold S4.prep; rw [if_neg hat, if_neg hap, if_pos hae, hpdef]
      refine hres hpw.symm (hT.removeAwaitKind_other p _ isEventA_not_guard).toB ?_ hroom
      intro f _ _
      obtain ⟨p', q, hb, hbl, _⟩ := hP.eventWake_owned htm hae
      have hpp : p' = p := by omega
      subst hpp
      exact hquietF (hk.removeAwaitKind _ _) hb hbl (fun g h => h) (fun h hh => by cases hh)
    rw [if_neg hae] at hroom ⊢
    by_cases har : t.item.a = aRes ∨ t.item.a = aPreempt
    · -- grant / preemption
      rw [if_pos har] at hroom ⊢
      have hpw : prep wT t = wT := by
        unfold S4.prep
        rw [if_neg hat, if_neg hap, if_neg hae]
        rcases har with h | h <;> simp [h, aRes, aPreempt, aCond, aIntr]
      refine hres hpw.symm hT ?_ hroom
      intro f _ hs
      have hc0 := hsig0 hs
      have hnz := hp.nz t htm hc0
      have hg : isGrant t := by
        rcases har with h | h
        · exact Or.inl ⟨h, hc0⟩
        · exact absurd h hnz.2.2
      have hb0 := (hp.gr t htm hg).1
      exact hk.quiet_grant hp htm hg (by omega)
    rw [if_neg har] at hroom ⊢
    by_cases hac : t.item.a = aCond
    · -- condition wake-up
      rw [if_pos hac] at hroom ⊢
      have hpw : prep wT t = (removeAwaitKind wT p isGuardA).1 := by
        unfold S4.prep; rw [if_neg hat, if_neg hap, if_neg hae, if_pos hac, hpdef]
      have hg : isGrant t := Or.inr hac
      have hb0 := (hp.gr t htm hg).1
      have hb : t.item.b = p + 1 := by omega
      have hqT : Quiet wT p := hk.quiet_grant hp htm hg hb
      refine hres hpw.symm (hT.dropGuardAwaits p hqT).toB ?_ hroom
      intro f _ _
      exact (hk.removeAwaitKind _ _).quiet_grant hp htm hg hb
    rw [if_neg hac] at hroom ⊢
    by_cases hai : t.item.a = aIntr
    · -- interrupt
      rw [if_pos hai] at hroom ⊢
      have hpw : prep wT t = cancelAwaiteds wT p := by
        unfold S4.prep; rw [if_neg hat, if_neg hap, if_neg hae, if_neg hac, if_pos hai, hpdef]
      rw [hpw] at hsW hxW hprogW hstat hblk
      have hsil := hG.s1.intr t htm hai
      have hrunw : (w.proc p).status = .running := by rw [← hpdef]; exact hsil.2
      have hcl := GInv.cancelAwaiteds hT p (noEx_not p)
      refine nf_resumeProc hX hF _ p _ hsW hxW hprogW (by rw [hstat]; exact hrunw) ?_
        (by rw [hblk]; exact hG.rb p hrunw) hroom
      intro f _ g hqq
      exact absurd hqq (hcl.2.nq g)
    rw [if_neg hai] at hroom ⊢
    have hpw : prep wT t = wT := by
      unfold S4.prep; rw [if_neg hat, if_neg hap, if_neg hae, if_neg hac, if_neg hai]
    by_cases hau : t.item.a = aResume
    · -- resume
      rw [if_pos hau] at hroom ⊢
      rw [hpw] at hsW hxW hprogW hstat hblk
      have hsil := hG.s1.all.silent t htm (by rw [hau]; rfl)
      have hrunw : (w.proc p).status = .running := by rw [← hpdef]; exact hsil.2
      refine nf_resume_at hX hF hsW hxW hprogW hT (by rw [hstat]; exact hrunw)
        (by rw [hblk]; exact hG.rb p hrunw) ?_ hroom
      intro f _ hs
      exact absurd hau (hp.nz t htm (hsig0 hs)).2.1
    · rw [if_neg hau]
      exact hsT.nf


/-! ### along runs -/

theorem Good.dispatch {X : World → Prop} (hX : Carry X) {w w' : World} (h : Good X w) (hd : dispatch w = some w') : Good X w' :=
  ⟨h.s3.dispatch hd, fullinv_dispatch h.s1 hd, h.start.dispatch hd, h.rb.dispatch hd, h.st.ofStat (Stat.dispatch hd),
   h.prog.ofStat (Stat.dispatch hd), hX.dispatch h.x h.prog hd⟩

theorem PqMono.dispatch {w w' : World} (hd : dispatch w = some w') : PqMono w w' := by
  rw [S3.dispatch_eq] at hd
  split at hd
  · cases hd
  · rename_i t ev' hn
    simp only [Option.some.injEq] at hd
    subst hd
    refine PqMono.pre_eq (w1 := S3.takeNext w t ev') ?_ (takeNext_pqs w t ev')
    generalize S3.takeNext w t ev' = wT
    simp only [S3.dispatchBody]
    repeat' split
    all_goals (first
      | (with_reducible exact PqMono.refl _)
      | (with_reducible exact PqMono.resumeProc _ _ _)
      | (with_reducible apply PqMono.pre_eq (PqMono.resumeProc _ _ _); simp; done)
      | (refine PqMono.pre_eq (PqMono.runScript _ _ _) ?_; rfl)
      | (apply PqMono.of_eq; first | rfl | (simp; done)))

theorem nf_reach {X : World → Prop} (hX : Carry X) (hF : Facts X) {w0 w : World} (hG : Good X w0) (hnf : w0.fault = none)
    (hr : Reach w0 w) : Good X w ∧ PqMono w0 w ∧ (PqRoom w → w.fault = none) := by
  induction hr with
  | refl => exact ⟨hG, PqMono.refl _, fun _ => hnf⟩
  | step _ hd ih =>
    obtain ⟨hg1, hm1, hn1⟩ := ih
    have hm := PqMono.dispatch hd
    exact ⟨hg1.dispatch hX hd, hm1.trans hm, fun hroom => nf_dispatch hX hF hg1 (hn1 (hroom.of_mono hm)) hd hroom⟩

theorem PqMono.runAll : ∀ (fuel : Nat) (w : World), PqMono w (Sim.runAll fuel w) := by
  intro fuel
  induction fuel with
  | zero => intro w; exact PqMono.of_eq rfl
  | succ n ih =>
    intro w
    unfold Sim.runAll
    split
    · exact PqMono.refl w
    · split
      · exact PqMono.refl w
      · rename_i w' hd
        exact (PqMono.dispatch hd).trans (ih w')

theorem nf_runAll {X : World → Prop} (hX : Carry X) (hF : Facts X) : ∀ (fuel : Nat) (w : World), Good X w → w.fault = none →
    PqRoom (runAll fuel w) → (runAll fuel w).fault = none := by
  intro fuel
  induction fuel with
  | zero => intro w _ hnf _; exact hnf
  | succ n ih =>
    intro w hG hnf hroom
    unfold Sim.runAll at hroom ⊢
    rw [if_neg (by simp [hnf])] at hroom ⊢
    split
    · exact hnf
    · rename_i w' hd
      rw [hd] at hroom
      simp only at hroom
      exact ih w' (hG.dispatch hX hd) (nf_dispatch hX hF hG hnf hd (hroom.of_mono (PqMono.runAll n w'))) hroom

end CimbaModel.Sim.S4
