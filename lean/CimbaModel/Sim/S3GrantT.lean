/-
  S3 — the grant invariant, part 22: grants are due now.  `AtNow w w'` (generated from the `Evo` traversal): the clock
  does not move and every pending grant is an old one (same handle, time, item) or is due at the current time.
-/
import CimbaModel.Sim.S3GrantBuilt

namespace CimbaModel.Sim.S3
open CimbaModel CimbaModel.Sim CimbaModel.Event CimbaModel.Generated CimbaModel.KPQ
open CimbaModel.HashHeap (HTag Item Order HH WF abs liveTags)

/-- every pending grant is due at the current time -/
def GT (w : World) : Prop := ∀ e ∈ w.ev.pending, isG01 e → e.d = w.now

structure AtNow (w w' : World) : Prop where
  now : w'.now = w.now
  newg : ∀ e' ∈ w'.ev.pending, isG01 e' → (∃ e ∈ w.ev.pending, e.key = e'.key ∧ e.d = e'.d ∧ e.item = e'.item) ∨ e'.d = w.now

theorem AtNow.refl (w : World) : AtNow w w := ⟨rfl, fun e he _ => Or.inl ⟨e, he, rfl, rfl, rfl⟩⟩

theorem AtNow.trans {w w1 w2 : World} (h1 : AtNow w w1) (h2 : AtNow w1 w2) : AtNow w w2 := by
  refine ⟨h2.now.trans h1.now, ?_⟩
  intro e2 he2 hg
  rcases h2.newg e2 he2 hg with ⟨e1, he1, hk, hd, hi⟩ | hd
  · rcases h1.newg e1 he1 (by unfold isG01 at *; rw [hi]; exact hg) with ⟨e0, he0, hk0, hd0, hi0⟩ | hd0
    · exact Or.inl ⟨e0, he0, hk0.trans hk, hd0.trans hd, hi0.trans hi⟩
    · exact Or.inr (hd.symm.trans hd0)
  · exact Or.inr (hd.trans h1.now)

theorem GT.ofAtNow {w w' : World} (h : GT w) (ha : AtNow w w') : GT w' := by
  intro e' he' hg
  rcases ha.newg e' he' hg with ⟨e, he, _, hd, hi⟩ | hd
  · rw [← hd, ha.now]; exact h e he (by unfold isG01 at *; rw [hi]; exact hg)
  · rw [hd, ha.now]

theorem AtNow.same {w0 w w' : World} (h : AtNow w0 w) (hev : w'.ev = w.ev) : AtNow w0 w' :=
  h.trans ⟨by unfold World.now; rw [hev], by rw [hev]; exact fun e he _ => Or.inl ⟨e, he, rfl, rfl, rfl⟩⟩

theorem AtNow.fail {w0 w : World} (h : AtNow w0 w) (m : String) : AtNow w0 (w.fail m) := h.same (by simp)
theorem AtNow.emit {w0 w : World} (h : AtNow w0 w) (l : String) : AtNow w0 (w.emit l) := h.same rfl
theorem AtNow.modProc {w0 w : World} (h : AtNow w0 w) (p : Pid) (f : Proc → Proc) : AtNow w0 (w.modProc p f) := h.same rfl
theorem AtNow.setEvWaiters {w0 w : World} (h : AtNow w0 w) (x : List (Nat × List Pid)) : AtNow w0 { w with evWaiters := x } := h.same rfl
theorem AtNow.setRes {w0 w : World} (h : AtNow w0 w) (x : Array Res) : AtNow w0 { w with res := x } := h.same rfl
theorem AtNow.setPools {w0 w : World} (h : AtNow w0 w) (x : Array Pool) : AtNow w0 { w with pools := x } := h.same rfl
theorem AtNow.setBufs {w0 w : World} (h : AtNow w0 w) (x : Array Buf) : AtNow w0 { w with bufs := x } := h.same rfl
theorem AtNow.setOqs {w0 w : World} (h : AtNow w0 w) (x : Array OQ) : AtNow w0 { w with oqs := x } := h.same rfl
theorem AtNow.setPqs {w0 w : World} (h : AtNow w0 w) (x : Array PQ) : AtNow w0 { w with pqs := x } := h.same rfl
theorem AtNow.setFlags {w0 w : World} (h : AtNow w0 w) (x : Array Int) : AtNow w0 { w with flags := x } := h.same rfl
theorem AtNow.setGvars {w0 w : World} (h : AtNow w0 w) (x : Array Nat) : AtNow w0 { w with gvars := x } := h.same rfl
theorem AtNow.setGuardsSet {w0 w : World} (h : AtNow w0 w) (g : Nat) (x : Guard) :
    AtNow w0 { w with guards := w.guards.set! g x } := h.same rfl
theorem AtNow.setGuardQ {w0 w : World} (h : AtNow w0 w) (g : Nat) (q : HH) : AtNow w0 (setGuardQ w g q) := h.same rfl

theorem AtNow.pushEv {w0 w : World} (h : AtNow w0 w) (a s : Nat) (sig t pri : Int)
    (hs : a = aRes → encSig sig = 0 → t = w.now) : AtNow w0 (pushEv w a s sig t pri) := by
  refine h.trans ⟨rfl, ?_⟩
  intro e he hg
  simp only [pushEv_pending, List.mem_cons] at he
  rcases he with rfl | he
  · right; exact hs hg.1 hg.2
  · exact Or.inl ⟨e, he, rfl, rfl, rfl⟩

theorem AtNow.sched_fst {w0 w : World} (h : AtNow w0 w) (a s : Nat) (sig t pri : Int)
    (hs : a = aRes → encSig sig = 0 → t = w.now) : AtNow w0 (sched w a s sig t pri).1 := by
  rcases sched_cases w a s sig t pri with ⟨ht, he⟩ | ⟨_, m, he⟩
  · rw [he]; exact h.pushEv a s sig t pri hs
  · rw [he]; exact h.fail m

theorem AtNow.ofCanRel {w w' : World} (h : CanRel w w') : AtNow w w' := by
  refine ⟨h.now, ?_⟩
  intro e he hg
  rcases h.pend e he with hold | ⟨_, _, _, _, _, _, heq⟩
  · exact Or.inl ⟨e, hold, rfl, rfl, rfl⟩
  · rw [heq] at hg; exact absurd hg.1 (by show aEvent ≠ aRes; decide)

theorem AtNow.evCancel_fst {w0 w : World} (h : AtNow w0 w) (k : Nat) : AtNow w0 (evCancel w k).1 :=
  h.trans (AtNow.ofCanRel (evCancel_rel w k))

theorem AtNow.reprioEv {w0 w : World} (h : AtNow w0 w) {k : Nat} {v : Int} {ev' : EvQ}
    (hr : reprioritize w.ev k v = .ok ev') : AtNow w0 { w with ev := ev' } := by
  refine h.trans ?_
  unfold reprioritize at hr
  split at hr
  · cases hr
  · simp only [Except.ok.injEq] at hr
    subst hr
    refine ⟨rfl, ?_⟩
    intro e' he' _
    simp only [List.mem_map] at he'
    obtain ⟨e, he, rfl⟩ := he'
    refine Or.inl ⟨e, he, ?_, ?_, ?_⟩ <;> split <;> rfl

theorem AtNow.foldl {α : Type} {f : World → α → World} (hf : ∀ w a, AtNow w (f w a)) {w0 : World} :
    ∀ (l : List α) {w : World}, AtNow w0 w → AtNow w0 (l.foldl f w) := by
  intro l
  induction l with
  | nil => intro w h; exact h
  | cons a l ih => intro w h; exact ih (h.trans (hf w a))

/-! ### the tactic -/

syntax "atnow_step" : tactic
macro_rules | `(tactic| atnow_step) => `(tactic| (first | (intro h; exact absurd h (by decide)) | (intro _ _; rfl)))
macro_rules | `(tactic| atnow_step) => `(tactic| dsimp only)
macro_rules | `(tactic| atnow_step) => `(tactic| (guard_world_lit'; with_reducible apply AtNow.setGuardsSet))
macro_rules | `(tactic| atnow_step) => `(tactic| (guard_world_lit'; with_reducible apply AtNow.setGvars))
macro_rules | `(tactic| atnow_step) => `(tactic| (guard_world_lit'; with_reducible apply AtNow.setFlags))
macro_rules | `(tactic| atnow_step) => `(tactic| (guard_world_lit'; with_reducible apply AtNow.setPqs))
macro_rules | `(tactic| atnow_step) => `(tactic| (guard_world_lit'; with_reducible apply AtNow.setOqs))
macro_rules | `(tactic| atnow_step) => `(tactic| (guard_world_lit'; with_reducible apply AtNow.setBufs))
macro_rules | `(tactic| atnow_step) => `(tactic| (guard_world_lit'; with_reducible apply AtNow.setPools))
macro_rules | `(tactic| atnow_step) => `(tactic| (guard_world_lit'; with_reducible apply AtNow.setRes))
macro_rules | `(tactic| atnow_step) => `(tactic| (guard_world_lit'; with_reducible apply AtNow.setEvWaiters))
macro_rules | `(tactic| atnow_step) => `(tactic| split)
macro_rules | `(tactic| atnow_step) => `(tactic| with_reducible apply AtNow.evCancel_fst)
macro_rules | `(tactic| atnow_step) => `(tactic| (with_reducible refine AtNow.sched_fst ?_ _ _ _ _ _ ?_))
macro_rules | `(tactic| atnow_step) => `(tactic| with_reducible apply AtNow.setGuardQ)
macro_rules | `(tactic| atnow_step) => `(tactic| with_reducible apply AtNow.modProc)
macro_rules | `(tactic| atnow_step) => `(tactic| with_reducible apply AtNow.emit)
macro_rules | `(tactic| atnow_step) => `(tactic| with_reducible apply AtNow.fail)
macro_rules | `(tactic| atnow_step) => `(tactic| with_reducible exact AtNow.refl _)
macro_rules | `(tactic| atnow_step) => `(tactic| with_reducible assumption)

macro "atnow" : tactic => `(tactic| repeat' atnow_step)

/-! ### the functions of Sim/Model.lean -/

theorem AtNow.wakeEventWaiters {w0 w : World} (h : AtNow w0 w) (ps : List Pid) (sig : Int) :
    AtNow w0 (wakeEventWaiters w ps sig) := by
  unfold Sim.wakeEventWaiters
  exact AtNow.foldl (fun w q => by atnow) ps h
macro_rules | `(tactic| atnow_step) => `(tactic| with_reducible apply AtNow.wakeEventWaiters)

theorem AtNow.cancelAllFor {w0 w : World} (h : AtNow w0 w) (p : Pid) : AtNow w0 (cancelAllFor w p) := by
  unfold Sim.cancelAllFor
  exact AtNow.foldl (fun w q => by atnow) _ h
macro_rules | `(tactic| atnow_step) => `(tactic| with_reducible apply AtNow.cancelAllFor)

theorem AtNow.cancelKindFor_fst {w0 w : World} (h : AtNow w0 w) (p : Pid) (act : Nat) (sig : Option Int) :
    AtNow w0 (cancelKindFor w p act sig).1 := by
  unfold Sim.cancelKindFor
  exact AtNow.foldl (fun w q => by atnow) _ h
macro_rules | `(tactic| atnow_step) => `(tactic| with_reducible apply AtNow.cancelKindFor_fst)
theorem AtNow.cancelUserAll_fst {w0 w : World} (h : AtNow w0 w) :
    AtNow w0 (cancelUserAll w).1 := by
  unfold Sim.cancelUserAll
  exact AtNow.foldl (fun w q => by atnow) _ h
macro_rules | `(tactic| atnow_step) => `(tactic| with_reducible apply AtNow.cancelUserAll_fst)

theorem AtNow.recordRes {w0 w : World} (h : AtNow w0 w) (r : Nat) : AtNow w0 (recordRes w r) := by
  unfold Sim.recordRes; atnow
theorem AtNow.recordPool {w0 w : World} (h : AtNow w0 w) (r : Nat) : AtNow w0 (recordPool w r) := by
  unfold Sim.recordPool; atnow
theorem AtNow.recordBuf {w0 w : World} (h : AtNow w0 w) (r : Nat) : AtNow w0 (recordBuf w r) := by
  unfold Sim.recordBuf; atnow
theorem AtNow.recordOQ {w0 w : World} (h : AtNow w0 w) (r : Nat) : AtNow w0 (recordOQ w r) := by
  unfold Sim.recordOQ; atnow
theorem AtNow.recordPQ {w0 w : World} (h : AtNow w0 w) (r : Nat) : AtNow w0 (recordPQ w r) := by
  unfold Sim.recordPQ; atnow
macro_rules | `(tactic| atnow_step) => `(tactic| with_reducible apply AtNow.recordRes)
macro_rules | `(tactic| atnow_step) => `(tactic| with_reducible apply AtNow.recordPool)
macro_rules | `(tactic| atnow_step) => `(tactic| with_reducible apply AtNow.recordBuf)
macro_rules | `(tactic| atnow_step) => `(tactic| with_reducible apply AtNow.recordOQ)
macro_rules | `(tactic| atnow_step) => `(tactic| with_reducible apply AtNow.recordPQ)

theorem AtNow.guardRemove_fst {w0 w : World} (h : AtNow w0 w) (g : Nat) (p : Pid) : AtNow w0 (guardRemove w g p).1 := by
  unfold Sim.guardRemove; atnow
macro_rules | `(tactic| atnow_step) => `(tactic| with_reducible apply AtNow.guardRemove_fst)

theorem AtNow.frontStep {w0 w : World} (h : AtNow w0 w) (g : Nat) (gd : Guard) : AtNow w0 (frontStep w g gd) := by
  unfold S3.frontStep; atnow

theorem AtNow.condSignal_fst {w0 w : World} (h : AtNow w0 w) (g : Nat) : AtNow w0 (condSignal w g).1 := by
  simp only [Sim.condSignal]
  split
  · exact h
  · split
    · exact h
    · refine AtNow.foldl (fun w q => by atnow) _ ?_
      exact AtNow.foldl (fun w q => by atnow) _ h
macro_rules | `(tactic| atnow_step) => `(tactic| with_reducible apply AtNow.condSignal_fst)

theorem AtNow.ownStep {w0 w : World} (h : AtNow w0 w) (fwd : Bool) (g : Nat) (gd : Guard) : AtNow w0 (ownStep fwd w g gd) := by
  unfold S3.ownStep
  split
  · exact h.condSignal_fst g
  · exact h.frontStep g gd

theorem AtNow.guardSignalF' : ∀ (fuel : Nat) (fwd : Bool) (w : World) (g : Nat), AtNow w (guardSignalF fwd fuel w g) := by
  intro fuel
  induction fuel with
  | zero => intro fwd w g; rw [guardSignalF_zero]; exact (AtNow.refl w).fail _
  | succ fuel ih =>
    intro fwd w g
    rw [guardSignalF_succ]
    split
    · exact AtNow.refl w
    · exact AtNow.foldl (fun w o => ih true w o) _ ((AtNow.refl w).ownStep fwd g _)

theorem AtNow.guardSignal' (fuel : Nat) (w : World) (g : Nat) : AtNow w (guardSignal fuel w g) :=
  AtNow.guardSignalF' fuel false w g

theorem AtNow.guardSignal {w0 w : World} (h : AtNow w0 w) (fuel : Nat) (g : Nat) : AtNow w0 (guardSignal fuel w g) :=
  h.trans (AtNow.guardSignal' fuel w g)

theorem AtNow.signal {w0 w : World} (h : AtNow w0 w) (g : Nat) : AtNow w0 (signal w g) := h.guardSignal 8 g
macro_rules | `(tactic| atnow_step) => `(tactic| with_reducible apply AtNow.signal)

theorem AtNow.guardWithdraw {w0 w : World} (h : AtNow w0 w) (g : Nat) (p : Pid) : AtNow w0 (guardWithdraw w g p) := by
  simp only [Sim.guardWithdraw]; atnow
macro_rules | `(tactic| atnow_step) => `(tactic| with_reducible apply AtNow.guardWithdraw)

theorem AtNow.addAwait {w0 w : World} (h : AtNow w0 w) (p : Pid) (a : Await) : AtNow w0 (addAwait w p a) := by
  unfold Sim.addAwait; atnow
macro_rules | `(tactic| atnow_step) => `(tactic| with_reducible apply AtNow.addAwait)

theorem AtNow.removeAwait_fst {w0 w : World} (h : AtNow w0 w) (p : Pid) (a : Await) : AtNow w0 (removeAwait w p a).1 := by
  simp only [Sim.removeAwait]; atnow
macro_rules | `(tactic| atnow_step) => `(tactic| with_reducible apply AtNow.removeAwait_fst)

theorem AtNow.removeAwaitKind_fst {w0 w : World} (h : AtNow w0 w) (p : Pid) (k : Await → Bool) :
    AtNow w0 (removeAwaitKind w p k).1 := by
  simp only [Sim.removeAwaitKind]; atnow
macro_rules | `(tactic| atnow_step) => `(tactic| with_reducible apply AtNow.removeAwaitKind_fst)

theorem AtNow.removeHeld_fst {w0 w : World} (h : AtNow w0 w) (p : Pid) (x : HoldRef) : AtNow w0 (removeHeld w p x).1 := by
  simp only [Sim.removeHeld]; atnow
macro_rules | `(tactic| atnow_step) => `(tactic| with_reducible apply AtNow.removeHeld_fst)

theorem AtNow.timerAdd_fst {w0 w : World} (h : AtNow w0 w) (p : Pid) (d sig : Int) : AtNow w0 (timerAdd w p d sig).1 := by
  simp only [Sim.timerAdd]; atnow
macro_rules | `(tactic| atnow_step) => `(tactic| with_reducible apply AtNow.timerAdd_fst)

theorem AtNow.timerCancel_fst {w0 w : World} (h : AtNow w0 w) (p : Pid) (k : Nat) : AtNow w0 (timerCancel w p k).1 := by
  simp only [Sim.timerCancel]; atnow
macro_rules | `(tactic| atnow_step) => `(tactic| with_reducible apply AtNow.timerCancel_fst)

theorem AtNow.timersClear {w0 w : World} (h : AtNow w0 w) (p : Pid) : AtNow w0 (timersClear w p) := by
  unfold Sim.timersClear
  exact AtNow.foldl (fun w q => by atnow) _ (by atnow)
macro_rules | `(tactic| atnow_step) => `(tactic| with_reducible apply AtNow.timersClear)

theorem AtNow.cancelAwaiteds {w0 w : World} (h : AtNow w0 w) (p : Pid) : AtNow w0 (cancelAwaiteds w p) := by
  unfold Sim.cancelAwaiteds
  apply AtNow.cancelAllFor
  exact AtNow.foldl (fun w q => by atnow) _ (by atnow)
macro_rules | `(tactic| atnow_step) => `(tactic| with_reducible apply AtNow.cancelAwaiteds)

theorem AtNow.wakeWaiters {w0 w : World} (h : AtNow w0 w) (p : Pid) (sig : Int) : AtNow w0 (wakeWaiters w p sig) := by
  unfold Sim.wakeWaiters
  exact AtNow.foldl (fun w q => by atnow) _ (by atnow)
macro_rules | `(tactic| atnow_step) => `(tactic| with_reducible apply AtNow.wakeWaiters)

theorem AtNow.poolDropHolder {w0 w : World} (h : AtNow w0 w) (pl : Nat) (p : Pid) : AtNow w0 (poolDropHolder w pl p) := by
  unfold Sim.poolDropHolder; atnow
macro_rules | `(tactic| atnow_step) => `(tactic| with_reducible apply AtNow.poolDropHolder)

theorem AtNow.dropResources {w0 w : World} (h : AtNow w0 w) (p : Pid) : AtNow w0 (dropResources w p) := by
  unfold Sim.dropResources
  exact AtNow.foldl (fun w q => by atnow) _ (by atnow)
macro_rules | `(tactic| atnow_step) => `(tactic| with_reducible apply AtNow.dropResources)

theorem AtNow.finishProc {w0 w : World} (h : AtNow w0 w) (p : Pid) (v : Int) (s : Bool) : AtNow w0 (finishProc w p v s) := by
  unfold Sim.finishProc; atnow
macro_rules | `(tactic| atnow_step) => `(tactic| with_reducible apply AtNow.finishProc)

theorem AtNow.guardWaitEnter {w0 w : World} (h : AtNow w0 w) (g : Nat) (p : Pid) (d : Demand) :
    AtNow w0 (guardWaitEnter w g p d) := by
  unfold Sim.guardWaitEnter; atnow
macro_rules | `(tactic| atnow_step) => `(tactic| with_reducible apply AtNow.guardWaitEnter)

theorem AtNow.guardWaitLeave {w0 w : World} (h : AtNow w0 w) (g : Nat) (p : Pid) (sig : Int) :
    AtNow w0 (guardWaitLeave w g p sig) := by
  unfold Sim.guardWaitLeave; atnow
macro_rules | `(tactic| atnow_step) => `(tactic| with_reducible apply AtNow.guardWaitLeave)

theorem AtNow.grab {w0 w : World} (h : AtNow w0 w) (r : Nat) (p : Pid) : AtNow w0 (grab w r p) := by
  unfold Sim.grab; atnow
macro_rules | `(tactic| atnow_step) => `(tactic| with_reducible apply AtNow.grab)

theorem AtNow.poolUpdateRecord {w0 w : World} (h : AtNow w0 w) (pl : Nat) (p : Pid) (a : Nat) :
    AtNow w0 (poolUpdateRecord w pl p a) := by
  unfold Sim.poolUpdateRecord; atnow
macro_rules | `(tactic| atnow_step) => `(tactic| with_reducible apply AtNow.poolUpdateRecord)

theorem AtNow.setPoolInUse {w0 w : World} (h : AtNow w0 w) (pl v : Nat) : AtNow w0 (setPoolInUse w pl v) := by
  unfold Sim.setPoolInUse; atnow
macro_rules | `(tactic| atnow_step) => `(tactic| with_reducible apply AtNow.setPoolInUse)

theorem AtNow.setHeldAmount {w0 w : World} (h : AtNow w0 w) (pl : Nat) (p : Pid) (a : Nat) :
    AtNow w0 (setHeldAmount w pl p a) := by
  unfold Sim.setHeldAmount; atnow
macro_rules | `(tactic| atnow_step) => `(tactic| with_reducible apply AtNow.setHeldAmount)

/-! ### the functions of Sim/Run.lean -/

theorem AtNow.block_fst {w0 w : World} (h : AtNow w0 w) (p : Pid) (f : Frame) : AtNow w0 (block w p f).1 := by
  unfold Sim.block; atnow
macro_rules | `(tactic| atnow_step) => `(tactic| with_reducible apply AtNow.block_fst)

theorem AtNow.setVar {w0 w : World} (h : AtNow w0 w) (p : Pid) (v x : Nat) : AtNow w0 (setVar w p v x) := by
  unfold Sim.setVar; atnow
macro_rules | `(tactic| atnow_step) => `(tactic| with_reducible apply AtNow.setVar)

theorem AtNow.poolMug' : ∀ (fuel : Nat) (w : World) (p : Pid) (pl rem : Nat), AtNow w (poolMug fuel w p pl rem).1 := by
  intro fuel
  induction fuel with
  | zero => intro w p pl rem; exact AtNow.refl w
  | succ fuel ih =>
    intro w p pl rem
    simp only [Sim.poolMug]
    repeat' first | (with_reducible refine AtNow.trans ?_ (ih _ _ _ _)) | atnow_step

theorem AtNow.poolMug_fst {w0 w : World} (h : AtNow w0 w) (fuel : Nat) (p : Pid) (pl rem : Nat) :
    AtNow w0 (poolMug fuel w p pl rem).1 := h.trans (AtNow.poolMug' fuel w p pl rem)
macro_rules | `(tactic| atnow_step) => `(tactic| with_reducible apply AtNow.poolMug_fst)

theorem AtNow.poolLoop_fst {w0 w : World} (h : AtNow w0 w) (p : Pid) (pl rem ini : Nat) (pre : Bool) :
    AtNow w0 (poolLoop w p pl rem ini pre).1 := by
  simp only [Sim.poolLoop]; atnow
macro_rules | `(tactic| atnow_step) => `(tactic| with_reducible apply AtNow.poolLoop_fst)

theorem AtNow.poolRollback {w0 w : World} (h : AtNow w0 w) (p : Pid) (pl ini : Nat) : AtNow w0 (poolRollback w p pl ini) := by
  simp only [Sim.poolRollback]; atnow
macro_rules | `(tactic| atnow_step) => `(tactic| with_reducible apply AtNow.poolRollback)

theorem AtNow.bufGetLoop_fst {w0 w : World} (h : AtNow w0 w) (p : Pid) (b rem got : Nat) : AtNow w0 (bufGetLoop w p b rem got).1 := by
  simp only [Sim.bufGetLoop]; atnow
macro_rules | `(tactic| atnow_step) => `(tactic| with_reducible apply AtNow.bufGetLoop_fst)

theorem AtNow.bufPutLoop_fst {w0 w : World} (h : AtNow w0 w) (p : Pid) (b rem left : Nat) : AtNow w0 (bufPutLoop w p b rem left).1 := by
  simp only [Sim.bufPutLoop]; atnow
macro_rules | `(tactic| atnow_step) => `(tactic| with_reducible apply AtNow.bufPutLoop_fst)

theorem AtNow.oqGetLoop_fst {w0 w : World} (h : AtNow w0 w) (p : Pid) (q : Nat) : AtNow w0 (oqGetLoop w p q).1 := by
  simp only [Sim.oqGetLoop]; atnow
macro_rules | `(tactic| atnow_step) => `(tactic| with_reducible apply AtNow.oqGetLoop_fst)

theorem AtNow.oqPutLoop_fst {w0 w : World} (h : AtNow w0 w) (p : Pid) (q obj : Nat) : AtNow w0 (oqPutLoop w p q obj).1 := by
  simp only [Sim.oqPutLoop]; atnow
macro_rules | `(tactic| atnow_step) => `(tactic| with_reducible apply AtNow.oqPutLoop_fst)

theorem AtNow.pqGetLoop_fst {w0 w : World} (h : AtNow w0 w) (p : Pid) (k : Nat) : AtNow w0 (pqGetLoop w p k).1 := by
  simp only [Sim.pqGetLoop]; atnow
macro_rules | `(tactic| atnow_step) => `(tactic| with_reducible apply AtNow.pqGetLoop_fst)

theorem AtNow.pqPutLoop_fst {w0 w : World} (h : AtNow w0 w) (p : Pid) (k obj : Nat) (pri : Int) (v : Nat) :
    AtNow w0 (pqPutLoop w p k obj pri v).1 := by
  simp only [Sim.pqPutLoop]; atnow
macro_rules | `(tactic| atnow_step) => `(tactic| with_reducible apply AtNow.pqPutLoop_fst)


theorem AtNow.acquireStep_fst {w0 w : World} (h : AtNow w0 w) (p : Pid) (r : Nat) : AtNow w0 (acquireStep w p r).1 := by
  simp only [Sim.acquireStep]; atnow
macro_rules | `(tactic| atnow_step) => `(tactic| with_reducible apply AtNow.acquireStep_fst)

theorem AtNow.setRecording {w0 w : World} (h : AtNow w0 w) (kind idx : Nat) (on : Bool) : AtNow w0 (setRecording w kind idx on) := by
  simp only [Sim.setRecording]; atnow
macro_rules | `(tactic| atnow_step) => `(tactic| with_reducible apply AtNow.setRecording)


theorem AtNow.reprioGuard {w0 w : World} (h : AtNow w0 w) (q : Pid) (v : Int) (g : Nat) : AtNow w0 (reprioGuard w q v g) := by
  unfold S3.reprioGuard; atnow

theorem AtNow.prioAwaitStep {w0 w : World} (h : AtNow w0 w) (q : Pid) (v : Int) (a : Await) : AtNow w0 (prioAwaitStep q v w a) := by
  unfold S3.prioAwaitStep
  split
  · split
    · rename_i hr; exact h.reprioEv hr
    · exact h.fail _
  · exact h.reprioGuard q v _
  · exact h

theorem AtNow.prioHeldStep {w0 w : World} (h : AtNow w0 w) (q : Pid) (v : Int) (x : HoldRef) : AtNow w0 (prioHeldStep q v w x) := by
  unfold S3.prioHeldStep; atnow

theorem AtNow.execCmd_fst {w0 w : World} (h : AtNow w0 w) (p : Pid) (c : Cmd) : AtNow w0 (execCmd w p c).1 := by
  cases c with
  | prioSet q v =>
    by_cases hq : q < w.procs.size
    · rw [prioSet_eq w p q v hq]
      dsimp only
      refine AtNow.foldl (fun w x => (AtNow.refl w).prioHeldStep q v x) _ ?_
      refine AtNow.foldl (fun w x => (AtNow.refl w).prioAwaitStep q v x) _ ?_
      atnow
    · have : q ≥ w.procs.size := Nat.le_of_not_lt hq
      simp only [execCmd, this, if_true]
      exact h
  | _ => simp only [execCmd] <;> atnow

theorem AtNow.resumeFrame_fst {w0 w : World} (h : AtNow w0 w) (p : Pid) (f : Frame) (sig : Int) :
    AtNow w0 (resumeFrame w p f sig).1 := by
  cases f <;> simp only [resumeFrame] <;> atnow

macro_rules | `(tactic| atnow_step) => `(tactic| with_reducible apply AtNow.execCmd_fst)
macro_rules | `(tactic| atnow_step) => `(tactic| with_reducible apply AtNow.resumeFrame_fst)

theorem AtNow.runScript {w0 : World} : ∀ (fuel : Nat) {w : World}, AtNow w0 w → ∀ p, AtNow w0 (runScript fuel w p) := by
  intro fuel
  induction fuel with
  | zero => intro w h p; exact h.fail _
  | succ fuel ih =>
    intro w h p
    simp only [Sim.runScript]
    split
    · atnow
    · rename_i c text hs
      have hx : AtNow w0 (execCmd (w.emit s!"c {p} {(w.proc p).pc} {w.now} {text}") p c).1 := by atnow
      split
      · rename_i w1 v extra heq
        rw [heq] at hx
        apply ih
        atnow
      · rename_i w1 heq
        rw [heq] at hx
        apply ih
        atnow
      · rename_i w1 heq
        rw [heq] at hx
        exact hx
      · rename_i w1 heq
        rw [heq] at hx
        split <;> atnow

theorem AtNow.resumeProc {w0 w : World} (h : AtNow w0 w) (p : Pid) (sig : Int) : AtNow w0 (resumeProc w p sig) := by
  simp only [Sim.resumeProc]
  split
  · exact h.fail _
  · split
    · exact h.fail _
    · rename_i f hb
      have hx : AtNow w0 (resumeFrame (w.modProc p fun y => { y with blocked := none }) p f sig).1 := by atnow
      split
      · rename_i w1 v extra heq
        rw [heq] at hx
        apply AtNow.runScript
        atnow
      · rename_i w1 heq; rw [heq] at hx; exact hx
      · rename_i w1 heq; rw [heq] at hx; exact hx
      · rename_i w1 heq; rw [heq] at hx; exact hx


theorem AtNow.dispatchBody {w0 w : World} (h : AtNow w0 w) (t : HTag) : AtNow w0 (dispatchBody w t) := by
  simp only [S3.dispatchBody]
  repeat' first | (with_reducible apply AtNow.resumeProc) | (with_reducible apply AtNow.runScript) | atnow_step

theorem AtNow.takeNext (w : World) (t : HTag) (ev' : EvQ) : AtNow (afterNext w ev') (takeNext w t ev') := by
  unfold S3.takeNext
  have h := AtNow.refl (afterNext w ev')
  atnow


/-! ### dispatch -/

theorem heap_order_le {x t : HTag} (h : heap_order_check x t = false) : t.d ≤ x.d := by
  unfold heap_order_check at h
  split at h
  · cases h
  · rename_i hlt
    have : ¬ x.d < t.d := by simpa using hlt
    omega

/-- while a grant is pending the clock does not move; new grants are due at once -/
theorem GT.dispatch {w w' : World} (h : GT w) (hi : EvInv w.ev) (hd : dispatch w = some w') : GT w' := by
  rw [dispatch_eq] at hd
  split at hd
  · cases hd
  · rename_i t ev' hn
    simp only [Option.some.injEq] at hd
    subst hd
    obtain ⟨_, htm, hmin, hnow, _, _, _, hpend⟩ := executeNext_inv hi hn
    have hA : GT (afterNext w ev') := by
      intro e he hg
      have hm : e ∈ remove w.ev.pending t.key := by rw [← hpend]; exact he
      have hew := (mem_remove.1 hm).1
      have h1 := h e hew hg
      have h2 := heap_order_le (hmin e hew)
      have h3 := hi.timeOk t htm
      show e.d = ev'.now
      rw [hnow]
      unfold World.now at h1
      omega
    exact (hA.ofAtNow (AtNow.takeNext w t ev')).ofAtNow ((AtNow.refl _).dispatchBody t)

theorem GT.reach {w w' : World} (hr : Reach w w') (h : GT w) (hi : EvInv w.ev) : GT w' ∧ EvInv w'.ev := by
  induction hr with
  | refl => exact ⟨h, hi⟩
  | step _ hd ih => exact ⟨ih.1.dispatch ih.2 hd, (dispatch_clock ih.2 hd).evinv⟩

/-! ### every guard that is not a condition's belongs to an object end (static) -/

def Cover (w : World) : Prop := ∀ (g : Nat) (gd : Guard), w.guards[g]? = some gd → gd.isCond = false → ∃ d, gOf w d = some g

theorem Cover.ofStat {w w' : World} (h : Cover w) (hs : Stat w w') : Cover w' := by
  intro g gd' hg hc
  have := hs.guards g
  rw [hg] at this
  cases hg0 : w.guards[g]? with
  | none => rw [hg0] at this; cases this
  | some gd =>
    rw [hg0] at this
    simp only [Option.map_some, Option.some.injEq, guardStat, Prod.mk.injEq] at this
    obtain ⟨d, hd⟩ := h g gd hg0 (by rw [← this.1]; exact hc)
    exact ⟨d, by rw [gOf_of_stat hs]; exact hd⟩

/-- the original, weaker `GrantInv` (front demand satisfiable ⇒ some grant is pending at the current time) follows -/
theorem grantInv_of_all {S : Nat → Prop} {w : World} (h : GrantAll S w) (ht : GT w) (hc : Cover w) (hf : w.fault = none) :
    GrantInv w := by
  intro g gd hg hcond hpos hev
  obtain ⟨d, hd⟩ := hc g gd hg hcond
  obtain ⟨hHG, hGI⟩ := h.gh hf
  have hwf := h.all.g.gw g gd hg
  have hfront : (gd.q.tag 1).key ∈ keys (abs gd.q) :=
    Event.mem_keys.2 ⟨_, ((frontStep_spec w g gd hwf).2 hpos).1.1, rfl⟩
  rw [hHG d g hd gd hg _ hfront] at hev
  have h2 := (evalDemand_need w d (gOf_not_cond hd)).1 hev
  have h1 : need w d ≤ G w g + 0 := hGI d g hd ⟨_, gd, hg, hfront⟩
  have hpos' : 0 < (grantKeys w g).length := by unfold G at h1; omega
  obtain ⟨k, hk⟩ := List.exists_mem_of_length_pos hpos'
  obtain ⟨e, he, _, hg01, _⟩ := mem_grantKeys.1 hk
  exact ⟨e, he, hg01.1, by rw [hg01.2]; rfl, ht e he hg01⟩

/-! ### loader-built worlds -/

theorem map_push_old {α β : Type} (a : Array α) (x : α) (st : α → β) (i : Nat) (g : β) (h : (a[i]?).map st = some g) :
    ((a.push x)[i]?).map st = some g := by
  have hlt : i < a.size := by
    rcases Nat.lt_or_ge i a.size with h' | h'
    · exact h'
    · rw [Array.getElem?_eq_none h'] at h; cases h
  rw [Array.getElem?_push]
  rw [if_neg (Nat.ne_of_lt hlt)]; exact h

theorem map_push_new {α β : Type} (a : Array α) (x : α) (st : α → β) : ((a.push x)[a.size]?).map st = some (st x) := by
  rw [Array.getElem?_push, if_pos rfl]; rfl

theorem cover_grow {w w' : World} (h : Cover w) (hmono : ∀ d g, gOf w d = some g → gOf w' d = some g)
    (hg : ∀ (g : Nat) (gd : Guard), w'.guards[g]? = some gd → gd.isCond = false →
      (∃ gd0, w.guards[g]? = some gd0 ∧ gd0.isCond = false) ∨ ∃ d, gOf w' d = some g) : Cover w' := by
  intro g gd hgd hc
  rcases hg g gd hgd hc with ⟨gd0, h0, hc0⟩ | hd
  · obtain ⟨d, hd⟩ := h g gd0 h0 hc0
    exact ⟨d, hmono d g hd⟩
  · exact hd

theorem Built.cover {w : World} (h : Built w) : Cover w := by
  induction h with
  | empty => intro g gd hg; cases hg
  | @res w _ ih =>
    refine cover_grow ih (fun d g hd => ?_) ?_
    · cases d <;> first | exact hd | exact map_push_old _ _ _ _ _ hd
    · intro g gd hg hc
      rcases push_get _ _ _ _ hg with h1 | ⟨h1, _⟩
      · exact Or.inl ⟨gd, h1, hc⟩
      · right; subst h1
        exact ⟨.resAvail w.res.size, map_push_new _ _ _⟩
  | @pool w cap _ ih =>
    refine cover_grow ih (fun d g hd => ?_) ?_
    · cases d <;> first | exact hd | exact map_push_old _ _ _ _ _ hd
    · intro g gd hg hc
      rcases push_get _ _ _ _ hg with h1 | ⟨h1, _⟩
      · exact Or.inl ⟨gd, h1, hc⟩
      · right; subst h1
        exact ⟨.poolAvail w.pools.size, map_push_new _ _ _⟩
  | @buf w cap _ ih =>
    refine cover_grow ih (fun d g hd => ?_) ?_
    · cases d <;> first | exact hd | exact map_push_old _ _ _ _ _ hd
    · intro g gd hg hc
      rcases push_get _ _ _ _ hg with h1 | ⟨h1, _⟩
      · rcases push_get _ _ _ _ h1 with h2 | ⟨h2, _⟩
        · exact Or.inl ⟨gd, h2, hc⟩
        · right; subst h2
          exact ⟨.bufContent w.bufs.size, map_push_new _ _ _⟩
      · right
        have : g = w.guards.size + 1 := by rw [h1]; exact Array.size_push ..
        subst this
        exact ⟨.bufSpace w.bufs.size, map_push_new _ _ _⟩
  | @oq w cap _ ih =>
    refine cover_grow ih (fun d g hd => ?_) ?_
    · cases d <;> first | exact hd | exact map_push_old _ _ _ _ _ hd
    · intro g gd hg hc
      rcases push_get _ _ _ _ hg with h1 | ⟨h1, _⟩
      · rcases push_get _ _ _ _ h1 with h2 | ⟨h2, _⟩
        · exact Or.inl ⟨gd, h2, hc⟩
        · right; subst h2
          exact ⟨.oqContent w.oqs.size, map_push_new _ _ _⟩
      · right
        have : g = w.guards.size + 1 := by rw [h1]; exact Array.size_push ..
        subst this
        exact ⟨.oqSpace w.oqs.size, map_push_new _ _ _⟩
  | @pq w cap _ ih =>
    refine cover_grow ih (fun d g hd => ?_) ?_
    · cases d <;> first | exact hd | exact map_push_old _ _ _ _ _ hd
    · intro g gd hg hc
      rcases push_get _ _ _ _ hg with h1 | ⟨h1, _⟩
      · rcases push_get _ _ _ _ h1 with h2 | ⟨h2, _⟩
        · exact Or.inl ⟨gd, h2, hc⟩
        · right; subst h2
          exact ⟨.pqContent w.pqs.size, map_push_new _ _ _⟩
      · right
        have : g = w.guards.size + 1 := by rw [h1]; exact Array.size_push ..
        subst this
        exact ⟨.pqSpace w.pqs.size, map_push_new _ _ _⟩
  | @cond w _ ih =>
    refine cover_grow ih (fun d g hd => by cases d <;> exact hd) ?_
    intro g gd hg hc
    rcases push_get _ _ _ _ hg with h1 | ⟨_, h2⟩
    · exact Or.inl ⟨gd, h1, hc⟩
    · rw [h2] at hc; cases hc
  | @proc w pr cmds _ _ ih =>
    exact cover_grow ih (fun d g hd => by cases d <;> exact hd) (fun g gd hg hc => Or.inl ⟨gd, hg, hc⟩)
  | @sub w g0 cg _ ih =>
    refine cover_grow ih (fun d g hd => by cases d <;> exact hd) ?_
    intro g gd hg hc
    simp only [S3.subscribe, Array.getElem?_modify] at hg
    split at hg
    · cases hx : w.guards[g]? with
      | none => rw [hx] at hg; cases hg
      | some gd0 =>
        rw [hx] at hg
        simp only [Option.map_some, Option.some.injEq] at hg
        exact Or.inl ⟨gd0, rfl, by rw [← hg] at hc; exact hc⟩
    · exact Or.inl ⟨gd, hg, hc⟩
  | @start w p _ ih =>
    have hst : Stat w (autostart w p) := by unfold S3.autostart; have h0 := Stat.refl w; stat
    exact ih.ofStat hst

theorem Built.gt {w : World} (h : Built w) : GT w := by
  intro e he hg
  have := (h.binv.pend e he).1
  rw [hg.1] at this; exact absurd this (by decide)

end CimbaModel.Sim.S3
