/-
  S2 — histories only grow (C14): resources; all five kinds together; the statement for one dispatched event.
-/
import CimbaModel.Sim.S2GrowPool

namespace CimbaModel.Sim
open CimbaModel CimbaModel.Event CimbaModel.Generated CimbaModel.KPQ
open CimbaModel.HashHeap (HTag Item Order HH)

theorem GRes.of_eq {wb w w' : World} (h : w'.res = w.res) (hn : w'.now = w.now) (hi : GRes wb w) : GRes wb w' := by
  unfold GRes; rw [h, hn]; exact hi

theorem GRes.grab {wb w : World} (r : Nat) (p : Pid) (h : GRes wb w) : GRes wb (grab w r p) := by
  refine ⟨by rw [← h.1]; simp, ?_⟩
  rw [grab_res]
  have := h.2
  split
  · rw [Array.set!_eq_setIfInBounds]; grow_close
  · exact this

theorem GRes.record {wb w : World} (r : Nat) (h : GRes wb w) : GRes wb (recordRes w r) := by
  refine ⟨by rw [← h.1]; simp, ?_⟩
  rw [recordRes_eq, h.1]
  exact GrowArr.genRecord _ h.2 r

theorem GRes.acquireStep {wb w : World} (p : Pid) (r : Nat) (h : GRes wb w) : GRes wb (acquireStep w p r).1 := by
  unfold Sim.acquireStep
  split
  · exact GRes.of_eq (by simp) (by simp) h
  · split
    · exact (h.grab r p).record r
    · exact GRes.of_eq (by simp) (by simp) h

theorem GRes.setRes {wb w : World} {r : Nat} {x : Res} (hx : w.res[r]? = some x) (y : Res) (hy : y.hist = x.hist)
    (h : GRes wb w) : GRes wb { w with res := w.res.set! r y } := by
  refine ⟨h.1, ?_⟩
  show GrowArr resOps wb.now wb.res (w.res.set! r y)
  rw [Array.set!_eq_setIfInBounds]
  exact GrowArr.set _ h.2 hx hy

theorem GRes.release {wb w : World} (p : Pid) (r : Nat) (h : GRes wb w) : GRes wb (execCmd w p (.release r)).1 := by
  simp only [execCmd]
  split
  · exact h
  · rename_i x hx
    split
    · exact h
    · have h1 : GRes wb (removeHeld w p (.res r)).1 := GRes.of_eq (by simp) (by simp) h
      have hx1 : (removeHeld w p (.res r)).1.res[r]? = some x := by
        rw [show (removeHeld w p (.res r)).1.res = w.res by simp]; exact hx
      exact GRes.of_eq (by simp) (by simp) ((h1.setRes hx1 { x with holder := none } rfl).record r)

theorem GRes.preempt {wb w : World} (p : Pid) (r : Nat) (h : GRes wb w) : GRes wb (execCmd w p (.preempt r)).1 := by
  simp only [execCmd]
  split
  · exact h
  · rename_i x hx
    split
    · exact h
    · split
      · exact (h.grab r p).record r
      · rename_i victim _
        split
        · -- removeHeld; cancelAwaiteds; holder := none; sched; grab
          refine GRes.grab r p (GRes.of_eq (w := { (cancelAwaiteds (removeHeld w victim (.res r)).1 victim) with
            res := (cancelAwaiteds (removeHeld w victim (.res r)).1 victim).res.modify r fun y => { y with holder := none } })
            (by simp) (by simp) ?_)
          have h1 : GRes wb (cancelAwaiteds (removeHeld w victim (.res r)).1 victim) := GRes.of_eq (by simp) (by simp) h
          generalize cancelAwaiteds (removeHeld w victim (.res r)).1 victim = X at h1 ⊢
          refine ⟨?_, ?_⟩
          · show X.now = wb.now
            exact h1.1
          · show GrowArr resOps wb.now wb.res (X.res.modify r fun y => { y with holder := none })
            exact GrowArr.modify _ h1.2 r (fun _ => rfl)
        · exact GRes.acquireStep _ _ h

theorem GRes.dropResources {wb w : World} (p : Pid) (h : GRes wb w) : GRes wb (dropResources w p) := by
  unfold Sim.dropResources
  dsimp only
  have h0 : GRes wb (w.modProc p fun x => { x with held := [] }) := GRes.of_eq (by simp) (by simp) h
  generalize (w.modProc p fun x => { x with held := [] }) = w1 at h0
  generalize (w.proc p).held = hs
  induction hs generalizing w1 with
  | nil => exact h0
  | cons a rest ih =>
    rw [List.foldl_cons]
    apply ih
    cases a with
    | res r =>
      dsimp only
      split
      · rename_i x hx
        exact GRes.of_eq (by simp) (by simp) ((h0.setRes hx { x with holder := none } rfl).record r)
      · exact h0
    | pool pl => exact GRes.of_eq (by simp) (by simp) h0

theorem GRes.finishProc {wb w : World} (p : Pid) (v : Int) (st : Bool) (h : GRes wb w) : GRes wb (finishProc w p v st) := by
  unfold Sim.finishProc
  dsimp only
  have h1 : GRes wb (if st = true then Sim.dropResources (cancelAwaiteds w p) p else cancelAwaiteds (Sim.dropResources w p) p) := by
    split
    · exact GRes.dropResources _ (GRes.of_eq (by simp) (by simp) h)
    · exact GRes.of_eq (by simp) (by simp) (GRes.dropResources p h)
  exact GRes.of_eq (by simp) (by simp) h1

theorem GRes.setRecording {wb w : World} (kind idx : Nat) (on : Bool) (h : GRes wb w) : GRes wb (setRecording w kind idx on) := by
  by_cases hk : kind = 0
  · subst hk
    obtain ⟨hn, h⟩ := h
    refine ⟨by rw [← hn]; exact (setRecording_fp w 0 idx on).2.2.2.2.2.1, ?_⟩
    unfold Sim.setRecording
    dsimp only
    split
    · show GrowArr resOps wb.now wb.res (recordRes { w with res := w.res.modify idx fun x => { x with recording := on } } idx).res
      rw [recordRes_eq]
      simp [hn]
      grow_close
    · show GrowArr resOps wb.now wb.res ((recordRes w idx).res.modify idx fun x => { x with recording := on })
      rw [recordRes_eq]
      simp [hn]
      grow_close
  · have hf := setRecording_fp w kind idx on
    refine GRes.of_eq (hf.1 ?_) hf.2.2.2.2.2.1 h
    unfold recMask
    split <;> simp_all

theorem GRes.core (wb : World) : PreservedCore (GRes wb) where
  same hs h := GRes.of_eq hs.1 hs.2.2.2.2.2.1 h
  finish w p v st h := GRes.finishProc _ _ _ h
  clear w p f _ _ _ h := GRes.of_eq (by simp) (by simp) h
  exec w p c _ h := by
    by_cases hm : (cmdMask c).res = false
    · exact GRes.of_eq ((execCmd_fp w p c).1 hm) (execCmd_fp w p c).2.2.2.2.2.1 h
    · cases c <;> simp [cmdMask] at hm
      case stop q val =>
        simp only [execCmd]
        split
        · exact GRes.finishProc _ _ _ h
        · split
          · exact GRes.finishProc _ _ _ h
          · exact h
      case exit val => simp only [execCmd]; exact GRes.finishProc _ _ _ h
      case acquire r => simp only [execCmd]; exact GRes.acquireStep _ _ h
      case preempt r => exact GRes.preempt _ _ h
      case release r => exact GRes.release _ _ h
      case recStart kind idx => exact GRes.setRecording _ _ _ h
      case recStop kind idx => exact GRes.setRecording _ _ _ h
  resume w p f sig _ _ h := by
    by_cases hm : (frameMask f).res = false
    · exact GRes.of_eq ((resumeFrame_fp w p f sig).1 hm) (resumeFrame_fp w p f sig).2.2.2.2.2.1 h
    · cases f <;> simp [frameMask] at hm
      case acquire r =>
        simp only [resumeFrame]
        split
        · exact h
        · split
          · exact GRes.acquireStep _ _ (GRes.of_eq (by simp) (by simp) h)
          · exact GRes.of_eq (by simp) (by simp) h

/-! ### all five kinds; one dispatched event -/

theorem PreservedCore.and {I J : World → Prop} (hI : PreservedCore I) (hJ : PreservedCore J) :
    PreservedCore (fun w => I w ∧ J w) where
  same hs h := ⟨hI.same hs h.1, hJ.same hs h.2⟩
  exec w p c hv h := ⟨hI.exec w p c hv h.1, hJ.exec w p c hv h.2⟩
  resume w p f sig hv hfr h := by
    obtain ⟨w0, h0, hb, e⟩ := hfr
    exact ⟨hI.resume w p f sig hv ⟨w0, h0.1, hb, e⟩ h.1, hJ.resume w p f sig hv ⟨w0, h0.2, hb, e⟩ h.2⟩
  finish w p v st h := ⟨hI.finish w p v st h.1, hJ.finish w p v st h.2⟩
  clear w p f hf hb hp h := ⟨hI.clear w p f hf hb hp h.1, hJ.clear w p f hf hb hp h.2⟩

/-- the histories of all recordable objects of `w` extend those of `wb` by samples taken at `wb.now`, and the clock has
    not moved -/
def GrowAll (wb w : World) : Prop :=
  GRes wb w ∧ GPool wb w ∧ GBuf wb w ∧ GOQ wb w ∧ GPQ wb w

theorem GrowAll.core (wb : World) : PreservedCore (GrowAll wb) :=
  (GRes.core wb).and ((GPool.core wb).and ((GBuf.core wb).and ((GOQ.core wb).and (GPQ.core wb))))

theorem GrowAll.refl (w : World) : GrowAll w w :=
  ⟨⟨rfl, GrowArr.refl _ _ _⟩, ⟨rfl, GrowArr.refl _ _ _⟩, ⟨rfl, GrowArr.refl _ _ _⟩, ⟨rfl, GrowArr.refl _ _ _⟩,
    ⟨rfl, GrowArr.refl _ _ _⟩⟩

/-- **one dispatched event only appends to the histories, and every sample it appends carries the time of that event**:
    `w1` is the state right after the clock has been advanced to the event's time -/
theorem dispatch_grows {w w' : World} {t : HTag} {ev' : EvQ} (hex : executeNext w.ev = some (t, ev'))
    (hd : dispatch w = some w') :
    GrowAll { w with ev := ev', dispatched := w.dispatched + 1 } w' :=
  (GrowAll.core _).afterTick hex (GrowAll.refl _) hd

end CimbaModel.Sim
