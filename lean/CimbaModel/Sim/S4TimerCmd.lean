/-
  S4 — the strong timer invariant, part 4: commands and resumptions.
-/
import CimbaModel.Sim.S4TimerReg

namespace CimbaModel.Sim.S4
open CimbaModel CimbaModel.Sim CimbaModel.Sim.S3 CimbaModel.Event CimbaModel.Generated CimbaModel.KPQ
open CimbaModel.HashHeap (HTag Item Order HH WF abs liveTags)

/-- frames that mention neither a handle nor a variable -/
def FrameTriv : Frame → Bool
  | .hold _ => false
  | .pqPut _ _ _ _ => false
  | _ => true

theorem FrameOk.ofTriv {w : World} {p : Pid} {f : Frame} (h : FrameTriv f = true) : FrameOk w p f := by
  cases f <;> first | trivial | cases h

variable {fr : Bool} {w : World} {p : Pid}

theorem TX.block_triv (h : TX fr w) (p : Pid) (f : Frame) (hf : FrameTriv f = true) : TX fr (block w p f).1 :=
  h.block_fst p f (fun _ => FrameOk.ofTriv hf)

theorem TX.block_pq (h : TX fr w) (p : Pid) (k obj : Nat) (pri : Int) (v : Nat) (hv : 4 ≤ v ∧ v < 8) :
    TX fr (block w p (.pqPut k obj pri v)).1 :=
  h.block_fst p _ (fun _ => hv)

macro_rules | `(tactic| tx_step) => `(tactic| with_reducible apply TX.poolMug_fst)
macro_rules | `(tactic| tx_step) => `(tactic| ((with_reducible (refine TX.block_triv ?_ _ _ ?hft)); (case hft => exact rfl)))
macro_rules | `(tactic| tx_step) => `(tactic| (with_reducible refine TX.block_pq ?_ _ _ _ _ _ (by assumption)))
macro_rules | `(tactic| tx_step) => `(tactic| (with_reducible refine TX.addAwait_other ?_ _ _ rfl))

theorem TX.acquireStep_fst (h : TX fr w) (r : Nat) : TX fr (acquireStep w p r).1 := by
  simp only [Sim.acquireStep]; tx
theorem TX.poolLoop_fst (h : TX fr w) (pl rem ini : Nat) (pre : Bool) : TX fr (poolLoop w p pl rem ini pre).1 := by
  simp only [Sim.poolLoop]; tx
theorem TX.bufGetLoop_fst (h : TX fr w) (b rem got : Nat) : TX fr (bufGetLoop w p b rem got).1 := by
  simp only [Sim.bufGetLoop]; tx
theorem TX.bufPutLoop_fst (h : TX fr w) (b rem left : Nat) : TX fr (bufPutLoop w p b rem left).1 := by
  simp only [Sim.bufPutLoop]; tx
theorem TX.oqGetLoop_fst (h : TX fr w) (q : Nat) : TX fr (oqGetLoop w p q).1 := by
  simp only [Sim.oqGetLoop]; tx
theorem TX.oqPutLoop_fst (h : TX fr w) (q obj : Nat) : TX fr (oqPutLoop w p q obj).1 := by
  simp only [Sim.oqPutLoop]; tx
theorem TX.pqGetLoop_fst (h : TX fr w) (k : Nat) : TX fr (pqGetLoop w p k).1 := by
  simp only [Sim.pqGetLoop]; tx
theorem TX.pqPutLoop_fst (h : TX fr w) (k obj : Nat) (pri : Int) (v : Nat) (hv : 4 ≤ v ∧ v < 8) :
    TX fr (pqPutLoop w p k obj pri v).1 := by
  simp only [Sim.pqPutLoop]; tx
macro_rules | `(tactic| tx_step) => `(tactic| with_reducible apply TX.acquireStep_fst)
macro_rules | `(tactic| tx_step) => `(tactic| with_reducible apply TX.poolLoop_fst)
macro_rules | `(tactic| tx_step) => `(tactic| with_reducible apply TX.bufGetLoop_fst)
macro_rules | `(tactic| tx_step) => `(tactic| with_reducible apply TX.bufPutLoop_fst)
macro_rules | `(tactic| tx_step) => `(tactic| with_reducible apply TX.oqGetLoop_fst)
macro_rules | `(tactic| tx_step) => `(tactic| with_reducible apply TX.oqPutLoop_fst)
macro_rules | `(tactic| tx_step) => `(tactic| with_reducible apply TX.pqGetLoop_fst)
macro_rules | `(tactic| tx_step) => `(tactic| (with_reducible refine TX.pqPutLoop_fst ?_ _ _ _ _ (by assumption)))

/-- arming a timer and storing its handle in a timer variable -/
theorem TX.timerAddVar (h : TX fr w) (p : Pid) (v : Nat) (d sig : Int) (hd : 0 ≤ d) (hv : v < 4) :
    TX fr (Sim.setVar (timerAdd w p d sig).1 p v (timerAdd w p d sig).2) :=
  (h.timerAdd_fst p d sig hd).setVar p v _ (fun _ => timerAdd_handle h.ei p d sig hd) (fun h8 => absurd h8 (by omega))

/-- every command of a valid program keeps `TX` -/
theorem TX.execCmd_fst (h : TX fr w) (hnd : ((timeAw w p).filter (· ≠ .time 0)).Nodup) (c : Cmd)
    (hd : DurOk c) (hv : VarsOk c) : TX fr (execCmd w p c).1 := by
  cases c with
  | hold d =>
    have hd' : 0 ≤ d := hd
    simp only [Sim.execCmd]
    exact (h.timerAdd_fst p d _ hd').block_fst p _ (fun _ => timerAdd_handle h.ei p d _ hd')
  | timerAdd v d sig =>
    simp only [Sim.execCmd]
    exact h.timerAddVar p v d sig hd hv
  | timerSet v d sig =>
    simp only [Sim.execCmd]
    exact (h.timersClear p).timerAddVar p v d sig hd hv
  | timerAddOf q d sig =>
    simp only [Sim.execCmd]
    split
    · exact h
    · exact h.timerAdd_fst q d sig hd
  | timerCancel v =>
    have hv' : v < 4 := hv
    simp only [Sim.execCmd]
    split
    · exact h
    · refine h.timerCancel_fst p _ hnd ?_
      intro e he hk _
      have hg : getVar w p v = (w.proc p).vars.getD v 0 := by
        unfold getVar; rw [if_neg (by omega)]
      exact ((h.vi.tv p v hv').2 e he (hk.trans hg)).2
  | cancelUser v =>
    have hv' : 8 ≤ v := hv
    simp only [Sim.execCmd]
    split
    · exact h
    · refine h.evCancel_fst _ ?_
      intro q hq
      obtain ⟨e, he, h1, h2, _⟩ := h.tl q _ hq
      have hg : getVar w p v = w.gvars.getD v 0 := by
        unfold getVar; rw [if_pos hv']
      have := (h.vi.uv v hv').2 e he (h1.trans hg)
      rw [h2] at this; exact absurd this (by decide)
  | schedUser v d pri =>
    have hd' : 0 ≤ d := hd
    have hv' : 8 ≤ v := hv
    simp only [Sim.execCmd]
    rw [sched_ge w aUser 0 0 (w.now + d) pri (by omega)]
    refine (h.pushEv aUser 0 0 (w.now + d) pri (by omega)).setVar p v _ (fun h4 => absurd h4 (by omega)) (fun _ => ⟨Nat.le_refl _, ?_⟩)
    intro e he hk
    have he' : e ∈ mkEv (w.ev.counter + 1) aUser 0 0 (w.now + d) pri :: w.ev.pending := he
    rcases List.mem_cons.1 he' with h1 | h1
    · rw [h1]; rfl
    · have := EvInv.key_le h.ei h1
      omega
  | pqPut k obj pri v =>
    have hv' : 4 ≤ v ∧ v < 8 := hv
    simp only [Sim.execCmd]; tx
  | prioSet q v =>
    by_cases hq : q < w.procs.size
    · rw [prioSet_eq w p q v hq]
      dsimp only
      refine TX.foldl (fun w x h => h.prioHeldStep q v x) _ ?_
      refine TX.foldl (fun w x h => h.prioAwaitStep q v x) _ ?_
      tx
    · have : q ≥ w.procs.size := Nat.le_of_not_lt hq
      simp only [Sim.execCmd, this, if_true]
      exact h
  | _ => simp only [Sim.execCmd] <;> tx

/-- every resumption of a suspended call keeps `TX`, provided the handle of a `hold` frame names (if a timer at all) a
    timer of the resumed process and the variable of a `priority_queue_put` frame is a priority-queue variable -/
theorem TX.resumeFrame_fst (h : TX fr w) (hnd : ((timeAw w p).filter (· ≠ .time 0)).Nodup) (f : Frame) (sig : Int)
    (hh : ∀ k, f = .hold k → ∀ e ∈ w.ev.pending, e.key = k → e.item.a = aTime → e.item.b = p + 1)
    (hq : ∀ k obj pri v, f = .pqPut k obj pri v → 4 ≤ v ∧ v < 8) : TX fr (resumeFrame w p f sig).1 := by
  cases f with
  | hold k =>
    simp only [Sim.resumeFrame]
    split
    · exact (h.timerCancel_fst p k hnd (hh k rfl)).removeAwait_fst p _
    · exact h
  | pqPut k obj pri v =>
    have hv' : 4 ≤ v ∧ v < 8 := hq k obj pri v rfl
    simp only [Sim.resumeFrame]; tx
  | _ => simp only [Sim.resumeFrame] <;> tx

end CimbaModel.Sim.S4
