/-
  S2 — recorded histories (C14): the five kinds of recordable objects, their `record*` functions as instances of
  the generic `record`, and the invariant in every reachable state.
-/
import CimbaModel.Sim.S2Hist
import CimbaModel.Sim.S2Dispatch
import CimbaModel.Sim.S2HH
import CimbaModel.Event.Lemmas

namespace CimbaModel.Sim
open CimbaModel CimbaModel.Event CimbaModel.Generated CimbaModel.KPQ
open CimbaModel.HashHeap (HTag Item Order HH)

/-! ### the clock -/

theorem timeOk_tick {q q' : EvQ} {t : HTag} (hq : TimeOk q) (he : executeNext q = some (t, q')) :
    TimeOk q' ∧ q.now ≤ q'.now := by
  unfold executeNext at he
  split at he
  · cases he
  · rename_i m hm
    simp only [Option.some.injEq, Prod.mk.injEq] at he
    obtain ⟨rfl, rfl⟩ := he
    obtain ⟨hmem, hmin⟩ := minTag_spec hm
    refine ⟨?_, hq _ hmem⟩
    intro x hx
    simp only [KPQ.remove, List.mem_filter] at hx
    have hx1 := hmin x hx.1
    have : ¬ HashHeap.SpecOrders.eventLt x m := by
      intro hc
      rw [← CimbaModel.HashHeap.Orders.heap_order_check_iff] at hc
      rw [hx1] at hc; cases hc
    unfold HashHeap.SpecOrders.eventLt at this
    show m.d ≤ x.d
    omega

/-- a predicate that only needs the clock not to run backwards: together with "nothing pending in the past" it is
    preserved as soon as the commands, resumptions and process ends preserve it -/
theorem Preserved.withTime {J : World → Prop}
    (same : ∀ {w w'}, Same w w' → J w → J w')
    (mono : ∀ {w : World} (ev' : EvQ) (n : Nat), w.ev.now ≤ ev'.now → J w → J { w with ev := ev', dispatched := n })
    (exec : ∀ w p c, J w → J (execCmd w p c).1)
    (resume : ∀ w p f sig, J w → J (resumeFrame w p f sig).1)
    (finish : ∀ w p v st, J w → J (finishProc w p v st))
    (clear : ∀ w p (f : Proc → Proc), J w → J (w.modProc p f)) :
    Preserved (fun w => TimeOk w.ev ∧ J w) where
  clear w p f _ _ _ h := ⟨h.1, clear w p f h.2⟩
  same hs h := ⟨hs.2.2.2.2.2.2.1 h.1, same hs h.2⟩
  tick he h := ⟨(timeOk_tick h.1 he).1, mono _ _ (timeOk_tick h.1 he).2 h.2⟩
  exec w p c _ h := ⟨(execCmd_fp w p c).2.2.2.2.2.2.1 h.1, exec w p c h.2⟩
  resume w p f sig _ _ h := ⟨(resumeFrame_fp w p f sig).2.2.2.2.2.2.1 h.1, resume w p f sig h.2⟩
  finish w p v st h := ⟨(finishProc_fp w p v st).2.2.2.2.2.2.1 h.1, finish w p v st h.2⟩

/-! ### the five kinds -/

def resOps : RecOps Res where
  recording x := x.recording
  hist x := x.hist
  val x := if x.holder.isSome then 1 else 0
  push x s := { x with hist := x.hist.push s }
  push_rec _ _ := rfl
  push_hist _ _ := rfl
  push_val _ _ := rfl

def poolOps : RecOps Pool where
  recording x := x.recording
  hist x := x.hist
  val x := (x.inUse : Int)
  push x s := { x with hist := x.hist.push s }
  push_rec _ _ := rfl
  push_hist _ _ := rfl
  push_val _ _ := rfl

def bufOps : RecOps Buf where
  recording x := x.recording
  hist x := x.hist
  val x := (x.level : Int)
  push x s := { x with hist := x.hist.push s }
  push_rec _ _ := rfl
  push_hist _ _ := rfl
  push_val _ _ := rfl

def oqOps : RecOps OQ where
  recording x := x.recording
  hist x := x.hist
  val x := (x.items.length : Int)
  push x s := { x with hist := x.hist.push s }
  push_rec _ _ := rfl
  push_hist _ _ := rfl
  push_val _ _ := rfl

def pqOps : RecOps PQ where
  recording x := x.recording
  hist x := x.hist
  val x := (x.queue.count : Int)
  push x s := { x with hist := x.hist.push s }
  push_rec _ _ := rfl
  push_hist _ _ := rfl
  push_val _ _ := rfl

theorem recordRes_eq (w : World) (i : Nat) : (recordRes w i).res = genRecord resOps w.res i w.now := by
  unfold recordRes genRecord
  cases h : w.res[i]? with
  | none => rfl
  | some x =>
    dsimp only
    by_cases hr : x.recording = true
    · rw [if_pos hr, if_pos (show resOps.recording x = true from hr)]; rfl
    · rw [if_neg hr, if_neg (show ¬ resOps.recording x = true from hr)]
theorem recordPool_eq (w : World) (i : Nat) : (recordPool w i).pools = genRecord poolOps w.pools i w.now := by
  unfold recordPool genRecord
  cases h : w.pools[i]? with
  | none => rfl
  | some x =>
    dsimp only
    by_cases hr : x.recording = true
    · rw [if_pos hr, if_pos (show poolOps.recording x = true from hr)]; rfl
    · rw [if_neg hr, if_neg (show ¬ poolOps.recording x = true from hr)]
theorem recordBuf_eq (w : World) (i : Nat) : (recordBuf w i).bufs = genRecord bufOps w.bufs i w.now := by
  unfold recordBuf genRecord
  cases h : w.bufs[i]? with
  | none => rfl
  | some x =>
    dsimp only
    by_cases hr : x.recording = true
    · rw [if_pos hr, if_pos (show bufOps.recording x = true from hr)]; rfl
    · rw [if_neg hr, if_neg (show ¬ bufOps.recording x = true from hr)]
theorem recordOQ_eq (w : World) (i : Nat) : (recordOQ w i).oqs = genRecord oqOps w.oqs i w.now := by
  unfold recordOQ genRecord
  cases h : w.oqs[i]? with
  | none => rfl
  | some x =>
    dsimp only
    by_cases hr : x.recording = true
    · rw [if_pos hr, if_pos (show oqOps.recording x = true from hr)]; rfl
    · rw [if_neg hr, if_neg (show ¬ oqOps.recording x = true from hr)]
theorem recordPQ_eq (w : World) (i : Nat) : (recordPQ w i).pqs = genRecord pqOps w.pqs i w.now := by
  unfold recordPQ genRecord
  cases h : w.pqs[i]? with
  | none => rfl
  | some x =>
    dsimp only
    by_cases hr : x.recording = true
    · rw [if_pos hr, if_pos (show pqOps.recording x = true from hr)]; rfl
    · rw [if_neg hr, if_neg (show ¬ pqOps.recording x = true from hr)]

def HistRes (w : World) : Prop := ArrAll (RecOK resOps w.now) w.res
def HistPool (w : World) : Prop := ArrAll (RecOK poolOps w.now) w.pools
def HistBuf (w : World) : Prop := ArrAll (RecOK bufOps w.now) w.bufs
def HistOQ (w : World) : Prop := ArrAll (RecOK oqOps w.now) w.oqs
def HistPQ (w : World) : Prop := ArrAll (RecOK pqOps w.now) w.pqs

/-! ### buffers -/

theorem HistBuf.of_eq {w w' : World} (h : w'.bufs = w.bufs) (hn : w'.now = w.now) (hi : HistBuf w) : HistBuf w' := by
  unfold HistBuf; rw [h, hn]; exact hi

theorem HistBuf.bufGetLoop {w : World} (p : Pid) (b rem got : Nat) (h : HistBuf w) : HistBuf (bufGetLoop w p b rem got).1 := by
  unfold HistBuf at *
  unfold Sim.bufGetLoop
  split
  · simpa using h
  · rename_i x hx
    split
    · (repeat' split) <;> simp [recordBuf_eq] <;>
        exact genRecord_restores _ (OKexc.set _ (OKexc.of_all _ h b) hx rfl)
    · split
      rename_i heq
      split at heq <;> cases heq <;> simp [recordBuf_eq]
      · exact genRecord_restores _ (OKexc.set _ (OKexc.of_all _ h b) hx rfl)
      · exact h

theorem HistBuf.bufPutLoop {w : World} (p : Pid) (b rem left : Nat) (h : HistBuf w) : HistBuf (bufPutLoop w p b rem left).1 := by
  unfold HistBuf at *
  unfold Sim.bufPutLoop
  split
  · simpa using h
  · rename_i x hx
    split
    · (repeat' split) <;> simp [recordBuf_eq] <;>
        exact genRecord_restores _ (OKexc.set _ (OKexc.of_all _ h b) hx rfl)
    · split
      rename_i heq
      split at heq <;> cases heq <;> simp [recordBuf_eq]
      · exact genRecord_restores _ (OKexc.set _ (OKexc.of_all _ h b) hx rfl)
      · exact h

theorem HistBuf.setRecording {w : World} (kind idx : Nat) (on : Bool) (h : HistBuf w) : HistBuf (setRecording w kind idx on) := by
  by_cases hk : kind = 2
  · subst hk
    unfold HistBuf at *
    unfold Sim.setRecording
    dsimp only
    split
    · show ArrAll (RecOK bufOps (recordBuf { w with bufs := w.bufs.modify idx fun x => { x with recording := on } } idx).now)
        (recordBuf { w with bufs := w.bufs.modify idx fun x => { x with recording := on } } idx).bufs
      rw [recordBuf_eq]
      simp
      exact genRecord_restores _ (OKexc.modify_flag _ h (fun _ => rfl))
    · rename_i hon
      show ArrAll (RecOK bufOps (recordBuf w idx).now) ((recordBuf w idx).bufs.modify idx fun x => { x with recording := on })
      rw [recordBuf_eq]
      simp
      exact RecOK.modify_off _ (genRecord_ok _ h idx) (fun x => by simpa [bufOps] using hon) (fun _ => rfl)
  · have hf := setRecording_fp w kind idx on
    refine HistBuf.of_eq (hf.2.2.1 ?_) hf.2.2.2.2.2.1 h
    unfold recMask
    split <;> simp_all

theorem HistBuf.preserved : Preserved (fun w => TimeOk w.ev ∧ HistBuf w) := by
  refine Preserved.withTime (fun hs h => HistBuf.of_eq hs.2.2.1 hs.2.2.2.2.2.1 h) ?_ ?_ ?_ ?_
    (fun w p f h => HistBuf.of_eq (by simp) (by simp) h)
  · intro w ev' n hle h
    exact ArrAll.mono h (fun x ok => ok.mono _ hle)
  · intro w p c h
    by_cases hm : (cmdMask c).bufs = false
    · exact HistBuf.of_eq ((execCmd_fp w p c).2.2.1 hm) (execCmd_fp w p c).2.2.2.2.2.1 h
    · cases c <;> simp [cmdMask] at hm
      case bufGet b n => simp only [execCmd]; split; exact h; exact HistBuf.bufGetLoop _ _ _ _ h
      case bufPut b n => simp only [execCmd]; split; exact h; exact HistBuf.bufPutLoop _ _ _ _ h
      case recStart kind idx => exact HistBuf.setRecording _ _ _ h
      case recStop kind idx => exact HistBuf.setRecording _ _ _ h
  · intro w p f sig h
    by_cases hm : (frameMask f).bufs = false
    · exact HistBuf.of_eq ((resumeFrame_fp w p f sig).2.2.1 hm) (resumeFrame_fp w p f sig).2.2.2.2.2.1 h
    · cases f <;> simp [frameMask] at hm
      case bufGet b rem got =>
        simp only [resumeFrame]
        split
        · exact h
        · split
          · exact HistBuf.bufGetLoop _ _ _ _ (HistBuf.of_eq (by simp) (by simp) h)
          · exact HistBuf.of_eq (by simp) (by simp) h
      case bufPut b rem left =>
        simp only [resumeFrame]
        split
        · exact h
        · split
          · exact HistBuf.bufPutLoop _ _ _ _ (HistBuf.of_eq (by simp) (by simp) h)
          · exact HistBuf.of_eq (by simp) (by simp) h
  · intro w p v st h
    exact HistBuf.of_eq (by simp) (by simp) h

end CimbaModel.Sim
