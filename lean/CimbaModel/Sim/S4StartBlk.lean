/-
  S4 — `RunBlocked` (between dispatches every running process is suspended in some call) is preserved by `dispatch`
  (fault "resume of a process that is not suspended"), and the script fuel is never exhausted.

  * `RBo p w`: the invariant for every process other than the executing one; kept by every command / resumed call of `p`;
  * `Out p r`: what the outcome of a command / resumed call says about `p` itself: `.blocked` ⇒ a frame is recorded,
    `.ended` ⇒ `p` is not running any more;  `RetOrBlk r`: a resumed call never skips and never ends the process;
  * the measure `script.size - pc` decreases with every command that returns, so `runScript` with enough fuel never
    reaches its `fuel = 0` branch: `runScript_fuel_succ`, `runScript_fuel_irrel`.
-/
import CimbaModel.Sim.S4StartRun

namespace CimbaModel.Sim.S4
open CimbaModel CimbaModel.Sim CimbaModel.Event CimbaModel.Generated
open CimbaModel.HashHeap (HTag Item Order HH)

/-- every running process other than `p` is suspended -/
def RBo (p : Pid) (w : World) : Prop := ∀ q, q ≠ p → (w.proc q).status = .running → (w.proc q).blocked ≠ none

theorem RunBlocked.rbo {w : World} (h : RunBlocked w) (p : Pid) : RBo p w := fun q _ hq => h q hq

theorem RBo.close {p : Pid} {w : World} (h : RBo p w) (hp : (w.proc p).status = .running → (w.proc p).blocked ≠ none) :
    RunBlocked w := by
  intro q hq
  by_cases e : q = p
  · subst e; exact hp hq
  · exact h q e hq

/-- nobody else has become running, and the others that still run have kept their frame -/
theorem RBo.of_keep {p : Pid} {w w' : World} (h : RBo p w)
    (hk : ∀ q, q ≠ p → (w'.proc q).status = .running →
      (w.proc q).status = .running ∧ (w'.proc q).blocked = (w.proc q).blocked) : RBo p w' := by
  intro q hq hr
  obtain ⟨a, b⟩ := hk q hq hr
  rw [b]; exact h q hq a

theorem RBo.of_same {p : Pid} {w w' : World} (h : RBo p w) (hp : ∀ q, q ≠ p → w'.proc q = w.proc q) : RBo p w' :=
  h.of_keep (fun q hq hr => by rw [hp q hq] at hr ⊢; exact ⟨hr, rfl⟩)

theorem RunBlocked.of_same {w w' : World} (h : RunBlocked w)
    (hp : ∀ q, (w'.proc q).status = (w.proc q).status ∧ (w'.proc q).blocked = (w.proc q).blocked) : RunBlocked w' := by
  intro q hq
  rw [(hp q).2]; exact h q (by rw [← (hp q).1]; exact hq)

theorem RBo.emit {p : Pid} {w : World} (h : RBo p w) (l : String) : RBo p (w.emit l) := h.of_same (fun q _ => by simp)

/-- any modification of the executing process itself -/
theorem RBo.modSelf {p : Pid} {w : World} (h : RBo p w) (f : Proc → Proc) : RBo p (w.modProc p f) :=
  h.of_same (fun _ hq => proc_modProc_ne _ _ _ _ hq)

/-! ### the other processes -/

set_option maxHeartbeats 1000000 in
/-- a command of `p` other than `stop` / `exit` leaves the recorded frame of every other process alone -/
theorem execCmd_blocked_ne (w : World) (p : Pid) (c : Cmd) (z : Pid) (hz : z ≠ p)
    (h1 : ∀ q v, c ≠ .stop q v) (h2 : ∀ v, c ≠ .exit v) :
    ((execCmd w p c).1.proc z).blocked = (w.proc z).blocked := by
  cases c
  case stop q v => exact absurd rfl (h1 q v)
  case exit v => exact absurd rfl (h2 v)
  case prioSet q v => exact prioSet_blocked w p q v z
  all_goals simp only [execCmd]
  all_goals wait_close hz

set_option maxHeartbeats 1000000 in
/-- a resumed call of `p` leaves the recorded frame of every other process alone -/
theorem resumeFrame_blocked_ne (w : World) (p : Pid) (f : Frame) (sig : Int) (z : Pid) (hz : z ≠ p) :
    ((resumeFrame w p f sig).1.proc z).blocked = (w.proc z).blocked := by
  cases f
  all_goals simp only [resumeFrame]
  all_goals wait_close hz

/-- the end of `z` leaves the recorded frame of every other process alone -/
theorem finishProc_blocked_ne (w : World) (z : Pid) (val : Int) (stopped : Bool) (q : Pid) (hq : q ≠ z) :
    ((finishProc w z val stopped).proc q).blocked = (w.proc q).blocked := by
  rw [Sim.finishProc_eq, proc_modProc_ne _ _ _ _ hq]
  unfold finishMid; split <;> simp

/-- after its end a process is not running -/
theorem finishProc_self_not_running (w : World) (z : Pid) (val : Int) (stopped : Bool) :
    ((finishProc w z val stopped).proc z).status ≠ .running := by
  rw [finishProc_status]
  split
  · decide
  · rename_i hn
    have : ¬ z < w.procs.size := fun hlt => hn ⟨rfl, hlt⟩
    rw [proc_oob w z this]; decide

theorem rbo_finishProc {p : Pid} {w : World} (h : RBo p w) (z : Pid) (val : Int) (stopped : Bool) :
    RBo p (finishProc w z val stopped) := by
  refine h.of_keep (fun q _ hr => ?_)
  by_cases e : q = z
  · subst e; exact absurd hr (finishProc_self_not_running w q val stopped)
  · exact ⟨finishProc_run_mono w z val stopped q hr, finishProc_blocked_ne w z val stopped q e⟩

/-- **every command of `p` keeps the other running processes suspended** -/
theorem rbo_execCmd {p : Pid} {w : World} (h : RBo p w) (c : Cmd) : RBo p (execCmd w p c).1 := by
  by_cases h1 : ∃ z v, c = .stop z v
  · obtain ⟨z, v, rfl⟩ := h1
    simp only [execCmd]
    split
    · exact rbo_finishProc h p v true
    · split
      · exact rbo_finishProc h z v true
      · exact h
  by_cases h2 : ∃ v, c = .exit v
  · obtain ⟨v, rfl⟩ := h2
    exact rbo_finishProc h p v false
  refine h.of_keep (fun q hq hr => ⟨?_, ?_⟩)
  · rw [execCmd_status w p c q (fun z v e => h1 ⟨z, v, e⟩) (fun v e => h2 ⟨v, e⟩)] at hr; exact hr
  · exact execCmd_blocked_ne w p c q hq (fun z v e => h1 ⟨z, v, e⟩) (fun v e => h2 ⟨v, e⟩)

theorem rbo_resumeFrame {p : Pid} {w : World} (h : RBo p w) (f : Frame) (sig : Int) : RBo p (resumeFrame w p f sig).1 :=
  h.of_keep (fun q hq hr => ⟨by rw [resumeFrame_status] at hr; exact hr, resumeFrame_blocked_ne w p f sig q hq⟩)

/-! ### the executing process: what the outcome says -/

/-- `.blocked`: a frame is recorded (if the process exists); `.ended`: the process is not running any more -/
def Out (p : Pid) (r : World × Outcome) : Prop :=
  (r.2 = .blocked → (r.1.proc p).status = .running → (r.1.proc p).blocked ≠ none) ∧
  (r.2 = .ended → (r.1.proc p).status ≠ .running)

theorem Out.ret {p : Pid} (w : World) (v : Int) (e : String) : Out p (w, .ret v e) :=
  ⟨fun h => (by cases h), fun h => (by cases h)⟩
theorem Out.skip {p : Pid} (w : World) : Out p (w, .skip) := ⟨fun h => (by cases h), fun h => (by cases h)⟩
theorem Out.block {p : Pid} (w : World) (f : Frame) : Out p (Sim.block w p f) := by
  refine ⟨fun _ hr => ?_, fun h => (by cases h)⟩
  have hp : p < (Sim.block w p f).1.procs.size := lt_np_of_status _ p (by rw [hr]; decide)
  have hp' : p < w.procs.size := by simpa using hp
  rw [block_blocked]; simp [hp']
theorem Out.ended {p : Pid} (w : World) (v : Int) (s : Bool) : Out p (finishProc w p v s, .ended) :=
  ⟨fun h => (by cases h), fun _ => finishProc_self_not_running w p v s⟩

syntax "out_step" : tactic
macro_rules | `(tactic| out_step) => `(tactic| dsimp only)
macro_rules | `(tactic| out_step) => `(tactic| split)
macro_rules | `(tactic| out_step) => `(tactic| with_reducible apply Out.ended)
macro_rules | `(tactic| out_step) => `(tactic| with_reducible apply Out.block)
macro_rules | `(tactic| out_step) => `(tactic| with_reducible apply Out.skip)
macro_rules | `(tactic| out_step) => `(tactic| with_reducible apply Out.ret)
macro "outt" : tactic => `(tactic| repeat' out_step)

section
variable {p : Pid} (w : World)

theorem Out.acquireStep (r : Nat) : Out p (Sim.acquireStep w p r) := by simp only [Sim.acquireStep]; outt
macro_rules | `(tactic| out_step) => `(tactic| with_reducible apply Out.acquireStep)
theorem Out.poolLoop (pl rem ini : Nat) (pre : Bool) : Out p (Sim.poolLoop w p pl rem ini pre) := by
  simp only [Sim.poolLoop]; outt
macro_rules | `(tactic| out_step) => `(tactic| with_reducible apply Out.poolLoop)
theorem Out.bufGetLoop (b rem got : Nat) : Out p (Sim.bufGetLoop w p b rem got) := by simp only [Sim.bufGetLoop]; outt
macro_rules | `(tactic| out_step) => `(tactic| with_reducible apply Out.bufGetLoop)
theorem Out.bufPutLoop (b rem left : Nat) : Out p (Sim.bufPutLoop w p b rem left) := by simp only [Sim.bufPutLoop]; outt
macro_rules | `(tactic| out_step) => `(tactic| with_reducible apply Out.bufPutLoop)
theorem Out.oqGetLoop (k : Nat) : Out p (Sim.oqGetLoop w p k) := by simp only [Sim.oqGetLoop]; outt
macro_rules | `(tactic| out_step) => `(tactic| with_reducible apply Out.oqGetLoop)
theorem Out.oqPutLoop (k obj : Nat) : Out p (Sim.oqPutLoop w p k obj) := by simp only [Sim.oqPutLoop]; outt
macro_rules | `(tactic| out_step) => `(tactic| with_reducible apply Out.oqPutLoop)
theorem Out.pqGetLoop (k : Nat) : Out p (Sim.pqGetLoop w p k) := by simp only [Sim.pqGetLoop]; outt
macro_rules | `(tactic| out_step) => `(tactic| with_reducible apply Out.pqGetLoop)
theorem Out.pqPutLoop (k obj : Nat) (pri : Int) (v : Nat) : Out p (Sim.pqPutLoop w p k obj pri v) := by
  simp only [Sim.pqPutLoop]; outt
macro_rules | `(tactic| out_step) => `(tactic| with_reducible apply Out.pqPutLoop)

/-- **the outcome of a command**: `.blocked` ⇒ the frame is recorded, `.ended` ⇒ the caller is not running -/
theorem Out.execCmd (c : Cmd) : Out p (Sim.execCmd w p c) := by
  cases c <;> simp only [Sim.execCmd] <;> outt

/-- the same for a resumed call -/
theorem Out.resumeFrame (f : Frame) (sig : Int) : Out p (Sim.resumeFrame w p f sig) := by
  cases f <;> simp only [Sim.resumeFrame] <;> outt

end

/-- a resumed call returns or blocks again: it never skips, never ends the process -/
def RetOrBlk (r : World × Outcome) : Prop := r.2 ≠ .skip ∧ r.2 ≠ .ended

theorem RetOrBlk.ret (w : World) (v : Int) (e : String) : RetOrBlk (w, .ret v e) :=
  ⟨fun h => (by cases h), fun h => (by cases h)⟩
theorem RetOrBlk.block (w : World) (p : Pid) (f : Frame) : RetOrBlk (Sim.block w p f) :=
  ⟨fun h => (by cases h), fun h => (by cases h)⟩

syntax "rob_step" : tactic
macro_rules | `(tactic| rob_step) => `(tactic| dsimp only)
macro_rules | `(tactic| rob_step) => `(tactic| split)
macro_rules | `(tactic| rob_step) => `(tactic| with_reducible apply RetOrBlk.block)
macro_rules | `(tactic| rob_step) => `(tactic| with_reducible apply RetOrBlk.ret)
macro "robt" : tactic => `(tactic| repeat' rob_step)

section
variable (w : World) (p : Pid)
theorem RetOrBlk.acquireStep (r : Nat) : RetOrBlk (Sim.acquireStep w p r) := by simp only [Sim.acquireStep]; robt
macro_rules | `(tactic| rob_step) => `(tactic| with_reducible apply RetOrBlk.acquireStep)
theorem RetOrBlk.poolLoop (pl rem ini : Nat) (pre : Bool) : RetOrBlk (Sim.poolLoop w p pl rem ini pre) := by
  simp only [Sim.poolLoop]; robt
macro_rules | `(tactic| rob_step) => `(tactic| with_reducible apply RetOrBlk.poolLoop)
theorem RetOrBlk.bufGetLoop (b rem got : Nat) : RetOrBlk (Sim.bufGetLoop w p b rem got) := by simp only [Sim.bufGetLoop]; robt
macro_rules | `(tactic| rob_step) => `(tactic| with_reducible apply RetOrBlk.bufGetLoop)
theorem RetOrBlk.bufPutLoop (b rem left : Nat) : RetOrBlk (Sim.bufPutLoop w p b rem left) := by
  simp only [Sim.bufPutLoop]; robt
macro_rules | `(tactic| rob_step) => `(tactic| with_reducible apply RetOrBlk.bufPutLoop)
theorem RetOrBlk.oqGetLoop (k : Nat) : RetOrBlk (Sim.oqGetLoop w p k) := by simp only [Sim.oqGetLoop]; robt
macro_rules | `(tactic| rob_step) => `(tactic| with_reducible apply RetOrBlk.oqGetLoop)
theorem RetOrBlk.oqPutLoop (k obj : Nat) : RetOrBlk (Sim.oqPutLoop w p k obj) := by simp only [Sim.oqPutLoop]; robt
macro_rules | `(tactic| rob_step) => `(tactic| with_reducible apply RetOrBlk.oqPutLoop)
theorem RetOrBlk.pqGetLoop (k : Nat) : RetOrBlk (Sim.pqGetLoop w p k) := by simp only [Sim.pqGetLoop]; robt
macro_rules | `(tactic| rob_step) => `(tactic| with_reducible apply RetOrBlk.pqGetLoop)
theorem RetOrBlk.pqPutLoop (k obj : Nat) (pri : Int) (v : Nat) : RetOrBlk (Sim.pqPutLoop w p k obj pri v) := by
  simp only [Sim.pqPutLoop]; robt
macro_rules | `(tactic| rob_step) => `(tactic| with_reducible apply RetOrBlk.pqPutLoop)

/-- **`resumeFrame` never returns `.skip` or `.ended`** -/
theorem RetOrBlk.resumeFrame (f : Frame) (sig : Int) : RetOrBlk (Sim.resumeFrame w p f sig) := by
  cases f <;> simp only [Sim.resumeFrame] <;> robt
end

/-! ### the fuel -/

/-- the commands left in the script of `p` -/
def scriptLeft (w : World) (p : Pid) : Nat := (w.proc p).script.size - (w.proc p).pc

/-- after a command that returned the program counter has advanced and the script is the same -/
theorem scriptLeft_step {w w2 : World} {p : Pid} {c : Cmd × String}
    (hc : (w.proc p).script[(w.proc p).pc]? = some c) (hst : S3.Stat w w2) (l : String) {fuel : Nat}
    (hm : scriptLeft w p < fuel + 1) :
    scriptLeft ((w2.emit l).modProc p fun y => { y with pc := (w.proc p).pc + 1 }) p < fuel := by
  have hp : p < w.procs.size := lt_np_of_script w p _ _ hc
  have hp2 : p < (w2.emit l).procs.size := by
    show p < w2.procs.size
    rw [hst.psize]; exact hp
  have hlt : (w.proc p).pc < (w.proc p).script.size := by
    rcases Nat.lt_or_ge (w.proc p).pc (w.proc p).script.size with h | h
    · exact h
    · rw [Array.getElem?_eq_none h] at hc; cases hc
  unfold scriptLeft at hm ⊢
  rw [proc_modProc_self _ _ _ hp2]
  have hs : ((w2.emit l).proc p).script = (w.proc p).script := by
    have := hst.script p
    simpa using this
  dsimp only
  rw [hs]
  omega

theorem runScript_succ (fuel : Nat) (w : World) (p : Pid) :
    runScript (fuel + 1) w p =
      match (w.proc p).script[(w.proc p).pc]? with
      | none => finishProc (w.emit s!"e {p} {w.now} 0") p 0 false
      | some (c, text) =>
        match execCmd (w.emit s!"c {p} {(w.proc p).pc} {w.now} {text}") p c with
        | (w1, .ret v extra) =>
          runScript fuel ((w1.emit (s!"r {p} {(w.proc p).pc} {w1.now} {v}" ++ (if extra = "" then "" else " " ++ extra))).modProc p
            fun y => { y with pc := (w.proc p).pc + 1 }) p
        | (w1, .skip) =>
          runScript fuel ((w1.emit s!"s {p} {(w.proc p).pc} {w1.now}").modProc p fun y => { y with pc := (w.proc p).pc + 1 }) p
        | (w1, .blocked) => w1
        | (w1, .ended) =>
          match c with
          | .exit v => w1.emit s!"x {p} {w1.now} {v}"
          | _ => w1.emit s!"x {p} {w1.now} stop" := by
  rfl

/-- **the script fuel is never exhausted**: with more fuel than commands left, one more unit changes nothing -/
theorem runScript_fuel_succ : ∀ (fuel : Nat) (w : World) (p : Pid), scriptLeft w p < fuel →
    runScript fuel w p = runScript (fuel + 1) w p := by
  intro fuel
  induction fuel with
  | zero => intro w p h; exact absurd h (Nat.not_lt_zero _)
  | succ n ih =>
    intro w p hm
    rw [runScript_succ n, runScript_succ (n + 1)]
    split
    · rfl
    · rename_i c text hc
      have hst : S3.Stat w (execCmd (w.emit s!"c {p} {(w.proc p).pc} {w.now} {text}") p c).1 :=
        ((S3.Stat.refl w).emit _).execCmd_fst p c
      split
      · rename_i w1 v extra heq
        rw [heq] at hst
        exact ih _ p (scriptLeft_step hc hst _ hm)
      · rename_i w1 heq
        rw [heq] at hst
        exact ih _ p (scriptLeft_step hc hst _ hm)
      · rfl
      · rfl

/-- … so any two sufficient amounts of fuel give the same run -/
theorem runScript_fuel_irrel (w : World) (p : Pid) : ∀ (k fuel : Nat), scriptLeft w p < fuel →
    runScript fuel w p = runScript (fuel + k) w p := by
  intro k
  induction k with
  | zero => intro fuel _; rfl
  | succ k ih =>
    intro fuel h
    rw [ih fuel h, ← Nat.add_assoc]
    exact runScript_fuel_succ (fuel + k) w p (by omega)

/-- **induction principle for a script run with enough fuel** (the `fuel = 0` branch is never reached): `I` is an
    invariant of the worlds in which the next command is fetched, `Q` what is to be shown of the final world; the log
    lines are universally quantified so that the hypotheses do not mention the formatting -/
theorem runScript_induct (p : Pid) (I Q : World → Prop)
    (hfin : ∀ w l, I w → (w.proc p).script[(w.proc p).pc]? = none → Q (finishProc (w.emit l) p 0 false))
    (hret : ∀ w c text l0 w1 v extra l, I w → (w.proc p).script[(w.proc p).pc]? = some (c, text) →
      execCmd (w.emit l0) p c = (w1, .ret v extra) →
      I ((w1.emit l).modProc p fun y => { y with pc := (w.proc p).pc + 1 }))
    (hskip : ∀ w c text l0 w1 l, I w → (w.proc p).script[(w.proc p).pc]? = some (c, text) →
      execCmd (w.emit l0) p c = (w1, .skip) →
      I ((w1.emit l).modProc p fun y => { y with pc := (w.proc p).pc + 1 }))
    (hblk : ∀ w c text l0 w1, I w → (w.proc p).script[(w.proc p).pc]? = some (c, text) →
      execCmd (w.emit l0) p c = (w1, .blocked) → Q w1)
    (hended : ∀ w c text l0 w1 l, I w → (w.proc p).script[(w.proc p).pc]? = some (c, text) →
      execCmd (w.emit l0) p c = (w1, .ended) → Q (w1.emit l)) :
    ∀ (fuel : Nat) (w : World), I w → scriptLeft w p < fuel → Q (runScript fuel w p) := by
  intro fuel
  induction fuel with
  | zero => intro w _ h; exact absurd h (Nat.not_lt_zero _)
  | succ n ih =>
    intro w hI hm
    rw [runScript_succ]
    split
    · rename_i hc; exact hfin w _ hI hc
    · rename_i c text hc
      have hst : S3.Stat w (execCmd (w.emit s!"c {p} {(w.proc p).pc} {w.now} {text}") p c).1 :=
        ((S3.Stat.refl w).emit _).execCmd_fst p c
      split
      · rename_i w1 v extra heq
        rw [heq] at hst
        exact ih _ (hret w c text _ w1 v extra _ hI hc heq) (scriptLeft_step hc hst _ hm)
      · rename_i w1 heq
        rw [heq] at hst
        exact ih _ (hskip w c text _ w1 _ hI hc heq) (scriptLeft_step hc hst _ hm)
      · rename_i w1 heq
        exact hblk w c text _ w1 hI hc heq
      · rename_i w1 heq
        split
        · exact hended w _ text _ w1 _ hI hc heq
        · exact hended w _ text _ w1 _ hI hc heq

/-- the fuel `resumeProc` gives is enough: the script is the one read before the call (`hs`) -/
theorem scriptLeft_resume {w w2 : World} {p : Pid} (hst : S3.Stat w w2) (l : String) (n : Nat) :
    scriptLeft ((w2.emit l).modProc p fun y => { y with pc := n }) p < (w.proc p).script.size + 2 := by
  have hs := ((hst.emit l).modProc p (fun y => { y with pc := n }) (fun _ => rfl)).script p
  unfold scriptLeft
  rw [hs]
  omega

/-- the fuel the start action gives is enough -/
theorem scriptLeft_start (w : World) (p : Pid) (f : Proc → Proc) :
    scriptLeft (w.modProc p f) p < ((w.modProc p f).proc p).script.size + 2 := by
  unfold scriptLeft
  omega

/-! ### the run of a script -/

/-- **a script run with enough fuel ends with every running process suspended** -/
theorem runScript_runBlocked : ∀ (fuel : Nat) {w : World} (p : Pid), RBo p w → scriptLeft w p < fuel →
    RunBlocked (runScript fuel w p) := by
  intro fuel
  induction fuel with
  | zero => intro w p _ h; exact absurd h (Nat.not_lt_zero _)
  | succ n ih =>
    intro w p h hm
    rw [runScript_succ]
    split
    · exact (rbo_finishProc (h.emit _) p 0 false).close (fun hr => absurd hr (finishProc_self_not_running _ p 0 false))
    · rename_i c text hc
      have hst : S3.Stat w (execCmd (w.emit s!"c {p} {(w.proc p).pc} {w.now} {text}") p c).1 :=
        ((S3.Stat.refl w).emit _).execCmd_fst p c
      have hx := rbo_execCmd (h.emit s!"c {p} {(w.proc p).pc} {w.now} {text}") c
      have ho := Out.execCmd (p := p) (w.emit s!"c {p} {(w.proc p).pc} {w.now} {text}") c
      split
      · rename_i w1 v extra heq
        rw [heq] at hst hx
        exact ih p ((hx.emit _).modSelf _) (scriptLeft_step hc hst _ hm)
      · rename_i w1 heq
        rw [heq] at hst hx
        exact ih p ((hx.emit _).modSelf _) (scriptLeft_step hc hst _ hm)
      · rename_i w1 heq
        rw [heq] at hx ho
        exact hx.close (ho.1 rfl)
      · rename_i w1 heq
        rw [heq] at hx ho
        have hnr : (w1.proc p).status ≠ .running := ho.2 rfl
        split
        · exact (hx.emit _).close (fun hr => absurd (by simpa using hr) hnr)
        · exact (hx.emit _).close (fun hr => absurd (by simpa using hr) hnr)

/-- the status form asked for -/
theorem runScript_end (fuel : Nat) {w : World} (p : Pid) (h : RBo p w)
    (hm : (w.proc p).script.size - (w.proc p).pc < fuel) (hr : ((runScript fuel w p).proc p).status = .running) :
    ((runScript fuel w p).proc p).blocked ≠ none :=
  runScript_runBlocked fuel p h hm p hr

/-! ### resumption and dispatch -/

theorem RunBlocked.resumeProc {w : World} (h : RunBlocked w) (p : Pid) (sig : Int) : RunBlocked (resumeProc w p sig) := by
  unfold Sim.resumeProc
  dsimp only
  split
  · exact h.of_same (fun q => by simp)
  · split
    · exact h.of_same (fun q => by simp)
    · rename_i f hf
      have h0 : RBo p (w.modProc p fun y => { y with blocked := none }) := (h.rbo p).modSelf _
      have hst : S3.Stat w (resumeFrame (w.modProc p fun y => { y with blocked := none }) p f sig).1 :=
        ((S3.Stat.refl w).modProc p (fun y => { y with blocked := none }) (fun _ => rfl)).resumeFrame_fst p f sig
      have hx := rbo_resumeFrame h0 f sig
      have ho := Out.resumeFrame (p := p) (w.modProc p fun y => { y with blocked := none }) f sig
      have hrb := RetOrBlk.resumeFrame (w.modProc p fun y => { y with blocked := none }) p f sig
      split
      · rename_i w1 v extra heq
        rw [heq] at hst hx
        refine runScript_runBlocked _ p ((hx.emit _).modSelf _) ?_
        have hs := (((hst.emit (s!"r {p} {(w.proc p).pc} {w1.now} {v}" ++ (if extra = "" then "" else " " ++ extra))).modProc p
          (fun y => { y with pc := (w.proc p).pc + 1 }) (fun _ => rfl)).script p)
        unfold scriptLeft
        rw [hs]
        omega
      · rename_i w1 heq
        rw [heq] at hrb
        exact absurd rfl hrb.1
      · rename_i w1 heq
        rw [heq] at hx ho
        exact hx.close (ho.1 rfl)
      · rename_i w1 heq
        rw [heq] at hrb
        exact absurd rfl hrb.2

theorem RunBlocked.dispatchBody {w : World} (h : RunBlocked w) (t : HTag) : RunBlocked (S3.dispatchBody w t) := by
  simp only [S3.dispatchBody]
  split
  · split
    · exact h.of_same (fun q => by simp)
    · refine runScript_runBlocked _ _ ((h.rbo _).modSelf _) ?_
      unfold scriptLeft
      omega
  · have hra : ∀ a, RunBlocked (removeAwait w (t.item.b - 1) a).1 := fun a => h.of_same (fun q => by simp)
    have hrk : ∀ k, RunBlocked (removeAwaitKind w (t.item.b - 1) k).1 := fun k => h.of_same (fun q => by simp)
    have hca : RunBlocked (cancelAwaiteds w (t.item.b - 1)) := h.of_same (fun q => by simp)
    repeat' split
    all_goals with_reducible first
      | exact RunBlocked.resumeProc (hra _) _ _
      | exact RunBlocked.resumeProc (hrk _) _ _
      | exact RunBlocked.resumeProc hca _ _
      | exact RunBlocked.resumeProc h _ _
      | exact hrk _
      | exact h

/-- **every dispatched event keeps `RunBlocked`** (no other hypothesis) -/
theorem RunBlocked.dispatch {w w' : World} (h : RunBlocked w) (hd : dispatch w = some w') : RunBlocked w' := by
  rw [S3.dispatch_eq] at hd
  split at hd
  · cases hd
  · rename_i t ev' hex
    injection hd with hd
    subst hd
    exact RunBlocked.dispatchBody (h.of_same (fun q => by rw [takeNext_proc]; exact ⟨rfl, rfl⟩)) t

/-- initial states: nobody is running -/
theorem RunBlocked.init {w : World} (hnr : ∀ q, (w.proc q).status ≠ .running) : RunBlocked w :=
  fun q hq => absurd hq (hnr q)

/-- the fault "resume of a process that is not suspended" does not occur in a `RunBlocked` world (nor in the worlds
    `dispatch` derives from it before it calls `resumeProc`: they have the same statuses and frames) -/
theorem RunBlocked.no_resume_fault {w : World} (h : RunBlocked w) (p : Pid) (hr : (w.proc p).status = .running) :
    ∃ f, (w.proc p).blocked = some f := by
  cases hb : (w.proc p).blocked with
  | none => exact absurd hb (h p hr)
  | some f => exact ⟨f, rfl⟩

end CimbaModel.Sim.S4
