/-
  S4 — the number of puts into a priority queue only grows (`PqMono`), so a bound on it in a later state bounds it in
  every earlier one: `PqRoom` ("fewer than 2³¹ − 1 puts so far": the growth limit of the hashheap, far below the 2⁶⁴
  handles) is stated once, for the final state.
-/
import CimbaModel.Sim.S1Frame2
import CimbaModel.Sim.S3Clock

namespace CimbaModel.Sim.S4
open CimbaModel CimbaModel.Sim CimbaModel.Event CimbaModel.Generated
open CimbaModel.HashHeap (HTag Item Order HH)

/-- fewer than 2³¹ − 1 handles have been issued by every priority queue -/
def PqRoom (w : World) : Prop := ∀ (k : Nat) (x : PQ), w.pqs[k]? = some x → x.putLog.length + 1 < 2 ^ 31

def PqMono (w w' : World) : Prop :=
  ∀ (k : Nat) (x : PQ), w.pqs[k]? = some x → ∃ x' : PQ, w'.pqs[k]? = some x' ∧ x.putLog.length ≤ x'.putLog.length

theorem PqMono.refl (w : World) : PqMono w w := fun _ x h => ⟨x, h, Nat.le_refl _⟩

theorem PqMono.trans {a b c : World} (h1 : PqMono a b) (h2 : PqMono b c) : PqMono a c := by
  intro k x hx
  obtain ⟨y, hy, hl⟩ := h1 k x hx
  obtain ⟨z, hz, hl'⟩ := h2 k y hy
  exact ⟨z, hz, Nat.le_trans hl hl'⟩

theorem PqMono.of_eq {w w' : World} (h : w'.pqs = w.pqs) : PqMono w w' := by
  intro k x hx; exact ⟨x, by rw [h]; exact hx, Nat.le_refl _⟩

theorem PqMono.then_eq {w w1 w2 : World} (h : PqMono w w1) (he : w2.pqs = w1.pqs) : PqMono w w2 :=
  h.trans (PqMono.of_eq he)

theorem PqMono.pre_eq {w w1 w2 : World} (h : PqMono w1 w2) (he : w1.pqs = w.pqs) : PqMono w w2 :=
  (PqMono.of_eq he).trans h

theorem PqRoom.of_mono {w w' : World} (h : PqRoom w') (hm : PqMono w w') : PqRoom w := by
  intro k x hx
  obtain ⟨x', hx', hl⟩ := hm k x hx
  have := h k x' hx'
  omega

/-- writing a record with at least as many puts -/
theorem PqMono.set {w : World} {k : Nat} {x y : PQ} (hx : w.pqs[k]? = some x) (hl : x.putLog.length ≤ y.putLog.length) :
    PqMono w { w with pqs := w.pqs.set! k y } := by
  intro i z hz
  by_cases hi : k = i
  · subst hi
    rw [hx] at hz; cases hz
    refine ⟨y, ?_, hl⟩
    have : k < w.pqs.size := by
      by_cases h : k < w.pqs.size
      · exact h
      · rw [Array.getElem?_eq_none (Nat.le_of_not_lt h)] at hx; cases hx
    simp [Array.set!_eq_setIfInBounds, this]
  · refine ⟨z, ?_, Nat.le_refl _⟩
    simp [Array.set!_eq_setIfInBounds, Array.getElem?_setIfInBounds, hi, hz]

theorem PqMono.modify {w : World} (k : Nat) (f : PQ → PQ) (hf : ∀ x, (f x).putLog = x.putLog) :
    PqMono w { w with pqs := w.pqs.modify k f } := by
  intro i z hz
  by_cases hi : k = i
  · subst hi
    exact ⟨f z, by simp [Array.getElem?_modify, hz], by rw [hf]; exact Nat.le_refl _⟩
  · exact ⟨z, by simp [Array.getElem?_modify, hi, hz], Nat.le_refl _⟩

theorem PqMono.recordPQ (w : World) (k : Nat) : PqMono w (recordPQ w k) := by
  unfold Sim.recordPQ
  split
  · rename_i x hx
    split
    · exact PqMono.set hx (Nat.le_refl _)
    · exact PqMono.refl w
  · exact PqMono.refl w

theorem PqMono.pqGetLoop (w : World) (p : Pid) (k : Nat) : PqMono w (pqGetLoop w p k).1 := by
  unfold Sim.pqGetLoop
  split
  · exact PqMono.of_eq (by simp)
  · rename_i x hx
    split
    · split
      · rename_i h' t heq
        dsimp only
        apply PqMono.then_eq (w1 := Sim.recordPQ { w with pqs := w.pqs.set! k { x with queue := h', gotLog := x.gotLog ++ [t.key] } } k)
        · exact (PqMono.set (y := { x with queue := h', gotLog := x.gotLog ++ [t.key] }) hx (Nat.le_refl _)).trans (PqMono.recordPQ _ k)
        · simp
      · exact PqMono.of_eq (by simp)
      · exact PqMono.of_eq (by simp)
    · exact PqMono.of_eq (by simp [block])

theorem PqMono.pqPutLoop (w : World) (p : Pid) (k obj : Nat) (pri : Int) (v : Nat) : PqMono w (pqPutLoop w p k obj pri v).1 := by
  unfold Sim.pqPutLoop
  split
  · exact PqMono.of_eq (by simp)
  · rename_i x hx
    split
    · split
      · rename_i q' hh heq
        dsimp only
        have h1 : PqMono w { w with pqs := w.pqs.set! k { x with queue := q', putLog := x.putLog ++ [hh] } } :=
          PqMono.set hx (by simp)
        have h2 := h1.then_eq (w2 := setVar { w with pqs := w.pqs.set! k { x with queue := q', putLog := x.putLog ++ [hh] } } p v hh)
          (by unfold Sim.setVar; split <;> rfl)
        exact (h2.trans (PqMono.recordPQ _ k)).then_eq (by simp)
      · exact PqMono.of_eq (by simp)
    · exact PqMono.of_eq (by simp [block])

theorem setRecording_pq (w : World) (n idx : Nat) (on : Bool) :
    Sim.setRecording w (n + 4) idx on =
      if on then Sim.recordPQ { w with pqs := w.pqs.modify idx fun x => { x with recording := on } } idx
      else { Sim.recordPQ w idx with pqs := (Sim.recordPQ w idx).pqs.modify idx fun x => { x with recording := on } } := rfl

theorem setRecording_pqs_other (w : World) (kind idx : Nat) (on : Bool) (hk : kind < 4) :
    (Sim.setRecording w kind idx on).pqs = w.pqs := by
  match kind, hk with
  | 0, _ => unfold Sim.setRecording; dsimp only; split <;> simp
  | 1, _ => unfold Sim.setRecording; dsimp only; split <;> simp
  | 2, _ => unfold Sim.setRecording; dsimp only; split <;> simp
  | 3, _ => unfold Sim.setRecording; dsimp only; split <;> simp

theorem PqMono.setRecording (w : World) (kind idx : Nat) (on : Bool) : PqMono w (Sim.setRecording w kind idx on) := by
  by_cases hk : kind < 4
  · exact PqMono.of_eq (setRecording_pqs_other w kind idx on hk)
  · obtain ⟨n, rfl⟩ : ∃ n, kind = n + 4 := ⟨kind - 4, by omega⟩
    rw [setRecording_pq]
    split
    · exact (PqMono.modify idx (fun x => { x with recording := on }) (fun _ => rfl)).trans (PqMono.recordPQ _ idx)
    · exact (PqMono.recordPQ _ idx).trans (PqMono.modify idx (fun x => { x with recording := on }) (fun _ => rfl))

@[simp] theorem acquireStep_pqs (w : World) (p : Pid) (r : Nat) : (Sim.acquireStep w p r).1.pqs = w.pqs := by
  unfold Sim.acquireStep
  repeat' split
  all_goals first | rfl | (simp; done)

/-- the commands that do not name a priority queue leave `pqs` alone -/
theorem execCmd_pqs (w : World) (p : Pid) (c : Cmd)
    (hc : (∀ k, c ≠ .pqGet k) ∧ (∀ k o pr v, c ≠ .pqPut k o pr v) ∧ (∀ k v, c ≠ .pqCancel k v) ∧ (∀ k v pr, c ≠ .pqReprio k v pr) ∧
      (∀ k i, c ≠ .recStart k i) ∧ (∀ k i, c ≠ .recStop k i)) : (Sim.execCmd w p c).1.pqs = w.pqs := by
  obtain ⟨h1, h2, h3, h4, h5, h6⟩ := hc
  cases c
  case pqGet k => exact absurd rfl (h1 k)
  case pqPut k o pr v => exact absurd rfl (h2 k o pr v)
  case pqCancel k v => exact absurd rfl (h3 k v)
  case pqReprio k v pr => exact absurd rfl (h4 k v pr)
  case recStart k i => exact absurd rfl (h5 k i)
  case recStop k i => exact absurd rfl (h6 k i)
  case prioSet q v =>
    simp only [Sim.execCmd]
    split
    · rfl
    · dsimp only
      fold_world; fold_world; rfl
  case preempt r =>
    simp only [Sim.execCmd]
    repeat' split
    all_goals first | rfl | (simp; done)
  all_goals (simp only [Sim.execCmd]; first | frame_close | (repeat' split; all_goals first | rfl | (simp; done)))

theorem PqMono.execCmd (w : World) (p : Pid) (c : Cmd) : PqMono w (Sim.execCmd w p c).1 := by
  by_cases hc : (∀ k, c ≠ .pqGet k) ∧ (∀ k o pr v, c ≠ .pqPut k o pr v) ∧ (∀ k v, c ≠ .pqCancel k v) ∧ (∀ k v pr, c ≠ .pqReprio k v pr) ∧
      (∀ k i, c ≠ .recStart k i) ∧ (∀ k i, c ≠ .recStop k i)
  · exact PqMono.of_eq (execCmd_pqs w p c hc)
  cases c
  case pqGet k => simp only [Sim.execCmd]; split; exact PqMono.refl w; exact PqMono.pqGetLoop w p k
  case pqPut k obj pri v => simp only [Sim.execCmd]; split; exact PqMono.refl w; exact PqMono.pqPutLoop w p k obj pri v
  case pqCancel k v =>
    simp only [Sim.execCmd]
    split
    · exact PqMono.refl w
    · rename_i x hx
      split
      · exact PqMono.refl w
      · split
        · rename_i q' r heq
          dsimp only
          split
          · apply PqMono.then_eq (w1 := Sim.recordPQ { w with pqs := w.pqs.set! k { x with queue := q', cancelLog := x.cancelLog ++ [getVar w p v] } } k)
            · exact (PqMono.set (y := { x with queue := q', cancelLog := x.cancelLog ++ [getVar w p v] }) hx (Nat.le_refl _)).trans (PqMono.recordPQ _ k)
            · simp [*]
          · exact PqMono.set (y := { x with queue := q' }) hx (Nat.le_refl _)
        · exact PqMono.of_eq (by simp)
  case pqReprio k v pri =>
    simp only [Sim.execCmd]
    split
    · exact PqMono.refl w
    · rename_i x hx
      split
      · exact PqMono.refl w
      · split
        · rename_i q' heq
          exact PqMono.set (y := { x with queue := q' }) hx (Nat.le_refl _)
        · exact PqMono.of_eq (by simp)
  case recStart kind idx => simp only [Sim.execCmd]; exact PqMono.setRecording w kind idx true
  case recStop kind idx => simp only [Sim.execCmd]; exact PqMono.setRecording w kind idx false
  all_goals (exfalso; apply hc; refine ⟨?_, ?_, ?_, ?_, ?_, ?_⟩ <;> intros <;> (intro h; cases h))

theorem PqMono.resumeFrame (w : World) (p : Pid) (f : Frame) (sig : Int) : PqMono w (Sim.resumeFrame w p f sig).1 := by
  cases f
  case pqGet k =>
    simp only [Sim.resumeFrame]
    split
    · exact PqMono.refl w
    · split
      · exact (PqMono.of_eq (by simp)).trans (PqMono.pqGetLoop _ p k)
      · exact PqMono.of_eq (by simp)
  case pqPut k obj pri v =>
    simp only [Sim.resumeFrame]
    split
    · exact PqMono.refl w
    · split
      · exact (PqMono.of_eq (by simp)).trans (PqMono.pqPutLoop _ p k obj pri v)
      · exact PqMono.of_eq (by simp)
  all_goals (apply PqMono.of_eq; simp only [Sim.resumeFrame]; first | frame_close | (repeat' split; all_goals first | rfl | (simp; done)))

theorem PqMono.runScript : ∀ (fuel : Nat) (w : World) (p : Pid), PqMono w (runScript fuel w p) := by
  intro fuel
  induction fuel with
  | zero => intro w p; exact PqMono.of_eq (by simp [Sim.runScript])
  | succ n ih =>
    intro w p
    unfold Sim.runScript
    dsimp only
    split
    · exact PqMono.of_eq (by simp)
    · rename_i c text hsc
      have h1 : PqMono w (Sim.execCmd (w.emit s!"c {p} {(w.proc p).pc} {w.now} {text}") p c).1 :=
        PqMono.pre_eq (PqMono.execCmd _ p c) rfl
      split
      · rename_i w' v extra heq
        rw [heq] at h1
        exact h1.trans (PqMono.pre_eq (ih _ p) rfl)
      · rename_i w' heq
        rw [heq] at h1
        exact h1.trans (PqMono.pre_eq (ih _ p) rfl)
      · rename_i w' heq
        rw [heq] at h1; exact h1
      · rename_i w' heq
        rw [heq] at h1
        split <;> exact h1.trans (PqMono.of_eq rfl)

theorem PqMono.resumeProc (w : World) (p : Pid) (sig : Int) : PqMono w (resumeProc w p sig) := by
  unfold Sim.resumeProc
  dsimp only
  split
  · exact PqMono.of_eq (by simp)
  · split
    · exact PqMono.of_eq (by simp)
    · rename_i f hbl
      have h1 : PqMono w (Sim.resumeFrame (w.modProc p fun y => { y with blocked := none }) p f sig).1 :=
        PqMono.pre_eq (PqMono.resumeFrame _ p f sig) rfl
      split
      · rename_i w' v extra heq
        rw [heq] at h1
        exact h1.trans (PqMono.pre_eq (PqMono.runScript _ _ p) rfl)
      all_goals (rename_i w' heq; rw [heq] at h1; exact h1)

end CimbaModel.Sim.S4
