/-
  S3 — `PInv`, part 3: registrations. Changing the awaits of a process, the logical frames, waking the waiters of a
  process, `wait_process` / `wait_event` and their epilogues.
-/
import CimbaModel.Sim.S3PInvFrame

namespace CimbaModel.Sim.S3
open CimbaModel CimbaModel.Sim CimbaModel.Event CimbaModel.Generated CimbaModel.KPQ
open CimbaModel.HashHeap (HTag Item Order HH WF abs liveTags)

variable {ex : Pid → Prop} {fr : Pid → Option Frame}

theorem mem_awaits_proc {w : World} {x q : Pid} : Await.proc q ∈ (w.proc x).awaits ↔ Await.proc q ∈ procAw w x := by
  unfold procAw; simp [List.mem_filter, isProcA]
theorem mem_awaits_event {w : World} {x : Pid} {h : Nat} : Await.event h ∈ (w.proc x).awaits ↔ Await.event h ∈ evAw w x := by
  unfold evAw; simp [List.mem_filter, isEventA]

/-- the process / event registrations, waiter lists, status and recorded frames are the same (other awaitables may
    differ) -/
def SameReg (w w' : World) : Prop :=
  ∀ x, procAw w' x = procAw w x ∧ evAw w' x = evAw w x ∧ (w'.proc x).waiters = (w.proc x).waiters ∧
    (w'.proc x).status = (w.proc x).status

theorem PInv.congrReg {w w' : World} (hp : PInv ex fr w) (hc : SameReg w w')
    (hfb : ∀ x, ¬ ex x → (w'.proc x).blocked ≠ fr x → procAw w x = [] ∧ evAw w x = [])
    (hw : w'.evWaiters = w.evWaiters) (hev : w'.ev = w.ev) : PInv ex fr w' where
  ei := by rw [hev]; exact hp.ei
  sb := by rw [hev]; exact hp.sb
  es := by rw [hev, hw]; exact hp.es
  oh := by
    intro e he ha p hb hx h hh
    rw [hev] at he ⊢
    exact hp.oh e he ha p hb hx h (by rw [mem_awaits_event, ← (hc p).2.1, ← mem_awaits_event]; exact hh)
  ap := fun p => by rw [(hc p).1]; exact hp.ap p
  ae := fun p => by rw [(hc p).2.1]; exact hp.ae p
  ar := fun p h => by rw [(hc p).1, (hc p).2.1]; exact hp.ar p (by rw [← (hc p).2.2.2]; exact h)
  fb := fun p hx h => by rw [(hc p).1, (hc p).2.1]; exact hfb p hx h
  w1 := fun p q h hx => by
    rw [mem_awaits_proc, (hc q).1, ← mem_awaits_proc]; exact hp.w1 p q (by rw [← (hc p).2.2.1]; exact h) hx
  wn := fun p => by rw [(hc p).2.2.1]; exact hp.wn p
  e1 := fun h l q hm hq hx => by
    rw [mem_awaits_event, (hc q).2.1, ← mem_awaits_event]; exact hp.e1 h l q (by rw [← hw]; exact hm) hq hx
  en := by rw [hw]; exact hp.en
  op := by
    intro e he' ha p hb hx
    rw [hev] at he'
    obtain ⟨q, h1, h2⟩ := hp.op e he' ha p hb hx
    exact ⟨q, by rw [mem_awaits_proc, (hc p).1, ← mem_awaits_proc]; exact h1, by rw [(hc q).2.2.1]; exact h2⟩
  oe := by
    intro e he' ha p hb hx
    rw [hev] at he'
    obtain ⟨h, h1, h2⟩ := hp.oe e he' ha p hb hx
    exact ⟨h, by rw [mem_awaits_event, (hc p).2.1, ← mem_awaits_event]; exact h1,
      by unfold evWaitersOf at *; rw [hw]; exact h2⟩
  up := by
    rw [hev]; exact hp.up
  ue := by
    rw [hev]; exact hp.ue

/-- changing the logical frame of processes that have no process / event registration -/
theorem PInv.setFr {w : World} (hp : PInv ex fr w) (fr' : Pid → Option Frame)
    (hd : ∀ x, fr' x ≠ fr x → procAw w x = [] ∧ evAw w x = [])
    (hb : ∀ x, ¬ ex x → (w.proc x).blocked ≠ fr' x → procAw w x = [] ∧ evAw w x = []) : PInv ex fr' w :=
  { hp with
    ap := fun x => by
      by_cases h : fr' x = fr x
      · rw [h]; exact hp.ap x
      · exact Or.inl (hd x h).1
    ae := fun x => by
      by_cases h : fr' x = fr x
      · rw [h]; exact hp.ae x
      · exact Or.inl (hd x h).2
    fb := hb }

/-- between activations the logical frames are the recorded ones -/
theorem PInv.toBlocked {w : World} (hp : PInv ex fr w) (hne : ∀ x, ¬ ex x) : PInv ex (blockedOf w) w :=
  hp.setFr (blockedOf w) (fun x h => hp.fb x (hne x) h) (fun x _ h => absurd rfl h)

/-- rewriting the awaits of one process without touching its process / event registrations -/
theorem PInv.mapAwaits {w : World} (hp : PInv ex fr w) (p : Pid) (g : List Await → List Await)
    (hgp : ∀ l, (g l).filter isProcA = l.filter isProcA) (hge : ∀ l, (g l).filter isEventA = l.filter isEventA) :
    PInv ex fr (w.modProc p fun x => { x with awaits := g x.awaits }) := by
  refine hp.congrReg ?_ ?_ rfl rfl
  · intro x
    unfold procAw evAw
    rw [modProc_proc]
    split
    · rename_i h; rw [h.1]; exact ⟨hgp _, hge _, rfl, rfl⟩
    · exact ⟨rfl, rfl, rfl, rfl⟩
  · intro x
    rw [modProc_proc]
    split
    · rename_i h; rw [h.1]; exact hp.fb _
    · exact hp.fb x

theorem PInv.addAwait_time {w : World} (hp : PInv ex fr w) (p : Pid) (h : Nat) : PInv ex fr (addAwait w p (.time h)) :=
  hp.mapAwaits p (fun l => .time h :: l) (fun _ => rfl) (fun _ => rfl)

theorem PInv.addAwait_guard {w : World} (hp : PInv ex fr w) (p : Pid) (g : Nat) : PInv ex fr (addAwait w p (.guard g)) :=
  hp.mapAwaits p (fun l => .guard g :: l) (fun _ => rfl) (fun _ => rfl)

theorem removeFirst_filter_ne {α : Type} [DecidableEq α] (l : List α) (a : α) (f : α → Bool) (hf : f a = false) :
    (removeFirst l a).1.filter f = l.filter f := by
  induction l with
  | nil => rfl
  | cons x xs ih =>
    unfold removeFirst
    by_cases hx : x = a
    · subst hx; simp [hf]
    · simp only [hx, if_false, List.filter_cons, ih]

/-- inside `modProc p`, the record being modified is `w.proc p` -/
theorem modProc_congr (w : World) (p : Pid) (f g : Proc → Proc) (h : f (w.proc p) = g (w.proc p)) :
    w.modProc p f = w.modProc p g := by
  unfold World.modProc
  congr 1
  apply Array.ext_getElem?
  intro i
  simp only [Array.getElem?_modify]
  split
  · rename_i hi
    cases hg : w.procs[i]? with
    | none => rfl
    | some x =>
      have hx : w.proc p = x := by
        unfold World.proc
        rw [Array.getD_eq_getD_getElem?, hi, hg]; rfl
      rw [hx] at h
      simp [h]
  · rfl

theorem removeAwait_fst_eq (w : World) (p : Pid) (a : Await) :
    (removeAwait w p a).1 = w.modProc p fun x => { x with awaits := (removeFirst x.awaits a).1 } := by
  simp only [removeAwait]
  exact modProc_congr w p _ _ rfl

theorem PInv.removeAwait_time {w : World} (hp : PInv ex fr w) (p : Pid) (h : Nat) : PInv ex fr (removeAwait w p (.time h)).1 := by
  rw [removeAwait_fst_eq]
  exact hp.mapAwaits p (fun l => (removeFirst l (.time h)).1) (fun l => removeFirst_filter_ne l _ _ rfl)
    (fun l => removeFirst_filter_ne l _ _ rfl)

theorem PInv.removeAwait_guard {w : World} (hp : PInv ex fr w) (p : Pid) (g : Nat) : PInv ex fr (removeAwait w p (.guard g)).1 := by
  rw [removeAwait_fst_eq]
  exact hp.mapAwaits p (fun l => (removeFirst l (.guard g)).1) (fun l => removeFirst_filter_ne l _ _ rfl)
    (fun l => removeFirst_filter_ne l _ _ rfl)


theorem rak_go_filter (k f : Await → Bool) (hd : ∀ a, k a = true → f a = false) (l : List Await) :
    (removeAwaitKind.go k l).1.filter f = l.filter f := by
  induction l with
  | nil => rfl
  | cons x xs ih =>
    unfold removeAwaitKind.go
    by_cases hx : k x = true
    · simp [hx, hd x hx]
    · simp only [hx, Bool.false_eq_true, if_false, List.filter_cons, ih]

/-- removing the first awaitable of a kind removes the head of that kind's sub-list -/
theorem rak_go_filter_self (k : Await → Bool) (l : List Await) :
    (removeAwaitKind.go k l).1.filter k = (l.filter k).tail := by
  induction l with
  | nil => rfl
  | cons x xs ih =>
    unfold removeAwaitKind.go
    by_cases hx : k x = true
    · simp [hx]
    · simp only [hx, Bool.false_eq_true, if_false, List.filter_cons, ih]

theorem removeAwaitKind_fst_eq (w : World) (p : Pid) (k : Await → Bool) :
    (removeAwaitKind w p k).1 = w.modProc p fun x => { x with awaits := (removeAwaitKind.go k x.awaits).1 } := by
  simp only [removeAwaitKind]
  exact modProc_congr w p _ _ rfl

theorem PInv.removeAwaitKind_guard {w : World} (hp : PInv ex fr w) (p : Pid) : PInv ex fr (removeAwaitKind w p isGuardA).1 := by
  rw [removeAwaitKind_fst_eq]
  exact hp.mapAwaits p (fun l => (removeAwaitKind.go isGuardA l).1)
    (fun l => rak_go_filter _ _ (fun a h => by cases a <;> simp_all [isGuardA, isProcA]) l)
    (fun l => rak_go_filter _ _ (fun a h => by cases a <;> simp_all [isGuardA, isEventA]) l)

theorem PInv.timerAdd_fst {w : World} (hp : PInv ex fr w) (p : Pid) (d sig : Int) : PInv ex fr (timerAdd w p d sig).1 := by
  simp only [Sim.timerAdd]
  apply PInv.addAwait_time
  pinv

theorem PInv.timerCancel_fst {w : World} (hp : PInv ex fr w) (p : Pid) (h : Nat) : PInv ex fr (timerCancel w p h).1 := by
  simp only [Sim.timerCancel]
  apply PInv.evCancel_fst
  apply PInv.removeAwait_time
  exact hp

theorem PInv.timersClear {w : World} (hp : PInv ex fr w) (p : Pid) : PInv ex fr (timersClear w p) := by
  unfold Sim.timersClear
  refine PInv.foldl (fun w q h => by pinv) _ ?_
  refine hp.mapAwaits p (fun l => l.filter fun a => match a with | .time _ => false | _ => true) ?_ ?_
  · intro l; rw [List.filter_filter]; apply List.filter_congr; intro a _; cases a <;> rfl
  · intro l; rw [List.filter_filter]; apply List.filter_congr; intro a _; cases a <;> rfl

theorem PInv.guardWaitEnter {w : World} (hp : PInv ex fr w) (g : Nat) (p : Pid) (d : Demand) :
    PInv ex fr (guardWaitEnter w g p d) := by
  unfold Sim.guardWaitEnter
  split
  · exact hp.fail _
  · split
    · apply PInv.addAwait_guard; pinv
    · exact hp.fail _

theorem PInv.guardWaitLeave {w : World} (hp : PInv ex fr w) (g : Nat) (p : Pid) (sig : Int) :
    PInv ex fr (guardWaitLeave w g p sig) := by
  unfold Sim.guardWaitLeave
  apply PInv.removeAwait_guard
  pinv

/-- the logical frame of one process replaced -/
def setFrame (fr : Pid → Option Frame) (p : Pid) (x : Option Frame) : Pid → Option Frame :=
  fun y => if y = p then x else fr y

theorem setFrame_self (fr : Pid → Option Frame) (p : Pid) (x : Option Frame) : setFrame fr p x p = x := by
  simp [setFrame]
theorem setFrame_ne (fr : Pid → Option Frame) {p y : Pid} (x : Option Frame) (h : y ≠ p) : setFrame fr p x y = fr y := by
  simp [setFrame, h]

theorem PInv.nil_of_fr_none {w : World} (hp : PInv ex fr w) {p : Pid} (hfr : fr p = none) :
    procAw w p = [] ∧ evAw w p = [] := by
  constructor
  · rcases hp.ap p with h | ⟨q, h, _⟩
    · exact h
    · rw [hfr] at h; cases h
  · rcases hp.ae p with h | ⟨q, h, _⟩
    · exact h
    · rw [hfr] at h; cases h

/-- recording a frame (or none) for a process that has no process / event registration -/
theorem PInv.modBlocked {w : World} (hp : PInv ex fr w) (p : Pid) (b : Option Frame)
    (hnil : procAw w p = [] ∧ evAw w p = []) :
    PInv ex fr (w.modProc p fun x => { x with blocked := b }) := by
  have hsr : SameReg w (w.modProc p fun x => { x with blocked := b }) := by
    intro x
    unfold procAw evAw
    rw [modProc_proc]; split
    · rename_i h; rw [h.1]; exact ⟨rfl, rfl, rfl, rfl⟩
    · exact ⟨rfl, rfl, rfl, rfl⟩
  refine hp.congrReg hsr ?_ rfl rfl
  intro x
  rw [modProc_proc]
  split
  · rename_i h; rw [h.1]; exact fun _ _ => hnil
  · exact hp.fb x

/-- suspending in a frame: harmless when the process has no process / event registration -/
theorem PInv.block_fst {w : World} (hp : PInv ex fr w) (p : Pid) (f : Frame) (hfr : fr p = none) :
    PInv ex (setFrame fr p (some f)) (block w p f).1 := by
  have hnil := hp.nil_of_fr_none hfr
  have h1 : PInv ex fr (block w p f).1 := hp.modBlocked p (some f) hnil
  have hsame : ∀ x, procAw (block w p f).1 x = procAw w x ∧ evAw (block w p f).1 x = evAw w x := by
    intro x
    unfold procAw evAw block
    simp only
    rw [modProc_proc]; split
    · rename_i h; rw [h.1]; exact ⟨rfl, rfl⟩
    · exact ⟨rfl, rfl⟩
  refine h1.setFr _ ?_ ?_
  · intro x hx
    by_cases hxp : x = p
    · subst hxp; rw [(hsame x).1, (hsame x).2]; exact hnil
    · rw [setFrame_ne _ _ hxp] at hx; exact absurd rfl hx
  · intro x hxx hx
    by_cases hxp : x = p
    · subst hxp; rw [(hsame x).1, (hsame x).2]; exact hnil
    · rw [setFrame_ne _ _ hxp] at hx; exact h1.fb x hxx hx

end CimbaModel.Sim.S3
