/-
  S4 — `PL` (holder lists ⇔ `.pool` holdings, S4LinkBase) through every resumption of a suspended library call.
-/
import CimbaModel.Sim.S4LinkCmd

namespace CimbaModel.Sim.S4
open CimbaModel CimbaModel.Sim CimbaModel.Event CimbaModel.Generated CimbaModel.KPQ
open CimbaModel.HashHeap (HTag Item Order HH WF abs)

variable {w w' : World}

set_option maxHeartbeats 1000000 in
theorem pl_resumeFrame (h : PL w) (p : Pid) (hp : p < w.procs.size) (f : Frame) (sig : Int) :
    PL (resumeFrame w p f sig).1 := by
  cases f
  case waitProc q =>
    simp only [resumeFrame]
    split
    · split
      · exact (h.removeAwait_fst _ _).modProc_keep _ _ (fun _ => rfl)
      · dsimp only; exact (h.removeAwait_fst _ _).cancelKindFor _ _ _
    · exact h.removeAwait_fst _ _
  case waitEvent v =>
    simp only [resumeFrame]
    split
    · split
      · exact (h.removeAwait_fst p (.event v)).frame rfl rfl
      · dsimp only; exact (h.removeAwait_fst _ _).cancelKindFor _ _ _
    · exact h.removeAwait_fst _ _
  all_goals simp only [resumeFrame]
  all_goals pl_peel h hp 14

end CimbaModel.Sim.S4
