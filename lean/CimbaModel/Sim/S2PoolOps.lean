/-
  S2 — resource pools (C07), part 2: what the pool primitives of the model do to the view of the pool and to the
  `held` lists.
-/
import CimbaModel.Sim.S2Pool

namespace CimbaModel.Sim
open CimbaModel CimbaModel.Event CimbaModel.Generated CimbaModel.KPQ
open CimbaModel.HashHeap (HTag Item Order HH WF abs amounts amountOf)

theorem poolView_some {w : World} {pl : Nat} {v : PView} :
    poolView w pl = some v ↔ ∃ x, w.pools[pl]? = some x ∧ x.view = v := by
  unfold poolView
  cases w.pools[pl]? <;> simp

/-- same pools (as views), same processes' held lists, same number of processes -/
structure ViewSame (w w' : World) : Prop where
  size : w'.procs.size = w.procs.size
  view : ∀ pl, poolView w' pl = poolView w pl
  held : ∀ q pl, HoldRef.pool pl ∈ (w'.proc q).held ↔ HoldRef.pool pl ∈ (w.proc q).held
  prio : prOf w' = prOf w

theorem ViewSame.of_fp {m : Mask} {w w' : World} (h : Fp m w w') (hp : m.pools = false) (hh : m.held = false)
    (hpr : m.prio = false := by rfl) : ViewSame w w' :=
  ⟨h.2.2.2.2.2.2.2.1, poolView_of_fp h hp, fun q pl => by rw [h.2.2.2.2.2.2.2.2.1 hh q], prOf_of_fp h hpr⟩

theorem ViewSame.of_same {w w' : World} (h : Same w w') : ViewSame w w' :=
  ViewSame.of_fp (Same.fp {} h) rfl rfl rfl

theorem ViewSame.upd {w w' : World} (h : ViewSame w w') {pl : Nat} {v : PView} (hv : poolView w pl = some v) :
    PoolUpd w w' pl v :=
  ⟨h.size, by rw [h.view]; exact hv, fun pl' _ => h.view pl', fun q pl' _ => h.held q pl', h.prio⟩

theorem ViewSame.linked {w w' : World} (h : ViewSame w w') {pl : Nat} {hh : HH} (lk : Linked w pl hh) : Linked w' pl hh :=
  fun q => (h.held q pl).trans (lk q)

theorem ViewSame.trans {a b c : World} (h1 : ViewSame a b) (h2 : ViewSame b c) : ViewSame a c :=
  ⟨h2.size.trans h1.size, fun pl => (h2.view pl).trans (h1.view pl), fun q pl => (h2.held q pl).trans (h1.held q pl),
    h2.prio.trans h1.prio⟩

theorem PoolInv.of_viewSame {w w' : World} (h : ViewSame w w') (hi : PoolInv w) : PoolInv w' := by
  refine ⟨by rw [h.size]; exact hi.1, ?_⟩
  intro pl v hpv
  rw [h.view] at hpv
  obtain ⟨ok, lk⟩ := hi.2 pl v hpv
  rw [h.size, h.prio]
  exact ⟨ok, h.linked lk⟩

theorem recordPool_viewSame (w : World) (a : Nat) : ViewSame w (recordPool w a) := by
  have hf := recordPool_fp w a
  refine ⟨hf.2.2.2.2.2.2.2.1, ?_, fun q pl => by rw [hf.2.2.2.2.2.2.2.2.1 rfl q], prOf_of_fp hf rfl⟩
  intro pl
  unfold recordPool
  split
  · split
    · rename_i x hx _
      unfold poolView
      show ((w.pools.set! a _)[pl]?).map Pool.view = _
      rw [poolView_set hx]
      split
      · rename_i h; subst h; rw [hx]; rfl
      · rfl
    · rfl
  · rfl

/-- `in_use = v` -/
theorem setPoolInUse_upd {w : World} {pl : Nat} {v : PView} (hv : poolView w pl = some v) (u : Nat) :
    PoolUpd w (setPoolInUse w pl u) pl ⟨v.cap, u, v.holders⟩ ∧
    ∀ q, ((setPoolInUse w pl u).proc q).held = (w.proc q).held := by
  obtain ⟨x, hx, rfl⟩ := poolView_some.1 hv
  have hf := setPoolInUse_fp w pl u
  refine ⟨⟨hf.2.2.2.2.2.2.2.1, ?_, ?_, ?_, prOf_of_fp hf rfl⟩, hf.2.2.2.2.2.2.2.2.1 rfl⟩
  · unfold setPoolInUse poolView
    show ((w.pools.modify pl _)[pl]?).map Pool.view = _
    rw [poolView_modify, if_pos rfl, hx]; rfl
  · intro pl' hne
    unfold setPoolInUse poolView
    show ((w.pools.modify pl _)[pl']?).map Pool.view = _
    rw [poolView_modify, if_neg hne]; rfl
  · intro q pl' _; rw [hf.2.2.2.2.2.2.2.2.1 rfl q]

/-- the holder list of pool `pl` is replaced (raw record update as written in the model) -/
theorem setHolders_upd {w : World} {pl : Nat} {x : Pool} (hx : w.pools[pl]? = some x) (h' : HH) :
    PoolUpd w { w with pools := w.pools.set! pl { x with holders := h' } } pl ⟨x.cap, x.inUse, h'⟩ := by
  refine ⟨rfl, ?_, ?_, fun _ _ _ => Iff.rfl, rfl⟩
  · unfold poolView
    show ((w.pools.set! pl _)[pl]?).map Pool.view = _
    rw [poolView_set hx, if_pos rfl]; rfl
  · intro pl' hne
    unfold poolView
    show ((w.pools.set! pl _)[pl']?).map Pool.view = _
    rw [poolView_set hx, if_neg hne]; rfl

theorem linked_mk_pools {w : World} (ps : Array Pool) {pl : Nat} {h : HH} :
    Linked { w with pools := ps } pl h ↔ Linked w pl h := Iff.rfl

/-- `update_record`, first branch, as a state equation -/
theorem poolUpdateRecord_present {w : World} {pl : Nat} {x : Pool} (hx : w.pools[pl]? = some x) {p : Pid} {i : Nat}
    (hc : x.holders.count ≠ 0) (hfi : HashHeap.findIndex x.holders (p + 1) = .ok i) (hi0 : i ≠ 0) (amt : Nat) :
    poolUpdateRecord w pl p amt =
      { w with pools := w.pools.set! pl { x with holders := (HashHeap.withItem x.holders i
          ⟨(x.holders.tag i).item.a, (x.holders.tag i).item.b + amt, (x.holders.tag i).item.c, (x.holders.tag i).item.d⟩) } } := by
  unfold poolUpdateRecord
  simp only [hx, hc, if_false, hfi, ne_eq, hi0, not_false_eq_true, decide_true, if_true]
  rfl

/-- `update_record`, second branch, as a state equation -/
theorem poolUpdateRecord_absent {w : World} {pl : Nat} {x : Pool} (hx : w.pools[pl]? = some x) {p : Pid}
    (hno : x.holders.count = 0 ∨ HashHeap.findIndex x.holders (p + 1) = .ok 0) (amt : Nat) :
    poolUpdateRecord w pl p amt =
      match HashHeap.enqueue holder_queue_check x.holders ⟨p + 1, amt, 0, 0⟩ (p + 1) 0
          ((w.modProc p fun y => { y with held := .pool pl :: y.held }).proc p).prio with
      | .ok (h', _) => { (w.modProc p fun y => { y with held := .pool pl :: y.held }) with
          pools := w.pools.set! pl { x with holders := h' } }
      | .error f => (w.modProc p fun y => { y with held := .pool pl :: y.held }).fail s!"pool record enqueue: {f}" := by
  unfold poolUpdateRecord
  simp only [hx]
  by_cases hc : x.holders.count = 0
  · simp only [hc, if_true, Bool.false_eq_true, if_false]; rfl
  · rcases hno with h | h
    · exact absurd h hc
    · simp only [hc, if_false, h, ne_eq, not_true_eq_false, decide_false, Bool.false_eq_true]; rfl

/-- `update_record`: the caller's record grows by `amt`, or is created with `amt` -/
theorem poolUpdateRecord_upd {w : World} {pl : Nat} {v : PView} (hv : poolView w pl = some v)
    (ok : HoldersOK w.procs.size (prOf w) v.holders) (hn : w.procs.size < 2 ^ 31) {p : Pid} (hp : p < w.procs.size)
    (lk : Linked w pl v.holders) (amt : Nat) (hamt : 0 < amt) :
    ∃ h', PoolUpd w (poolUpdateRecord w pl p amt) pl ⟨v.cap, v.inUse, h'⟩ ∧
      HoldersOK w.procs.size (prOf w) h' ∧ Linked (poolUpdateRecord w pl p amt) pl h' ∧
      amounts (abs h') = amounts (abs v.holders) + amt ∧
      amountOf (abs h') (p + 1) = amountOf (abs v.holders) (p + 1) + amt ∧
      (∀ k, k ≠ p + 1 → amountOf (abs h') k = amountOf (abs v.holders) k) := by
  obtain ⟨x, hx, rfl⟩ := poolView_some.1 hv
  simp only [Pool.view] at ok lk ⊢
  by_cases hk : p + 1 ∈ keys (abs x.holders)
  · -- present
    obtain ⟨i, hi, hki⟩ := (HashHeap.mem_keys_abs x.holders (p + 1)).1 hk
    have hfi := HashHeap.findIndex_of_mem ok.wf hi
    rw [hki] at hfi
    have hc : x.holders.count ≠ 0 := by have := hi.1; have := hi.2; omega
    have hi0 : i ≠ 0 := by have := hi.1; omega
    rw [poolUpdateRecord_present hx hc hfi hi0]
    obtain ⟨ok', hsum, hkeys, hamt', hamt, hoth⟩ := withItem_holders ok hi
      ⟨(x.holders.tag i).item.a, (x.holders.tag i).item.b + amt, (x.holders.tag i).item.c, (x.holders.tag i).item.d⟩
      (by show 0 < (x.holders.tag i).item.b + amt; omega)
    refine ⟨_, setHolders_upd hx _, ok', ?_, ?_, ?_, ?_⟩
    · intro q; rw [hkeys]; exact lk q
    · simp only at hsum; omega
    · rw [hki] at hamt' hamt; rw [hamt', hamt]
    · intro k hkne; exact hoth k (by rw [hki]; exact hkne)
  · -- absent: new record
    rw [poolUpdateRecord_absent hx (by
      by_cases hc : x.holders.count = 0
      · exact Or.inl hc
      · exact Or.inr (HashHeap.findIndex_of_not_mem ok.wf hk))]
    obtain ⟨h', hrun, ok', hsum, hkeys, hamt', hoth⟩ := enqueue_holders ok hn hp hk ⟨p + 1, amt, 0, 0⟩ hamt 0
      ((w.modProc p fun y => { y with held := .pool pl :: y.held }).proc p).prio
      (show _ = (w.proc p).prio from modProc_prio w p p _ (fun _ => rfl))
    rw [hrun]
    dsimp only
    have hx' : (w.modProc p fun y => { y with held := HoldRef.pool pl :: y.held }).pools[pl]? = some x := hx
    have hu := setHolders_upd hx' h'
    have hheld : ∀ q, HoldRef.pool pl ∈ ((w.modProc p fun y => { y with held := HoldRef.pool pl :: y.held }).proc q).held ↔
        HoldRef.pool pl ∈ (w.proc q).held ∨ q = p := by
      intro q
      rw [proc_modProc]
      by_cases hq : q = p
      · subst hq; simp [hp]
      · simp [hq]
    refine ⟨h', ⟨hu.size.trans (modProc_size _ _ _), hu.view, hu.others, ?_, ?_⟩, ok', ?_, ?_, ?_, hoth⟩
    · intro q pl' hne
      refine (hu.heldOthers q pl' hne).trans ?_
      rw [proc_modProc]
      split
      · rename_i hq; rw [hq.1]
        have : HoldRef.pool pl' ≠ HoldRef.pool pl := fun e => hne (by injection e)
        simp [this]
      · rfl
    · exact hu.prio.trans (funext fun q => modProc_prio w p q _ (fun _ => rfl))
    · intro q
      show HoldRef.pool pl ∈ ((w.modProc p _).proc q).held ↔ _
      rw [hheld, hkeys, lk q]
      constructor
      · rintro (h | rfl)
        · exact Or.inl h
        · exact Or.inr rfl
      · rintro (h | h)
        · exact Or.inl h
        · exact Or.inr (Nat.add_right_cancel h)
    · exact hsum
    · rw [hamt', HashHeap.amountOf_of_not_mem hk]; simp

/-- `reset_holder`, as a state equation -/
theorem setHeldAmount_present {w : World} {pl : Nat} {x : Pool} (hx : w.pools[pl]? = some x) {p : Pid} {i : Nat}
    (hfi : HashHeap.findIndex x.holders (p + 1) = .ok i) (hi0 : i ≠ 0) (a : Nat) :
    setHeldAmount w pl p a =
      { w with pools := w.pools.set! pl { x with holders := (HashHeap.withItem x.holders i
          ⟨(x.holders.tag i).item.a, a, (x.holders.tag i).item.c, (x.holders.tag i).item.d⟩) } } := by
  unfold setHeldAmount
  simp only [hx, hfi, hi0, if_false]
  rfl

/-! ### a composite operation on pool `pl`, step by step: `w0` is where it started, `v` the view reached -/

structure PSt (w0 w : World) (pl : Nat) (v : PView) : Prop where
  upd : PoolUpd w0 w pl v
  hok : HoldersOK w0.procs.size (prOf w0) v.holders
  lk : Linked w pl v.holders

theorem PSt.init {w : World} {pl : Nat} {v : PView} (hi : PoolInv w) (hv : poolView w pl = some v) : PSt w w pl v :=
  ⟨PoolUpd.refl hv, (hi.2 pl v hv).1.toHoldersOK, (hi.2 pl v hv).2⟩

theorem PSt.size {w0 w : World} {pl : Nat} {v : PView} (h : PSt w0 w pl v) : w.procs.size = w0.procs.size := h.upd.size

theorem PSt.viewSame {w0 w w' : World} {pl : Nat} {v : PView} (h : PSt w0 w pl v) (hs : ViewSame w w') : PSt w0 w' pl v :=
  ⟨h.upd.trans (hs.upd h.upd.view), h.hok, hs.linked h.lk⟩

theorem PSt.same {w0 w w' : World} {pl : Nat} {v : PView} (h : PSt w0 w pl v) (hs : Same w w') : PSt w0 w' pl v :=
  h.viewSame (ViewSame.of_same hs)

theorem PSt.record {w0 w : World} {pl : Nat} {v : PView} (h : PSt w0 w pl v) (a : Nat) : PSt w0 (recordPool w a) pl v :=
  h.viewSame (recordPool_viewSame w a)

theorem PSt.setInUse {w0 w : World} {pl : Nat} {v : PView} (h : PSt w0 w pl v) (u : Nat) :
    PSt w0 (setPoolInUse w pl u) pl ⟨v.cap, u, v.holders⟩ := by
  obtain ⟨hu, hh⟩ := setPoolInUse_upd h.upd.view u
  exact ⟨h.upd.trans hu, h.hok, fun q => by rw [hh q]; exact h.lk q⟩

theorem PSt.update {w0 w : World} {pl : Nat} {v : PView} (h : PSt w0 w pl v) (hn : w0.procs.size < 2 ^ 31)
    {p : Pid} (hp : p < w0.procs.size) (amt : Nat) (hamt : 0 < amt) :
    ∃ h', PSt w0 (poolUpdateRecord w pl p amt) pl ⟨v.cap, v.inUse, h'⟩ ∧
      amounts (abs h') = amounts (abs v.holders) + amt ∧
      amountOf (abs h') (p + 1) = amountOf (abs v.holders) (p + 1) + amt ∧
      (∀ k, k ≠ p + 1 → amountOf (abs h') k = amountOf (abs v.holders) k) := by
  have hs := h.size
  obtain ⟨h', hu, ok', lk', hsum, hamt, hoth⟩ := poolUpdateRecord_upd h.upd.view (by rw [hs, h.upd.prio]; exact h.hok)
    (by rw [hs]; exact hn) (by rw [hs]; exact hp) h.lk amt hamt
  exact ⟨h', ⟨h.upd.trans hu, by rw [← hs, ← h.upd.prio]; exact ok', lk'⟩, hsum, hamt, hoth⟩

theorem PSt.setHeld {w0 w : World} {pl : Nat} {v : PView} (h : PSt w0 w pl v) {p : Pid}
    (hk : p + 1 ∈ keys (abs v.holders)) (a : Nat) (ha : 0 < a) :
    ∃ h', PSt w0 (setHeldAmount w pl p a) pl ⟨v.cap, v.inUse, h'⟩ ∧
      amounts (abs h') + amountOf (abs v.holders) (p + 1) = amounts (abs v.holders) + a ∧
      amountOf (abs h') (p + 1) = a ∧
      (∀ k, k ≠ p + 1 → amountOf (abs h') k = amountOf (abs v.holders) k) := by
  obtain ⟨x, hx, hxv⟩ := poolView_some.1 h.upd.view
  subst hxv
  have ok := h.hok
  simp only [Pool.view] at ok hk ⊢
  obtain ⟨i, hi, hki⟩ := (HashHeap.mem_keys_abs x.holders (p + 1)).1 hk
  have hfi := HashHeap.findIndex_of_mem ok.wf hi
  rw [hki] at hfi
  have hi0 : i ≠ 0 := by have := hi.1; omega
  rw [setHeldAmount_present hx hfi hi0]
  obtain ⟨ok', hsum, hkeys, hamt', hamt, hoth⟩ := withItem_holders ok hi
    ⟨(x.holders.tag i).item.a, a, (x.holders.tag i).item.c, (x.holders.tag i).item.d⟩ ha
  rw [hki] at hamt' hamt hoth
  refine ⟨_, ⟨h.upd.trans (setHolders_upd hx _), ok', ?_⟩, ?_, hamt', hoth⟩
  · intro q; rw [hkeys]; exact h.lk q
  · rw [hamt]; simp only at hsum; omega

/-- the operation is complete: the amount in use matches the records again -/
theorem PSt.close {w0 w : World} {pl : Nat} {v : PView} (h : PSt w0 w pl v) (hi : PoolInv w0)
    (hsum : v.inUse = amounts (abs v.holders)) (hcap : v.inUse ≤ v.cap) : PoolInv w :=
  hi.of_upd h.upd ⟨h.hok, hsum, hcap⟩ h.lk

theorem PSt.heldOf {w0 w : World} {pl : Nat} {v : PView} (h : PSt w0 w pl v) (p : Pid) :
    heldOf w pl p = amountOf (abs v.holders) (p + 1) := by
  unfold Sim.heldOf; rw [h.upd.view]

/-! ### dropping `.pool pl` from a process's held list -/

theorem removeHeld_mem (w : World) (p q : Pid) (pl pl' : Nat) :
    HoldRef.pool pl' ∈ ((removeHeld w p (.pool pl)).1.proc q).held ↔
      HoldRef.pool pl' ∈ (w.proc q).held ∧ ¬ (q = p ∧ pl' = pl) := by
  rw [removeHeld_proc]
  by_cases hq : q = p
  · subst hq
    simp only [if_true, List.mem_filter, true_and]
    constructor
    · rintro ⟨hm, hne⟩
      refine ⟨hm, fun e => ?_⟩
      rw [e] at hne; simp at hne
    · rintro ⟨hm, hne⟩
      refine ⟨hm, ?_⟩
      have : HoldRef.pool pl' ≠ HoldRef.pool pl := fun e => hne (by injection e)
      simpa using this
  · simp [hq]

theorem removeHeld_viewFacts (w : World) (p : Pid) (h : HoldRef) :
    (removeHeld w p h).1.procs.size = w.procs.size ∧ ∀ pl, poolView (removeHeld w p h).1 pl = poolView w pl :=
  ⟨(removeHeld_fp w p h).2.2.2.2.2.2.2.1, fun pl => poolView_of_fp (removeHeld_fp w p h) rfl pl⟩

/-- the holder list lost key `p + 1`, and `p` no longer lists the pool: still linked -/
theorem linked_drop {w w' : World} {pl : Nat} {h h' : HH} {p : Pid} (lk : Linked w pl h)
    (hkeys : ∀ k, k ∈ keys (abs h') ↔ k ∈ keys (abs h) ∧ k ≠ p + 1)
    (hheld : ∀ q, HoldRef.pool pl ∈ (w'.proc q).held ↔ HoldRef.pool pl ∈ (w.proc q).held ∧ q ≠ p) :
    Linked w' pl h' := by
  intro q
  rw [hheld, hkeys, lk q]
  constructor
  · rintro ⟨a, b⟩; exact ⟨a, fun e => b (Nat.add_right_cancel e)⟩
  · rintro ⟨a, b⟩; exact ⟨a, fun e => b (by rw [e])⟩

/-- replace the holder list, then drop the pool from `p`'s held list -/
theorem PSt.dropKey {w0 w w1 : World} {pl : Nat} {v : PView} (h : PSt w0 w pl v) {h' : HH} {p : Pid}
    (hu : PoolUpd w w1 pl ⟨v.cap, v.inUse, h'⟩) (hsame : ∀ q, (w1.proc q).held = (w.proc q).held)
    (ok' : HoldersOK w0.procs.size (prOf w0) h')
    (hkeys : ∀ k, k ∈ keys (abs h') ↔ k ∈ keys (abs v.holders) ∧ k ≠ p + 1) :
    PSt w0 (removeHeld w1 p (.pool pl)).1 pl ⟨v.cap, v.inUse, h'⟩ := by
  obtain ⟨hsz, hvw⟩ := removeHeld_viewFacts w1 p (.pool pl)
  refine ⟨h.upd.trans (hu.trans ⟨hsz, by rw [hvw]; exact hu.view, fun pl' _ => hvw pl', ?_,
    prOf_of_fp (removeHeld_fp w1 p (.pool pl)) rfl⟩), ok', ?_⟩
  · intro q pl' hne
    rw [removeHeld_mem]
    constructor
    · exact fun a => a.1
    · exact fun a => ⟨a, fun e => hne e.2⟩
  · refine linked_drop h.lk hkeys ?_
    intro q
    rw [removeHeld_mem, hsame q]
    constructor
    · rintro ⟨a, b⟩; exact ⟨a, fun e => b ⟨e, rfl⟩⟩
    · rintro ⟨a, b⟩; exact ⟨a, fun e => b e.1⟩

/-- same, when nothing has to be dropped from the held list because the key was not there -/
theorem PSt.dropAbsent {w0 w w1 : World} {pl : Nat} {v : PView} (h : PSt w0 w pl v) {h' : HH} {p : Pid}
    (hu : PoolUpd w w1 pl ⟨v.cap, v.inUse, h'⟩) (hsame : ∀ q, (w1.proc q).held = (w.proc q).held)
    (ok' : HoldersOK w0.procs.size (prOf w0) h')
    (hkeys : ∀ k, k ∈ keys (abs h') ↔ k ∈ keys (abs v.holders) ∧ k ≠ p + 1)
    (habs : p + 1 ∉ keys (abs v.holders)) :
    PSt w0 w1 pl ⟨v.cap, v.inUse, h'⟩ := by
  refine ⟨h.upd.trans hu, ok', ?_⟩
  intro q
  rw [hsame q, h.lk q, hkeys]
  constructor
  · intro a; exact ⟨a, fun e => habs (e ▸ a)⟩
  · exact fun a => a.1

/-- the holder list of pool `pl` is replaced (the `modify` form of the update) -/
theorem modifyHolders_upd {w : World} {pl : Nat} {v : PView} (hv : poolView w pl = some v) (h' : HH) :
    PoolUpd w { w with pools := w.pools.modify pl fun y => { y with holders := h' } } pl ⟨v.cap, v.inUse, h'⟩ := by
  obtain ⟨x, hx, rfl⟩ := poolView_some.1 hv
  refine ⟨rfl, ?_, ?_, fun _ _ _ => Iff.rfl, rfl⟩
  · unfold poolView
    show ((w.pools.modify pl _)[pl]?).map Pool.view = _
    rw [poolView_modify, if_pos rfl, hx]; rfl
  · intro pl' hne
    unfold poolView
    show ((w.pools.modify pl _)[pl']?).map Pool.view = _
    rw [poolView_modify, if_neg hne]; rfl

end CimbaModel.Sim
