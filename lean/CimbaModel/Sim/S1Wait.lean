/-
  S1 — waiting for the end of a process (C09): the registration invariant `WInv`.
  Views: `pa w p` (which process ends `p` awaits), the waiter lists, the suspended frame, and the number `np w p` of
  pending process-end wake-ups addressed to `p`.
-/
import CimbaModel.Sim.S1Pend

namespace CimbaModel.Sim
open CimbaModel CimbaModel.Event CimbaModel.Generated
open CimbaModel.HashHeap (HTag Item Order HH)

/-- a pending process-end wake-up for `z` -/
def isAProc (z : Pid) (it : Item) : Bool := it.a = aProc && it.b = z + 1

/-- number of pending process-end wake-ups addressed to `z` -/
def np (w : World) (z : Pid) : Nat := cnt (isAProc z) w

/-- **the registration invariant for `wait_process`** -/
structure WInv (w : World) : Prop where
  /-- a registered waiter awaits that process -/
  reg : ∀ p q, p ∈ (w.proc q).waiters → q ∈ w.pa p
  /-- nobody is registered twice -/
  nodup : ∀ q, (w.proc q).waiters.Nodup
  /-- a process awaits at most one process end, and only while suspended in `wait_process` on it -/
  frame : ∀ p, w.pa p = [] ∨ ∃ q, w.pa p = [q] ∧ (w.proc p).blocked = some (.waitProc q)
  /-- at most one process-end wake-up is pending per process -/
  one : ∀ p, np w p ≤ 1
  /-- a process with a pending process-end wake-up still awaits a process end and is registered nowhere -/
  woken : ∀ p, 0 < np w p → w.pa p ≠ [] ∧ ∀ q, p ∉ (w.proc q).waiters
  /-- process-end wake-ups are addressed to processes -/
  subj : ∀ e ∈ w.ev.pending, e.item.a = aProc → 1 ≤ e.item.b

/-- a process that awaits no process end is registered nowhere and has no process-end wake-up pending -/
theorem WInv.free {w : World} (h : WInv w) (p : Pid) (hp : w.pa p = []) :
    (∀ q, p ∉ (w.proc q).waiters) ∧ np w p = 0 := by
  constructor
  · intro q hm
    have := h.reg p q hm
    rw [hp] at this; cases this
  · apply Classical.byContradiction
    intro hn
    exact (h.woken p (by omega)).1 hp

/-- the invariant looks at four views only; the wake-up count may shrink; the frame of a process that awaits no
    process end is irrelevant -/
theorem WInv.of_views {w w' : World} (h : WInv w)
    (hpa : ∀ z, w'.pa z = w.pa z) (hwt : ∀ q, (w'.proc q).waiters = (w.proc q).waiters)
    (hbl : ∀ z, w.pa z ≠ [] → (w'.proc z).blocked = (w.proc z).blocked)
    (hnp : ∀ z, np w' z ≤ np w z)
    (hsub : ∀ e ∈ w'.ev.pending, e.item.a = aProc → 1 ≤ e.item.b) : WInv w' := by
  refine ⟨?_, ?_, ?_, ?_, ?_, hsub⟩
  · intro p q hm; rw [hwt] at hm; rw [hpa]; exact h.reg p q hm
  · intro q; rw [hwt]; exact h.nodup q
  · intro p
    rcases h.frame p with e | ⟨q, e, b⟩
    · left; rw [hpa]; exact e
    · right; refine ⟨q, by rw [hpa]; exact e, ?_⟩
      rw [hbl p (by rw [e]; simp)]; exact b
  · intro p; exact Nat.le_trans (hnp p) (h.one p)
  · intro p hp
    have := h.woken p (Nat.lt_of_lt_of_le hp (hnp p))
    refine ⟨by rw [hpa]; exact this.1, fun q => by rw [hwt]; exact this.2 q⟩

/-! ### `np` under the library steps: the transport predicate -/

/-- the actions other than the process-end wake-up -/
def notProc (a : Nat) : Bool := a != aProc

theorem allButProc_notProc : AllButProc notProc := by
  constructor <;> decide

/-- "no more process-end wake-ups than in `w0`, for every process" -/
theorem npLe_closed (w0 : World) : EvClosed notProc fun w => ∀ z, np w z ≤ np w0 z where
  ev_only := fun h e z => by unfold np; rw [cnt_of_ev e]; exact h z
  sub := fun w ev' hs h z => by
    have : np { w with ev := ev' } z ≤ np w z := hs.countP_le
    exact Nat.le_trans this (h z)
  sched := fun w a s sig t pri ha h z => by
    have hn : isAProc z ⟨a, s, encSig sig, 0⟩ = false := by
      unfold isAProc notProc at *
      simp at ha ⊢
      intro e; exact absurd e ha
    exact Nat.le_trans (cnt_sched_of_not _ w a s sig t pri hn) (h z)

/-- the event-queue part of the invariant relative to a starting world -/
def WEv (w0 w : World) : Prop :=
  (∀ z, np w z ≤ np w0 z) ∧ ∀ e ∈ w.ev.pending, e.item.a = aProc → 1 ≤ e.item.b

theorem wev_closed (w0 : World) : EvClosed notProc (WEv w0) where
  ev_only := fun h e => ⟨(npLe_closed w0).ev_only h.1 e, by rw [e]; exact h.2⟩
  sub := fun w ev' hs h => ⟨(npLe_closed w0).sub w ev' hs h.1, fun e he => h.2 e (hs.subset he)⟩
  sched := fun w a s sig t pri ha h => by
    refine ⟨(npLe_closed w0).sched w a s sig t pri ha h.1, ?_⟩
    intro e he hp
    rcases sched_pending_cases w a s sig t pri with e' | e' <;> rw [e'] at he
    · exact h.2 e he hp
    · rcases List.mem_cons.1 he with rfl | he
      · simp [notProc] at ha; exact absurd hp ha
      · exact h.2 e he hp

theorem WInv.wev {w : World} (h : WInv w) : WEv w w := ⟨fun _ => Nat.le_refl _, h.subj⟩

/-! ### `pa` under the steps that change the awaits -/

@[simp] theorem procOf_proc (q : Pid) : procOf (.proc q) = some q := rfl
@[simp] theorem procOf_time (h : Nat) : procOf (.time h) = none := rfl
@[simp] theorem procOf_guard (g : Nat) : procOf (.guard g) = none := rfl
@[simp] theorem procOf_event (h : Nat) : procOf (.event h) = none := rfl


@[simp] theorem pa_mk (w : World) (ev : EvQ) (evW : List (Nat × List Pid)) (guards : Array Guard)
    (res : Array Res) (pools : Array Pool) (bufs : Array Buf) (oqs : Array OQ) (pqs : Array PQ) (conds : Array Nat)
    (flags : Array Int) (gvars : Array Nat) (log : Array String) (fault : Option String) (d : Nat) (q : Pid) :
    World.pa ⟨ev, evW, w.procs, guards, res, pools, bufs, oqs, pqs, conds, flags, gvars, log, fault, d⟩ q
      = w.pa q := rfl

theorem pa_modProc (w : World) (p : Pid) (f : Proc → Proc) (z : Pid) :
    (w.modProc p f).pa z = if z = p ∧ p < w.procs.size then
      (f (w.proc p)).awaits.filterMap procOf else w.pa z := by
  unfold World.pa; rw [proc_modProc]; split <;> rfl

@[simp] theorem pa_modProc_keep (w : World) (p : Pid) (f : Proc → Proc) (hf : ∀ x, (f x).awaits = x.awaits) (z : Pid) :
    (w.modProc p f).pa z = w.pa z := by
  rw [pa_modProc]; split
  · rename_i h; obtain ⟨rfl, _⟩ := h; unfold World.pa; rw [hf]
  · rfl

@[simp] theorem addAwait_pa_other (w : World) (p : Pid) (a : Await) (ha : ∀ q, a ≠ .proc q) (z : Pid) :
    (addAwait w p a).pa z = w.pa z := by
  unfold addAwait
  rw [pa_modProc]; split
  · rename_i h; obtain ⟨rfl, _⟩ := h
    unfold World.pa
    cases a <;> simp_all [List.filterMap_cons]
  · rfl

theorem filterMap_removeFirst_other (l : List Await) (a : Await) (ha : ∀ q, a ≠ .proc q) :
    (removeFirst l a).1.filterMap procOf
      = l.filterMap procOf := by
  induction l with
  | nil => rfl
  | cons x xs ih =>
    unfold removeFirst
    split
    · rename_i e; subst e
      cases x <;> simp_all [List.filterMap_cons]
    · dsimp only
      rw [List.filterMap_cons, List.filterMap_cons, ih]

@[simp] theorem removeAwait_pa_other (w : World) (p : Pid) (a : Await) (ha : ∀ q, a ≠ .proc q) (z : Pid) :
    (removeAwait w p a).1.pa z = w.pa z := by
  unfold removeAwait; dsimp only
  rw [pa_modProc]; split
  · rename_i h; obtain ⟨rfl, _⟩ := h
    unfold World.pa; dsimp only
    exact filterMap_removeFirst_other _ a ha
  · rfl

theorem filterMap_go_other (k : Await → Bool) (hk : ∀ q, k (.proc q) = false) (l : List Await) :
    (removeAwaitKind.go k l).1.filterMap procOf
      = l.filterMap procOf := by
  induction l with
  | nil => rfl
  | cons x xs ih =>
    unfold removeAwaitKind.go
    split
    · rename_i e
      cases x <;> simp_all [List.filterMap_cons]
    · dsimp only
      rw [List.filterMap_cons, List.filterMap_cons, ih]

@[simp] theorem removeAwaitKind_pa_other (w : World) (p : Pid) (k : Await → Bool) (hk : ∀ q, k (.proc q) = false)
    (z : Pid) : (removeAwaitKind w p k).1.pa z = w.pa z := by
  unfold removeAwaitKind; dsimp only
  rw [pa_modProc]; split
  · rename_i h; obtain ⟨rfl, _⟩ := h
    unfold World.pa; dsimp only
    exact filterMap_go_other k hk _
  · rfl

@[simp] theorem timerAdd_pa (w : World) (p : Pid) (d sig : Int) (z : Pid) : (timerAdd w p d sig).1.pa z = w.pa z := by
  rw [timerAdd_fst, addAwait_pa_other _ _ _ (by intro q; simp)]; simp

@[simp] theorem timerCancel_pa (w : World) (p : Pid) (x : Nat) (z : Pid) : (timerCancel w p x).1.pa z = w.pa z := by
  rw [timerCancel_fst]; simp

@[simp] theorem timersClear_pa (w : World) (p : Pid) (z : Pid) : (timersClear w p).pa z = w.pa z := by
  have hstep : ∀ (w : World) (x : Nat), (evCancel w x).1.pa z = w.pa z := by intros; simp
  unfold timersClear; dsimp only
  rw [foldl_keeps (fun w => w.pa z) _ hstep, pa_modProc]
  split
  · rename_i h; obtain ⟨rfl, _⟩ := h
    unfold World.pa; dsimp only
    induction (w.proc z).awaits with
    | nil => rfl
    | cons a l ih =>
      cases a <;> simp_all [List.filter_cons, List.filterMap_cons]
  · rfl

@[simp] theorem guardWaitEnter_pa (w : World) (g : Nat) (p : Pid) (d : Demand) (z : Pid) :
    (guardWaitEnter w g p d).pa z = w.pa z := by
  unfold guardWaitEnter
  split
  · simp
  · split
    · rw [addAwait_pa_other _ _ _ (by intro q; simp)]
      exact pa_congr (fun q => rfl) z
    · simp

@[simp] theorem guardWaitLeave_pa (w : World) (g : Nat) (p : Pid) (sig : Int) (z : Pid) :
    (guardWaitLeave w g p sig).pa z = w.pa z := by
  unfold guardWaitLeave; dsimp only
  rw [removeAwait_pa_other _ _ _ (by intro q; simp)]
  split <;> simp

/-! ### `removeFirst` -/

theorem removeFirst_flag {α : Type _} [DecidableEq α] (l : List α) (a : α) : (removeFirst l a).2 = true ↔ a ∈ l := by
  induction l with
  | nil => simp [removeFirst]
  | cons x xs ih =>
    unfold removeFirst
    by_cases e : x = a
    · simp [e]
    · simp only [e, if_false, List.mem_cons]
      rw [ih]
      constructor
      · intro h; exact Or.inr h
      · rintro (h | h)
        · exact absurd h.symm e
        · exact h

theorem removeFirst_sublist {α : Type _} [DecidableEq α] (l : List α) (a : α) : (removeFirst l a).1.Sublist l := by
  induction l with
  | nil => exact List.Sublist.refl _
  | cons x xs ih =>
    unfold removeFirst
    by_cases e : x = a
    · simp only [e, if_true]; exact List.sublist_cons_self _ _
    · simp only [e, if_false]; exact ih.cons₂ _

theorem removeFirst_mem {α : Type _} [DecidableEq α] {l : List α} {a x : α} (h : x ∈ (removeFirst l a).1) : x ∈ l :=
  (removeFirst_sublist l a).subset h

theorem removeFirst_mem_ne {α : Type _} [DecidableEq α] {l : List α} {a x : α} (h : x ∈ l) (hx : x ≠ a) :
    x ∈ (removeFirst l a).1 := by
  induction l with
  | nil => cases h
  | cons y ys ih =>
    unfold removeFirst
    by_cases e : y = a
    · simp only [e, if_true]
      rcases List.mem_cons.1 h with rfl | h
      · exact absurd e hx
      · exact h
    · simp only [e, if_false]
      rcases List.mem_cons.1 h with rfl | h
      · exact List.mem_cons_self
      · exact List.mem_cons_of_mem _ (ih h)

theorem removeFirst_nodup {α : Type _} [DecidableEq α] {l : List α} (a : α) (h : l.Nodup) : (removeFirst l a).1.Nodup :=
  h.sublist (removeFirst_sublist l a)

theorem removeFirst_not_mem {α : Type _} [DecidableEq α] {l : List α} (a : α) (h : l.Nodup) : a ∉ (removeFirst l a).1 := by
  induction l with
  | nil => simp [removeFirst]
  | cons y ys ih =>
    rw [List.nodup_cons] at h
    unfold removeFirst
    by_cases e : y = a
    · simp only [e, if_true]; rw [← e]; exact h.1
    · simp only [e, if_false, List.mem_cons, not_or]
      exact ⟨fun x => e x.symm, ih h.2⟩

theorem removeFirst_absent {α : Type _} [DecidableEq α] {l : List α} {a : α} (h : a ∉ l) : (removeFirst l a).1 = l := by
  induction l with
  | nil => rfl
  | cons y ys ih =>
    simp only [List.mem_cons, not_or] at h
    unfold removeFirst
    have : ¬ y = a := fun e => h.1 e.symm
    simp only [this, if_false]
    rw [ih h.2]

end CimbaModel.Sim
