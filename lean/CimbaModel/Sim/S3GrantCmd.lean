/-
  S3 — the grant invariant, part 17: the remaining commands (priority change, the commands that do not touch objects or
  waiting lists, process end) and the frames that do not wait on a guard.
-/
import CimbaModel.Sim.S3GrantPQ

namespace CimbaModel.Sim.S3
open CimbaModel CimbaModel.Sim CimbaModel.Event CimbaModel.Generated CimbaModel.KPQ
open CimbaModel.HashHeap (HTag Item Order HH WF abs liveTags)

variable {fr : Pid → Option Frame} {df df' : Demand → Nat} {w : World} {p : Pid}

/-! ### priority_set -/

theorem gs_reprioGuard (h : GS fr df w) (q : Pid) (v : Int) (g : Nat) : GS fr df (reprioGuard w q v g) := by
  cases hg : w.guards[g]? with
  | none => unfold S3.reprioGuard; rw [hg]; exact h
  | some gd =>
    obtain ⟨hin, hout⟩ := reprioGuard_spec hg (h.ginv.gw g gd hg) q v
    by_cases hk : q + 1 ∈ keys (abs gd.q)
    · obtain ⟨q', hwf', hperm, heq⟩ := hin hk
      have hsub : ∀ k, k ∈ keys (abs q') → k ∈ keys (abs gd.q) := by
        intro k hk'
        have : (keys (abs q')).Perm (keys (setPrio (abs gd.q) (q + 1) v)) := hperm.map _
        rw [keys_setPrio] at this
        exact this.mem_iff.1 hk'
      have hG := h.ginv.reprioGuard q v g
      rw [heq] at hG ⊢
      exact ⟨hG, (h.qi.shrinkQueue hg hwf' hsub).hg, h.gi.shrinkQueue hg hsub⟩
    · rw [hout hk]; exact h

theorem gs_prioAwaitStep (h : GS fr df w) (q : Pid) (v : Int) (a : Await) : GS fr df (prioAwaitStep q v w a) := by
  unfold S3.prioAwaitStep
  split
  · split
    · rename_i hr; exact h.inert (h.ginv.reprioEv hr) ((Inert.refl w).reprioEv hr)
    · exact h.fail _
  · exact gs_reprioGuard h q v _
  · exact h

theorem gs_prioHeldStep (h : GS fr df w) (q : Pid) (v : Int) (x : HoldRef) : GS fr df (prioHeldStep q v w x) := by
  unfold S3.prioHeldStep; gs

theorem gs_foldl {α : Type} {f : World → α → World} (hf : ∀ w a, GS fr df w → GS fr df (f w a)) :
    ∀ (l : List α) {w : World}, GS fr df w → GS fr df (l.foldl f w) := by
  intro l
  induction l with
  | nil => intro w h; exact h
  | cons a l ih => intro w h; exact ih (hf w a h)

theorem gs_cmd_prioSet (h : GS fr df w) (q : Pid) (v : Int) : GH df (execCmd w p (.prioSet q v)).1 := by
  by_cases hq : q < w.procs.size
  · rw [prioSet_eq w p q v hq]
    dsimp only
    refine GS.gh (fr := fr) ?_
    refine gs_foldl (fun w x h => gs_prioHeldStep h q v x) _ ?_
    refine gs_foldl (fun w x h => gs_prioAwaitStep h q v x) _ ?_
    exact h.inert (h.ginv.modProc_ctl q _ (fun _ => ⟨rfl, rfl⟩)) ((Inert.refl w).modProc q _ (fun _ => rfl))
  · have : q ≥ w.procs.size := Nat.le_of_not_lt hq
    simp only [execCmd, this, if_true]
    exact h.gh

/-! ### commands that touch neither objects nor waiting lists -/

macro_rules | `(tactic| inert_step) => `(tactic| (with_reducible refine Inert.addAwait ?_ _ _ rfl))
macro_rules | `(tactic| inert_step) => `(tactic| (with_reducible refine Inert.removeAwait_fst ?_ _ _ rfl))

def InertCmd : Cmd → Prop
  | .hold _ | .yield | .timerAdd _ _ _ | .timerSet _ _ _ | .timerCancel _ | .timersClear | .resume _ _ | .interrupt _ _ _
  | .start _ | .waitProc _ | .schedUser _ _ _ | .cancelUser _ | .waitEvent _ | .setFlag _ _ | .recStart _ _ | .recStop _ _
  | .pqPos _ _ | .cancelUserAll | .timersClearOf _ | .timerAddOf _ _ _ => True
  | _ => False

/-- these commands leave the waiting lists, the objects, the RESOURCE awaitables and the pending grants alone — provided
    the handles they cancel by value are not handles of grants -/
theorem inert_execCmd (c : Cmd) (hc : InertCmd c) (hi : EvInv w.ev)
    (hcv : ∀ v, (c = .cancelUser v ∨ c = .timerCancel v) → NG w (getVar w p v))
    (hat : ∀ q k, Await.time k ∈ (w.proc q).awaits → NG w k) : Inert w (execCmd w p c).1 := by
  have h0 := Inert.refl w
  cases c with
  | timerSet v d sig =>
    simp only [Sim.execCmd]
    exact (((Inert.refl w).timersClear p (hat p)).timerAdd_fst p d sig).setVar p v _
  | timerCancel v =>
    simp only [Sim.execCmd]
    split
    · exact h0
    · exact h0.timerCancel_fst p _ (hcv v (Or.inr rfl))
  | timersClear =>
    simp only [Sim.execCmd]
    exact h0.timersClear p (hat p)
  | timersClearOf q =>
    simp only [Sim.execCmd]
    split
    · exact h0
    · exact h0.timersClear q (hat q)
  | timerAddOf q d sig => simp only [Sim.execCmd]; inert
  | cancelUser v =>
    simp only [Sim.execCmd]
    split
    · exact h0
    · exact h0.evCancel_fst _ (hcv v (Or.inl rfl))
  | cancelUserAll =>
    simp only [Sim.execCmd]
    exact h0.cancelUserAll_fst hi
  | hold d => simp only [Sim.execCmd]; inert
  | yield => simp only [Sim.execCmd]; inert
  | timerAdd v d sig => simp only [Sim.execCmd]; inert
  | resume q sig => simp only [Sim.execCmd]; inert
  | interrupt q sig pri => simp only [Sim.execCmd]; inert
  | start q => simp only [Sim.execCmd]; inert
  | waitProc q => simp only [Sim.execCmd]; inert
  | schedUser v d pri => simp only [Sim.execCmd]; inert
  | waitEvent v => simp only [Sim.execCmd]; inert
  | setFlag k v => simp only [Sim.execCmd]; inert
  | recStart kind idx => simp only [Sim.execCmd]; inert
  | recStop kind idx => simp only [Sim.execCmd]; inert
  | pqPos k v => simp only [Sim.execCmd]; inert
  | _ => exact hc.elim

/-- the frames that do not wait on a guard -/
theorem inert_resumeFrame (f : Frame) (sig : Int) (hi : EvInv w.ev)
    (hf : f = .yield ∨ (∃ q, f = .waitProc q) ∨ (∃ k, f = .waitEvent k) ∨ (∃ k, f = .hold k ∧ NG w k)) :
    Inert w (resumeFrame (w.modProc p fun y => { y with blocked := none }) p f sig).1 := by
  have h0 : Inert w (w.modProc p fun y => { y with blocked := none }) := by have h0 := Inert.refl w; inert
  have hiA : EvInv (w.modProc p fun y => { y with blocked := none }).ev := hi
  rcases hf with rfl | ⟨q, rfl⟩ | ⟨k, rfl⟩ | ⟨k, rfl, hng⟩
  · simp only [Sim.resumeFrame]; exact h0
  · simp only [Sim.resumeFrame]
    split
    · split
      · inert
      · exact (h0.removeAwait_fst p _ rfl).cancelKindFor_fst hiA p aProc none (by decide)
    · inert
  · simp only [Sim.resumeFrame]
    split
    · split
      · inert
      · exact (h0.removeAwait_fst p _ rfl).cancelKindFor_fst hiA p aEvent none (by decide)
    · inert
  · simp only [Sim.resumeFrame]
    split
    · exact (h0.timerCancel_fst p k hng).removeAwait_fst p _ rfl
    · exact h0

end CimbaModel.Sim.S3
