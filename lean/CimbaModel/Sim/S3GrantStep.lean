/-
  S3 — the grant invariant, part 7: the bundle carried through a command (`GS`) and its step lemmas:
  signal, object update, inert step, entering a wait, leaving a wait.
-/
import CimbaModel.Sim.S3GrantWait
import CimbaModel.Sim.S3GInvCmd

namespace CimbaModel.Sim.S3
open CimbaModel CimbaModel.Sim CimbaModel.Event CimbaModel.Generated CimbaModel.KPQ
open CimbaModel.HashHeap (HTag Item Order HH WF abs liveTags)

/-- what is carried through a command: the guard invariant, homogeneity, the grant invariant with deficits `df` -/
structure GS (fr : Pid → Option Frame) (df : Demand → Nat) (w : World) : Prop where
  ginv : GInv noEx fr w
  hg : HG w
  gi : GI df w

variable {fr : Pid → Option Frame} {df df' : Demand → Nat} {w : World}

theorem G_congr {w W : World} (hev : W.ev = w.ev) (hp : ∀ x, (W.proc x).awaits = (w.proc x).awaits) (g : Nat) : G W g = G w g := by
  unfold G grantKeys
  rw [hev]
  congr 2
  apply List.filter_congr
  intro e _
  simp only [decide_eq_decide]
  exact grantOf_congr hp g e

theorem GS.qi (h : GS fr df w) : QI noEx w := h.ginv.toQI h.hg

theorem GS.mono (h : GS fr df w) (hle : ∀ d, df d ≤ df' d) : GS fr df' w := ⟨h.ginv, h.hg, h.gi.mono hle⟩

theorem GS.signal (h : GS fr df w) (g : Nat) (h1 : ∀ d, gOf w d = some g → df d ≤ df' d + 1)
    (h2 : ∀ d, gOf w d ≠ some g → df d ≤ df' d) : GS fr df' (Sim.signal w g) :=
  ⟨h.ginv.signal g, (h.qi.signal g).hg, GI.signal h.qi h.gi g (fun _ _ => noEx_not _) h1 h2⟩

/-- a signal never hurts -/
theorem GS.signal_mono (h : GS fr df w) (g : Nat) : GS fr df (Sim.signal w g) :=
  h.signal g (fun _ _ => Nat.le_succ _) (fun _ _ => Nat.le_refl _)

theorem GS.inert {W : World} (h : GS fr df w) (hW : GInv noEx fr W) (hi : Inert w W) : GS fr df W :=
  ⟨hW, h.hg.inert hi, h.gi.inert h.ginv.ei hi⟩

/-- an update of the objects: `need` may go up by the amount the deficit goes up -/
theorem GS.bump {W : World} (h : GS fr df w) (hW : GInv noEx fr W) (hev : W.ev = w.ev) (hgd : W.guards = w.guards)
    (hp : ∀ x, (W.proc x).awaits = (w.proc x).awaits) (hgo : ∀ d, gOf W d = gOf w d)
    (hn : ∀ d, need W d + df d ≤ need w d + df' d) : GS fr df' W := by
  refine ⟨hW, ?_, ?_⟩
  · intro d g hd gd hgg k hk
    rw [hgo] at hd; rw [hgd] at hgg
    exact h.hg d g hd gd hgg k hk
  · intro d g hd hq
    rw [hgo] at hd
    obtain ⟨k, hk⟩ := hq
    have h1 := h.gi d g hd ⟨k, (queued_congr hgd g k).1 hk⟩
    have h2 : G W g = G w g := G_congr hev hp g
    have := hn d
    omega

/-- nothing available at `d0`: whatever deficit was booked there is void -/
theorem GI.clear (hgi : GI df w) (d0 : Demand) (h0 : need w d0 = 0) (hdf : ∀ d, d ≠ d0 → df d ≤ df' d) : GI df' w := by
  intro d g hd hq
  by_cases hdd : d = d0
  · subst hdd; omega
  · have := hgi d g hd hq
    have := hdf d hdd
    omega

theorem GS.clear (h : GS fr df w) (d0 : Demand) (h0 : need w d0 = 0) (hdf : ∀ d, d ≠ d0 → df d ≤ df' d) : GS fr df' w :=
  ⟨h.ginv, h.hg, h.gi.clear d0 h0 hdf⟩

/-- homogeneity and the grant invariant (what a command has to re-establish besides `GInv`) -/
def GH (df : Demand → Nat) (w : World) : Prop := HG w ∧ GI df w

theorem GS.gh (h : GS fr df w) : GH df w := ⟨h.hg, h.gi⟩

theorem GH.inert {W : World} (h : GH df w) (hi : EvInv w.ev) (hin : Inert w W) : GH df W := ⟨h.1.inert hin, h.2.inert hi hin⟩

/-! ### entering a wait -/

theorem GS.enterBlock (h : GS fr df w) {p : Pid} (g : Nat) (d : Demand) (f : Frame) (hfr : fr p = none)
    (hlt : p < w.procs.size) (hgf : FrameOn w f g) (hcond : ∀ c : Nat, w.conds[c]? = some g → ∃ c', f = .condWait c')
    (hdg : ∀ d', gOf w d' = some g → d' = d ∧ need w d ≤ G w g + df d) :
    GS (setFrame fr p (some f)) df (block (guardWaitEnter w g p d) p f).1 := by
  have hp := h.ginv
  suffices hs : HG (block (guardWaitEnter w g p d) p f).1 ∧ GI df (block (guardWaitEnter w g p d) p f).1 from
    ⟨hp.enterBlock g d f (noEx_not p) hfr hlt hgf hcond, hs.1, hs.2⟩
  have hc := hp.clean_of_none (noEx_not p) hfr
  cases hg : w.guards[g]? with
  | none =>
    have : guardWaitEnter w g p d = w.fail "no such guard" := by unfold guardWaitEnter; rw [hg]
    rw [this]
    have hi : Inert w (block (w.fail "no such guard") p f).1 := by have h0 := Inert.refl w; inert
    exact ⟨h.hg.inert hi, h.gi.inert hp.ei hi⟩
  | some gd =>
    have hwf := hp.gw g gd hg
    have h64 : p + 1 < 2 ^ 64 :=
      Nat.lt_of_le_of_lt (show p + 1 ≤ w.procs.size from hlt) (Nat.lt_trans hp.gsz (by decide))
    have hfresh : p + 1 ∉ keys (abs gd.q) := fun hk => hc.nq g ⟨gd, hg, hk⟩
    have hroom : gd.q.count < 2 ^ gd.q.exp ∨ gd.q.exp < 31 := by
      by_cases he : gd.q.exp < 31
      · exact Or.inr he
      · left
        have h31 : gd.q.exp = 31 := by have := hwf.expLe; omega
        rw [h31]
        exact Nat.lt_of_le_of_lt (hp.count_le hg) hp.gsz
    obtain ⟨q', _, hwf', hperm, heq⟩ := guardWaitEnter_spec hg hwf p d h64 hfresh hroom
    rw [heq]
    unfold enterWorld
    have hkeys : ∀ k, k ∈ keys (abs q') ↔ k = p + 1 ∨ k ∈ keys (abs gd.q) := by
      intro k
      have : (keys (abs q')).Perm ((p + 1) :: keys (abs gd.q)) := by
        have := hperm.map (·.key); simpa [keys] using this
      rw [this.mem_iff]; simp
    have hpr := block_addAwait_proc { w with guards := w.guards.set! g (enterGuard gd q' p d) } p (.guard g) f hlt
    show HG (block (addAwait { w with guards := w.guards.set! g (enterGuard gd q' p d) } p (.guard g)) p f).1 ∧
      GI df (block (addAwait { w with guards := w.guards.set! g (enterGuard gd q' p d) } p (.guard g)) p f).1
    generalize hWdef : (block (addAwait { w with guards := w.guards.set! g (enterGuard gd q' p d) } p (.guard g)) p f).1 = W
    have hpr' : ∀ x, (W.proc x).awaits = if x = p then .guard g :: (w.proc x).awaits else (w.proc x).awaits := by
      intro x; rw [← hWdef]; exact (hpr x).1
    have hev : W.ev = w.ev := by rw [← hWdef]; rfl
    have hgds : W.guards = w.guards.set! g (enterGuard gd q' p d) := by rw [← hWdef]; rfl
    have hqF : ∀ g' k, queued W g' k ↔ if g' = g then (k = p + 1 ∨ k ∈ keys (abs gd.q)) else queued w g' k := by
      intro g' k
      have := queued_set! hg (enterGuard gd q' p d) g' k
      rw [← hkeys k]
      unfold queued at this ⊢
      rw [hgds]; exact this
    have hgo : ∀ d', gOf W d' = gOf w d' := by
      intro d'; rw [← hWdef]; exact gOf_congr rfl rfl rfl rfl rfl d'
    have hnd : ∀ d', need W d' = need w d' := by
      intro d'; rw [← hWdef]; exact need_congr rfl rfl rfl rfl rfl d'
    have hGle : ∀ g', G w g' ≤ G W g' := by
      intro g'
      refine G_le_of_keep hp.ei g' ?_
      intro e he hgr
      refine ⟨e, by rw [hev]; exact he, rfl, hgr.1, ?_⟩
      have hgr2 := hgr.2
      rw [hpr']; split
      · exact List.mem_cons_of_mem _ hgr2
      · exact hgr2
    constructor
    · -- homogeneity
      intro d' g' hd' gd'' hgd'' k hk
      rw [hgo] at hd'
      rw [hgds] at hgd''
      by_cases hgg : g' = g
      · subst hgg
        have hsz := guards_lt_of_some hg
        simp only [Array.set!_eq_setIfInBounds, Array.getElem?_setIfInBounds, hsz, if_true] at hgd''
        cases hgd''
        unfold enterGuard
        rw [enter_demandOf]
        split
        · exact ((hdg d' hd').1).symm
        · rename_i hkp
          have hk' : k ∈ keys (abs gd.q) := by
            have := (hkeys k).1 hk
            rcases this with h' | h'
            · exact absurd h' hkp
            · exact h'
          exact h.hg d' g' hd' gd hg k hk'
      · have : (w.guards.set! g (enterGuard gd q' p d))[g']? = w.guards[g']? := by
          simp [Array.set!_eq_setIfInBounds, Array.getElem?_setIfInBounds, Ne.symm hgg]
        rw [this] at hgd''
        exact h.hg d' g' hd' gd'' hgd'' k hk
    · -- the grant invariant
      intro d' g' hd' hqn
      rw [hgo] at hd'
      rw [hnd]
      have := hGle g'
      by_cases hgg : g' = g
      · subst hgg
        obtain ⟨hdd, hb⟩ := hdg d' hd'
        subst hdd
        omega
      · obtain ⟨k, hk⟩ := hqn
        rw [hqF, if_neg hgg] at hk
        have := h.gi d' g' hd' ⟨k, hk⟩
        omega

/-! ### leaving a wait -/

theorem HG.ofGuards {w W : World} (h : HG w) (hgd : W.guards = w.guards) (hgo : ∀ d, gOf W d = gOf w d) : HG W := by
  intro d g hd gd hgg k hk
  rw [hgo] at hd; rw [hgd] at hgg
  exact h d g hd gd hgg k hk

/-- the epilogue of a guard wait (`guardWaitLeave` after the recorded frame has been cleared) keeps homogeneity and the
    grant invariant: a queued entry is withdrawn, a pending grant is passed on -/
theorem GS.leave (h : GS fr df w) {p : Pid} {f : Frame} {g : Nat} (hfr : fr p = some f) (hon : FrameOn w f g) (sig : Int)
    (hq : sig = sigSuccess → (∀ e ∈ w.ev.pending, isGrant e → e.item.b ≠ p + 1) ∧ ¬ queued w g (p + 1)) :
    HG (guardWaitLeave (w.modProc p fun y => { y with blocked := none }) g p sig) ∧
    GI df (guardWaitLeave (w.modProc p fun y => { y with blocked := none }) g p sig) := by
  have hp := h.ginv
  obtain ⟨hL, hleft⟩ := hp.leaveGuard (noEx_not p) hfr hon sig hq
  obtain ⟨hga, _, _, _, _⟩ := hp.guardFrame_facts (noEx_not p) hfr hon
  have hiA : Inert w (w.modProc p fun y => { y with blocked := none }) := by have h0 := Inert.refl w; inert
  have hqA : QI noEx (w.modProc p fun y => { y with blocked := none }) := h.qi.inert hiA
  have hgiA : GI df (w.modProc p fun y => { y with blocked := none }) := h.gi.inert hp.ei hiA
  have hawA : ((w.modProc p fun y => { y with blocked := none }).proc p).awaits = (w.proc p).awaits := by
    rw [modProc_proc]; split <;> rfl
  have hevA : (w.modProc p fun y => { y with blocked := none }).ev = w.ev := rfl
  generalize (w.modProc p fun y => { y with blocked := none }) = wA at hL hleft hqA hgiA hawA hevA
  have hb0 : ∀ e ∈ (guardWaitLeave wA g p sig).ev.pending, isG01 e → e.item.b ≠ 0 :=
    fun e he hg => (hL.gr e he (Or.inl hg)).1
  have hng : ∀ e ∈ (guardWaitLeave wA g p sig).ev.pending, isG01 e → e.item.b ≠ p + 1 :=
    fun e he hg => hleft.nr e he hg.1 hg.2
  unfold Sim.guardWaitLeave at hb0 hng ⊢
  by_cases hs : sig ≠ sigSuccess
  · rw [if_pos hs] at hb0 hng ⊢
    have hown : ∀ g', Await.guard g' ∈ (wA.proc p).awaits → g' = g := by
      intro g' hm
      rw [hawA, mem_awaits_guard] at hm
      rcases hga with h' | h'
      · rw [h'] at hm; cases hm
      · rw [h'] at hm; simpa using hm
    have hu : ∀ e1 ∈ wA.ev.pending, ∀ e2 ∈ wA.ev.pending, isG01 e1 → isG01 e2 → e1.item.b = p + 1 → e2.item.b = p + 1 → e1 = e2 := by
      intro e1 h1 e2 h2 g1 g2 b1 b2
      rw [hevA] at h1 h2
      exact hp.gu e1 h1 e2 h2 (Or.inl g1) (Or.inl g2) (b1.trans b2.symm) (noEx_not _)
    obtain ⟨hgi1, hq1⟩ := GI.guardWithdraw (df' := df) hqA hgiA g p hown hu (fun _ _ _ => noEx_not _)
      (fun _ _ => Nat.le_refl _) (fun _ _ => ⟨fun _ => Nat.le_succ _, fun _ => Nat.le_refl _⟩)
    rw [removeAwait_fst_eq]
    refine ⟨hq1.hg.ofGuards rfl (fun d => gOf_congr rfl rfl rfl rfl rfl d), ?_⟩
    exact hgi1.modAwaits hq1.ei p _ hng hb0
  · rw [if_neg hs] at hb0 hng ⊢
    rw [removeAwait_fst_eq]
    refine ⟨hqA.hg.ofGuards rfl (fun d => gOf_congr rfl rfl rfl rfl rfl d), ?_⟩
    exact hgiA.modAwaits hqA.ei p _ hng hb0

end CimbaModel.Sim.S3
