/-
  S1 — the holder invariant is preserved by every command, every resumption, every dispatched event.
-/
import CimbaModel.Sim.S1Holder

namespace CimbaModel.Sim
open CimbaModel CimbaModel.Event CimbaModel.Generated
open CimbaModel.HashHeap (HTag Item Order HH)

@[simp] theorem rv_modProc (w : World) (p : Pid) (f : Proc → Proc) (r : Nat) : (w.modProc p f).rv r = w.rv r := rfl

@[simp] theorem hcount_modProc_keep (w : World) (p : Pid) (f : Proc → Proc) (hf : ∀ x, (f x).held = x.held)
    (q : Pid) (r : Nat) : (w.modProc p f).hcount q r = w.hcount q r := by
  rw [hcount_modProc]; split
  · rename_i h; obtain ⟨rfl, _⟩ := h; unfold World.hcount; rw [hf]
  · rfl

/-- close `HInv w'` from `h : HInv w` when `w'` is `w` up to things the invariant does not look at -/
syntax "hinv_auto " ident : tactic
macro_rules
  | `(tactic| hinv_auto $h) =>
    `(tactic| first
        | with_reducible exact $h
        | (refine HInv.of_same $h ?_ ?_ <;> intros <;> simp <;> done)
        | (split <;> hinv_auto $h))

theorem hinv_finishProc {w : World} (h : HInv w) (p : Pid) (val : Int) (stopped : Bool) :
    HInv (finishProc w p val stopped) := by
  unfold finishProc
  zeta
  split
  · have h1 : HInv (cancelAwaiteds w p) := by hinv_auto h
    have h2 := hinv_dropResources h1 p
    hinv_auto h2
  · have h1 := hinv_dropResources h p
    hinv_auto h1

/-! ### switching the recording on and off -/

theorem rv_modify_keep (w : World) (i : Nat) (f : Res → Res)
    (hf : ∀ x, (f x).holder = x.holder ∧ (f x).guard = x.guard) (r' : Nat) :
    World.rv { w with res := w.res.modify i f } r' = w.rv r' := by
  unfold World.rv
  simp only [Array.getElem?_modify]
  split
  · cases w.res[r']? <;> simp [hf]
  · rfl

section
variable (w : World) (kind idx : Nat) (on : Bool)
world_frame setRecording : (setRecording w kind idx on) ~ w keeps ev evWaiters procs guards conds flags gvars now
  by (rcases kind with _|_|_|_|n <;> (simp only [setRecording]; split <;> simp))
@[simp] theorem setRecording_rv (r : Nat) : (setRecording w kind idx on).rv r = w.rv r := by
  rcases kind with _|_|_|_|n <;> simp only [setRecording] <;> split
  all_goals try (simp; done)
  all_goals try rw [recordRes_rv]
  · refine rv_modify_keep w idx _ ?_ r
    intro x; exact ⟨rfl, rfl⟩
  · refine Eq.trans (rv_modify_keep (recordRes w idx) idx _ ?_ r) (recordRes_rv _ _ _)
    intro x; exact ⟨rfl, rfl⟩
end

/-! ### changing a priority -/

theorem prioSet_res (w : World) (p q : Pid) (v : Int) : (execCmd w p (.prioSet q v)).1.res = w.res := by
  simp only [execCmd]
  split
  · rfl
  · dsimp only
    fold_world; fold_world; rfl

theorem prioSet_held (w : World) (p q : Pid) (v : Int) (q' : Pid) :
    ((execCmd w p (.prioSet q v)).1.proc q').held = (w.proc q').held := by
  simp only [execCmd]
  split
  · rfl
  · dsimp only
    fold_proc; fold_proc; frame_close

theorem hinv_acquireStep {w : World} (h : HInv w) (p : Pid) (hp : p < w.procs.size) (r : Nat) :
    HInv (acquireStep w p r).1 := by
  unfold acquireStep
  split
  · hinv_auto h
  · rename_i x hx
    split
    · rename_i hf
      have := hinv_grab h r p x hx (by simpa [Option.isNone_iff_eq_none] using hf) hp
      hinv_auto this
    · hinv_auto h

/-! ### release, preempt -/

theorem hinv_release {w : World} (h : HInv w) (p : Pid) (r : Nat) : HInv (execCmd w p (.release r)).1 := by
  simp only [execCmd]
  split
  · exact h
  · rename_i x hx
    split
    · exact h
    · rename_i hh
      have hh : x.holder = some p := Classical.not_not.1 hh
      dsimp only
      have hx1 : (removeHeld w p (.res r)).1.res[r]? = some x := by simp [hx]
      refine h.unhold r p (by rw [holder_eq w r x hx, hh]) ?_ ?_
      · intro q r'; simp
      · intro r'
        rw [signal_rv, recordRes_rv, rv_clear_set _ r x hx1]
        simp

theorem hinv_preempt {w : World} (h : HInv w) (p : Pid) (hp : p < w.procs.size) (r : Nat) :
    HInv (execCmd w p (.preempt r)).1 := by
  simp only [execCmd]
  split
  · exact h
  · rename_i x hx
    split
    · exact h
    · split
      · rename_i hnone
        have := hinv_grab h r p x hx hnone hp
        hinv_auto this
      · rename_i victim hv
        split
        · dsimp only
          refine hinv_grab ?h4 r p { x with holder := none } ?hx4 rfl ?hp
          case hp => simpa using hp
          case hx4 => simp [Array.getElem?_modify, hx]
          case h4 =>
            refine h.unhold r victim (by rw [holder_eq w r x hx, hv]) ?_ ?_
            · intro q r'; simp
            · intro r'; rw [sched_rv, rv_clear_modify]; simp
        · exact hinv_acquireStep h p hp r

/-! ### every command -/

theorem hinv_execCmd {w : World} (h : HInv w) (p : Pid) (hp : p < w.procs.size) (c : Cmd) :
    HInv (execCmd w p c).1 := by
  cases c
  case stop q v =>
    simp only [execCmd]
    split
    · exact hinv_finishProc h p v true
    · split
      · exact hinv_finishProc h q v true
      · exact h
  case exit v => exact hinv_finishProc h p v false
  case prioSet q v =>
    exact h.of_same (fun r => rv_congr (prioSet_res w p q v) r) (hcount_congr (prioSet_held w p q v))
  case acquire r => exact hinv_acquireStep h p hp r
  case preempt r => exact hinv_preempt h p hp r
  case release r => exact hinv_release h p r
  case recStart k i => simp only [execCmd]; hinv_auto h
  case recStop k i => simp only [execCmd]; hinv_auto h
  all_goals simp only [execCmd]
  all_goals hinv_auto h

/-! ### every resumption of a suspended call -/

theorem hinv_resumeFrame {w : World} (h : HInv w) (p : Pid) (hp : p < w.procs.size) (f : Frame) (sig : Int) :
    HInv (resumeFrame w p f sig).1 := by
  cases f
  case acquire r =>
    simp only [resumeFrame]
    split
    · exact h
    · rename_i x hx
      have h1 : HInv (guardWaitLeave w x.guard p sig) := by hinv_auto h
      split
      · exact hinv_acquireStep h1 p (by simpa using hp) r
      · exact h1
  all_goals simp only [resumeFrame]
  all_goals hinv_auto h

/-! ### running a script, resuming a process, dispatching an event, the run loop -/

theorem hinv_runScript : ∀ (fuel : Nat) {w : World}, HInv w → ∀ p, HInv (runScript fuel w p) := by
  intro fuel
  induction fuel with
  | zero => intro w h p; unfold runScript; hinv_auto h
  | succ n ih =>
    intro w h p
    unfold runScript
    dsimp only
    split
    · exact hinv_finishProc (by hinv_auto h) p 0 false
    · rename_i c text hc
      have hp : p < w.procs.size := lt_np_of_script w p _ _ hc
      have h1 : HInv (w.emit s!"c {p} {(w.proc p).pc} {w.now} {text}") := by hinv_auto h
      have h2 := hinv_execCmd h1 p (by simpa using hp) c
      split
      · rename_i w2 v extra heq
        rw [heq] at h2
        exact ih (by hinv_auto h2) p
      · rename_i w2 heq
        rw [heq] at h2
        exact ih (by hinv_auto h2) p
      · rename_i w2 heq
        rw [heq] at h2
        exact h2
      · rename_i w2 heq
        rw [heq] at h2
        split <;> hinv_auto h2

theorem hinv_resumeProc {w : World} (h : HInv w) (p : Pid) (sig : Int) : HInv (resumeProc w p sig) := by
  unfold resumeProc
  dsimp only
  split
  · hinv_auto h
  · rename_i hrun
    have hp : p < w.procs.size := lt_np_of_status w p (by
      intro e; apply hrun; rw [e]; decide)
    split
    · hinv_auto h
    · rename_i f hf
      have h1 : HInv (w.modProc p fun y => { y with blocked := none }) := by hinv_auto h
      have h2 := hinv_resumeFrame h1 p (by simpa using hp) f sig
      split
      · rename_i w2 v extra heq
        rw [heq] at h2
        exact hinv_runScript _ (by hinv_auto h2) p
      all_goals (rename_i w2 heq; rw [heq] at h2; exact h2)

theorem hinv_dispatch {w w' : World} (h : HInv w) (hd : dispatch w = some w') : HInv w' := by
  unfold dispatch at hd
  split at hd
  · cases hd
  · rename_i t ev' hex
    dsimp only at hd
    injection hd with hd
    subst hd
    have h0 : HInv (wakeEventWaiters
        { w with ev := ev', dispatched := w.dispatched + 1, evWaiters := (popWaiters w.evWaiters t.key).2 }
        (popWaiters w.evWaiters t.key).1 sigSuccess) := by
      refine HInv.of_same h ?_ ?_ <;> intros <;> simp
    split
    · split
      · hinv_auto h0
      · exact hinv_runScript _ (by hinv_auto h0) _
    · split
      · exact hinv_resumeProc (by hinv_auto h0) _ _
      · split
        · split
          · exact hinv_resumeProc (by hinv_auto h0) _ _
          · hinv_auto h0
        · split
          · split
            · exact hinv_resumeProc (by hinv_auto h0) _ _
            · hinv_auto h0
          · split
            · split
              · exact hinv_resumeProc h0 _ _
              · exact h0
            · split
              · split
                · exact hinv_resumeProc (by hinv_auto h0) _ _
                · hinv_auto h0
              · split
                · exact hinv_resumeProc (by hinv_auto h0) _ _
                · split
                  · exact hinv_resumeProc h0 _ _
                  · exact h0

theorem hinv_runAll : ∀ (fuel : Nat) {w : World}, HInv w → HInv (runAll fuel w) := by
  intro fuel
  induction fuel with
  | zero => intro w h; unfold runAll; hinv_auto h
  | succ n ih =>
    intro w h
    unfold runAll
    split
    · exact h
    · split
      · exact h
      · rename_i w' hd
        exact ih (hinv_dispatch h hd)

end CimbaModel.Sim


