/-
  S2 — recorded histories (C14): the five kinds together; what `record*` appends.
-/
import CimbaModel.Sim.S2HistRes
import CimbaModel.Sim.S2HistPool
import CimbaModel.Sim.S2HistQ

namespace CimbaModel.Sim
open CimbaModel CimbaModel.Event CimbaModel.Generated

/-- nothing is pending in the past, and every recordable object — resource, pool, buffer, object queue, priority
    queue — has a history with nondecreasing sample times not after `now` whose last sample, while recording is on,
    carries the current state value -/
def HistInv (w : World) : Prop :=
  TimeOk w.ev ∧ HistRes w ∧ HistPool w ∧ HistBuf w ∧ HistOQ w ∧ HistPQ w

theorem Preserved.of_iff {I J : World → Prop} (h : ∀ w, I w ↔ J w) (hI : Preserved I) : Preserved J where
  same hs hj := (h _).1 (hI.same hs ((h _).2 hj))
  tick he hj := (h _).1 (hI.tick he ((h _).2 hj))
  exec w p c hv hj := (h _).1 (hI.exec w p c hv ((h _).2 hj))
  resume w p f sig hv hfr hj := by
    obtain ⟨w0, h0, hb, e⟩ := hfr
    exact (h _).1 (hI.resume w p f sig hv ⟨w0, (h _).2 h0, hb, e⟩ ((h _).2 hj))
  finish w p v st hj := (h _).1 (hI.finish w p v st ((h _).2 hj))
  clear w p f hf hb hp hj := (h _).1 (hI.clear w p f hf hb hp ((h _).2 hj))

theorem HistInv.preserved : Preserved HistInv := by
  refine Preserved.of_iff ?_
    (HistRes.preserved.and (HistPool.preserved.and (HistBuf.preserved.and (HistOQ.preserved.and HistPQ.preserved))))
  intro w
  unfold HistInv
  constructor
  · rintro ⟨⟨t, a⟩, ⟨_, b⟩, ⟨_, c⟩, ⟨_, d⟩, ⟨_, e⟩⟩
    exact ⟨t, a, b, c, d, e⟩
  · rintro ⟨t, a, b, c, d, e⟩
    exact ⟨⟨t, a⟩, ⟨t, b⟩, ⟨t, c⟩, ⟨t, d⟩, ⟨t, e⟩⟩

/-! ### `history_complete_step`: while recording, each `record*` appends exactly one sample (current value, now);
    while not recording it appends nothing -/

theorem recordRes_appends {w : World} {i : Nat} {x : Res} (hx : w.res[i]? = some x) (hrec : x.recording = true) :
    ∃ y, (recordRes w i).res[i]? = some y ∧ y.hist = x.hist.push ((if x.holder.isSome then 1 else 0), w.now) ∧
      y.holder = x.holder ∧ y.recording = true := by
  rw [recordRes_eq]
  unfold genRecord
  rw [hx]
  simp only [resOps, hrec, if_true]
  refine ⟨{ x with hist := x.hist.push ((if x.holder.isSome then 1 else 0), w.now) }, ?_, rfl, rfl, hrec⟩
  rw [Array.set!_eq_setIfInBounds, Array.getElem?_setIfInBounds, if_pos rfl, if_pos (Array.getElem?_eq_some_iff.1 hx).1, hrec]

theorem recordPool_appends {w : World} {i : Nat} {x : Pool} (hx : w.pools[i]? = some x) (hrec : x.recording = true) :
    ∃ y, (recordPool w i).pools[i]? = some y ∧ y.hist = x.hist.push ((x.inUse : Int), w.now) ∧
      y.inUse = x.inUse ∧ y.recording = true := by
  rw [recordPool_eq]
  unfold genRecord
  rw [hx]
  simp only [poolOps, hrec, if_true]
  refine ⟨{ x with hist := x.hist.push ((x.inUse : Int), w.now) }, ?_, rfl, rfl, hrec⟩
  rw [Array.set!_eq_setIfInBounds, Array.getElem?_setIfInBounds, if_pos rfl, if_pos (Array.getElem?_eq_some_iff.1 hx).1, hrec]

theorem recordBuf_appends {w : World} {i : Nat} {x : Buf} (hx : w.bufs[i]? = some x) (hrec : x.recording = true) :
    ∃ y, (recordBuf w i).bufs[i]? = some y ∧ y.hist = x.hist.push ((x.level : Int), w.now) ∧
      y.level = x.level ∧ y.recording = true := by
  rw [recordBuf_eq]
  unfold genRecord
  rw [hx]
  simp only [bufOps, hrec, if_true]
  refine ⟨{ x with hist := x.hist.push ((x.level : Int), w.now) }, ?_, rfl, rfl, hrec⟩
  rw [Array.set!_eq_setIfInBounds, Array.getElem?_setIfInBounds, if_pos rfl, if_pos (Array.getElem?_eq_some_iff.1 hx).1, hrec]

theorem recordOQ_appends {w : World} {i : Nat} {x : OQ} (hx : w.oqs[i]? = some x) (hrec : x.recording = true) :
    ∃ y, (recordOQ w i).oqs[i]? = some y ∧ y.hist = x.hist.push ((x.items.length : Int), w.now) ∧
      y.items = x.items ∧ y.recording = true := by
  rw [recordOQ_eq]
  unfold genRecord
  rw [hx]
  simp only [oqOps, hrec, if_true]
  refine ⟨{ x with hist := x.hist.push ((x.items.length : Int), w.now) }, ?_, rfl, rfl, hrec⟩
  rw [Array.set!_eq_setIfInBounds, Array.getElem?_setIfInBounds, if_pos rfl, if_pos (Array.getElem?_eq_some_iff.1 hx).1, hrec]

theorem recordPQ_appends {w : World} {i : Nat} {x : PQ} (hx : w.pqs[i]? = some x) (hrec : x.recording = true) :
    ∃ y, (recordPQ w i).pqs[i]? = some y ∧ y.hist = x.hist.push ((x.queue.count : Int), w.now) ∧
      y.queue = x.queue ∧ y.recording = true := by
  rw [recordPQ_eq]
  unfold genRecord
  rw [hx]
  simp only [pqOps, hrec, if_true]
  refine ⟨{ x with hist := x.hist.push ((x.queue.count : Int), w.now) }, ?_, rfl, rfl, hrec⟩
  rw [Array.set!_eq_setIfInBounds, Array.getElem?_setIfInBounds, if_pos rfl, if_pos (Array.getElem?_eq_some_iff.1 hx).1, hrec]

/-- a state change of a buffer while recording: the pass of `get` that takes `rem` appends exactly one sample, the new
    level at the current time (the successful branch; the other branches and the other operations have the same shape:
    one raw update of the state value followed by one `record*`) -/
theorem bufGet_records {w : World} (p : Pid) {b : Nat} {x : Buf} (hx : w.bufs[b]? = some x) (rem got : Nat)
    (hge : x.level ≥ rem) (hrec : x.recording = true) :
    ∃ y, (bufGetLoop w p b rem got).1.bufs[b]? = some y ∧
      y.hist = x.hist.push (((x.level - rem : Nat) : Int), w.now) ∧ y.level = x.level - rem := by
  have hx' : ({ w with bufs := w.bufs.set! b { x with level := x.level - rem, getTotal := x.getTotal + rem } } : World).bufs[b]? =
      some { x with level := x.level - rem, getTotal := x.getTotal + rem } := by
    show (w.bufs.set! b _)[b]? = _
    rw [Array.set!_eq_setIfInBounds, Array.getElem?_setIfInBounds, if_pos rfl, if_pos (Array.getElem?_eq_some_iff.1 hx).1]
  obtain ⟨y, hy, hh, hl, _⟩ := recordBuf_appends hx' hrec
  refine ⟨y, ?_, hh, hl⟩
  unfold bufGetLoop
  simp only [hx, hge, if_true]
  split <;> simpa using hy

end CimbaModel.Sim
