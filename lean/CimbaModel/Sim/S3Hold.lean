/-
  S3 — holds and timers: what `hold d` arms, when it returns, and the pieces of "never stuck".
-/
import CimbaModel.Sim.S3Clock

namespace CimbaModel.Sim.S3
open CimbaModel CimbaModel.Sim CimbaModel.Event CimbaModel.Generated CimbaModel.KPQ
open CimbaModel.HashHeap (HTag Item Order HH WF abs liveTags)

/-! ### reachability -/

/-- `w'` is reached from `w` by dispatching events -/
inductive Reach : World → World → Prop
  | refl (w : World) : Reach w w
  | step {w w1 w2 : World} : Reach w w1 → dispatch w1 = some w2 → Reach w w2

/-- along any run: the kernel invariant holds, the clock and the handle counter never decrease, a fault is never
    cleared, and an event that is still pending has kept its time, action, subject and signal -/
theorem Reach.clock {w w' : World} (h : Reach w w') (hi : EvInv w.ev) :
    EvInv w'.ev ∧ w.now ≤ w'.now ∧ w.ev.counter ≤ w'.ev.counter ∧ (w'.fault = none → w.fault = none) ∧
    w'.procs.size = w.procs.size ∧
    (∀ e' ∈ w'.ev.pending, e'.key ≤ w.ev.counter → ∃ e ∈ w.ev.pending, e.key = e'.key ∧ e.d = e'.d ∧ e.item = e'.item) := by
  induction h with
  | refl => exact ⟨hi, Int.le_refl _, Nat.le_refl _, id, rfl, fun e he _ => ⟨e, he, rfl, rfl, rfl⟩⟩
  | step _ hd ih =>
    obtain ⟨h1, h2, h3, h4, h5, h6⟩ := ih
    have hs := dispatch_clock h1 hd
    refine ⟨hs.evinv, Int.le_trans h2 hs.mono, Nat.le_trans h3 hs.counter, fun hf => h4 (hs.fault hf),
      hs.psize.trans h5, ?_⟩
    intro e2 he2 hk
    obtain ⟨e1, he1, hk1, hd1, hi1⟩ := hs.stable e2 he2 (Nat.le_trans hk h3)
    obtain ⟨e0, he0, hk0, hd0, hi0⟩ := h6 e1 he1 (by rw [hk1]; exact hk)
    exact ⟨e0, he0, hk0.trans hk1, hd0.trans hd1, hi0.trans hi1⟩

/-- an invariant kept by `dispatch` and by writing a log line holds after `runAll` -/
theorem runAll_inv {I : World → Prop} (hemit : ∀ w l, I w → I (w.emit l))
    (hstep : ∀ w w', I w → w.fault = none → dispatch w = some w' → I w') :
    ∀ (fuel : Nat) (w : World), I w → I (runAll fuel w) := by
  intro fuel
  induction fuel with
  | zero => intro w h; exact hemit w _ h
  | succ fuel ih =>
    intro w h
    simp only [runAll]
    split
    · exact h
    · rename_i hf
      split
      · exact h
      · rename_i w' hd
        have : w.fault = none := by
          cases hw : w.fault with
          | none => rfl
          | some _ => rw [hw] at hf; simp at hf
        exact ih w' (hstep w w' h this hd)

/-! ### arming -/

theorem timerAdd_eq (w : World) (p : Pid) (d sig : Int) (hd : 0 ≤ d) :
    timerAdd w p d sig =
      (addAwait (pushEv w aTime (p + 1) sig (w.now + d) (w.proc p).prio) p (.time (w.ev.counter + 1)), w.ev.counter + 1) := by
  simp only [timerAdd, sched_ge w aTime (p + 1) sig (w.now + d) (w.proc p).prio (by omega)]

/-- the world in which `p` is suspended in `hold d` -/
def holdWorld (w : World) (p : Pid) (d : Int) : World :=
  (addAwait (pushEv w aTime (p + 1) sigSuccess (w.now + d) (w.proc p).prio) p (.time (w.ev.counter + 1))).modProc p
    fun x => { x with blocked := some (.hold (w.ev.counter + 1)) }

/-- `hold d` (d ≥ 0): the process arms one timer event — handle h = counter + 1, action aTime, addressed to it, carrying
    SUCCESS, due at exactly now + d, with its current priority —, registers it in its awaits and suspends in the frame
    `hold h`; the clock does not move -/
theorem hold_blocks (w : World) (p : Pid) (d : Int) (hd : 0 ≤ d) :
    execCmd w p (.hold d) = (holdWorld w p d, .blocked) ∧
    (holdWorld w p d).ev.pending =
      mkEv (w.ev.counter + 1) aTime (p + 1) sigSuccess (w.now + d) (w.proc p).prio :: w.ev.pending ∧
    (holdWorld w p d).now = w.now ∧ (holdWorld w p d).ev.counter = w.ev.counter + 1 ∧
    (p < w.procs.size → ((holdWorld w p d).proc p).blocked = some (.hold (w.ev.counter + 1)) ∧
      ((holdWorld w p d).proc p).awaits = .time (w.ev.counter + 1) :: (w.proc p).awaits ∧
      ((holdWorld w p d).proc p).status = (w.proc p).status) := by
  refine ⟨?_, rfl, rfl, rfl, ?_⟩
  · simp only [execCmd, timerAdd_eq w p d sigSuccess hd, block, holdWorld]
  · intro hp
    have hp' : p < (pushEv w aTime (p + 1) sigSuccess (w.now + d) (w.proc p).prio).procs.size := hp
    simp only [holdWorld, addAwait]
    rw [modProc_proc_self _ _ (by simpa using hp'), modProc_proc_self _ _ hp']
    exact ⟨rfl, rfl, rfl⟩

/-! ### returning -/

/-- resumed with SUCCESS a hold returns SUCCESS and touches nothing -/
theorem resumeFrame_hold_success (w : World) (p : Pid) (h : Nat) :
    resumeFrame w p (.hold h) sigSuccess = (w, .ret sigSuccess "") := by
  simp [resumeFrame]

/-- resumed with anything else it cancels its own timer, forgets it and returns that signal -/
theorem resumeFrame_hold_other (w : World) (p : Pid) (h : Nat) (sig : Int) (hs : sig ≠ sigSuccess) :
    resumeFrame w p (.hold h) sig = ((removeAwait (timerCancel w p h).1 p (.time h)).1, .ret sig "") := by
  simp [resumeFrame, hs]

/-- whatever it is resumed with, a hold returns exactly that value -/
theorem resumeFrame_hold_ret (w : World) (p : Pid) (h : Nat) (sig : Int) :
    (resumeFrame w p (.hold h) sig).2 = .ret sig "" := by
  by_cases hs : sig = sigSuccess
  · subst hs; rw [resumeFrame_hold_success]
  · rw [resumeFrame_hold_other w p h sig hs]

theorem encSig_lt (s : Int) : encSig s < 2 ^ 64 := by
  unfold encSig
  have h1 : 0 ≤ s % (2 ^ 64 : Int) := Int.emod_nonneg _ (by decide)
  have h2 : s % (2 ^ 64 : Int) < 2 ^ 64 := Int.emod_lt_of_pos _ (by decide)
  omega

theorem decSig_eq_zero {n : Nat} (hn : n < 2 ^ 64) : decSig n = 0 ↔ n = 0 := by
  unfold decSig
  split
  · omega
  · constructor
    · intro h; omega
    · intro h; omega

/-- the process continues with the value carried by the event -/
theorem resumeProc_hold {w : World} {p : Pid} {h : Nat} (hr : (w.proc p).status = .running)
    (hb : (w.proc p).blocked = some (.hold h)) :
    resumeProc w p sigSuccess =
      runScript ((w.proc p).script.size + 2)
        (((w.modProc p fun y => { y with blocked := none }).emit
            (s!"r {p} {(w.proc p).pc} {w.now} {sigSuccess}" ++ "")).modProc p fun y => { y with pc := (w.proc p).pc + 1 }) p := by
  simp only [resumeProc, hr, hb, resumeFrame_hold_success]
  simp

/-- dispatching a timer event: its registration is removed from the awaits of its process, which is then resumed with
    the value the event carries -/
theorem dispatchBody_time (w : World) (t : HTag) (ha : t.item.a = aTime) :
    dispatchBody w t = resumeProc (removeAwait w (t.item.b - 1) (.time t.key)).1 (t.item.b - 1) (decSig t.item.c) := by
  have h1 : ¬ aTime = aStart := by decide
  simp only [dispatchBody, ha, h1, if_false, if_true]

/-- `hold_exact`: a process that executes `hold d` (d ≥ 0) at time t₀: whenever — after any number of dispatched events —
    the event with the handle the hold has armed is the one that is dispatched, the clock is exactly t₀ + d at that
    moment, and the event is the (aTime, SUCCESS) wake-up of that process -/
theorem hold_exact {w0 : World} (p : Pid) {d : Int} (hd : 0 ≤ d) (hi : EvInv w0.ev) {w w' : World}
    (hreach : Reach (execCmd w0 p (.hold d)).1 w) (hdisp : dispatch w = some w')
    (hcur : w'.ev.current = w0.ev.counter + 1) :
    w'.now = w0.now + d ∧
    ∃ e ∈ w.ev.pending, e.key = w0.ev.counter + 1 ∧ e.d = w0.now + d ∧ e.item.a = aTime ∧ e.item.b = p + 1 ∧
      e.item.c = encSig sigSuccess ∧ decSig e.item.c = sigSuccess := by
  obtain ⟨hb, hpend, hnow, hctr, _⟩ := hold_blocks w0 p d hd
  rw [hb] at hreach
  have hi1 : EvInv (holdWorld w0 p d).ev := by
    have := (Evo.refl w0).execCmd_fst p (.hold d)
    rw [hb] at this
    exact this.evinv hi
  obtain ⟨hiw, _, _, _, _, hstab⟩ := hreach.clock hi1
  have hs := dispatch_clock hiw hdisp
  obtain ⟨e, he, _, hnow', _, hcur'⟩ := hs.ev
  have hk : e.key = w0.ev.counter + 1 := by rw [← hcur', hcur]
  obtain ⟨e1, he1, hk1, hd1, hi1'⟩ := hstab e he (by rw [hk, hctr]; exact Nat.le_refl _)
  -- e1 is the event armed by the hold: keys are unique
  have hhead : mkEv (w0.ev.counter + 1) aTime (p + 1) sigSuccess (w0.now + d) (w0.proc p).prio ∈
      (holdWorld w0 p d).ev.pending := by rw [hpend]; exact List.mem_cons_self
  have heq : e1 = mkEv (w0.ev.counter + 1) aTime (p + 1) sigSuccess (w0.now + d) (w0.proc p).prio :=
    HashHeap.eq_of_key_eq hi1.part.keysNodup he1 hhead (by rw [hk1, hk]; rfl)
  have hed : e.d = w0.now + d := by rw [← hd1, heq]; rfl
  have hit : e.item = ⟨aTime, p + 1, encSig sigSuccess, 0⟩ := by rw [← hi1', heq]; rfl
  refine ⟨by rw [hnow', hed], e, he, hk, hed, by rw [hit], by rw [hit], by rw [hit], ?_⟩
  rw [hit]; show decSig (encSig sigSuccess) = sigSuccess; decide

/-! ### never stuck: the wake-ups are there -/

/-- the state in which a finishing process wakes its waiters -/
def finishPre (w : World) (p : Pid) (stopped : Bool) : World :=
  if stopped then dropResources (cancelAwaiteds w p) p else cancelAwaiteds (dropResources w p) p

theorem finishProc_eq (w : World) (p : Pid) (val : Int) (stopped : Bool) :
    finishProc w p val stopped =
      (pushAll ((finishPre w p stopped).modProc p fun x => { x with waiters := [] })
          (procWakes (finishPre w p stopped) p (if stopped then sigStopped else sigSuccess))).modProc p
        fun x => { x with status := .finished, exitVal := val, blocked := none } := by
  unfold finishProc finishPre
  cases stopped <;> simp only [wakeWaiters_eq] <;> rfl

/-- when a process ends, every process registered as waiting for it gets a wake-up (aProc) pending at the current time,
    with SUCCESS (normal end) or STOPPED, and its own priority -/
theorem finishProc_wakes (w : World) (p : Pid) (val : Int) (stopped : Bool) (q : Pid)
    (hq : q ∈ ((finishPre w p stopped).proc p).waiters) :
    (∃ e ∈ (finishProc w p val stopped).ev.pending, e.item.a = aProc ∧ e.item.b = q + 1 ∧
      e.item.c = encSig (if stopped then sigStopped else sigSuccess) ∧ e.d = w.now ∧
      e.i = ((finishPre w p stopped).proc q).prio) ∧
    (finishProc w p val stopped).now = w.now := by
  have hnow : (finishPre w p stopped).now = w.now := by
    unfold finishPre
    split
    · exact (((Evo.refl w).cancelAwaiteds p).dropResources p).wnow
    · exact (((Evo.refl w).dropResources p).cancelAwaiteds p).wnow
  rw [finishProc_eq]
  refine ⟨?_, hnow⟩
  simp only [modProc_ev, pushAll_pending, modProc_now]
  obtain ⟨i, hi, hget⟩ := List.getElem_of_mem hq
  have hlen : i < (procWakes (finishPre w p stopped) p (if stopped then sigStopped else sigSuccess)).length := by
    simp [procWakes, hi]
  refine ⟨_, List.mem_append_left _ (mem_wakeEvs.2 ⟨i, hlen, rfl⟩), ?_⟩
  simp [procWakes, hget, mkEv, procWakes_prio, hnow]

/-- when an event is dispatched, every process registered as waiting for it gets a wake-up (aEvent, SUCCESS) pending at
    the time of the event, before the event's own action runs -/
theorem takeNext_wakes (w : World) (t : HTag) (ev' : EvQ) (q : Pid)
    (hq : q ∈ (w.evWaiters.lookup t.key).getD []) :
    ∃ e ∈ (takeNext w t ev').ev.pending, e.item.a = aEvent ∧ e.item.b = q + 1 ∧ e.item.c = encSig sigSuccess ∧
      e.d = ev'.now ∧ e.i = (w.proc q).prio := by
  unfold takeNext
  rw [wakeEventWaiters_eq]
  simp only [pushAll_pending, popWaiters]
  obtain ⟨i, hi, hget⟩ := List.getElem_of_mem hq
  refine ⟨_, List.mem_append_left _ (mem_wakeEvs.2 ⟨i, by simpa [evWakes] using hi, rfl⟩), ?_⟩
  simp [evWakes, hget, mkEv, afterNext, World.now]
  rfl

/-- … and their registrations are taken off the waiter table -/
theorem takeNext_evWaiters (w : World) (t : HTag) (ev' : EvQ) :
    (takeNext w t ev').evWaiters = w.evWaiters.filter (·.1 ≠ t.key) := by
  unfold takeNext
  rw [wakeEventWaiters_eq]
  rfl

/-- when an event is cancelled, its waiters get a wake-up (aEvent, CANCELLED) pending at the current time, and the
    event is no longer pending -/
theorem evCancel_wakes (w : World) (h : Nat) (hi : EvInv w.ev) (hk : h ∈ keys w.ev.pending) (q : Pid)
    (hq : q ∈ (w.evWaiters.lookup h).getD []) :
    (evCancel w h).2 = true ∧
    (∃ e ∈ (evCancel w h).1.ev.pending, e.item.a = aEvent ∧ e.item.b = q + 1 ∧ e.item.c = encSig sigCancelled ∧
      e.d = w.now ∧ e.i = (w.proc q).prio) ∧
    h ∉ keys (evCancel w h).1.ev.pending := by
  rw [evCancel_eq]
  simp only [hk, if_true, pushAll_pending, true_and]
  obtain ⟨i, hi', hget⟩ := List.getElem_of_mem hq
  refine ⟨⟨_, List.mem_append_left _ (mem_wakeEvs.2 ⟨i, by simpa [evWakes] using hi', rfl⟩), ?_⟩, ?_⟩
  · simp [evWakes, hget, mkEv]
  · intro hmem
    obtain ⟨e, he, hek⟩ := Event.mem_keys.1 hmem
    rcases List.mem_append.1 he with he | he
    · have h1 := (wakeEvs_props he).1
      obtain ⟨e0, he0, hk0⟩ := Event.mem_keys.1 hk
      have h2 := EvInv.key_le hi he0
      simp only [cancelEv_counter] at h1
      omega
    · exact (mem_remove.1 he).2 hek

end CimbaModel.Sim.S3
