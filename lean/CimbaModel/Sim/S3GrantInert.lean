/-
  S3 — the grant invariant, part 5: functions that neither touch the waiting lists nor remove a grant.
  `Inert w w'`: same guards, object ends not more available, same RESOURCE awaitables, every pending grant still pending.
-/
import CimbaModel.Sim.S3GrantSignal
import CimbaModel.Sim.S3GrantK2

namespace CimbaModel.Sim.S3
open CimbaModel CimbaModel.Sim CimbaModel.Event CimbaModel.Generated CimbaModel.KPQ
open CimbaModel.HashHeap (HTag Item Order HH WF abs liveTags)

structure Inert (w w' : World) : Prop where
  ei : EvInv w.ev → EvInv w'.ev
  guards : w'.guards = w.guards
  gof : ∀ d, gOf w' d = gOf w d
  need : ∀ d, need w' d ≤ need w d
  aw : ∀ x, guardAw w' x = guardAw w x
  keep : ∀ e ∈ w.ev.pending, isG01 e → ∃ e' ∈ w'.ev.pending, e'.key = e.key ∧ e'.item = e.item

theorem Inert.refl (w : World) : Inert w w :=
  ⟨id, rfl, fun _ => rfl, fun _ => Nat.le_refl _, fun _ => rfl, fun e he _ => ⟨e, he, rfl, rfl⟩⟩

theorem Inert.trans {w w1 w2 : World} (h1 : Inert w w1) (h2 : Inert w1 w2) : Inert w w2 := by
  refine ⟨fun h => h2.ei (h1.ei h), h2.guards.trans h1.guards, fun d => (h2.gof d).trans (h1.gof d),
    fun d => Nat.le_trans (h2.need d) (h1.need d), fun x => (h2.aw x).trans (h1.aw x), ?_⟩
  intro e he hg
  obtain ⟨e1, he1, hk1, hi1⟩ := h1.keep e he hg
  obtain ⟨e2, he2, hk2, hi2⟩ := h2.keep e1 he1 (by unfold isG01 at *; rw [hi1]; exact hg)
  exact ⟨e2, he2, hk2.trans hk1, hi2.trans hi1⟩

theorem grantOf_of_item {w w' : World} {g : Nat} {e e' : HTag} (hi : e'.item = e.item)
    (haw : guardAw w' (e.item.b - 1) = guardAw w (e.item.b - 1)) (h : grantOf w g e) : grantOf w' g e' := by
  unfold grantOf isG01 at *
  rw [hi]
  refine ⟨h.1, ?_⟩
  rw [mem_awaits_guard, haw, ← mem_awaits_guard]; exact h.2

theorem Inert.G_le {w w' : World} (h : Inert w w') (hi : EvInv w.ev) (g : Nat) : G w g ≤ G w' g := by
  refine G_le_of_keep hi g ?_
  intro e he hg
  obtain ⟨e', he', hk, hit⟩ := h.keep e he hg.1
  exact ⟨e', he', hk, grantOf_of_item hit (h.aw _) hg⟩

theorem queued_of_guards {w w' : World} (h : w'.guards = w.guards) {g k : Nat} : queued w' g k ↔ queued w g k :=
  queued_congr h g k

theorem GI.inert {df : Demand → Nat} {w w' : World} (hgi : GI df w) (hi : EvInv w.ev) (h : Inert w w') : GI df w' := by
  intro d g hd hq
  rw [h.gof] at hd
  obtain ⟨k, hk⟩ := hq
  have := hgi d g hd ⟨k, (queued_of_guards h.guards).1 hk⟩
  have := h.need d
  have := h.G_le hi g
  omega

theorem HG.inert {w w' : World} (hg : HG w) (h : Inert w w') : HG w' := by
  intro d g hd gd hgd k hk
  rw [h.gof] at hd
  rw [h.guards] at hgd
  exact hg d g hd gd hgd k hk

theorem QI.inert {ex : Pid → Prop} {w w' : World} (hq : QI ex w) (h : Inert w w') : QI ex w' := by
  refine ⟨h.ei hq.ei, fun g gd hg => hq.gwf g gd (by rw [← h.guards]; exact hg), ?_, hq.hg.inert h⟩
  intro g k hk
  obtain ⟨h1, h2⟩ := hq.gk g k ((queued_of_guards h.guards).1 hk)
  refine ⟨h1, fun hx => ?_⟩
  rw [mem_awaits_guard, h.aw, ← mem_awaits_guard]; exact h2 hx

/-! ### atomic transformers -/

/-- nothing relevant changed -/
theorem Inert.same {w0 w w' : World} (h : Inert w0 w) (hev : w'.ev = w.ev) (hg : w'.guards = w.guards)
    (hr : w'.res = w.res) (hpl : w'.pools = w.pools) (hb : w'.bufs = w.bufs) (ho : w'.oqs = w.oqs) (hq : w'.pqs = w.pqs)
    (ha : ∀ x, guardAw w' x = guardAw w x) : Inert w0 w' :=
  h.trans ⟨by rw [hev]; exact id, hg, gOf_congr hr hpl hb ho hq, fun d => Nat.le_of_eq (need_congr hr hpl hb ho hq d), ha,
    by rw [hev]; exact fun e he _ => ⟨e, he, rfl, rfl⟩⟩

theorem Inert.fail {w0 w : World} (h : Inert w0 w) (m : String) : Inert w0 (w.fail m) :=
  h.same (by simp) (by simp) (by simp) (by simp) (by simp) (by simp) (by simp) (fun x => by unfold guardAw; simp)
theorem Inert.emit {w0 w : World} (h : Inert w0 w) (l : String) : Inert w0 (w.emit l) :=
  h.same rfl rfl rfl rfl rfl rfl rfl (fun _ => rfl)
theorem Inert.modProc {w0 w : World} (h : Inert w0 w) (p : Pid) (f : Proc → Proc)
    (hf : ∀ x, (f x).awaits.filter isGuardA = x.awaits.filter isGuardA) : Inert w0 (w.modProc p f) := by
  refine h.same rfl rfl rfl rfl rfl rfl rfl (fun x => ?_)
  unfold guardAw
  rw [modProc_proc]; split
  · rename_i hq; rw [hq.1]; exact hf _
  · rfl
theorem Inert.setEvWaiters {w0 w : World} (h : Inert w0 w) (x : List (Nat × List Pid)) : Inert w0 { w with evWaiters := x } :=
  h.same rfl rfl rfl rfl rfl rfl rfl (fun _ => rfl)
theorem Inert.setFlags {w0 w : World} (h : Inert w0 w) (x : Array Int) : Inert w0 { w with flags := x } :=
  h.same rfl rfl rfl rfl rfl rfl rfl (fun _ => rfl)
theorem Inert.setGvars {w0 w : World} (h : Inert w0 w) (x : Array Nat) : Inert w0 { w with gvars := x } :=
  h.same rfl rfl rfl rfl rfl rfl rfl (fun _ => rfl)

/-- an update of the objects that makes nothing more available -/
theorem Inert.objs {w0 w w' : World} (h : Inert w0 w) (hev : w'.ev = w.ev) (hg : w'.guards = w.guards)
    (hp : w'.procs = w.procs) (hgo : ∀ d, gOf w' d = gOf w d) (hn : ∀ d, S3.need w' d ≤ S3.need w d) : Inert w0 w' :=
  h.trans ⟨by rw [hev]; exact id, hg, hgo, hn, fun x => by unfold guardAw World.proc; rw [hp],
    by rw [hev]; exact fun e he _ => ⟨e, he, rfl, rfl⟩⟩

theorem Inert.pushEv {w0 w : World} (h : Inert w0 w) (a s : Nat) (sig t pri : Int) (ht : w.now ≤ t) :
    Inert w0 (pushEv w a s sig t pri) :=
  h.trans ⟨pushEv_evinv a s sig t pri ht, rfl, fun _ => rfl, fun _ => Nat.le_refl _, fun _ => rfl,
    fun e he _ => ⟨e, by simp only [pushEv_pending]; exact List.mem_cons_of_mem _ he, rfl, rfl⟩⟩

theorem Inert.sched_fst {w0 w : World} (h : Inert w0 w) (a s : Nat) (sig t pri : Int) : Inert w0 (sched w a s sig t pri).1 := by
  rcases sched_cases w a s sig t pri with ⟨ht, he⟩ | ⟨_, m, he⟩
  · rw [he]; exact h.pushEv a s sig t pri ht
  · rw [he]; exact h.fail m

theorem Inert.pushAll {w0 w : World} (h : Inert w0 w) (l : List Wake) (hi : EvInv w.ev → EvInv (pushAll w l).ev) :
    Inert w0 (pushAll w l) :=
  h.trans ⟨hi, rfl, fun _ => rfl, fun _ => Nat.le_refl _, fun _ => rfl,
    fun e he _ => ⟨e, by simp only [pushAll_pending]; exact List.mem_append_right _ he, rfl, rfl⟩⟩

theorem Inert.foldl {α : Type} {f : World → α → World} (hf : ∀ w a, Inert w (f w a)) {w0 : World} :
    ∀ (l : List α) {w : World}, Inert w0 w → Inert w0 (l.foldl f w) := by
  intro l
  induction l with
  | nil => intro w h; exact h
  | cons a l ih => intro w h; exact ih (h.trans (hf w a))

/-- cancelling an event that is not a grant -/
theorem Inert.evCancel_fst {w0 w : World} (h : Inert w0 w) (k : Nat) (hng : NG w k) : Inert w0 (evCancel w k).1 := by
  have hrel := evCancel_rel w k
  refine h.trans ⟨hrel.evinv, hrel.guards, gOf_congr hrel.res hrel.pools hrel.bufs hrel.oqs hrel.pqs,
    fun d => Nat.le_of_eq (need_congr hrel.res hrel.pools hrel.bufs hrel.oqs hrel.pqs d),
    fun x => by unfold guardAw; rw [hrel.proc], ?_⟩
  intro e he hg
  refine ⟨e, ?_, rfl, rfl⟩
  rw [evCancel_eq]
  split
  · simp only [pushAll_pending]
    apply List.mem_append_right
    show e ∈ KPQ.remove w.ev.pending k
    exact mem_remove.2 ⟨he, fun hk => hng e he hk hg⟩
  · exact he

theorem NG.ofCanRel {w w' : World} {k : Nat} (hn : NG w k) (hrel : CanRel w w') : NG w' k := by
  intro e he hk hg
  rcases hrel.pend e he with h | ⟨_, _, _, _, _, _, heq⟩
  · exact hn e h hk hg
  · rw [heq] at hg; exact absurd hg.1 (by show aEvent ≠ aRes; decide)

theorem Inert.cancelFold : ∀ (hs : List Nat) {w0 w : World}, Inert w0 w → (∀ k ∈ hs, NG w k) →
    Inert w0 (hs.foldl (fun w h => (evCancel w h).1) w) := by
  intro hs
  induction hs with
  | nil => intro w0 w h _; exact h
  | cons k hs ih =>
    intro w0 w h hng
    simp only [List.foldl_cons]
    refine ih (h.evCancel_fst k (hng k List.mem_cons_self)) ?_
    intro k' hk'
    exact (hng k' (List.mem_cons_of_mem _ hk')).ofCanRel (evCancel_rel w k)

/-- cancelling the pending events of one kind other than grants -/
theorem Inert.cancelKindFor_fst {w0 w : World} (h : Inert w0 w) (hi : EvInv w.ev) (p : Pid) (act : Nat) (sig : Option Int)
    (ha : act ≠ aRes) : Inert w0 (cancelKindFor w p act sig).1 := by
  rw [cancelKindFor_eq]
  refine Inert.cancelFold _ h ?_
  intro k hk e he hke hg
  simp only [List.mem_map, List.mem_filter] at hk
  obtain ⟨e', ⟨he', hm⟩, rfl⟩ := hk
  have : e = e' := HashHeap.eq_of_key_eq hi.part.keysNodup he he' hke
  subst this
  unfold kindMatch at hm
  simp only [Bool.and_eq_true, decide_eq_true_eq] at hm
  exact ha (hm.1.2.symm.trans hg.1)

/-- cancelling the pending user events (pattern cancel): none of them is a grant -/
theorem Inert.cancelUserAll_fst {w0 w : World} (h : Inert w0 w) (hi : EvInv w.ev) : Inert w0 (cancelUserAll w).1 := by
  unfold cancelUserAll
  refine Inert.cancelFold _ h ?_
  intro k hk e he hke hg
  obtain ⟨e', he', ha', rfl⟩ := mem_userPending.1 hk
  have : e = e' := HashHeap.eq_of_key_eq hi.part.keysNodup he he' hke
  subst this
  exact absurd (ha'.symm.trans hg.1) (by decide)

/-! ### object updates that do not change what is available (recording) -/

def resNeed (x : Res) : Nat := if x.holder.isNone then 1 else 0
def poolNeed (x : Pool) : Nat := min (x.cap - x.inUse) 1
def bufNeed (x : Buf) : Nat × Nat := (min x.level 1, min (x.cap - x.level) 1)
def oqNeed (x : OQ) : Nat × Nat := (x.items.length, x.cap - x.items.length)
def pqNeed (x : PQ) : Nat × Nat := (x.queue.count, x.cap - x.queue.count)

theorem need_eq (w : World) (d : Demand) : need w d = match d with
    | .resAvail r => ((w.res[r]?).map resNeed).getD 0
    | .poolAvail p => ((w.pools[p]?).map poolNeed).getD 0
    | .bufContent b => ((w.bufs[b]?).map fun x => (bufNeed x).1).getD 0
    | .bufSpace b => ((w.bufs[b]?).map fun x => (bufNeed x).2).getD 0
    | .oqContent q => ((w.oqs[q]?).map fun x => (oqNeed x).1).getD 0
    | .oqSpace q => ((w.oqs[q]?).map fun x => (oqNeed x).2).getD 0
    | .pqContent k => ((w.pqs[k]?).map fun x => (pqNeed x).1).getD 0
    | .pqSpace k => ((w.pqs[k]?).map fun x => (pqNeed x).2).getD 0
    | .cond _ _ _ => 0 := by
  cases d <;> rfl

/-- the tables carry the same static data and the same availability -/
structure ObjSame (w w' : World) : Prop where
  res : ∀ i : Nat, (w'.res[i]?).map (fun x => (resStat x, resNeed x)) = (w.res[i]?).map (fun x => (resStat x, resNeed x))
  pools : ∀ i : Nat, (w'.pools[i]?).map (fun x => (poolStat x, poolNeed x)) = (w.pools[i]?).map (fun x => (poolStat x, poolNeed x))
  bufs : ∀ i : Nat, (w'.bufs[i]?).map (fun x => (bufStat x, bufNeed x)) = (w.bufs[i]?).map (fun x => (bufStat x, bufNeed x))
  oqs : ∀ i : Nat, (w'.oqs[i]?).map (fun x => (oqStat x, oqNeed x)) = (w.oqs[i]?).map (fun x => (oqStat x, oqNeed x))
  pqs : ∀ i : Nat, (w'.pqs[i]?).map (fun x => (pqStat x, pqNeed x)) = (w.pqs[i]?).map (fun x => (pqStat x, pqNeed x))

theorem ObjSame.refl (w : World) : ObjSame w w := ⟨fun _ => rfl, fun _ => rfl, fun _ => rfl, fun _ => rfl, fun _ => rfl⟩

theorem map_pair {α β γ δ : Type} {o o' : Option α} (f : α → β) (g : α → γ) (pr : β × γ → δ)
    (h : o'.map (fun x => (f x, g x)) = o.map (fun x => (f x, g x))) :
    o'.map (fun x => pr (f x, g x)) = o.map (fun x => pr (f x, g x)) := by
  have := congrArg (Option.map pr) h
  simpa [Option.map_map, Function.comp_def] using this

theorem ObjSame.gOf {w w' : World} (h : ObjSame w w') (d : Demand) : gOf w' d = gOf w d := by
  cases d <;> simp only [S3.gOf]
  · exact map_pair resStat resNeed (fun x => x.1) (h.res _)
  · exact map_pair poolStat poolNeed (fun x => x.1.1) (h.pools _)
  · exact map_pair bufStat bufNeed (fun x => x.1.1) (h.bufs _)
  · exact map_pair bufStat bufNeed (fun x => x.1.2.1) (h.bufs _)
  · exact map_pair oqStat oqNeed (fun x => x.1.1) (h.oqs _)
  · exact map_pair oqStat oqNeed (fun x => x.1.2.1) (h.oqs _)
  · exact map_pair pqStat pqNeed (fun x => x.1.1) (h.pqs _)
  · exact map_pair pqStat pqNeed (fun x => x.1.2.1) (h.pqs _)

theorem ObjSame.need {w w' : World} (h : ObjSame w w') (d : Demand) : need w' d = need w d := by
  rw [need_eq, need_eq]
  cases d <;> simp only
  · exact congrArg (·.getD 0) (map_pair resStat resNeed (fun x => x.2) (h.res _))
  · exact congrArg (·.getD 0) (map_pair poolStat poolNeed (fun x => x.2) (h.pools _))
  · exact congrArg (·.getD 0) (map_pair bufStat bufNeed (fun x => x.2.1) (h.bufs _))
  · exact congrArg (·.getD 0) (map_pair bufStat bufNeed (fun x => x.2.2) (h.bufs _))
  · exact congrArg (·.getD 0) (map_pair oqStat oqNeed (fun x => x.2.1) (h.oqs _))
  · exact congrArg (·.getD 0) (map_pair oqStat oqNeed (fun x => x.2.2) (h.oqs _))
  · exact congrArg (·.getD 0) (map_pair pqStat pqNeed (fun x => x.2.1) (h.pqs _))
  · exact congrArg (·.getD 0) (map_pair pqStat pqNeed (fun x => x.2.2) (h.pqs _))

theorem Inert.objSame {w0 w w' : World} (h : Inert w0 w) (hev : w'.ev = w.ev) (hg : w'.guards = w.guards)
    (hp : w'.procs = w.procs) (ho : ObjSame w w') : Inert w0 w' :=
  h.objs hev hg hp ho.gOf (fun d => Nat.le_of_eq (ho.need d))

macro "obj_side" : tactic =>
  `(tactic| (intro x hx; simp_all [resStat, poolStat, bufStat, oqStat, pqStat, resNeed, poolNeed, bufNeed, oqNeed, pqNeed]))

theorem Inert.setResSet {w0 w : World} (h : Inert w0 w) (r : Nat) (y : Res)
    (hy : ∀ x, w.res[r]? = some x → (resStat y, resNeed y) = (resStat x, resNeed x)) : Inert w0 { w with res := w.res.set! r y } :=
  h.objSame rfl rfl rfl ⟨map_set!_same _ _ _ _ hy, fun _ => rfl, fun _ => rfl, fun _ => rfl, fun _ => rfl⟩
theorem Inert.setResModify {w0 w : World} (h : Inert w0 w) (r : Nat) (g : Res → Res)
    (hg : ∀ x, (resStat (g x), resNeed (g x)) = (resStat x, resNeed x)) : Inert w0 { w with res := w.res.modify r g } :=
  h.objSame rfl rfl rfl ⟨map_modify_same _ _ _ _ hg, fun _ => rfl, fun _ => rfl, fun _ => rfl, fun _ => rfl⟩
theorem Inert.setPoolsSet {w0 w : World} (h : Inert w0 w) (r : Nat) (y : Pool)
    (hy : ∀ x, w.pools[r]? = some x → (poolStat y, poolNeed y) = (poolStat x, poolNeed x)) :
    Inert w0 { w with pools := w.pools.set! r y } :=
  h.objSame rfl rfl rfl ⟨fun _ => rfl, map_set!_same _ _ _ _ hy, fun _ => rfl, fun _ => rfl, fun _ => rfl⟩
theorem Inert.setPoolsModify {w0 w : World} (h : Inert w0 w) (r : Nat) (g : Pool → Pool)
    (hg : ∀ x, (poolStat (g x), poolNeed (g x)) = (poolStat x, poolNeed x)) : Inert w0 { w with pools := w.pools.modify r g } :=
  h.objSame rfl rfl rfl ⟨fun _ => rfl, map_modify_same _ _ _ _ hg, fun _ => rfl, fun _ => rfl, fun _ => rfl⟩
theorem Inert.setBufsSet {w0 w : World} (h : Inert w0 w) (r : Nat) (y : Buf)
    (hy : ∀ x, w.bufs[r]? = some x → (bufStat y, bufNeed y) = (bufStat x, bufNeed x)) : Inert w0 { w with bufs := w.bufs.set! r y } :=
  h.objSame rfl rfl rfl ⟨fun _ => rfl, fun _ => rfl, map_set!_same _ _ _ _ hy, fun _ => rfl, fun _ => rfl⟩
theorem Inert.setBufsModify {w0 w : World} (h : Inert w0 w) (r : Nat) (g : Buf → Buf)
    (hg : ∀ x, (bufStat (g x), bufNeed (g x)) = (bufStat x, bufNeed x)) : Inert w0 { w with bufs := w.bufs.modify r g } :=
  h.objSame rfl rfl rfl ⟨fun _ => rfl, fun _ => rfl, map_modify_same _ _ _ _ hg, fun _ => rfl, fun _ => rfl⟩
theorem Inert.setOqsSet {w0 w : World} (h : Inert w0 w) (r : Nat) (y : OQ)
    (hy : ∀ x, w.oqs[r]? = some x → (oqStat y, oqNeed y) = (oqStat x, oqNeed x)) : Inert w0 { w with oqs := w.oqs.set! r y } :=
  h.objSame rfl rfl rfl ⟨fun _ => rfl, fun _ => rfl, fun _ => rfl, map_set!_same _ _ _ _ hy, fun _ => rfl⟩
theorem Inert.setOqsModify {w0 w : World} (h : Inert w0 w) (r : Nat) (g : OQ → OQ)
    (hg : ∀ x, (oqStat (g x), oqNeed (g x)) = (oqStat x, oqNeed x)) : Inert w0 { w with oqs := w.oqs.modify r g } :=
  h.objSame rfl rfl rfl ⟨fun _ => rfl, fun _ => rfl, fun _ => rfl, map_modify_same _ _ _ _ hg, fun _ => rfl⟩
theorem Inert.setPqsSet {w0 w : World} (h : Inert w0 w) (r : Nat) (y : PQ)
    (hy : ∀ x, w.pqs[r]? = some x → (pqStat y, pqNeed y) = (pqStat x, pqNeed x)) : Inert w0 { w with pqs := w.pqs.set! r y } :=
  h.objSame rfl rfl rfl ⟨fun _ => rfl, fun _ => rfl, fun _ => rfl, fun _ => rfl, map_set!_same _ _ _ _ hy⟩
theorem Inert.setPqsModify {w0 w : World} (h : Inert w0 w) (r : Nat) (g : PQ → PQ)
    (hg : ∀ x, (pqStat (g x), pqNeed (g x)) = (pqStat x, pqNeed x)) : Inert w0 { w with pqs := w.pqs.modify r g } :=
  h.objSame rfl rfl rfl ⟨fun _ => rfl, fun _ => rfl, fun _ => rfl, fun _ => rfl, map_modify_same _ _ _ _ hg⟩

theorem Inert.reprioEv {w0 w : World} (h : Inert w0 w) {k : Nat} {v : Int} {ev' : EvQ}
    (hr : reprioritize w.ev k v = .ok ev') : Inert w0 { w with ev := ev' } := by
  have hinv := fun hi => (reprioritize_inv (q := w.ev) hi hr).1
  refine h.trans ⟨hinv, rfl, fun _ => rfl, fun _ => Nat.le_refl _, fun _ => rfl, ?_⟩
  unfold reprioritize at hr
  split at hr
  · cases hr
  · simp only [Except.ok.injEq] at hr
    subst hr
    intro e he _
    refine ⟨_, List.mem_map.2 ⟨e, he, rfl⟩, ?_, ?_⟩ <;> split <;> rfl

/-! ### the tactic -/

/-- like `guard_world_lit`, but looks through annotations left by `simp` -/
elab "guard_world_lit'" : tactic => do
  let g ← Lean.Elab.Tactic.getMainGoal
  let t ← Lean.instantiateMVars (← g.getType)
  let t := t.cleanupAnnotations
  unless t.isApp && t.appArg!.cleanupAnnotations.isAppOf ``World.mk do
    throwError "the last argument of the goal is not a World literal"

syntax "inert_step" : tactic
macro_rules | `(tactic| inert_step) => `(tactic| dsimp only)
macro_rules | `(tactic| inert_step) => `(tactic| (guard_world_lit'; with_reducible apply Inert.setGvars))
macro_rules | `(tactic| inert_step) => `(tactic| (guard_world_lit'; with_reducible apply Inert.setFlags))
macro_rules | `(tactic| inert_step) => `(tactic| (guard_world_lit'; with_reducible refine Inert.setPqsModify ?_ _ _ (fun _ => rfl)))
macro_rules | `(tactic| inert_step) => `(tactic| (guard_world_lit'; with_reducible refine Inert.setPqsSet ?_ _ _ (by obj_side)))
macro_rules | `(tactic| inert_step) => `(tactic| (guard_world_lit'; with_reducible refine Inert.setOqsModify ?_ _ _ (fun _ => rfl)))
macro_rules | `(tactic| inert_step) => `(tactic| (guard_world_lit'; with_reducible refine Inert.setOqsSet ?_ _ _ (by obj_side)))
macro_rules | `(tactic| inert_step) => `(tactic| (guard_world_lit'; with_reducible refine Inert.setBufsModify ?_ _ _ (fun _ => rfl)))
macro_rules | `(tactic| inert_step) => `(tactic| (guard_world_lit'; with_reducible refine Inert.setBufsSet ?_ _ _ (by obj_side)))
macro_rules | `(tactic| inert_step) => `(tactic| (guard_world_lit'; with_reducible refine Inert.setPoolsModify ?_ _ _ (fun _ => rfl)))
macro_rules | `(tactic| inert_step) => `(tactic| (guard_world_lit'; with_reducible refine Inert.setPoolsSet ?_ _ _ (by obj_side)))
macro_rules | `(tactic| inert_step) => `(tactic| (guard_world_lit'; with_reducible refine Inert.setResModify ?_ _ _ (fun _ => rfl)))
macro_rules | `(tactic| inert_step) => `(tactic| (guard_world_lit'; with_reducible refine Inert.setResSet ?_ _ _ (by obj_side)))
macro_rules | `(tactic| inert_step) => `(tactic| (guard_world_lit'; with_reducible apply Inert.setEvWaiters))
macro_rules | `(tactic| inert_step) => `(tactic| split)
macro_rules | `(tactic| inert_step) => `(tactic| with_reducible apply Inert.sched_fst)
macro_rules | `(tactic| inert_step) => `(tactic| (with_reducible refine Inert.modProc ?_ _ _ (fun _ => rfl)))
macro_rules | `(tactic| inert_step) => `(tactic| with_reducible apply Inert.emit)
macro_rules | `(tactic| inert_step) => `(tactic| with_reducible apply Inert.fail)
macro_rules | `(tactic| inert_step) => `(tactic| with_reducible exact Inert.refl _)
macro_rules | `(tactic| inert_step) => `(tactic| with_reducible assumption)
macro "inert" : tactic => `(tactic| repeat' inert_step)

/-! ### compound functions -/

theorem Inert.wakeEventWaiters {w0 w : World} (h : Inert w0 w) (ps : List Pid) (sig : Int) :
    Inert w0 (wakeEventWaiters w ps sig) := by
  unfold Sim.wakeEventWaiters
  exact Inert.foldl (fun w q => by inert) ps h
macro_rules | `(tactic| inert_step) => `(tactic| with_reducible apply Inert.wakeEventWaiters)

theorem Inert.wakeWaiters {w0 w : World} (h : Inert w0 w) (p : Pid) (sig : Int) : Inert w0 (wakeWaiters w p sig) := by
  unfold Sim.wakeWaiters
  exact Inert.foldl (fun w q => by inert) _ (by inert)
macro_rules | `(tactic| inert_step) => `(tactic| with_reducible apply Inert.wakeWaiters)

theorem Inert.recordRes {w0 w : World} (h : Inert w0 w) (r : Nat) : Inert w0 (recordRes w r) := by
  unfold Sim.recordRes; inert
theorem Inert.recordPool {w0 w : World} (h : Inert w0 w) (r : Nat) : Inert w0 (recordPool w r) := by
  unfold Sim.recordPool; inert
theorem Inert.recordBuf {w0 w : World} (h : Inert w0 w) (r : Nat) : Inert w0 (recordBuf w r) := by
  unfold Sim.recordBuf; inert
theorem Inert.recordOQ {w0 w : World} (h : Inert w0 w) (r : Nat) : Inert w0 (recordOQ w r) := by
  unfold Sim.recordOQ; inert
theorem Inert.recordPQ {w0 w : World} (h : Inert w0 w) (r : Nat) : Inert w0 (recordPQ w r) := by
  unfold Sim.recordPQ; inert
macro_rules | `(tactic| inert_step) => `(tactic| with_reducible apply Inert.recordRes)
macro_rules | `(tactic| inert_step) => `(tactic| with_reducible apply Inert.recordPool)
macro_rules | `(tactic| inert_step) => `(tactic| with_reducible apply Inert.recordBuf)
macro_rules | `(tactic| inert_step) => `(tactic| with_reducible apply Inert.recordOQ)
macro_rules | `(tactic| inert_step) => `(tactic| with_reducible apply Inert.recordPQ)

theorem Inert.addAwait {w0 w : World} (h : Inert w0 w) (p : Pid) (a : Await) (ha : isGuardA a = false) :
    Inert w0 (addAwait w p a) := by
  unfold Sim.addAwait
  exact h.modProc p _ (fun x => by simp [List.filter_cons, ha])

theorem Inert.removeAwait_fst {w0 w : World} (h : Inert w0 w) (p : Pid) (a : Await) (ha : isGuardA a = false) :
    Inert w0 (removeAwait w p a).1 := by
  rw [removeAwait_fst_eq]
  exact h.modProc p _ (fun x => removeFirst_filter_ne _ _ _ ha)

theorem Inert.removeAwaitKind_fst {w0 w : World} (h : Inert w0 w) (p : Pid) (k : Await → Bool)
    (hk : ∀ a, k a = true → isGuardA a = false) : Inert w0 (removeAwaitKind w p k).1 := by
  rw [removeAwaitKind_fst_eq]
  exact h.modProc p _ (fun x => rak_go_filter _ _ hk _)

theorem Inert.removeHeld_fst {w0 w : World} (h : Inert w0 w) (p : Pid) (x : HoldRef) : Inert w0 (removeHeld w p x).1 := by
  simp only [Sim.removeHeld]; inert
macro_rules | `(tactic| inert_step) => `(tactic| with_reducible apply Inert.removeHeld_fst)

theorem Inert.timerAdd_fst {w0 w : World} (h : Inert w0 w) (p : Pid) (d sig : Int) : Inert w0 (timerAdd w p d sig).1 := by
  simp only [Sim.timerAdd]
  exact (h.sched_fst _ _ _ _ _).addAwait p _ rfl
macro_rules | `(tactic| inert_step) => `(tactic| with_reducible apply Inert.timerAdd_fst)

theorem Inert.block_fst {w0 w : World} (h : Inert w0 w) (p : Pid) (f : Frame) : Inert w0 (block w p f).1 := by
  unfold Sim.block; inert
macro_rules | `(tactic| inert_step) => `(tactic| with_reducible apply Inert.block_fst)

theorem Inert.setVar {w0 w : World} (h : Inert w0 w) (p : Pid) (v x : Nat) : Inert w0 (setVar w p v x) := by
  unfold Sim.setVar; inert
macro_rules | `(tactic| inert_step) => `(tactic| with_reducible apply Inert.setVar)

theorem Inert.setRecording {w0 w : World} (h : Inert w0 w) (kind idx : Nat) (on : Bool) : Inert w0 (setRecording w kind idx on) := by
  simp only [Sim.setRecording]; inert
macro_rules | `(tactic| inert_step) => `(tactic| with_reducible apply Inert.setRecording)

/-- `timer_cancel` of a handle that is not a grant -/
theorem Inert.timerCancel_fst {w0 w : World} (h : Inert w0 w) (p : Pid) (k : Nat) (hng : NG w k) : Inert w0 (timerCancel w p k).1 := by
  simp only [Sim.timerCancel]
  exact (h.removeAwait_fst p _ rfl).evCancel_fst k hng

/-- `timers_clear`: the TIME awaitables of `p` are not grants -/
theorem Inert.timersClear {w0 w : World} (h : Inert w0 w) (p : Pid) (hng : ∀ k, Await.time k ∈ (w.proc p).awaits → NG w k) :
    Inert w0 (timersClear w p) := by
  unfold Sim.timersClear
  refine Inert.cancelFold _ (h.modProc p _ (fun x => ?_)) ?_
  · rw [List.filter_filter]; apply List.filter_congr; intro a _; cases a <;> rfl
  · intro k hk
    simp only [List.mem_filterMap] at hk
    obtain ⟨a, ha, hak⟩ := hk
    cases a with
    | time k' =>
      simp only [Option.some.injEq] at hak
      subst hak
      intro e he
      exact hng _ ha e he
    | _ => cases hak

end CimbaModel.Sim.S3
