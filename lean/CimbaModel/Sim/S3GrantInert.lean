/-
  S3 — the grant invariant, part 5: functions that neither touch the waiting lists nor remove a grant.
  `Inert w w'`: same guards, object ends not more available, same RESOURCE awaitables, every pending grant still pending.
-/
import CimbaModel.Sim.S3GrantSignal
import CimbaModel.Sim.S3GrantK2

namespace CimbaModel.Sim.S3
open CimbaModel CimbaModel.Sim CimbaModel.Event CimbaModel.Generated CimbaModel.KPQ
open CimbaModel.HashHeap (HTag Item Order HH WF abs liveTags)

structure Inert (w w' : World) : Prop where
  ei : EvInv w.ev → EvInv w'.ev
  guards : w'.guards = w.guards
  gof : ∀ d, gOf w' d = gOf w d
  need : ∀ d, need w' d ≤ need w d
  aw : ∀ x, guardAw w' x = guardAw w x
  keep : ∀ e ∈ w.ev.pending, isG01 e → ∃ e' ∈ w'.ev.pending, e'.key = e.key ∧ e'.item = e.item

theorem Inert.refl (w : World) : Inert w w :=
  ⟨id, rfl, fun _ => rfl, fun _ => Nat.le_refl _, fun _ => rfl, fun e he _ => ⟨e, he, rfl, rfl⟩⟩

theorem Inert.trans {w w1 w2 : World} (h1 : Inert w w1) (h2 : Inert w1 w2) : Inert w w2 := by
  refine ⟨fun h => h2.ei (h1.ei h), h2.guards.trans h1.guards, fun d => (h2.gof d).trans (h1.gof d),
    fun d => Nat.le_trans (h2.need d) (h1.need d), fun x => (h2.aw x).trans (h1.aw x), ?_⟩
  intro e he hg
  obtain ⟨e1, he1, hk1, hi1⟩ := h1.keep e he hg
  obtain ⟨e2, he2, hk2, hi2⟩ := h2.keep e1 he1 (by unfold isG01 at *; rw [hi1]; exact hg)
  exact ⟨e2, he2, hk2.trans hk1, hi2.trans hi1⟩

theorem grantOf_of_item {w w' : World} {g : Nat} {e e' : HTag} (hi : e'.item = e.item)
    (haw : guardAw w' (e.item.b - 1) = guardAw w (e.item.b - 1)) (h : grantOf w g e) : grantOf w' g e' := by
  unfold grantOf isG01 at *
  rw [hi]
  refine ⟨h.1, ?_⟩
  rw [mem_awaits_guard, haw, ← mem_awaits_guard]; exact h.2

theorem Inert.G_le {w w' : World} (h : Inert w w') (hi : EvInv w.ev) (g : Nat) : G w g ≤ G w' g := by
  refine G_le_of_keep hi g ?_
  intro e he hg
  obtain ⟨e', he', hk, hit⟩ := h.keep e he hg.1
  exact ⟨e', he', hk, grantOf_of_item hit (h.aw _) hg⟩

theorem queued_of_guards {w w' : World} (h : w'.guards = w.guards) {g k : Nat} : queued w' g k ↔ queued w g k :=
  queued_congr h g k

theorem GI.inert {df : Demand → Nat} {w w' : World} (hgi : GI df w) (hi : EvInv w.ev) (h : Inert w w') : GI df w' := by
  intro d g hd hq
  rw [h.gof] at hd
  obtain ⟨k, hk⟩ := hq
  have := hgi d g hd ⟨k, (queued_of_guards h.guards).1 hk⟩
  have := h.need d
  have := h.G_le hi g
  omega

theorem HG.inert {w w' : World} (hg : HG w) (h : Inert w w') : HG w' := by
  intro d g hd gd hgd k hk
  rw [h.gof] at hd
  rw [h.guards] at hgd
  exact hg d g hd gd hgd k hk

theorem QI.inert {ex : Pid → Prop} {w w' : World} (hq : QI ex w) (h : Inert w w') : QI ex w' := by
  refine ⟨h.ei hq.ei, fun g gd hg => hq.gwf g gd (by rw [← h.guards]; exact hg), ?_, hq.hg.inert h⟩
  intro g k hk
  obtain ⟨h1, h2⟩ := hq.gk g k ((queued_of_guards h.guards).1 hk)
  refine ⟨h1, fun hx => ?_⟩
  rw [mem_awaits_guard, h.aw, ← mem_awaits_guard]; exact h2 hx

/-! ### atomic transformers -/

/-- nothing relevant changed -/
theorem Inert.same {w0 w w' : World} (h : Inert w0 w) (hev : w'.ev = w.ev) (hg : w'.guards = w.guards)
    (hr : w'.res = w.res) (hpl : w'.pools = w.pools) (hb : w'.bufs = w.bufs) (ho : w'.oqs = w.oqs) (hq : w'.pqs = w.pqs)
    (ha : ∀ x, guardAw w' x = guardAw w x) : Inert w0 w' :=
  h.trans ⟨by rw [hev]; exact id, hg, gOf_congr hr hpl hb ho hq, fun d => Nat.le_of_eq (need_congr hr hpl hb ho hq d), ha,
    by rw [hev]; exact fun e he _ => ⟨e, he, rfl, rfl⟩⟩

theorem Inert.fail {w0 w : World} (h : Inert w0 w) (m : String) : Inert w0 (w.fail m) :=
  h.same (by simp) (by simp) (by simp) (by simp) (by simp) (by simp) (by simp) (fun x => by unfold guardAw; simp)
theorem Inert.emit {w0 w : World} (h : Inert w0 w) (l : String) : Inert w0 (w.emit l) :=
  h.same rfl rfl rfl rfl rfl rfl rfl (fun _ => rfl)
theorem Inert.modProc {w0 w : World} (h : Inert w0 w) (p : Pid) (f : Proc → Proc)
    (hf : ∀ x, (f x).awaits.filter isGuardA = x.awaits.filter isGuardA) : Inert w0 (w.modProc p f) := by
  refine h.same rfl rfl rfl rfl rfl rfl rfl (fun x => ?_)
  unfold guardAw
  rw [modProc_proc]; split
  · rename_i hq; rw [hq.1]; exact hf _
  · rfl
theorem Inert.setEvWaiters {w0 w : World} (h : Inert w0 w) (x : List (Nat × List Pid)) : Inert w0 { w with evWaiters := x } :=
  h.same rfl rfl rfl rfl rfl rfl rfl (fun _ => rfl)
theorem Inert.setFlags {w0 w : World} (h : Inert w0 w) (x : Array Int) : Inert w0 { w with flags := x } :=
  h.same rfl rfl rfl rfl rfl rfl rfl (fun _ => rfl)
theorem Inert.setGvars {w0 w : World} (h : Inert w0 w) (x : Array Nat) : Inert w0 { w with gvars := x } :=
  h.same rfl rfl rfl rfl rfl rfl rfl (fun _ => rfl)

/-- an update of the objects that makes nothing more available -/
theorem Inert.objs {w0 w w' : World} (h : Inert w0 w) (hev : w'.ev = w.ev) (hg : w'.guards = w.guards)
    (hp : w'.procs = w.procs) (hgo : ∀ d, gOf w' d = gOf w d) (hn : ∀ d, S3.need w' d ≤ S3.need w d) : Inert w0 w' :=
  h.trans ⟨by rw [hev]; exact id, hg, hgo, hn, fun x => by unfold guardAw World.proc; rw [hp],
    by rw [hev]; exact fun e he _ => ⟨e, he, rfl, rfl⟩⟩

theorem Inert.pushEv {w0 w : World} (h : Inert w0 w) (a s : Nat) (sig t pri : Int) (ht : w.now ≤ t) :
    Inert w0 (pushEv w a s sig t pri) :=
  h.trans ⟨pushEv_evinv a s sig t pri ht, rfl, fun _ => rfl, fun _ => Nat.le_refl _, fun _ => rfl,
    fun e he _ => ⟨e, by simp only [pushEv_pending]; exact List.mem_cons_of_mem _ he, rfl, rfl⟩⟩

theorem Inert.sched_fst {w0 w : World} (h : Inert w0 w) (a s : Nat) (sig t pri : Int) : Inert w0 (sched w a s sig t pri).1 := by
  rcases sched_cases w a s sig t pri with ⟨ht, he⟩ | ⟨_, m, he⟩
  · rw [he]; exact h.pushEv a s sig t pri ht
  · rw [he]; exact h.fail m

theorem Inert.pushAll {w0 w : World} (h : Inert w0 w) (l : List Wake) (hi : EvInv w.ev → EvInv (pushAll w l).ev) :
    Inert w0 (pushAll w l) :=
  h.trans ⟨hi, rfl, fun _ => rfl, fun _ => Nat.le_refl _, fun _ => rfl,
    fun e he _ => ⟨e, by simp only [pushAll_pending]; exact List.mem_append_right _ he, rfl, rfl⟩⟩

theorem Inert.foldl {α : Type} {f : World → α → World} (hf : ∀ w a, Inert w (f w a)) {w0 : World} :
    ∀ (l : List α) {w : World}, Inert w0 w → Inert w0 (l.foldl f w) := by
  intro l
  induction l with
  | nil => intro w h; exact h
  | cons a l ih => intro w h; exact ih (h.trans (hf w a))

/-- cancelling an event that is not a grant -/
theorem Inert.evCancel_fst {w0 w : World} (h : Inert w0 w) (k : Nat) (hng : NG w k) : Inert w0 (evCancel w k).1 := by
  have hrel := evCancel_rel w k
  refine h.trans ⟨hrel.evinv, hrel.guards, gOf_congr hrel.res hrel.pools hrel.bufs hrel.oqs hrel.pqs,
    fun d => Nat.le_of_eq (need_congr hrel.res hrel.pools hrel.bufs hrel.oqs hrel.pqs d),
    fun x => by unfold guardAw; rw [hrel.proc], ?_⟩
  intro e he hg
  refine ⟨e, ?_, rfl, rfl⟩
  rw [evCancel_eq]
  split
  · simp only [pushAll_pending]
    apply List.mem_append_right
    show e ∈ KPQ.remove w.ev.pending k
    exact mem_remove.2 ⟨he, fun hk => hng e he hk hg⟩
  · exact he

theorem NG.ofCanRel {w w' : World} {k : Nat} (hn : NG w k) (hrel : CanRel w w') : NG w' k := by
  intro e he hk hg
  rcases hrel.pend e he with h | ⟨_, _, _, _, _, _, heq⟩
  · exact hn e h hk hg
  · rw [heq] at hg; exact absurd hg.1 (by show aEvent ≠ aRes; decide)

theorem Inert.cancelFold : ∀ (hs : List Nat) {w0 w : World}, Inert w0 w → (∀ k ∈ hs, NG w k) →
    Inert w0 (hs.foldl (fun w h => (evCancel w h).1) w) := by
  intro hs
  induction hs with
  | nil => intro w0 w h _; exact h
  | cons k hs ih =>
    intro w0 w h hng
    simp only [List.foldl_cons]
    refine ih (h.evCancel_fst k (hng k List.mem_cons_self)) ?_
    intro k' hk'
    exact (hng k' (List.mem_cons_of_mem _ hk')).ofCanRel (evCancel_rel w k)

/-- cancelling the pending events of one kind other than grants -/
theorem Inert.cancelKindFor_fst {w0 w : World} (h : Inert w0 w) (hi : EvInv w.ev) (p : Pid) (act : Nat) (sig : Option Int)
    (ha : act ≠ aRes) : Inert w0 (cancelKindFor w p act sig).1 := by
  rw [cancelKindFor_eq]
  refine Inert.cancelFold _ h ?_
  intro k hk e he hke hg
  simp only [List.mem_map, List.mem_filter] at hk
  obtain ⟨e', ⟨he', hm⟩, rfl⟩ := hk
  have : e = e' := HashHeap.eq_of_key_eq hi.part.keysNodup he he' hke
  subst this
  unfold kindMatch at hm
  simp only [Bool.and_eq_true, decide_eq_true_eq] at hm
  exact ha (hm.1.2.symm.trans hg.1)

end CimbaModel.Sim.S3
