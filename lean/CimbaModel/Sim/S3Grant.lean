/-
  S3 — no lost wake-ups, the per-primitive part: what a complete signal (observers included) guarantees for the front
  waiter, and how a grant whose waiter left for another reason is passed on.
-/
import CimbaModel.Sim.S3Cond

namespace CimbaModel.Sim.S3
open CimbaModel CimbaModel.Sim CimbaModel.Event CimbaModel.Generated CimbaModel.KPQ
open CimbaModel.HashHeap (HTag Item Order HH WF abs liveTags)

theorem guards_lt_of_some {w : World} {g : Nat} {gd : Guard} (hg : w.guards[g]? = some gd) : g < w.guards.size := by
  rcases Nat.lt_or_ge g w.guards.size with h | h
  · exact h
  · rw [Array.getElem?_eq_none h] at hg; cases hg

/-- post-condition of a complete signal of `g` (front step, then all observers, recursively) when the front waiter's
    demand holds: that waiter is no longer queued on `g`, and its wake-up (aRes, SUCCESS, at the current time, with its
    current priority) is pending; the clock has not moved -/
theorem guardSignal_grants {fuel : Nat} {w : World} {g : Nat} {gd : Guard} (hg : w.guards[g]? = some gd) (hall : AllGWF w)
    (hpos : 0 < gd.q.count) (hd : evalDemand w (demandOf gd (gd.q.tag 1).key) = true) :
    let w' := guardSignal (fuel + 1) w g
    (∃ gd', w'.guards[g]? = some gd' ∧ (gd.q.tag 1).key ∉ keys (abs gd'.q) ∧
        ∀ x ∈ abs gd'.q, x ∈ abs gd.q) ∧
    mkEv (w.ev.counter + 1) aRes (gd.q.tag 1).key sigSuccess w.now (w.proc ((gd.q.tag 1).key - 1)).prio ∈ w'.ev.pending ∧
    w'.now = w.now ∧ SigRel w w' := by
  intro w'
  have hwf := hall g gd hg
  obtain ⟨hmin, _, htrue⟩ := (frontStep_spec w g gd hwf).2 hpos
  obtain ⟨q', _, hwf', hperm, heq⟩ := htrue hd
  have hrel1 := frontStep_rel hg hall
  have hw' : w' = gd.observers.foldl (fun w o => fwdSignal fuel w o) (frontStep w g gd) := by
    show guardSignal (fuel + 1) w g = _
    rw [guardSignal_succ, hg]
  have hrel2 : SigRel (frontStep w g gd) w' := by
    rw [hw']
    exact foldl_sigRel _ (fun w o hw => guardSignalF_rel fuel true w o hw) _ _ hrel1.wf
  have hg1 : (frontStep w g gd).guards[g]? = some { gd with q := q' } := by
    rw [heq]; simp [grant, setGuardQ_guards_get, hg]
  obtain ⟨gd', hg', _, _, _, _, hsub⟩ := hrel2.guards g _ hg1
  have hnd : (keys (abs gd.q)).Nodup := hwf.keys_nodup
  have hkp : (keys (abs gd.q)).Perm ((gd.q.tag 1).key :: keys (abs q')) := by
    have := hperm.map (·.key); simpa [keys, norm] using this
  have hnotin : (gd.q.tag 1).key ∉ keys (abs q') := (List.nodup_cons.1 (hkp.nodup_iff.1 hnd)).1
  refine ⟨⟨gd', hg', fun hk => hnotin (keys_subset_of_subset hsub hk), ?_⟩, ?_, ?_, hrel1.trans hrel2⟩
  · intro x hx
    exact hperm.mem_iff.2 (List.mem_cons_of_mem _ (hsub x hx))
  · obtain ⟨new, hp, _, _⟩ := hrel2.pending
    rw [hp, heq]
    apply List.mem_append_right
    simp [grant]
  · exact (hrel1.trans hrel2).now

/-- … and when the queue is empty or the front waiter's demand does not hold, the guard's own part of the signal
    changes nothing (only the observers are signalled) -/
theorem guardSignal_no_grant {fuel : Nat} {w : World} {g : Nat} {gd : Guard} (hg : w.guards[g]? = some gd) (hwf : GWF gd.q)
    (h : gd.q.count = 0 ∨ evalDemand w (demandOf gd (gd.q.tag 1).key) = false) :
    guardSignal (fuel + 1) w g = gd.observers.foldl (fun w o => fwdSignal fuel w o) w := by
  rw [guardSignal_succ, hg]
  simp only
  have hs := frontStep_spec w g gd hwf
  rcases h with h0 | hd
  · rw [hs.1 h0]
  · rcases Nat.eq_zero_or_pos gd.q.count with h0 | hpos
    · rw [hs.1 h0]
    · rw [(hs.2 hpos).2.1 hd]

/-- a grant made to a waiter that has left its wait for another reason: the pending grant(s) of `p` are cancelled and the
    guard is signalled again in the same step -/
theorem guardWithdraw_passes_on {w : World} {g : Nat} {gd : Guard} (hg : w.guards[g]? = some gd) (hwf : GWF gd.q) {p : Pid}
    (hp : p + 1 ∉ keys (abs gd.q)) (hi : EvInv w.ev)
    (hgrant : ∃ e ∈ w.ev.pending, kindMatch p aRes (some sigSuccess) e = true) :
    let w1 := (cancelKindFor w p aRes (some sigSuccess)).1
    guardWithdraw w g p = signal w1 g ∧ CanRel w w1 ∧
    (∀ e ∈ w1.ev.pending, e.key ≤ w.ev.counter → kindMatch p aRes (some sigSuccess) e = false) ∧
    (∀ e ∈ w.ev.pending, kindMatch p aRes (some sigSuccess) e = false → e ∈ w1.ev.pending) := by
  intro w1
  obtain ⟨hrel, hgone, hstay, hn⟩ := cancelKindFor_spec w p aRes (some sigSuccess) hi
  refine ⟨?_, hrel, hgone, hstay⟩
  rw [guardWithdraw_granted hg hwf hp]
  have : (cancelKindFor w p aRes (some sigSuccess)).2 > 0 := by
    rw [hn]
    obtain ⟨e, he, hm⟩ := hgrant
    exact List.length_pos_of_mem (List.mem_filter.2 ⟨he, hm⟩)
  simp [this, w1]

/-- the two together: if the front waiter of `g` can be served, it is served in the very step in which the late grant
    is withdrawn -/
theorem guardWithdraw_serves_next {w : World} {g : Nat} {gd : Guard} (hg : w.guards[g]? = some gd) (hall : AllGWF w) {p : Pid}
    (hp : p + 1 ∉ keys (abs gd.q)) (hi : EvInv w.ev)
    (hgrant : ∃ e ∈ w.ev.pending, kindMatch p aRes (some sigSuccess) e = true)
    (hpos : 0 < gd.q.count) (hd : evalDemand w (demandOf gd (gd.q.tag 1).key) = true) :
    let w' := guardWithdraw w g p
    (∃ gd', w'.guards[g]? = some gd' ∧ (gd.q.tag 1).key ∉ keys (abs gd'.q)) ∧
    (∃ e ∈ w'.ev.pending, e.item.a = aRes ∧ e.item.b = (gd.q.tag 1).key ∧ e.item.c = encSig sigSuccess ∧ e.d = w.now ∧
      e.i = (w.proc ((gd.q.tag 1).key - 1)).prio) ∧
    w'.now = w.now := by
  intro w'
  obtain ⟨heq, hrel, _, _⟩ := guardWithdraw_passes_on hg (hall g gd hg) hp hi hgrant
  have hg1 : (cancelKindFor w p aRes (some sigSuccess)).1.guards[g]? = some gd := by rw [hrel.guards]; exact hg
  have hall1 : AllGWF (cancelKindFor w p aRes (some sigSuccess)).1 := by
    intro g' gd' h'; rw [hrel.guards] at h'; exact hall g' gd' h'
  have hd1 : evalDemand (cancelKindFor w p aRes (some sigSuccess)).1 (demandOf gd (gd.q.tag 1).key) = true := by
    rw [evalDemand_congr hrel.res hrel.pools hrel.bufs hrel.oqs hrel.pqs hrel.flags]; exact hd
  obtain ⟨⟨gd', hg', hnot, _⟩, hev, hnow, _⟩ := guardSignal_grants (fuel := 7) hg1 hall1 hpos hd1
  have hw' : w' = guardSignal (7 + 1) (cancelKindFor w p aRes (some sigSuccess)).1 g := heq
  rw [hw']
  refine ⟨⟨gd', hg', hnot⟩, ⟨_, hev, rfl, rfl, rfl, ?_, ?_⟩, ?_⟩
  · simp [mkEv, hrel.now]
  · simp [mkEv, hrel.proc]
  · rw [hnow, hrel.now]

/-! ### the global statement -/

/-- `I_grant`: whenever the front waiter of a (non-condition) guard could be served, a grant is pending at the current
    time (so that the waiter, or whoever the grant is passed on to, runs within this instant) -/
def GrantInv (w : World) : Prop :=
  ∀ (g : Nat) (gd : Guard), w.guards[g]? = some gd → gd.isCond = false → 0 < gd.q.count →
    evalDemand w (demandOf gd (gd.q.tag 1).key) = true →
    ∃ e ∈ w.ev.pending, e.item.a = aRes ∧ e.item.c = encSig sigSuccess ∧ e.d = w.now

theorem dispatch_none_iff (w : World) : dispatch w = none ↔ w.ev.pending = [] := by
  unfold dispatch executeNext
  cases h : minTag heap_order_check w.ev.pending with
  | none => simp [Event.minTag_none.1 h]
  | some e =>
    have : w.ev.pending ≠ [] := fun hn => by rw [hn] at h; simp [minTag] at h
    simp [this]

/-- at quiescence nobody is blocked on a guard whose front demand holds, *given* `GrantInv` -/
theorem quiescent_of_grantInv {w : World} (hgi : GrantInv w) (hq : dispatch w = none) (g : Nat) (gd : Guard)
    (hg : w.guards[g]? = some gd) (hc : gd.isCond = false) (hpos : 0 < gd.q.count) :
    evalDemand w (demandOf gd (gd.q.tag 1).key) = false := by
  cases hd : evalDemand w (demandOf gd (gd.q.tag 1).key) with
  | false => rfl
  | true =>
    obtain ⟨e, he, _⟩ := hgi g gd hg hc hpos hd
    rw [(dispatch_none_iff w).1 hq] at he
    cases he

end CimbaModel.Sim.S3
