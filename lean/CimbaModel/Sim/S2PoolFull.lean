/-
  S2 — resource pools (C07), part 3b: the frames of suspended acquisitions carry a positive outstanding claim; together
  with `PoolInv` (which includes "nobody is recorded as holding nothing") this is preserved by `dispatch`.
-/
import CimbaModel.Sim.S2PoolInv

namespace CimbaModel.Sim
open CimbaModel CimbaModel.Event CimbaModel.Generated CimbaModel.KPQ
open CimbaModel.HashHeap (HTag Item Order HH WF abs amounts amountOf)

/-- every process suspended inside a pool acquisition still has something to claim -/
def FramePos (w : World) : Prop :=
  ∀ q pl rem ini pre, (w.proc q).blocked = some (.pool pl rem ini pre) → 0 < rem

def Frame.isPool : Frame → Bool
  | .pool _ _ _ _ => true
  | _ => false

/-- no pool frame appears that was not there before -/
def NNP (w w' : World) : Prop :=
  ∀ q F, Frame.isPool F = true → (w'.proc q).blocked = some F → (w.proc q).blocked = some F

theorem NNP.refl (w : World) : NNP w w := fun _ _ _ h => h
theorem NNP.trans {a b c : World} (h1 : NNP a b) (h2 : NNP b c) : NNP a c :=
  fun q F hF h => h1 q F hF (h2 q F hF h)

theorem NNP.of_fp {m : Mask} {w w' : World} (h : Fp m w w') (hb : m.blocked = false) : NNP w w' :=
  fun q F _ hq => by rw [← h.2.2.2.2.2.2.2.2.2.1 hb q]; exact hq

theorem NNP.of_same {w w' : World} (h : Same w w') : NNP w w' := NNP.of_fp (Same.fp {} h) rfl

theorem FramePos.of_nnp {w w' : World} (h : NNP w w') (hf : FramePos w) : FramePos w' :=
  fun q pl rem ini pre hq => hf q pl rem ini pre (h q _ rfl hq)

theorem block_blocked (w : World) (p q : Pid) (f : Frame) :
    ((block w p f).1.proc q).blocked = if q = p ∧ p < w.procs.size then some f else (w.proc q).blocked := by
  unfold block
  rw [proc_modProc]
  split <;> rfl

/-- suspending in a frame that is not a pool frame -/
theorem NNP.block (w : World) (p : Pid) (f : Frame) (hf : Frame.isPool f = false) : NNP w (block w p f).1 := by
  intro q F hF hq
  rw [block_blocked] at hq
  split at hq
  · injection hq with e; subst e; rw [hf] at hF; cases hF
  · exact hq

theorem NNP.clear (w : World) (p : Pid) (f : Proc → Proc) (hb : ∀ x, (f x).blocked = none) : NNP w (w.modProc p f) := by
  intro q F _ hq
  rw [proc_modProc] at hq
  split at hq
  · rw [hb] at hq; cases hq
  · exact hq

/-! ### the loops other than the pool loop never leave a pool frame -/

theorem acquireStep_nnp (w : World) (p : Pid) (r : Nat) : NNP w (acquireStep w p r).1 := by
  unfold acquireStep
  split
  · exact NNP.of_same (fail_same _ _)
  · split
    · exact NNP.of_fp (Fp.trans (Fp.mono (by decide) (grab_fp w r p)) (Fp.mono (by decide) (recordRes_fp _ r))) (m := mResHeld) rfl
    · exact NNP.trans (NNP.of_same (guardWaitEnter_same _ _ _ _)) (NNP.block _ _ _ rfl)

theorem bufGetLoop_nnp (w : World) (p : Pid) (b rem got : Nat) : NNP w (bufGetLoop w p b rem got).1 := by
  intro q F hF hq
  unfold bufGetLoop at hq
  split at hq
  · simpa using hq
  · split at hq
    · split at hq <;> simpa using hq
    · split at hq
      rename_i heq
      rw [block_blocked] at hq
      split at hq
      · injection hq with e; subst e; cases hF
      · split at heq <;> cases heq <;> simpa using hq

theorem bufPutLoop_nnp (w : World) (p : Pid) (b rem left : Nat) : NNP w (bufPutLoop w p b rem left).1 := by
  intro q F hF hq
  unfold bufPutLoop at hq
  split at hq
  · simpa using hq
  · split at hq
    · split at hq <;> simpa using hq
    · split at hq
      rename_i heq
      rw [block_blocked] at hq
      split at hq
      · injection hq with e; subst e; cases hF
      · split at heq <;> cases heq <;> simpa using hq

theorem oqGetLoop_nnp (w : World) (p : Pid) (q' : Nat) : NNP w (oqGetLoop w p q').1 := by
  intro q F hF hq
  unfold oqGetLoop at hq
  split at hq
  · simpa using hq
  · split at hq
    · simpa using hq
    · rw [block_blocked] at hq
      split at hq
      · injection hq with e; subst e; cases hF
      · simpa using hq

theorem oqPutLoop_nnp (w : World) (p : Pid) (q' obj : Nat) : NNP w (oqPutLoop w p q' obj).1 := by
  intro q F hF hq
  unfold oqPutLoop at hq
  split at hq
  · simpa using hq
  · split at hq
    · simpa using hq
    · rw [block_blocked] at hq
      split at hq
      · injection hq with e; subst e; cases hF
      · simpa using hq

theorem pqGetLoop_nnp (w : World) (p : Pid) (k : Nat) : NNP w (pqGetLoop w p k).1 := by
  intro q F hF hq
  unfold pqGetLoop at hq
  split at hq
  · simpa using hq
  · split at hq
    · split at hq <;> simpa using hq
    · rw [block_blocked] at hq
      split at hq
      · injection hq with e; subst e; cases hF
      · simpa using hq

theorem pqPutLoop_nnp (w : World) (p : Pid) (k obj : Nat) (pri : Int) (v : Nat) : NNP w (pqPutLoop w p k obj pri v).1 := by
  intro q F hF hq
  unfold pqPutLoop at hq
  split at hq
  · simpa using hq
  · split at hq
    · split at hq <;> simpa using hq
    · rw [block_blocked] at hq
      split at hq
      · injection hq with e; subst e; cases hF
      · simpa using hq

/-! ### commands and frames other than pool acquire / preempt -/

theorem execCmd_nnp (w : World) (p : Pid) (c : Cmd) (hc : ∀ pl n, c ≠ .poolAcquire pl n ∧ c ≠ .poolPreempt pl n) :
    NNP w (execCmd w p c).1 := by
  by_cases hm : (cmdMask c).blocked = false
  · exact NNP.of_fp (execCmd_fp w p c) hm
  · cases c <;> simp [cmdMask] at hm
    case hold d =>
      simp only [execCmd]
      exact NNP.trans (NNP.of_same (timerAdd_same _ _ _ _)) (NNP.block _ _ _ rfl)
    case yield => simp only [execCmd]; exact NNP.block _ _ _ rfl
    case stop q val =>
      simp only [execCmd]
      have hfin : ∀ q', NNP w (finishProc w q' val true) := by
        intro q'
        unfold finishProc
        dsimp only
        refine NNP.trans (NNP.trans ?_ (NNP.of_same (wakeWaiters_same _ _ _))) (NNP.clear _ _ _ (fun _ => rfl))
        rw [if_pos rfl]
        exact NNP.trans (NNP.of_same (cancelAwaiteds_same _ _)) (NNP.of_fp (dropResources_fp _ _) rfl)
      split
      · exact hfin p
      · split
        · exact hfin q
        · exact NNP.refl w
    case exit val =>
      simp only [execCmd]
      unfold finishProc
      dsimp only
      refine NNP.trans (NNP.trans ?_ (NNP.of_same (wakeWaiters_same _ _ _))) (NNP.clear _ _ _ (fun _ => rfl))
      rw [if_neg (by simp)]
      exact NNP.trans (NNP.of_fp (dropResources_fp _ _) rfl) (NNP.of_same (cancelAwaiteds_same _ _))
    case waitProc q =>
      simp only [execCmd]
      split
      · exact NNP.refl w
      · split
        · exact NNP.refl w
        · refine NNP.trans (NNP.trans (NNP.of_same (addAwait_same _ _ _)) (NNP.of_same (modProc_same _ _ _ ?_ ?_ ?_))) (NNP.block _ _ _ rfl)
          · intro _; rfl
          · intro _; rfl
          · intro _; rfl
    case waitEvent v =>
      simp only [execCmd]
      split
      · exact NNP.refl w
      · refine NNP.trans (NNP.trans ?_ (NNP.of_same (addAwait_same _ _ _))) (NNP.block _ _ _ rfl)
        exact NNP.of_same ⟨rfl, rfl, rfl, rfl, rfl, rfl, id, rfl, fun _ => rfl, fun _ => rfl, fun _ => rfl⟩
    case acquire r => simp only [execCmd]; exact acquireStep_nnp _ _ _
    case preempt r =>
      simp only [execCmd]
      split
      · exact NNP.refl w
      · split
        · exact NNP.refl w
        · split
          · exact NNP.of_fp (Fp.trans (Fp.mono (by decide) (grab_fp w r p)) (Fp.mono (by decide) (recordRes_fp _ r))) (m := mResHeld) rfl
          · split
            · intro q F hF hq
              simpa using hq
            · exact acquireStep_nnp _ _ _
    case poolAcquire pl n => exact absurd rfl (hc pl n).1
    case poolPreempt pl n => exact absurd rfl (hc pl n).2
    case bufGet b n => simp only [execCmd]; split; exact NNP.refl w; exact bufGetLoop_nnp _ _ _ _ _
    case bufPut b n => simp only [execCmd]; split; exact NNP.refl w; exact bufPutLoop_nnp _ _ _ _ _
    case oqGet q => simp only [execCmd]; split; exact NNP.refl w; exact oqGetLoop_nnp _ _ _
    case oqPut q obj => simp only [execCmd]; split; exact NNP.refl w; exact oqPutLoop_nnp _ _ _ _
    case pqGet k => simp only [execCmd]; split; exact NNP.refl w; exact pqGetLoop_nnp _ _ _
    case pqPut k obj pri v => simp only [execCmd]; split; exact NNP.refl w; exact pqPutLoop_nnp _ _ _ _ _ _
    case condWait c kind a b =>
      simp only [execCmd]
      split
      · exact NNP.refl w
      · exact NNP.trans (NNP.of_same (guardWaitEnter_same _ _ _ _)) (NNP.block _ _ _ rfl)
    case recStart kind idx => unfold recMask at hm; split at hm <;> simp at hm
    case recStop kind idx => unfold recMask at hm; split at hm <;> simp at hm

theorem resumeFrame_nnp (w : World) (p : Pid) (f : Frame) (sig : Int) (hf : Frame.isPool f = false) :
    NNP w (resumeFrame w p f sig).1 := by
  by_cases hm : (frameMask f).blocked = false
  · exact NNP.of_fp (resumeFrame_fp w p f sig) hm
  · cases f <;> simp [frameMask] at hm
    case acquire r =>
      simp only [resumeFrame]
      split
      · exact NNP.refl w
      · split
        · exact NNP.trans (NNP.of_same (guardWaitLeave_same _ _ _ _)) (acquireStep_nnp _ _ _)
        · exact NNP.of_same (guardWaitLeave_same _ _ _ _)
    case pool pl rem ini pre => cases hf
    case bufGet b rem got =>
      simp only [resumeFrame]
      split
      · exact NNP.refl w
      · split
        · exact NNP.trans (NNP.of_same (guardWaitLeave_same _ _ _ _)) (bufGetLoop_nnp _ _ _ _ _)
        · exact NNP.of_same (guardWaitLeave_same _ _ _ _)
    case bufPut b rem left =>
      simp only [resumeFrame]
      split
      · exact NNP.refl w
      · split
        · exact NNP.trans (NNP.of_same (guardWaitLeave_same _ _ _ _)) (bufPutLoop_nnp _ _ _ _ _)
        · exact NNP.of_same (guardWaitLeave_same _ _ _ _)
    case oqGet q =>
      simp only [resumeFrame]
      split
      · exact NNP.refl w
      · split
        · exact NNP.trans (NNP.of_same (guardWaitLeave_same _ _ _ _)) (oqGetLoop_nnp _ _ _)
        · exact NNP.of_same (guardWaitLeave_same _ _ _ _)
    case oqPut q obj =>
      simp only [resumeFrame]
      split
      · exact NNP.refl w
      · split
        · exact NNP.trans (NNP.of_same (guardWaitLeave_same _ _ _ _)) (oqPutLoop_nnp _ _ _ _)
        · exact NNP.of_same (guardWaitLeave_same _ _ _ _)
    case pqGet k =>
      simp only [resumeFrame]
      split
      · exact NNP.refl w
      · split
        · exact NNP.trans (NNP.of_same (guardWaitLeave_same _ _ _ _)) (pqGetLoop_nnp _ _ _)
        · exact NNP.of_same (guardWaitLeave_same _ _ _ _)
    case pqPut k obj pri v =>
      simp only [resumeFrame]
      split
      · exact NNP.refl w
      · split
        · exact NNP.trans (NNP.of_same (guardWaitLeave_same _ _ _ _)) (pqPutLoop_nnp _ _ _ _ _ _)
        · exact NNP.of_same (guardWaitLeave_same _ _ _ _)

theorem finishProc_nnp (w : World) (p : Pid) (v : Int) (st : Bool) : NNP w (finishProc w p v st) := by
  unfold finishProc
  dsimp only
  refine NNP.trans (NNP.trans ?_ (NNP.of_same (wakeWaiters_same _ _ _))) (NNP.clear _ _ _ (fun _ => rfl))
  split
  · exact NNP.trans (NNP.of_same (cancelAwaiteds_same _ _)) (NNP.of_fp (dropResources_fp _ _) rfl)
  · exact NNP.trans (NNP.of_fp (dropResources_fp _ _) rfl) (NNP.of_same (cancelAwaiteds_same _ _))

/-! ### the pool loop leaves a pool frame only with a positive claim -/

theorem poolMug_rem_pos : ∀ (fuel : Nat) (w : World) (p : Pid) (pl rem : Nat), 0 < rem →
    ∀ r, (poolMug fuel w p pl rem).2 = some r → 0 < r := by
  intro fuel
  induction fuel with
  | zero => intro w p pl rem hrem r h; simp [poolMug] at h; omega
  | succ n ih =>
    intro w p pl rem hrem r h
    unfold poolMug at h
    split at h
    · simp at h; omega
    · split at h
      · simp at h; omega
      · split at h
        · split at h
          · split at h
            · dsimp only at h
              split at h
              · rename_i hlt
                exact ih _ _ _ _ (by omega) r h
              · simp at h
            · simp at h; omega
            · simp at h; omega
          · simp at h; omega
        · simp at h; omega

theorem poolMug_rem_le : ∀ (fuel : Nat) (w : World) (p : Pid) (pl rem : Nat),
    ∀ r, (poolMug fuel w p pl rem).2 = some r → r ≤ rem := by
  intro fuel
  induction fuel with
  | zero => intro w p pl rem r h; simp [poolMug] at h; omega
  | succ n ih =>
    intro w p pl rem r h
    unfold poolMug at h
    split at h
    · simp at h; omega
    · split at h
      · simp at h; omega
      · split at h
        · split at h
          · split at h
            · dsimp only at h
              split at h
              · have := ih _ _ _ _ r h
                omega
              · simp at h
            · simp at h; omega
            · simp at h; omega
          · simp at h; omega
        · simp at h; omega

/-- what `poolLoop` does to the `blocked` fields: nothing, or the caller is suspended in a pool frame with a positive
    outstanding claim -/
theorem poolLoop_frames (w : World) (p : Pid) (pl rem ini : Nat) (pre : Bool) (hrem : 0 < rem) :
    ∀ q F, ((poolLoop w p pl rem ini pre).1.proc q).blocked = some F →
      (w.proc q).blocked = some F ∨ ∃ r, 0 < r ∧ F = .pool pl r ini pre := by
  intro q F hq
  unfold poolLoop at hq
  split at hq
  · left; simpa using hq
  · rename_i x hx
    dsimp only at hq
    split at hq
    · left; simpa using hq
    · rename_i hav
      -- name the intermediate results
      generalize hr1 : (if x.cap - x.inUse > 0 then
          (poolUpdateRecord (recordPool (setPoolInUse w pl (x.inUse + (x.cap - x.inUse))) pl) pl p (x.cap - x.inUse),
            rem - (x.cap - x.inUse)) else (w, rem)) = r1 at hq
      have h1 : (∀ q, (r1.1.proc q).blocked = (w.proc q).blocked) ∧ 0 < r1.2 := by
        rw [← hr1]
        split
        · exact ⟨fun q => by simp, by show 0 < rem - (x.cap - x.inUse); omega⟩
        · exact ⟨fun _ => rfl, hrem⟩
      obtain ⟨w1, rem1⟩ := r1
      dsimp only at h1 hq
      generalize hr2 : (if pre = true then poolMug (x.holders.count + 1) w1 p pl rem1 else (w1, some rem1)) = r2 at hq
      have h2 : (∀ q, (r2.1.proc q).blocked = (w.proc q).blocked) ∧ ∀ r, r2.2 = some r → 0 < r := by
        rw [← hr2]
        split
        · exact ⟨fun q => by rw [← h1.1 q]; simp, poolMug_rem_pos _ _ _ _ _ h1.2⟩
        · exact ⟨h1.1, fun r hr => by injection hr with e; omega⟩
      obtain ⟨w2, rem2⟩ := r2
      dsimp only at h2 hq
      cases rem2 with
      | none => left; rw [← h2.1 q]; exact hq
      | some r =>
        dsimp only at hq
        rw [block_blocked] at hq
        split at hq
        · right
          injection hq with e
          exact ⟨r, h2.2 r rfl, e.symm⟩
        · left
          rw [← h2.1 q]
          simpa using hq

theorem FramePos.poolLoop {w : World} (p : Pid) (pl rem ini : Nat) (pre : Bool) (hrem : 0 < rem) (hf : FramePos w) :
    FramePos (poolLoop w p pl rem ini pre).1 := by
  intro q pl' rem' ini' pre' hq
  rcases poolLoop_frames w p pl rem ini pre hrem q _ hq with h | ⟨r, hr, e⟩
  · exact hf q pl' rem' ini' pre' h
  · injection e with e1 e2 e3 e4
    omega

/-! ### the full pool invariant -/

/-- `PoolInv` (which includes: every holder record carries a positive amount) together with "every suspended pool
    acquisition has a positive outstanding claim" -/
def PoolFull (w : World) : Prop := PoolInv w ∧ FramePos w

theorem PoolFull.execNonPool {w : World} (p : Pid) (c : Cmd) (hc : ∀ pl n, c ≠ .poolAcquire pl n ∧ c ≠ .poolPreempt pl n)
    (h : PoolFull w) : PoolFull (execCmd w p c).1 := by
  refine ⟨?_, h.2.of_nnp (execCmd_nnp w p c hc)⟩
  have hi := h.1
  by_cases hm : (cmdMask c).pools = false ∧ (cmdMask c).held = false
  · have hpr : (cmdMask c).prio = false := by
      cases c <;> first | rfl | (simp [cmdMask] at hm; done) | (simp only [cmdMask]; unfold recMask; split <;> rfl)
    exact PoolInv.of_fp (execCmd_fp w p c) hm.1 hm.2 hi hpr
  · cases c <;> simp [cmdMask] at hm
    case stop q val =>
      simp only [execCmd]
      split
      · exact PoolInv.finishProc _ _ _ _ hi
      · split
        · exact PoolInv.finishProc _ _ _ _ hi
        · exact hi
    case exit val => simp only [execCmd]; exact PoolInv.finishProc _ _ _ _ hi
    case prioSet q v => exact PoolInv.prioSet _ _ _ _ hi
    case acquire r => exact PoolInv.of_viewSame (resCmd_viewSame w p _ r (Or.inl rfl)) hi
    case preempt r => exact PoolInv.of_viewSame (resCmd_viewSame w p _ r (Or.inr (Or.inl rfl))) hi
    case release r => exact PoolInv.of_viewSame (resCmd_viewSame w p _ r (Or.inr (Or.inr rfl))) hi
    case poolAcquire pl n => exact absurd rfl (hc pl n).1
    case poolPreempt pl n => exact absurd rfl (hc pl n).2
    case poolRelease pl n => exact PoolInv.poolRelease _ _ _ _ hi
    case recStart kind idx => simp only [execCmd]; exact PoolInv.of_viewSame (setRecording_viewSame _ _ _ _) hi
    case recStop kind idx => simp only [execCmd]; exact PoolInv.of_viewSame (setRecording_viewSame _ _ _ _) hi

theorem PoolFull.poolLoop {w : World} (p : Pid) (pl rem ini : Nat) (pre : Bool) (hp : p < w.procs.size) (hrem : 0 < rem)
    (h : PoolFull w) : PoolFull (poolLoop w p pl rem ini pre).1 :=
  ⟨PoolInv.poolLoop w p pl rem ini pre h.1 hp hrem, h.2.poolLoop p pl rem ini pre hrem⟩

theorem PoolFull.preserved : Preserved PoolFull where
  same hs h := ⟨h.1.same hs, h.2.of_nnp (NNP.of_same hs)⟩
  tick _ h := ⟨PoolInv.of_viewSame ⟨rfl, fun _ => rfl, fun _ _ => Iff.rfl, rfl⟩ h.1, h.2⟩
  finish w p v st h := ⟨PoolInv.finishProc w p v st h.1, h.2.of_nnp (finishProc_nnp w p v st)⟩
  clear w p f hf hb hp h := ⟨PoolInv.of_fp (modProc_fp_blocked w p f hf hp) rfl rfl h.1, h.2.of_nnp (NNP.clear w p f hb)⟩
  exec w p c hp h := by
    cases c
    case poolAcquire pl n =>
      simp only [execCmd]
      split
      · exact h
      · split
        · exact h
        · rename_i hn
          exact h.poolLoop p pl n _ false hp (by
            have : n ≠ 0 := fun e => hn (Or.inl e)
            omega)
    case poolPreempt pl n =>
      simp only [execCmd]
      split
      · exact h
      · split
        · exact h
        · rename_i hn
          exact h.poolLoop p pl n _ true hp (by
            have : n ≠ 0 := fun e => hn (Or.inl e)
            omega)
    all_goals exact h.execNonPool p _ (by intro pl n; constructor <;> simp)
  resume w p f sig hp hfr h := by
    by_cases hpool : Frame.isPool f = false
    · refine ⟨?_, h.2.of_nnp (resumeFrame_nnp w p f sig hpool)⟩
      have hi := h.1
      by_cases hm : (frameMask f).pools = false ∧ (frameMask f).held = false
      · exact PoolInv.of_fp (resumeFrame_fp w p f sig) hm.1 hm.2 hi (by cases f <;> rfl)
      · cases f <;> simp [frameMask] at hm
        case acquire r => exact PoolInv.of_viewSame (acquireFrame_viewSame w p r sig) hi
        case pool pl rem ini pre => cases hpool
    · cases f <;> simp [Frame.isPool] at hpool
      case pool pl rem ini pre =>
        -- the frame was stored by an earlier pass: its claim is positive
        obtain ⟨w0, h0, hb, _⟩ := hfr
        have hrem : 0 < rem := h0.2 p pl rem ini pre hb
        simp only [resumeFrame]
        split
        · exact h
        · rename_i x hx
          have h1 : PoolFull (guardWaitLeave w x.guard p sig) :=
            ⟨h.1.same (guardWaitLeave_same _ _ _ _), h.2.of_nnp (NNP.of_same (guardWaitLeave_same _ _ _ _))⟩
          have hp1 : p < (guardWaitLeave w x.guard p sig).procs.size := by
            rw [(guardWaitLeave_same w x.guard p sig).2.2.2.2.2.2.2.1]; exact hp
          split
          · exact ⟨PoolInv.poolRollback _ _ _ _ h1.1, h1.2.of_nnp (NNP.of_fp (poolRollback_fp _ _ _ _) rfl)⟩
          · exact h1.poolLoop p pl rem ini pre hp1 hrem

end CimbaModel.Sim
