/-
  S3 — `PInv`, part 9: a whole activation of a process (`runScript`, `resumeProc`) and `dispatch`.
  Between activations the logical frames are the recorded ones: the invariant is `PInv noEx (blockedOf w) w`.
-/
import CimbaModel.Sim.S3PInvRun

namespace CimbaModel.Sim.S3
open CimbaModel CimbaModel.Sim CimbaModel.Event CimbaModel.Generated CimbaModel.KPQ
open CimbaModel.HashHeap (HTag Item Order HH WF abs liveTags)

/-- the stable form of the invariant -/
def PInvB (w : World) : Prop := PInv noEx (blockedOf w) w

theorem PInv.toB {fr : Pid → Option Frame} {w : World} (h : PInv noEx fr w) : PInvB w := h.toBlocked noEx_not

/-- a step that keeps every recorded frame -/
theorem PInvB.of_sameBlocked {w w' : World} (h : PInv noEx (blockedOf w) w') : PInvB w' := h.toB

theorem script_none_of_oob {w : World} {p : Pid} (h : w.procs.size ≤ p) (i : Nat) : (w.proc p).script[i]? = none := by
  rw [proc_oob w h]; rfl

/-- writing a log line and advancing the program counter -/
theorem PInvB.advance {w : World} (h : PInvB w) (p : Pid) (l : String) (pc' : Nat) :
    PInvB ((w.emit l).modProc p fun y => { y with pc := pc' }) :=
  (PInv.modProc_ctl (PInv.emit h l) p (fun y => { y with pc := pc' }) (fun _ => ⟨rfl, rfl, rfl, rfl⟩)).toB

theorem advance_proc (w : World) (p : Pid) (l : String) (pc' : Nat) :
    (((w.emit l).modProc p fun y => { y with pc := pc' }).proc p).blocked = (w.proc p).blocked ∧
    (((w.emit l).modProc p fun y => { y with pc := pc' }).proc p).status = (w.proc p).status ∧
    ((w.emit l).modProc p fun y => { y with pc := pc' }).procs.size = w.procs.size := by
  refine ⟨?_, ?_, by simp⟩ <;> (rw [modProc_proc]; split <;> rfl)

theorem PInvB.runScript : ∀ (fuel : Nat) {w : World} {p : Pid}, PInvB w → (w.proc p).blocked = none →
    (p < w.procs.size → (w.proc p).status = .running) → PInvB (runScript fuel w p) := by
  intro fuel
  induction fuel with
  | zero => intro w p h _ _; exact (PInv.fail h _).toB
  | succ fuel ih =>
    intro w p h hb hr
    simp only [Sim.runScript]
    split
    · exact (PInv.finishProc (PInv.emit h _) p 0 false (noEx_not p)).toB
    · rename_i c text hs
      have hlt : p < w.procs.size := by
        rcases Nat.lt_or_ge p w.procs.size with h' | h'
        · exact h'
        · rw [script_none_of_oob h'] at hs; cases hs
      have hrun := hr hlt
      have h1 : PInv noEx (blockedOf w) (w.emit s!"c {p} {(w.proc p).pc} {w.now} {text}") := PInv.emit h _
      obtain ⟨fr', hx⟩ := h1.execCmd_ex (p := p) hb hrun c
      have hk := ContKeep.execCmd (w.emit s!"c {p} {(w.proc p).pc} {w.now} {text}") p c
      rcases hres : execCmd (w.emit s!"c {p} {(w.proc p).pc} {w.now} {text}") p c with ⟨w1, out⟩
      rw [hres] at hx hk
      have hx' : PInvB w1 := hx.toB
      cases out with
      | ret v extra =>
        have hkp : KeepP p (w.emit s!"c {p} {(w.proc p).pc} {w.now} {text}") w1 := hk rfl
        dsimp only
        obtain ⟨a1, a2, a3⟩ := advance_proc w1 p
          (s!"r {p} {(w.proc p).pc} {w1.now} {v}" ++ (if extra = "" then "" else " " ++ extra)) ((w.proc p).pc + 1)
        exact ih (hx'.advance p _ _) (a1.trans (hkp.1.trans hb)) (fun _ => a2.trans (hkp.2.trans hrun))
      | skip =>
        have hkp : KeepP p (w.emit s!"c {p} {(w.proc p).pc} {w.now} {text}") w1 := hk rfl
        dsimp only
        obtain ⟨a1, a2, a3⟩ := advance_proc w1 p s!"s {p} {(w.proc p).pc} {w1.now}" ((w.proc p).pc + 1)
        exact ih (hx'.advance p _ _) (a1.trans (hkp.1.trans hb)) (fun _ => a2.trans (hkp.2.trans hrun))
      | blocked => exact hx'
      | ended =>
        dsimp only
        split <;> exact (PInv.emit hx' _).toB

theorem PInvB.resumeProc {w : World} (h : PInvB w) (p : Pid) (sig : Int) : PInvB (resumeProc w p sig) := by
  simp only [Sim.resumeProc]
  split
  · exact (PInv.fail h _).toB
  · rename_i hrun
    have hrun' : (w.proc p).status = .running := Classical.byContradiction fun hn => hrun hn
    split
    · exact (PInv.fail h _).toB
    · rename_i f hbf
      have hfr : blockedOf w p = some f := hbf
      -- the state after the epilogue of the suspended call
      have hx : ∃ fr', PInv noEx fr' (resumeFrame (w.modProc p fun y => { y with blocked := none }) p f sig).1 := by
        cases hf : isWaitPE f with
        | true =>
          cases f with
          | waitProc q => exact ⟨_, PInv.resume_waitProc h hfr (noEx_not p) sig⟩
          | waitEvent k => exact ⟨_, PInv.resume_waitEvent h hfr (noEx_not p) sig⟩
          | _ => cases hf
        | false =>
          -- no process / event registration: the frame can be forgotten before the epilogue runs
          have hnil : procAw w p = [] ∧ evAw w p = [] := by
            constructor
            · rcases h.ap p with h' | ⟨q, hq, _⟩
              · exact h'
              · rw [hfr] at hq; cases hq; cases hf
            · rcases h.ae p with h' | ⟨q, hq, _⟩
              · exact h'
              · rw [hfr] at hq; cases hq; cases hf
          have h1 : PInv noEx (setFrame (blockedOf w) p none) w := by
            refine PInv.setFr h _ ?_ ?_
            · intro x hx'
              by_cases hxp : x = p
              · subst hxp; exact hnil
              · rw [setFrame_ne _ _ hxp] at hx'; exact absurd rfl hx'
            · intro x _ hx'
              by_cases hxp : x = p
              · subst hxp; exact hnil
              · rw [setFrame_ne _ _ hxp] at hx'; exact absurd rfl hx'
          have h2 := h1.modBlocked p none hnil
          exact h2.resumeFrame_ex (setFrame_self _ _ _) f hf sig
      obtain ⟨fr', hx⟩ := hx
      have hk := ContKeep.resumeFrame (w.modProc p fun y => { y with blocked := none }) p f sig
      have hlt := lt_of_running hrun'
      have hbA : ((w.modProc p fun y => { y with blocked := none }).proc p).blocked = none := by
        rw [modProc_proc_self w _ hlt]
      have hsA : ((w.modProc p fun y => { y with blocked := none }).proc p).status = .running := by
        rw [modProc_proc_self w _ hlt]; exact hrun'
      rcases hres : resumeFrame (w.modProc p fun y => { y with blocked := none }) p f sig with ⟨w1, out⟩
      rw [hres] at hx hk
      have hx' : PInvB w1 := hx.toB
      cases out with
      | ret v extra =>
        have hkp : KeepP p (w.modProc p fun y => { y with blocked := none }) w1 := hk rfl
        dsimp only
        obtain ⟨a1, a2, a3⟩ := advance_proc w1 p
          (s!"r {p} {(w.proc p).pc} {w1.now} {v}" ++ (if extra = "" then "" else " " ++ extra)) ((w.proc p).pc + 1)
        exact PInvB.runScript _ (hx'.advance p _ _) (a1.trans (hkp.1.trans hbA)) (fun _ => a2.trans (hkp.2.trans hsA))
      | skip => exact hx'
      | blocked => exact hx'
      | ended => exact hx'


/-! ### dispatch -/

theorem executeNext_facts {q q' : EvQ} {t : HTag} (hi : EvInv q) (h : executeNext q = some (t, q')) :
    EvInv q' ∧ t ∈ q.pending ∧ q'.pending = remove q.pending t.key ∧ q'.counter = q.counter := by
  obtain ⟨h1, h2, _, _, _, _, _, h3⟩ := executeNext_inv hi h
  refine ⟨h1, h2, h3, ?_⟩
  unfold executeNext at h
  split at h
  · cases h
  · simp only [Option.some.injEq, Prod.mk.injEq] at h
    rw [← h.2]

theorem takeNext_eq (w : World) (t : HTag) (ev' : EvQ) :
    takeNext w t ev' =
      pushAll { afterNext w ev' with evWaiters := w.evWaiters.filter (·.1 ≠ t.key) } (evWakes w (evWaitersOf w t.key) sigSuccess) := by
  unfold takeNext
  rw [wakeEventWaiters_eq]
  rfl

/-- taking the next event off the queue and waking its waiters -/
theorem PInvB.takeNext {w : World} (hp : PInvB w) {t : HTag} {ev' : EvQ} (hn : executeNext w.ev = some (t, ev')) :
    PInv noEx (blockedOf w) (takeNext w t ev') ∧
    (∀ x, (takeNext w t ev').proc x = w.proc x) ∧
    (∀ e ∈ (takeNext w t ev').ev.pending, (e ∈ w.ev.pending ∧ e.key ≠ t.key) ∨
      (e.item.a = aEvent ∧ ∃ q ∈ evWaitersOf w t.key, e.item.b = q + 1)) := by
  obtain ⟨hei', htm, hpend, hctr⟩ := executeNext_facts hp.ei hn
  have hkey : t.key ∈ keys w.ev.pending := Event.mem_keys.2 ⟨t, htm, rfl⟩
  rw [takeNext_eq]
  refine ⟨?_, fun _ => rfl, ?_⟩
  · refine PInv.popWake hp t.key sigSuccess rfl rfl ?_ hei' hkey ?_ hctr ?_
    · intro e he
      have : e ∈ remove w.ev.pending t.key := by rw [← hpend]; exact he
      exact (mem_remove.1 this).1
    · intro hm
      obtain ⟨e2, he2, hk2⟩ := Event.mem_keys.1 hm
      have : e2 ∈ remove w.ev.pending t.key := by rw [← hpend]; exact he2
      exact (mem_remove.1 this).2 hk2
    · intro k hk hne
      obtain ⟨e2, he2, hk2⟩ := Event.mem_keys.1 hk
      refine Event.mem_keys.2 ⟨e2, ?_, hk2⟩
      show e2 ∈ ev'.pending
      rw [hpend]; exact mem_remove.2 ⟨he2, by rw [hk2]; exact hne⟩
  · intro e he
    simp only [pushAll_pending, List.mem_append] at he
    rcases he with he | he
    · right
      obtain ⟨_, _, _, _, x, hx, heq⟩ := wakeEvs_props he
      simp only [evWakes, List.mem_map] at hx
      obtain ⟨q, hq, rfl⟩ := hx
      rw [heq]; exact ⟨rfl, q, hq, rfl⟩
    · left
      have : e ∈ remove w.ev.pending t.key := by rw [← hpend]; exact he
      exact mem_remove.1 this

/-- the registration of a process whose (unique) process-end wake-up has just been taken off the queue is dropped -/
theorem PInv.dropProcKind {fr : Pid → Option Frame} {w : World} (hp : PInv noEx fr w) {p : Pid}
    (hnoev : ∀ e ∈ w.ev.pending, e.item.a = aProc → e.item.b ≠ p + 1)
    (hq : ∃ q, Await.proc q ∈ (w.proc p).awaits ∧ p ∉ (w.proc q).waiters) :
    PInv noEx fr (removeAwaitKind w p isProcA).1 := by
  obtain ⟨q, hq1, hq2⟩ := hq
  have hfr := (hp.proc_unique hq1 hq1).2
  obtain ⟨hev, hpa, hnoE, hnoW, hwt, _⟩ := hp.waitProc_facts hfr (noEx_not p)
  rw [removeAwaitKind_fst_eq]
  have hfil1 : ((removeAwaitKind.go isProcA (w.proc p).awaits).1).filter isProcA = [] := by
    rw [rak_go_filter_self]
    have : (w.proc p).awaits.filter isProcA = procAw w p := rfl
    rw [this]
    rcases hpa with h | h <;> rw [h] <;> rfl
  have hfil2 : ((removeAwaitKind.go isProcA (w.proc p).awaits).1).filter isEventA = [] := by
    rw [rak_go_filter _ _ (fun a h => by cases a <;> simp_all [isProcA, isEventA])]; exact hev
  have hB := (hp.exempt p).modProcEx (fun x => { x with awaits := (removeAwaitKind.go isProcA x.awaits).1 }) rfl rfl hfil1 hfil2
  have hwt' : ∀ x, ((w.modProc p fun x => { x with awaits := (removeAwaitKind.go isProcA x.awaits).1 }).proc x).waiters =
      (w.proc x).waiters := by
    intro x; rw [modProc_proc]; split
    · rename_i h; rw [h.1]
    · rfl
  refine hB.unexempt ?_ ?_ ?_ ?_
  · intro e he hk hb
    rcases hk with hk | hk
    · exact hnoev e he hk hb
    · exact hnoE e he hk hb
  · intro x hx
    rw [hwt'] at hx
    have := (hwt x hx).1
    subst this; exact hq2 hx
  · intro k l hm; exact hnoW k l hm
  · intro _
    unfold procAw evAw
    by_cases hs : p < w.procs.size
    · rw [modProc_proc_self w _ hs]; exact ⟨hfil1, hfil2⟩
    · rw [modProc_proc]; simp only [hs, and_false, if_false]
      rw [proc_oob w (Nat.le_of_not_lt hs)]; exact ⟨rfl, rfl⟩

theorem lookup_of_mem_nodup {β : Type} : ∀ {l : List (Nat × β)} {k : Nat} {v : β}, (l.map (·.1)).Nodup → (k, v) ∈ l →
    l.lookup k = some v := by
  intro l
  induction l with
  | nil => intro k v _ hm; cases hm
  | cons x xs ih =>
    intro k v hnd hm
    rcases x with ⟨k0, l0⟩
    simp only [List.map_cons, List.nodup_cons] at hnd
    rcases List.mem_cons.1 hm with heq | hm'
    · cases heq; simp [List.lookup_cons]
    · have hne : k ≠ k0 := by
        intro he; subst he
        exact hnd.1 (List.mem_map.2 ⟨(k, v), hm', rfl⟩)
      have : (k == k0) = false := by simpa using hne
      rw [List.lookup_cons, this]; exact ih hnd.2 hm'

/-- … and the same for an event-done wake-up -/
theorem PInv.dropEventKind {fr : Pid → Option Frame} {w : World} (hp : PInv noEx fr w) {p : Pid}
    (hnoev : ∀ e ∈ w.ev.pending, e.item.a = aEvent → e.item.b ≠ p + 1)
    (hq : ∃ h, Await.event h ∈ (w.proc p).awaits ∧ p ∉ evWaitersOf w h) :
    PInv noEx fr (removeAwaitKind w p isEventA).1 := by
  obtain ⟨h, hq1, hq2⟩ := hq
  have hfr := (hp.event_unique hq1 hq1).2
  obtain ⟨hpa, hea, hnoP, hnoW, hwt, _⟩ := hp.waitEvent_facts hfr (noEx_not p)
  rw [removeAwaitKind_fst_eq]
  have hfil1 : ((removeAwaitKind.go isEventA (w.proc p).awaits).1).filter isProcA = [] := by
    rw [rak_go_filter _ _ (fun a h => by cases a <;> simp_all [isProcA, isEventA])]; exact hpa
  have hfil2 : ((removeAwaitKind.go isEventA (w.proc p).awaits).1).filter isEventA = [] := by
    rw [rak_go_filter_self]
    have : (w.proc p).awaits.filter isEventA = evAw w p := rfl
    rw [this]
    rcases hea with h' | h' <;> rw [h'] <;> rfl
  have hB := (hp.exempt p).modProcEx (fun x => { x with awaits := (removeAwaitKind.go isEventA x.awaits).1 }) rfl rfl hfil1 hfil2
  have hwt' : ∀ x, ((w.modProc p fun x => { x with awaits := (removeAwaitKind.go isEventA x.awaits).1 }).proc x).waiters =
      (w.proc x).waiters := by
    intro x; rw [modProc_proc]; split
    · rename_i h; rw [h.1]
    · rfl
  refine hB.unexempt ?_ ?_ ?_ ?_
  · intro e he hk hb
    rcases hk with hk | hk
    · exact hnoP e he hk hb
    · exact hnoev e he hk hb
  · intro x hx; rw [hwt'] at hx; exact hnoW x hx
  · intro k l hm hpl
    have hk := (hwt k l hm hpl).1
    subst hk
    apply hq2
    unfold evWaitersOf
    have hl : w.evWaiters.lookup k = some l := lookup_of_mem_nodup hp.en.1 hm
    rw [hl]; exact hpl
  · intro _
    unfold procAw evAw
    by_cases hs : p < w.procs.size
    · rw [modProc_proc_self w _ hs]; exact ⟨hfil1, hfil2⟩
    · rw [modProc_proc]; simp only [hs, and_false, if_false]
      rw [proc_oob w (Nat.le_of_not_lt hs)]; exact ⟨rfl, rfl⟩


/-- `PInv` is preserved by `dispatch`: for all programs, schedules and same-instant coincidences -/
theorem PInvB.dispatch {w w' : World} (hp : PInvB w) (hd : dispatch w = some w') : PInvB w' := by
  rw [dispatch_eq] at hd
  split at hd
  · cases hd
  · rename_i t ev' hn
    simp only [Option.some.injEq] at hd
    subst hd
    obtain ⟨hT, hproc, hpend⟩ := hp.takeNext hn
    obtain ⟨_, htm, _, _⟩ := executeNext_facts hp.ei hn
    have hTB : PInvB (S3.takeNext w t ev') := hT.toB
    have htev : (S3.takeNext w t ev').evWaiters = w.evWaiters.filter (·.1 ≠ t.key) := takeNext_evWaiters w t ev'
    generalize S3.takeNext w t ev' = wT at hT hproc hpend hTB htev
    unfold dispatchBody
    dsimp only
    by_cases h1 : t.item.a = aStart
    · rw [if_pos h1]
      split
      · exact (PInv.fail hTB _).toB
      · rename_i hnr
        have hnil := hTB.ar (t.item.b - 1) hnr
        have hS : PInvB (wT.modProc (t.item.b - 1) fun y => { y with status := .running, pc := 0, blocked := none }) :=
          (PInv.modFinish hTB (t.item.b - 1) (fun y => { y with status := .running, pc := 0, blocked := none })
            (fun _ => rfl) (fun _ => rfl) hnil).toB
        refine PInvB.runScript _ hS ?_ ?_
        · rw [modProc_proc]; split
          · rfl
          · rename_i h
            by_cases hs : t.item.b - 1 < wT.procs.size
            · exact absurd ⟨rfl, hs⟩ h
            · rw [proc_oob _ (Nat.le_of_not_lt hs)]
        · intro hlt
          have hlt' : t.item.b - 1 < wT.procs.size := by simpa using hlt
          rw [modProc_proc_self _ _ hlt']
    rw [if_neg h1]
    by_cases h2 : t.item.a = aTime
    · rw [if_pos h2]
      exact (PInv.removeAwait_time hTB _ _).toB.resumeProc _ _
    rw [if_neg h2]
    by_cases h3 : t.item.a = aProc
    · rw [if_pos h3]
      have hb0 : t.item.b ≠ 0 := hp.sb t htm (Or.inl h3)
      have hb : t.item.b = (t.item.b - 1) + 1 := by omega
      have hD : PInvB (removeAwaitKind wT (t.item.b - 1) isProcA).1 := by
        refine (PInv.dropProcKind hTB ?_ ?_).toB
        · intro e he hea heb
          rcases hpend e he with ⟨hew, hek⟩ | ⟨hee, _⟩
          · have := hp.up e hew t htm hea h3 (by rw [heb, ← hb]) (t.item.b - 1) heb (noEx_not _)
            exact hek (by rw [this])
          · rw [hea] at hee; cases hee
        · obtain ⟨q, q1, q2⟩ := hp.op t htm h3 (t.item.b - 1) hb (noEx_not _)
          exact ⟨q, by rw [hproc]; exact q1, by rw [hproc]; exact q2⟩
      split
      · exact hD.resumeProc _ _
      · exact hD
    rw [if_neg h3]
    by_cases h4 : t.item.a = aEvent
    · rw [if_pos h4]
      have hb0 : t.item.b ≠ 0 := hp.sb t htm (Or.inr h4)
      have hb : t.item.b = (t.item.b - 1) + 1 := by omega
      obtain ⟨k, k1, k2⟩ := hp.oe t htm h4 (t.item.b - 1) hb (noEx_not _)
      obtain ⟨k3, _⟩ := hp.oh t htm h4 (t.item.b - 1) hb (noEx_not _) k k1
      have hkt : k ≠ t.key := fun he => k3 (he ▸ Event.mem_keys.2 ⟨t, htm, rfl⟩)
      have hD : PInvB (removeAwaitKind wT (t.item.b - 1) isEventA).1 := by
        refine (PInv.dropEventKind hTB ?_ ?_).toB
        · intro e he hea heb
          rcases hpend e he with ⟨hew, hek⟩ | ⟨_, q, hq, hbq⟩
          · have := hp.ue e hew t htm hea h4 (by rw [heb, ← hb]) (t.item.b - 1) heb (noEx_not _)
            exact hek (by rw [this])
          · have hqp : q = t.item.b - 1 := Nat.add_right_cancel (hbq.symm.trans heb)
            subst hqp
            obtain ⟨l, hl, hql⟩ := evWaitersOf_mem hq
            have := hp.e1 t.key l _ hl hql (noEx_not _)
            exact hkt (hp.event_unique' k1 this)
        · refine ⟨k, by rw [hproc]; exact k1, ?_⟩
          unfold evWaitersOf at k2 ⊢
          rw [htev, lookup_filter_ne _ _ _ hkt]; exact k2
      split
      · exact hD.resumeProc _ _
      · exact hD
    rw [if_neg h4]
    by_cases h5 : t.item.a = aRes ∨ t.item.a = aPreempt
    · rw [if_pos h5]
      split
      · exact hTB.resumeProc _ _
      · exact hTB
    rw [if_neg h5]
    by_cases h6 : t.item.a = aCond
    · rw [if_pos h6]
      have hD := (PInv.removeAwaitKind_guard hTB (t.item.b - 1)).toB
      split
      · exact hD.resumeProc _ _
      · exact hD
    rw [if_neg h6]
    by_cases h7 : t.item.a = aIntr
    · rw [if_pos h7]
      exact (PInv.cancelAwaiteds hTB (t.item.b - 1) (noEx_not _)).1.toB.resumeProc _ _
    rw [if_neg h7]
    split
    · exact hTB.resumeProc _ _
    · exact hTB

/-- … hence in every state reachable by dispatching events -/
theorem PInvB.reach {w w' : World} (h : Reach w w') (hp : PInvB w) : PInvB w' := by
  induction h with
  | refl => exact hp
  | step _ hd ih => exact ih.dispatch hd

theorem PInvB.runAll (fuel : Nat) (w : World) (hp : PInvB w) : PInvB (runAll fuel w) :=
  runAll_inv (I := PInvB) (fun _ l h => (PInv.emit h l).toB) (fun _ _ h _ hd => h.dispatch hd) fuel w hp

end CimbaModel.Sim.S3
