/-
  S3 — `PInv`, part 9: a whole activation of a process (`runScript`, `resumeProc`) and `dispatch`.
  Between activations the logical frames are the recorded ones: the invariant is `PInv noEx (blockedOf w) w`.
-/
import CimbaModel.Sim.S3PInvRun

namespace CimbaModel.Sim.S3
open CimbaModel CimbaModel.Sim CimbaModel.Event CimbaModel.Generated CimbaModel.KPQ
open CimbaModel.HashHeap (HTag Item Order HH WF abs liveTags)

/-- the stable form of the invariant -/
def PInvB (w : World) : Prop := PInv noEx (blockedOf w) w

theorem PInv.toB {fr : Pid → Option Frame} {w : World} (h : PInv noEx fr w) : PInvB w := h.toBlocked noEx_not

/-- a step that keeps every recorded frame -/
theorem PInvB.of_sameBlocked {w w' : World} (h : PInv noEx (blockedOf w) w') : PInvB w' := h.toB

theorem script_none_of_oob {w : World} {p : Pid} (h : w.procs.size ≤ p) (i : Nat) : (w.proc p).script[i]? = none := by
  rw [proc_oob w h]; rfl

/-- writing a log line and advancing the program counter -/
theorem PInvB.advance {w : World} (h : PInvB w) (p : Pid) (l : String) (pc' : Nat) :
    PInvB ((w.emit l).modProc p fun y => { y with pc := pc' }) :=
  (PInv.modProc_ctl (PInv.emit h l) p (fun y => { y with pc := pc' }) (fun _ => ⟨rfl, rfl, rfl, rfl⟩)).toB

theorem advance_proc (w : World) (p : Pid) (l : String) (pc' : Nat) :
    (((w.emit l).modProc p fun y => { y with pc := pc' }).proc p).blocked = (w.proc p).blocked ∧
    (((w.emit l).modProc p fun y => { y with pc := pc' }).proc p).status = (w.proc p).status ∧
    ((w.emit l).modProc p fun y => { y with pc := pc' }).procs.size = w.procs.size := by
  refine ⟨?_, ?_, by simp⟩ <;> (rw [modProc_proc]; split <;> rfl)

theorem PInvB.runScript : ∀ (fuel : Nat) {w : World} {p : Pid}, PInvB w → (w.proc p).blocked = none →
    (p < w.procs.size → (w.proc p).status = .running) → PInvB (runScript fuel w p) := by
  intro fuel
  induction fuel with
  | zero => intro w p h _ _; exact (PInv.fail h _).toB
  | succ fuel ih =>
    intro w p h hb hr
    simp only [Sim.runScript]
    split
    · exact (PInv.finishProc (PInv.emit h _) p 0 false (noEx_not p)).toB
    · rename_i c text hs
      have hlt : p < w.procs.size := by
        rcases Nat.lt_or_ge p w.procs.size with h' | h'
        · exact h'
        · rw [script_none_of_oob h'] at hs; cases hs
      have hrun := hr hlt
      have h1 : PInv noEx (blockedOf w) (w.emit s!"c {p} {(w.proc p).pc} {w.now} {text}") := PInv.emit h _
      obtain ⟨fr', hx⟩ := h1.execCmd_ex (p := p) hb hrun c
      have hk := ContKeep.execCmd (w.emit s!"c {p} {(w.proc p).pc} {w.now} {text}") p c
      rcases hres : execCmd (w.emit s!"c {p} {(w.proc p).pc} {w.now} {text}") p c with ⟨w1, out⟩
      rw [hres] at hx hk
      have hx' : PInvB w1 := hx.toB
      cases out with
      | ret v extra =>
        have hkp : KeepP p (w.emit s!"c {p} {(w.proc p).pc} {w.now} {text}") w1 := hk rfl
        dsimp only
        obtain ⟨a1, a2, a3⟩ := advance_proc w1 p
          (s!"r {p} {(w.proc p).pc} {w1.now} {v}" ++ (if extra = "" then "" else " " ++ extra)) ((w.proc p).pc + 1)
        exact ih (hx'.advance p _ _) (a1.trans (hkp.1.trans hb)) (fun _ => a2.trans (hkp.2.trans hrun))
      | skip =>
        have hkp : KeepP p (w.emit s!"c {p} {(w.proc p).pc} {w.now} {text}") w1 := hk rfl
        dsimp only
        obtain ⟨a1, a2, a3⟩ := advance_proc w1 p s!"s {p} {(w.proc p).pc} {w1.now}" ((w.proc p).pc + 1)
        exact ih (hx'.advance p _ _) (a1.trans (hkp.1.trans hb)) (fun _ => a2.trans (hkp.2.trans hrun))
      | blocked => exact hx'
      | ended =>
        dsimp only
        split <;> exact (PInv.emit hx' _).toB

theorem PInvB.resumeProc {w : World} (h : PInvB w) (p : Pid) (sig : Int) : PInvB (resumeProc w p sig) := by
  simp only [Sim.resumeProc]
  split
  · exact (PInv.fail h _).toB
  · rename_i hrun
    have hrun' : (w.proc p).status = .running := Classical.byContradiction fun hn => hrun hn
    split
    · exact (PInv.fail h _).toB
    · rename_i f hbf
      have hfr : blockedOf w p = some f := hbf
      -- the state after the epilogue of the suspended call
      have hx : ∃ fr', PInv noEx fr' (resumeFrame (w.modProc p fun y => { y with blocked := none }) p f sig).1 := by
        cases hf : isWaitPE f with
        | true =>
          cases f with
          | waitProc q => exact ⟨_, PInv.resume_waitProc h hfr (noEx_not p) sig⟩
          | waitEvent k => exact ⟨_, PInv.resume_waitEvent h hfr (noEx_not p) sig⟩
          | _ => cases hf
        | false =>
          -- no process / event registration: the frame can be forgotten before the epilogue runs
          have hnil : procAw w p = [] ∧ evAw w p = [] := by
            constructor
            · rcases h.ap p with h' | ⟨q, hq, _⟩
              · exact h'
              · rw [hfr] at hq; cases hq; cases hf
            · rcases h.ae p with h' | ⟨q, hq, _⟩
              · exact h'
              · rw [hfr] at hq; cases hq; cases hf
          have h1 : PInv noEx (setFrame (blockedOf w) p none) w := by
            refine PInv.setFr h _ ?_ ?_
            · intro x hx'
              by_cases hxp : x = p
              · subst hxp; exact hnil
              · rw [setFrame_ne _ _ hxp] at hx'; exact absurd rfl hx'
            · intro x _ hx'
              by_cases hxp : x = p
              · subst hxp; exact hnil
              · rw [setFrame_ne _ _ hxp] at hx'; exact absurd rfl hx'
          have h2 := h1.modBlocked p none hnil
          exact h2.resumeFrame_ex (setFrame_self _ _ _) f hf sig
      obtain ⟨fr', hx⟩ := hx
      have hk := ContKeep.resumeFrame (w.modProc p fun y => { y with blocked := none }) p f sig
      have hlt := lt_of_running hrun'
      have hbA : ((w.modProc p fun y => { y with blocked := none }).proc p).blocked = none := by
        rw [modProc_proc_self w _ hlt]
      have hsA : ((w.modProc p fun y => { y with blocked := none }).proc p).status = .running := by
        rw [modProc_proc_self w _ hlt]; exact hrun'
      rcases hres : resumeFrame (w.modProc p fun y => { y with blocked := none }) p f sig with ⟨w1, out⟩
      rw [hres] at hx hk
      have hx' : PInvB w1 := hx.toB
      cases out with
      | ret v extra =>
        have hkp : KeepP p (w.modProc p fun y => { y with blocked := none }) w1 := hk rfl
        dsimp only
        obtain ⟨a1, a2, a3⟩ := advance_proc w1 p
          (s!"r {p} {(w.proc p).pc} {w1.now} {v}" ++ (if extra = "" then "" else " " ++ extra)) ((w.proc p).pc + 1)
        exact PInvB.runScript _ (hx'.advance p _ _) (a1.trans (hkp.1.trans hbA)) (fun _ => a2.trans (hkp.2.trans hsA))
      | skip => exact hx'
      | blocked => exact hx'
      | ended => exact hx'

end CimbaModel.Sim.S3
