/-
  S3 — `NRInv`: a process that is not running (created, finished) awaits nothing and has no recorded frame.
-/
import CimbaModel.Sim.S3PInvRun

namespace CimbaModel.Sim.S3
open CimbaModel CimbaModel.Sim CimbaModel.Event CimbaModel.Generated CimbaModel.KPQ
open CimbaModel.HashHeap (HTag Item Order HH WF abs liveTags)

def NRInv (w : World) : Prop :=
  ∀ x, (w.proc x).status ≠ .running → (w.proc x).awaits = [] ∧ (w.proc x).blocked = none

theorem NRInv.ofPF {w w' : World} (h : NRInv w) (hpf : PF w w') : NRInv w' := by
  intro x hx
  rw [(hpf.ctl x).1, (hpf.ctl x).2.2.2]
  exact h x (by rw [← (hpf.ctl x).2.2.1]; exact hx)

/-- a modification that keeps status and maps empty awaits to empty awaits, no frame to no frame -/
theorem NRInv.modProc_shrink {w : World} (h : NRInv w) (q : Pid) (f : Proc → Proc)
    (hf : ∀ x, (f x).status = x.status ∧ (x.awaits = [] → (f x).awaits = []) ∧ (x.blocked = none → (f x).blocked = none)) :
    NRInv (w.modProc q f) := by
  intro x hx
  rw [modProc_proc] at hx ⊢
  split
  · rename_i hq
    rw [if_pos hq] at hx
    rw [(hf _).1] at hx
    have := h q hx
    exact ⟨(hf _).2.1 this.1, (hf _).2.2 this.2⟩
  · rename_i hq
    rw [if_neg hq] at hx
    exact h x hx

/-- any modification of a running process that keeps it running -/
theorem NRInv.modProc_running {w : World} (h : NRInv w) (q : Pid) (f : Proc → Proc) (hr : (w.proc q).status = .running)
    (hf : ∀ x, (f x).status = x.status) : NRInv (w.modProc q f) := by
  intro x hx
  rw [modProc_proc] at hx ⊢
  split
  · rename_i hq
    rw [if_pos hq, hf, hr] at hx
    exact absurd rfl hx
  · rename_i hq
    rw [if_neg hq] at hx
    exact h x hx

theorem NRInv.addAwait {w : World} (h : NRInv w) (q : Pid) (a : Await) (hr : (w.proc q).status = .running) :
    NRInv (addAwait w q a) := h.modProc_running q _ hr (fun _ => rfl)

theorem NRInv.block_fst {w : World} (h : NRInv w) (q : Pid) (f : Frame) (hr : (w.proc q).status = .running) :
    NRInv (block w q f).1 := h.modProc_running q _ hr (fun _ => rfl)

theorem removeFirst_nil {α : Type} [DecidableEq α] (a : α) : (removeFirst ([] : List α) a).1 = [] := rfl

theorem NRInv.removeAwait_fst {w : World} (h : NRInv w) (q : Pid) (a : Await) : NRInv (removeAwait w q a).1 := by
  rw [removeAwait_fst_eq]
  exact h.modProc_shrink q _ (fun x => ⟨rfl, fun hx => by show (removeFirst x.awaits a).1 = []; rw [hx]; rfl, fun hx => hx⟩)

theorem NRInv.removeAwaitKind_fst {w : World} (h : NRInv w) (q : Pid) (k : Await → Bool) : NRInv (removeAwaitKind w q k).1 := by
  rw [removeAwaitKind_fst_eq]
  exact h.modProc_shrink q _ (fun x => ⟨rfl, fun hx => by show (removeAwaitKind.go k x.awaits).1 = []; rw [hx]; rfl, fun hx => hx⟩)

theorem NRInv.timerAdd_fst {w : World} (h : NRInv w) (q : Pid) (d sig : Int) (hr : (w.proc q).status = .running) :
    NRInv (timerAdd w q d sig).1 := by
  simp only [timerAdd]
  refine NRInv.addAwait (h.ofPF ((PF.refl w).sched_fst _ _ _ _ _)) q _ ?_
  rw [sched_proc]; exact hr

theorem NRInv.timerCancel_fst {w : World} (h : NRInv w) (q : Pid) (k : Nat) : NRInv (timerCancel w q k).1 := by
  simp only [timerCancel]
  exact (h.removeAwait_fst q _).ofPF ((PF.refl _).evCancel_fst k)

theorem NRInv.timersClear {w : World} (h : NRInv w) (q : Pid) : NRInv (timersClear w q) := by
  unfold Sim.timersClear
  refine NRInv.ofPF ?_ (PF.foldl (fun w k => (PF.refl w).evCancel_fst k) _ (PF.refl _))
  exact h.modProc_shrink q _ (fun x => ⟨rfl, fun hx => by simp [hx], fun hx => hx⟩)

theorem NRInv.foldl {α : Type} {f : World → α → World} (hf : ∀ w a, NRInv w → NRInv (f w a)) :
    ∀ (l : List α) {w : World}, NRInv w → NRInv (l.foldl f w) := by
  intro l
  induction l with
  | nil => intro w h; exact h
  | cons a l ih => intro w h; exact ih (hf w a h)

theorem NRInv.cancelAwaiteds {w : World} (h : NRInv w) (q : Pid) : NRInv (cancelAwaiteds w q) := by
  unfold Sim.cancelAwaiteds
  refine NRInv.ofPF ?_ (PF.cancelAllFor (PF.refl _) q)
  refine NRInv.foldl (fun w a hw => ?_) _ (h.modProc_shrink q _ (fun x => ⟨rfl, fun _ => rfl, fun hx => hx⟩))
  cases a with
  | time k => exact hw.ofPF ((PF.refl w).evCancel_fst k)
  | guard g => exact hw.ofPF ((PF.refl w).guardWithdraw g q)
  | proc r => exact hw.modProc_shrink r _ (fun x => ⟨rfl, fun hx => hx, fun hx => hx⟩)
  | event k => exact hw

theorem NRInv.wakeWaiters {w : World} (h : NRInv w) (q : Pid) (sig : Int) : NRInv (wakeWaiters w q sig) := by
  unfold Sim.wakeWaiters
  refine NRInv.ofPF ?_ (PF.foldl (fun w k => (PF.refl w).sched_fst _ _ _ _ _) _ (PF.refl _))
  exact h.modProc_shrink q _ (fun x => ⟨rfl, fun hx => hx, fun hx => hx⟩)

/-- after `cancel_awaiteds` the process awaits nothing -/
theorem cancelAwaiteds_awaits (w : World) (q : Pid) : ((cancelAwaiteds w q).proc q).awaits = [] := by
  rw [cancelAwaiteds_eq]
  rw [((PF.refl _).cancelAllFor q |>.ctl q).1]
  have h0 : ((w.modProc q fun x => { x with awaits := [] }).proc q).awaits = [] := by
    rw [modProc_proc]; split
    · rfl
    · rename_i hn
      by_cases hs : q < w.procs.size
      · exact absurd ⟨rfl, hs⟩ hn
      · rw [proc_oob w (Nat.le_of_not_lt hs)]
  generalize (w.modProc q fun x => { x with awaits := [] }) = w1 at h0
  generalize (w.proc q).awaits = l
  induction l generalizing w1 with
  | nil => exact h0
  | cons a l ih =>
    simp only [List.foldl_cons]
    apply ih
    cases a with
    | time k => show (((evCancel w1 k).1).proc q).awaits = []; rw [(evCancel_rel w1 k).proc]; exact h0
    | guard g => show ((guardWithdraw w1 g q).proc q).awaits = []; rw [((PF.refl w1).guardWithdraw g q |>.ctl q).1]; exact h0
    | proc r =>
      show ((w1.modProc r fun x => { x with waiters := (removeFirst x.waiters q).1 }).proc q).awaits = []
      rw [modProc_proc]; split
      · rename_i hq; obtain ⟨rfl, _⟩ := hq; exact h0
      · exact h0
    | event k => exact h0

theorem NRInv.finishProc {w : World} (h : NRInv w) (q : Pid) (v : Int) (s : Bool) : NRInv (finishProc w q v s) := by
  rw [finishProc_eq]
  have hpre : NRInv (finishPre w q s) ∧ ((finishPre w q s).proc q).awaits = [] := by
    unfold finishPre
    split
    · refine ⟨(NRInv.cancelAwaiteds h q).ofPF ((PF.refl _).dropResources q), ?_⟩
      rw [((PF.refl _).dropResources q |>.ctl q).1]; exact cancelAwaiteds_awaits w q
    · exact ⟨NRInv.cancelAwaiteds (h.ofPF ((PF.refl _).dropResources q)) q, cancelAwaiteds_awaits _ q⟩
  obtain ⟨h1, ha⟩ := hpre
  generalize finishPre w q s = w1 at h1 ha
  have h2 : NRInv (w1.modProc q fun x => { x with waiters := [] }) :=
    h1.modProc_shrink q _ (fun x => ⟨rfl, fun hx => hx, fun hx => hx⟩)
  generalize (if s then sigStopped else sigSuccess) = sg
  intro x hx
  rw [modProc_proc] at hx ⊢
  split
  · rename_i hq
    obtain ⟨rfl, _⟩ := hq
    refine ⟨?_, rfl⟩
    show ((pushAll _ _).proc x).awaits = []
    rw [pushAll_proc, modProc_proc]; split
    · exact ha
    · exact ha
  · rename_i hq
    rw [if_neg hq, pushAll_proc] at hx
    rw [pushAll_proc]
    exact h2 x hx

theorem NRInv.guardWaitEnter {w : World} (h : NRInv w) (g : Nat) (q : Pid) (d : Demand) (hr : (w.proc q).status = .running) :
    NRInv (guardWaitEnter w g q d) := by
  unfold Sim.guardWaitEnter
  split
  · exact h.ofPF ((PF.refl w).fail _)
  · split
    · exact (h.ofPF ((PF.refl w).setGuards _)).addAwait q _ hr
    · exact h.ofPF ((PF.refl w).fail _)

theorem NRInv.guardWaitLeave {w : World} (h : NRInv w) (g : Nat) (q : Pid) (sig : Int) : NRInv (guardWaitLeave w g q sig) := by
  unfold Sim.guardWaitLeave
  apply NRInv.removeAwait_fst
  split
  · exact h.ofPF ((PF.refl w).guardWithdraw g q)
  · exact h

/-! ### the traversal: `NRw p w` = `NRInv w` and the executing process `p` is running -/

structure NRw (p : Pid) (w : World) : Prop where
  nr : NRInv w
  run : (w.proc p).status = .running

theorem NRw.ofPF {p : Pid} {w w' : World} (h : NRw p w) (hpf : PF w w') : NRw p w' :=
  ⟨h.nr.ofPF hpf, by rw [(hpf.ctl p).2.2.1]; exact h.run⟩

theorem NRw.modProc {p : Pid} {w : World} (h : NRw p w) (q : Pid) (f : Proc → Proc)
    (hf : ∀ x, (f x).status = x.status ∧ (f x).awaits = x.awaits ∧ ((f x).blocked = x.blocked ∨ (f x).blocked = none)) :
    NRw p (w.modProc q f) := by
  refine ⟨h.nr.modProc_shrink q f (fun x => ⟨(hf x).1, fun hx => by rw [(hf x).2.1]; exact hx, fun hx => ?_⟩), ?_⟩
  · cases (hf x).2.2 with
    | inl e => rw [e]; exact hx
    | inr e => exact e
  · rw [modProc_proc]; split
    · rename_i hq; rw [(hf _).1, ← hq.1]; exact h.run
    · exact h.run

theorem NRw.addAwait {p : Pid} {w : World} (h : NRw p w) (a : Await) : NRw p (addAwait w p a) := by
  refine ⟨h.nr.addAwait p a h.run, ?_⟩
  show ((w.modProc p _).proc p).status = _
  rw [modProc_proc]; split
  · exact h.run
  · exact h.run

theorem NRw.block_fst {p : Pid} {w : World} (h : NRw p w) (f : Frame) : NRw p (block w p f).1 := by
  refine ⟨h.nr.block_fst p f h.run, ?_⟩
  show ((w.modProc p _).proc p).status = _
  rw [modProc_proc]; split
  · exact h.run
  · exact h.run

theorem NRw.removeAwait_fst {p : Pid} {w : World} (h : NRw p w) (q : Pid) (a : Await) : NRw p (removeAwait w q a).1 :=
  ⟨h.nr.removeAwait_fst q a, by rw [((KeepP.refl p w).removeAwait_fst q a).2]; exact h.run⟩

theorem NRw.removeAwaitKind_fst {p : Pid} {w : World} (h : NRw p w) (q : Pid) (k : Await → Bool) :
    NRw p (removeAwaitKind w q k).1 := by
  refine ⟨h.nr.removeAwaitKind_fst q k, ?_⟩
  rw [removeAwaitKind_fst_eq, modProc_proc]; split
  · rename_i hq; rw [← hq.1]; exact h.run
  · exact h.run

theorem NRw.timerAdd_fst {p : Pid} {w : World} (h : NRw p w) (d sig : Int) : NRw p (timerAdd w p d sig).1 :=
  ⟨h.nr.timerAdd_fst p d sig h.run, by rw [((KeepP.refl p w).timerAdd_fst p d sig).2]; exact h.run⟩

/-- a timer armed for ANOTHER running process (`timerAddOf`) -/
theorem NRw.timerAdd_of {p : Pid} {w : World} (h : NRw p w) (q : Pid) (d sig : Int) (hr : (w.proc q).status = .running) :
    NRw p (timerAdd w q d sig).1 :=
  ⟨h.nr.timerAdd_fst q d sig hr, by rw [((KeepP.refl p w).timerAdd_fst q d sig).2]; exact h.run⟩

theorem NRw.timerCancel_fst {p : Pid} {w : World} (h : NRw p w) (q : Pid) (k : Nat) : NRw p (timerCancel w q k).1 :=
  ⟨h.nr.timerCancel_fst q k, by rw [((KeepP.refl p w).timerCancel_fst q k).2]; exact h.run⟩

theorem NRw.timersClear {p : Pid} {w : World} (h : NRw p w) (q : Pid) : NRw p (timersClear w q) :=
  ⟨h.nr.timersClear q, by rw [((KeepP.refl p w).timersClear q).2]; exact h.run⟩

theorem NRw.cancelAwaiteds {p : Pid} {w : World} (h : NRw p w) (q : Pid) : NRw p (cancelAwaiteds w q) :=
  ⟨NRInv.cancelAwaiteds h.nr q, by rw [(KeepP.cancelAwaiteds (KeepP.refl p w) q).2]; exact h.run⟩

theorem NRw.wakeWaiters {p : Pid} {w : World} (h : NRw p w) (q : Pid) (sig : Int) : NRw p (wakeWaiters w q sig) :=
  ⟨NRInv.wakeWaiters h.nr q sig, by rw [(KeepP.wakeWaiters (KeepP.refl p w) q sig).2]; exact h.run⟩

theorem NRw.finishProc_other {p : Pid} {w : World} (h : NRw p w) {q : Pid} (hq : q ≠ p) (v : Int) (s : Bool) :
    NRw p (finishProc w q v s) :=
  ⟨NRInv.finishProc h.nr q v s, by rw [(KeepP.finishProc_other (KeepP.refl p w) hq v s).2]; exact h.run⟩

theorem NRw.guardWaitEnter {p : Pid} {w : World} (h : NRw p w) (g : Nat) (d : Demand) : NRw p (guardWaitEnter w g p d) :=
  ⟨NRInv.guardWaitEnter h.nr g p d h.run, by rw [(KeepP.guardWaitEnter (KeepP.refl p w) g p d).2]; exact h.run⟩

theorem NRw.guardWaitLeave {p : Pid} {w : World} (h : NRw p w) (g : Nat) (q : Pid) (sig : Int) :
    NRw p (guardWaitLeave w g q sig) :=
  ⟨NRInv.guardWaitLeave h.nr g q sig, by rw [(KeepP.guardWaitLeave (KeepP.refl p w) g q sig).2]; exact h.run⟩

theorem NRw.setEvWaiters {p : Pid} {w : World} (h : NRw p w) (x : List (Nat × List Pid)) : NRw p { w with evWaiters := x } :=
  ⟨h.nr, h.run⟩

/-- the result of a command / resumed call: `NRInv`, and unless the process has ended it is still running -/
def NRr (p : Pid) (r : World × Outcome) : Prop := NRInv r.1 ∧ (r.2 ≠ .ended → (r.1.proc p).status = .running)

theorem NRr.ret {p : Pid} {w : World} (h : NRw p w) (v : Int) (e : String) : NRr p (w, .ret v e) := ⟨h.nr, fun _ => h.run⟩
theorem NRr.skip {p : Pid} {w : World} (h : NRw p w) : NRr p (w, .skip) := ⟨h.nr, fun _ => h.run⟩
theorem NRr.blocked {p : Pid} {w : World} (h : NRw p w) : NRr p (w, .blocked) := ⟨h.nr, fun _ => h.run⟩
theorem NRr.block {p : Pid} {w : World} (h : NRw p w) (f : Frame) : NRr p (block w p f) :=
  ⟨(h.block_fst f).nr, fun _ => (h.block_fst f).run⟩
theorem NRr.ended {p : Pid} {w : World} (h : NRw p w) (q : Pid) (v : Int) (s : Bool) : NRr p (finishProc w q v s, .ended) :=
  ⟨NRInv.finishProc h.nr q v s, fun hne => absurd rfl hne⟩

syntax "nr_step" : tactic
macro_rules | `(tactic| nr_step) => `(tactic| dsimp only)
macro_rules | `(tactic| nr_step) => `(tactic| (apply NRw.ofPF; rotate_left; pf_fun; with_reducible exact PF.refl _))
macro_rules | `(tactic| nr_step) => `(tactic| split)
macro_rules | `(tactic| nr_step) => `(tactic| (guard_world_lit; with_reducible apply NRw.setEvWaiters))
macro_rules | `(tactic| nr_step) => `(tactic| (with_reducible refine NRw.finishProc_other ?_ (by assumption) _ _))
macro_rules | `(tactic| nr_step) => `(tactic| with_reducible apply NRw.guardWaitLeave)
macro_rules | `(tactic| nr_step) => `(tactic| with_reducible apply NRw.guardWaitEnter)
macro_rules | `(tactic| nr_step) => `(tactic| with_reducible apply NRw.cancelAwaiteds)
macro_rules | `(tactic| nr_step) => `(tactic| with_reducible apply NRw.wakeWaiters)
macro_rules | `(tactic| nr_step) => `(tactic| with_reducible apply NRw.timersClear)
macro_rules | `(tactic| nr_step) => `(tactic| with_reducible apply NRw.timerCancel_fst)
macro_rules | `(tactic| nr_step) => `(tactic| with_reducible apply NRw.timerAdd_fst)
macro_rules | `(tactic| nr_step) => `(tactic| with_reducible apply NRw.removeAwaitKind_fst)
macro_rules | `(tactic| nr_step) => `(tactic| with_reducible apply NRw.removeAwait_fst)
macro_rules | `(tactic| nr_step) => `(tactic| with_reducible apply NRw.addAwait)
macro_rules | `(tactic| nr_step) => `(tactic| with_reducible apply NRw.block_fst)
macro_rules | `(tactic| nr_step) => `(tactic| (with_reducible refine NRw.modProc ?_ _ _ (fun _ => ⟨rfl, rfl, Or.inr rfl⟩)))
macro_rules | `(tactic| nr_step) => `(tactic| (with_reducible refine NRw.modProc ?_ _ _ (fun _ => ⟨rfl, rfl, Or.inl rfl⟩)))
macro_rules | `(tactic| nr_step) => `(tactic| with_reducible apply NRr.ended)
macro_rules | `(tactic| nr_step) => `(tactic| with_reducible apply NRr.block)
macro_rules | `(tactic| nr_step) => `(tactic| with_reducible apply NRr.blocked)
macro_rules | `(tactic| nr_step) => `(tactic| with_reducible apply NRr.skip)
macro_rules | `(tactic| nr_step) => `(tactic| with_reducible apply NRr.ret)
macro_rules | `(tactic| nr_step) => `(tactic| with_reducible assumption)
macro "nrt" : tactic => `(tactic| repeat' nr_step)

section
variable {p : Pid} {w : World}

theorem NRr.acquireStep (h : NRw p w) (r : Nat) : NRr p (acquireStep w p r) := by
  simp only [Sim.acquireStep]; nrt
macro_rules | `(tactic| nr_step) => `(tactic| with_reducible apply NRr.acquireStep)
theorem NRr.poolLoop (h : NRw p w) (pl rem ini : Nat) (pre : Bool) : NRr p (poolLoop w p pl rem ini pre) := by
  simp only [Sim.poolLoop]; nrt
macro_rules | `(tactic| nr_step) => `(tactic| with_reducible apply NRr.poolLoop)
theorem NRr.bufGetLoop (h : NRw p w) (b rem got : Nat) : NRr p (bufGetLoop w p b rem got) := by
  simp only [Sim.bufGetLoop]; nrt
macro_rules | `(tactic| nr_step) => `(tactic| with_reducible apply NRr.bufGetLoop)
theorem NRr.bufPutLoop (h : NRw p w) (b rem left : Nat) : NRr p (bufPutLoop w p b rem left) := by
  simp only [Sim.bufPutLoop]; nrt
macro_rules | `(tactic| nr_step) => `(tactic| with_reducible apply NRr.bufPutLoop)
theorem NRr.oqGetLoop (h : NRw p w) (k : Nat) : NRr p (oqGetLoop w p k) := by
  simp only [Sim.oqGetLoop]; nrt
macro_rules | `(tactic| nr_step) => `(tactic| with_reducible apply NRr.oqGetLoop)
theorem NRr.oqPutLoop (h : NRw p w) (k obj : Nat) : NRr p (oqPutLoop w p k obj) := by
  simp only [Sim.oqPutLoop]; nrt
macro_rules | `(tactic| nr_step) => `(tactic| with_reducible apply NRr.oqPutLoop)
theorem NRr.pqGetLoop (h : NRw p w) (k : Nat) : NRr p (pqGetLoop w p k) := by
  simp only [Sim.pqGetLoop]; nrt
macro_rules | `(tactic| nr_step) => `(tactic| with_reducible apply NRr.pqGetLoop)
theorem NRr.pqPutLoop (h : NRw p w) (k obj : Nat) (pri : Int) (v : Nat) : NRr p (pqPutLoop w p k obj pri v) := by
  simp only [Sim.pqPutLoop]; nrt
macro_rules | `(tactic| nr_step) => `(tactic| with_reducible apply NRr.pqPutLoop)

theorem NRr.execCmd (h : NRw p w) (c : Cmd) : NRr p (execCmd w p c) := by
  cases c with
  | prioSet q v =>
    by_cases hq : q < w.procs.size
    · rw [prioSet_eq w p q v hq]
      dsimp only
      apply NRr.ret
      refine NRw.ofPF ?_ (PF.foldl (fun w x => (PF.refl w).prioHeldStep q v x) _ (PF.refl _))
      refine NRw.ofPF ?_ (PF.foldl (fun w x => (PF.refl w).prioAwaitStep q v x) _ (PF.refl _))
      exact h.modProc q _ (fun _ => ⟨rfl, rfl, Or.inl rfl⟩)
    · have : q ≥ w.procs.size := Nat.le_of_not_lt hq
      simp only [Sim.execCmd, this, if_true]
      exact NRr.skip h
  | stop q v =>
    simp only [Sim.execCmd]
    by_cases hqp : q = p
    · simp only [hqp, if_true]; exact NRr.ended h _ _ _
    · simp only [hqp, if_false]
      split
      · exact NRr.ret (h.finishProc_other hqp v true) _ _
      · exact NRr.ret h _ _
  | timerAddOf q d sig =>
    simp only [Sim.execCmd]
    split
    · exact NRr.skip h
    · rename_i hq
      exact NRr.ret (h.timerAdd_of q d sig (by simpa [isRunning] using hq)) _ _
  | _ => simp only [Sim.execCmd] <;> nrt

theorem NRr.resumeFrame (h : NRw p w) (f : Frame) (sig : Int) : NRr p (resumeFrame w p f sig) := by
  cases f <;> simp only [Sim.resumeFrame] <;> nrt

end

theorem NRw.pc {p : Pid} {w : World} (h : NRw p w) (n : Nat) : NRw p (w.modProc p fun y => { y with pc := n }) :=
  h.modProc p _ (fun _ => ⟨rfl, rfl, Or.inl rfl⟩)

theorem NRInv.runScript {p : Pid} : ∀ (fuel : Nat) {w : World}, NRw p w → NRInv (runScript fuel w p) := by
  intro fuel
  induction fuel with
  | zero => intro w h; exact h.nr.ofPF ((PF.refl w).fail _)
  | succ fuel ih =>
    intro w h
    simp only [Sim.runScript]
    split
    · exact NRInv.finishProc (h.nr.ofPF ((PF.refl w).emit _)) p 0 false
    · rename_i c text hs
      have hx : NRr p (execCmd (w.emit s!"c {p} {(w.proc p).pc} {w.now} {text}") p c) :=
        NRr.execCmd (h.ofPF ((PF.refl w).emit _)) c
      split
      · rename_i w1 v extra heq
        rw [heq] at hx
        apply ih
        have h1 : NRw p w1 := ⟨hx.1, hx.2 (by intro hc; cases hc)⟩
        exact (h1.ofPF ((PF.refl w1).emit _)).pc _
      · rename_i w1 heq
        rw [heq] at hx
        apply ih
        have h1 : NRw p w1 := ⟨hx.1, hx.2 (by intro hc; cases hc)⟩
        exact (h1.ofPF ((PF.refl w1).emit _)).pc _
      · rename_i w1 heq
        rw [heq] at hx
        exact hx.1
      · rename_i w1 heq
        rw [heq] at hx
        split <;> exact hx.1.ofPF ((PF.refl w1).emit _)

theorem NRInv.resumeProc {w : World} (h : NRInv w) (p : Pid) (sig : Int) : NRInv (resumeProc w p sig) := by
  simp only [Sim.resumeProc]
  split
  · exact h.ofPF ((PF.refl w).fail _)
  · rename_i hr
    have hrun : (w.proc p).status = .running := Classical.not_not.1 hr
    split
    · exact h.ofPF ((PF.refl w).fail _)
    · rename_i f hb
      have h0 : NRw p (w.modProc p fun y => { y with blocked := none }) :=
        (NRw.mk h hrun).modProc p _ (fun _ => ⟨rfl, rfl, Or.inr rfl⟩)
      have hx := NRr.resumeFrame h0 f sig
      split
      · rename_i w1 v extra heq
        rw [heq] at hx
        apply NRInv.runScript
        have h1 : NRw p w1 := ⟨hx.1, hx.2 (by intro hc; cases hc)⟩
        exact (h1.ofPF ((PF.refl w1).emit _)).pc _
      · rename_i w1 heq; rw [heq] at hx; exact hx.1
      · rename_i w1 heq; rw [heq] at hx; exact hx.1
      · rename_i w1 heq; rw [heq] at hx; exact hx.1

/-- starting a process that does not exist: the trampoline finds an empty program and ends at once -/
theorem NRInv.runScript_oob {w : World} (h : NRInv w) {p : Pid} (hp : w.procs.size ≤ p) (fuel : Nat) :
    NRInv (Sim.runScript (fuel + 1) w p) := by
  have hpr : w.proc p = {} := proc_oob w hp
  simp only [Sim.runScript]
  have : (w.proc p).script[(w.proc p).pc]? = none := by rw [hpr]; rfl
  rw [this]
  exact NRInv.finishProc (h.ofPF ((PF.refl w).emit _)) p 0 false

theorem NRInv.dispatchBody {w : World} (h : NRInv w) (t : HTag) : NRInv (dispatchBody w t) := by
  simp only [S3.dispatchBody]
  have hres : ∀ {w : World}, NRInv w → ∀ p sig, NRInv (if isRunning w p = true then Sim.resumeProc w p sig else w) := by
    intro w h p sig; split
    · exact h.resumeProc p sig
    · exact h
  split
  · split
    · exact h.ofPF ((PF.refl w).fail _)
    · rename_i hs
      have hnr : NRInv (w.modProc (t.item.b - 1) fun y => { y with status := .running, pc := 0, blocked := none }) := by
        intro x hx
        rw [modProc_proc] at hx ⊢
        split
        · rename_i hq; rw [if_pos hq] at hx; exact absurd rfl hx
        · rename_i hq; rw [if_neg hq] at hx; exact h x hx
      by_cases hlt : t.item.b - 1 < w.procs.size
      · apply NRInv.runScript
        refine ⟨hnr, ?_⟩
        rw [modProc_proc, if_pos ⟨rfl, hlt⟩]
      · exact hnr.runScript_oob (by simp only [modProc_procs_size]; exact Nat.le_of_not_lt hlt) _
  · split
    · exact (h.removeAwait_fst _ _).resumeProc _ _
    · split
      · exact hres (h.removeAwaitKind_fst _ _) _ _
      · split
        · exact hres (h.removeAwaitKind_fst _ _) _ _
        · split
          · exact hres h _ _
          · split
            · exact hres (h.removeAwaitKind_fst _ _) _ _
            · split
              · exact (NRInv.cancelAwaiteds h _).resumeProc _ _
              · split
                · exact h.resumeProc _ _
                · exact h

theorem takeNext_proc (w : World) (t : HTag) (ev' : EvQ) (x : Pid) : (takeNext w t ev').proc x = w.proc x := by
  unfold takeNext; rw [wakeEventWaiters_eq]; rfl

/-- `NRInv` is preserved by `dispatch`, for all programs -/
theorem NRInv.dispatch {w w' : World} (h : NRInv w) (hd : dispatch w = some w') : NRInv w' := by
  rw [dispatch_eq] at hd
  split at hd
  · cases hd
  · rename_i t ev' hn
    simp only [Option.some.injEq] at hd
    subst hd
    apply NRInv.dispatchBody
    intro x hx
    rw [takeNext_proc] at hx ⊢
    exact h x hx

theorem NRInv.reach {w w' : World} (h : Reach w w') (hp : NRInv w) : NRInv w' := by
  induction h with
  | refl => exact hp
  | step _ hd ih => exact ih.dispatch hd

theorem NRInv.runAll (fuel : Nat) (w : World) (hp : NRInv w) : NRInv (runAll fuel w) :=
  runAll_inv (I := NRInv) (fun w l h => h.ofPF ((PF.refl w).emit l)) (fun _ _ h _ hd => h.dispatch hd) fuel w hp

end CimbaModel.Sim.S3
