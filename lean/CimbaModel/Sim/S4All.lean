/-
  S4 — assembly: the carried family (timers, pool holder records, priority queues), its facts, and the initial state:
  every world the scenario loader can build (`Loaded`), with a valid program (`ProgOk`) and fewer than 2³¹ processes,
  satisfies `Good`, hence no state of its run has a fault as long as every priority queue stays below the growth limit.
-/
import CimbaModel.Sim.S4Dispatch
import CimbaModel.Sim.S4TimerAll
import CimbaModel.Sim.S4LinkRun
import CimbaModel.Sim.S4Init
import CimbaModel.Props.C05
import CimbaModel.Props.C09

namespace CimbaModel.Sim.S4
open CimbaModel CimbaModel.Sim CimbaModel.Sim.S3 CimbaModel.Event CimbaModel.Generated CimbaModel.KPQ
open CimbaModel.HashHeap (HTag Item Order HH WF abs liveTags KeysBelowCounter)

theorem TTH.carry : Carry TTH where
  fail := fun m h => h.fail m
  emit := fun l h => h.emit l
  adv := fun p n h => h.adv p n
  exec := fun c h hp h1 h2 h3 => h.execCmd hp c h1 h2 h3
  resume := fun sig h hb hp => h.resume hb hp sig
  finish := fun p v s h => h.finishProc p v s
  start := fun p h => h.startProc p
  prep := fun h hn => h.prep hn

theorem PL.carry : Carry PL := by
  refine ⟨?_, ?_, ?_, ?_, ?_, ?_, ?_, ?_⟩
  · intro w m h; exact h.frame (by simp) (by simp)
  · intro w l h; exact h.emit l
  · intro w p n h; exact h.modProc_keep p (fun y => { y with pc := n }) (fun _ => rfl)
  · intro w p c h hp _ _ _; exact h.execCmd p hp c
  · intro w0 p f sig h _ hp
    exact (h.modProc_keep p (fun y => { y with blocked := none }) (fun _ => rfl)).resumeFrame p (by simpa using hp) f sig
  · intro w p v s h; exact h.finishProc p v s
  · intro w p h; exact h.modProc_keep p (fun y => { y with status := .running, pc := 0, blocked := none }) (fun _ => rfl)
  · intro w t ev' h _
    have hT : PL (S3.takeNext w t ev') := by
      unfold S3.takeNext
      apply PL.wakeEventWaiters
      exact h.frame rfl rfl
    unfold S4.prep
    repeat' split
    · exact hT.removeAwait_fst _ _
    · exact hT.removeAwaitKind_fst _ _
    · exact hT.removeAwaitKind_fst _ _
    · exact hT.removeAwaitKind_fst _ _
    · exact hT.cancelAwaiteds _
    · exact hT

/-- the carried family: timers and variables, pool holder records, priority queues -/
def XAll (w : World) : Prop := TTH w ∧ PL w ∧ PQS w

theorem XAll.carry : Carry XAll := TTH.carry.and (PL.carry.and PQS.carry)

theorem XAll.facts : Facts XAll where
  prio := fun h q => ⟨fun k hk => h.1.timers_scheduled q k hk, fun pl x hm hx => h.2.1.prio_key hm hx⟩
  pq := fun h => h.2.2

/-! ### the initial state -/

theorem mkHH_pq : WF compare_func (mkHH 3) ∧ abs (mkHH 3) = [] ∧ (mkHH 3).counter = 0 := by
  obtain ⟨s, hs, hwf, habs, _⟩ := HashHeap.init_spec (lt := compare_func) 3 (by decide) (by decide)
  have : mkHH 3 = s := by unfold mkHH; rw [hs]
  refine ⟨by rw [this]; exact hwf, by rw [this]; exact habs, ?_⟩
  unfold mkHH HashHeap.init; rfl

theorem plain_lt {w : World} {g : Nat} (h : Plain w g) : g < w.guards.size := by
  obtain ⟨gd, hg, _⟩ := h; exact lt_of_getElem? hg

theorem Loaded.static {w : World} (h : Loaded w) (hsz : w.procs.size < 2 ^ 31) : StaticOk w := by
  have hl := h.linv
  refine ⟨hsz, ?_, ⟨?_, ?_, ?_, ?_, ?_, ?_⟩⟩
  · intro g gd hg o ho od hod
    obtain ⟨gd', hgd', hc⟩ := (hl.obs g gd hg).2 o ho
    rw [hod] at hgd'; cases hgd'
    exact (hl.obs o od hod).1 hc
  · exact fun r x hx => plain_lt (hl.og.1 r x hx)
  · exact fun r x hx => plain_lt (hl.og.2.1 r x hx)
  · exact fun r x hx => ⟨plain_lt (hl.og.2.2.1 r x hx).1, plain_lt (hl.og.2.2.1 r x hx).2⟩
  · exact fun r x hx => ⟨plain_lt (hl.og.2.2.2.1 r x hx).1, plain_lt (hl.og.2.2.2.1 r x hx).2⟩
  · exact fun r x hx => ⟨plain_lt (hl.og.2.2.2.2 r x hx).1, plain_lt (hl.og.2.2.2.2 r x hx).2⟩
  · intro c g hc
    obtain ⟨gd, hg, _⟩ := hl.cg c g hc; exact lt_of_getElem? hg

theorem Loaded.pqs {w : World} (h : Loaded w) : PQS w := by
  intro k x hx _
  obtain ⟨hq, hp⟩ := h.linv.kq k x hx
  obtain ⟨hwf, habs, hc⟩ := mkHH_pq
  refine ⟨by rw [hq]; exact hwf, ?_, by rw [hq, hp, hc]; rfl⟩
  intro j hj
  rw [hq, habs] at hj; cases hj

theorem Loaded.fullInv {w : World} (h : Loaded w) (hsz : w.procs.size < 2 ^ 31) : Sim.FullInv w := by
  have hl := h.linv
  have hb := h.built.binv
  have hstart : ∀ e ∈ w.ev.pending, e.item.a = aStart := fun e he => (hb.pend e he).1
  refine ⟨⟨?_, ?_, ?_, ?_⟩, ?_, ?_⟩
  · refine (CimbaModel.Props.C05.holderInv_iff w).1 (CimbaModel.Props.C05.holderInv_init w hl.rq ?_)
    intro p r hm
    rw [(hl.pr p).1] at hm; cases hm
  · refine CimbaModel.Props.C09.waitersInv_init w (fun p => (hb.pr p).2.1) ?_ ?_
    · intro q p hm
      rw [(hb.pr q).1] at hm; cases hm
    · intro e he ha
      rw [hstart e he] at ha; exact absurd ha (by decide)
  · exact CimbaModel.Props.C09.deadRec_init w (fun p _ => ⟨(hb.pr p).1, (hb.pr p).2.2, (hl.pr p).1, (hb.pr p).2.1⟩)
  · intro e he hs
    rw [hstart e he] at hs; exact absurd hs (by decide)
  · refine CimbaModel.Props.C09.poolHolderInv_init w (Nat.lt_trans hsz (by decide)) ?_
    intro pl x hx
    exact ⟨3, by decide, by decide, hl.hq pl x hx⟩
  · intro e he ha
    rw [hstart e he] at ha; exact absurd ha (by decide)

/-- every loaded world with a valid program satisfies everything that holds between two dispatches, and has no fault -/
theorem Loaded.progOk {w : World} (h : Loaded w) : ProgOk w := fun p i c t hc => h.linv.ok p i c t hc

theorem Loaded.good {w : World} (h : Loaded w) (hsz : w.procs.size < 2 ^ 31) :
    Good XAll w ∧ w.fault = none := by
  have hprog := h.progOk
  have hl := h.linv
  have hb := h.built.binv
  have hstart : ∀ e ∈ w.ev.pending, e.item.a = aStart := fun e he => (hb.pend e he).1
  have hnr : ∀ q, (w.proc q).status ≠ .running := fun q => by rw [(hl.pr q).2.1]; decide
  refine ⟨⟨h.built.allInv hsz, h.fullInv hsz, ?_, RunBlocked.init hnr, h.static hsz, hprog, ?_, ?_, h.pqs⟩, hl.nf⟩
  · exact StartOk.init hnr (fun e he _ => (hl.pend e he).1) (fun e1 h1 e2 h2 _ _ hb' => hl.uq e1 h1 e2 h2 hb')
  · exact TTH.init w hb.ei (fun p => (hb.pr p).1) hstart (fun p i => (hl.pr p).2.2 i) hl.gv (fun p => (hb.pr p).2.2)
  · exact PL.init w hsz hl.hq (fun p => (hl.pr p).1)

/-! ### the theorem -/

/-- **no state of the run of a loaded world with a valid program has a fault**, as long as fewer than 2³¹ − 1 handles have
    been issued by each priority queue -/
theorem loaded_never_faults {w0 w : World} (h : Loaded w0) (hsz : w0.procs.size < 2 ^ 31)
    (hr : Reach w0 w) (hroom : PqRoom w) : w.fault = none := by
  obtain ⟨hG, hnf⟩ := h.good hsz
  exact (nf_reach XAll.carry XAll.facts hG hnf hr).2.2 hroom

theorem loaded_runAll_never_faults {w0 : World} (h : Loaded w0) (hsz : w0.procs.size < 2 ^ 31)
    (fuel : Nat) (hroom : PqRoom (runAll fuel w0)) : (runAll fuel w0).fault = none := by
  obtain ⟨hG, hnf⟩ := h.good hsz
  exact nf_runAll XAll.carry XAll.facts fuel w0 hG hnf hroom

/-- without priority queues the bound is vacuous -/
theorem pqRoom_of_no_pq {w0 w : World} (h0 : w0.pqs = #[]) (hr : Reach w0 w) : PqRoom w := by
  have hsz : ∀ {a b : World}, Reach a b → b.pqs.size = a.pqs.size := by
    intro a b hab
    induction hab with
    | refl => rfl
    | step _ hd ih =>
      have hst := (Stat.dispatch hd).pqs
      rw [← ih]
      rename_i w1 w2 _
      have h1 : ∀ i, i < w2.pqs.size ↔ i < w1.pqs.size := by
        intro i
        have := hst i
        constructor
        · intro hi
          rw [Array.getElem?_eq_getElem hi] at this
          by_cases h : i < w1.pqs.size
          · exact h
          · rw [Array.getElem?_eq_none (Nat.le_of_not_lt h)] at this; cases this
        · intro hi
          rw [Array.getElem?_eq_getElem hi] at this
          by_cases h : i < w2.pqs.size
          · exact h
          · rw [Array.getElem?_eq_none (Nat.le_of_not_lt h)] at this; cases this
      rcases Nat.lt_trichotomy w2.pqs.size w1.pqs.size with h | h | h
      · exact absurd ((h1 _).2 h) (Nat.lt_irrefl _)
      · exact h
      · exact absurd ((h1 _).1 h) (Nat.lt_irrefl _)
  intro k x hx
  have := lt_of_getElem? hx
  rw [hsz hr, h0] at this
  cases this

end CimbaModel.Sim.S4
