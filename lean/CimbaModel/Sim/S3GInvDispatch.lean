/-
  S3 — `GInv`, part 10: the run loop of a process, resumption, and `dispatch`.
-/
import CimbaModel.Sim.S3GInvCmd
import CimbaModel.Sim.S3NR

namespace CimbaModel.Sim.S3
open CimbaModel CimbaModel.Sim CimbaModel.Event CimbaModel.Generated CimbaModel.KPQ
open CimbaModel.HashHeap (HTag Item Order HH WF abs liveTags)

/-- the stable form of `GInv` between dispatches: nobody exempt, logical frame = recorded frame -/
def GInvB (w : World) : Prop := GInv noEx (blockedOf w) w

theorem GInv.toB {fr : Pid → Option Frame} {w : World} (h : GInv noEx fr w) : GInvB w := h.toBlocked noEx_not

/-- the static side conditions: conditions have guards of their own; timer / resume / interrupt signals are not SUCCESS -/
structure SideOk (w : World) : Prop where
  sep : CondSep w
  ok : ScriptsOk w

theorem SideOk.ofStat {w w' : World} (h : SideOk w) (hs : Stat w w') : SideOk w' := ⟨h.sep.ofStat hs, h.ok.ofStat hs⟩

theorem GInvB.advance {w : World} (h : GInvB w) (p : Pid) (l : String) (pc' : Nat) :
    GInvB ((w.emit l).modProc p fun y => { y with pc := pc' }) :=
  (GInv.modProc_ctl (GInv.emit h l) p (fun y => { y with pc := pc' }) (fun _ => ⟨rfl, rfl⟩)).toB

theorem GInvB.runScript : ∀ (fuel : Nat) {w : World} {p : Pid}, GInvB w → SideOk w → (w.proc p).blocked = none →
    GInvB (runScript fuel w p) := by
  intro fuel
  induction fuel with
  | zero => intro w p h _ _; exact (GInv.fail h _).toB
  | succ fuel ih =>
    intro w p h hside hb
    simp only [Sim.runScript]
    split
    · exact (GInv.finishProc (GInv.emit h _) p 0 false (noEx_not p)).toB
    · rename_i c text hs
      have hlt : p < w.procs.size := by
        rcases Nat.lt_or_ge p w.procs.size with h' | h'
        · exact h'
        · rw [script_none_of_oob h'] at hs; cases hs
      have hok : CmdOk c := hside.ok p _ c text hs
      have h1 : GInv noEx (blockedOf w) (w.emit s!"c {p} {(w.proc p).pc} {w.now} {text}") := GInv.emit h _
      obtain ⟨fr', hx⟩ := h1.execCmd_ex (p := p) hb hlt hside.sep c hok
      have hk := ContKeep.execCmd (w.emit s!"c {p} {(w.proc p).pc} {w.now} {text}") p c
      have hst : Stat w (execCmd (w.emit s!"c {p} {(w.proc p).pc} {w.now} {text}") p c).1 := by
        have h0 := Stat.refl w; stat
      rcases hres : execCmd (w.emit s!"c {p} {(w.proc p).pc} {w.now} {text}") p c with ⟨w1, out⟩
      rw [hres] at hx hk hst
      have hx' : GInvB w1 := hx.toB
      cases out with
      | ret v extra =>
        have hkp : KeepP p (w.emit s!"c {p} {(w.proc p).pc} {w.now} {text}") w1 := hk rfl
        dsimp only
        obtain ⟨a1, a2, a3⟩ := advance_proc w1 p
          (s!"r {p} {(w.proc p).pc} {w1.now} {v}" ++ (if extra = "" then "" else " " ++ extra)) ((w.proc p).pc + 1)
        refine ih (hx'.advance p _ _) (hside.ofStat ?_) (a1.trans (hkp.1.trans hb))
        stat
      | skip =>
        have hkp : KeepP p (w.emit s!"c {p} {(w.proc p).pc} {w.now} {text}") w1 := hk rfl
        dsimp only
        obtain ⟨a1, a2, a3⟩ := advance_proc w1 p s!"s {p} {(w.proc p).pc} {w1.now}" ((w.proc p).pc + 1)
        refine ih (hx'.advance p _ _) (hside.ofStat ?_) (a1.trans (hkp.1.trans hb))
        stat
      | blocked => exact hx'
      | ended =>
        dsimp only
        split <;> exact (GInv.emit hx' _).toB

/-- resuming a suspended process; a SUCCESS resumption must be legitimate (`Quiet`) -/
theorem GInvB.resumeProc {w : World} (h : GInvB w) (hside : SideOk w) (p : Pid) (sig : Int)
    (hq : sig = sigSuccess → Quiet w p) : GInvB (resumeProc w p sig) := by
  simp only [Sim.resumeProc]
  split
  · exact (GInv.fail h _).toB
  · split
    · exact (GInv.fail h _).toB
    · rename_i f hbf
      have hfr : blockedOf w p = some f := hbf
      have hlt : p < w.procs.size := by
        rcases Nat.lt_or_ge p w.procs.size with h' | h'
        · exact h'
        · have : (w.proc p).blocked = none := by rw [proc_oob w h']
          rw [this] at hbf; cases hbf
      obtain ⟨fr', hx⟩ := GInv.resume_ex h hfr hlt hside.sep sig hq
      have hk := ContKeep.resumeFrame (w.modProc p fun y => { y with blocked := none }) p f sig
      have hst : Stat w (resumeFrame (w.modProc p fun y => { y with blocked := none }) p f sig).1 := by
        have h0 := Stat.refl w; stat
      rcases hres : resumeFrame (w.modProc p fun y => { y with blocked := none }) p f sig with ⟨w1, out⟩
      rw [hres] at hx hk hst
      have hx' : GInvB w1 := hx.toB
      cases out with
      | ret v extra =>
        have hkp : KeepP p (w.modProc p fun y => { y with blocked := none }) w1 := hk rfl
        dsimp only
        obtain ⟨a1, a2, a3⟩ := advance_proc w1 p
          (s!"r {p} {(w.proc p).pc} {w1.now} {v}" ++ (if extra = "" then "" else " " ++ extra)) ((w.proc p).pc + 1)
        refine GInvB.runScript _ (hx'.advance p _ _) (hside.ofStat ?_) (a1.trans (hkp.1.trans ?_))
        · stat
        · rw [modProc_proc_self w _ hlt]
      | skip => exact hx'
      | blocked => exact hx'
      | ended => exact hx'

end CimbaModel.Sim.S3
