/-
  S3 — `GInv`, part 10: the run loop of a process, resumption, and `dispatch`.
-/
import CimbaModel.Sim.S3GInvCmd
import CimbaModel.Sim.S3NR
import CimbaModel.Sim.S3PInvCor

namespace CimbaModel.Sim.S3
open CimbaModel CimbaModel.Sim CimbaModel.Event CimbaModel.Generated CimbaModel.KPQ
open CimbaModel.HashHeap (HTag Item Order HH WF abs liveTags)

/-- the stable form of `GInv` between dispatches: nobody exempt, logical frame = recorded frame -/
def GInvB (w : World) : Prop := GInv noEx (blockedOf w) w

theorem GInv.toB {fr : Pid → Option Frame} {w : World} (h : GInv noEx fr w) : GInvB w := h.toBlocked noEx_not

/-- the static side conditions: conditions have guards of their own; timer / resume / interrupt signals are not SUCCESS -/
structure SideOk (w : World) : Prop where
  sep : CondSep w
  ok : ScriptsOk w

theorem SideOk.ofStat {w w' : World} (h : SideOk w) (hs : Stat w w') : SideOk w' := ⟨h.sep.ofStat hs, h.ok.ofStat hs⟩

theorem GInvB.advance {w : World} (h : GInvB w) (p : Pid) (l : String) (pc' : Nat) :
    GInvB ((w.emit l).modProc p fun y => { y with pc := pc' }) :=
  (GInv.modProc_ctl (GInv.emit h l) p (fun y => { y with pc := pc' }) (fun _ => ⟨rfl, rfl⟩)).toB

theorem GInvB.runScript : ∀ (fuel : Nat) {w : World} {p : Pid}, GInvB w → SideOk w → (w.proc p).blocked = none →
    GInvB (runScript fuel w p) := by
  intro fuel
  induction fuel with
  | zero => intro w p h _ _; exact (GInv.fail h _).toB
  | succ fuel ih =>
    intro w p h hside hb
    simp only [Sim.runScript]
    split
    · exact (GInv.finishProc (GInv.emit h _) p 0 false (noEx_not p)).toB
    · rename_i c text hs
      have hlt : p < w.procs.size := by
        rcases Nat.lt_or_ge p w.procs.size with h' | h'
        · exact h'
        · rw [script_none_of_oob h'] at hs; cases hs
      have hok : CmdOk c := hside.ok p _ c text hs
      have h1 : GInv noEx (blockedOf w) (w.emit s!"c {p} {(w.proc p).pc} {w.now} {text}") := GInv.emit h _
      obtain ⟨fr', hx⟩ := h1.execCmd_ex (p := p) hb hlt hside.sep c hok
      have hk := ContKeep.execCmd (w.emit s!"c {p} {(w.proc p).pc} {w.now} {text}") p c
      have hst : Stat w (execCmd (w.emit s!"c {p} {(w.proc p).pc} {w.now} {text}") p c).1 := by
        have h0 := Stat.refl w; stat
      rcases hres : execCmd (w.emit s!"c {p} {(w.proc p).pc} {w.now} {text}") p c with ⟨w1, out⟩
      rw [hres] at hx hk hst
      have hx' : GInvB w1 := hx.toB
      cases out with
      | ret v extra =>
        have hkp : KeepP p (w.emit s!"c {p} {(w.proc p).pc} {w.now} {text}") w1 := hk rfl
        dsimp only
        obtain ⟨a1, a2, a3⟩ := advance_proc w1 p
          (s!"r {p} {(w.proc p).pc} {w1.now} {v}" ++ (if extra = "" then "" else " " ++ extra)) ((w.proc p).pc + 1)
        refine ih (hx'.advance p _ _) (hside.ofStat ?_) (a1.trans (hkp.1.trans hb))
        stat
      | skip =>
        have hkp : KeepP p (w.emit s!"c {p} {(w.proc p).pc} {w.now} {text}") w1 := hk rfl
        dsimp only
        obtain ⟨a1, a2, a3⟩ := advance_proc w1 p s!"s {p} {(w.proc p).pc} {w1.now}" ((w.proc p).pc + 1)
        refine ih (hx'.advance p _ _) (hside.ofStat ?_) (a1.trans (hkp.1.trans hb))
        stat
      | blocked => exact hx'
      | ended =>
        dsimp only
        split <;> exact (GInv.emit hx' _).toB

/-- resuming a suspended process; a SUCCESS resumption must be legitimate (`Quiet`) -/
theorem GInvB.resumeProc {w : World} (h : GInvB w) (hside : SideOk w) (p : Pid) (sig : Int)
    (hq : ∀ f, (w.proc p).blocked = some f → sig = sigSuccess → Quiet w p) : GInvB (resumeProc w p sig) := by
  simp only [Sim.resumeProc]
  split
  · exact (GInv.fail h _).toB
  · split
    · exact (GInv.fail h _).toB
    · rename_i f hbf
      have hfr : blockedOf w p = some f := hbf
      have hlt : p < w.procs.size := by
        rcases Nat.lt_or_ge p w.procs.size with h' | h'
        · exact h'
        · have : (w.proc p).blocked = none := by rw [proc_oob w h']
          rw [this] at hbf; cases hbf
      obtain ⟨fr', hx⟩ := GInv.resume_ex h hfr hlt hside.sep sig (hq f hbf)
      have hk := ContKeep.resumeFrame (w.modProc p fun y => { y with blocked := none }) p f sig
      have hst : Stat w (resumeFrame (w.modProc p fun y => { y with blocked := none }) p f sig).1 := by
        have h0 := Stat.refl w; stat
      rcases hres : resumeFrame (w.modProc p fun y => { y with blocked := none }) p f sig with ⟨w1, out⟩
      rw [hres] at hx hk hst
      have hx' : GInvB w1 := hx.toB
      cases out with
      | ret v extra =>
        have hkp : KeepP p (w.modProc p fun y => { y with blocked := none }) w1 := hk rfl
        dsimp only
        obtain ⟨a1, a2, a3⟩ := advance_proc w1 p
          (s!"r {p} {(w.proc p).pc} {w1.now} {v}" ++ (if extra = "" then "" else " " ++ extra)) ((w.proc p).pc + 1)
        refine GInvB.runScript _ (hx'.advance p _ _) (hside.ofStat ?_) (a1.trans (hkp.1.trans ?_))
        · stat
        · rw [modProc_proc_self w _ hlt]
      | skip => exact hx'
      | blocked => exact hx'
      | ended => exact hx'

/-! ### taking the next event -/

theorem GInv.wakeEventWaiters {ex : Pid → Prop} {fr : Pid → Option Frame} {w : World} (hp : GInv ex fr w) (ps : List Pid) :
    GInv ex fr (Sim.wakeEventWaiters w ps sigSuccess) := by
  unfold Sim.wakeEventWaiters
  refine GInv.foldl (fun w q h => ?_) _ hp
  exact h.sched_harmless aEvent (q + 1) sigSuccess w.now (w.proc q).prio (by decide)

/-- what is left of `w` right after the event `t` has been taken (and possibly some awaitables removed) -/
structure Took (w : World) (t : HTag) (w' : World) : Prop where
  pend : ∀ e ∈ w'.ev.pending, (e ∈ w.ev.pending ∧ e.key ≠ t.key) ∨ e.item.a = aEvent
  aw : ∀ x a, a ∈ (w'.proc x).awaits → a ∈ (w.proc x).awaits
  bl : ∀ x, (w'.proc x).blocked = (w.proc x).blocked
  guards : w'.guards = w.guards

theorem took_takeNext {w : World} {t : HTag} {ev' : EvQ} (hi : EvInv w.ev) (hn : executeNext w.ev = some (t, ev')) :
    Took w t (takeNext w t ev') := by
  obtain ⟨_, _, hpend, _⟩ := executeNext_facts hi hn
  rw [takeNext_eq]
  refine ⟨?_, fun _ _ h => h, fun _ => rfl, rfl⟩
  intro e he
  simp only [pushAll_pending, List.mem_append] at he
  rcases he with he | he
  · obtain ⟨_, _, _, _, x, hx, heq⟩ := wakeEvs_props he
    simp only [evWakes, List.mem_map] at hx
    obtain ⟨q, _, rfl⟩ := hx
    right; rw [heq]; rfl
  · left
    have : e ∈ remove w.ev.pending t.key := by rw [← hpend]; exact he
    exact mem_remove.1 this

theorem GInvB.takeNext {w : World} (hp : GInvB w) {t : HTag} {ev' : EvQ} (hn : executeNext w.ev = some (t, ev')) :
    GInvB (takeNext w t ev') := by
  obtain ⟨hei', _, hpend, _⟩ := executeNext_facts hp.ei hn
  unfold S3.takeNext
  refine (GInv.wakeEventWaiters (fr := blockedOf w) ?_ _).toB
  refine hp.congr (fun _ => rfl) (fun _ => rfl) rfl rfl rfl (fun _ _ => Iff.rfl) hei' ?_
  intro e he
  have : e ∈ remove w.ev.pending t.key := by rw [← hpend]; exact he
  exact Or.inl ⟨e, (mem_remove.1 this).1, rfl, rfl⟩

theorem Took.removeAwait {w w' : World} {t : HTag} (h : Took w t w') (p : Pid) (a : Await) : Took w t (removeAwait w' p a).1 := by
  rw [removeAwait_fst_eq]
  refine ⟨h.pend, ?_, ?_, h.guards⟩
  · intro x b hb
    rw [modProc_proc] at hb
    split at hb
    · rename_i hq; rw [hq.1]; exact h.aw p b ((removeFirst_sublist _ _).subset hb)
    · exact h.aw x b hb
  · intro x; rw [modProc_proc]; split
    · rename_i hq; rw [hq.1]; exact h.bl p
    · exact h.bl x

theorem rak_go_sublist (k : Await → Bool) (l : List Await) : (removeAwaitKind.go k l).1.Sublist l := by
  induction l with
  | nil => exact List.Sublist.refl _
  | cons x xs ih =>
    unfold removeAwaitKind.go
    by_cases hx : k x = true
    · simp only [hx, if_true]; exact List.sublist_cons_self x xs
    · simp only [hx, Bool.false_eq_true, if_false]; exact ih.cons_cons x

theorem Took.removeAwaitKind {w w' : World} {t : HTag} (h : Took w t w') (p : Pid) (k : Await → Bool) :
    Took w t (removeAwaitKind w' p k).1 := by
  rw [removeAwaitKind_fst_eq]
  refine ⟨h.pend, ?_, ?_, h.guards⟩
  · intro x b hb
    rw [modProc_proc] at hb
    split at hb
    · rename_i hq; rw [hq.1]; exact h.aw p b ((rak_go_sublist _ _).subset hb)
    · exact h.aw x b hb
  · intro x; rw [modProc_proc]; split
    · rename_i hq; rw [hq.1]; exact h.bl p
    · exact h.bl x

variable {fr : Pid → Option Frame} {w w' : World} {t : HTag} {p : Pid}

/-- a process suspended in a call that is not a guard wait: nothing of `GInv`'s concern is pending for it, except
    possibly the timer of its hold -/
theorem Took.quiet_frame (hk : Took w t w') (hp : GInv noEx fr w) {f : Frame} (hfr : fr p = some f)
    (hno : ∀ g, ¬ FrameOn w f g)
    (hnt : ∀ e ∈ w.ev.pending, e.key ≠ t.key → e.item.a = aTime → e.item.c = 0 → e.item.b ≠ p + 1) : Quiet w' p := by
  have hnil : ∀ g, Await.guard g ∉ (w.proc p).awaits := by
    intro g hg
    rw [mem_awaits_guard] at hg
    rcases hp.ga p with h | ⟨g', f', h1, h2, _⟩
    · rw [h] at hg; cases hg
    · rw [hfr] at h1; cases h1; exact hno g' h2
  refine ⟨?_, ?_, ?_⟩
  · intro e he hgr hb
    rcases hk.pend e he with ⟨hm, _⟩ | ha
    · obtain ⟨_, h2⟩ := hp.gr e hm hgr
      obtain ⟨g, h3, _⟩ := h2 (noEx_not _)
      rw [hb, Nat.add_sub_cancel] at h3
      exact hnil g h3
    · rcases hgr with ⟨h, _⟩ | h <;> rw [ha] at h <;> exact absurd h (by decide)
  · intro e he hea hec
    rcases hk.pend e he with ⟨hm, hne⟩ | ha
    · exact hnt e hm hne hea hec
    · rw [ha] at hea; exact absurd hea (by decide)
  · intro g hg
    exact absurd (hk.aw p _ hg) (hnil g)

/-- the process whose grant / condition wake-up `t` has just been taken -/
theorem Took.quiet_grant (hk : Took w t w') (hp : GInv noEx fr w) (ht : t ∈ w.ev.pending) (hg : isGrant t)
    (hb : t.item.b = p + 1) : Quiet w' p := by
  obtain ⟨_, h2⟩ := hp.gr t ht hg
  obtain ⟨g, hga, hnq⟩ := h2 (noEx_not _)
  rw [hb] at hnq
  rw [hb, Nat.add_sub_cancel] at hga
  have hga' := mem_awaits_guard.1 hga
  obtain ⟨f, hfr, hon, haw⟩ : ∃ f, fr p = some f ∧ FrameOn w f g ∧ guardAw w p = [.guard g] := by
    rcases hp.ga p with h | ⟨g', f', h1, h2, h3⟩
    · rw [h] at hga'; cases hga'
    · rw [h3] at hga'
      have : g = g' := by simpa using hga'
      subst this
      exact ⟨f', h1, h2, h3⟩
  refine ⟨?_, ?_, ?_⟩
  · intro e he hgr hbe
    rcases hk.pend e he with ⟨hm, hne⟩ | ha
    · have := hp.gu e hm t ht hgr hg (hbe.trans hb.symm) (noEx_not _)
      exact hne (by rw [this])
    · rcases hgr with ⟨h, _⟩ | h <;> rw [ha] at h <;> exact absurd h (by decide)
  · intro e he hea hec hbe
    rcases hk.pend e he with ⟨hm, _⟩ | ha
    · have := (hp.oth e hm hea hec).2 (noEx_not _)
      rw [hbe, Nat.add_sub_cancel, hfr] at this
      cases this
      exact hon
    · rw [ha] at hea; exact absurd hea (by decide)
  · intro g' hg' hq
    have h1 := mem_awaits_guard.1 (hk.aw p _ hg')
    rw [haw] at h1
    have : g' = g := by simpa using h1
    subst this
    exact hnq ((queued_congr hk.guards _ _).1 hq)

/-! ### a condition wake-up: the dispatcher removes the RESOURCE awaitable before it resumes the process -/

theorem GInv.setAwaitsEx {ex : Pid → Prop} (hp : GInv (exAdd ex p) fr w) (f : List Await → List Await)
    (hf : (f (w.proc p).awaits).filter isGuardA = []) :
    GInv (exAdd ex p) fr (w.modProc p fun x => { x with awaits := f x.awaits }) := by
  have hpr : ∀ x, x ≠ p → (w.modProc p fun x => { x with awaits := f x.awaits }).proc x = w.proc x :=
    fun x hx => modProc_proc_ne w _ hx
  have hgp : guardAw (w.modProc p fun x => { x with awaits := f x.awaits }) p = [] ∨ ¬ p < w.procs.size := by
    by_cases hsz : p < w.procs.size
    · left; unfold guardAw; rw [modProc_proc_self w _ hsz]; exact hf
    · exact Or.inr hsz
  have hgp' : guardAw (w.modProc p fun x => { x with awaits := f x.awaits }) p = [] := by
    rcases hgp with h | h
    · exact h
    · unfold guardAw; rw [modProc_proc]; simp only [h, and_false, if_false]
      rw [proc_oob _ (Nat.le_of_not_lt h)]; rfl
  refine { hp with gsz := by simpa using hp.gsz, gk := ?_, ga := ?_, gfb := ?_, gr := ?_ }
  · intro g' k hq
    obtain ⟨h1, h2, h3⟩ := hp.gk g' k hq
    refine ⟨h1, by simpa using h2, fun hx => ?_⟩
    have hkp : k - 1 ≠ p := fun h => hx (Or.inr h)
    rw [hpr _ hkp]; exact h3 hx
  · intro x
    by_cases hx : x = p
    · subst hx; exact Or.inl hgp'
    · unfold guardAw; rw [hpr x hx]; exact hp.ga x
  · intro x hx hb
    have hxp : x ≠ p := fun h => hx (Or.inr h)
    unfold guardAw; rw [hpr x hxp] at hb ⊢; exact hp.gfb x hx hb
  · intro e he hgr
    obtain ⟨h1, h2⟩ := hp.gr e he hgr
    refine ⟨h1, fun hx => ?_⟩
    have hkp : e.item.b - 1 ≠ p := fun h => hx (Or.inr h)
    obtain ⟨g', h3, h4⟩ := h2 hx
    exact ⟨g', by rw [hpr _ hkp]; exact h3, h4⟩

theorem GInv.dropGuardAwaits (hp : GInv noEx fr w) (p : Pid) (hq : Quiet w p) :
    GInv noEx fr (removeAwaitKind w p isGuardA).1 := by
  rw [removeAwaitKind_fst_eq]
  have htail : ((removeAwaitKind.go isGuardA (w.proc p).awaits).1).filter isGuardA = [] := by
    rw [rak_go_filter_self]
    have : (w.proc p).awaits.filter isGuardA = guardAw w p := rfl
    rw [this]
    rcases hp.ga p with h | ⟨g, _, _, _, h⟩ <;> rw [h] <;> rfl
  have hnq : ∀ g, ¬ queued w g (p + 1) := by
    intro g hqq
    have := (hp.gk g _ hqq).2.2 (noEx_not _)
    rw [Nat.add_sub_cancel] at this
    exact hq.nq g this hqq
  have hE := (hp.exempt p).setAwaitsEx (fun l => (removeAwaitKind.go isGuardA l).1) htail
  have hbl : ((w.modProc p fun x => { x with awaits := (removeAwaitKind.go isGuardA x.awaits).1 }).proc p).blocked =
      (w.proc p).blocked := by
    rw [modProc_proc]; split <;> rfl
  refine hE.unexempt ?_ ?_ ?_ ?_ ?_ ?_ ?_
  · intro g hqq; exact absurd hqq (hnq g)
  · intro hb
    rw [hbl] at hb
    refine ⟨?_, (hp.gfb p (noEx_not p) hb).2⟩
    unfold guardAw
    by_cases hsz : p < w.procs.size
    · rw [modProc_proc_self w _ hsz]; exact htail
    · rw [modProc_proc]; simp only [hsz, and_false, if_false]
      rw [proc_oob _ (Nat.le_of_not_lt hsz)]; rfl
  · intro e he hgr hb; exact absurd hb (hq.ng e he hgr)
  · intro a ha _ _ h1 _ hba _; exact absurd hba (hq.ng a ha h1)
  · intro e he hea hb; exact absurd hb (hq.ng e he (Or.inr hea))
  · intro _ g _ hqq; exact absurd hqq (hnq g)
  · intro e he hea hec hb
    have := (hp.oth e he hea hec).2 (noEx_not _)
    rw [hb, Nat.add_sub_cancel] at this
    exact this

/-! ### dispatch -/

theorem isProcA_not_guard : ∀ a, isProcA a = true → isGuardA a = false := by
  intro a h; cases a <;> first | rfl | cases h
theorem isEventA_not_guard : ∀ a, isEventA a = true → isGuardA a = false := by
  intro a h; cases a <;> first | rfl | cases h

/-- `GInv` is preserved by `dispatch` (together with `PInvB`, `NRInv` and the static side conditions) -/
theorem GInvB.dispatch {w w' : World} (hp : GInvB w) (hP : PInvB w) (hnr : NRInv w) (hside : SideOk w)
    (hd : dispatch w = some w') : GInvB w' := by
  rw [dispatch_eq] at hd
  split at hd
  · cases hd
  · rename_i t ev' hn
    simp only [Option.some.injEq] at hd
    subst hd
    have hT := hp.takeNext hn
    have hk := took_takeNext hp.ei hn
    obtain ⟨_, htm, _, _⟩ := executeNext_facts hp.ei hn
    have hsT : SideOk (S3.takeNext w t ev') := hside.ofStat (Stat.takeNext w t ev')
    have hprocT : ∀ x, (S3.takeNext w t ev').proc x = w.proc x := takeNext_proc w t ev'
    have hc64 : t.item.c < 2 ^ 64 := hp.cl t htm
    have hsig0 : decSig t.item.c = sigSuccess → t.item.c = 0 := (decSig_eq_zero hc64).1
    generalize S3.takeNext w t ev' = wT at hT hk hsT hprocT
    simp only [S3.dispatchBody]
    generalize hpdef : t.item.b - 1 = p
    have hres : ∀ {W : World}, GInvB W → SideOk W → (∀ f, (W.proc p).blocked = some f → decSig t.item.c = sigSuccess → Quiet W p) →
        GInvB (if isRunning W p = true then Sim.resumeProc W p (decSig t.item.c) else W) := by
      intro W h1 h2 h3; split
      · exact h1.resumeProc h2 p _ h3
      · exact h1
    -- a process suspended in a call that is not a guard wait or hold
    have hquietF : ∀ {W : World} {f : Frame}, Took w t W → t.item.b = p + 1 → (w.proc p).blocked = some f →
        (∀ g, ¬ FrameOn w f g) → (∀ h, f ≠ .hold h) → Quiet W p := by
      intro W f hkW hb hfr hno hnh
      refine hkW.quiet_frame hp (p := p) hfr hno ?_
      intro e he _ hea hec hbe
      have := (hp.oth e he hea hec).2 (noEx_not _)
      rw [hbe, Nat.add_sub_cancel] at this
      exact hnh e.key (Option.some.inj (hfr.symm.trans this))
    split
    · split
      · exact (GInv.fail hT _).toB
      · rename_i hs
        have hin : (wT.proc p).awaits = [] ∧ (wT.proc p).blocked = none := by
          rw [hprocT]; rw [hprocT] at hs; exact hnr p hs
        have hW : GInvB (wT.modProc p fun y => { y with status := .running, pc := 0, blocked := none }) := by
          refine (GInv.same (w' := wT.modProc p fun y => { y with status := .running, pc := 0, blocked := none })
            hT (fun q => ?_) (fun q => ?_) rfl (by simp) rfl (fun _ _ => Iff.rfl) rfl).toB
          · rw [modProc_proc]; split
            · rename_i hq; rw [hq.1]
            · rfl
          · rw [modProc_proc]; split
            · rename_i hq; rw [hq.1]; exact hin.2.symm
            · rfl
        refine GInvB.runScript _ hW (hsT.ofStat ?_) ?_
        · have h0 := Stat.refl wT; stat
        · rw [modProc_proc]; split
          · rfl
          · exact hin.2
    · split
      · rename_i ha
        have hW : GInvB (removeAwait wT p (.time t.key)).1 := (hT.removeAwait_other p _ rfl).toB
        refine hW.resumeProc (hsT.ofStat (by have h0 := Stat.refl wT; stat)) p _ ?_
        intro f _ hs
        have hc0 := hsig0 hs
        obtain ⟨hb0, hfr⟩ := hp.oth t htm ha hc0
        have hb : t.item.b = p + 1 := by omega
        have hfr' := hfr (noEx_not _)
        rw [hpdef] at hfr'
        refine (hk.removeAwait p _).quiet_frame hp (p := p) hfr' (fun g h => h) ?_
        intro e he hne hea hec hbe
        have := (hp.oth e he hea hec).2 (noEx_not _)
        rw [hbe, Nat.add_sub_cancel, hfr'] at this
        exact hne (Frame.hold.inj (Option.some.inj this)).symm
      · split
        · rename_i ha
          refine hres (hT.removeAwaitKind_other p _ isProcA_not_guard).toB
            (hsT.ofStat (by have h0 := Stat.refl wT; stat)) ?_
          intro f _ _
          obtain ⟨p', q, hb, hbl, _⟩ := hP.procWake_owned htm ha
          have hpp : p' = p := by omega
          subst hpp
          exact hquietF (hk.removeAwaitKind _ _) hb hbl (fun g h => h) (fun h hh => by cases hh)
        · split
          · rename_i ha
            refine hres (hT.removeAwaitKind_other p _ isEventA_not_guard).toB
              (hsT.ofStat (by have h0 := Stat.refl wT; stat)) ?_
            intro f _ _
            obtain ⟨p', q, hb, hbl, _⟩ := hP.eventWake_owned htm ha
            have hpp : p' = p := by omega
            subst hpp
            exact hquietF (hk.removeAwaitKind _ _) hb hbl (fun g h => h) (fun h hh => by cases hh)
          · split
            · rename_i ha
              refine hres hT hsT ?_
              intro f _ hs
              have hc0 := hsig0 hs
              have hnz := hp.nz t htm hc0
              have hg : isGrant t := by
                rcases ha with h | h
                · exact Or.inl ⟨h, hc0⟩
                · exact absurd h hnz.2.2
              have hb0 := (hp.gr t htm hg).1
              exact hk.quiet_grant hp htm hg (by omega)
            · split
              · rename_i ha
                have hg : isGrant t := Or.inr ha
                have hb0 := (hp.gr t htm hg).1
                have hb : t.item.b = p + 1 := by omega
                have hqT : Quiet wT p := hk.quiet_grant hp htm hg hb
                refine hres (hT.dropGuardAwaits p hqT).toB (hsT.ofStat (by have h0 := Stat.refl wT; stat)) ?_
                intro f _ _
                exact (hk.removeAwaitKind _ _).quiet_grant hp htm hg hb
              · split
                · rename_i ha
                  refine GInvB.resumeProc (GInv.cancelAwaiteds hT p (noEx_not p)).1.toB
                    (hsT.ofStat (by have h0 := Stat.refl wT; stat)) p _ ?_
                  intro f _ hs
                  exact absurd ha (hp.nz t htm (hsig0 hs)).1
                · split
                  · rename_i ha
                    refine GInvB.resumeProc hT hsT p _ ?_
                    intro f _ hs
                    exact absurd ha (hp.nz t htm (hsig0 hs)).2.1
                  · exact hT

end CimbaModel.Sim.S3
