/-
  S3 — every world the scenario loader (Drivers/SimMain.lean) can build satisfies the hypotheses of `AllInv`.
  The construction steps below mirror the loader line by line.
-/
import CimbaModel.Sim.S3All

namespace CimbaModel.Sim.S3
open CimbaModel CimbaModel.Sim CimbaModel.Event CimbaModel.Generated CimbaModel.KPQ
open CimbaModel.HashHeap (HTag Item Order HH WF abs liveTags init_spec)

/-! ### the construction steps -/

def newGuardW (w : World) (isCond : Bool) : World := { w with guards := w.guards.push { q := mkHH 3, isCond := isCond } }
def addRes (w : World) : World := { newGuardW w false with res := w.res.push { guard := w.guards.size } }
def addPool (w : World) (cap : Nat) : World :=
  { newGuardW w false with pools := w.pools.push { cap := cap, holders := mkHH 3, guard := w.guards.size } }
def addBuf (w : World) (cap : Nat) : World :=
  { newGuardW (newGuardW w false) false with bufs := w.bufs.push { cap := cap, front := w.guards.size, rear := w.guards.size + 1 } }
def addOQ (w : World) (cap : Nat) : World :=
  { newGuardW (newGuardW w false) false with oqs := w.oqs.push { cap := cap, front := w.guards.size, rear := w.guards.size + 1 } }
def addPQ (w : World) (cap : Nat) : World :=
  { newGuardW (newGuardW w false) false with
    pqs := w.pqs.push { cap := cap, queue := mkHH 3, front := w.guards.size, rear := w.guards.size + 1 } }
def addCond (w : World) : World := { newGuardW w true with conds := w.conds.push w.guards.size }
def addProc (w : World) (pr : Int) (cmds : Array (Cmd × String)) : World :=
  { w with procs := w.procs.push { prio := pr, script := cmds } }
/-- a condition's guard `cg` becomes an observer of guard `g` -/
def subscribe (w : World) (g cg : Nat) : World :=
  { w with guards := w.guards.modify g fun gd => { gd with observers := cg :: gd.observers } }
def autostart (w : World) (p : Pid) : World := (sched w aStart (p + 1) 0 w.now (w.proc p).prio).1

/-- the worlds the loader can build; the programs satisfy the documented precondition `CmdOk` -/
inductive Built : World → Prop
  | empty : Built {}
  | res {w : World} : Built w → Built (addRes w)
  | pool {w : World} (cap : Nat) : Built w → Built (addPool w cap)
  | buf {w : World} (cap : Nat) : Built w → Built (addBuf w cap)
  | oq {w : World} (cap : Nat) : Built w → Built (addOQ w cap)
  | pq {w : World} (cap : Nat) : Built w → Built (addPQ w cap)
  | cond {w : World} : Built w → Built (addCond w)
  | proc {w : World} (pr : Int) (cmds : Array (Cmd × String)) :
      Built w → (∀ (i : Nat) (c : Cmd) (t : String), cmds[i]? = some (c, t) → CmdOk c) → Built (addProc w pr cmds)
  | sub {w : World} (g cg : Nat) : Built w → Built (subscribe w g cg)
  | start {w : World} (p : Pid) : Built w → Built (autostart w p)

/-! ### the invariant of the construction -/

structure BInv (w : World) : Prop where
  ei : EvInv w.ev
  pr : ∀ p, (w.proc p).awaits = [] ∧ (w.proc p).waiters = [] ∧ (w.proc p).blocked = none
  ew : w.evWaiters = []
  pend : ∀ e ∈ w.ev.pending, e.item.a = aStart ∧ Harmless e
  gq : ∀ (g : Nat) (gd : Guard), w.guards[g]? = some gd → gd.q = mkHH 3
  fb : ∀ f g, FrameOn w f g → g < w.guards.size
  sep : CondSep w
  ok : ScriptsOk w

theorem mkHH_spec : GWF (mkHH 3) ∧ abs (mkHH 3) = [] := by
  obtain ⟨s, hs, hwf, habs, _⟩ := init_spec (lt := guard_queue_check) 3 (by decide) (by decide)
  have : mkHH 3 = s := by unfold mkHH; rw [hs]
  rw [this]; exact ⟨hwf, habs⟩

theorem push_get {α : Type} (a : Array α) (x : α) (i : Nat) (y : α) (h : (a.push x)[i]? = some y) :
    a[i]? = some y ∨ (i = a.size ∧ y = x) := by
  rw [Array.getElem?_push] at h
  split at h
  · rename_i hi; right; exact ⟨hi, by simpa using h.symm⟩
  · left; exact h

theorem map_push {α β : Type} (a : Array α) (x : α) (st : α → β) (i : Nat) (g : β)
    (h : ((a.push x)[i]?).map st = some g) : (a[i]?).map st = some g ∨ st x = g := by
  rw [Array.getElem?_push] at h
  split at h
  · right; simpa using h
  · left; exact h

/-- adding guards and one object / condition on them -/
theorem BInv.grow {w w' : World} (h : BInv w) (hev : w'.ev = w.ev) (hpr : w'.procs = w.procs)
    (hew : w'.evWaiters = w.evWaiters)
    (hgq : ∀ (g : Nat) (gd : Guard), w'.guards[g]? = some gd → gd.q = mkHH 3)
    (hsz : w.guards.size ≤ w'.guards.size) (isC : Bool)
    (hF : ∀ f g, FrameOn w' f g → FrameOn w f g ∨
      (w.guards.size ≤ g ∧ g < w'.guards.size ∧ ((∃ c, f = .condWait c) ↔ isC = true)))
    (hC : ∀ (c g : Nat), w'.conds[c]? = some g → w.conds[c]? = some g ∨ (w.guards.size ≤ g ∧ isC = true)) : BInv w' := by
  have hproc : ∀ p, w'.proc p = w.proc p := fun p => by unfold World.proc; rw [hpr]
  refine ⟨by rw [hev]; exact h.ei, fun p => by rw [hproc]; exact h.pr p, by rw [hew]; exact h.ew,
    by rw [hev]; exact h.pend, hgq, ?_, ?_, ?_⟩
  · intro f g hon
    rcases hF f g hon with h1 | ⟨_, h2, _⟩
    · exact Nat.lt_of_lt_of_le (h.fb f g h1) hsz
    · exact h2
  · intro c g f hc hon
    rcases hC c g hc with hc1 | ⟨hge, hisC⟩
    · have hlt : g < w.guards.size := h.fb (.condWait c) g hc1
      rcases hF f g hon with h1 | ⟨h2, _, _⟩
      · exact h.sep c g f hc1 h1
      · exact absurd hlt (Nat.not_lt.2 h2)
    · rcases hF f g hon with h1 | ⟨_, _, h3⟩
      · exact absurd (h.fb f g h1) (Nat.not_lt.2 hge)
      · exact h3.2 hisC
  · intro p i c t hs; rw [hproc] at hs; exact h.ok p i c t hs

theorem newGuard_gq {w : World} (h : BInv w) (b : Bool) (g : Nat) (gd : Guard)
    (hg : (w.guards.push { q := mkHH 3, isCond := b })[g]? = some gd) : gd.q = mkHH 3 := by
  rcases push_get _ _ _ _ hg with h1 | ⟨_, rfl⟩
  · exact h.gq g gd h1
  · rfl

theorem newGuard2_gq {w : World} (h : BInv w) (g : Nat) (gd : Guard)
    (hg : ((w.guards.push { q := mkHH 3, isCond := false }).push { q := mkHH 3, isCond := false })[g]? = some gd) :
    gd.q = mkHH 3 := by
  rcases push_get _ _ _ _ hg with h1 | ⟨_, rfl⟩
  · exact newGuard_gq h false g gd h1
  · rfl

theorem BInv.addRes {w : World} (h : BInv w) : BInv (addRes w) := by
  refine h.grow rfl rfl rfl (newGuard_gq h false) (by simp [S3.addRes, newGuardW]) false ?_ (fun c g hc => Or.inl hc)
  intro f g hon
  cases f <;> first
    | exact Or.inl hon
    | (rcases map_push _ _ _ _ _ hon with h1 | h1
       · exact Or.inl h1
       · right; simp only [resStat] at h1
         exact ⟨by omega, by simp [S3.addRes, newGuardW]; omega, by simp⟩)

theorem BInv.addPool {w : World} (h : BInv w) (cap : Nat) : BInv (addPool w cap) := by
  refine h.grow rfl rfl rfl (newGuard_gq h false) (by simp [S3.addPool, newGuardW]) false ?_ (fun c g hc => Or.inl hc)
  intro f g hon
  cases f <;> first
    | exact Or.inl hon
    | (rcases map_push _ _ _ _ _ hon with h1 | h1
       · exact Or.inl h1
       · right; simp only [poolStat] at h1
         exact ⟨by omega, by simp [S3.addPool, newGuardW]; omega, by simp⟩)

theorem BInv.addBuf {w : World} (h : BInv w) (cap : Nat) : BInv (addBuf w cap) := by
  refine h.grow rfl rfl rfl (newGuard2_gq h) (by simp [S3.addBuf, newGuardW]; omega) false ?_ (fun c g hc => Or.inl hc)
  intro f g hon
  cases f <;> first
    | exact Or.inl hon
    | (rcases map_push _ _ _ _ _ hon with h1 | h1
       · exact Or.inl h1
       · right; simp only [bufStat] at h1
         exact ⟨by omega, by simp [S3.addBuf, newGuardW]; omega, by simp⟩)

theorem BInv.addOQ {w : World} (h : BInv w) (cap : Nat) : BInv (addOQ w cap) := by
  refine h.grow rfl rfl rfl (newGuard2_gq h) (by simp [S3.addOQ, newGuardW]; omega) false ?_ (fun c g hc => Or.inl hc)
  intro f g hon
  cases f <;> first
    | exact Or.inl hon
    | (rcases map_push _ _ _ _ _ hon with h1 | h1
       · exact Or.inl h1
       · right; simp only [oqStat] at h1
         exact ⟨by omega, by simp [S3.addOQ, newGuardW]; omega, by simp⟩)

theorem BInv.addPQ {w : World} (h : BInv w) (cap : Nat) : BInv (addPQ w cap) := by
  refine h.grow rfl rfl rfl (newGuard2_gq h) (by simp [S3.addPQ, newGuardW]; omega) false ?_ (fun c g hc => Or.inl hc)
  intro f g hon
  cases f <;> first
    | exact Or.inl hon
    | (rcases map_push _ _ _ _ _ hon with h1 | h1
       · exact Or.inl h1
       · right; simp only [pqStat] at h1
         exact ⟨by omega, by simp [S3.addPQ, newGuardW]; omega, by simp⟩)

theorem BInv.addCond {w : World} (h : BInv w) : BInv (addCond w) := by
  refine h.grow rfl rfl rfl (newGuard_gq h true) (by simp [S3.addCond, newGuardW]) true ?_ ?_
  · intro f g hon
    cases f <;> first
      | exact Or.inl hon
      | (rcases push_get _ _ _ _ hon with h1 | ⟨_, h1⟩
         · exact Or.inl h1
         · right
           exact ⟨by omega, by simp [S3.addCond, newGuardW]; omega, by simp⟩)
  · intro c g hc
    rcases push_get _ _ _ _ hc with h1 | ⟨_, h1⟩
    · exact Or.inl h1
    · exact Or.inr ⟨by omega, rfl⟩

theorem BInv.addProc {w : World} (h : BInv w) (pr : Int) (cmds : Array (Cmd × String))
    (hok : ∀ (i : Nat) (c : Cmd) (t : String), cmds[i]? = some (c, t) → CmdOk c) : BInv (addProc w pr cmds) := by
  have hproc : ∀ p, (S3.addProc w pr cmds).proc p = w.proc p ∨
      (S3.addProc w pr cmds).proc p = ({ prio := pr, script := cmds } : Proc) := by
    intro p
    unfold World.proc S3.addProc
    simp only [Array.getD_eq_getD_getElem?, Array.getElem?_push]
    split
    · right; rfl
    · left; rfl
  refine ⟨h.ei, fun p => ?_, h.ew, h.pend, h.gq, h.fb, h.sep, ?_⟩
  · rcases hproc p with e | e <;> rw [e]
    · exact h.pr p
    · exact ⟨rfl, rfl, rfl⟩
  · intro p i c t hs
    rcases hproc p with e | e <;> rw [e] at hs
    · exact h.ok p i c t hs
    · exact hok i c t hs

theorem BInv.subscribe {w : World} (h : BInv w) (g cg : Nat) : BInv (subscribe w g cg) := by
  refine ⟨h.ei, h.pr, h.ew, h.pend, ?_, ?_, h.sep, h.ok⟩
  · intro i gd hg
    simp only [S3.subscribe, Array.getElem?_modify] at hg
    split at hg
    · cases hx : w.guards[i]? with
      | none => rw [hx] at hg; cases hg
      | some gd0 =>
        rw [hx] at hg
        simp only [Option.map_some, Option.some.injEq] at hg
        rw [← hg]; exact h.gq i gd0 hx
    · exact h.gq i gd hg
  · intro f g' hon
    have : (S3.subscribe w g cg).guards.size = w.guards.size := by simp [S3.subscribe]
    rw [this]; exact h.fb f g' hon

theorem BInv.fail {w : World} (h : BInv w) (m : String) : BInv (w.fail m) := by
  have hfo : ∀ f g, FrameOn (w.fail m) f g ↔ FrameOn w f g :=
    frameOn_congr (by simp) (by simp) (by simp) (by simp) (by simp) (by simp)
  refine ⟨by simpa using h.ei, fun p => by simpa using h.pr p, by simpa using h.ew, by simpa using h.pend,
    by simpa using h.gq, ?_, ?_, ?_⟩
  · intro f g hon; simpa using h.fb f g ((hfo f g).1 hon)
  · intro c g f hc hon; exact h.sep c g f (by simpa using hc) ((hfo f g).1 hon)
  · intro p i c t hs; exact h.ok p i c t (by simpa using hs)

theorem BInv.autostart {w : World} (h : BInv w) (p : Pid) : BInv (autostart w p) := by
  unfold S3.autostart
  rcases sched_cases w aStart (p + 1) 0 w.now (w.proc p).prio with ⟨ht, he⟩ | ⟨_, m, he⟩
  · rw [he]
    refine ⟨pushEv_evinv _ _ _ _ _ ht h.ei, h.pr, h.ew, ?_, h.gq, h.fb, h.sep, h.ok⟩
    intro e hm
    simp only [pushEv_pending, List.mem_cons] at hm
    rcases hm with rfl | hm
    · exact ⟨rfl, harmless_mkEv (by decide)⟩
    · exact h.pend e hm
  · rw [he]; exact h.fail m

theorem BInv.empty : BInv {} := by
  refine ⟨Event.init_inv 0, fun p => ⟨rfl, rfl, rfl⟩, rfl, (fun e he => by cases he), (fun g gd hg => by cases hg), ?_, ?_,
    (fun p i c t hs => by cases hs)⟩
  · intro f g hon; cases f <;> first | exact hon.elim | cases hon
  · intro c g f hc; cases hc

theorem Built.binv {w : World} (h : Built w) : BInv w := by
  induction h with
  | empty => exact BInv.empty
  | res _ ih => exact ih.addRes
  | pool cap _ ih => exact ih.addPool cap
  | buf cap _ ih => exact ih.addBuf cap
  | oq cap _ ih => exact ih.addOQ cap
  | pq cap _ ih => exact ih.addPQ cap
  | cond _ ih => exact ih.addCond
  | proc pr cmds _ hok ih => exact ih.addProc pr cmds hok
  | sub g cg _ ih => exact ih.subscribe g cg
  | start p _ ih => exact ih.autostart p

theorem BInv.initOk {w : World} (h : BInv w) (hsz : w.procs.size < 2 ^ 31) : InitOkG w ∧ SideOk w := by
  refine ⟨⟨⟨h.ei, fun p => (h.pr p).1, fun p => (h.pr p).2.1, h.ew, ?_, ?_⟩, ?_, hsz, ?_, fun p => (h.pr p).2.2,
    fun e he => (h.pend e he).2⟩, ⟨h.sep, h.ok⟩⟩
  · intro e he; rw [(h.pend e he).1]; decide
  · intro e he; rw [(h.pend e he).1]; decide
  · intro g gd hg; rw [h.gq g gd hg]; exact mkHH_spec.1
  · intro g k ⟨gd, hg, hk⟩
    rw [h.gq g gd hg, mkHH_spec.2] at hk; cases hk

/-- every world the scenario loader can build (with programs that respect the documented precondition on signal values,
    fewer than 2³¹ processes) satisfies the whole invariant, and so does every state of its run -/
theorem Built.allInv {w : World} (h : Built w) (hsz : w.procs.size < 2 ^ 31) : AllInv w :=
  let ⟨h1, h2⟩ := h.binv.initOk hsz
  h1.all h2

theorem Built.run {w : World} (h : Built w) (hsz : w.procs.size < 2 ^ 31) (fuel : Nat) : AllInv (runAll fuel w) :=
  (h.allInv hsz).runAll fuel w

end CimbaModel.Sim.S3
