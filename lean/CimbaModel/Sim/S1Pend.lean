/-
  S1 — how the primitives change the set of pending events: counting the pending events of a kind.
  `cnt P w` = number of pending events satisfying `P`; the primitives are classified by
  "adds nothing satisfying P" (then `cnt` does not grow).
-/
import CimbaModel.Sim.S1Start

namespace CimbaModel.Sim
open CimbaModel CimbaModel.Event CimbaModel.Generated
open CimbaModel.HashHeap (HTag Item Order HH)

/-- number of pending events whose payload satisfies `P` -/
def cnt (P : Item → Bool) (w : World) : Nat := w.ev.pending.countP fun e => P e.item

theorem cnt_of_ev {P : Item → Bool} {w w' : World} (h : w'.ev = w.ev) : cnt P w' = cnt P w := by
  unfold cnt; rw [h]

theorem cnt_pos_iff {P : Item → Bool} {w : World} : 0 < cnt P w ↔ ∃ e ∈ w.ev.pending, P e.item = true := by
  unfold cnt; rw [List.countP_pos_iff]

theorem cnt_zero_iff {P : Item → Bool} {w : World} : cnt P w = 0 ↔ ∀ e ∈ w.ev.pending, P e.item = false := by
  unfold cnt; rw [List.countP_eq_zero]; simp

/-! ### schedule -/

theorem sched_pending_cases (w : World) (a s : Nat) (sig t pri : Int) :
    (sched w a s sig t pri).1.ev.pending = w.ev.pending ∨
    (sched w a s sig t pri).1.ev.pending =
      { key := w.ev.counter + 1, item := ⟨a, s, encSig sig, 0⟩, d := t, i := pri } :: w.ev.pending := by
  unfold sched
  split
  · rename_i ev' h heq
    unfold schedule at heq
    split at heq
    · cases heq
    · injection heq with heq
      injection heq with h1 _
      subst h1
      right; simp [KPQ.insert, KPQ.norm]
  · left; simp

theorem cnt_sched_le (P : Item → Bool) (w : World) (a s : Nat) (sig t pri : Int) :
    cnt P (sched w a s sig t pri).1 ≤ cnt P w + (if P ⟨a, s, encSig sig, 0⟩ then 1 else 0) := by
  unfold cnt
  rcases sched_pending_cases w a s sig t pri with h | h <;> rw [h]
  · omega
  · rw [List.countP_cons]; dsimp only; split <;> simp_all

theorem cnt_sched_of_not (P : Item → Bool) (w : World) (a s : Nat) (sig t pri : Int)
    (hn : P ⟨a, s, encSig sig, 0⟩ = false) : cnt P (sched w a s sig t pri).1 ≤ cnt P w := by
  have := cnt_sched_le P w a s sig t pri
  rw [hn] at this; simpa using this

/-! ### cancel -/

theorem cancel_pending (q : EvQ) (h : Nat) :
    (cancel q h).1.pending = q.pending ∨ (cancel q h).1.pending = q.pending.filter (·.key ≠ h) := by
  unfold cancel; split
  · right; rfl
  · left; rfl

theorem countP_filter_le {α : Type _} (P Q : α → Bool) (l : List α) : (l.filter Q).countP P ≤ l.countP P :=
  (List.filter_sublist (p := Q) (l := l)).countP_le

/-- a predicate on worlds that survives failing, dropping pending events, and scheduling `aEvent` wake-ups -/
structure DownClosed (R : World → Prop) : Prop where
  fail : ∀ w m, R w → R (World.fail w m)
  sub : ∀ (w : World) (ev' : EvQ) (evW : List (Nat × List Pid)), R w → ev'.pending.Sublist w.ev.pending →
    R { w with ev := ev', evWaiters := evW }
  schedEvent : ∀ w s sig t pri, R w → R (sched w aEvent s sig t pri).1

theorem wakeEventWaiters_down {R : World → Prop} (hR : DownClosed R) (w : World) (ps : List Pid) (sig : Int)
    (h : R w) : R (wakeEventWaiters w ps sig) := by
  unfold wakeEventWaiters
  exact foldl_inv R _ (fun w q hw => hR.schedEvent _ _ _ _ _ hw) _ _ h

theorem evCancel_down {R : World → Prop} (hR : DownClosed R) (w : World) (x : Nat) (h : R w) : R (evCancel w x).1 := by
  unfold evCancel
  dsimp only
  split
  · apply wakeEventWaiters_down hR
    apply hR.sub _ _ _ h
    rcases cancel_pending w.ev x with e | e <;> rw [e]
    · exact List.Sublist.refl _
    · exact List.filter_sublist
  · exact h

theorem cancelAllFor_down {R : World → Prop} (hR : DownClosed R) (w : World) (z : Pid) (h : R w) :
    R (cancelAllFor w z) := by
  unfold cancelAllFor
  exact foldl_inv R _ (fun w x hw => evCancel_down hR w x hw) _ _ h

theorem cancelKindFor_down {R : World → Prop} (hR : DownClosed R) (w : World) (z : Pid) (act : Nat) (sig : Option Int)
    (h : R w) : R (cancelKindFor w z act sig).1 := by
  unfold cancelKindFor
  exact foldl_inv R _ (fun w x hw => evCancel_down hR w x hw) _ _ h

theorem cancelUserAll_down {R : World → Prop} (hR : DownClosed R) (w : World) (h : R w) : R (cancelUserAll w).1 := by
  unfold cancelUserAll
  exact foldl_inv R _ (fun w x hw => evCancel_down hR w x hw) _ _ h

/-- "at most as many `P`-events as in `w0`" is such a predicate, if `aEvent` wake-ups are not `P`-events -/
theorem cntLe_downClosed (P : Item → Bool) (w0 : World) (hP : ∀ s c, P ⟨aEvent, s, c, 0⟩ = false) :
    DownClosed fun w => cnt P w ≤ cnt P w0 where
  fail := fun w m h => by rw [cnt_of_ev (fail_ev w m)]; exact h
  sub := fun w ev' evW h hs => by
    have : cnt P { w with ev := ev', evWaiters := evW } ≤ cnt P w := hs.countP_le
    omega
  schedEvent := fun w s sig t pri h => by
    have := cnt_sched_of_not P w aEvent s sig t pri (hP _ _)
    omega

/-! ### after cancelling everything of a kind for a process, nothing of that kind is pending for it -/

/-- the pending events satisfying `Q` all come from `w0` and avoid the keys `ks` -/
def FromAvoid (Q : Item → Bool) (w0 : World) (ks : List Nat) (w : World) : Prop :=
  ∀ e ∈ w.ev.pending, Q e.item = true → e ∈ w0.ev.pending ∧ e.key ∉ ks

theorem fromAvoid_sched (Q : Item → Bool) (w0 : World) (ks : List Nat) (w : World) (a s : Nat) (sig t pri : Int)
    (hQ : Q ⟨a, s, encSig sig, 0⟩ = false) (h : FromAvoid Q w0 ks w) : FromAvoid Q w0 ks (sched w a s sig t pri).1 := by
  intro e he hq
  rcases sched_pending_cases w a s sig t pri with e' | e' <;> rw [e'] at he
  · exact h e he hq
  · rcases List.mem_cons.1 he with rfl | he
    · rw [hQ] at hq; cases hq
    · exact h e he hq

theorem fromAvoid_evCancel (Q : Item → Bool) (hQ : ∀ s c, Q ⟨aEvent, s, c, 0⟩ = false) (w0 : World) (ks : List Nat)
    (w : World) (x : Nat) (h : FromAvoid Q w0 ks w) : FromAvoid Q w0 (x :: ks) (evCancel w x).1 := by
  unfold evCancel
  dsimp only
  split
  · rename_i hc
    have hp : (cancel w.ev x).1.pending = w.ev.pending.filter (·.key ≠ x) := by
      unfold cancel at hc ⊢; split <;> simp_all [KPQ.remove]
    have h1 : FromAvoid Q w0 (x :: ks)
        { w with ev := (cancel w.ev x).1, evWaiters := (popWaiters w.evWaiters x).2 } := by
      intro e he hq
      have he' : e ∈ w.ev.pending.filter (·.key ≠ x) := by rw [← hp]; exact he
      rw [List.mem_filter] at he'
      obtain ⟨a, b⟩ := h e he'.1 hq
      refine ⟨a, ?_⟩
      simp only [List.mem_cons, not_or]
      exact ⟨by simpa using he'.2, b⟩
    unfold wakeEventWaiters
    exact foldl_inv (FromAvoid Q w0 (x :: ks)) _
      (fun w q hw => fromAvoid_sched Q w0 _ w _ _ _ _ _ (hQ _ _) hw) _ _ h1
  · intro e he hq
    rename_i hc
    have hns : isScheduled w.ev x = false := by
      unfold cancel at hc; split at hc <;> simp_all
    obtain ⟨a, b⟩ := h e he hq
    refine ⟨a, ?_⟩
    simp only [List.mem_cons, not_or]
    refine ⟨?_, b⟩
    intro hk
    have : isScheduled w.ev x = true := by
      unfold isScheduled KPQ.keys
      simp only [decide_eq_true_eq, List.mem_map]
      exact ⟨e, he, hk⟩
    rw [hns] at this; cases this

theorem fromAvoid_foldl (Q : Item → Bool) (hQ : ∀ s c, Q ⟨aEvent, s, c, 0⟩ = false) (w0 : World) :
    ∀ (hs ks : List Nat) (w : World), FromAvoid Q w0 ks w →
      FromAvoid Q w0 (hs.reverse ++ ks) (hs.foldl (fun w h => (evCancel w h).1) w) := by
  intro hs
  induction hs with
  | nil => intro ks w h; simpa using h
  | cons x xs ih =>
    intro ks w h
    rw [List.foldl_cons]
    have := ih (x :: ks) _ (fromAvoid_evCancel Q hQ w0 ks w x h)
    simpa using this

theorem fromAvoid_refl (Q : Item → Bool) (w : World) : FromAvoid Q w [] w :=
  fun e he _ => ⟨he, by simp⟩

/-- **after `cancelAllFor z` no event addressed to `z` other than an event wake-up is pending** -/
theorem cancelAllFor_none (Q : Item → Bool) (hQ : ∀ s c, Q ⟨aEvent, s, c, 0⟩ = false) (w : World) (z : Pid)
    (hz : ∀ it, Q it = true → it.b = z + 1) : cnt Q (cancelAllFor w z) = 0 := by
  rw [cnt_zero_iff]
  intro e he
  cases hq : Q e.item with
  | false => rfl
  | true =>
    exfalso
    have h := fromAvoid_foldl Q hQ w (pendingOf w z) [] w (fromAvoid_refl Q w)
    unfold cancelAllFor at he
    obtain ⟨a, b⟩ := h e he hq
    apply b
    simp only [List.append_nil, List.mem_reverse]
    unfold pendingOf
    rw [List.mem_map]
    exact ⟨e, List.mem_filter.2 ⟨a, by simpa using hz _ hq⟩, rfl⟩

/-- the same for `cancelKindFor z act none` and the events of action `act` -/
theorem cancelKindFor_none (Q : Item → Bool) (hQ : ∀ s c, Q ⟨aEvent, s, c, 0⟩ = false) (w : World) (z : Pid) (act : Nat)
    (hz : ∀ it, Q it = true → it.b = z + 1 ∧ it.a = act) : cnt Q (cancelKindFor w z act none).1 = 0 := by
  rw [cnt_zero_iff]
  intro e he
  cases hq : Q e.item with
  | false => rfl
  | true =>
    exfalso
    have h := fromAvoid_foldl Q hQ w
      ((w.ev.pending.filter fun e => e.item.b = z + 1 && e.item.a = act && true).map (·.key)) [] w (fromAvoid_refl Q w)
    unfold cancelKindFor at he
    dsimp only at he
    obtain ⟨a, b⟩ := h e he hq
    apply b
    simp only [List.append_nil, List.mem_reverse]
    rw [List.mem_map]
    refine ⟨e, List.mem_filter.2 ⟨a, ?_⟩, rfl⟩
    obtain ⟨h1, h2⟩ := hz _ hq
    simp [h1, h2]

/-! ### predicates on the event queue that every library step keeps: the generic transport lemmas -/

/-- `R` only looks at the event queue, survives dropping pending events, and survives scheduling an event whose
    action is in `A` -/
structure EvClosed (A : Nat → Bool) (R : World → Prop) : Prop where
  ev_only : ∀ {w w' : World}, R w → w'.ev = w.ev → R w'
  sub : ∀ (w : World) (ev' : EvQ), ev'.pending.Sublist w.ev.pending → R w → R { w with ev := ev' }
  sched : ∀ w a s sig t pri, A a = true → R w → R (sched w a s sig t pri).1

section
variable {A : Nat → Bool} {R : World → Prop} (hR : EvClosed A R)
include hR

theorem ec_fail (w : World) (m : String) (h : R w) : R (World.fail w m) := hR.ev_only h (by simp)

theorem ec_wakeEventWaiters (hA : A aEvent = true) (w : World) (ps : List Pid) (sig : Int) (h : R w) :
    R (wakeEventWaiters w ps sig) := by
  unfold wakeEventWaiters
  exact foldl_inv R _ (fun w q hw => hR.sched _ _ _ _ _ _ hA hw) _ _ h

theorem ec_evCancel (hA : A aEvent = true) (w : World) (x : Nat) (h : R w) : R (evCancel w x).1 := by
  unfold evCancel
  dsimp only
  split
  · apply ec_wakeEventWaiters hR hA
    refine hR.ev_only (w := { w with ev := (cancel w.ev x).1 }) (hR.sub _ _ ?_ h) rfl
    rcases cancel_pending w.ev x with e | e <;> rw [e]
    · exact List.Sublist.refl _
    · exact List.filter_sublist
  · exact h

theorem ec_cancelAllFor (hA : A aEvent = true) (w : World) (z : Pid) (h : R w) : R (cancelAllFor w z) := by
  unfold cancelAllFor
  exact foldl_inv R _ (fun w x hw => ec_evCancel hR hA w x hw) _ _ h

theorem ec_cancelKindFor (hA : A aEvent = true) (w : World) (z : Pid) (act : Nat) (sig : Option Int) (h : R w) :
    R (cancelKindFor w z act sig).1 := by
  unfold cancelKindFor
  exact foldl_inv R _ (fun w x hw => ec_evCancel hR hA w x hw) _ _ h

theorem ec_cancelUserAll (hA : A aEvent = true) (w : World) (h : R w) : R (cancelUserAll w).1 := by
  unfold cancelUserAll
  exact foldl_inv R _ (fun w x hw => ec_evCancel hR hA w x hw) _ _ h

theorem ec_guardSignal (hA : A aRes = true ∧ A aCond = true) (fuel : Nat) (w : World) (g : Nat) (h : R w) : R (guardSignal fuel w g) :=
  guardSignal_inv R (fun w m h => ec_fail hR w m h) (fun _ _ _ h => hR.ev_only h rfl)
    (fun _ _ _ _ h => hR.sched _ _ _ _ _ _ hA.1 h) (fun _ _ _ _ h => hR.sched _ _ _ _ _ _ hA.2 h) fuel w g h

theorem ec_signal (hA : A aRes = true ∧ A aCond = true) (w : World) (g : Nat) (h : R w) : R (signal w g) :=
  ec_guardSignal hR hA 8 w g h

theorem ec_guardWithdraw (hE : A aEvent = true) (hA : A aRes = true ∧ A aCond = true) (w : World) (g : Nat) (z : Pid) (h : R w) :
    R (guardWithdraw w g z) := by
  unfold guardWithdraw
  dsimp only
  split
  · exact hR.ev_only h (by simp)
  · split
    · exact ec_signal hR hA _ _ (ec_cancelKindFor hR hE _ _ _ _ (hR.ev_only h (by simp)))
    · exact ec_cancelKindFor hR hE _ _ _ _ (hR.ev_only h (by simp))

theorem ec_timerAdd (hA : A aTime = true) (w : World) (z : Pid) (d sig : Int) (h : R w) : R (timerAdd w z d sig).1 := by
  rw [timerAdd_fst]
  exact hR.ev_only (hR.sched w aTime (z + 1) sig (w.now + d) (w.proc z).prio hA h) (by simp)

theorem ec_timerCancel (hE : A aEvent = true) (w : World) (z : Pid) (x : Nat) (h : R w) : R (timerCancel w z x).1 := by
  rw [timerCancel_fst]
  exact ec_evCancel hR hE _ _ (hR.ev_only h (by simp))

theorem ec_timersClear (hE : A aEvent = true) (w : World) (z : Pid) (h : R w) : R (timersClear w z) := by
  unfold timersClear; dsimp only
  exact foldl_inv R _ (fun w x hw => ec_evCancel hR hE w x hw) _ _ (hR.ev_only h rfl)

theorem ec_cancelAwaiteds (hE : A aEvent = true) (hA : A aRes = true ∧ A aCond = true) (w : World) (z : Pid) (h : R w) :
    R (cancelAwaiteds w z) := by
  unfold cancelAwaiteds; dsimp only
  apply ec_cancelAllFor hR hE
  apply foldl_inv R
  · intro w a hw
    split
    · exact ec_evCancel hR hE _ _ hw
    · exact ec_guardWithdraw hR hE hA _ _ _ hw
    · exact hR.ev_only hw rfl
    · exact hR.ev_only hw rfl
  · exact hR.ev_only h rfl

theorem ec_wakeWaiters (hA : A aProc = true) (w : World) (z : Pid) (sig : Int) (h : R w) : R (wakeWaiters w z sig) := by
  unfold wakeWaiters; dsimp only
  exact foldl_inv R _ (fun w q hw => hR.sched _ _ _ _ _ _ hA hw) _ _ (hR.ev_only h rfl)

theorem ec_poolDropHolder (hA : A aRes = true ∧ A aCond = true) (w : World) (pl : Nat) (z : Pid) (h : R w) : R (poolDropHolder w pl z) := by
  unfold poolDropHolder
  repeat' split
  all_goals first
    | exact h
    | exact ec_fail hR _ _ h
    | exact ec_signal hR hA _ _ (hR.ev_only h (by simp))

theorem ec_dropResources (hA : A aRes = true ∧ A aCond = true) (w : World) (z : Pid) (h : R w) : R (dropResources w z) := by
  rw [dropResources_eq]
  apply foldl_inv R
  · intro w a hw
    unfold dropStep
    split
    · split
      · exact ec_signal hR hA _ _ (hR.ev_only hw (by simp))
      · exact hw
    · exact ec_poolDropHolder hR hA _ _ _ hw
  · exact hR.ev_only h rfl

theorem ec_guardWaitEnter (w : World) (g : Nat) (z : Pid) (d : Demand) (h : R w) : R (guardWaitEnter w g z d) :=
  hR.ev_only h (by simp)

theorem ec_guardWaitLeave (hE : A aEvent = true) (hA : A aRes = true ∧ A aCond = true) (w : World) (g : Nat) (z : Pid) (sig : Int)
    (h : R w) : R (guardWaitLeave w g z sig) := by
  unfold guardWaitLeave; dsimp only
  refine hR.ev_only (w := if sig ≠ sigSuccess then guardWithdraw w g z else w) ?_ (by simp)
  split
  · exact ec_guardWithdraw hR hE hA _ _ _ h
  · exact h

theorem ec_poolMug (hI : A aIntr = true) (hA : A aRes = true ∧ A aCond = true) (fuel : Nat) (w : World) (z : Pid) (pl rem : Nat)
    (h : R w) : R (poolMug fuel w z pl rem).1 :=
  poolMug_inv R z (fun w m h => ec_fail hR w m h) (fun w ps h => hR.ev_only h rfl)
    (fun w z pl h => hR.ev_only h (by simp)) (fun w s t pri h => hR.sched _ _ _ _ _ _ hI h)
    (fun w pl n h => hR.ev_only h (by simp))
    (fun w pl h => hR.ev_only h (by simp)) (fun w g h => ec_signal hR hA w g h) fuel w pl rem h

end

/-- every action kind except the process-end wake-up is allowed -/
structure AllButProc (A : Nat → Bool) : Prop where
  start : A aStart = true
  time : A aTime = true
  event : A aEvent = true
  res : A aRes = true
  preempt : A aPreempt = true
  cond : A aCond = true
  intr : A aIntr = true
  resume : A aResume = true
  user : A aUser = true

section
variable {A : Nat → Bool} {R : World → Prop} (hR : EvClosed A R)
include hR

/-! steps that do not touch the event queue -/

theorem ec_mk (w : World) (evW : List (Nat × List Pid)) (procs : Array Proc) (guards : Array Guard)
    (res : Array Res) (pools : Array Pool) (bufs : Array Buf) (oqs : Array OQ) (pqs : Array PQ) (conds : Array Nat)
    (flags : Array Int) (gvars : Array Nat) (log : Array String) (fault : Option String) (d : Nat) (h : R w) :
    R ⟨w.ev, evW, procs, guards, res, pools, bufs, oqs, pqs, conds, flags, gvars, log, fault, d⟩ :=
  hR.ev_only h rfl

theorem ec_emit (w : World) (m : String) (h : R w) : R (World.emit w m) := hR.ev_only h (by simp)
theorem ec_modProc (w : World) (z : Pid) (f : Proc → Proc) (h : R w) : R (World.modProc w z f) := hR.ev_only h (by simp)
theorem ec_setGuardQ (w : World) (g : Nat) (q' : HH) (h : R w) : R (setGuardQ w g q') := hR.ev_only h (by simp)
theorem ec_setPoolInUse (w : World) (pl v : Nat) (h : R w) : R (setPoolInUse w pl v) := hR.ev_only h (by simp)
theorem ec_recordRes (w : World) (r : Nat) (h : R w) : R (recordRes w r) := hR.ev_only h (by simp)
theorem ec_recordPool (w : World) (r : Nat) (h : R w) : R (recordPool w r) := hR.ev_only h (by simp)
theorem ec_recordBuf (w : World) (r : Nat) (h : R w) : R (recordBuf w r) := hR.ev_only h (by simp)
theorem ec_recordOQ (w : World) (r : Nat) (h : R w) : R (recordOQ w r) := hR.ev_only h (by simp)
theorem ec_recordPQ (w : World) (r : Nat) (h : R w) : R (recordPQ w r) := hR.ev_only h (by simp)
theorem ec_guardRemove (w : World) (g : Nat) (z : Pid) (h : R w) : R ((guardRemove w g z).1) := hR.ev_only h (by simp)
theorem ec_setHeldAmount (w : World) (pl : Nat) (z : Pid) (n : Nat) (h : R w) : R (setHeldAmount w pl z n) := hR.ev_only h (by simp)
theorem ec_setRecording (w : World) (kind idx : Nat) (on : Bool) (h : R w) : R (setRecording w kind idx on) := hR.ev_only h (by simp)
theorem ec_addAwait (w : World) (z : Pid) (a : Await) (h : R w) : R (addAwait w z a) := hR.ev_only h (by simp)
theorem ec_removeAwait (w : World) (z : Pid) (a : Await) (h : R w) : R ((removeAwait w z a).1) := hR.ev_only h (by simp)
theorem ec_removeAwaitKind (w : World) (z : Pid) (k : Await → Bool) (h : R w) : R ((removeAwaitKind w z k).1) := hR.ev_only h (by simp)
theorem ec_removeHeld (w : World) (z : Pid) (a : HoldRef) (h : R w) : R ((removeHeld w z a).1) := hR.ev_only h (by simp)
theorem ec_block (w : World) (z : Pid) (f : Frame) (h : R w) : R ((block w z f).1) := hR.ev_only h (by simp)
theorem ec_setVar (w : World) (z : Pid) (v x : Nat) (h : R w) : R (setVar w z v x) := hR.ev_only h (by simp)
theorem ec_grab (w : World) (r : Nat) (z : Pid) (h : R w) : R (grab w r z) := hR.ev_only h (by simp)
theorem ec_poolUpdateRecord (w : World) (pl : Nat) (z : Pid) (n : Nat) (h : R w) : R (poolUpdateRecord w pl z n) := hR.ev_only h (by simp)

end

/-- close `R w'` from `h : R w` through any composition of library steps that never wakes the waiters of a process
    end; the numeral bounds the depth -/
syntax "ec_peel " term:max term:max term:max num : tactic
open Lean in
macro_rules
  | `(tactic| ec_peel $hR $hA $h $n) => do
    if n.getNat = 0 then `(tactic| fail "ec_peel: out of fuel")
    else
      let m := Syntax.mkNumLit (toString (n.getNat - 1))
      `(tactic| first
          | with_reducible exact $h
          | (with_reducible first
              | apply ec_fail $hR
              | apply ec_wakeEventWaiters $hR (AllButProc.event $hA)
              | apply ec_evCancel $hR (AllButProc.event $hA)
              | apply ec_cancelAllFor $hR (AllButProc.event $hA)
              | apply ec_cancelKindFor $hR (AllButProc.event $hA)
              | apply ec_cancelUserAll $hR (AllButProc.event $hA)
              | apply ec_guardSignal $hR (And.intro (AllButProc.res $hA) (AllButProc.cond $hA))
              | apply ec_signal $hR (And.intro (AllButProc.res $hA) (AllButProc.cond $hA))
              | apply ec_guardWithdraw $hR (AllButProc.event $hA) (And.intro (AllButProc.res $hA) (AllButProc.cond $hA))
              | apply ec_timerAdd $hR (AllButProc.time $hA)
              | apply ec_timerCancel $hR (AllButProc.event $hA)
              | apply ec_timersClear $hR (AllButProc.event $hA)
              | apply ec_cancelAwaiteds $hR (AllButProc.event $hA) (And.intro (AllButProc.res $hA) (AllButProc.cond $hA))
              | apply ec_poolDropHolder $hR (And.intro (AllButProc.res $hA) (AllButProc.cond $hA))
              | apply ec_dropResources $hR (And.intro (AllButProc.res $hA) (AllButProc.cond $hA))
              | apply ec_guardWaitEnter $hR
              | apply ec_guardWaitLeave $hR (AllButProc.event $hA) (And.intro (AllButProc.res $hA) (AllButProc.cond $hA))
              | apply ec_poolMug $hR (AllButProc.intr $hA) (And.intro (AllButProc.res $hA) (AllButProc.cond $hA))
              | apply ec_emit $hR
              | apply ec_modProc $hR
              | apply ec_setGuardQ $hR
              | apply ec_setPoolInUse $hR
              | apply ec_recordRes $hR
              | apply ec_recordPool $hR
              | apply ec_recordBuf $hR
              | apply ec_recordOQ $hR
              | apply ec_recordPQ $hR
              | apply ec_guardRemove $hR
              | apply ec_setHeldAmount $hR
              | apply ec_setRecording $hR
              | apply ec_addAwait $hR
              | apply ec_removeAwait $hR
              | apply ec_removeAwaitKind $hR
              | apply ec_removeHeld $hR
              | apply ec_block $hR
              | apply ec_setVar $hR
              | apply ec_grab $hR
              | apply ec_poolUpdateRecord $hR
              | apply EvClosed.sched $hR _ _ _ _ _ _ (AllButProc.start $hA)
              | apply EvClosed.sched $hR _ _ _ _ _ _ (AllButProc.time $hA)
              | apply EvClosed.sched $hR _ _ _ _ _ _ (AllButProc.event $hA)
              | apply EvClosed.sched $hR _ _ _ _ _ _ (AllButProc.res $hA)
              | apply EvClosed.sched $hR _ _ _ _ _ _ (AllButProc.preempt $hA)
              | apply EvClosed.sched $hR _ _ _ _ _ _ (AllButProc.cond $hA)
              | apply EvClosed.sched $hR _ _ _ _ _ _ (AllButProc.intr $hA)
              | apply EvClosed.sched $hR _ _ _ _ _ _ (AllButProc.resume $hA)
              | apply EvClosed.sched $hR _ _ _ _ _ _ (AllButProc.user $hA)
              | apply ec_mk $hR
            ) <;> ec_peel $hR $hA $h $m
          | (split <;> ec_peel $hR $hA $h $m))

section
variable {A : Nat → Bool} {R : World → Prop} (hR : EvClosed A R) (hA : AllButProc A)
include hR hA

theorem ec_poolLoop (w : World) (p : Pid) (pl rem initially : Nat) (preempt : Bool) (h : R w) :
    R (poolLoop w p pl rem initially preempt).1 := by
  have hupd : ∀ (w : World) n, R w → R (poolUpdateRecord w pl p n) := fun w n h => ec_poolUpdateRecord hR w pl p n h
  have hpre : ∀ (w : World) v, R w → R (recordPool (setPoolInUse w pl v) pl) :=
    fun w v h => ec_recordPool hR _ _ (ec_setPoolInUse hR _ _ _ h)
  unfold poolLoop
  split
  · exact ec_fail hR _ _ h
  · rename_i x hx
    dsimp only
    split
    · exact ec_signal hR ⟨hA.res, hA.cond⟩ _ _ (hupd _ rem (hpre _ (x.inUse + rem) h))
    · have h1 : R (if x.cap - x.inUse > 0 then
          (poolUpdateRecord (recordPool (setPoolInUse w pl (x.inUse + (x.cap - x.inUse))) pl) pl p (x.cap - x.inUse),
            rem - (x.cap - x.inUse)) else (w, rem)).1 := by
        split
        · exact hupd _ _ (hpre _ _ h)
        · exact h
      have h2 : R (if preempt = true then
          poolMug (x.holders.count + 1) (if x.cap - x.inUse > 0 then
            (poolUpdateRecord (recordPool (setPoolInUse w pl (x.inUse + (x.cap - x.inUse))) pl) pl p (x.cap - x.inUse),
              rem - (x.cap - x.inUse)) else (w, rem)).1 p pl (if x.cap - x.inUse > 0 then
            (poolUpdateRecord (recordPool (setPoolInUse w pl (x.inUse + (x.cap - x.inUse))) pl) pl p (x.cap - x.inUse),
              rem - (x.cap - x.inUse)) else (w, rem)).2
          else ((if x.cap - x.inUse > 0 then
            (poolUpdateRecord (recordPool (setPoolInUse w pl (x.inUse + (x.cap - x.inUse))) pl) pl p (x.cap - x.inUse),
              rem - (x.cap - x.inUse)) else (w, rem)).1, some (if x.cap - x.inUse > 0 then
            (poolUpdateRecord (recordPool (setPoolInUse w pl (x.inUse + (x.cap - x.inUse))) pl) pl p (x.cap - x.inUse),
              rem - (x.cap - x.inUse)) else (w, rem)).2)).1 := by
        split
        · exact ec_poolMug hR hA.intr ⟨hA.res, hA.cond⟩ _ _ _ _ _ h1
        · exact h1
      split
      · exact h2
      · exact ec_block hR _ _ _ (ec_guardWaitEnter hR _ _ _ _ h2)

set_option maxHeartbeats 400000 in
theorem ec_poolRollback (w : World) (p : Pid) (pl initially : Nat) (h : R w) : R (poolRollback w p pl initially) := by
  unfold poolRollback; dsimp only; ec_peel hR hA h 30

theorem ec_bufGetLoop (w : World) (p : Pid) (b rem got : Nat) (h : R w) : R (bufGetLoop w p b rem got).1 := by
  unfold bufGetLoop; dsimp only; ec_peel hR hA h 30

theorem ec_bufPutLoop (w : World) (p : Pid) (b rem left : Nat) (h : R w) : R (bufPutLoop w p b rem left).1 := by
  unfold bufPutLoop; dsimp only; ec_peel hR hA h 30

theorem ec_oqGetLoop (w : World) (p : Pid) (q : Nat) (h : R w) : R (oqGetLoop w p q).1 := by
  unfold oqGetLoop; dsimp only; ec_peel hR hA h 30

theorem ec_oqPutLoop (w : World) (p : Pid) (q obj : Nat) (h : R w) : R (oqPutLoop w p q obj).1 := by
  unfold oqPutLoop; dsimp only; ec_peel hR hA h 30

theorem ec_pqGetLoop (w : World) (p : Pid) (k : Nat) (h : R w) : R (pqGetLoop w p k).1 := by
  unfold pqGetLoop; dsimp only; ec_peel hR hA h 30

theorem ec_pqPutLoop (w : World) (p : Pid) (k obj : Nat) (pri : Int) (v : Nat) (h : R w) :
    R (pqPutLoop w p k obj pri v).1 := by
  unfold pqPutLoop; dsimp only; ec_peel hR hA h 30

theorem ec_acquireStep (w : World) (p : Pid) (r : Nat) (h : R w) : R (acquireStep w p r).1 := by
  unfold acquireStep; ec_peel hR hA h 30

theorem ec_condSignal (w : World) (g : Nat) (h : R w) : R (condSignal w g).1 := by
  unfold condSignal
  split
  · exact h
  · split
    · exact h
    · dsimp only
      apply foldl_inv R _ (fun w t hw => ec_guardRemove hR w _ _ hw)
      exact foldl_inv R _ (fun w t hw => hR.sched _ _ _ _ _ _ hA.cond hw) _ _ h

end

/-- `ec_peel` extended with the blocking library calls -/
syntax "ec_peel2 " term:max term:max term:max num : tactic
open Lean in
macro_rules
  | `(tactic| ec_peel2 $hR $hA $h $n) => do
    if n.getNat = 0 then `(tactic| fail "ec_peel2: out of fuel")
    else
      let m := Syntax.mkNumLit (toString (n.getNat - 1))
      `(tactic| first
          | ec_peel $hR $hA $h 8
          | (with_reducible first
              | apply ec_acquireStep $hR $hA
              | apply ec_poolLoop $hR $hA
              | apply ec_poolRollback $hR $hA
              | apply ec_bufGetLoop $hR $hA
              | apply ec_bufPutLoop $hR $hA
              | apply ec_oqGetLoop $hR $hA
              | apply ec_oqPutLoop $hR $hA
              | apply ec_pqGetLoop $hR $hA
              | apply ec_pqPutLoop $hR $hA
              | apply ec_condSignal $hR $hA
              | apply ec_signal $hR (And.intro (AllButProc.res $hA) (AllButProc.cond $hA))
              | apply ec_guardWaitLeave $hR (AllButProc.event $hA) (And.intro (AllButProc.res $hA) (AllButProc.cond $hA))
              | apply ec_cancelKindFor $hR (AllButProc.event $hA)
              | apply ec_cancelUserAll $hR (AllButProc.event $hA)
              | apply ec_recordPool $hR
              | apply ec_recordPQ $hR
              | apply ec_setPoolInUse $hR
              | apply ec_setHeldAmount $hR
              | apply ec_removeHeld $hR
              | apply ec_mk $hR
              | apply ec_fail $hR
              | apply ec_guardRemove $hR
              | apply EvClosed.sched $hR _ _ _ _ _ _ (AllButProc.res $hA)
            ) <;> ec_peel2 $hR $hA $h $m
          | (split <;> ec_peel2 $hR $hA $h $m))

end CimbaModel.Sim
