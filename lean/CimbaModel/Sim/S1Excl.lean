/-
  S1 — mutual exclusion at the level of single calls: `grab` is only ever called on a free resource,
  and what a successful `acquire` / `preempt` means for the worlds before and after the call.
-/
import CimbaModel.Sim.S1HolderStep
import CimbaModel.Sim.Basic

namespace CimbaModel.Sim
open CimbaModel CimbaModel.Event CimbaModel.Generated
open CimbaModel.HashHeap (HTag Item Order HH)

/-! ### `grab` -/

/-- on a free resource `grab` is the plain double update (holder field, list of holdings) and raises no fault -/
theorem grab_free_eq (w : World) (r : Nat) (p : Pid) (x : Res) (hx : w.res[r]? = some x) (hf : x.holder = none) :
    grab w r p = ({ w with res := w.res.set! r { x with holder := some p } }).modProc p
      fun y => { y with held := .res r :: y.held } := by
  unfold grab; simp [hx, hf]

theorem grab_free_fault (w : World) (r : Nat) (p : Pid) (x : Res) (hx : w.res[r]? = some x) (hf : x.holder = none) :
    (grab w r p).fault = w.fault := by
  rw [grab_free_eq w r p x hx hf]; rfl

/-- on a held resource the model records a fault (so "no fault" in the correspondence runs means: never happened) -/
theorem grab_held_faults (w : World) (r : Nat) (p q : Pid) (x : Res) (hx : w.res[r]? = some x)
    (hq : x.holder = some q) (hok : w.fault = none) : (grab w r p).fault = some s!"grab of held resource {r}" := by
  unfold grab; simp [hx, hq, World.fail, hok, World.modProc]

/-! ### the three call sites of `grab` -/

/-- `acquireStep` calls `grab` exactly when the resource is free; otherwise the caller queues up and blocks -/
theorem acquireStep_free (w : World) (p : Pid) (r : Nat) (x : Res) (hx : w.res[r]? = some x) (hf : x.holder = none) :
    acquireStep w p r = (recordRes (grab w r p) r, .ret sigSuccess "") := by
  unfold acquireStep; simp [hx, hf]

theorem acquireStep_held (w : World) (p q : Pid) (r : Nat) (x : Res) (hx : w.res[r]? = some x) (hq : x.holder = some q) :
    acquireStep w p r = block (guardWaitEnter w x.guard p (.resAvail r)) p (.acquire r) := by
  unfold acquireStep; simp [hx, hq]

/-- the world in which the `preempt` branch calls `grab`: the victim has been relieved first -/
def preemptMid (w : World) (r : Nat) (victim : Pid) : World :=
  let w := (removeHeld w victim (.res r)).1
  let w := cancelAwaiteds w victim
  let w := { w with res := w.res.modify r fun y => { y with holder := none } }
  (sched w aPreempt (victim + 1) sigPreempted w.now (w.proc victim).prio).1

theorem preempt_victim_eq (w : World) (p victim : Pid) (r : Nat) (x : Res) (hx : w.res[r]? = some x)
    (hv : x.holder = some victim) (hne : victim ≠ p) (hpri : (w.proc p).prio ≥ (w.proc victim).prio) :
    execCmd w p (.preempt r) = (grab (preemptMid w r victim) r p, .ret sigSuccess "") := by
  have : ¬ some victim = some p := fun e => hne (Option.some.inj e)
  simp only [execCmd, hx, hv, this, if_false, hpri, if_true]
  rfl

/-- … and in that world the resource is free: the `grab` of the preempt branch is a grab of a free resource -/
theorem preemptMid_free (w : World) (r : Nat) (victim : Pid) (x : Res) (hx : w.res[r]? = some x) :
    (preemptMid w r victim).res[r]? = some { x with holder := none } := by
  unfold preemptMid
  simp [Array.getElem?_modify, hx]

/-! ### what success means -/

theorem holder_recordRes (w : World) (r r' : Nat) : (recordRes w r).holder r' = w.holder r' := by
  simp [World.holder]

/-- the other processes do not list a resource that has a holder -/
theorem HInv.others_not {w : World} (h : HInv w) (r : Nat) (p q : Pid) (hp : w.holder r = some p) (hq : q ≠ p) :
    HoldRef.res r ∉ (w.proc q).held := by
  intro hm
  have := (h.mem_iff r q).1 hm
  rw [hp] at this
  exact hq (Option.some.inj this).symm

/-- **`acquire` succeeds only on a free resource**, and then the caller is the holder -/
theorem acquire_success {w : World} (h : HInv w) (p : Pid) (hp : p < w.procs.size) (r : Nat) (x : Res)
    (hx : w.res[r]? = some x) (w' : World) (e : String)
    (hret : execCmd w p (.acquire r) = (w', .ret sigSuccess e)) :
    x.holder = none ∧ w'.holder r = some p ∧ HInv w' := by
  have hinv : HInv w' := by
    have := hinv_execCmd h p hp (.acquire r); rw [hret] at this; exact this
  simp only [execCmd] at hret
  cases hh : x.holder with
  | none =>
    rw [acquireStep_free w p r x hx hh] at hret
    injection hret with h1 _
    subst h1
    exact ⟨rfl, by rw [holder_recordRes, grab_holder w r p x hx], hinv⟩
  | some q =>
    rw [acquireStep_held w p q r x hx hh] at hret
    simp [block] at hret

/-- the same when a waiting `acquire` is resumed: success is only reported after the re-check found the resource free -/
theorem resume_acquire_success {w : World} (h : HInv w) (p : Pid) (hp : p < w.procs.size) (r : Nat) (x : Res)
    (hx : w.res[r]? = some x) (sig : Int) (w' : World) (e : String)
    (hret : resumeFrame w p (.acquire r) sig = (w', .ret sigSuccess e)) :
    sig = sigSuccess ∧ x.holder = none ∧ w'.holder r = some p ∧ HInv w' := by
  have hinv : HInv w' := by
    have := hinv_resumeFrame h p hp (.acquire r) sig; rw [hret] at this; exact this
  simp only [resumeFrame, hx] at hret
  by_cases hs : sig = sigSuccess
  · rw [if_pos hs] at hret
    have hx1 : (guardWaitLeave w x.guard p sig).res[r]? = some x := by simp [hx]
    cases hh : x.holder with
    | none =>
      rw [acquireStep_free _ p r x hx1 hh] at hret
      injection hret with h1 _
      subst h1
      exact ⟨hs, rfl, by rw [holder_recordRes, grab_holder _ r p x hx1], hinv⟩
    | some q =>
      rw [acquireStep_held _ p q r x hx1 hh] at hret
      simp [block] at hret
  · rw [if_neg hs] at hret
    injection hret with _ h2
    injection h2 with h3 _
    exact absurd h3 hs

/-- **`preempt` succeeds only on a free resource or against a holder of lower or equal priority**; in the second case
    the previous holder has lost the resource (it no longer lists it) and a PREEMPTED wake-up for it is pending at the
    current time; in both cases the caller is the holder afterwards -/
theorem preempt_success {w : World} (h : HInv w) (p : Pid) (hp : p < w.procs.size) (r : Nat) (x : Res)
    (hx : w.res[r]? = some x) (w' : World) (e : String)
    (hret : execCmd w p (.preempt r) = (w', .ret sigSuccess e)) :
    w'.holder r = some p ∧ HInv w' ∧
    (x.holder = none ∨
      ∃ q, x.holder = some q ∧ q ≠ p ∧ (w.proc q).prio ≤ (w.proc p).prio ∧ HoldRef.res r ∉ (w'.proc q).held ∧
        ∃ ev ∈ w'.ev.pending, ev.item.a = aPreempt ∧ ev.item.b = q + 1 ∧ ev.item.c = encSig sigPreempted ∧
          ev.d = w.now) := by
  have hinv : HInv w' := by
    have := hinv_execCmd h p hp (.preempt r); rw [hret] at this; exact this
  cases hh : x.holder with
  | none =>
    simp only [execCmd, hx, hh] at hret
    simp at hret
    obtain ⟨h1, _⟩ := hret
    subst h1
    exact ⟨by rw [holder_recordRes, grab_holder w r p x hx], hinv, Or.inl rfl⟩
  | some q =>
    by_cases hqp : q = p
    · subst hqp
      simp only [execCmd, hx, hh] at hret
      simp at hret
    · by_cases hpri : (w.proc p).prio ≥ (w.proc q).prio
      · rw [preempt_victim_eq w p q r x hx hh hqp hpri] at hret
        injection hret with h1 _
        subst h1
        have hhold : (grab (preemptMid w r q) r p).holder r = some p :=
          grab_holder _ r p _ (preemptMid_free w r q x hx)
        refine ⟨hhold, hinv, Or.inr ⟨q, rfl, hqp, hpri, hinv.others_not r p q hhold hqp, ?_⟩⟩
        have hev : (grab (preemptMid w r q) r p).ev = (preemptMid w r q).ev := by simp
        rw [hev]
        unfold preemptMid
        dsimp only
        have hs := sched_ok
          { cancelAwaiteds (removeHeld w q (.res r)).1 q with
            res := (cancelAwaiteds (removeHeld w q (.res r)).1 q).res.modify r fun y => { y with holder := none } }
          aPreempt (q + 1) sigPreempted
          ({ cancelAwaiteds (removeHeld w q (.res r)).1 q with
            res := (cancelAwaiteds (removeHeld w q (.res r)).1 q).res.modify r fun y => { y with holder := none } } : World).now
          (World.proc { cancelAwaiteds (removeHeld w q (.res r)).1 q with
            res := (cancelAwaiteds (removeHeld w q (.res r)).1 q).res.modify r fun y => { y with holder := none } } q).prio
          (Int.le_refl _)
        refine ⟨_, by rw [hs.2.1]; exact List.mem_cons_self, rfl, rfl, rfl, ?_⟩
        simp
      · have hlt : ¬ (w.proc p).prio ≥ (w.proc q).prio := hpri
        have hne : ¬ some q = some p := fun e => hqp (Option.some.inj e)
        simp only [execCmd, hx, hh, hne, if_false, hlt] at hret
        rw [acquireStep_held w p q r x hx hh] at hret
        simp [block] at hret

end CimbaModel.Sim
