/-
  S1 — the timers, process-end wake-ups, preemption wake-ups and resume events of a process die with it (C09):
  every pending event of one of these four kinds is addressed to a running process.
-/
import CimbaModel.Sim.S1PendI
import CimbaModel.Sim.S1WaitRun

namespace CimbaModel.Sim
open CimbaModel CimbaModel.Event CimbaModel.Generated
open CimbaModel.HashHeap (HTag Item Order HH)

/-- timer, process-end, preemption and resume wake-ups -/
def silentAct (a : Nat) : Bool := a == aTime || a == aProc || a == aPreempt || a == aResume

/-- every pending event of a silent kind is addressed to a process that is running according to `st` -/
def TgtRun (st : Pid → Status) (w : World) : Prop :=
  ∀ e ∈ w.ev.pending, silentAct e.item.a = true → 1 ≤ e.item.b ∧ st (e.item.b - 1) = .running

/-- **every pending timer / process-end / preemption / resume wake-up is addressed to a running process** -/
def Silent (w : World) : Prop := TgtRun (fun q => (w.proc q).status) w

/-- the other action kinds -/
def loudAct (a : Nat) : Bool := !silentAct a

theorem internal_loud : Internal loudAct := by constructor <;> decide

theorem tgt_closed (st : Pid → Status) : EvClosed loudAct (TgtRun st) where
  ev_only := fun h e => by unfold TgtRun at *; rw [e]; exact h
  sub := fun w ev' hs h e he => h e (hs.subset he)
  sched := fun w a s sig t pri ha h e he hs => by
    rcases sched_pending_cases w a s sig t pri with e' | e' <;> rw [e'] at he
    · exact h e he hs
    · rcases List.mem_cons.1 he with rfl | he
      · simp [loudAct] at ha; simp [ha] at hs
      · exact h e he hs

/-- scheduling a silent wake-up for a running process -/
theorem tgt_sched_run {st : Pid → Status} {w : World} (h : TgtRun st w) (a s : Nat) (sig t pri : Int)
    (hs : 1 ≤ s) (hr : st (s - 1) = .running) : TgtRun st (sched w a s sig t pri).1 := by
  intro e he hsil
  rcases sched_pending_cases w a s sig t pri with e' | e' <;> rw [e'] at he
  · exact h e he hsil
  · rcases List.mem_cons.1 he with rfl | he
    · exact ⟨hs, hr⟩
    · exact h e he hsil

theorem tgt_mono {st st' : Pid → Status} {w : World} (h : TgtRun st w) (hm : ∀ q, st q = .running → st' q = .running) :
    TgtRun st' w := fun e he hs => ⟨(h e he hs).1, hm _ (h e he hs).2⟩

theorem Silent.of_tgt {w w' : World} (h : TgtRun (fun q => (w.proc q).status) w')
    (hst : ∀ q, (w'.proc q).status = (w.proc q).status) : Silent w' := by
  unfold Silent
  exact tgt_mono h (fun q hq => by rw [hst]; exact hq)

/-- **what the invariant says about a process that is not running**: none of its timers, process-end wake-ups,
    preemption wake-ups or resume events is pending -/
theorem Silent.none_for {w : World} (h : Silent w) (p : Pid) (hp : (w.proc p).status ≠ .running) :
    ∀ e ∈ w.ev.pending, e.item.b = p + 1 → silentAct e.item.a = false := by
  intro e he hb
  cases hs : silentAct e.item.a with
  | false => rfl
  | true =>
    have := (h e he hs).2
    rw [hb] at this
    exact absurd this hp

/-! ### counting the silent events of one process -/

/-- a silent event addressed to `z` -/
def isSilentFor (z : Pid) (it : Item) : Bool := silentAct it.a && it.b == z + 1

/-- "no more silent events for `z` than in `w0`" is kept by every step that schedules loud events only -/
theorem silentLe_closed (z : Pid) (w0 : World) : EvClosed loudAct fun w => cnt (isSilentFor z) w ≤ cnt (isSilentFor z) w0 where
  ev_only := fun h e => by rw [cnt_of_ev e]; exact h
  sub := fun w ev' hs h => by
    have : cnt (isSilentFor z) { w with ev := ev' } ≤ cnt (isSilentFor z) w := hs.countP_le
    omega
  sched := fun w a s sig t pri ha h => by
    have hn : isSilentFor z ⟨a, s, encSig sig, 0⟩ = false := by
      simp [loudAct] at ha; simp [isSilentFor, ha]
    exact Nat.le_trans (cnt_sched_of_not _ w a s sig t pri hn) h

theorem cancelAwaiteds_silent (w : World) (z : Pid) : cnt (isSilentFor z) (cancelAwaiteds w z) = 0 := by
  rw [cancelAwaiteds_eq]
  apply cancelAllFor_none
  · intro s c; rfl
  · intro it h
    unfold isSilentFor at h
    simp at h; exact h.2

/-! ### the end of a process -/

theorem winv_finishMid {w : World} (h : WInv w) (z : Pid) (stopped : Bool) :
    WInv (finishMid w z stopped) ∧ (finishMid w z stopped).pa z = [] := by
  unfold finishMid; split
  · exact ⟨winv_dropResources (winv_cancelAwaiteds h z) z, by simp [cancelAwaiteds_pa]⟩
  · exact ⟨winv_cancelAwaiteds (winv_dropResources h z) z, by simp [cancelAwaiteds_pa]⟩

theorem dr_finishMid {w : World} (h : DeadRec w) (z : Pid) (stopped : Bool) : DeadRec (finishMid w z stopped) := by
  unfold finishMid; split
  · exact dr_dropResources (dr_cancelAwaiteds h z) z
  · exact dr_cancelAwaiteds (dr_dropResources h z) z

theorem finishMid_status (w : World) (z : Pid) (stopped : Bool) (q : Pid) :
    ((finishMid w z stopped).proc q).status = (w.proc q).status := by
  unfold finishMid; split <;> simp

theorem tgt_finishMid {st : Pid → Status} {w : World} (h : TgtRun st w) (z : Pid) (stopped : Bool) :
    TgtRun st (finishMid w z stopped) := by
  unfold finishMid; split
  · exact ec_dropResources (tgt_closed st) ⟨internal_loud.res, internal_loud.cond⟩ _ _
      (ec_cancelAwaiteds (tgt_closed st) internal_loud.event ⟨internal_loud.res, internal_loud.cond⟩ _ _ h)
  · exact ec_cancelAwaiteds (tgt_closed st) internal_loud.event ⟨internal_loud.res, internal_loud.cond⟩ _ _
      (ec_dropResources (tgt_closed st) ⟨internal_loud.res, internal_loud.cond⟩ _ _ h)

theorem finishMid_silent (w : World) (z : Pid) (stopped : Bool) : cnt (isSilentFor z) (finishMid w z stopped) = 0 := by
  unfold finishMid; split
  · have := ec_dropResources (silentLe_closed z (cancelAwaiteds w z)) ⟨internal_loud.res, internal_loud.cond⟩ (cancelAwaiteds w z) z
      (Nat.le_refl _)
    rw [cancelAwaiteds_silent] at this
    omega
  · exact cancelAwaiteds_silent _ z

/-- **the end of a process keeps `Silent`**: its own silent events are cancelled, its waiters are running -/
theorem silent_finishProc {w : World} (hs : Silent w) (hw : WInv w) (hd : DeadRec w) (z : Pid) (val : Int)
    (stopped : Bool) : Silent (finishProc w z val stopped) := by
  obtain ⟨hwm, hpam⟩ := winv_finishMid hw z stopped
  have hdm := dr_finishMid hd z stopped
  have htm : TgtRun (fun q => (w.proc q).status) (finishMid w z stopped) := tgt_finishMid hs z stopped
  have hcm := finishMid_silent w z stopped
  have hfree := (hwm.free z hpam).1 z
  rw [finishProc_eq]
  intro e he hsil
  have he' : e ∈ (wakeWaiters (finishMid w z stopped) z (if stopped then sigStopped else sigSuccess)).ev.pending := he
  rw [wakeWaiters_pending] at he'
  -- the event is an old one or one of the new process-end wake-ups
  have key : 1 ≤ e.item.b ∧ (w.proc (e.item.b - 1)).status = .running ∧ e.item.b - 1 ≠ z := by
    rcases List.mem_append.1 he' with hnew | hold
    · obtain ⟨_, _, _, _, _, q, hq, hb, _⟩ := mem_wakeTags (List.mem_reverse.1 hnew)
      have hqz : q ≠ z := fun x => hfree (x ▸ hq)
      have hreg := hwm.reg q z hq
      have hrun : ((finishMid w z stopped).proc q).status = .running := by
        apply Classical.byContradiction
        intro hnr
        have := (hdm q hnr).1
        unfold World.pa at hreg
        rw [this] at hreg; cases hreg
      rw [finishMid_status] at hrun
      refine ⟨by omega, ?_, ?_⟩
      · rw [hb]; exact hrun
      · rw [hb]; exact hqz
    · obtain ⟨h1, h2⟩ := htm e hold hsil
      refine ⟨h1, h2, ?_⟩
      intro hz
      have : 0 < cnt (isSilentFor z) (finishMid w z stopped) := by
        rw [cnt_pos_iff]
        refine ⟨e, hold, ?_⟩
        unfold isSilentFor
        simp [hsil]; omega
      omega
  refine ⟨key.1, ?_⟩
  dsimp only
  rw [proc_modProc_ne _ _ _ _ key.2.2, wakeWaiters_status, finishMid_status]
  exact key.2.1

/-! ### every command -/

theorem tgt_reprioritize {st : Pid → Status} {w : World} (hw : TgtRun st w) {ev' : EvQ} {h : Nat} {v : Int}
    (hr : reprioritize w.ev h v = .ok ev') : TgtRun st { w with ev := ev' } := by
  have hi := reprioritize_items hr
  intro e he hs
  have : e.item ∈ ev'.pending.map (·.item) := List.mem_map.2 ⟨e, he, rfl⟩
  rw [hi] at this
  obtain ⟨e0, he0, hie⟩ := List.mem_map.1 this
  have := hw e0 he0 (by rw [hie]; exact hs)
  rw [hie] at this; exact this

theorem tgt_timerAdd {st : Pid → Status} {w : World} (h : TgtRun st w) (p : Pid) (d sig : Int)
    (hr : st p = .running) : TgtRun st (timerAdd w p d sig).1 := by
  rw [timerAdd_fst]
  exact (tgt_closed st).ev_only (w := (sched w aTime (p + 1) sig (w.now + d) (w.proc p).prio).1)
    (tgt_sched_run h aTime (p + 1) sig _ _ (by omega) (by simpa using hr)) (by simp)

/-- split the command's control structure, then peel each branch -/
syntax "tgt_cmd " term:max ident : tactic
macro_rules
  | `(tactic| tgt_cmd $hR $h) =>
    `(tactic| first
        | with_reducible exact $h
        | (split <;> tgt_cmd $hR $h)
        | (ei_peel2 $hR internal_loud $h 12))

set_option maxHeartbeats 1000000 in
/-- the commands that schedule only loud events -/
theorem tgt_execCmd_frame {st : Pid → Status} {w : World} (h : TgtRun st w) (p : Pid) (c : Cmd)
    (h1 : ∀ z v, c ≠ .stop z v) (h2 : ∀ v, c ≠ .exit v) (h3 : ∀ d, c ≠ .hold d) (h4 : ∀ v d s, c ≠ .timerAdd v d s)
    (h5 : ∀ v d s, c ≠ .timerSet v d s) (h6 : ∀ q s, c ≠ .resume q s) (h7 : ∀ r, c ≠ .preempt r)
    (h8 : ∀ q v, c ≠ .prioSet q v) (h9 : ∀ q d s, c ≠ .timerAddOf q d s) : TgtRun st (execCmd w p c).1 := by
  cases c
  case stop z v => exact absurd rfl (h1 z v)
  case exit v => exact absurd rfl (h2 v)
  case hold d => exact absurd rfl (h3 d)
  case timerAdd v d s => exact absurd rfl (h4 v d s)
  case timerSet v d s => exact absurd rfl (h5 v d s)
  case resume q s => exact absurd rfl (h6 q s)
  case preempt r => exact absurd rfl (h7 r)
  case prioSet q v => exact absurd rfl (h8 q v)
  case timerAddOf q d s => exact absurd rfl (h9 q d s)
  all_goals simp only [execCmd]
  all_goals tgt_cmd (tgt_closed st) h

theorem holder_running {w : World} (hh : HInv w) (hd : DeadRec w) (r : Nat) (x : Res) (hx : w.res[r]? = some x)
    (v : Pid) (hv : x.holder = some v) : (w.proc v).status = .running := by
  apply Classical.byContradiction
  intro hnr
  have hm := (hh.mem_iff r v).2 (by rw [holder_eq w r x hx, hv])
  rw [(hd v hnr).2.2.1] at hm
  cases hm

/-- **every command keeps `Silent`** (`p` running) -/
theorem silent_execCmd {w : World} (hs : Silent w) (hh : HInv w) (hw : WInv w) (hd : DeadRec w) (p : Pid)
    (hrun : (w.proc p).status = .running) (c : Cmd) : Silent (execCmd w p c).1 := by
  by_cases h1 : ∃ z v, c = .stop z v
  · obtain ⟨z, v, rfl⟩ := h1
    simp only [execCmd]
    split
    · exact silent_finishProc hs hw hd p v true
    · split
      · exact silent_finishProc hs hw hd z v true
      · exact hs
  by_cases h2 : ∃ v, c = .exit v
  · obtain ⟨v, rfl⟩ := h2
    exact silent_finishProc hs hw hd p v false
  have hst : ∀ q, ((execCmd w p c).1.proc q).status = (w.proc q).status :=
    fun q => execCmd_status w p c q (fun z v e => h1 ⟨z, v, e⟩) (fun v e => h2 ⟨v, e⟩)
  refine Silent.of_tgt ?_ hst
  have hs : TgtRun (fun q => (w.proc q).status) w := hs
  by_cases h3 : ∃ d, c = .hold d
  · obtain ⟨d, rfl⟩ := h3
    simp only [execCmd]
    exact (tgt_closed _).ev_only (tgt_timerAdd hs p d sigSuccess hrun) (by simp)
  by_cases h4 : ∃ v d s, c = .timerAdd v d s
  · obtain ⟨v, d, s, rfl⟩ := h4
    simp only [execCmd]
    exact (tgt_closed _).ev_only (tgt_timerAdd hs p d s hrun) (by simp)
  by_cases h5 : ∃ v d s, c = .timerSet v d s
  · obtain ⟨v, d, s, rfl⟩ := h5
    simp only [execCmd]
    have h0 : TgtRun (fun q => (w.proc q).status) (timersClear w p) :=
      ec_timersClear (tgt_closed _) internal_loud.event w p hs
    exact (tgt_closed _).ev_only (tgt_timerAdd h0 p d s hrun) (by simp)
  by_cases h6 : ∃ q s, c = .resume q s
  · obtain ⟨q, s, rfl⟩ := h6
    simp only [execCmd]
    split
    · exact hs
    · rename_i hc
      have hq : (w.proc q).status = .running := by
        simp only [not_or, Classical.not_not] at hc
        have := hc.1; unfold isRunning at this; simpa using this
      exact tgt_sched_run hs aResume (q + 1) s _ _ (by omega) (by simpa using hq)
  by_cases h7 : ∃ r, c = .preempt r
  · obtain ⟨r, rfl⟩ := h7
    simp only [execCmd]
    split
    · exact hs
    · rename_i x hx
      split
      · exact hs
      · split
        · dsimp only; ei_peel2 (tgt_closed _) internal_loud hs 12
        · rename_i victim hv
          have hvr := holder_running hh hd r x hx victim hv
          split
          · dsimp only
            apply ec_grab (tgt_closed _)
            apply tgt_sched_run _ aPreempt (victim + 1) sigPreempted _ _ (by omega) (by simpa using hvr)
            apply ec_mk (tgt_closed _)
            apply ec_cancelAwaiteds (tgt_closed _) internal_loud.event ⟨internal_loud.res, internal_loud.cond⟩
            exact ec_removeHeld (tgt_closed _) _ _ _ hs
          · ei_peel2 (tgt_closed _) internal_loud hs 12
  by_cases h8 : ∃ q v, c = .prioSet q v
  · obtain ⟨q, v, rfl⟩ := h8
    simp only [execCmd]
    split
    · exact hs
    · dsimp only
      apply foldl_inv (TgtRun _)
      · intro w' a hw'
        ei_peel (tgt_closed _) internal_loud hw' 10
      · apply foldl_inv (TgtRun _)
        · intro w' a hw'
          split
          · split
            · rename_i ev' hr; exact tgt_reprioritize hw' hr
            · exact ec_fail (tgt_closed _) _ _ hw'
          · ei_peel (tgt_closed _) internal_loud hw' 10
          · exact hw'
        · exact (tgt_closed _).ev_only hs rfl
  by_cases h9 : ∃ q d s, c = .timerAddOf q d s
  · obtain ⟨q, d, s, rfl⟩ := h9
    simp only [execCmd]
    split
    · exact hs
    · rename_i hc
      have hq : (w.proc q).status = .running := by simpa [isRunning] using hc
      exact (tgt_closed _).ev_only (tgt_timerAdd hs q d s hq) (by simp)
  exact tgt_execCmd_frame hs p c (fun z v e => h1 ⟨z, v, e⟩) (fun v e => h2 ⟨v, e⟩) (fun d e => h3 ⟨d, e⟩)
    (fun v d s e => h4 ⟨v, d, s, e⟩) (fun v d s e => h5 ⟨v, d, s, e⟩) (fun q s e => h6 ⟨q, s, e⟩)
    (fun r e => h7 ⟨r, e⟩) (fun q v e => h8 ⟨q, v, e⟩) (fun q d s e => h9 ⟨q, d, s, e⟩)

end CimbaModel.Sim
