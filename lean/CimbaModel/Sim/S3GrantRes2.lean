/-
  S3 — the grant invariant, part 12: `preempt` of a resource and the `acquire` frame.
-/
import CimbaModel.Sim.S3GrantDrop

namespace CimbaModel.Sim.S3
open CimbaModel CimbaModel.Sim CimbaModel.Event CimbaModel.Generated CimbaModel.KPQ
open CimbaModel.HashHeap (HTag Item Order HH WF abs liveTags)

variable {fr : Pid → Option Frame} {df df' : Demand → Nat} {w : World} {p : Pid}

/-- every TIME awaitable of every process is an issued handle that is not (and never will be) the handle of a grant -/
def TimersOk (w : World) : Prop := ∀ q k, Await.time k ∈ (w.proc q).awaits → NGc w k

theorem TInv.timersOk {w : World} (h : TInvB w) : TimersOk w := by
  intro q k hk
  refine ⟨h.tle q k hk, ?_⟩
  intro e he hke hg
  by_cases hk0 : k = 0
  · subst hk0
    have := (NGc.zero h.ei).2 e he hke
    exact this hg
  · rcases h.t1 q k hk0 hk with ⟨e', he', hk', ha', _⟩ | hc
    · have : e = e' := HashHeap.eq_of_key_eq h.ei.part.keysNodup he he' (hke.trans hk'.symm)
      subst this
      rw [hg.1] at ha'; exact absurd ha' (by decide)
    · -- a cancelled handle is not pending
      have hnd := h.ei.part.nodup
      have hin : k ∈ keys w.ev.pending := Event.mem_keys.2 ⟨e, he, hke⟩
      rw [List.append_assoc] at hnd
      exact (List.nodup_append.1 hnd).2.2 k hin k (List.mem_append_right _ hc) rfl

/-- taking a resource over from a holder of lower priority: the victim's waits are cancelled, the resource changes
    hands without becoming available to anybody else -/
theorem gs_preemptTake (h : GS fr df w) (ht : TimersOk w) {r : Nat} {x : Res} (hx : w.res[r]? = some x) (victim : Pid)
    (t pri : Int) :
    GH df (grab (sched ({ (cancelAwaiteds (removeHeld w victim (.res r)).1 victim) with
        res := (cancelAwaiteds (removeHeld w victim (.res r)).1 victim).res.modify r fun y => { y with holder := none } })
      aPreempt (victim + 1) sigPreempted t pri).1 r p) := by
  have h1 : GS fr df (removeHeld w victim (.res r)).1 := h.removeHeld_fst victim _
  have ht1 : ∀ k, Await.time k ∈ ((removeHeld w victim (.res r)).1.proc victim).awaits → NGc (removeHeld w victim (.res r)).1 k := by
    intro k hk
    have hpf : PF w (removeHeld w victim (.res r)).1 := (PF.refl w).removeHeld_fst victim _
    rw [(hpf.ctl victim).1] at hk
    exact (ht victim k hk).ofEvo ((Evo.refl w).removeHeld_fst victim _)
  have h2 := h1.cancelAwaiteds victim ht1
  have hst2 : Stat w (cancelAwaiteds (removeHeld w victim (.res r)).1 victim) := by have h0 := Stat.refl w; stat
  generalize (cancelAwaiteds (removeHeld w victim (.res r)).1 victim) = W2 at h2 hst2
  -- the resource still exists
  obtain ⟨x2, hx2, hsx2⟩ : ∃ x2, W2.res[r]? = some x2 ∧ resStat x2 = resStat x := by
    have := hst2.res r
    rw [hx] at this
    cases h' : W2.res[r]? with
    | none => rw [h'] at this; cases this
    | some x2 => rw [h'] at this; exact ⟨x2, rfl, by simpa using this⟩
  -- released …
  have hst3 : Stat W2 { W2 with res := W2.res.modify r fun y => { y with holder := none } } :=
    (Stat.refl W2).setResModify r _ (fun _ => rfl)
  have h3 : GS fr (fun d => df d + (if d = .resAvail r then 1 else 0))
      { W2 with res := W2.res.modify r fun y => { y with holder := none } } := by
    refine h2.bump (h2.ginv.setResModify r _ (fun _ => rfl)) rfl rfl (fun _ => rfl) (gOf_of_stat hst3) ?_
    intro d
    rw [need_res_modify hx2]
    split
    · rename_i hd; subst hd
      have := resNeed_le_one { x2 with holder := none }
      omega
    · omega
  have hx3 : ({ W2 with res := W2.res.modify r fun y => { y with holder := none } } : World).res[r]? = some { x2 with holder := none } := by
    show (W2.res.modify r _)[r]? = _
    rw [Array.getElem?_modify]; simp [hx2]
  generalize ({ W2 with res := W2.res.modify r fun y => { y with holder := none } } : World) = W3 at h3 hx3
  -- … the victim is told …
  have h4 : GS fr (fun d => df d + (if d = .resAvail r then 1 else 0))
      (sched W3 aPreempt (victim + 1) sigPreempted t pri).1 :=
    h3.sched_harmless _ _ _ _ _ (by decide)
  have hx4 : (sched W3 aPreempt (victim + 1) sigPreempted t pri).1.res[r]? = some { x2 with holder := none } := by
    rw [sched_res]; exact hx3
  generalize (sched W3 aPreempt (victim + 1) sigPreempted t pri).1 = W4 at h4 hx4
  -- … and taken again
  have hg : grab W4 r p = ({ W4 with res := W4.res.set! r { x2 with holder := some p } }).modProc p fun y => { y with held := .res r :: y.held } := by
    unfold grab; rw [hx4]; simp
  rw [hg]
  have hst5 : Stat W4 { W4 with res := W4.res.set! r { x2 with holder := some p } } :=
    (Stat.refl W4).setResSet r _ (fun x' hx' => by rw [hx4] at hx'; cases hx'; rfl)
  have h5 : GS fr df { W4 with res := W4.res.set! r { x2 with holder := some p } } := by
    refine h4.bump (h4.ginv.setResSet r _ (fun x' hx' => by rw [hx4] at hx'; cases hx'; rfl)) rfl rfl (fun _ => rfl)
      (gOf_of_stat hst5) ?_
    intro d
    rw [need_res_set hx4]
    split
    · rename_i hd; subst hd
      rw [need_res_of hx4]
      simp [resNeed]; omega
    · rename_i hd; simp
  exact (h5.inert (h5.ginv.modProc_ctl p (fun y => { y with held := .res r :: y.held }) (fun _ => ⟨rfl, rfl⟩))
    ((Inert.refl _).modProc p (fun y => { y with held := .res r :: y.held }) (fun _ => rfl))).gh

/-- `preempt r` -/
theorem gs_cmd_preempt (h : GS fr df w) (ht : TimersOk w) (hes : EndSep w) (hsep : CondSep w) (hfr : fr p = none)
    (hlt : p < w.procs.size) (r : Nat) : GH df (execCmd w p (.preempt r)).1 := by
  simp only [Sim.execCmd]
  split
  · exact h.gh
  · rename_i x hx
    split
    · exact h.gh
    · split
      · rename_i hh
        obtain ⟨hi, _⟩ := grab_record_inert (p := p) hx hh
        exact h.gh.inert h.ginv.ei hi
      · rename_i victim hv
        split
        · exact gs_preemptTake h ht hx victim _ _
        · exact h.acquireStep hes hsep hfr hlt r (fun _ _ => Nat.le_refl _)

/-- the common epilogue of the guard waits of the built-in objects: after `guardWaitLeave` the bundle holds again, with
    the process not suspended -/
theorem gs_leave {f : Frame} {g : Nat} (h : GS fr df w) (hfr : fr p = some f) (hon : FrameOn w f g) (hnc : ∀ c, f ≠ .condWait c)
    (sig : Int) (hq : sig = sigSuccess → Quiet w p) :
    GS (setFrame fr p none) df (guardWaitLeave (w.modProc p fun y => { y with blocked := none }) g p sig) := by
  have hq' := h.ginv.quiet_guard hfr hon hq
  obtain ⟨h1, h2⟩ := h.leave hfr hon sig hq'
  exact ⟨h.ginv.left_plain (noEx_not p) hfr hon hnc sig hq', h1, h2⟩

/-- the `acquire` frame -/
theorem gs_resume_acquire (h : GS fr df w) (hes : EndSep w) (hsep : CondSep w) {r : Nat} (hfr : fr p = some (.acquire r))
    (hlt : p < w.procs.size) (sig : Int) (hq : sig = sigSuccess → Quiet w p)
    (hdf : ∀ d, d ≠ .resAvail r → df d ≤ df' d) (hdf0 : sig ≠ sigSuccess → ∀ d, df d ≤ df' d) :
    GH df' (resumeFrame (w.modProc p fun y => { y with blocked := none }) p (.acquire r) sig).1 := by
  simp only [Sim.resumeFrame]
  split
  · rename_i hn
    have hi : Inert w (w.modProc p fun y => { y with blocked := none }) := by have h0 := Inert.refl w; inert
    refine (h.gh.inert h.ginv.ei hi).clear (.resAvail r) ?_ hdf
    have h0 : need (w.modProc p fun y => { y with blocked := none }) (.resAvail r) = 0 := by
      rw [need_eq]; simp only; rw [hn]; rfl
    exact h0
  · rename_i x hx
    have hx' : w.res[r]? = some x := hx
    have hon : FrameOn w (.acquire r) x.guard := by simp [FrameOn, hx', resStat]
    have hL := gs_leave h hfr hon (fun c hc => by cases hc) sig hq
    have hst := stat_leave w p x.guard sig
    split
    · exact hL.acquireStep (hes.ofStat hst) (hsep.ofStat hst) (setFrame_self _ _ _) (by rw [hst.psize]; exact hlt) r hdf
    · rename_i hs
      exact hL.gh.1 |> fun hg => ⟨hg, hL.gi.mono (hdf0 hs)⟩

end CimbaModel.Sim.S3
