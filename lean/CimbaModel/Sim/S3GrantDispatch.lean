/-
  S3 — the grant invariant, part 20: `dispatch`.
-/
import CimbaModel.Sim.S3GrantRun

namespace CimbaModel.Sim.S3
open CimbaModel CimbaModel.Sim CimbaModel.Event CimbaModel.Generated CimbaModel.KPQ
open CimbaModel.HashHeap (HTag Item Order HH WF abs liveTags)

variable {S : Nat → Prop}

theorem KInv.takeNext {w : World} (hk : KInv S w) (hi : EvInv w.ev) {t : HTag} {ev' : EvQ}
    (hn : executeNext w.ev = some (t, ev')) : KInv S (takeNext w t ev') := by
  obtain ⟨hi', _, _, _, _, _, _, hpend⟩ := executeNext_inv hi hn
  have hctr : ev'.counter = w.ev.counter := by
    unfold executeNext at hn
    split at hn
    · cases hn
    · simp only [Option.some.injEq, Prod.mk.injEq] at hn
      rw [← hn.2]
  have hng : ∀ h, NGc w h → NGc (afterNext w ev') h := by
    intro h hn'
    refine ⟨by show h ≤ ev'.counter; rw [hctr]; exact hn'.1, ?_⟩
    intro e he hke
    have : e ∈ remove w.ev.pending t.key := by rw [← hpend]; exact he
    exact hn'.2 e (mem_remove.1 this).1 hke
  have hkA : KInv S (afterNext w ev') := by
    refine ⟨?_, fun v hv p => hng _ (hk.cv v hv p)⟩
    intro p f hb
    have := hk.fo p f hb
    cases f <;> first | exact this | exact hng _ this
  have hT : KRel S (afterNext w ev') (S3.takeNext w t ev') := by
    unfold S3.takeNext
    have h := KRel.refl (S := S) (afterNext w ev')
    krel
  exact hkA.ofKRel hT

/-- taking the next event: homogeneity survives; the grant invariant survives with a deficit of one at the object end of
    the guard the taken event's process awaits, if that event was a grant -/
theorem gh_takeNext {w : World} (hp : GInvB w) (hgh : GH (fun _ => 0) w) {t : HTag} {ev' : EvQ}
    (hn : executeNext w.ev = some (t, ev')) :
    HG (takeNext w t ev') ∧
    ∀ df : Demand → Nat, (∀ d g0, isG01 t → Await.guard g0 ∈ (w.proc (t.item.b - 1)).awaits → gOf w d = some g0 → 1 ≤ df d) →
      GI df (takeNext w t ev') := by
  obtain ⟨_, htm, hpend, _⟩ := executeNext_facts hp.ei hn
  have heq := takeNext_eq w t ev'
  have hproc : ∀ x, (S3.takeNext w t ev').proc x = w.proc x := takeNext_proc w t ev'
  have hgd : (S3.takeNext w t ev').guards = w.guards := by rw [heq]; rfl
  have hgo : ∀ d, gOf (S3.takeNext w t ev') d = gOf w d := fun d => by rw [heq]; exact gOf_congr rfl rfl rfl rfl rfl d
  have hnd : ∀ d, need (S3.takeNext w t ev') d = need w d := fun d => by rw [heq]; exact need_congr rfl rfl rfl rfl rfl d
  have hstay : ∀ e ∈ w.ev.pending, e.key ≠ t.key → e ∈ (S3.takeNext w t ev').ev.pending := by
    intro e he hk
    rw [heq]
    simp only [pushAll_pending]
    apply List.mem_append_right
    show e ∈ ev'.pending
    rw [hpend]; exact mem_remove.2 ⟨he, hk⟩
  refine ⟨hgh.1.ofGuards hgd hgo, ?_⟩
  intro df hdf d g hd hq
  rw [hgo] at hd
  rw [hnd]
  obtain ⟨k, hk⟩ := hq
  have hold : need w d ≤ G w g + 0 := hgh.2 d g hd ⟨k, (queued_congr hgd g k).1 hk⟩
  have hgof : ∀ e, grantOf (S3.takeNext w t ev') g e ↔ grantOf w g e := grantOf_congr (fun x => by rw [hproc]) g
  by_cases hgt : grantOf w g t
  · have : G w g ≤ G (S3.takeNext w t ev') g + 1 := by
      refine G_le_succ_of_keep_except hp.ei g t.key ?_
      intro e he hk' hgr
      exact ⟨e, hstay e he hk', rfl, (hgof e).2 hgr⟩
    have := hdf d g hgt.1 hgt.2 hd
    omega
  · have : G w g ≤ G (S3.takeNext w t ev') g := by
      refine G_le_of_keep hp.ei g ?_
      intro e he hgr
      have hk' : e.key ≠ t.key := by
        intro hk'
        have : e = t := HashHeap.eq_of_key_eq hp.ei.part.keysNodup he htm hk'
        subst this; exact hgt hgr
      exact ⟨e, hstay e he hk', rfl, (hgof e).2 hgr⟩
    omega

/-- everything that is proved to hold between two dispatches, the grant invariant included -/
structure GrantAll (S : Nat → Prop) (w : World) : Prop where
  all : AllInv w
  k : KInv S w
  es : EndSep w
  kok : KOk S w
  cv : CvOk S w
  gh : w.fault = none → GH (fun _ => 0) w

theorem not_isG01_of_act {t : HTag} {a : Nat} (h : t.item.a = a) (hne : a ≠ aRes) : ¬ isG01 t :=
  fun hg => hne (h.symm.trans hg.1)

theorem isG01_dec {t : HTag} (hc64 : t.item.c < 2 ^ 64) : isG01 t ↔ (t.item.a = aRes ∧ decSig t.item.c = sigSuccess) := by
  unfold isG01
  constructor
  · rintro ⟨h1, h2⟩; exact ⟨h1, by rw [h2]; rfl⟩
  · rintro ⟨h1, h2⟩; exact ⟨h1, (decSig_eq_zero hc64).1 h2⟩

/-- the grant invariant and homogeneity after one dispatched event (unless a fault has been recorded) -/
theorem GrantAll.gh_dispatch {w w' : World} (h : GrantAll S w) (hd : dispatch w = some w') :
    w'.fault = none → GH (fun _ => 0) w' := by
  intro hf'
  have hp := h.all.g
  have hP := h.all.p
  have hnr := h.all.nr
  have hside := h.all.side
  have hw : w.fault = none := (dispatch_clock hp.ei hd).fault hf'
  have hgh := h.gh hw
  rw [dispatch_eq] at hd
  split at hd
  · cases hd
  · rename_i t ev' hn
    simp only [Option.some.injEq] at hd
    subst hd
    have hT := hp.takeNext hn
    have hk := took_takeNext hp.ei hn
    obtain ⟨_, htm, _, _⟩ := executeNext_facts hp.ei hn
    have hstT : Stat w (S3.takeNext w t ev') := Stat.takeNext w t ev'
    have hsT : SideOk (S3.takeNext w t ev') := hside.ofStat hstT
    have hesT : EndSep (S3.takeNext w t ev') := h.es.ofStat hstT
    have hkokT : KOk S (S3.takeNext w t ev') := h.kok.ofStat hstT
    have hcvT : CvOk S (S3.takeNext w t ev') := h.cv.ofStat hstT
    have hKT : KInv S (S3.takeNext w t ev') := h.k.takeNext hp.ei hn
    have hprocT : ∀ x, (S3.takeNext w t ev').proc x = w.proc x := takeNext_proc w t ev'
    have hc64 : t.item.c < 2 ^ 64 := hp.cl t htm
    have hsig0 : decSig t.item.c = sigSuccess → t.item.c = 0 := (decSig_eq_zero hc64).1
    obtain ⟨hHGT, hGIT⟩ := gh_takeNext hp hgh hn
    have hTt : t.item.a = aTime → TInvB (removeAwait (S3.takeNext w t ev') (t.item.b - 1) (.time t.key)).1 :=
      fun ha => h.all.t.takeNext_time hn ha
    have hTo : t.item.a ≠ aTime → TInvB (S3.takeNext w t ev') := fun ha => h.all.t.takeNext_other hn ha
    generalize S3.takeNext w t ev' = wT at hT hk hsT hesT hkokT hcvT hKT hprocT hHGT hGIT hTt hTo hf'
    simp only [S3.dispatchBody] at hf' ⊢
    generalize hpdef : t.item.b - 1 = p at hf' hTt ⊢
    -- the invariant of a state derived from `wT`
    have mk : ∀ {W : World} {df : Demand → Nat}, GInvB W → TInvB W → KRel S wT W → Stat wT W → (W.fault = none → GH df W) →
        RunInv S df W := fun hg ht hkr hst hgh' =>
      ⟨hg, ht, hKT.ofKRel hkr, hsT.ofStat hst, hesT.ofStat hst, hkokT.ofStat hst, hcvT.ofStat hst, hgh'⟩
    have hzero : ∀ f : Frame, (∀ d, frameDemand f ≠ some d → (fun _ : Demand => 0) d = 0) ∧
        (∀ d, frameDemand f = some d → (fun _ : Demand => 0) d ≤ 1) ∧
        (decSig t.item.c ≠ sigSuccess → ∀ d, (fun _ : Demand => 0) d = 0) :=
      fun _ => ⟨fun _ _ => rfl, fun _ _ => Nat.zero_le _, fun _ _ => rfl⟩
    -- without a grant taken, no deficit
    have hGI0 : ¬ isG01 t → GI (fun _ => 0) wT := fun hn01 => hGIT _ (fun _ _ hg => absurd hg hn01)
    have hquietF : ∀ {W : World} {f : Frame}, Took w t W → t.item.b = p + 1 → (w.proc p).blocked = some f →
        (∀ g, ¬ FrameOn w f g) → (∀ h, f ≠ .hold h) → Quiet W p := by
      intro W f hkW hb hfr hno hnh
      refine hkW.quiet_frame hp (p := p) hfr hno ?_
      intro e he _ hea hec hbe
      have := (hp.oth e he hea hec).2 (noEx_not _)
      rw [hbe, Nat.add_sub_cancel] at this
      exact hnh e.key (Option.some.inj (hfr.symm.trans this))
    -- resuming without a deficit
    have hres0 : ∀ {W : World}, RunInv S (fun _ => 0) W →
        (∀ f, (W.proc p).blocked = some f → decSig t.item.c = sigSuccess → Quiet W p) →
        (if isRunning W p = true then Sim.resumeProc W p (decSig t.item.c) else W).fault = none →
        GH (fun _ => 0) (if isRunning W p = true then Sim.resumeProc W p (decSig t.item.c) else W) := by
      intro W hR hq hf
      split at hf <;> rename_i hrun
      · rw [if_pos hrun]; exact gs_resumeProc hR hq (fun f _ => hzero f) hf
      · rw [if_neg hrun]; exact hR.gh hf
    split at hf' <;> rename_i ha1
    · -- start
      rw [if_pos ha1]
      have hn01 : ¬ isG01 t := not_isG01_of_act ha1 (by decide)
      have hne : t.item.a ≠ aTime := by rw [ha1]; decide
      split at hf' <;> rename_i hs
      · exact (fail_fault_none hf').elim
      · rw [if_neg hs]
        have hin : (wT.proc p).awaits = [] ∧ (wT.proc p).blocked = none := by
          rw [hprocT]; rw [hprocT] at hs; exact hnr p hs
        have hW : GInvB (wT.modProc p fun y => { y with status := .running, pc := 0, blocked := none }) := by
          refine (GInv.same (w' := wT.modProc p fun y => { y with status := .running, pc := 0, blocked := none })
            hT (fun q => ?_) (fun q => ?_) rfl (by simp) rfl (fun _ _ => Iff.rfl) rfl).toB
          · rw [modProc_proc]; split
            · rename_i hq; rw [hq.1]
            · rfl
          · rw [modProc_proc]; split
            · rename_i hq; rw [hq.1]; exact hin.2.symm
            · rfl
        have hi : Inert wT (wT.modProc p fun y => { y with status := .running, pc := 0, blocked := none }) := by
          have h0 := Inert.refl wT; inert
        refine gs_runScript _ (mk hW (TInv.modProc_ctl (hTo hne) p _ (fun _ => rfl))
          (by have h := KRel.refl (S := S) wT; krel) (by have h0 := Stat.refl wT; stat)
          (fun _ => GH.inert ⟨hHGT, hGI0 hn01⟩ hT.ei hi)) ?_ hf'
        rw [modProc_proc]; split
        · rfl
        · exact hin.2
    · rw [if_neg ha1]
      split at hf' <;> rename_i ha2
      · -- timer
        rw [if_pos ha2]
        have hn01 : ¬ isG01 t := not_isG01_of_act ha2 (by decide)
        have hW : GInvB (removeAwait wT p (.time t.key)).1 := (hT.removeAwait_other p _ rfl).toB
        have hi : Inert wT (removeAwait wT p (.time t.key)).1 := (Inert.refl wT).removeAwait_fst p _ rfl
        refine gs_resumeProc (mk hW (hTt ha2) (by have h := KRel.refl (S := S) wT; krel)
          (by have h0 := Stat.refl wT; stat) (fun _ => GH.inert ⟨hHGT, hGI0 hn01⟩ hT.ei hi)) ?_ (fun f _ => hzero f) hf'
        intro f _ hs
        have hc0 := hsig0 hs
        obtain ⟨hb0, hfr⟩ := hp.oth t htm ha2 hc0
        have hb : t.item.b = p + 1 := by omega
        have hfr' := hfr (noEx_not _)
        rw [hpdef] at hfr'
        refine (hk.removeAwait p _).quiet_frame hp (p := p) hfr' (fun g h => h) ?_
        intro e he hne hea hec hbe
        have := (hp.oth e he hea hec).2 (noEx_not _)
        rw [hbe, Nat.add_sub_cancel, hfr'] at this
        exact hne (Frame.hold.inj (Option.some.inj this)).symm
      · rw [if_neg ha2]
        have hTT := hTo ha2
        have hk1 : ∀ a, isProcA a = true → isTimeA a = false := fun a h => by cases a <;> simp_all [isProcA, isTimeA]
        have hk2 : ∀ a, isEventA a = true → isTimeA a = false := fun a h => by cases a <;> simp_all [isEventA, isTimeA]
        have hk3 : ∀ a, isGuardA a = true → isTimeA a = false := fun a h => by cases a <;> simp_all [isGuardA, isTimeA]
        split at hf' <;> rename_i ha3
        · -- end of a process
          rw [if_pos ha3]
          have hn01 : ¬ isG01 t := not_isG01_of_act ha3 (by decide)
          have hi : Inert wT (removeAwaitKind wT p isProcA).1 := (Inert.refl wT).removeAwaitKind_fst p _ isProcA_not_guard
          refine hres0 (mk (hT.removeAwaitKind_other p _ isProcA_not_guard).toB (hTT.removeAwaitKind_other p isProcA hk1)
            (by have h := KRel.refl (S := S) wT; krel) (by have h0 := Stat.refl wT; stat)
            (fun _ => GH.inert ⟨hHGT, hGI0 hn01⟩ hT.ei hi)) ?_ hf'
          intro f _ _
          obtain ⟨p', q, hb, hbl, _⟩ := hP.procWake_owned htm ha3
          have hpp : p' = p := by omega
          subst hpp
          exact hquietF (hk.removeAwaitKind _ _) hb hbl (fun g h => h) (fun h hh => by cases hh)
        · rw [if_neg ha3]
          split at hf' <;> rename_i ha4
          · -- a user event
            rw [if_pos ha4]
            have hn01 : ¬ isG01 t := not_isG01_of_act ha4 (by decide)
            have hi : Inert wT (removeAwaitKind wT p isEventA).1 := (Inert.refl wT).removeAwaitKind_fst p _ isEventA_not_guard
            refine hres0 (mk (hT.removeAwaitKind_other p _ isEventA_not_guard).toB (hTT.removeAwaitKind_other p isEventA hk2)
              (by have h := KRel.refl (S := S) wT; krel) (by have h0 := Stat.refl wT; stat)
              (fun _ => GH.inert ⟨hHGT, hGI0 hn01⟩ hT.ei hi)) ?_ hf'
            intro f _ _
            obtain ⟨p', q, hb, hbl, _⟩ := hP.eventWake_owned htm ha4
            have hpp : p' = p := by omega
            subst hpp
            exact hquietF (hk.removeAwaitKind _ _) hb hbl (fun g h => h) (fun h hh => by cases hh)
          · rw [if_neg ha4]
            split at hf' <;> rename_i ha5
            · -- a grant (or a cancelled condition wait, or a preemption)
              rw [if_pos ha5]
              by_cases hg01 : isG01 t
              · obtain ⟨p', g0, f, hb', hbl, hon, haw, _, _, _⟩ := hp.grant_owned htm (Or.inl hg01)
                have hpp : p' = p := by omega
                subst hpp
                have hrun : isRunning wT p' = true := by
                  unfold isRunning
                  rw [hprocT]
                  apply decide_eq_true
                  apply Classical.byContradiction
                  intro hs
                  have := (hnr p' hs).2
                  rw [hbl] at this; cases this
                rw [if_pos hrun] at hf' ⊢
                have hGI : GI (fun d => if gOf w d = some g0 then 1 else 0) wT := by
                  refine hGIT _ ?_
                  intro d g0' _ hmem hgo
                  rw [hpdef, mem_awaits_guard, haw] at hmem
                  have : g0' = g0 := by simpa using hmem
                  subst this
                  simp [hgo]
                refine gs_resumeProc (mk hT hTT (KRel.refl wT) (Stat.refl wT) (fun _ => ⟨hHGT, hGI⟩)) ?_ ?_ hf'
                · intro f' _ _
                  exact hk.quiet_grant hp htm (Or.inl hg01) hb'
                · intro f' hbf
                  rw [hprocT, hbl] at hbf
                  cases hbf
                  refine ⟨?_, fun d _ => by split <;> omega, fun hs => absurd (by rw [hg01.2]; rfl) hs⟩
                  intro d hfd
                  rw [if_neg]
                  intro hgo
                  cases hfd' : frameDemand f with
                  | none =>
                    cases f <;> simp only [frameDemand, reduceCtorEq] at hfd' <;> first | exact hon.elim | skip
                    rename_i c
                    exact condGuard_not_obj hside.sep hon d hgo
                  | some d' =>
                    have := (frameOn_gOf hfd' g0).1 hon
                    have hdd := h.es d d' g0 hgo this
                    subst hdd
                    exact hfd hfd'
              · refine hres0 (mk hT hTT (KRel.refl wT) (Stat.refl wT) (fun _ => ⟨hHGT, hGI0 hg01⟩)) ?_ hf'
                intro f _ hs
                have hc0 := hsig0 hs
                have hnz := hp.nz t htm hc0
                rcases ha5 with h' | h'
                · exact absurd ⟨h', hc0⟩ hg01
                · exact absurd h' hnz.2.2
            · rw [if_neg ha5]
              have hn01 : ¬ isG01 t := fun hg => ha5 (Or.inl hg.1)
              have hGH0 : GH (fun _ => 0) wT := ⟨hHGT, hGI0 hn01⟩
              split at hf' <;> rename_i ha6
              · -- a condition wake-up
                rw [if_pos ha6]
                have hg : isGrant t := Or.inr ha6
                have hb0 := (hp.gr t htm hg).1
                have hb : t.item.b = p + 1 := by omega
                have hqT : Quiet wT p := hk.quiet_grant hp htm hg hb
                have hGHW : GH (fun _ => 0) (removeAwaitKind wT p isGuardA).1 := by
                  rw [removeAwaitKind_fst_eq]
                  refine ⟨hHGT.ofGuards rfl (fun d => gOf_congr rfl rfl rfl rfl rfl d), ?_⟩
                  exact hGH0.2.modAwaits hT.ei p _ (fun e he hg' => hqT.ng e he (Or.inl hg'))
                    (fun e he hg' => (hT.gr e he (Or.inl hg')).1)
                refine hres0 (mk (hT.dropGuardAwaits p hqT).toB (hTT.removeAwaitKind_other p isGuardA hk3)
                  (by have h := KRel.refl (S := S) wT; krel) (by have h0 := Stat.refl wT; stat) (fun _ => hGHW)) ?_ hf'
                intro f _ _
                exact (hk.removeAwaitKind _ _).quiet_grant hp htm hg hb
              · rw [if_neg ha6]
                split at hf' <;> rename_i ha7
                · -- an interrupt
                  rw [if_pos ha7]
                  have hGS : GS (blockedOf wT) (fun _ => 0) wT := ⟨hT, hGH0.1, hGH0.2⟩
                  have hC := hGS.cancelAwaiteds p (TInv.timersOk hTT p)
                  refine gs_resumeProc (mk hC.ginv.toB (hTT.cancelAwaiteds p)
                    (by have h := KRel.refl (S := S) wT; krel) (by have h0 := Stat.refl wT; stat) (fun _ => hC.gh)) ?_
                    (fun f _ => hzero f) hf'
                  intro f _ hs
                  exact absurd ha7 (hp.nz t htm (hsig0 hs)).1
                · rw [if_neg ha7]
                  split at hf' <;> rename_i ha8
                  · rw [if_pos ha8]
                    refine gs_resumeProc (mk hT hTT (KRel.refl wT) (Stat.refl wT) (fun _ => hGH0)) ?_ (fun f _ => hzero f) hf'
                    intro f _ hs
                    exact absurd ha8 (hp.nz t htm (hsig0 hs)).2.1
                  · rw [if_neg ha8]
                    exact hGH0

end CimbaModel.Sim.S3
