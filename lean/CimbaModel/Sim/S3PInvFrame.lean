/-
  S3 — `PInv`, part 2: the footprint tactic `pinv` and all functions of the model that neither register nor
  deregister anything (objects, guards, signals, cancellations, recording, priorities).
-/
import CimbaModel.Sim.S3PInv

namespace CimbaModel.Sim.S3
open CimbaModel CimbaModel.Sim CimbaModel.Event CimbaModel.Generated CimbaModel.KPQ
open CimbaModel.HashHeap (HTag Item Order HH WF abs liveTags)

theorem PInv.foldl {α : Type} {ex : Pid → Prop} {fr : Pid → Option Frame} {f : World → α → World}
    (hf : ∀ w a, PInv ex fr w → PInv ex fr (f w a)) : ∀ (l : List α) {w : World}, PInv ex fr w → PInv ex fr (l.foldl f w) := by
  intro l
  induction l with
  | nil => intro w h; exact h
  | cons a l ih => intro w h; exact ih (hf w a h)

syntax "pinv_step" : tactic
macro_rules | `(tactic| pinv_step) => `(tactic| dsimp only)
macro_rules | `(tactic| pinv_step) => `(tactic| (guard_world_lit; with_reducible apply PInv.setGuards))
macro_rules | `(tactic| pinv_step) => `(tactic| (guard_world_lit; with_reducible apply PInv.setGvars))
macro_rules | `(tactic| pinv_step) => `(tactic| (guard_world_lit; with_reducible apply PInv.setFlags))
macro_rules | `(tactic| pinv_step) => `(tactic| (guard_world_lit; with_reducible apply PInv.setPqs))
macro_rules | `(tactic| pinv_step) => `(tactic| (guard_world_lit; with_reducible apply PInv.setOqs))
macro_rules | `(tactic| pinv_step) => `(tactic| (guard_world_lit; with_reducible apply PInv.setBufs))
macro_rules | `(tactic| pinv_step) => `(tactic| (guard_world_lit; with_reducible apply PInv.setPools))
macro_rules | `(tactic| pinv_step) => `(tactic| (guard_world_lit; with_reducible apply PInv.setRes))
macro_rules | `(tactic| pinv_step) => `(tactic| split)
macro_rules | `(tactic| pinv_step) => `(tactic| with_reducible apply PInv.evCancel_fst)
macro_rules | `(tactic| pinv_step) => `(tactic| (with_reducible refine PInv.sched_other ?_ _ _ _ _ _ (by decide)))
macro_rules | `(tactic| pinv_step) => `(tactic| with_reducible apply PInv.setGuardQ)
macro_rules | `(tactic| pinv_step) => `(tactic| (with_reducible refine PInv.modProc_ctl ?_ _ _ (fun _ => ⟨rfl, rfl, rfl, rfl⟩)))
macro_rules | `(tactic| pinv_step) => `(tactic| with_reducible apply PInv.emit)
macro_rules | `(tactic| pinv_step) => `(tactic| with_reducible apply PInv.fail)
macro_rules | `(tactic| pinv_step) => `(tactic| with_reducible assumption)

macro "pinv" : tactic => `(tactic| repeat' pinv_step)

variable {ex : Pid → Prop} {fr : Pid → Option Frame}

theorem PInv.cancelAllFor {w : World} (h : PInv ex fr w) (p : Pid) : PInv ex fr (cancelAllFor w p) := by
  unfold Sim.cancelAllFor
  exact PInv.foldl (fun w q h => by pinv) _ h
macro_rules | `(tactic| pinv_step) => `(tactic| with_reducible apply PInv.cancelAllFor)

theorem PInv.cancelKindFor_fst {w : World} (h : PInv ex fr w) (p : Pid) (act : Nat) (sig : Option Int) :
    PInv ex fr (cancelKindFor w p act sig).1 := by
  unfold Sim.cancelKindFor
  exact PInv.foldl (fun w q h => by pinv) _ h
macro_rules | `(tactic| pinv_step) => `(tactic| with_reducible apply PInv.cancelKindFor_fst)
theorem PInv.cancelUserAll_fst {w : World} (h : PInv ex fr w) :
    PInv ex fr (cancelUserAll w).1 := by
  unfold Sim.cancelUserAll
  exact PInv.foldl (fun w q h => by pinv) _ h
macro_rules | `(tactic| pinv_step) => `(tactic| with_reducible apply PInv.cancelUserAll_fst)

theorem PInv.recordRes {w : World} (h : PInv ex fr w) (r : Nat) : PInv ex fr (recordRes w r) := by
  unfold Sim.recordRes; pinv
theorem PInv.recordPool {w : World} (h : PInv ex fr w) (r : Nat) : PInv ex fr (recordPool w r) := by
  unfold Sim.recordPool; pinv
theorem PInv.recordBuf {w : World} (h : PInv ex fr w) (r : Nat) : PInv ex fr (recordBuf w r) := by
  unfold Sim.recordBuf; pinv
theorem PInv.recordOQ {w : World} (h : PInv ex fr w) (r : Nat) : PInv ex fr (recordOQ w r) := by
  unfold Sim.recordOQ; pinv
theorem PInv.recordPQ {w : World} (h : PInv ex fr w) (r : Nat) : PInv ex fr (recordPQ w r) := by
  unfold Sim.recordPQ; pinv
macro_rules | `(tactic| pinv_step) => `(tactic| with_reducible apply PInv.recordRes)
macro_rules | `(tactic| pinv_step) => `(tactic| with_reducible apply PInv.recordPool)
macro_rules | `(tactic| pinv_step) => `(tactic| with_reducible apply PInv.recordBuf)
macro_rules | `(tactic| pinv_step) => `(tactic| with_reducible apply PInv.recordOQ)
macro_rules | `(tactic| pinv_step) => `(tactic| with_reducible apply PInv.recordPQ)

theorem PInv.guardRemove_fst {w : World} (h : PInv ex fr w) (g : Nat) (p : Pid) : PInv ex fr (guardRemove w g p).1 := by
  unfold Sim.guardRemove; pinv
macro_rules | `(tactic| pinv_step) => `(tactic| with_reducible apply PInv.guardRemove_fst)

theorem PInv.frontStep {w : World} (h : PInv ex fr w) (g : Nat) (gd : Guard) : PInv ex fr (frontStep w g gd) := by
  unfold S3.frontStep; pinv

theorem PInv.condSignal_fst {w : World} (h : PInv ex fr w) (g : Nat) : PInv ex fr (condSignal w g).1 := by
  simp only [Sim.condSignal]
  split
  · exact h
  · split
    · exact h
    · refine PInv.foldl (fun w q h => by pinv) _ ?_
      exact PInv.foldl (fun w q h => by pinv) _ h
macro_rules | `(tactic| pinv_step) => `(tactic| with_reducible apply PInv.condSignal_fst)

theorem PInv.ownStep {w : World} (h : PInv ex fr w) (fwd : Bool) (g : Nat) (gd : Guard) : PInv ex fr (ownStep fwd w g gd) := by
  unfold S3.ownStep
  split
  · exact h.condSignal_fst g
  · exact h.frontStep g gd

theorem PInv.guardSignalF : ∀ (fuel : Nat) (fwd : Bool) {w : World}, PInv ex fr w → ∀ g, PInv ex fr (guardSignalF fwd fuel w g) := by
  intro fuel
  induction fuel with
  | zero => intro fwd w h g; rw [guardSignalF_zero]; exact h.fail _
  | succ fuel ih =>
    intro fwd w h g
    rw [guardSignalF_succ]
    split
    · exact h
    · exact PInv.foldl (fun w o hw => ih true hw o) _ (h.ownStep fwd g _)

theorem PInv.guardSignal (fuel : Nat) {w : World} (h : PInv ex fr w) (g : Nat) : PInv ex fr (guardSignal fuel w g) :=
  PInv.guardSignalF fuel false h g

theorem PInv.signal {w : World} (h : PInv ex fr w) (g : Nat) : PInv ex fr (signal w g) := PInv.guardSignal 8 h g
macro_rules | `(tactic| pinv_step) => `(tactic| with_reducible apply PInv.signal)

theorem PInv.guardWithdraw {w : World} (h : PInv ex fr w) (g : Nat) (p : Pid) : PInv ex fr (guardWithdraw w g p) := by
  simp only [Sim.guardWithdraw]; pinv
macro_rules | `(tactic| pinv_step) => `(tactic| with_reducible apply PInv.guardWithdraw)

theorem PInv.removeHeld_fst {w : World} (h : PInv ex fr w) (p : Pid) (x : HoldRef) : PInv ex fr (removeHeld w p x).1 := by
  simp only [Sim.removeHeld]; pinv
macro_rules | `(tactic| pinv_step) => `(tactic| with_reducible apply PInv.removeHeld_fst)

theorem PInv.poolDropHolder {w : World} (h : PInv ex fr w) (pl : Nat) (p : Pid) : PInv ex fr (poolDropHolder w pl p) := by
  unfold Sim.poolDropHolder; pinv
macro_rules | `(tactic| pinv_step) => `(tactic| with_reducible apply PInv.poolDropHolder)

theorem PInv.dropResources {w : World} (h : PInv ex fr w) (p : Pid) : PInv ex fr (dropResources w p) := by
  unfold Sim.dropResources
  exact PInv.foldl (fun w q h => by pinv) _ (by pinv)
macro_rules | `(tactic| pinv_step) => `(tactic| with_reducible apply PInv.dropResources)

theorem PInv.grab {w : World} (h : PInv ex fr w) (r : Nat) (p : Pid) : PInv ex fr (grab w r p) := by
  unfold Sim.grab; pinv
macro_rules | `(tactic| pinv_step) => `(tactic| with_reducible apply PInv.grab)

theorem PInv.poolUpdateRecord {w : World} (h : PInv ex fr w) (pl : Nat) (p : Pid) (a : Nat) :
    PInv ex fr (poolUpdateRecord w pl p a) := by
  unfold Sim.poolUpdateRecord; pinv
macro_rules | `(tactic| pinv_step) => `(tactic| with_reducible apply PInv.poolUpdateRecord)

theorem PInv.setPoolInUse {w : World} (h : PInv ex fr w) (pl v : Nat) : PInv ex fr (setPoolInUse w pl v) := by
  unfold Sim.setPoolInUse; pinv
macro_rules | `(tactic| pinv_step) => `(tactic| with_reducible apply PInv.setPoolInUse)

theorem PInv.setHeldAmount {w : World} (h : PInv ex fr w) (pl : Nat) (p : Pid) (a : Nat) : PInv ex fr (setHeldAmount w pl p a) := by
  unfold Sim.setHeldAmount; pinv
macro_rules | `(tactic| pinv_step) => `(tactic| with_reducible apply PInv.setHeldAmount)

theorem PInv.setVar {w : World} (h : PInv ex fr w) (p : Pid) (v x : Nat) : PInv ex fr (setVar w p v x) := by
  unfold Sim.setVar; pinv
macro_rules | `(tactic| pinv_step) => `(tactic| with_reducible apply PInv.setVar)

theorem PInv.poolMug_fst : ∀ (fuel : Nat) {w : World}, PInv ex fr w → ∀ p pl rem, PInv ex fr (poolMug fuel w p pl rem).1 := by
  intro fuel
  induction fuel with
  | zero => intro w h p pl rem; exact h
  | succ fuel ih =>
    intro w h p pl rem
    simp only [Sim.poolMug]
    repeat' first | (with_reducible apply ih) | pinv_step

theorem PInv.poolRollback {w : World} (h : PInv ex fr w) (p : Pid) (pl ini : Nat) : PInv ex fr (poolRollback w p pl ini) := by
  simp only [Sim.poolRollback]; pinv
macro_rules | `(tactic| pinv_step) => `(tactic| with_reducible apply PInv.poolRollback)


theorem PInv.setRecording {w : World} (h : PInv ex fr w) (kind idx : Nat) (on : Bool) : PInv ex fr (setRecording w kind idx on) := by
  simp only [Sim.setRecording]; pinv
macro_rules | `(tactic| pinv_step) => `(tactic| with_reducible apply PInv.setRecording)

theorem PInv.reprioGuard {w : World} (h : PInv ex fr w) (q : Pid) (v : Int) (g : Nat) : PInv ex fr (reprioGuard w q v g) := by
  unfold S3.reprioGuard; pinv

theorem PInv.prioAwaitStep {w : World} (h : PInv ex fr w) (q : Pid) (v : Int) (a : Await) : PInv ex fr (prioAwaitStep q v w a) := by
  unfold S3.prioAwaitStep
  split
  · split
    · rename_i hr; exact h.reprioEv hr
    · exact h.fail _
  · exact h.reprioGuard q v _
  · exact h

theorem PInv.prioHeldStep {w : World} (h : PInv ex fr w) (q : Pid) (v : Int) (x : HoldRef) : PInv ex fr (prioHeldStep q v w x) := by
  unfold S3.prioHeldStep; pinv

end CimbaModel.Sim.S3
