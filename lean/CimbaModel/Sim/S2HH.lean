/-
  S2 — hashheap facts used by the pool and priority-queue invariants, on top of the C02 refinement:
  inversion of a successful `enqueue`, in-place update of a payload, sums over the abstraction.
-/
import CimbaModel.HashHeap.RefineAuto
import CimbaModel.HashHeap.Orders

namespace CimbaModel.HashHeap
open CimbaModel CimbaModel.KPQ

variable {lt : Order}

/-! ### enqueue: whatever it returns when it succeeds is the refinement's answer -/

theorem enqueue_error_of_no_room {s : HH} (h : WF lt s) (hno : ¬ (s.count < 2 ^ s.exp ∨ s.exp < 31))
    (it : Item) (k : Nat) (d i : Int) : ∃ f, enqueue lt s it k d i = .error f := by
  have hc := h.countLe
  have he := h.expLe
  have hexp : s.exp = 31 := by omega
  have hfull : s.count = 2 ^ s.exp := by omega
  rw [enqueue_eq, if_neg (by omega), if_pos hfull]
  unfold grow
  have : growBound ≤ 2 ^ s.exp := by rw [hexp]; decide
  simp only [this, if_true]
  exact ⟨_, rfl⟩

theorem enqueue_ok_inv [StrictWeak lt] [IgnoresHidx lt] {s s' : HH} (h : WF lt s) (it : Item) (k : Nat) (d i : Int) {k' : Nat}
    (hk0 : (if k = 0 then s.counter + 1 else k) ≠ 0) (hk64 : (if k = 0 then s.counter + 1 else k) < 2 ^ 64)
    (hfresh : (if k = 0 then s.counter + 1 else k) ∉ keys (abs s))
    (hrun : enqueue lt s it k d i = .ok (s', k')) :
    k' = (if k = 0 then s.counter + 1 else k) ∧ WF lt s' ∧
      (abs s').Perm (KPQ.insert (abs s) ⟨k', 0, it, d, i⟩) ∧
      s'.counter = s.counter + 1 ∧ s'.count = s.count + 1 := by
  by_cases hroom : s.count < 2 ^ s.exp ∨ s.exp < 31
  · obtain ⟨s2, hrun2, hwf, hperm, hct, _, _, hc⟩ := enqueue_abs h it k d i hk0 hk64 hfresh hroom
    rw [hrun2] at hrun
    injection hrun with hrun
    injection hrun with h1 h2
    subst h1; subst h2
    exact ⟨rfl, hwf, hperm, hct, hc⟩
  · obtain ⟨f, hf⟩ := enqueue_error_of_no_room h hroom it k d i
    rw [hf] at hrun; cases hrun

/-! ### raw facts read off the code (no well-formedness needed) -/

theorem remove_false_eq {s s' : HH} {k : Nat} (h : remove lt s k = .ok (s', false)) : s' = s := by
  unfold remove at h
  simp only [bind, Except.bind] at h
  repeat' (first | (split at h) | (cases h; done) | (cases h; rfl))

theorem heapDown_count {s s' : HH} {k : Nat} (h : heapDown lt s k = .ok s') : s'.count = s.count := by
  unfold heapDown at h
  simp only [bind, Except.bind] at h
  repeat' (first | (split at h) | (cases h; done) | (cases h; rfl))

theorem heapUp_count {s s' : HH} {k : Nat} (h : heapUp lt s k = .ok s') : s'.count = s.count := by
  unfold heapUp at h
  simp only [bind, Except.bind] at h
  repeat' (first | (split at h) | (cases h; done) | (cases h; rfl))

theorem reprioritize_count {s s' : HH} {k : Nat} {d i : Int} (h : reprioritize lt s k d i = .ok s') : s'.count = s.count := by
  unfold reprioritize at h
  simp only [bind, Except.bind] at h
  repeat' (first | (split at h) | (cases h; done))
  · have := heapDown_count h; exact this
  · have := heapUp_count h; exact this

/-! ### lists of tags -/

/-- total of the second payload word (the amount held, for a pool's holder list) -/
def amounts (q : KPQ) : Nat := (q.map (·.item.b)).sum

theorem keys_perm_of_perm {q q' : KPQ} (h : q.Perm q') : (keys q).Perm (keys q') := h.map _

theorem amounts_perm {q q' : KPQ} (h : q.Perm q') : amounts q = amounts q' := (h.map _).sum_nat

@[simp] theorem amounts_nil : amounts [] = 0 := rfl
@[simp] theorem amounts_cons (x : HTag) (q : KPQ) : amounts (x :: q) = x.item.b + amounts q := by
  simp [amounts]

/-- amount recorded under key `k` (0 if absent) -/
def amountOf (q : KPQ) (k : Nat) : Nat := ((KPQ.lookup q k).map (·.item.b)).getD 0

theorem perm_cons_remove : ∀ {q : KPQ}, (keys q).Nodup → ∀ {x : HTag}, x ∈ q → q.Perm (x :: KPQ.remove q x.key) := by
  intro q
  induction q with
  | nil => intro _ x hx; cases hx
  | cons y ys ih =>
    intro hnd x hx
    simp only [keys, List.map_cons, List.nodup_cons] at hnd
    by_cases hxy : x = y
    · subst hxy
      have : KPQ.remove (x :: ys) x.key = ys := by
        simp only [KPQ.remove, List.filter_cons, ne_eq, not_true_eq_false, decide_false, Bool.false_eq_true, if_false]
        apply List.filter_eq_self.2
        intro e he
        have : e.key ≠ x.key := fun hk => hnd.1 (List.mem_map.2 ⟨e, he, hk⟩)
        simpa using this
      rw [this]
    · have hxs : x ∈ ys := by
        rcases List.mem_cons.1 hx with h | h
        · exact absurd h hxy
        · exact h
      have hk : y.key ≠ x.key := fun hk => hnd.1 (List.mem_map.2 ⟨x, hxs, hk.symm⟩)
      have : KPQ.remove (y :: ys) x.key = y :: KPQ.remove ys x.key := by
        simp [KPQ.remove, List.filter_cons, hk]
      rw [this]
      exact (List.Perm.cons y (ih hnd.2 hxs)).trans (List.Perm.swap _ _ _)

theorem amountOf_of_mem {q : KPQ} (hnd : (keys q).Nodup) {x : HTag} (hx : x ∈ q) : amountOf q x.key = x.item.b := by
  unfold amountOf
  rw [(lookup_eq_some_iff hnd x.key x).2 ⟨hx, rfl⟩]
  rfl

theorem amountOf_of_not_mem {q : KPQ} {k : Nat} (hk : k ∉ keys q) : amountOf q k = 0 := by
  unfold amountOf
  rw [(lookup_eq_none_iff q k).2 hk]
  rfl

theorem remove_of_not_mem {q : KPQ} {k : Nat} (hk : k ∉ keys q) : KPQ.remove q k = q := by
  unfold KPQ.remove
  apply List.filter_eq_self.2
  intro e he
  have : e.key ≠ k := fun h => hk (List.mem_map.2 ⟨e, he, h⟩)
  simpa using this

/-- removing a key lowers the total by exactly the amount recorded under it -/
theorem amounts_remove {q : KPQ} (hnd : (keys q).Nodup) (k : Nat) :
    amounts (KPQ.remove q k) + amountOf q k = amounts q := by
  by_cases hk : k ∈ keys q
  · obtain ⟨x, hx, rfl⟩ := List.mem_map.1 hk
    rw [amountOf_of_mem hnd hx, amounts_perm (perm_cons_remove hnd hx), amounts_cons]
    omega
  · rw [amountOf_of_not_mem hk, remove_of_not_mem hk]; rfl

theorem keys_remove (q : KPQ) (k j : Nat) : j ∈ keys (KPQ.remove q k) ↔ j ∈ keys q ∧ j ≠ k := by
  unfold keys KPQ.remove
  simp only [List.mem_map, List.mem_filter]
  constructor
  · rintro ⟨x, ⟨hx, hne⟩, rfl⟩
    exact ⟨⟨x, hx, rfl⟩, by simpa using hne⟩
  · rintro ⟨⟨x, hx, rfl⟩, hne⟩
    exact ⟨x, ⟨hx, by simpa using hne⟩, rfl⟩

theorem keys_reprio (q : KPQ) (k : Nat) (d i : Int) : keys (KPQ.reprio q k d i) = keys q := by
  unfold keys KPQ.reprio
  rw [List.map_map]
  apply List.map_congr_left
  intro x _
  simp only [Function.comp]
  split <;> rfl

theorem amounts_reprio (q : KPQ) (k : Nat) (d i : Int) : amounts (KPQ.reprio q k d i) = amounts q := by
  unfold amounts KPQ.reprio
  rw [List.map_map]
  congr 1
  apply List.map_congr_left
  intro x _
  simp only [Function.comp]
  split <;> rfl

/-! ### in-place update of the payload of a live entry (`heap[i].item[1] = …`) -/

/-- the comparison does not look at the payload words -/
class IgnoresItem (lt : Order) : Prop where
  eq : ∀ (a b : HTag) (x y : Item), lt { a with item := x } { b with item := y } = lt a b

/-- the state after overwriting the payload of heap slot `i` -/
def withItem (s : HH) (i : Nat) (it : Item) : HH :=
  { s with heap := s.heap.set! i { s.heap.getD i {} with item := it } }

theorem tag_withItem (s : HH) (i : Nat) (it : Item) (hi : i < s.heap.size) (j : Nat) :
    (withItem s i it).tag j = if j = i then { s.tag i with item := it } else s.tag j := by
  unfold withItem HH.tag
  simp only [Array.getD_eq_getD_getElem?, Array.set!_eq_setIfInBounds, Array.getElem?_setIfInBounds]
  by_cases hj : j = i
  · subst hj; simp [hi]
  · have : ¬ i = j := fun h => hj h.symm
    simp [hj, this]

theorem wf_withItem [ii : IgnoresItem lt] {s : HH} (h : WF lt s) {i : Nat} (hi : InR s.count i) (it : Item) :
    WF lt (withItem s i it) ∧
    (abs (withItem s i it)).Perm (norm { s.tag i with item := it } :: KPQ.remove (abs s) (s.tag i).key) ∧
    (abs s).Perm (norm (s.tag i) :: KPQ.remove (abs s) (s.tag i).key) := by
  have hsz : i < s.heap.size := by
    have := h.heapSize; have := h.countLe; have := hi.2; omega
  have hT := tag_withItem s i it hsz
  have hwf : WF lt (withItem s i it) := by
    rw [WF_iff] at h ⊢
    obtain ⟨h1, h2, h3, h4, h5, h6, h7, w, ho⟩ := h
    refine ⟨h1, h2, h3, h4, ?_, h6, h7, ?_, ?_⟩
    · show (s.heap.set! i _).size = _
      rw [Array.set!_eq_setIfInBounds, Array.size_setIfInBounds]; exact h5
    · refine w.congr (fun _ => Iff.rfl) ?_ (fun _ _ => rfl)
      intro j _
      rw [hT]; split
      · rename_i hj; subst hj; exact ⟨rfl, rfl⟩
      · exact ⟨rfl, rfl⟩
    · intro j hj2 hjc
      rw [hT, hT]
      have := ho j hj2 hjc
      split <;> split
      · rename_i a b; exfalso; omega
      · rename_i a b; subst a
        have e := ii.eq (s.tag j) (s.tag (j / 2)) it (s.tag (j / 2)).item
        rw [← this, ← e]
      · rename_i a b
        have e := ii.eq (s.tag j) (s.tag (j / 2)) (s.tag j).item it
        rw [← this, ← e, b]
      · exact this
  have hmem : norm (s.tag i) ∈ abs s := (mem_abs s _).2 ⟨i, hi, rfl⟩
  have hp1 := perm_cons_remove h.keys_nodup hmem
  refine ⟨hwf, ?_, hp1⟩
  -- both sides are duplicate-free: compare membership
  have hnd2 : (norm { s.tag i with item := it } :: KPQ.remove (abs s) (s.tag i).key).Nodup := by
    rw [List.nodup_cons]
    refine ⟨?_, nodup_filter _ h.abs_nodup⟩
    intro hm
    have hk : (norm { s.tag i with item := it }).key ∈ keys (KPQ.remove (abs s) (s.tag i).key) :=
      List.mem_map.2 ⟨_, hm, rfl⟩
    rw [keys_remove] at hk
    exact hk.2 rfl
  rw [List.perm_ext_iff_of_nodup hwf.abs_nodup hnd2]
  intro x
  rw [List.mem_cons, mem_abs]
  have hcount : (withItem s i it).count = s.count := rfl
  rw [hcount]
  constructor
  · rintro ⟨j, hj, rfl⟩
    rw [hT]
    by_cases hji : j = i
    · left; rw [if_pos hji]
    · right; rw [if_neg hji]
      unfold KPQ.remove
      rw [List.mem_filter]
      refine ⟨(mem_abs s _).2 ⟨j, hj, rfl⟩, ?_⟩
      have : (s.tag j).key ≠ (s.tag i).key := fun he => hji (h.key_inj hj hi he)
      exact decide_eq_true this
  · rintro (rfl | hx)
    · exact ⟨i, hi, by rw [hT, if_pos rfl]⟩
    · unfold KPQ.remove at hx
      rw [List.mem_filter] at hx
      obtain ⟨j, hj, rfl⟩ := (mem_abs s _).1 hx.1
      have hne : (s.tag j).key ≠ (s.tag i).key := of_decide_eq_true hx.2
      have hji : j ≠ i := fun he => hne (by rw [he])
      exact ⟨j, hj, by rw [hT, if_neg hji]⟩

end CimbaModel.HashHeap

namespace CimbaModel.HashHeap.Orders
open CimbaModel CimbaModel.HashHeap CimbaModel.Generated CimbaModel.HashHeap.SpecOrders

instance : IgnoresItem holder_queue_check :=
  ⟨fun a b x y => by rw [Bool.eq_iff_iff, holder_queue_check_iff, holder_queue_check_iff]; exact Iff.rfl⟩

end CimbaModel.HashHeap.Orders
