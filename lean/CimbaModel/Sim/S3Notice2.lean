/-
  S3 — cancellation notices, part 2: the run loop, resumption, `dispatch`, reachable states.
-/
import CimbaModel.Sim.S3Notice

namespace CimbaModel.Sim.S3
open CimbaModel CimbaModel.Sim CimbaModel.Event CimbaModel.Generated CimbaModel.KPQ
open CimbaModel.HashHeap (HTag Item Order HH WF abs liveTags)

theorem NI.advance {w : World} (h : NI w) (p : Pid) (l : String) (pc' : Nat) :
    NI ((w.emit l).modProc p fun y => { y with pc := pc' }) :=
  (h.emit l).modProc p _ (fun _ => Or.inl rfl)

theorem NI.runScript : ∀ (fuel : Nat) {w : World} {p : Pid}, NI w → GInvB w → SideOk w → NRw p w →
    (w.proc p).blocked = none → NI (runScript fuel w p) := by
  intro fuel
  induction fuel with
  | zero => intro w p h _ _ _ _; exact h.fail _
  | succ fuel ih =>
    intro w p h hg hside hnr hb
    simp only [Sim.runScript]
    split
    · exact NI.finishProc (h.emit _) (GInv.emit hg _) p 0 false
    · rename_i c text hs
      have hlt : p < w.procs.size := by
        rcases Nat.lt_or_ge p w.procs.size with h' | h'
        · exact h'
        · rw [script_none_of_oob h'] at hs; cases hs
      have hok : CmdOk c := hside.ok p _ c text hs
      have hg0 : GInv noEx (blockedOf w) (w.emit s!"c {p} {(w.proc p).pc} {w.now} {text}") := GInv.emit hg _
      have hnr0 : NRw p (w.emit s!"c {p} {(w.proc p).pc} {w.now} {text}") := hnr.ofPF ((PF.refl w).emit _)
      have hN := NI.execCmd_fst (h.emit s!"c {p} {(w.proc p).pc} {w.now} {text}") hg0 hnr0.nr p c
      obtain ⟨fr', hx⟩ := hg0.execCmd_ex (p := p) hb hlt hside.sep c hok
      have hk := ContKeep.execCmd (w.emit s!"c {p} {(w.proc p).pc} {w.now} {text}") p c
      have hr := NRr.execCmd hnr0 c
      have hst : Stat w (execCmd (w.emit s!"c {p} {(w.proc p).pc} {w.now} {text}") p c).1 := by
        have h0 := Stat.refl w; stat
      rcases hres : execCmd (w.emit s!"c {p} {(w.proc p).pc} {w.now} {text}") p c with ⟨w1, out⟩
      rw [hres] at hN hx hk hr hst
      have hx' : GInvB w1 := hx.toB
      cases out with
      | ret v extra =>
        have hkp : KeepP p (w.emit s!"c {p} {(w.proc p).pc} {w.now} {text}") w1 := hk rfl
        have hnr1 : NRw p w1 := ⟨hr.1, hr.2 (by intro hc; cases hc)⟩
        dsimp only
        obtain ⟨a1, _, _⟩ := advance_proc w1 p
          (s!"r {p} {(w.proc p).pc} {w1.now} {v}" ++ (if extra = "" then "" else " " ++ extra)) ((w.proc p).pc + 1)
        refine ih (hN.advance p _ _) (hx'.advance p _ _) (hside.ofStat ?_) ((hnr1.ofPF ((PF.refl w1).emit _)).pc _)
          (a1.trans (hkp.1.trans hb))
        stat
      | skip =>
        have hkp : KeepP p (w.emit s!"c {p} {(w.proc p).pc} {w.now} {text}") w1 := hk rfl
        have hnr1 : NRw p w1 := ⟨hr.1, hr.2 (by intro hc; cases hc)⟩
        dsimp only
        obtain ⟨a1, _, _⟩ := advance_proc w1 p s!"s {p} {(w.proc p).pc} {w1.now}" ((w.proc p).pc + 1)
        refine ih (hN.advance p _ _) (hx'.advance p _ _) (hside.ofStat ?_) ((hnr1.ofPF ((PF.refl w1).emit _)).pc _)
          (a1.trans (hkp.1.trans hb))
        stat
      | blocked => exact hN
      | ended =>
        dsimp only
        split <;> exact hN.emit _

theorem NI.resumeProc {w : World} (h : NI w) (hg : GInvB w) (hside : SideOk w) (hnr : NRInv w) (p : Pid) (sig : Int)
    (hq : ∀ f, (w.proc p).blocked = some f → sig = sigSuccess → Quiet w p) : NI (resumeProc w p sig) := by
  simp only [Sim.resumeProc]
  split
  · exact h.fail _
  · rename_i hrun
    have hrun' : (w.proc p).status = .running := Classical.not_not.1 hrun
    split
    · exact h.fail _
    · rename_i f hbf
      have hfr : blockedOf w p = some f := hbf
      have hlt : p < w.procs.size := by
        rcases Nat.lt_or_ge p w.procs.size with h' | h'
        · exact h'
        · have : (w.proc p).blocked = none := by rw [proc_oob w h']
          rw [this] at hbf; cases hbf
      have hN := NI.resumeFrame_fst (h.modProc p (fun y => { y with blocked := none }) (fun _ => Or.inl rfl)) p f sig
      obtain ⟨fr', hx⟩ := GInv.resume_ex hg hfr hlt hside.sep sig (hq f hbf)
      have hk := ContKeep.resumeFrame (w.modProc p fun y => { y with blocked := none }) p f sig
      have h0 : NRw p (w.modProc p fun y => { y with blocked := none }) :=
        (NRw.mk hnr hrun').modProc p _ (fun _ => ⟨rfl, rfl, Or.inr rfl⟩)
      have hr := NRr.resumeFrame h0 f sig
      have hst : Stat w (resumeFrame (w.modProc p fun y => { y with blocked := none }) p f sig).1 := by
        have h0 := Stat.refl w; stat
      rcases hres : resumeFrame (w.modProc p fun y => { y with blocked := none }) p f sig with ⟨w1, out⟩
      rw [hres] at hN hx hk hr hst
      have hx' : GInvB w1 := hx.toB
      cases out with
      | ret v extra =>
        have hkp : KeepP p (w.modProc p fun y => { y with blocked := none }) w1 := hk rfl
        have hnr1 : NRw p w1 := ⟨hr.1, hr.2 (by intro hc; cases hc)⟩
        dsimp only
        obtain ⟨a1, _, _⟩ := advance_proc w1 p
          (s!"r {p} {(w.proc p).pc} {w1.now} {v}" ++ (if extra = "" then "" else " " ++ extra)) ((w.proc p).pc + 1)
        refine NI.runScript _ (hN.advance p _ _) (hx'.advance p _ _) (hside.ofStat ?_)
          ((hnr1.ofPF ((PF.refl w1).emit _)).pc _) (a1.trans (hkp.1.trans ?_))
        · stat
        · rw [modProc_proc_self w _ hlt]
      | skip => exact hN
      | blocked => exact hN
      | ended => exact hN

theorem NI.takeNext {w : World} (h : NI w) (hi : EvInv w.ev) {t : HTag} {ev' : EvQ} (hn : executeNext w.ev = some (t, ev')) :
    NI (takeNext w t ev') := by
  obtain ⟨_, _, hpend, _⟩ := executeNext_facts hi hn
  refine h.step (fun x => by rw [takeNext_proc]) ?_
  intro e he hno
  rw [takeNext_eq] at he
  simp only [pushAll_pending, List.mem_append] at he
  rcases he with he | he
  · obtain ⟨_, _, _, _, x, hx, heq⟩ := wakeEvs_props he
    simp only [evWakes, List.mem_map] at hx
    obtain ⟨q, _, rfl⟩ := hx
    rw [heq] at hno; exact absurd hno.1 (by show aEvent ≠ aRes; decide)
  · have : e ∈ remove w.ev.pending t.key := by rw [← hpend]; exact he
    exact ⟨e, (mem_remove.1 this).1, rfl⟩

/-- every pending cancellation notice is addressed to a running process: preserved by `dispatch` -/
theorem NI.dispatch {w w' : World} (h : NI w) (hA : AllInv w) (hd : dispatch w = some w') : NI w' := by
  have hp := hA.g
  have hP := hA.p
  have hnr := hA.nr
  have hside := hA.side
  rw [dispatch_eq] at hd
  split at hd
  · cases hd
  · rename_i t ev' hn
    simp only [Option.some.injEq] at hd
    subst hd
    have hT := hp.takeNext hn
    have hNT := h.takeNext hp.ei hn
    have hk := took_takeNext hp.ei hn
    obtain ⟨_, htm, _, _⟩ := executeNext_facts hp.ei hn
    have hsT : SideOk (S3.takeNext w t ev') := hside.ofStat (Stat.takeNext w t ev')
    have hprocT : ∀ x, (S3.takeNext w t ev').proc x = w.proc x := takeNext_proc w t ev'
    have hnrT : NRInv (S3.takeNext w t ev') := fun x hx => by rw [hprocT] at hx ⊢; exact hnr x hx
    have hc64 : t.item.c < 2 ^ 64 := hp.cl t htm
    have hsig0 : decSig t.item.c = sigSuccess → t.item.c = 0 := (decSig_eq_zero hc64).1
    generalize S3.takeNext w t ev' = wT at hT hNT hk hsT hprocT hnrT
    simp only [S3.dispatchBody]
    generalize hpdef : t.item.b - 1 = p
    have hres : ∀ {W : World}, NI W → GInvB W → SideOk W → NRInv W →
        (∀ f, (W.proc p).blocked = some f → decSig t.item.c = sigSuccess → Quiet W p) →
        NI (if isRunning W p = true then Sim.resumeProc W p (decSig t.item.c) else W) := by
      intro W h0 h1 h2 h3 h4; split
      · exact h0.resumeProc h1 h2 h3 p _ h4
      · exact h0
    have hquietF : ∀ {W : World} {f : Frame}, Took w t W → t.item.b = p + 1 → (w.proc p).blocked = some f →
        (∀ g, ¬ FrameOn w f g) → (∀ h, f ≠ .hold h) → Quiet W p := by
      intro W f hkW hb hfr hno hnh
      refine hkW.quiet_frame hp (p := p) hfr hno ?_
      intro e he _ hea hec hbe
      have := (hp.oth e he hea hec).2 (noEx_not _)
      rw [hbe, Nat.add_sub_cancel] at this
      exact hnh e.key (Option.some.inj (hfr.symm.trans this))
    split
    · split
      · exact hNT.fail _
      · rename_i hs
        have hin : (wT.proc p).awaits = [] ∧ (wT.proc p).blocked = none := by
          rw [hprocT]; rw [hprocT] at hs; exact hnr p hs
        have hW : GInvB (wT.modProc p fun y => { y with status := .running, pc := 0, blocked := none }) := by
          refine (GInv.same (w' := wT.modProc p fun y => { y with status := .running, pc := 0, blocked := none })
            hT (fun q => ?_) (fun q => ?_) rfl (by simp) rfl (fun _ _ => Iff.rfl) rfl).toB
          · rw [modProc_proc]; split
            · rename_i hq; rw [hq.1]
            · rfl
          · rw [modProc_proc]; split
            · rename_i hq; rw [hq.1]; exact hin.2.symm
            · rfl
        have hNW : NI (wT.modProc p fun y => { y with status := .running, pc := 0, blocked := none }) :=
          hNT.modProc p _ (fun _ => Or.inr rfl)
        have hnrW : NRInv (wT.modProc p fun y => { y with status := .running, pc := 0, blocked := none }) := by
          intro x hx
          rw [modProc_proc] at hx ⊢
          split
          · rename_i hq; rw [if_pos hq] at hx; exact absurd rfl hx
          · rename_i hq; rw [if_neg hq] at hx; exact hnrT x hx
        by_cases hlt : p < wT.procs.size
        · refine NI.runScript _ hNW hW (hsT.ofStat (by have h0 := Stat.refl wT; stat)) ⟨hnrW, ?_⟩ ?_
          · rw [modProc_proc, if_pos ⟨rfl, hlt⟩]
          · rw [modProc_proc]; split
            · rfl
            · exact hin.2
        · -- starting a process that does not exist: it ends at once
          have hge : (wT.modProc p fun y => { y with status := .running, pc := 0, blocked := none }).procs.size ≤ p := by
            simp only [modProc_procs_size]; exact Nat.le_of_not_lt hlt
          have hpr := proc_oob _ hge
          generalize (wT.modProc p fun y => { y with status := .running, pc := 0, blocked := none }) = W at hW hNW hpr
          rw [hpr]
          show NI (Sim.runScript (0 + 2) W p)
          simp only [Sim.runScript]
          have : (W.proc p).script[(W.proc p).pc]? = none := by rw [hpr]; rfl
          rw [this]
          exact NI.finishProc (hNW.emit _) (GInv.emit hW _) p 0 false
    · split
      · rename_i ha
        have hW : GInvB (removeAwait wT p (.time t.key)).1 := (hT.removeAwait_other p _ rfl).toB
        refine (hNT.removeAwait_fst p _).resumeProc hW (hsT.ofStat (by have h0 := Stat.refl wT; stat))
          (hnrT.removeAwait_fst p _) p _ ?_
        intro f _ hs
        have hc0 := hsig0 hs
        obtain ⟨hb0, hfr⟩ := hp.oth t htm ha hc0
        have hb : t.item.b = p + 1 := by omega
        have hfr' := hfr (noEx_not _)
        rw [hpdef] at hfr'
        refine (hk.removeAwait p _).quiet_frame hp (p := p) hfr' (fun g h => h) ?_
        intro e he hne hea hec hbe
        have := (hp.oth e he hea hec).2 (noEx_not _)
        rw [hbe, Nat.add_sub_cancel, hfr'] at this
        exact hne (Frame.hold.inj (Option.some.inj this)).symm
      · split
        · rename_i ha
          refine hres (hNT.removeAwaitKind_fst p _) (hT.removeAwaitKind_other p _ isProcA_not_guard).toB
            (hsT.ofStat (by have h0 := Stat.refl wT; stat)) (hnrT.removeAwaitKind_fst p _) ?_
          intro f _ _
          obtain ⟨p', q, hb, hbl, _⟩ := hP.procWake_owned htm ha
          have hpp : p' = p := by omega
          subst hpp
          exact hquietF (hk.removeAwaitKind _ _) hb hbl (fun g h => h) (fun h hh => by cases hh)
        · split
          · rename_i ha
            refine hres (hNT.removeAwaitKind_fst p _) (hT.removeAwaitKind_other p _ isEventA_not_guard).toB
              (hsT.ofStat (by have h0 := Stat.refl wT; stat)) (hnrT.removeAwaitKind_fst p _) ?_
            intro f _ _
            obtain ⟨p', q, hb, hbl, _⟩ := hP.eventWake_owned htm ha
            have hpp : p' = p := by omega
            subst hpp
            exact hquietF (hk.removeAwaitKind _ _) hb hbl (fun g h => h) (fun h hh => by cases hh)
          · split
            · rename_i ha
              refine hres hNT hT hsT hnrT ?_
              intro f _ hs
              have hc0 := hsig0 hs
              have hnz := hp.nz t htm hc0
              have hg : isGrant t := by
                rcases ha with h | h
                · exact Or.inl ⟨h, hc0⟩
                · exact absurd h hnz.2.2
              have hb0 := (hp.gr t htm hg).1
              exact hk.quiet_grant hp htm hg (by omega)
            · split
              · rename_i ha
                have hg : isGrant t := Or.inr ha
                have hb0 := (hp.gr t htm hg).1
                have hb : t.item.b = p + 1 := by omega
                have hqT : Quiet wT p := hk.quiet_grant hp htm hg hb
                refine hres (hNT.removeAwaitKind_fst p _) (hT.dropGuardAwaits p hqT).toB
                  (hsT.ofStat (by have h0 := Stat.refl wT; stat)) (hnrT.removeAwaitKind_fst p _) ?_
                intro f _ _
                exact (hk.removeAwaitKind _ _).quiet_grant hp htm hg hb
              · split
                · rename_i ha
                  refine NI.resumeProc (hNT.cancelAwaiteds p) (GInv.cancelAwaiteds hT p (noEx_not p)).1.toB
                    (hsT.ofStat (by have h0 := Stat.refl wT; stat)) (NRInv.cancelAwaiteds hnrT p) p _ ?_
                  intro f _ hs
                  exact absurd ha (hp.nz t htm (hsig0 hs)).1
                · split
                  · rename_i ha
                    refine NI.resumeProc hNT hT hsT hnrT p _ ?_
                    intro f _ hs
                    exact absurd ha (hp.nz t htm (hsig0 hs)).2.1
                  · exact hNT

theorem NI.reach {w w' : World} (hr : Reach w w') (h : NI w) (hA : AllInv w) : NI w' ∧ AllInv w' := by
  induction hr with
  | refl => exact ⟨h, hA⟩
  | step _ hd ih => exact ⟨ih.1.dispatch ih.2 hd, ih.2.dispatch hd⟩

theorem Built.ni {w : World} (h : Built w) : NI w := by
  intro e he hn
  have := (h.binv.pend e he).1
  rw [hn.1] at this; exact absurd this (by decide)

/-- in every state reachable from an initial state (`InitOkG ∧ SideOk`, no notice pending for a process that is not
    running) every pending cancellation notice of `cmb_condition_cancel` (an aRes event with a non-SUCCESS code) is
    addressed to a process that is running: it is created only for a process on the condition's waiting list (which is
    suspended, hence running), and the end of a process cancels all its pending events before its status changes -/
theorem cancelled_notice_owner_reachable {w0 w : World} (hr : Reach w0 w) (hi : InitOkG w0) (hs : SideOk w0) (hn : NI w0) :
    ∀ e ∈ w.ev.pending, e.item.a = aRes → e.item.c ≠ 0 → 1 ≤ e.item.b ∧ (w.proc (e.item.b - 1)).status = .running :=
  fun e he ha hc => (NI.reach hr hn (hi.all hs)).1 e he ⟨ha, hc⟩

theorem cancelled_notice_owner_built {w0 w : World} (hb : Built w0) (hsz : w0.procs.size < 2 ^ 31) (hr : Reach w0 w) :
    ∀ e ∈ w.ev.pending, e.item.a = aRes → e.item.c ≠ 0 → 1 ≤ e.item.b ∧ (w.proc (e.item.b - 1)).status = .running :=
  cancelled_notice_owner_reachable hr (hb.binv.initOk hsz).1 (hb.binv.initOk hsz).2 hb.ni

end CimbaModel.Sim.S3
