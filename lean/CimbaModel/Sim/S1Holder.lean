/-
  S1 — the holder invariant (C05): the resource's `holder` field and the processes' lists of holdings
  describe the same unique holder.  Definitions, the two abstract transitions (take / give up),
  and their instances for the primitives `grab`, `removeHeld`, `dropResources`, `finishProc`.
-/
import CimbaModel.Sim.S1Frame2

namespace CimbaModel.Sim
open CimbaModel CimbaModel.Event CimbaModel.Generated
open CimbaModel.HashHeap (HTag Item Order HH)

/-- the holder of resource `r` (`none`: free, or no such resource) -/
def World.holder (w : World) (r : Nat) : Option Pid := (w.rv r).bind (·.1)

/-- the guard of resource `r` -/
def World.guardOf (w : World) (r : Nat) : Option Nat := (w.rv r).map (·.2)

theorem holder_eq (w : World) (r : Nat) (x : Res) (hx : w.res[r]? = some x) : w.holder r = x.holder := by
  simp [World.holder, World.rv, hx]

theorem holder_none_of_no_res (w : World) (r : Nat) (hx : w.res[r]? = none) : w.holder r = none := by
  simp [World.holder, World.rv, hx]

theorem rv_eq (w : World) (r : Nat) (x : Res) (hx : w.res[r]? = some x) : w.rv r = some (x.holder, x.guard) := by
  simp [World.rv, hx]

/-- **the holder invariant**: process `p` lists resource `r` exactly once if it is the holder, and not at all
    otherwise (in particular nobody lists a resource that does not exist) -/
def HInv (w : World) : Prop := ∀ r p, w.hcount p r = if w.holder r = some p then 1 else 0

/-- the invariant only looks at the holder fields and the lists of holdings -/
theorem HInv.of_same {w w' : World} (h : HInv w) (hr : ∀ r, w'.rv r = w.rv r)
    (hh : ∀ q r, w'.hcount q r = w.hcount q r) : HInv w' := by
  intro r p
  have e : w'.holder r = w.holder r := by unfold World.holder; rw [hr]
  rw [hh, h r p, e]

/-- forget the holder -/
def clearHolder (v : Option (Option Pid × Nat)) : Option (Option Pid × Nat) := v.map fun x => (none, x.2)

/-- abstract transition "give up": the holder `v` of `r` drops it from its list and the holder field is cleared -/
theorem HInv.unhold {w w' : World} (h : HInv w) (r : Nat) (v : Pid) (hv : w.holder r = some v)
    (hc : ∀ q r', w'.hcount q r' = if q = v ∧ r = r' then 0 else w.hcount q r')
    (hr : ∀ r', w'.rv r' = if r' = r then clearHolder (w.rv r') else w.rv r') : HInv w' := by
  intro r' q
  rw [hc]
  have hh : w'.holder r' = if r' = r then none else w.holder r' := by
    unfold World.holder; rw [hr]; split
    · cases w.rv r' <;> simp [clearHolder]
    · rfl
  rw [hh]
  by_cases e : r' = r
  · subst e
    simp only [if_true, and_true]
    split
    · simp
    · rename_i hq; rw [h r' q, hv]; simp; intro e; exact hq e.symm
  · have e' : ¬ r = r' := fun x => e x.symm
    simp only [e, e', and_false, if_false]; exact h r' q

/-- abstract transition "take": `p` adds the free resource `r` to its list and becomes the holder -/
theorem HInv.hold {w w' : World} (h : HInv w) (r : Nat) (p : Pid) (g : Nat) (hv : w.rv r = some (none, g))
    (hc : ∀ q r', w'.hcount q r' = if q = p ∧ r' = r then w.hcount q r' + 1 else w.hcount q r')
    (hr : ∀ r', w'.rv r' = if r' = r then some (some p, g) else w.rv r') : HInv w' := by
  intro r' q
  rw [hc]
  have hfree : w.holder r = none := by simp [World.holder, hv]
  have hh : w'.holder r' = if r' = r then some p else w.holder r' := by
    unfold World.holder; rw [hr]; split <;> rfl
  rw [hh]
  by_cases e : r' = r
  · subst e
    simp only [if_true, and_true]
    rw [h r' q, hfree]
    by_cases hq : q = p
    · simp [hq]
    · have : ¬ p = q := fun e => hq e.symm
      simp [hq, this]
  · simp only [e, and_false, if_false]; exact h r' q

/-! ### consequences in the vocabulary of the model -/

theorem HInv.mem_iff {w : World} (h : HInv w) (r : Nat) (p : Pid) :
    HoldRef.res r ∈ (w.proc p).held ↔ w.holder r = some p := by
  have hc := h r p
  unfold World.hcount at hc
  constructor
  · intro hm
    have hpos : 0 < (w.proc p).held.count (.res r) := List.count_pos_iff.2 hm
    by_cases e : w.holder r = some p
    · exact e
    · rw [if_neg e] at hc; omega
  · intro e
    rw [if_pos e] at hc
    exact List.count_pos_iff.1 (by omega)

theorem HInv.count_le_one {w : World} (h : HInv w) (r : Nat) (p : Pid) : (w.proc p).held.count (.res r) ≤ 1 := by
  have := h r p
  unfold World.hcount at this
  rw [this]; split <;> omega

theorem HInv.holder_lt {w : World} (h : HInv w) (r : Nat) (p : Pid) (hp : w.holder r = some p) : p < w.procs.size :=
  lt_np_of_held w p _ ((h.mem_iff r p).2 hp)

/-- at most one holder: two processes listing the same resource are the same process -/
theorem HInv.unique {w : World} (h : HInv w) (r : Nat) (p q : Pid)
    (hp : HoldRef.res r ∈ (w.proc p).held) (hq : HoldRef.res r ∈ (w.proc q).held) : p = q := by
  have a := (h.mem_iff r p).1 hp
  have b := (h.mem_iff r q).1 hq
  rw [a] at b; exact Option.some.inj b

/-! ### the views after the primitives that touch holders -/

theorem rv_set (w : World) (r : Nat) (y : Res) (r' : Nat) (hr : r < w.res.size) :
    World.rv { w with res := w.res.set! r y } r' = if r' = r then some (y.holder, y.guard) else w.rv r' := by
  unfold World.rv
  simp only [Array.set!_eq_setIfInBounds, Array.getElem?_setIfInBounds]
  by_cases e : r = r'
  · subst e; simp [hr]
  · have : ¬ r' = r := fun h => e h.symm
    simp [e, this]

theorem lt_size_of_getElem? {α : Type _} {a : Array α} {i : Nat} {x : α} (h : a[i]? = some x) : i < a.size := by
  apply Classical.byContradiction
  intro hn
  rw [Array.getElem?_eq_none (Nat.le_of_not_lt hn)] at h
  cases h

/-- clearing the holder field of an existing resource -/
theorem rv_clear_set (w : World) (r : Nat) (x : Res) (hx : w.res[r]? = some x) (r' : Nat) :
    World.rv { w with res := w.res.set! r { x with holder := none } } r'
      = if r' = r then clearHolder (w.rv r') else w.rv r' := by
  rw [rv_set w r _ r' (lt_size_of_getElem? hx)]
  split
  · rename_i e; subst e; simp [clearHolder, rv_eq w r' x hx]
  · rfl

theorem rv_clear_modify (w : World) (r : Nat) (r' : Nat) :
    World.rv { w with res := w.res.modify r fun y => { y with holder := none } } r'
      = if r' = r then clearHolder (w.rv r') else w.rv r' := by
  unfold World.rv
  simp only [Array.getElem?_modify]
  by_cases e : r = r'
  · subst e; simp only [if_true]
    cases w.res[r]? <;> simp [clearHolder]
  · have : ¬ r' = r := fun h => e h.symm
    simp [e, this]

theorem grab_rv (w : World) (r : Nat) (p : Pid) (x : Res) (hx : w.res[r]? = some x) (r' : Nat) :
    (grab w r p).rv r' = if r' = r then some (some p, x.guard) else w.rv r' := by
  have hr := lt_size_of_getElem? hx
  unfold grab
  simp only [hx]
  zeta
  have a : ∀ w' : World, w'.res = w.res →
      World.rv ({ w' with res := w'.res.set! r { x with holder := some p } }.modProc p
        fun y => { y with held := .res r :: y.held }) r' = if r' = r then some (some p, x.guard) else w.rv r' := by
    intro w' hw'
    have : ∀ v : World, World.rv (v.modProc p fun y => { y with held := .res r :: y.held }) r' = v.rv r' := fun v => rfl
    rw [this, rv_set w' r _ r' (by rw [hw']; exact hr)]
    simp [World.rv, hw']
  split
  · exact a _ (by simp)
  · exact a _ rfl

theorem grab_hcount (w : World) (r : Nat) (p : Pid) (x : Res) (hx : w.res[r]? = some x) (hp : p < w.procs.size)
    (q : Pid) (r' : Nat) :
    (grab w r p).hcount q r' = if q = p ∧ r' = r then w.hcount q r' + 1 else w.hcount q r' := by
  unfold grab
  simp only [hx]
  zeta
  have a : ∀ w' : World, w'.procs = w.procs →
      World.hcount (w'.modProc p fun y => { y with held := .res r :: y.held }) q r'
        = if q = p ∧ r' = r then w.hcount q r' + 1 else w.hcount q r' := by
    intro w' hw'
    rw [hcount_modProc]
    have e1 : w'.proc p = w.proc p := proc_congr hw' p
    have e2 : w'.hcount q r' = w.hcount q r' := hcount_congr (fun q => by rw [proc_congr hw' q]) q r'
    rw [hw', e1, e2]
    by_cases hq : q = p
    · subst hq
      simp only [hp, and_self, if_true, true_and]
      by_cases hr : r' = r
      · subst hr; simp [World.hcount]
      · have : ¬ r = r' := fun h => hr h.symm
        simp [hr, World.hcount, this]
    · simp [hq]
  split
  · exact a _ (by simp)
  · exact a _ rfl

/-- `grab` of a free resource by a process of the table keeps the invariant -/
theorem hinv_grab {w : World} (h : HInv w) (r : Nat) (p : Pid) (x : Res) (hx : w.res[r]? = some x)
    (hfree : x.holder = none) (hp : p < w.procs.size) : HInv (grab w r p) :=
  h.hold r p x.guard (by rw [rv_eq w r x hx, hfree]) (grab_hcount w r p x hx hp) (grab_rv w r p x hx)

theorem grab_holder (w : World) (r : Nat) (p : Pid) (x : Res) (hx : w.res[r]? = some x) :
    (grab w r p).holder r = some p := by
  simp [World.holder, grab_rv w r p x hx]

theorem grab_no_res (w : World) (r : Nat) (p : Pid) (hx : w.res[r]? = none) : grab w r p = w := by
  unfold grab; simp [hx]

/-! ### dropping everything a process holds -/

/-- one step of the loop of `cmi_process_drop_resources` -/
def dropStep (p : Pid) (w : World) (h : HoldRef) : World :=
  match h with
  | .res r =>
    match w.res[r]? with
    | some x =>
      let w := { w with res := w.res.set! r { x with holder := none } }
      let w := recordRes w r
      signal w x.guard
    | none => w
  | .pool pl => poolDropHolder w pl p

theorem dropResources_eq (w : World) (p : Pid) :
    dropResources w p = (w.proc p).held.foldl (dropStep p) (w.modProc p fun x => { x with held := [] }) := rfl

theorem dropStep_rv (p : Pid) (w : World) (h : HoldRef) (r' : Nat) :
    (dropStep p w h).rv r' = if h = .res r' then clearHolder (w.rv r') else w.rv r' := by
  unfold dropStep
  split
  · rename_i r
    split
    · rename_i x hx
      zeta
      rw [signal_rv, recordRes_rv, rv_clear_set w r x hx]
      by_cases e : r' = r
      · subst e; simp
      · have : ¬ r = r' := fun h => e h.symm
        simp [e, this]
    · rename_i hx
      split
      · rename_i e; injection e with e; subst e
        simp [World.rv, hx, clearHolder]
      · rfl
  · simp

@[simp] theorem dropStep_hcount (p : Pid) (w : World) (h : HoldRef) (q : Pid) (r' : Nat) :
    (dropStep p w h).hcount q r' = w.hcount q r' := by
  unfold dropStep
  split
  · split
    · zeta; simp
    · rfl
  · simp

theorem clearHolder_idem (v : Option (Option Pid × Nat)) : clearHolder (clearHolder v) = clearHolder v := by
  cases v <;> simp [clearHolder]

theorem foldl_dropStep_rv (p : Pid) (hs : List HoldRef) (w : World) (r' : Nat) :
    (hs.foldl (dropStep p) w).rv r' = if .res r' ∈ hs then clearHolder (w.rv r') else w.rv r' := by
  induction hs generalizing w with
  | nil => simp
  | cons h hs ih =>
    rw [List.foldl_cons, ih, dropStep_rv]
    by_cases e : h = .res r'
    · subst e; simp [clearHolder_idem]
    · have : ¬ HoldRef.res r' = h := fun x => e x.symm
      simp [e, this]

theorem foldl_dropStep_hcount (p : Pid) (hs : List HoldRef) (w : World) (q : Pid) (r' : Nat) :
    (hs.foldl (dropStep p) w).hcount q r' = w.hcount q r' := by
  induction hs generalizing w with
  | nil => rfl
  | cons h hs ih => rw [List.foldl_cons, ih, dropStep_hcount]

/-- after `dropResources`, the holder fields of exactly the resources the process listed are cleared -/
theorem dropResources_rv (w : World) (p : Pid) (r' : Nat) :
    (dropResources w p).rv r' = if .res r' ∈ (w.proc p).held then clearHolder (w.rv r') else w.rv r' := by
  rw [dropResources_eq, foldl_dropStep_rv]
  rfl

/-- … and the process lists nothing any more; the other processes' lists are untouched -/
theorem dropResources_hcount (w : World) (p : Pid) (q : Pid) (r' : Nat) :
    (dropResources w p).hcount q r' = if q = p then 0 else w.hcount q r' := by
  rw [dropResources_eq, foldl_dropStep_hcount, hcount_modProc]
  by_cases hq : q = p
  · subst hq
    by_cases hp : q < w.procs.size
    · simp [hp]
    · simp [hp, World.hcount, proc_oob w q hp]
  · simp [hq]

theorem dropResources_held (w : World) (p : Pid) (q : Pid) :
    ((dropResources w p).proc q).held = if q = p then [] else (w.proc q).held := by
  have hstep : ∀ w h, ((dropStep p w h).proc q).held = (w.proc q).held := by
    intro w h; unfold dropStep; frame_close
  rw [dropResources_eq, foldl_keeps_proc Proc.held q _ hstep, proc_modProc]
  by_cases hq : q = p
  · subst hq
    by_cases hp : q < w.procs.size
    · simp [hp]
    · simp [hp, proc_oob w q hp]
  · simp [hq]

theorem hinv_dropResources {w : World} (h : HInv w) (p : Pid) : HInv (dropResources w p) := by
  intro r q
  have hh : (dropResources w p).holder r = if w.holder r = some p then none else w.holder r := by
    unfold World.holder
    rw [dropResources_rv]
    have := h.mem_iff r p
    by_cases e : w.holder r = some p
    · rw [if_pos (this.2 e)]
      have e' : ((w.rv r).bind fun x => x.1) = some p := e
      rw [if_pos e']
      cases w.rv r <;> simp [clearHolder]
    · have e' : ¬ ((w.rv r).bind fun x => x.1) = some p := e
      rw [if_neg (fun m => e (this.1 m)), if_neg e']
  rw [dropResources_hcount, hh]
  by_cases hq : q = p
  · subst hq
    simp only [if_true]
    split <;> simp_all
  · simp only [hq, if_false]
    rw [h r q]
    by_cases e : w.holder r = some p
    · have : ¬ p = q := fun x => hq x.symm
      simp [e, this]
    · simp [e]

end CimbaModel.Sim
