/-
  S2 — recorded histories (C14): resource pools.
-/
import CimbaModel.Sim.S2HistInv

namespace CimbaModel.Sim
open CimbaModel CimbaModel.Event CimbaModel.Generated CimbaModel.KPQ
open CimbaModel.HashHeap (HTag Item Order HH)

theorem HistPool.of_eq {w w' : World} (h : w'.pools = w.pools) (hn : w'.now = w.now) (hi : HistPool w) : HistPool w' := by
  unfold HistPool; rw [h, hn]; exact hi

/-- the array differs at most in the holder list of one pool -/
def HoldersOnly (a a' : Array Pool) : Prop :=
  a' = a ∨ ∃ pl x h', a[pl]? = some x ∧ a' = a.setIfInBounds pl { x with holders := h' }

theorem HoldersOnly.ok {a a' : Array Pool} (ho : HoldersOnly a a') {n : Int} (h : ArrAll (RecOK poolOps n) a) :
    ArrAll (RecOK poolOps n) a' := by
  rcases ho with rfl | ⟨pl, x, h', hx, rfl⟩
  · exact h
  · exact RecOK.set_same _ h hx rfl rfl rfl

theorem HoldersOnly.exc {a a' : Array Pool} (ho : HoldersOnly a a') {n : Int} {i : Nat} (h : OKexc poolOps n i a) :
    OKexc poolOps n i a' := by
  rcases ho with rfl | ⟨pl, x, h', hx, rfl⟩
  · exact h
  · exact OKexc.set_same _ h hx rfl rfl rfl

theorem holdersOnly_set {a : Array Pool} {pl : Nat} {x : Pool} (hx : a[pl]? = some x) (h' : HH) :
    HoldersOnly a (a.set! pl { x with holders := h' }) := by
  rw [Array.set!_eq_setIfInBounds]; exact Or.inr ⟨pl, x, h', hx, rfl⟩

theorem holdersOnly_modify (a : Array Pool) (pl : Nat) (h' : HH) :
    HoldersOnly a (a.modify pl fun y => { y with holders := h' }) := by
  cases hx : a[pl]? with
  | none =>
    left
    apply Array.ext
    · simp
    · intro i h1 h2
      have : a[pl]? = none := hx
      rw [Array.getElem_modify]
      split
      · rename_i e; subst e
        rw [Array.getElem?_eq_getElem h2] at this; cases this
      · rfl
  | some x =>
    right
    refine ⟨pl, x, h', hx, ?_⟩
    apply Array.ext
    · simp
    · intro i h1 h2
      rw [Array.getElem_modify, Array.getElem_setIfInBounds]
      split
      · rename_i e; subst e
        obtain ⟨hlt, hget⟩ := Array.getElem?_eq_some_iff.1 hx
        rw [hget]
      · rfl

theorem poolUpdateRecord_holdersOnly (w : World) (pl : Nat) (p : Pid) (amt : Nat) :
    HoldersOnly w.pools (poolUpdateRecord w pl p amt).pools := by
  unfold poolUpdateRecord
  cases hx : w.pools[pl]? with
  | none => exact Or.inl rfl
  | some x =>
    dsimp only
    have henq : HoldersOnly w.pools
        (match HashHeap.enqueue holder_queue_check x.holders ⟨p + 1, amt, 0, 0⟩ (p + 1) 0
            ((w.modProc p fun y => { y with held := .pool pl :: y.held }).proc p).prio with
        | .ok (h', _) => { (w.modProc p fun y => { y with held := .pool pl :: y.held }) with
            pools := (w.modProc p fun y => { y with held := .pool pl :: y.held }).pools.set! pl { x with holders := h' } }
        | .error f => (w.modProc p fun y => { y with held := .pool pl :: y.held }).fail s!"pool record enqueue: {f}").pools := by
      split
      · exact holdersOnly_set (a := w.pools) hx _
      · exact Or.inl (by simp)
    by_cases hc : x.holders.count = 0
    · simp only [hc, if_true, Bool.false_eq_true, if_false]
      exact henq
    · cases hfi : HashHeap.findIndex x.holders (p + 1) with
      | error f =>
        simp only [hc, if_false, Bool.false_eq_true]
        exact henq
      | ok i =>
        by_cases hi0 : i = 0
        · simp only [hc, if_false, hi0, ne_eq, not_true_eq_false, decide_false, Bool.false_eq_true]
          exact henq
        · simp only [hc, if_false, ne_eq, hi0, not_false_eq_true, decide_true, if_true]
          exact holdersOnly_set hx _

theorem setHeldAmount_holdersOnly (w : World) (pl : Nat) (p : Pid) (a : Nat) :
    HoldersOnly w.pools (setHeldAmount w pl p a).pools := by
  unfold setHeldAmount
  cases hx : w.pools[pl]? with
  | none => exact Or.inl rfl
  | some x =>
    dsimp only
    cases hfi : HashHeap.findIndex x.holders (p + 1) with
    | error f => exact Or.inl (by simp)
    | ok i =>
      dsimp only
      split
      · exact Or.inl (by simp)
      · exact holdersOnly_set hx _

theorem setPoolInUse_exc {n : Int} {w : World} (pl u : Nat) (h : OKexc poolOps n pl w.pools) :
    OKexc poolOps n pl (setPoolInUse w pl u).pools := by
  unfold setPoolInUse
  exact OKexc.modify _ h (fun _ => rfl)

/-- `in_use = u; record_sample` -/
theorem setInUse_record {w : World} (pl u : Nat) (h : OKexc poolOps w.now pl w.pools) :
    ArrAll (RecOK poolOps w.now) (recordPool (setPoolInUse w pl u) pl).pools := by
  rw [recordPool_eq]
  have : (setPoolInUse w pl u).now = w.now := by simp
  rw [this]
  exact genRecord_restores _ (setPoolInUse_exc pl u h)

theorem HistPool.poolMug : ∀ (fuel : Nat) (w : World) (p : Pid) (pl rem : Nat), HistPool w →
    HistPool (poolMug fuel w p pl rem).1 := by
  intro fuel
  induction fuel with
  | zero => intro w p pl rem h; exact h
  | succ n ih =>
    intro w p pl rem h
    unfold Sim.poolMug
    split
    · exact h
    · rename_i x hx
      split
      · exact h
      · split
        · split
          · split
            · rename_i h' t hdq
              dsimp only
              have h1 : HistPool { w with pools := w.pools.set! pl { x with holders := h' } } := by
                unfold HistPool at *
                exact (holdersOnly_set hx h').ok h
              generalize hw1 : ({ w with pools := w.pools.set! pl { x with holders := h' } } : World) = w1 at h1
              have h2 : HistPool (sched (removeHeld w1 (t.key - 1) (.pool pl)).1 aIntr (t.key - 1 + 1) sigPreempted
                  (removeHeld w1 (t.key - 1) (.pool pl)).1.now
                  ((removeHeld w1 (t.key - 1) (.pool pl)).1.proc (t.key - 1)).prio).1 :=
                HistPool.of_eq (by simp) (by simp) h1
              generalize (sched (removeHeld w1 (t.key - 1) (.pool pl)).1 aIntr (t.key - 1 + 1) sigPreempted
                  (removeHeld w1 (t.key - 1) (.pool pl)).1.now
                  ((removeHeld w1 (t.key - 1) (.pool pl)).1.proc (t.key - 1)).prio).1 = w3 at h2
              split
              · apply ih
                unfold HistPool at *
                rw [show (poolUpdateRecord w3 pl p t.item.b).now = w3.now by simp]
                exact (poolUpdateRecord_holdersOnly w3 pl p t.item.b).ok h2
              · have h4 : HistPool (poolUpdateRecord w3 pl p rem) := by
                  unfold HistPool at *
                  rw [show (poolUpdateRecord w3 pl p rem).now = w3.now by simp]
                  exact (poolUpdateRecord_holdersOnly w3 pl p rem).ok h2
                generalize poolUpdateRecord w3 pl p rem = w4 at h4
                refine HistPool.of_eq (w := recordPool (setPoolInUse w4 pl ((w4.pools.getD pl x).inUse - (t.item.b - rem))) pl) (by simp) (by simp) ?_
                unfold HistPool at *
                rw [show (recordPool (setPoolInUse w4 pl ((w4.pools.getD pl x).inUse - (t.item.b - rem))) pl).now = w4.now by simp]
                exact setInUse_record pl _ (OKexc.of_all _ h4 pl)
            · exact h
            · exact HistPool.of_eq (by simp) (by simp) h
          · exact h
        · exact h

end CimbaModel.Sim
