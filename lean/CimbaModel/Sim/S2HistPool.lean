/-
  S2 — recorded histories (C14): resource pools.
-/
import CimbaModel.Sim.S2HistInv

namespace CimbaModel.Sim
open CimbaModel CimbaModel.Event CimbaModel.Generated CimbaModel.KPQ
open CimbaModel.HashHeap (HTag Item Order HH)

theorem HistPool.of_eq {w w' : World} (h : w'.pools = w.pools) (hn : w'.now = w.now) (hi : HistPool w) : HistPool w' := by
  unfold HistPool; rw [h, hn]; exact hi

/-- the array differs at most in the holder list of one pool -/
def HoldersOnly (a a' : Array Pool) : Prop :=
  a' = a ∨ ∃ pl x h', a[pl]? = some x ∧ a' = a.setIfInBounds pl { x with holders := h' }

theorem HoldersOnly.ok {a a' : Array Pool} (ho : HoldersOnly a a') {n : Int} (h : ArrAll (RecOK poolOps n) a) :
    ArrAll (RecOK poolOps n) a' := by
  rcases ho with rfl | ⟨pl, x, h', hx, rfl⟩
  · exact h
  · exact RecOK.set_same _ h hx rfl rfl rfl

theorem HoldersOnly.exc {a a' : Array Pool} (ho : HoldersOnly a a') {n : Int} {i : Nat} (h : OKexc poolOps n i a) :
    OKexc poolOps n i a' := by
  rcases ho with rfl | ⟨pl, x, h', hx, rfl⟩
  · exact h
  · exact OKexc.set_same _ h hx rfl rfl rfl

theorem holdersOnly_set {a : Array Pool} {pl : Nat} {x : Pool} (hx : a[pl]? = some x) (h' : HH) :
    HoldersOnly a (a.set! pl { x with holders := h' }) := by
  rw [Array.set!_eq_setIfInBounds]; exact Or.inr ⟨pl, x, h', hx, rfl⟩

theorem holdersOnly_modify (a : Array Pool) (pl : Nat) (h' : HH) :
    HoldersOnly a (a.modify pl fun y => { y with holders := h' }) := by
  cases hx : a[pl]? with
  | none =>
    left
    apply Array.ext
    · simp
    · intro i h1 h2
      have : a[pl]? = none := hx
      rw [Array.getElem_modify]
      split
      · rename_i e; subst e
        rw [Array.getElem?_eq_getElem h2] at this; cases this
      · rfl
  | some x =>
    right
    refine ⟨pl, x, h', hx, ?_⟩
    apply Array.ext
    · simp
    · intro i h1 h2
      rw [Array.getElem_modify, Array.getElem_setIfInBounds]
      split
      · rename_i e; subst e
        obtain ⟨hlt, hget⟩ := Array.getElem?_eq_some_iff.1 hx
        rw [hget]
      · rfl

theorem poolUpdateRecord_holdersOnly (w : World) (pl : Nat) (p : Pid) (amt : Nat) :
    HoldersOnly w.pools (poolUpdateRecord w pl p amt).pools := by
  unfold poolUpdateRecord
  cases hx : w.pools[pl]? with
  | none => exact Or.inl rfl
  | some x =>
    dsimp only
    have henq : HoldersOnly w.pools
        (match HashHeap.enqueue holder_queue_check x.holders ⟨p + 1, amt, 0, 0⟩ (p + 1) 0
            ((w.modProc p fun y => { y with held := .pool pl :: y.held }).proc p).prio with
        | .ok (h', _) => { (w.modProc p fun y => { y with held := .pool pl :: y.held }) with
            pools := (w.modProc p fun y => { y with held := .pool pl :: y.held }).pools.set! pl { x with holders := h' } }
        | .error f => (w.modProc p fun y => { y with held := .pool pl :: y.held }).fail s!"pool record enqueue: {f}").pools := by
      split
      · exact holdersOnly_set (a := w.pools) hx _
      · exact Or.inl (by simp)
    by_cases hc : x.holders.count = 0
    · simp only [hc, if_true, Bool.false_eq_true, if_false]
      exact henq
    · cases hfi : HashHeap.findIndex x.holders (p + 1) with
      | error f =>
        simp only [hc, if_false, Bool.false_eq_true]
        exact henq
      | ok i =>
        by_cases hi0 : i = 0
        · simp only [hc, if_false, hi0, ne_eq, not_true_eq_false, decide_false, Bool.false_eq_true]
          exact henq
        · simp only [hc, if_false, ne_eq, hi0, not_false_eq_true, decide_true, if_true]
          exact holdersOnly_set hx _

theorem setHeldAmount_holdersOnly (w : World) (pl : Nat) (p : Pid) (a : Nat) :
    HoldersOnly w.pools (setHeldAmount w pl p a).pools := by
  unfold setHeldAmount
  cases hx : w.pools[pl]? with
  | none => exact Or.inl rfl
  | some x =>
    dsimp only
    cases hfi : HashHeap.findIndex x.holders (p + 1) with
    | error f => exact Or.inl (by simp)
    | ok i =>
      dsimp only
      split
      · exact Or.inl (by simp)
      · exact holdersOnly_set hx _

theorem setPoolInUse_exc {n : Int} {w : World} (pl u : Nat) (h : OKexc poolOps n pl w.pools) :
    OKexc poolOps n pl (setPoolInUse w pl u).pools := by
  unfold setPoolInUse
  exact OKexc.modify _ h (fun _ => rfl)

/-- `in_use = u; record_sample` -/
theorem setInUse_record {w : World} (pl u : Nat) (h : OKexc poolOps w.now pl w.pools) :
    ArrAll (RecOK poolOps w.now) (recordPool (setPoolInUse w pl u) pl).pools := by
  rw [recordPool_eq]
  have : (setPoolInUse w pl u).now = w.now := by simp
  rw [this]
  exact genRecord_restores _ (setPoolInUse_exc pl u h)

theorem HistPool.poolMug : ∀ (fuel : Nat) (w : World) (p : Pid) (pl rem : Nat), HistPool w →
    HistPool (poolMug fuel w p pl rem).1 := by
  intro fuel
  induction fuel with
  | zero => intro w p pl rem h; exact h
  | succ n ih =>
    intro w p pl rem h
    unfold Sim.poolMug
    split
    · exact h
    · rename_i x hx
      split
      · exact h
      · split
        · split
          · split
            · rename_i h' t hdq
              dsimp only
              have h1 : HistPool { w with pools := w.pools.set! pl { x with holders := h' } } := by
                unfold HistPool at *
                exact (holdersOnly_set hx h').ok h
              generalize hw1 : ({ w with pools := w.pools.set! pl { x with holders := h' } } : World) = w1 at h1
              have h2 : HistPool (sched (removeHeld w1 (t.key - 1) (.pool pl)).1 aIntr (t.key - 1 + 1) sigPreempted
                  (removeHeld w1 (t.key - 1) (.pool pl)).1.now
                  ((removeHeld w1 (t.key - 1) (.pool pl)).1.proc (t.key - 1)).prio).1 :=
                HistPool.of_eq (by simp) (by simp) h1
              generalize (sched (removeHeld w1 (t.key - 1) (.pool pl)).1 aIntr (t.key - 1 + 1) sigPreempted
                  (removeHeld w1 (t.key - 1) (.pool pl)).1.now
                  ((removeHeld w1 (t.key - 1) (.pool pl)).1.proc (t.key - 1)).prio).1 = w3 at h2
              split
              · apply ih
                unfold HistPool at *
                rw [show (poolUpdateRecord w3 pl p t.item.b).now = w3.now by simp]
                exact (poolUpdateRecord_holdersOnly w3 pl p t.item.b).ok h2
              · have h4 : HistPool (poolUpdateRecord w3 pl p rem) := by
                  unfold HistPool at *
                  rw [show (poolUpdateRecord w3 pl p rem).now = w3.now by simp]
                  exact (poolUpdateRecord_holdersOnly w3 pl p rem).ok h2
                generalize poolUpdateRecord w3 pl p rem = w4 at h4
                refine HistPool.of_eq (w := recordPool (setPoolInUse w4 pl ((w4.pools.getD pl x).inUse - (t.item.b - rem))) pl) (by simp) (by simp) ?_
                unfold HistPool at *
                rw [show (recordPool (setPoolInUse w4 pl ((w4.pools.getD pl x).inUse - (t.item.b - rem))) pl).now = w4.now by simp]
                exact setInUse_record pl _ (OKexc.of_all _ h4 pl)
            · exact h
            · exact HistPool.of_eq (by simp) (by simp) h
          · exact h
        · exact h

theorem HistPool.update {w : World} (pl : Nat) (p : Pid) (amt : Nat) (h : HistPool w) : HistPool (poolUpdateRecord w pl p amt) := by
  unfold HistPool at *
  rw [show (poolUpdateRecord w pl p amt).now = w.now by simp]
  exact (poolUpdateRecord_holdersOnly w pl p amt).ok h

theorem HistPool.setHeld {w : World} (pl : Nat) (p : Pid) (a : Nat) (h : HistPool w) : HistPool (setHeldAmount w pl p a) := by
  unfold HistPool at *
  rw [show (setHeldAmount w pl p a).now = w.now by simp]
  exact (setHeldAmount_holdersOnly w pl p a).ok h

theorem HistPool.setInUse_record {w : World} (pl u : Nat) (h : HistPool w) : HistPool (recordPool (setPoolInUse w pl u) pl) := by
  unfold HistPool at *
  rw [show (recordPool (setPoolInUse w pl u) pl).now = w.now by simp]
  exact Sim.setInUse_record pl u (OKexc.of_all _ h pl)

theorem HistPool.same {w w' : World} (hs : Same w w') (h : HistPool w) : HistPool w' :=
  HistPool.of_eq hs.2.1 hs.2.2.2.2.2.1 h

theorem HistPool.poolLoop (w : World) (p : Pid) (pl rem ini : Nat) (pre : Bool) (h : HistPool w) :
    HistPool (poolLoop w p pl rem ini pre).1 := by
  unfold Sim.poolLoop
  split
  · exact h.same (fail_same _ _)
  · rename_i x hx
    dsimp only
    split
    · exact ((h.setInUse_record pl _).update pl p rem).same (signal_same _ _)
    · have h1 : HistPool (if x.cap - x.inUse > 0 then
          (poolUpdateRecord (recordPool (setPoolInUse w pl (x.inUse + (x.cap - x.inUse))) pl) pl p (x.cap - x.inUse),
            rem - (x.cap - x.inUse)) else (w, rem)).1 := by
        split
        · exact (h.setInUse_record pl _).update pl p _
        · exact h
      generalize (if x.cap - x.inUse > 0 then
          (poolUpdateRecord (recordPool (setPoolInUse w pl (x.inUse + (x.cap - x.inUse))) pl) pl p (x.cap - x.inUse),
            rem - (x.cap - x.inUse)) else (w, rem)) = r1 at h1 ⊢
      obtain ⟨w1, rem1⟩ := r1
      dsimp only at h1 ⊢
      have h2 : HistPool (if pre = true then Sim.poolMug (x.holders.count + 1) w1 p pl rem1 else (w1, some rem1)).1 := by
        split
        · exact HistPool.poolMug _ _ _ _ _ h1
        · exact h1
      generalize (if pre = true then Sim.poolMug (x.holders.count + 1) w1 p pl rem1 else (w1, some rem1)) = r2 at h2 ⊢
      obtain ⟨w2, rem2⟩ := r2
      dsimp only at h2 ⊢
      split
      · exact h2
      · exact HistPool.of_eq (by simp) (by simp) (h2.same (guardWaitEnter_same w2 x.guard p (.poolAvail pl)))

theorem HistPool.modifyHolders {w : World} (pl : Nat) (h' : HH) (h : HistPool w) :
    HistPool { w with pools := w.pools.modify pl fun y => { y with holders := h' } } := by
  unfold HistPool at *
  exact (holdersOnly_modify w.pools pl h').ok h

theorem HistPool.setHolders {w : World} {pl : Nat} {x : Pool} (hx : w.pools[pl]? = some x) (h' : HH) (h : HistPool w) :
    HistPool { w with pools := w.pools.set! pl { x with holders := h' } } := by
  unfold HistPool at *
  exact (holdersOnly_set hx h').ok h

theorem HistPool.poolRollback (w : World) (p : Pid) (pl ini : Nat) (h : HistPool w) : HistPool (poolRollback w p pl ini) := by
  unfold Sim.poolRollback
  split
  · exact h
  · rename_i x hx
    split
    · dsimp only
      split
      · exact ((h.setHeld pl p ini).setInUse_record pl _).same (signal_same _ _)
      · exact h
    · dsimp only
      split
      · rename_i h' found hr
        refine HistPool.same (signal_same _ _) ?_
        have hm := (h.setInUse_record pl (x.inUse - heldAmount w pl p)).modifyHolders pl h'
        split
        · exact HistPool.of_eq (by simp) (by simp) hm
        · exact hm
      · exact (h.setInUse_record pl _).same (fail_same _ _)

theorem HistPool.poolRelease (w : World) (p : Pid) (pl n : Nat) (h : HistPool w) :
    HistPool (execCmd w p (.poolRelease pl n)).1 := by
  simp only [execCmd]
  split
  · exact h
  · rename_i x hx
    split
    · exact h
    · have h1 : HistPool (if heldAmount w pl p = n then
            match HashHeap.remove holder_queue_check x.holders (p + 1) with
            | .ok (h', _) => (removeHeld { w with pools := w.pools.set! pl { x with holders := h' } } p (.pool pl)).1
            | .error f => w.fail s!"pool release: {f}"
          else setHeldAmount w pl p (heldAmount w pl p - n)) := by
        split
        · split
          · rename_i h' _ _
            exact HistPool.of_eq (by simp) (by simp) (h.setHolders hx h')
          · exact h.same (fail_same _ _)
        · exact h.setHeld pl p _
      exact (h1.setInUse_record pl _).same (signal_same _ _)

theorem HistPool.poolDropHolder (w : World) (pl : Nat) (p : Pid) (h : HistPool w) : HistPool (poolDropHolder w pl p) := by
  unfold Sim.poolDropHolder
  split
  · exact h
  · rename_i x hx
    split
    · exact h
    · split
      · rename_i i _ h' found hr
        refine HistPool.same (signal_same _ _) ?_
        unfold HistPool at *
        rw [recordPool_eq]
        rw [show (recordPool { w with pools := w.pools.set! pl { x with inUse := x.inUse - (x.holders.heap.getD _ {}).item.b, holders := h' } } pl).now = w.now by simp]
        simp only [now_mk]
        refine genRecord_restores _ ?_
        show OKexc poolOps w.now pl (w.pools.set! pl { x with inUse := _, holders := h' })
        rw [Array.set!_eq_setIfInBounds]
        exact OKexc.set _ (OKexc.of_all _ h pl) hx rfl
      · exact h.same (fail_same _ _)
    · exact h.same (fail_same _ _)

theorem HistPool.dropResources {w : World} (p : Pid) (h : HistPool w) : HistPool (dropResources w p) := by
  unfold Sim.dropResources
  dsimp only
  have h0 : HistPool (w.modProc p fun x => { x with held := [] }) := HistPool.of_eq (by simp) (by simp) h
  generalize (w.modProc p fun x => { x with held := [] }) = w0 at h0
  generalize (w.proc p).held = hs
  induction hs generalizing w0 with
  | nil => exact h0
  | cons a rest ih =>
    rw [List.foldl_cons]
    apply ih
    cases a with
    | res r =>
      dsimp only
      split
      · exact HistPool.of_eq (by simp) (by simp) h0
      · exact h0
    | pool pl => exact HistPool.poolDropHolder _ _ _ h0

theorem HistPool.finishProc {w : World} (p : Pid) (v : Int) (st : Bool) (h : HistPool w) : HistPool (finishProc w p v st) := by
  unfold Sim.finishProc
  dsimp only
  have h1 : HistPool (if st = true then Sim.dropResources (cancelAwaiteds w p) p else cancelAwaiteds (Sim.dropResources w p) p) := by
    split
    · exact HistPool.dropResources _ (h.same (cancelAwaiteds_same _ _))
    · exact (HistPool.dropResources p h).same (cancelAwaiteds_same _ _)
  exact HistPool.of_eq (by simp) (by simp) h1

theorem HistPool.setRecording {w : World} (kind idx : Nat) (on : Bool) (h : HistPool w) : HistPool (setRecording w kind idx on) := by
  by_cases hk : kind = 1
  · subst hk
    unfold HistPool at *
    unfold Sim.setRecording
    dsimp only
    split
    · show ArrAll (RecOK poolOps (recordPool { w with pools := w.pools.modify idx fun x => { x with recording := on } } idx).now)
        (recordPool { w with pools := w.pools.modify idx fun x => { x with recording := on } } idx).pools
      rw [recordPool_eq]
      simp
      exact genRecord_restores _ (OKexc.modify_flag _ h (fun _ => rfl))
    · rename_i hon
      show ArrAll (RecOK poolOps (recordPool w idx).now) ((recordPool w idx).pools.modify idx fun x => { x with recording := on })
      rw [recordPool_eq]
      simp
      exact RecOK.modify_off _ (genRecord_ok _ h idx) (fun x => by simpa [poolOps] using hon) (fun _ => rfl)
  · have hf := setRecording_fp w kind idx on
    refine HistPool.of_eq (hf.2.1 ?_) hf.2.2.2.2.2.1 h
    unfold recMask
    split <;> simp_all

theorem HistPool.prioSet (w : World) (p q : Pid) (v : Int) (h : HistPool w) : HistPool (execCmd w p (.prioSet q v)).1 := by
  simp only [execCmd]
  split
  · exact h
  · dsimp only
    -- the first fold leaves pools and clock alone
    have h1 : HistPool (List.foldl (fun w a =>
        match a with
        | .time h =>
          match reprioritize w.ev h v with
          | .ok ev' => { w with ev := ev' }
          | .error f => w.fail s!"priority_set: timer event not scheduled: {f}"
        | .guard g =>
          match w.guards[g]? with
          | some gd =>
            if guardEnqueued w g q then
              match HashHeap.lookup gd.q (q + 1) with
              | .ok t =>
                match HashHeap.reprioritize guard_queue_check gd.q (q + 1) t.d v with
                | .ok q' => setGuardQ w g q'
                | .error f => w.fail s!"priority_set guard: {f}"
              | .error f => w.fail s!"priority_set guard lookup: {f}"
            else w
          | none => w
        | _ => w) (w.modProc q fun y => { y with prio := v }) ((w.modProc q fun y => { y with prio := v }).proc q).awaits) := by
      refine foldl_preserves (P := HistPool) _ ?_ _ _ (HistPool.of_eq (by simp) (by simp) h)
      intro w0 a h0
      cases a with
      | time hh =>
        dsimp only
        cases hr : reprioritize w0.ev hh v with
        | error f => exact h0.same (fail_same _ _)
        | ok ev' =>
          have := timeOk_reprioritize hr
          show HistPool { w0 with ev := ev' }
          exact HistPool.of_eq (w := w0) rfl this.1 h0
      | guard g =>
        dsimp only
        refine HistPool.of_eq ?_ ?_ h0 <;> (repeat' split) <;> simp
      | proc _ => exact h0
      | event _ => exact h0
    generalize (List.foldl _ (w.modProc q fun y => { y with prio := v }) _) = w2 at h1 ⊢
    refine foldl_preserves (P := HistPool) _ ?_ _ _ h1
    intro w0 a h0
    cases a with
    | res r => exact h0
    | pool pl =>
      dsimp only
      split
      · rename_i x hx
        split
        · exact h0.setHolders hx _
        · exact h0.same (fail_same _ _)
      · exact h0

theorem HistPool.preserved : Preserved (fun w => TimeOk w.ev ∧ HistPool w) := by
  refine Preserved.withTime (fun hs h => h.same hs) ?_ ?_ ?_ ?_
    (fun w p f h => HistPool.of_eq (by simp) (by simp) h)
  · intro w ev' n hle h
    exact ArrAll.mono h (fun x ok => ok.mono _ hle)
  · intro w p c h
    by_cases hm : (cmdMask c).pools = false
    · exact HistPool.of_eq ((execCmd_fp w p c).2.1 hm) (execCmd_fp w p c).2.2.2.2.2.1 h
    · cases c <;> simp [cmdMask] at hm
      case stop q val =>
        simp only [execCmd]
        split
        · exact HistPool.finishProc _ _ _ h
        · split
          · exact HistPool.finishProc _ _ _ h
          · exact h
      case exit val => simp only [execCmd]; exact HistPool.finishProc _ _ _ h
      case prioSet q v => exact HistPool.prioSet _ _ _ _ h
      case poolAcquire pl n =>
        simp only [execCmd]
        split
        · exact h
        · split
          · exact h
          · exact HistPool.poolLoop _ _ _ _ _ _ h
      case poolPreempt pl n =>
        simp only [execCmd]
        split
        · exact h
        · split
          · exact h
          · exact HistPool.poolLoop _ _ _ _ _ _ h
      case poolRelease pl n => exact HistPool.poolRelease _ _ _ _ h
      case recStart kind idx => exact HistPool.setRecording _ _ _ h
      case recStop kind idx => exact HistPool.setRecording _ _ _ h
  · intro w p f sig h
    by_cases hm : (frameMask f).pools = false
    · exact HistPool.of_eq ((resumeFrame_fp w p f sig).2.1 hm) (resumeFrame_fp w p f sig).2.2.2.2.2.1 h
    · cases f <;> simp [frameMask] at hm
      case pool pl rem ini pre =>
        simp only [resumeFrame]
        split
        · exact h
        · rename_i x hx
          have h1 : HistPool (guardWaitLeave w x.guard p sig) := h.same (guardWaitLeave_same _ _ _ _)
          split
          · exact HistPool.poolRollback _ _ _ _ h1
          · exact HistPool.poolLoop _ _ _ _ _ _ h1
  · intro w p v st h
    exact HistPool.finishProc _ _ _ h

end CimbaModel.Sim
