/-
  S3 — the grant invariant, part 21: reachable states, and the initial states the scenario loader can build.
-/
import CimbaModel.Sim.S3GrantDispatch
import CimbaModel.Sim.S3Built

namespace CimbaModel.Sim.S3
open CimbaModel CimbaModel.Sim CimbaModel.Event CimbaModel.Generated CimbaModel.KPQ
open CimbaModel.HashHeap (HTag Item Order HH WF abs liveTags)

variable {S : Nat → Prop}

theorem GrantAll.dispatch {w w' : World} (h : GrantAll S w) (hd : dispatch w = some w') : GrantAll S w' :=
  ⟨h.all.dispatch hd, h.k.dispatch h.all.g.ei h.kok hd, h.es.ofStat (Stat.dispatch hd), h.kok.ofStat (Stat.dispatch hd),
   h.cv.ofStat (Stat.dispatch hd), h.gh_dispatch hd⟩

theorem GrantAll.reach {w w' : World} (hr : Reach w w') (h : GrantAll S w) : GrantAll S w' := by
  induction hr with
  | refl => exact h
  | step _ hd ih => exact ih.dispatch hd

theorem GrantAll.emit {w : World} (h : GrantAll S w) (l : String) : GrantAll S (w.emit l) := by
  have hst : Stat w (w.emit l) := (Stat.refl w).emit l
  exact ⟨h.all.emit l, h.k.ofKRel ((KRel.refl w).emit l), h.es.ofStat hst, h.kok.ofStat hst, h.cv.ofStat hst,
    fun hf => (h.gh hf).inert h.all.g.ei ((Inert.refl w).emit l)⟩

theorem GrantAll.runAll (fuel : Nat) (w : World) (h : GrantAll S w) : GrantAll S (runAll fuel w) :=
  runAll_inv (I := GrantAll S) (fun _ l h => h.emit l) (fun _ _ h _ hd => h.dispatch hd) fuel w h

/-! ### what the invariant says at quiescence -/

/-- when nothing is pending (and no fault has been recorded), no waiter of the guard of a resource, pool, buffer or queue
    end has a demand that holds: nobody is blocked while it could be served -/
theorem GrantAll.quiescent {w : World} (h : GrantAll S w) (hf : w.fault = none) (hq : Sim.dispatch w = none)
    {d : Demand} {g : Nat} (hd : gOf w d = some g) {gd : Guard} (hg : w.guards[g]? = some gd) :
    (∀ k ∈ keys (abs gd.q), demandOf gd k = d) ∧ (gd.q.count ≠ 0 → evalDemand w d = false) := by
  obtain ⟨hHG, hGI⟩ := h.gh hf
  refine ⟨hHG d g hd gd hg, ?_⟩
  intro hcnt
  have hpend := (dispatch_none_iff w).1 hq
  have hpos : 0 < (abs gd.q).length := by rw [HashHeap.abs_length]; omega
  obtain ⟨e, he⟩ := List.exists_mem_of_length_pos hpos
  have hqn : Qne w g := ⟨e.key, gd, hg, Event.mem_keys.2 ⟨e, he, rfl⟩⟩
  have : need w d ≤ G w g + 0 := hGI d g hd hqn
  rw [G_zero_of_no_pending hpend] at this
  have h0 : need w d = 0 := by omega
  cases hev : evalDemand w d with
  | false => rfl
  | true =>
    have := (evalDemand_need w d (gOf_not_cond hd)).1 hev
    omega

/-! ### the worlds the loader builds -/

/-- the second invariant of the construction: object ends have guards of their own, handle variables are zero -/
structure BInv2 (w : World) : Prop where
  es : EndSep w
  gb : ∀ d g, gOf w d = some g → g < w.guards.size
  vz : ∀ p v, getVar w p v = 0

theorem replicate_getD (n v : Nat) : ((Array.replicate n (0 : Nat))[v]?).getD 0 = 0 := by
  rw [Array.getElem?_replicate]; split <;> rfl

theorem map_push' {α β : Type} (a : Array α) (x : α) (st : α → β) (i : Nat) (g : β)
    (h : ((a.push x)[i]?).map st = some g) : (a[i]?).map st = some g ∨ (i = a.size ∧ st x = g) := by
  rw [Array.getElem?_push] at h
  split at h
  · rename_i hi; right; exact ⟨hi, by simpa using h⟩
  · left; exact h

theorem BInv2.grow {w w' : World} (h : BInv2 w) (hsz : w.guards.size ≤ w'.guards.size) (New : Demand → Nat → Prop)
    (hG : ∀ d g, gOf w' d = some g → gOf w d = some g ∨ (w.guards.size ≤ g ∧ g < w'.guards.size ∧ New d g))
    (hnew : ∀ d d' g, New d g → New d' g → d = d') (hv : ∀ p v, getVar w' p v = getVar w p v) : BInv2 w' := by
  refine ⟨?_, ?_, fun p v => (hv p v).trans (h.vz p v)⟩
  · intro d d' g h1 h2
    rcases hG d g h1 with o1 | ⟨n1, _, n1'⟩ <;> rcases hG d' g h2 with o2 | ⟨n2, _, n2'⟩
    · exact h.es d d' g o1 o2
    · have := h.gb d g o1; omega
    · have := h.gb d' g o2; omega
    · exact hnew d d' g n1' n2'
  · intro d g h1
    rcases hG d g h1 with o1 | ⟨_, n1, _⟩
    · have := h.gb d g o1; omega
    · exact n1

theorem BInv2.addRes {w : World} (h : BInv2 w) : BInv2 (addRes w) := by
  refine h.grow (by simp [S3.addRes, newGuardW]) (fun d g => d = .resAvail w.res.size ∧ g = w.guards.size) ?_
    (fun d d' g h1 h2 => h1.1.trans h2.1.symm) (fun _ _ => rfl)
  intro d g hd
  cases d <;> first
    | exact Or.inl hd
    | (rcases map_push' _ _ _ _ _ hd with h1 | ⟨h1, h2⟩
       · exact Or.inl h1
       · right; simp only [resStat] at h2
         exact ⟨by omega, by simp [S3.addRes, newGuardW]; omega, by rw [h1], h2.symm⟩)

theorem BInv2.addPool {w : World} (h : BInv2 w) (cap : Nat) : BInv2 (addPool w cap) := by
  refine h.grow (by simp [S3.addPool, newGuardW]) (fun d g => d = .poolAvail w.pools.size ∧ g = w.guards.size) ?_
    (fun d d' g h1 h2 => h1.1.trans h2.1.symm) (fun _ _ => rfl)
  intro d g hd
  cases d <;> first
    | exact Or.inl hd
    | (rcases map_push' _ _ _ _ _ hd with h1 | ⟨h1, h2⟩
       · exact Or.inl h1
       · right; simp only [poolStat] at h2
         exact ⟨by omega, by simp [S3.addPool, newGuardW]; omega, by rw [h1], h2.symm⟩)

theorem BInv2.addBuf {w : World} (h : BInv2 w) (cap : Nat) : BInv2 (addBuf w cap) := by
  refine h.grow (by simp [S3.addBuf, newGuardW]; omega)
    (fun d g => (d = .bufContent w.bufs.size ∧ g = w.guards.size) ∨ (d = .bufSpace w.bufs.size ∧ g = w.guards.size + 1)) ?_
    ?_ (fun _ _ => rfl)
  · intro d g hd
    cases d <;> first
      | exact Or.inl hd
      | (rcases map_push' _ _ _ _ _ hd with h1 | ⟨h1, h2⟩
         · exact Or.inl h1
         · right; simp only [bufStat] at h2
           refine ⟨by omega, by simp [S3.addBuf, newGuardW]; omega, ?_⟩
           first | exact Or.inl ⟨by rw [h1], h2.symm⟩ | exact Or.inr ⟨by rw [h1], h2.symm⟩)
  · intro d d' g h1 h2
    rcases h1 with ⟨a1, b1⟩ | ⟨a1, b1⟩ <;> rcases h2 with ⟨a2, b2⟩ | ⟨a2, b2⟩
    · exact a1.trans a2.symm
    · omega
    · omega
    · exact a1.trans a2.symm

theorem BInv2.addOQ {w : World} (h : BInv2 w) (cap : Nat) : BInv2 (addOQ w cap) := by
  refine h.grow (by simp [S3.addOQ, newGuardW]; omega)
    (fun d g => (d = .oqContent w.oqs.size ∧ g = w.guards.size) ∨ (d = .oqSpace w.oqs.size ∧ g = w.guards.size + 1)) ?_
    ?_ (fun _ _ => rfl)
  · intro d g hd
    cases d <;> first
      | exact Or.inl hd
      | (rcases map_push' _ _ _ _ _ hd with h1 | ⟨h1, h2⟩
         · exact Or.inl h1
         · right; simp only [oqStat] at h2
           refine ⟨by omega, by simp [S3.addOQ, newGuardW]; omega, ?_⟩
           first | exact Or.inl ⟨by rw [h1], h2.symm⟩ | exact Or.inr ⟨by rw [h1], h2.symm⟩)
  · intro d d' g h1 h2
    rcases h1 with ⟨a1, b1⟩ | ⟨a1, b1⟩ <;> rcases h2 with ⟨a2, b2⟩ | ⟨a2, b2⟩
    · exact a1.trans a2.symm
    · omega
    · omega
    · exact a1.trans a2.symm

theorem BInv2.addPQ {w : World} (h : BInv2 w) (cap : Nat) : BInv2 (addPQ w cap) := by
  refine h.grow (by simp [S3.addPQ, newGuardW]; omega)
    (fun d g => (d = .pqContent w.pqs.size ∧ g = w.guards.size) ∨ (d = .pqSpace w.pqs.size ∧ g = w.guards.size + 1)) ?_
    ?_ (fun _ _ => rfl)
  · intro d g hd
    cases d <;> first
      | exact Or.inl hd
      | (rcases map_push' _ _ _ _ _ hd with h1 | ⟨h1, h2⟩
         · exact Or.inl h1
         · right; simp only [pqStat] at h2
           refine ⟨by omega, by simp [S3.addPQ, newGuardW]; omega, ?_⟩
           first | exact Or.inl ⟨by rw [h1], h2.symm⟩ | exact Or.inr ⟨by rw [h1], h2.symm⟩)
  · intro d d' g h1 h2
    rcases h1 with ⟨a1, b1⟩ | ⟨a1, b1⟩ <;> rcases h2 with ⟨a2, b2⟩ | ⟨a2, b2⟩
    · exact a1.trans a2.symm
    · omega
    · omega
    · exact a1.trans a2.symm

/-- a step that leaves the objects alone -/
theorem BInv2.same {w w' : World} (h : BInv2 w) (hsz : w.guards.size ≤ w'.guards.size) (hgo : ∀ d, gOf w' d = gOf w d)
    (hv : ∀ p v, getVar w' p v = 0) : BInv2 w' := by
  refine ⟨?_, ?_, hv⟩
  · intro d d' g h1 h2; rw [hgo] at h1 h2; exact h.es d d' g h1 h2
  · intro d g h1; rw [hgo] at h1; have := h.gb d g h1; omega

theorem BInv2.addCond {w : World} (h : BInv2 w) : BInv2 (addCond w) :=
  h.same (by simp [S3.addCond, newGuardW]) (fun d => gOf_congr rfl rfl rfl rfl rfl d) (fun p v => h.vz p v)

theorem BInv2.addProc {w : World} (h : BInv2 w) (pr : Int) (cmds : Array (Cmd × String)) : BInv2 (addProc w pr cmds) := by
  refine h.same (Nat.le_refl _) (fun d => gOf_congr rfl rfl rfl rfl rfl d) ?_
  intro p v
  have hproc : (S3.addProc w pr cmds).proc p = w.proc p ∨ (S3.addProc w pr cmds).proc p = ({ prio := pr, script := cmds } : Proc) := by
    unfold World.proc S3.addProc
    simp only [Array.getD_eq_getD_getElem?, Array.getElem?_push]
    split
    · right; rfl
    · left; rfl
  have h0 := h.vz p v
  unfold getVar at h0 ⊢
  split
  · rename_i h8; rw [if_pos h8] at h0; exact h0
  · rename_i h8; rw [if_neg h8] at h0
    rcases hproc with e | e <;> rw [e]
    · exact h0
    · have hv8 : v < 8 := by omega
      show (Array.replicate 16 0).getD v 0 = 0
      rw [Array.getD_eq_getD_getElem?]; exact replicate_getD 16 v

theorem BInv2.subscribe {w : World} (h : BInv2 w) (g cg : Nat) : BInv2 (subscribe w g cg) :=
  h.same (by simp [S3.subscribe]) (fun d => gOf_congr rfl rfl rfl rfl rfl d) (fun p v => h.vz p v)

theorem BInv2.autostart {w : World} (h : BInv2 w) (p : Pid) : BInv2 (autostart w p) := by
  unfold S3.autostart
  refine h.same (by simp) (fun d => gOf_congr (by simp) (by simp) (by simp) (by simp) (by simp) d) ?_
  intro q v
  have := h.vz q v
  unfold getVar at this ⊢
  simpa using this

theorem BInv2.empty : BInv2 {} := by
  refine ⟨?_, ?_, ?_⟩
  · intro d d' g h1; cases d <;> cases h1
  · intro d g h1; cases d <;> cases h1
  · intro p v
    unfold getVar
    split
    · show (Array.replicate 16 0).getD v 0 = 0
      rw [Array.getD_eq_getD_getElem?]; exact replicate_getD 16 v
    · show (Array.replicate 16 0).getD v 0 = 0
      rw [Array.getD_eq_getD_getElem?]; exact replicate_getD 16 v

theorem Built.binv2 {w : World} (h : Built w) : BInv2 w := by
  induction h with
  | empty => exact BInv2.empty
  | res _ ih => exact ih.addRes
  | pool cap _ ih => exact ih.addPool cap
  | buf cap _ ih => exact ih.addBuf cap
  | oq cap _ ih => exact ih.addOQ cap
  | pq cap _ ih => exact ih.addPQ cap
  | cond _ ih => exact ih.addCond
  | proc pr cmds _ _ ih => exact ih.addProc pr cmds
  | sub g cg _ ih => exact ih.subscribe g cg
  | start p _ ih => exact ih.autostart p

/-! ### the static typing of handle variables -/

/-- a variable that some program cancels by value (`cancelUser v`, `timerCancel v`) -/
def CancelVar (w : World) (v : Nat) : Prop :=
  ∃ (p : Pid) (i : Nat) (t : String), (w.proc p).script[i]? = some (.cancelUser v, t) ∨ (w.proc p).script[i]? = some (.timerCancel v, t)

/-- the static hypothesis on the programs: a variable that is read by `cancelUser` / `timerCancel` (anywhere) is never
    written by `pqPut` (which stores a priority-queue handle there); `schedUser`, `timerAdd`, `timerSet` — the only other
    writers — store handles of user / timer events -/
def VarsOk (w : World) : Prop := KOk (CancelVar w) w

theorem cvOk_cancelVar (w : World) : CvOk (CancelVar w) w := by
  intro p i c t hs v hv
  rcases hv with rfl | rfl
  · exact ⟨p, i, t, Or.inl hs⟩
  · exact ⟨p, i, t, Or.inr hs⟩

/-- the executable form of `VarsOk`: no `pqPut … v` anywhere for a `v` that is the argument of a `cancelUser` or
    `timerCancel` anywhere -/
def varsOkB (w : World) : Bool :=
  w.procs.all fun pr => pr.script.all fun ct =>
    match ct.1 with
    | .pqPut _ _ _ v => !(w.procs.any fun pr' => pr'.script.any fun ct' =>
        match ct'.1 with
        | .cancelUser v' => v' == v
        | .timerCancel v' => v' == v
        | _ => false)
    | _ => true

theorem script_mem {w : World} {p : Pid} {i : Nat} {c : Cmd} {t : String} (h : (w.proc p).script[i]? = some (c, t)) :
    ∃ pr ∈ w.procs.toList, (c, t) ∈ pr.script.toList := by
  by_cases hp : p < w.procs.size
  · refine ⟨w.procs[p], Array.getElem_mem_toList .., ?_⟩
    have : w.proc p = w.procs[p] := by
      unfold World.proc; simp [Array.getD_eq_getD_getElem?, hp]
    rw [this] at h
    have hi : i < w.procs[p].script.size := lt_of_getElem? h
    rw [Array.getElem?_eq_getElem hi] at h
    have h' : w.procs[p].script[i] = (c, t) := Option.some.inj h
    rw [← h']
    exact Array.getElem_mem_toList ..
  · rw [proc_oob w (Nat.le_of_not_lt hp)] at h; cases h

theorem varsOk_of_check {w : World} (h : varsOkB w = true) : VarsOk w := by
  intro p i c t hs
  cases c with
  | pqPut k obj pri v =>
    show ¬ CancelVar w v
    rintro ⟨p', i', t', hc⟩
    unfold varsOkB at h
    rw [Array.all_eq_true'] at h
    obtain ⟨pr, hpr, hm⟩ := script_mem hs
    have h1 := h pr (Array.mem_def.2 hpr)
    rw [Array.all_eq_true'] at h1
    have h2 := h1 _ (Array.mem_def.2 hm)
    simp only [Bool.not_eq_eq_eq_not, Bool.not_true] at h2
    have : (w.procs.any fun pr' => pr'.script.any fun ct' =>
        match ct'.1 with
        | .cancelUser v' => v' == v
        | .timerCancel v' => v' == v
        | _ => false) = true := by
      rw [Array.any_eq_true']
      rcases hc with hc | hc
      · obtain ⟨pr', hpr', hm'⟩ := script_mem hc
        refine ⟨pr', Array.mem_def.2 hpr', ?_⟩
        rw [Array.any_eq_true']
        exact ⟨_, Array.mem_def.2 hm', by simp⟩
      · obtain ⟨pr', hpr', hm'⟩ := script_mem hc
        refine ⟨pr', Array.mem_def.2 hpr', ?_⟩
        rw [Array.any_eq_true']
        exact ⟨_, Array.mem_def.2 hm', by simp⟩
    rw [this] at h2; cases h2
  | _ => trivial

/-! ### every loader-built world satisfies the whole invariant, the grant invariant included -/

theorem Built.grantAll {w : World} (h : Built w) (hsz : w.procs.size < 2 ^ 31) (hv : VarsOk w) : GrantAll (CancelVar w) w := by
  have hb := h.binv
  have hb2 := h.binv2
  have hall := h.allInv hsz
  refine ⟨hall, ?_, hb2.es, hv, cvOk_cancelVar w, fun _ => ⟨?_, ?_⟩⟩
  · refine ⟨fun p f hf => ?_, fun v _ p => ?_⟩
    · rw [(hb.pr p).2.2] at hf; cases hf
    · rw [hb2.vz p v]; exact NGc.zero hb.ei
  · intro d g hd gd hg k hk
    rw [hb.gq g gd hg, mkHH_spec.2] at hk; cases hk
  · intro d g hd ⟨k, gd, hg, hk⟩
    rw [hb.gq g gd hg, mkHH_spec.2] at hk; cases hk

theorem Built.grantRun {w : World} (h : Built w) (hsz : w.procs.size < 2 ^ 31) (hv : VarsOk w) (fuel : Nat) :
    GrantAll (CancelVar w) (runAll fuel w) := (h.grantAll hsz hv).runAll fuel w

end CimbaModel.Sim.S3
