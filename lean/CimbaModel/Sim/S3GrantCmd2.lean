/-
  S3 — the grant invariant, part 18: conditions, process end, and all commands / all frames together.
-/
import CimbaModel.Sim.S3GrantCmd

namespace CimbaModel.Sim.S3
open CimbaModel CimbaModel.Sim CimbaModel.Event CimbaModel.Generated CimbaModel.KPQ
open CimbaModel.HashHeap (HTag Item Order HH WF abs liveTags)

variable {fr : Pid → Option Frame} {df df' : Demand → Nat} {w : World} {p : Pid}

/-- the guard of a condition is not the guard of an object end -/
theorem condGuard_not_obj (hsep : CondSep w) {c g : Nat} (hc : w.conds[c]? = some g) (d : Demand) : gOf w d ≠ some g := by
  intro hd
  cases d with
  | cond k a b => cases hd
  | resAvail r => obtain ⟨c', h'⟩ := hsep c g (.acquire r) hc hd; cases h'
  | poolAvail r => obtain ⟨c', h'⟩ := hsep c g (.pool r 0 0 false) hc hd; cases h'
  | bufContent r => obtain ⟨c', h'⟩ := hsep c g (.bufGet r 0 0) hc hd; cases h'
  | bufSpace r => obtain ⟨c', h'⟩ := hsep c g (.bufPut r 0 0) hc hd; cases h'
  | oqContent r => obtain ⟨c', h'⟩ := hsep c g (.oqGet r) hc hd; cases h'
  | oqSpace r => obtain ⟨c', h'⟩ := hsep c g (.oqPut r 0) hc hd; cases h'
  | pqContent r => obtain ⟨c', h'⟩ := hsep c g (.pqGet r) hc hd; cases h'
  | pqSpace r => obtain ⟨c', h'⟩ := hsep c g (.pqPut r 0 0 0) hc hd; cases h'

/-- shrinking a waiting list -/
theorem gs_shrinkQueue (h : GS fr df w) {g : Nat} {gd : Guard} (hg : w.guards[g]? = some gd) {q' : HH} (hwf : GWF q')
    (hsub : ∀ k, k ∈ keys (abs q') → k ∈ keys (abs gd.q)) : GS fr df (setGuardQ w g q') :=
  ⟨h.ginv.shrinkQueue hg hwf hsub, (h.qi.shrinkQueue hg hwf hsub).hg, h.gi.shrinkQueue hg hsub⟩

theorem gs_guardRemove (h : GS fr df w) (g : Nat) (q : Pid) : GS fr df (guardRemove w g q).1 := by
  cases hg : w.guards[g]? with
  | none => rw [guardRemove_none hg]; exact h
  | some gd =>
    obtain ⟨q', _, hwf', hperm, heq⟩ := guardRemove_spec hg (h.ginv.gw g gd hg) q
    rw [heq]
    refine gs_shrinkQueue h hg hwf' ?_
    intro k hk
    obtain ⟨e, he, rfl⟩ := Event.mem_keys.1 hk
    exact Event.mem_keys.2 ⟨e, (mem_remove.1 (hperm.mem_iff.1 he)).1, rfl⟩

theorem gs_cmd_condWait (h : GS fr df w) (hsep : CondSep w) (hfr : fr p = none) (hlt : p < w.procs.size) (c kind a b : Nat) :
    GH df (execCmd w p (.condWait c kind a b)).1 := by
  simp only [Sim.execCmd]
  split
  · exact h.gh
  · rename_i g hc
    have hon : FrameOn w (.condWait c) g := hc
    exact (h.enterBlock g (.cond kind a b) (.condWait c) hfr hlt hon (fun _ _ => ⟨c, rfl⟩)
      (fun d' hd' => absurd hd' (condGuard_not_obj hsep hc d'))).gh

theorem gs_cmd_condSignal (h : GS fr df w) (c : Nat) : GH df (execCmd w p (.condSignal c)).1 := by
  simp only [Sim.execCmd]
  split
  · exact h.gh
  · rename_i g hc
    show GH df (condSignal w g).1
    have hG := h.ginv.condSignal_fst g ⟨c, hc⟩
    cases hg : w.guards[g]? with
    | none => rw [condSignal_none hg]; exact h.gh
    | some gd =>
      by_cases hcnt : gd.q.count = 0
      · rw [condSignal_empty hg hcnt]; exact h.gh
      · have hwf := h.ginv.gw g gd hg
        obtain ⟨q', hwf', hperm, heq⟩ := condSignal_spec hg hwf hcnt
        rw [heq, setGuardQ_pushAll] at hG ⊢
        have hsub : ∀ k, k ∈ keys (abs q') → k ∈ keys (abs gd.q) := by
          intro k hk
          obtain ⟨e, he, rfl⟩ := Event.mem_keys.1 hk
          exact Event.mem_keys.2 ⟨e, (List.mem_filter.1 (hperm.mem_iff.1 he)).1, rfl⟩
        have h1 := gs_shrinkQueue h hg hwf' hsub
        exact h1.gh.inert h1.ginv.ei ((Inert.refl _).pushAll _ (fun _ => hG.ei))

theorem gs_cmd_condCancel (h : GS fr df w) (c : Nat) (q : Pid) : GH df (execCmd w p (.condCancel c q)).1 := by
  simp only [Sim.execCmd]
  split
  · exact h.gh
  · rename_i g _
    split
    · exact h.gh
    · have h1 := gs_guardRemove h g q
      split
      · exact (h1.sched_harmless _ _ _ _ _ (by decide)).gh
      · exact h1.gh

theorem gs_cmd_condRemove (h : GS fr df w) (c : Nat) (q : Pid) : GH df (execCmd w p (.condRemove c q)).1 := by
  simp only [Sim.execCmd]
  split
  · exact h.gh
  · rename_i g _
    split
    · exact h.gh
    · exact (gs_guardRemove h g q).gh

/-- the `cond_wait` frame -/
theorem gs_resume_condWait (h : GS fr df w) {c : Nat} (hfr : fr p = some (.condWait c)) (sig : Int)
    (hq : sig = sigSuccess → Quiet w p) :
    GH df (resumeFrame (w.modProc p fun y => { y with blocked := none }) p (.condWait c) sig).1 := by
  simp only [Sim.resumeFrame]
  split
  · have hi : Inert w (w.modProc p fun y => { y with blocked := none }) := by have h0 := Inert.refl w; inert
    exact h.gh.inert h.ginv.ei hi
  · rename_i g hc
    have hon : FrameOn w (.condWait c) g := hc
    have hq' := h.ginv.quiet_guard hfr hon hq
    obtain ⟨h1, h2⟩ := h.leave hfr hon sig hq'
    obtain ⟨hL, _⟩ := h.ginv.leaveGuard (noEx_not p) hfr hon sig hq'
    split
    · exact GH.inert ⟨h1, h2⟩ hL.ei ((Inert.refl _).cancelKindFor_fst hL.ei p aCond none (by decide))
    · exact ⟨h1, h2⟩

/-- `stop` and `exit` -/
theorem gs_cmd_stop (h : GS fr df w) (ht : TimersOk w) (q : Pid) (v : Int) : GH df (execCmd w p (.stop q v)).1 := by
  simp only [Sim.execCmd]
  split
  · exact (h.finishProc p v true (ht p)).gh
  · split
    · exact (h.finishProc q v true (ht q)).gh
    · exact h.gh

theorem gs_cmd_exit (h : GS fr df w) (ht : TimersOk w) (v : Int) : GH df (execCmd w p (.exit v)).1 := by
  simp only [Sim.execCmd]
  exact (h.finishProc p v false (ht p)).gh

/-! ### all commands -/

/-- every command of a process that is not suspended keeps homogeneity and the grant invariant (unless a hashheap fault
    is recorded) -/
theorem gs_execCmd (h : GS fr df w) (hes : EndSep w) (hsep : CondSep w) (ht : TimersOk w) (hfr : fr p = none)
    (hlt : p < w.procs.size) (c : Cmd)
    (hcv : ∀ v, (c = .cancelUser v ∨ c = .timerCancel v) → NG w (getVar w p v)) :
    (execCmd w p c).1.fault = none → GH df (execCmd w p c).1 := by
  have hat : ∀ q k, Await.time k ∈ (w.proc q).awaits → NG w k := fun q k hk => (ht q k hk).2
  have hin : InertCmd c → GH df (execCmd w p c).1 := fun hc =>
    h.gh.inert h.ginv.ei (inert_execCmd c hc h.ginv.ei hcv hat)
  cases c with
  | stop q v => exact fun _ => gs_cmd_stop h ht q v
  | exit v => exact fun _ => gs_cmd_exit h ht v
  | prioSet q v => exact fun _ => gs_cmd_prioSet h q v
  | acquire r => exact fun _ => by simp only [Sim.execCmd]; exact h.acquireStep hes hsep hfr hlt r (fun _ _ => Nat.le_refl _)
  | preempt r => exact fun _ => gs_cmd_preempt h ht hes hsep hfr hlt r
  | release r => exact fun _ => h.release r
  | poolAcquire pl n => exact fun _ => gs_cmd_poolAcquire h hes hsep hfr hlt pl n
  | poolPreempt pl n => exact fun _ => gs_cmd_poolPreempt h hes hsep hfr hlt pl n
  | poolRelease pl n => exact fun _ => gs_cmd_poolRelease h pl n
  | bufGet b n => exact fun _ => gs_cmd_bufGet h hes hsep hfr hlt b n
  | bufPut b n => exact fun _ => gs_cmd_bufPut h hes hsep hfr hlt b n
  | oqGet q => exact fun _ => gs_cmd_oqGet h hes hsep hfr hlt q
  | oqPut q obj => exact fun _ => gs_cmd_oqPut h hes hsep hfr hlt q obj
  | pqGet k => exact gs_cmd_pqGet h hes hsep hfr hlt k
  | pqPut k obj pri v => exact gs_cmd_pqPut h hes hsep hfr hlt k obj pri v
  | pqCancel k v => exact fun _ => gs_cmd_pqCancel h k v
  | pqReprio k v pri => exact fun _ => gs_cmd_pqReprio h k v pri
  | condWait c kind a b => exact fun _ => gs_cmd_condWait h hsep hfr hlt c kind a b
  | condSignal c => exact fun _ => gs_cmd_condSignal h c
  | condCancel c q => exact fun _ => gs_cmd_condCancel h c q
  | condRemove c q => exact fun _ => gs_cmd_condRemove h c q
  | _ => exact fun _ => hin trivial

/-! ### all frames -/

/-- the resumption of any suspended call keeps homogeneity and the grant invariant; a deficit of one at the object end
    the call was waiting on (its own grant has just been taken off the event queue) is settled -/
theorem gs_resumeFrame (h : GS fr df w) (hes : EndSep w) (hsep : CondSep w) (f : Frame) (hfr : fr p = some f)
    (hlt : p < w.procs.size) (sig : Int) (hq : sig = sigSuccess → Quiet w p) (hfo : ∀ k, f = .hold k → NG w k)
    (hdf : ∀ d, frameDemand f ≠ some d → df d ≤ df' d) (hdf1 : ∀ d, frameDemand f = some d → df d ≤ df' d + 1)
    (hdf0 : sig ≠ sigSuccess → ∀ d, df d ≤ df' d) :
    (resumeFrame (w.modProc p fun y => { y with blocked := none }) p f sig).1.fault = none →
    GH df' (resumeFrame (w.modProc p fun y => { y with blocked := none }) p f sig).1 := by
  have hall : frameDemand f = none → ∀ d, df d ≤ df' d := fun hn d => hdf d (by rw [hn]; simp)
  have hin : (f = .yield ∨ (∃ q, f = .waitProc q) ∨ (∃ k, f = .waitEvent k) ∨ (∃ k, f = .hold k ∧ NG w k)) → frameDemand f = none →
      GH df' (resumeFrame (w.modProc p fun y => { y with blocked := none }) p f sig).1 := by
    intro hf hn
    have := h.gh.inert h.ginv.ei (inert_resumeFrame (p := p) f sig h.ginv.ei hf)
    exact ⟨this.1, this.2.mono (hall hn)⟩
  cases f with
  | hold k => exact fun _ => hin (Or.inr (Or.inr (Or.inr ⟨k, rfl, hfo k rfl⟩))) rfl
  | yield => exact fun _ => hin (Or.inl rfl) rfl
  | waitProc q => exact fun _ => hin (Or.inr (Or.inl ⟨q, rfl⟩)) rfl
  | waitEvent k => exact fun _ => hin (Or.inr (Or.inr (Or.inl ⟨k, rfl⟩))) rfl
  | acquire r =>
    exact fun _ => gs_resume_acquire h hes hsep hfr hlt sig hq (fun d hd => hdf d (by simp [frameDemand]; exact fun e => hd e.symm))
      hdf0
  | pool pl rem ini pre =>
    exact gs_resume_pool h hes hsep hfr hlt sig hq (fun d hd => hdf d (by simp [frameDemand]; exact fun e => hd e.symm))
      (hdf1 _ rfl) hdf0
  | bufGet b rem got =>
    exact fun _ => gs_resume_bufGet h hes hsep hfr hlt sig hq (fun d hd => hdf d (by simp [frameDemand]; exact fun e => hd e.symm))
      (hdf1 _ rfl) hdf0
  | bufPut b rem left =>
    exact fun _ => gs_resume_bufPut h hes hsep hfr hlt sig hq (fun d hd => hdf d (by simp [frameDemand]; exact fun e => hd e.symm))
      (hdf1 _ rfl) hdf0
  | oqGet q =>
    exact fun _ => gs_resume_oqGet h hes hsep hfr hlt sig hq (fun d hd => hdf d (by simp [frameDemand]; exact fun e => hd e.symm))
      (hdf1 _ rfl) hdf0
  | oqPut q obj =>
    exact fun _ => gs_resume_oqPut h hes hsep hfr hlt sig hq (fun d hd => hdf d (by simp [frameDemand]; exact fun e => hd e.symm))
      (hdf1 _ rfl) hdf0
  | pqGet k =>
    exact gs_resume_pqGet h hes hsep hfr hlt sig hq (fun d hd => hdf d (by simp [frameDemand]; exact fun e => hd e.symm))
      (hdf1 _ rfl) hdf0
  | pqPut k obj pri v =>
    exact gs_resume_pqPut h hes hsep hfr hlt sig hq (fun d hd => hdf d (by simp [frameDemand]; exact fun e => hd e.symm))
      (hdf1 _ rfl) hdf0
  | condWait c =>
    intro _
    have := gs_resume_condWait h hfr sig hq
    exact ⟨this.1, this.2.mono (hall rfl)⟩

end CimbaModel.Sim.S3
