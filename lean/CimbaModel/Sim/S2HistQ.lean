/-
  S2 — recorded histories (C14): object queues and priority queues.
-/
import CimbaModel.Sim.S2HistInv

namespace CimbaModel.Sim
open CimbaModel CimbaModel.Event CimbaModel.Generated CimbaModel.KPQ
open CimbaModel.HashHeap (HTag Item Order HH)

/-! ### object queues -/

theorem HistOQ.of_eq {w w' : World} (h : w'.oqs = w.oqs) (hn : w'.now = w.now) (hi : HistOQ w) : HistOQ w' := by
  unfold HistOQ; rw [h, hn]; exact hi

theorem HistOQ.oqGetLoop {w : World} (p : Pid) (q : Nat) (h : HistOQ w) : HistOQ (oqGetLoop w p q).1 := by
  unfold HistOQ at *
  unfold Sim.oqGetLoop
  split
  · simpa using h
  · rename_i x hx
    split
    · simp [recordOQ_eq]
      exact genRecord_restores _ (OKexc.set _ (OKexc.of_all _ h q) hx rfl)
    · simpa using h

theorem HistOQ.oqPutLoop {w : World} (p : Pid) (q obj : Nat) (h : HistOQ w) : HistOQ (oqPutLoop w p q obj).1 := by
  unfold HistOQ at *
  unfold Sim.oqPutLoop
  split
  · simpa using h
  · rename_i x hx
    split
    · simp [recordOQ_eq]
      exact genRecord_restores _ (OKexc.set _ (OKexc.of_all _ h q) hx rfl)
    · simpa using h

theorem HistOQ.setRecording {w : World} (kind idx : Nat) (on : Bool) (h : HistOQ w) : HistOQ (setRecording w kind idx on) := by
  by_cases hk : kind = 3
  · subst hk
    unfold HistOQ at *
    unfold Sim.setRecording
    dsimp only
    split
    · show ArrAll (RecOK oqOps (recordOQ { w with oqs := w.oqs.modify idx fun x => { x with recording := on } } idx).now)
        (recordOQ { w with oqs := w.oqs.modify idx fun x => { x with recording := on } } idx).oqs
      rw [recordOQ_eq]
      simp
      exact genRecord_restores _ (OKexc.modify_flag _ h (fun _ => rfl))
    · rename_i hon
      show ArrAll (RecOK oqOps (recordOQ w idx).now) ((recordOQ w idx).oqs.modify idx fun x => { x with recording := on })
      rw [recordOQ_eq]
      simp
      exact RecOK.modify_off _ (genRecord_ok _ h idx) (fun x => by simpa [oqOps] using hon) (fun _ => rfl)
  · have hf := setRecording_fp w kind idx on
    refine HistOQ.of_eq (hf.2.2.2.1 ?_) hf.2.2.2.2.2.1 h
    unfold recMask
    split <;> simp_all

theorem HistOQ.preserved : Preserved (fun w => TimeOk w.ev ∧ HistOQ w) := by
  refine Preserved.withTime (fun hs h => HistOQ.of_eq hs.2.2.2.1 hs.2.2.2.2.2.1 h) ?_ ?_ ?_ ?_
    (fun w p f h => HistOQ.of_eq (by simp) (by simp) h)
  · intro w ev' n hle h
    exact ArrAll.mono h (fun x ok => ok.mono _ hle)
  · intro w p c h
    by_cases hm : (cmdMask c).oqs = false
    · exact HistOQ.of_eq ((execCmd_fp w p c).2.2.2.1 hm) (execCmd_fp w p c).2.2.2.2.2.1 h
    · cases c <;> simp [cmdMask] at hm
      case oqGet q => simp only [execCmd]; split; exact h; exact HistOQ.oqGetLoop _ _ h
      case oqPut q obj => simp only [execCmd]; split; exact h; exact HistOQ.oqPutLoop _ _ _ h
      case recStart kind idx => exact HistOQ.setRecording _ _ _ h
      case recStop kind idx => exact HistOQ.setRecording _ _ _ h
  · intro w p f sig h
    by_cases hm : (frameMask f).oqs = false
    · exact HistOQ.of_eq ((resumeFrame_fp w p f sig).2.2.2.1 hm) (resumeFrame_fp w p f sig).2.2.2.2.2.1 h
    · cases f <;> simp [frameMask] at hm
      case oqGet q =>
        simp only [resumeFrame]
        split
        · exact h
        · split
          · exact HistOQ.oqGetLoop _ _ (HistOQ.of_eq (by simp) (by simp) h)
          · exact HistOQ.of_eq (by simp) (by simp) h
      case oqPut q obj =>
        simp only [resumeFrame]
        split
        · exact h
        · split
          · exact HistOQ.oqPutLoop _ _ _ (HistOQ.of_eq (by simp) (by simp) h)
          · exact HistOQ.of_eq (by simp) (by simp) h
  · intro w p v st h
    exact HistOQ.of_eq (by simp) (by simp) h

/-! ### priority queues -/

theorem HistPQ.of_eq {w w' : World} (h : w'.pqs = w.pqs) (hn : w'.now = w.now) (hi : HistPQ w) : HistPQ w' := by
  unfold HistPQ; rw [h, hn]; exact hi

theorem HistPQ.pqGetLoop {w : World} (p : Pid) (k : Nat) (h : HistPQ w) : HistPQ (pqGetLoop w p k).1 := by
  unfold HistPQ at *
  unfold Sim.pqGetLoop
  split
  · simpa using h
  · rename_i x hx
    split
    · split
      · simp [recordPQ_eq]
        exact genRecord_restores _ (OKexc.set _ (OKexc.of_all _ h k) hx rfl)
      · simpa using h
      · simpa using h
    · simpa using h

theorem HistPQ.pqPutLoop {w : World} (p : Pid) (k obj : Nat) (pri : Int) (v : Nat) (h : HistPQ w) :
    HistPQ (pqPutLoop w p k obj pri v).1 := by
  unfold HistPQ at *
  unfold Sim.pqPutLoop
  split
  · simpa using h
  · rename_i x hx
    split
    · split
      · simp [recordPQ_eq]
        exact genRecord_restores _ (OKexc.set _ (OKexc.of_all _ h k) hx rfl)
      · simpa using h
    · simpa using h

theorem HistPQ.pqCancel {w : World} (p : Pid) (k v : Nat) (h : HistPQ w) : HistPQ (execCmd w p (.pqCancel k v)).1 := by
  unfold HistPQ at *
  simp only [execCmd]
  split
  · exact h
  · rename_i x hx
    split
    · exact h
    · split
      · rename_i q' r hr
        split
        · simp [recordPQ_eq]
          exact genRecord_restores _ (OKexc.set _ (OKexc.of_all _ h k) hx rfl)
        · rename_i hr'
          have hrf : r = false := by cases r <;> simp_all
          subst hrf
          have := HashHeap.remove_false_eq hr
          subst this
          simp
          exact RecOK.set_same _ h hx rfl rfl rfl
      · simpa using h

theorem HistPQ.pqReprio {w : World} (p : Pid) (k v : Nat) (pri : Int) (h : HistPQ w) :
    HistPQ (execCmd w p (.pqReprio k v pri)).1 := by
  unfold HistPQ at *
  simp only [execCmd]
  split
  · exact h
  · rename_i x hx
    split
    · exact h
    · split
      · rename_i q' hr
        simp
        refine RecOK.set_same _ h hx rfl rfl ?_
        show ((q'.count : Nat) : Int) = x.queue.count
        rw [HashHeap.reprioritize_count hr]
      · simpa using h

theorem HistPQ.setRecording {w : World} (kind idx : Nat) (on : Bool) (h : HistPQ w) : HistPQ (setRecording w kind idx on) := by
  by_cases hk : kind = 0 ∨ kind = 1 ∨ kind = 2 ∨ kind = 3
  · have hf := setRecording_fp w kind idx on
    refine HistPQ.of_eq (hf.2.2.2.2.1 ?_) hf.2.2.2.2.2.1 h
    unfold recMask
    rcases hk with rfl | rfl | rfl | rfl <;> rfl
  · unfold HistPQ at *
    unfold Sim.setRecording
    have e0 : kind ≠ 0 := fun e => hk (Or.inl e)
    have e1 : kind ≠ 1 := fun e => hk (Or.inr (Or.inl e))
    have e2 : kind ≠ 2 := fun e => hk (Or.inr (Or.inr (Or.inl e)))
    have e3 : kind ≠ 3 := fun e => hk (Or.inr (Or.inr (Or.inr e)))
    have hon : ∀ w : World, ArrAll (RecOK pqOps w.now) w.pqs →
        ArrAll (RecOK pqOps (recordPQ { w with pqs := w.pqs.modify idx fun x => { x with recording := on } } idx).now)
          (recordPQ { w with pqs := w.pqs.modify idx fun x => { x with recording := on } } idx).pqs := by
      intro w h
      rw [recordPQ_eq]
      simp
      exact genRecord_restores _ (OKexc.modify_flag _ h (fun _ => rfl))
    have hoff : on = false → ArrAll (RecOK pqOps (recordPQ w idx).now)
        ((recordPQ w idx).pqs.modify idx fun x => { x with recording := on }) := by
      intro hon
      rw [recordPQ_eq]
      simp
      exact RecOK.modify_off _ (genRecord_ok _ h idx) (fun x => by simpa [pqOps] using hon) (fun _ => rfl)
    dsimp only
    split
    · split <;> first | contradiction | (split <;> first | contradiction | exact hon w h)
    · rename_i hno
      have : on = false := by cases on <;> simp_all
      split <;> first | contradiction | (split <;> first | contradiction | exact hoff this)

theorem HistPQ.preserved : Preserved (fun w => TimeOk w.ev ∧ HistPQ w) := by
  refine Preserved.withTime (fun hs h => HistPQ.of_eq hs.2.2.2.2.1 hs.2.2.2.2.2.1 h) ?_ ?_ ?_ ?_
    (fun w p f h => HistPQ.of_eq (by simp) (by simp) h)
  · intro w ev' n hle h
    exact ArrAll.mono h (fun x ok => ok.mono _ hle)
  · intro w p c h
    by_cases hm : (cmdMask c).pqs = false
    · exact HistPQ.of_eq ((execCmd_fp w p c).2.2.2.2.1 hm) (execCmd_fp w p c).2.2.2.2.2.1 h
    · cases c <;> simp [cmdMask] at hm
      case pqGet k => simp only [execCmd]; split; exact h; exact HistPQ.pqGetLoop _ _ h
      case pqPut k obj pri v => simp only [execCmd]; split; exact h; exact HistPQ.pqPutLoop _ _ _ _ _ h
      case pqCancel k v => exact HistPQ.pqCancel _ _ _ h
      case pqReprio k v pri => exact HistPQ.pqReprio _ _ _ _ h
      case recStart kind idx => exact HistPQ.setRecording _ _ _ h
      case recStop kind idx => exact HistPQ.setRecording _ _ _ h
  · intro w p f sig h
    by_cases hm : (frameMask f).pqs = false
    · exact HistPQ.of_eq ((resumeFrame_fp w p f sig).2.2.2.2.1 hm) (resumeFrame_fp w p f sig).2.2.2.2.2.1 h
    · cases f <;> simp [frameMask] at hm
      case pqGet k =>
        simp only [resumeFrame]
        split
        · exact h
        · split
          · exact HistPQ.pqGetLoop _ _ (HistPQ.of_eq (by simp) (by simp) h)
          · exact HistPQ.of_eq (by simp) (by simp) h
      case pqPut k obj pri v =>
        simp only [resumeFrame]
        split
        · exact h
        · split
          · exact HistPQ.pqPutLoop _ _ _ _ _ (HistPQ.of_eq (by simp) (by simp) h)
          · exact HistPQ.of_eq (by simp) (by simp) h
  · intro w p v st h
    exact HistPQ.of_eq (by simp) (by simp) h

end CimbaModel.Sim
