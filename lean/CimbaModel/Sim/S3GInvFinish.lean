/-
  S3 — `GInv`, part 8: timers, `cancel_awaiteds`, the end of a process.
-/
import CimbaModel.Sim.S3GInvRun
import CimbaModel.Sim.S3PInvFinish
import CimbaModel.Sim.S3Signals

namespace CimbaModel.Sim.S3
open CimbaModel CimbaModel.Sim CimbaModel.Event CimbaModel.Generated CimbaModel.KPQ
open CimbaModel.HashHeap (HTag Item Order HH WF abs liveTags)

variable {ex : Pid → Prop} {fr : Pid → Option Frame}

/-! ### timers (with a signal other than SUCCESS) -/

theorem GInv.timerAdd_fst {w : World} (hp : GInv ex fr w) (p : Pid) (d sig : Int) (hsig : encSig sig ≠ 0) :
    GInv ex fr (timerAdd w p d sig).1 := by
  simp only [Sim.timerAdd]
  refine GInv.addAwait_other ?_ p _ rfl
  exact hp.sched_harmless aTime (p + 1) sig (w.now + d) (w.proc p).prio
    ⟨by decide, fun h => absurd h (by decide), fun h => absurd h hsig⟩

theorem GInv.timerCancel_fst {w : World} (hp : GInv ex fr w) (p : Pid) (h : Nat) : GInv ex fr (timerCancel w p h).1 := by
  simp only [Sim.timerCancel]
  exact (hp.removeAwait_other p _ rfl).evCancel_fst h

theorem GInv.timersClear {w : World} (hp : GInv ex fr w) (p : Pid) : GInv ex fr (timersClear w p) := by
  unfold Sim.timersClear
  refine GInv.foldl (fun w q h => h.evCancel_fst q) _ ?_
  refine hp.mapAwaits p (fun l => l.filter fun a => match a with | .time _ => false | _ => true) ?_
  intro l; rw [List.filter_filter]; apply List.filter_congr; intro a _; cases a <;> rfl

theorem GInv.wakeWaiters {w : World} (hp : GInv ex fr w) (p : Pid) (sig : Int) : GInv ex fr (Sim.wakeWaiters w p sig) := by
  unfold Sim.wakeWaiters
  refine GInv.foldl (fun w q h => ?_) _ (hp.modProc_ctl p _ (fun _ => ⟨rfl, rfl⟩))
  exact h.sched_harmless aProc (q + 1) sig w.now (w.proc q).prio
    ⟨by decide, fun h => absurd h (by decide), fun _ => by decide⟩

/-! ### what dropping resources does to the waiting lists and the grants -/

/-- lists only shrink; a new pending event is a grant (or, from the condition signal of an observing condition, a condition
    wake-up) for a key that was queued, or is none of `GInv`'s business -/
structure GrantFoot (w w' : World) : Prop where
  q : ∀ g k, queued w' g k → queued w g k
  e : ∀ e ∈ w'.ev.pending, e ∈ w.ev.pending ∨
    ((e.item.a = aRes ∨ e.item.a = aCond) ∧ e.item.c = 0 ∧ ∃ g', queued w g' e.item.b)
  aw : ∀ x, (w'.proc x).awaits = (w.proc x).awaits

theorem GrantFoot.refl (w : World) : GrantFoot w w := ⟨fun _ _ h => h, fun _ h => Or.inl h, fun _ => rfl⟩

theorem GrantFoot.trans {w w1 w2 : World} (h1 : GrantFoot w w1) (h2 : GrantFoot w1 w2) : GrantFoot w w2 :=
  ⟨fun g k h => h1.q g k (h2.q g k h),
   fun e he => by
    rcases h2.e e he with h | ⟨a, b, g', c⟩
    · exact h1.e e h
    · exact Or.inr ⟨a, b, g', h1.q g' _ c⟩,
   fun x => (h2.aw x).trans (h1.aw x)⟩

theorem GrantFoot.same {w w' : World} (hg : w'.guards = w.guards) (he : w'.ev = w.ev) (hp : w'.procs = w.procs) : GrantFoot w w' :=
  ⟨fun g k h => (queued_congr hg g k).1 h, fun e h => Or.inl (by rw [← he]; exact h), fun x => by rw [proc_congr hp]⟩

theorem GrantFoot.signal {w : World} (hall : AllGWF w) (g : Nat) : GrantFoot w (signal w g) := by
  obtain ⟨h1, h2, _, h3⟩ := signal_foot hall g
  exact ⟨h1, h3, fun x => by rw [proc_congr h2]⟩

theorem GrantFoot.signal_after {w W : World} (hg : W.guards = w.guards) (he : W.ev = w.ev) (hp : W.procs = w.procs)
    (hall : AllGWF w) (g : Nat) : GrantFoot w (Sim.signal W g) :=
  (GrantFoot.same hg he hp).trans (GrantFoot.signal (fun g' gd h => hall g' gd (by rw [← hg]; exact h)) g)

/-- a clean process stays clean -/
theorem Clean.ofGrantFoot {w w' : World} {p : Pid} (hc : Clean w p) (hf : GrantFoot w w') : Clean w' p := by
  refine ⟨by unfold guardAw; rw [hf.aw]; exact hc.aw, fun g h => hc.nq g (hf.q g _ h), ?_, ?_⟩
  · intro e he hgr hb
    rcases hf.e e he with h | ⟨_, _, g', h⟩
    · exact hc.ng e h hgr hb
    · exact hc.nq g' (hb ▸ h)
  · intro e he hea hec hb
    rcases hf.e e he with h | ⟨h, _, _⟩
    · exact hc.nt e h hea hec hb
    · rw [hea] at h; rcases h with h | h <;> exact absurd h (by decide)

theorem recordPool_frame (w : World) (pl : Nat) :
    (recordPool w pl).guards = w.guards ∧ (recordPool w pl).ev = w.ev ∧ (recordPool w pl).procs = w.procs := by
  unfold recordPool
  split
  · split <;> exact ⟨rfl, rfl, rfl⟩
  · exact ⟨rfl, rfl, rfl⟩

theorem recordRes_frame (w : World) (r : Nat) :
    (recordRes w r).guards = w.guards ∧ (recordRes w r).ev = w.ev ∧ (recordRes w r).procs = w.procs := by
  unfold recordRes
  split
  · split <;> exact ⟨rfl, rfl, rfl⟩
  · exact ⟨rfl, rfl, rfl⟩

theorem GrantFoot.poolDropHolder {w : World} (hall : AllGWF w) (pl : Nat) (p : Pid) : GrantFoot w (poolDropHolder w pl p) := by
  unfold Sim.poolDropHolder
  split
  · exact GrantFoot.refl w
  · split
    · exact GrantFoot.refl w
    · split
      · dsimp only
        refine GrantFoot.signal_after ?_ ?_ ?_ hall _
        · exact (recordPool_frame _ pl).1
        · exact (recordPool_frame _ pl).2.1
        · exact (recordPool_frame _ pl).2.2
      · exact GrantFoot.same (by simp) (by simp) (by simp)
    · exact GrantFoot.same (by simp) (by simp) (by simp)

/-- one step of `cmi_process_drop_resources` -/
theorem GrantFoot.dropStep {w : World} (hall : AllGWF w) (p : Pid) (h : HoldRef) : GrantFoot w (dropStep p w h) := by
  cases h with
  | res r =>
    unfold S3.dropStep
    dsimp only
    split
    · refine GrantFoot.signal_after ?_ ?_ ?_ hall _
      · exact (recordRes_frame _ r).1
      · exact (recordRes_frame _ r).2.1
      · exact (recordRes_frame _ r).2.2
    · exact GrantFoot.refl w
  | pool pl => exact GrantFoot.poolDropHolder hall pl p

theorem GrantFoot.dropResources {w : World} (hp : GInv ex fr w) (p : Pid) : GrantFoot w (Sim.dropResources w p) := by
  rw [dropResources_eq]
  have h0 : GrantFoot w (w.modProc p fun x => { x with held := [] }) := by
    refine ⟨fun _ _ h => h, fun _ h => Or.inl h, fun x => ?_⟩
    rw [modProc_proc]; split
    · rename_i h; rw [h.1]
    · rfl
  have hG0 : GInv ex fr (w.modProc p fun x => { x with held := [] }) := hp.modProc_ctl p _ (fun _ => ⟨rfl, rfl⟩)
  generalize (w.modProc p fun x => { x with held := [] }) = w1 at h0 hG0
  generalize (w.proc p).held = l
  induction l generalizing w1 with
  | nil => exact h0
  | cons h hs ih =>
    simp only [List.foldl_cons]
    refine ih _ (h0.trans (GrantFoot.dropStep hG0.gw p h)) ?_
    cases h with
    | res r =>
      unfold S3.dropStep
      dsimp only
      split
      · have := hG0
        ginv
      · exact hG0
    | pool pl => exact hG0.poolDropHolder pl p


/-! ### cancel_awaiteds -/

theorem cancelFold_rel : ∀ (hs : List Nat) (w : World), CanRel w (hs.foldl (fun w h => (evCancel w h).1) w) := by
  intro hs
  induction hs with
  | nil => intro w; exact CanRel.refl w
  | cons h hs ih => intro w; exact (evCancel_rel w h).trans (ih _)

/-- the part of `guardWithdraw_foot` that needs no hypothesis on other guards -/
theorem guardWithdraw_shrink {w : World} (hall : AllGWF w) (g : Nat) (p : Pid) :
    (∀ g' k, queued (guardWithdraw w g p) g' k → queued w g' k) ∧ ¬ queued (guardWithdraw w g p) g (p + 1) ∧
    (guardWithdraw w g p).procs = w.procs := by
  have tail : ¬ queued w g (p + 1) →
      let w1 := (cancelKindFor w p aRes (some sigSuccess)).1
      let w2 := if (cancelKindFor w p aRes (some sigSuccess)).2 > 0 then signal w1 g else w1
      (∀ g' k, queued w2 g' k → queued w g' k) ∧ w2.procs = w.procs := by
    intro _
    have hrel : CanRel w (cancelKindFor w p aRes (some sigSuccess)).1 := by
      rw [cancelKindFor_eq]; exact cancelFold_rel _ w
    have hall1 : AllGWF (cancelKindFor w p aRes (some sigSuccess)).1 := by
      intro g' gd' h'; rw [hrel.guards] at h'; exact hall g' gd' h'
    dsimp only
    split
    · obtain ⟨hsq, hsp, _, _⟩ := signal_foot hall1 g
      exact ⟨fun g' k h => (queued_congr hrel.guards g' k).1 (hsq g' k h), hsp.trans hrel.procs⟩
    · exact ⟨fun g' k h => (queued_congr hrel.guards g' k).1 h, hrel.procs⟩
  cases hg : w.guards[g]? with
  | none =>
    have hnqg : ¬ queued w g (p + 1) := fun ⟨gd, h, _⟩ => by rw [hg] at h; cases h
    rw [guardWithdraw_noguard hg]
    obtain ⟨t1, t2⟩ := tail hnqg
    exact ⟨t1, fun h => hnqg (t1 g _ h), t2⟩
  | some gd =>
    have hwf := hall g gd hg
    by_cases hk : p + 1 ∈ keys (abs gd.q)
    · obtain ⟨q', hwf', hperm, heq⟩ := guardWithdraw_queued hg hwf hk
      rw [heq]
      refine ⟨?_, ?_, rfl⟩
      · intro g' k h
        rw [queued_setGuardQ hg] at h
        split at h
        · rename_i hgg; subst hgg
          obtain ⟨e, he, rfl⟩ := Event.mem_keys.1 h
          exact ⟨gd, hg, Event.mem_keys.2 ⟨e, (mem_remove.1 (hperm.mem_iff.1 he)).1, rfl⟩⟩
        · exact h
      · rw [queued_setGuardQ hg, if_pos rfl]
        intro hm
        obtain ⟨e, he, hek⟩ := Event.mem_keys.1 hm
        exact (mem_remove.1 (hperm.mem_iff.1 he)).2 hek
    · have hnqg : ¬ queued w g (p + 1) := fun ⟨gd', h, hk'⟩ => by rw [hg] at h; cases h; exact hk hk'
      rw [guardWithdraw_granted hg hwf hk]
      obtain ⟨t1, t2⟩ := tail hnqg
      exact ⟨t1, fun h => hnqg (t1 g _ h), t2⟩

/-- an exempt process drops all its awaitables -/
theorem GInv.clearAwaitsEx {w : World} {p : Pid} (hp : GInv (exAdd ex p) fr w) :
    GInv (exAdd ex p) fr (w.modProc p fun x => { x with awaits := [] }) := by
  have hpr : ∀ x, x ≠ p → (w.modProc p fun x => { x with awaits := [] }).proc x = w.proc x :=
    fun x hx => modProc_proc_ne w _ hx
  have hgp : guardAw (w.modProc p fun x => { x with awaits := [] }) p = [] := by
    unfold guardAw; rw [modProc_proc]; split
    · rfl
    · rename_i hn
      by_cases hsz : p < w.procs.size
      · exact absurd ⟨rfl, hsz⟩ hn
      · rw [proc_oob _ (Nat.le_of_not_lt hsz)]; rfl
  refine { hp with gsz := by simpa using hp.gsz, gk := ?_, ga := ?_, gfb := ?_, gr := ?_ }
  · intro g' k hq
    obtain ⟨h1, h2, h3⟩ := hp.gk g' k hq
    refine ⟨h1, by simpa using h2, fun hx => ?_⟩
    have hkp : k - 1 ≠ p := fun h => hx (Or.inr h)
    rw [hpr _ hkp]; exact h3 hx
  · intro x
    by_cases hx : x = p
    · subst hx; exact Or.inl hgp
    · unfold guardAw; rw [hpr x hx]; exact hp.ga x
  · intro x hx hb
    have hxp : x ≠ p := fun h => hx (Or.inr h)
    unfold guardAw; rw [hpr x hxp] at hb ⊢; exact hp.gfb x hx hb
  · intro e he hgr
    obtain ⟨h1, h2⟩ := hp.gr e he hgr
    refine ⟨h1, fun hx => ?_⟩
    have hkp : e.item.b - 1 ≠ p := fun h => hx (Or.inr h)
    obtain ⟨g', h3, h4⟩ := h2 hx
    exact ⟨g', by rw [hpr _ hkp]; exact h3, h4⟩

/-- the loop invariant of `cancel_awaiteds` for the guards -/
def CaG (ex : Pid → Prop) (fr : Pid → Option Frame) (p : Pid) (rest : List Await) (w : World) : Prop :=
  GInv (exAdd ex p) fr w ∧ guardAw w p = [] ∧ ∀ g', queued w g' (p + 1) → Await.guard g' ∈ rest

theorem CaG.step {p : Pid} {a : Await} {rest : List Await} {w : World} (h : CaG ex fr p (a :: rest) w) :
    CaG ex fr p rest (caStep p w a) := by
  obtain ⟨hp, haw, hq⟩ := h
  cases a with
  | time k =>
    have hrel := evCancel_rel w k
    have hcs : caStep p w (.time k) = (evCancel w k).1 := rfl
    rw [hcs]
    refine ⟨hp.evCancel_fst k, by unfold guardAw; rw [hrel.proc]; exact haw, fun g' hq' => ?_⟩
    rcases List.mem_cons.1 (hq g' ((queued_congr hrel.guards g' _).1 hq')) with h' | h'
    · cases h'
    · exact h'
  | guard g =>
    obtain ⟨f1, f2, f3⟩ := guardWithdraw_shrink hp.gw g p
    have hcs : caStep p w (.guard g) = Sim.guardWithdraw w g p := rfl
    rw [hcs]
    refine ⟨hp.guardWithdraw g p, by unfold guardAw; rw [proc_congr f3]; exact haw, fun g' hq' => ?_⟩
    rcases List.mem_cons.1 (hq g' (f1 g' _ hq')) with h' | h'
    · cases h'; exact absurd hq' f2
    · exact h'
  | proc r =>
    have hcs : caStep p w (.proc r) = w.modProc r fun x => { x with waiters := (removeFirst x.waiters p).1 } := rfl
    rw [hcs]
    refine ⟨hp.modProc_ctl r _ (fun _ => ⟨rfl, rfl⟩), ?_, fun g' hq' => ?_⟩
    · unfold guardAw
      rw [modProc_proc]; split
      · rename_i h'; obtain ⟨rfl, _⟩ := h'; exact haw
      · exact haw
    · rcases List.mem_cons.1 (hq g' hq') with h' | h'
      · cases h'
      · exact h'
  | event k =>
    refine ⟨hp.setEvWaiters _, haw, fun g' hq' => ?_⟩
    rcases List.mem_cons.1 (hq g' hq') with h' | h'
    · cases h'
    · exact h'

theorem CaG.foldl {p : Pid} : ∀ (l : List Await) {w : World}, CaG ex fr p l w → CaG ex fr p [] (l.foldl (caStep p) w) := by
  intro l
  induction l with
  | nil => intro w h; exact h
  | cons a l ih => intro w h; exact ih h.step

/-- `cmi_process_cancel_awaiteds`: afterwards the process is clean (queued nowhere, no grant, no timer pending) -/
theorem GInv.cancelAwaiteds {w : World} (hp : GInv ex fr w) (p : Pid) (hx : ¬ ex p) :
    GInv ex fr (Sim.cancelAwaiteds w p) ∧ Clean (Sim.cancelAwaiteds w p) p := by
  rw [cancelAwaiteds_eq]
  have h0 : CaG ex fr p (w.proc p).awaits (w.modProc p fun x => { x with awaits := [] }) := by
    refine ⟨(hp.exempt p).clearAwaitsEx, ?_, ?_⟩
    · unfold guardAw; rw [modProc_proc]; split
      · rfl
      · rename_i hn
        by_cases hsz : p < w.procs.size
        · exact absurd ⟨rfl, hsz⟩ hn
        · rw [proc_oob _ (Nat.le_of_not_lt hsz)]; rfl
    · intro g' hq'
      have hq'' : queued w g' (p + 1) := hq'
      have := (hp.gk g' _ hq'').2.2 (by simpa using hx)
      simpa using this
  obtain ⟨hE, haw, hnq⟩ := h0.foldl
  generalize ((w.proc p).awaits.foldl (caStep p) (w.modProc p fun x => { x with awaits := [] })) = w1 at hE haw hnq
  have hF := hE.cancelAllFor p
  obtain ⟨hrel, hgone, _⟩ := cancelAllFor_spec w1 p hE.ei
  have hc : Clean (Sim.cancelAllFor w1 p) p := by
    have hev : ∀ e ∈ (Sim.cancelAllFor w1 p).ev.pending, e.item.b = p + 1 → e.item.a = aEvent := by
      intro e he hb
      rcases hrel.pend e he with hold | ⟨_, _, _, _, _, _, heq⟩
      · exact absurd hb (hgone e he (EvInv.key_le hE.ei hold))
      · rw [heq]; rfl
    refine ⟨by unfold guardAw; rw [hrel.proc]; exact haw, ?_, ?_, ?_⟩
    · intro g' hq'
      have := hnq g' ((queued_congr hrel.guards g' _).1 hq')
      cases this
    · intro e he hgr hb
      have := hev e he hb
      rcases hgr with ⟨h1, _⟩ | h1 <;> rw [this] at h1 <;> exact absurd h1 (by decide)
    · intro e he hea _ hb
      have := hev e he hb
      rw [hea] at this; exact absurd this (by decide)
  exact ⟨hF.unexempt_clean hc, hc⟩

/-- the end of a process -/
theorem GInv.finishProc {w : World} (hp : GInv ex fr w) (p : Pid) (val : Int) (stopped : Bool) (hx : ¬ ex p) :
    GInv ex fr (Sim.finishProc w p val stopped) := by
  unfold Sim.finishProc
  have hpre : GInv ex fr (if stopped then Sim.dropResources (Sim.cancelAwaiteds w p) p else Sim.cancelAwaiteds (Sim.dropResources w p) p) ∧
      Clean (if stopped then Sim.dropResources (Sim.cancelAwaiteds w p) p else Sim.cancelAwaiteds (Sim.dropResources w p) p) p := by
    split
    · obtain ⟨h1, hc⟩ := hp.cancelAwaiteds p hx
      exact ⟨h1.dropResources p, hc.ofGrantFoot (GrantFoot.dropResources h1 p)⟩
    · exact (hp.dropResources p).cancelAwaiteds p hx
  obtain ⟨h1, hc⟩ := hpre
  generalize (if stopped then Sim.dropResources (Sim.cancelAwaiteds w p) p else Sim.cancelAwaiteds (Sim.dropResources w p) p) = w1 at h1 hc
  have h2 := h1.wakeWaiters p (if stopped then sigStopped else sigSuccess)
  -- waking the waiters keeps p clean
  have hc2 : Clean (Sim.wakeWaiters w1 p (if stopped then sigStopped else sigSuccess)) p := by
    rw [wakeWaiters_eq]
    refine ⟨?_, fun g hq => hc.nq g hq, ?_, ?_⟩
    · unfold guardAw; rw [pushAll_proc, modProc_proc]; split
      · rename_i h; rw [h.1]; exact hc.aw
      · exact hc.aw
    · intro e he hgr hb
      simp only [pushAll_pending, modProc_ev, List.mem_append] at he
      rcases he with he | he
      · obtain ⟨_, _, _, _, x, hx', heq⟩ := wakeEvs_props he
        simp only [procWakes, List.mem_map] at hx'
        obtain ⟨q, _, rfl⟩ := hx'
        rcases hgr with ⟨h, _⟩ | h <;> rw [heq] at h <;> simp [mkEv] at h <;> exact absurd h (by decide)
      · exact hc.ng e he hgr hb
    · intro e he hea hec hb
      simp only [pushAll_pending, modProc_ev, List.mem_append] at he
      rcases he with he | he
      · obtain ⟨_, _, _, _, x, hx', heq⟩ := wakeEvs_props he
        simp only [procWakes, List.mem_map] at hx'
        obtain ⟨q, _, rfl⟩ := hx'
        rw [heq] at hea; simp [mkEv] at hea; exact absurd hea (by decide)
      · exact hc.nt e he hea hec hb
  have h3 := h2.modBlocked p none (Or.inr (Or.inr hc2))
  have h4 := h3.modProc_ctl p (fun x => { x with status := .finished, exitVal := val }) (fun _ => ⟨rfl, rfl⟩)
  rw [modProc_modProc] at h4
  exact h4

end CimbaModel.Sim.S3
