/-
  S3 — the clock, continued: commands, resumption, the run loop of a process, and `dispatch`.
-/
import CimbaModel.Sim.S3Evo

namespace CimbaModel.Sim.S3
open CimbaModel CimbaModel.Sim CimbaModel.Event CimbaModel.Generated CimbaModel.KPQ
open CimbaModel.HashHeap (HTag Item Order HH WF abs liveTags)

theorem Evo.reprioEv {w0 w : World} (h : Evo w0 w) {k : Nat} {v : Int} {ev' : EvQ}
    (hr : reprioritize w.ev k v = .ok ev') : Evo w0 { w with ev := ev' } := by
  refine h.trans ?_
  have hinv := fun hi => (reprioritize_inv (q := w.ev) hi hr)
  unfold reprioritize at hr
  split at hr
  · cases hr
  · simp only [Except.ok.injEq] at hr
    subst hr
    refine ⟨rfl, fun hi => (hinv hi).1, id, Nat.le_refl _, rfl, rfl, rfl, rfl, rfl, rfl, ?_⟩
    intro e' he' _
    simp only [List.mem_map] at he'
    obtain ⟨e, he, rfl⟩ := he'
    refine ⟨e, he, ?_, ?_, ?_⟩ <;> split <;> rfl

theorem Evo.reprioGuard {w0 w : World} (h : Evo w0 w) (q : Pid) (v : Int) (g : Nat) : Evo w0 (reprioGuard w q v g) := by
  unfold S3.reprioGuard; evo

theorem Evo.prioAwaitStep {w0 w : World} (h : Evo w0 w) (q : Pid) (v : Int) (a : Await) : Evo w0 (prioAwaitStep q v w a) := by
  unfold S3.prioAwaitStep
  split
  · split
    · rename_i hr; exact h.reprioEv hr
    · exact h.fail _
  · exact h.reprioGuard q v _
  · exact h

theorem Evo.prioHeldStep {w0 w : World} (h : Evo w0 w) (q : Pid) (v : Int) (x : HoldRef) : Evo w0 (prioHeldStep q v w x) := by
  unfold S3.prioHeldStep; evo

theorem Evo.execCmd_fst {w0 w : World} (h : Evo w0 w) (p : Pid) (c : Cmd) : Evo w0 (execCmd w p c).1 := by
  cases c with
  | prioSet q v =>
    by_cases hq : q < w.procs.size
    · rw [prioSet_eq w p q v hq]
      dsimp only
      refine Evo.foldl (fun w x => (Evo.refl w).prioHeldStep q v x) _ ?_
      refine Evo.foldl (fun w x => (Evo.refl w).prioAwaitStep q v x) _ ?_
      evo
    · have : q ≥ w.procs.size := Nat.le_of_not_lt hq
      simp only [execCmd, this, if_true]
      exact h
  | _ => simp only [execCmd] <;> evo

theorem Evo.resumeFrame_fst {w0 w : World} (h : Evo w0 w) (p : Pid) (f : Frame) (sig : Int) :
    Evo w0 (resumeFrame w p f sig).1 := by
  cases f <;> simp only [resumeFrame] <;> evo

macro_rules | `(tactic| evo_step) => `(tactic| with_reducible apply Evo.execCmd_fst)
macro_rules | `(tactic| evo_step) => `(tactic| with_reducible apply Evo.resumeFrame_fst)

theorem Evo.runScript {w0 : World} : ∀ (fuel : Nat) {w : World}, Evo w0 w → ∀ p, Evo w0 (runScript fuel w p) := by
  intro fuel
  induction fuel with
  | zero => intro w h p; exact h.fail _
  | succ fuel ih =>
    intro w h p
    simp only [Sim.runScript]
    split
    · evo
    · rename_i c text hs
      have hx : Evo w0 (execCmd (w.emit s!"c {p} {(w.proc p).pc} {w.now} {text}") p c).1 := by evo
      split
      · rename_i w1 v extra heq
        rw [heq] at hx
        apply ih
        evo
      · rename_i w1 heq
        rw [heq] at hx
        apply ih
        evo
      · rename_i w1 heq
        rw [heq] at hx
        exact hx
      · rename_i w1 heq
        rw [heq] at hx
        split <;> evo

theorem Evo.resumeProc {w0 w : World} (h : Evo w0 w) (p : Pid) (sig : Int) : Evo w0 (resumeProc w p sig) := by
  simp only [Sim.resumeProc]
  split
  · exact h.fail _
  · split
    · exact h.fail _
    · rename_i f hb
      have hx : Evo w0 (resumeFrame (w.modProc p fun y => { y with blocked := none }) p f sig).1 := by evo
      split
      · rename_i w1 v extra heq
        rw [heq] at hx
        apply Evo.runScript
        evo
      · rename_i w1 heq; rw [heq] at hx; exact hx
      · rename_i w1 heq; rw [heq] at hx; exact hx
      · rename_i w1 heq; rw [heq] at hx; exact hx

/-! ### dispatch -/

/-- the world right after `cmb_event_execute_next` has taken the next event off the queue -/
def afterNext (w : World) (ev' : EvQ) : World := { w with ev := ev', dispatched := w.dispatched + 1 }

/-- … and has woken the processes waiting for that event (with SUCCESS) -/
def takeNext (w : World) (t : HTag) (ev' : EvQ) : World :=
  wakeEventWaiters { afterNext w ev' with evWaiters := (popWaiters w.evWaiters t.key).2 } (popWaiters w.evWaiters t.key).1 sigSuccess

/-- the action of the dispatched event `t` -/
def dispatchBody (w : World) (t : HTag) : World :=
  let p := t.item.b - 1
  let sig := decSig t.item.c
  let act := t.item.a
  if act = aStart then
    if (w.proc p).status = .running then w.fail s!"start of a running process {p}"
    else
      let w := w.modProc p fun y => { y with status := .running, pc := 0, blocked := none }
      runScript ((w.proc p).script.size + 2) w p
  else if act = aTime then
    let (w, _) := removeAwait w p (.time t.key)
    resumeProc w p sig
  else if act = aProc then
    let (w, _) := removeAwaitKind w p isProcA
    if isRunning w p then resumeProc w p sig else w
  else if act = aEvent then
    let (w, _) := removeAwaitKind w p isEventA
    if isRunning w p then resumeProc w p sig else w
  else if act = aRes ∨ act = aPreempt then
    if isRunning w p then resumeProc w p sig else w
  else if act = aCond then
    let (w, _) := removeAwaitKind w p isGuardA
    if isRunning w p then resumeProc w p sig else w
  else if act = aIntr then
    let w := cancelAwaiteds w p
    resumeProc w p sig
  else if act = aResume then resumeProc w p sig
  else w

theorem dispatch_eq (w : World) :
    dispatch w = match executeNext w.ev with
      | none => none
      | some (t, ev') => some (dispatchBody (takeNext w t ev') t) := by
  unfold dispatch
  cases executeNext w.ev with
  | none => rfl
  | some r => cases r; rfl

theorem Evo.dispatchBody {w0 w : World} (h : Evo w0 w) (t : HTag) : Evo w0 (dispatchBody w t) := by
  simp only [S3.dispatchBody]
  repeat' first | (with_reducible apply Evo.resumeProc) | (with_reducible apply Evo.runScript) | evo_step

theorem Evo.takeNext (w : World) (t : HTag) (ev' : EvQ) : Evo (afterNext w ev') (takeNext w t ev') := by
  unfold S3.takeNext
  have h := Evo.refl (afterNext w ev')
  evo

/-- what one dispatched event does to the clock and the kernel invariant: the clock becomes the time of the dispatched
    event — the minimum of the pending set under (time, −priority, handle) —, which is never earlier than before;
    nothing is pending in the past afterwards; handles are never reused; a fault is never cleared -/
structure ClockStep (w w' : World) : Prop where
  /-- the dispatched event -/
  ev : ∃ e ∈ w.ev.pending, (∀ x ∈ w.ev.pending, heap_order_check x e = false) ∧ w'.now = e.d ∧
    w'.ev.executed = e.key :: w.ev.executed ∧ w'.ev.current = e.key
  mono : w.now ≤ w'.now
  evinv : EvInv w'.ev
  fault : w'.fault = none → w.fault = none
  counter : w.ev.counter ≤ w'.ev.counter
  psize : w'.procs.size = w.procs.size
  dispatched : w'.dispatched = w.dispatched + 1
  /-- an event that is still pending afterwards has kept its time, action, subject and signal -/
  stable : ∀ e' ∈ w'.ev.pending, e'.key ≤ w.ev.counter →
    ∃ e ∈ w.ev.pending, e.key = e'.key ∧ e.d = e'.d ∧ e.item = e'.item

theorem dispatch_clock {w w' : World} (hi : EvInv w.ev) (hd : dispatch w = some w') : ClockStep w w' := by
  rw [dispatch_eq] at hd
  split at hd
  · cases hd
  · rename_i t ev' hnext
    obtain ⟨hinv', hmem, hmin, hnow, hcur, hle, hex, hpend⟩ := executeNext_inv hi hnext
    simp only [Option.some.injEq] at hd
    have hE : Evo (afterNext w ev') w' := by
      rw [← hd]; exact (Evo.takeNext w t ev').dispatchBody t
    have hctr : (afterNext w ev').ev.counter = w.ev.counter := by
      unfold executeNext at hnext
      split at hnext
      · cases hnext
      · simp only [Option.some.injEq, Prod.mk.injEq] at hnext
        rw [← hnext.2]; rfl
    refine ⟨⟨t, hmem, hmin, ?_, ?_, ?_⟩, ?_, hE.evinv hinv', ?_, ?_, hE.psize, hE.dispatched, ?_⟩
    · show w'.ev.now = t.d
      rw [hE.now]; exact hnow
    · rw [hE.executed]; exact hex
    · rw [hE.current]; exact hcur
    · show w.ev.now ≤ w'.ev.now
      rw [hE.now]; exact hle
    · intro hf; exact hE.fault hf
    · rw [← hctr]; exact hE.counter
    · intro e' he' hk
      obtain ⟨e, he, h1, h2, h3⟩ := hE.stable e' he' (by rw [hctr]; exact hk)
      have : e ∈ remove w.ev.pending t.key := by rw [← hpend]; exact he
      exact ⟨e, (mem_remove.1 this).1, h1, h2, h3⟩

/-! ### the whole run -/

/-- `ClockInv`: the kernel invariant (every issued handle in exactly one of pending / executed / cancelled; nothing
    pending in the past) -/
def ClockInv (w : World) : Prop := EvInv w.ev

theorem runAll_clock : ∀ (fuel : Nat) (w : World), EvInv w.ev →
    EvInv (runAll fuel w).ev ∧ w.now ≤ (runAll fuel w).now ∧ ((runAll fuel w).fault = none → w.fault = none) ∧
      w.ev.counter ≤ (runAll fuel w).ev.counter := by
  intro fuel
  induction fuel with
  | zero => intro w hi; exact ⟨hi, Int.le_refl _, id, Nat.le_refl _⟩
  | succ fuel ih =>
    intro w hi
    simp only [runAll]
    split
    · exact ⟨hi, Int.le_refl _, id, Nat.le_refl _⟩
    · split
      · exact ⟨hi, Int.le_refl _, id, Nat.le_refl _⟩
      · rename_i w' hd
        have hs := dispatch_clock hi hd
        obtain ⟨h1, h2, h3, h4⟩ := ih w' hs.evinv
        exact ⟨h1, Int.le_trans hs.mono h2, fun hf => hs.fault (h3 hf), Nat.le_trans hs.counter h4⟩

end CimbaModel.Sim.S3
