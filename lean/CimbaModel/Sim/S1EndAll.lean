/-
  S1 — `end_silences` at full strength (C09): the S1 invariants (`FullInv`) combined with the ownership invariants of
  S3 (`S3.AllInv`: event waits, guard waits, inertness of processes that are not running).
-/
import CimbaModel.Sim.S1SilentIRun
import CimbaModel.Sim.S3All
import CimbaModel.Sim.S3Built

namespace CimbaModel.Sim
open CimbaModel CimbaModel.Event CimbaModel.Generated CimbaModel.KPQ
open CimbaModel.HashHeap (HTag Item Order HH WF abs)

/-- what `end_silences` needs of a state: the six S1 invariants and, of S3, the process/event registry invariant, the
    guard ownership invariant and the inertness of processes that are not running -/
structure EndInv (w : World) : Prop where
  full : FullInv w
  p : S3.PInvB w
  g : S3.GInvB w
  nr : S3.NRInv w

theorem EndInv.of {w : World} (hf : FullInv w) (ha : S3.AllInv w) : EndInv w := ⟨hf, ha.p, ha.g, ha.nr⟩

/-- the combined initial conditions -/
structure InitAll (w : World) : Prop where
  full : FullInv w
  ok : S3.InitOkG w
  side : S3.SideOk w

/-- both families of invariants hold in every reachable state -/
theorem reach_all {w0 w : World} (hi : InitAll w0) (hr : S3.Reach w0 w) : FullInv w ∧ S3.AllInv w := by
  induction hr with
  | refl => exact ⟨hi.full, hi.ok.all hi.side⟩
  | step _ hd ih => exact ⟨fullinv_dispatch ih.1 hd, ih.2.dispatch hd⟩

theorem reach_endInv {w0 w : World} (hi : InitAll w0) (hr : S3.Reach w0 w) : EndInv w :=
  EndInv.of (reach_all hi hr).1 (reach_all hi hr).2

theorem runAll_endInv {w0 : World} (hi : InitAll w0) (fuel : Nat) : EndInv (runAll fuel w0) :=
  EndInv.of (fullinv_runAll fuel hi.full) ((hi.ok.all hi.side).runAll fuel w0)

/-- the end of a process keeps the combined invariant (also in the middle of a dispatch, at a command boundary) -/
theorem EndInv.finishProc {w : World} (h : EndInv w) (z : Pid) (val : Int) (stopped : Bool) :
    EndInv (Sim.finishProc w z val stopped) :=
  ⟨fullinv_finishProc h.full z val stopped,
   (S3.PInv.finishProc h.p z val stopped (S3.noEx_not z)).toB,
   (S3.GInv.finishProc h.g z val stopped (S3.noEx_not z)).toB,
   h.nr.finishProc z val stopped⟩

/-! ### what the combined invariant says about a process that is not running -/

section
variable {w : World} (h : EndInv w) (p : Pid) (hp : (w.proc p).status ≠ .running)
include h hp

theorem EndInv.inert : (w.proc p).awaits = [] ∧ (w.proc p).blocked = none ∧ (w.proc p).held = [] :=
  ⟨(h.nr p hp).1, (h.nr p hp).2, (h.full.all.dead p hp).2.2.1⟩

/-- (a) no wake-up of any kind is pending for it -/
theorem EndInv.no_wakeup (e : HTag) (he : e ∈ w.ev.pending) (hb : e.item.b = p + 1) :
    e.item.a ≠ aTime ∧ e.item.a ≠ aProc ∧ e.item.a ≠ aPreempt ∧ e.item.a ≠ aResume ∧ e.item.a ≠ aIntr ∧
    e.item.a ≠ aEvent ∧ e.item.a ≠ aCond ∧ ¬ (e.item.a = aRes ∧ e.item.c = 0) := by
  have hbl := (h.nr p hp).2
  have hs : e.item.a ≠ aTime ∧ e.item.a ≠ aProc ∧ e.item.a ≠ aPreempt ∧ e.item.a ≠ aResume := by
    have := h.full.all.silent.none_for p hp e he hb
    unfold silentAct at this
    simp at this
    exact ⟨this.1.1.1, this.1.1.2, this.1.2, this.2⟩
  have hgr : ¬ S3.isGrant e := by
    intro hg
    obtain ⟨p', g, f, hb', hf, _⟩ := h.g.grant_owned he hg
    have : p' = p := by omega
    subst this
    rw [hbl] at hf; cases hf
  refine ⟨hs.1, hs.2.1, hs.2.2.1, hs.2.2.2, h.full.intr.none_for p hp e he hb, ?_, fun hc => hgr (Or.inr hc),
    fun hc => hgr (Or.inl hc)⟩
  intro ha
  obtain ⟨p', k, hb', hf, _⟩ := h.p.eventWake_owned he ha
  have : p' = p := by omega
  subst this
  rw [hbl] at hf; cases hf

/-- (b1) it is in no guard's waiting list -/
theorem EndInv.not_queued (g : Nat) : ¬ S3.queued w g (p + 1) := by
  intro hq
  obtain ⟨p', f, hk, _, _, _, hf, _⟩ := h.g.queued_means hq
  have : p' = p := by omega
  subst this
  rw [(h.nr p' hp).2] at hf; cases hf

theorem EndInv.guardEnqueued_false (g : Nat) : guardEnqueued w g p = false := by
  unfold guardEnqueued
  cases hg : w.guards[g]? with
  | none => rfl
  | some gd =>
    dsimp only
    rw [HashHeap.isEnqueued_spec (h.g.gw g gd hg) (p + 1) (Nat.succ_ne_zero p)]
    have : p + 1 ∉ keys (abs gd.q) := fun hm => h.not_queued p hp g ⟨gd, hg, hm⟩
    simp [this]

/-- (b2) in no process's waiter list -/
theorem EndInv.not_waiter (q : Pid) : p ∉ (w.proc q).waiters := by
  intro hm
  have := h.full.all.wait.reg p q hm
  unfold World.pa at this
  rw [(h.nr p hp).1] at this
  cases this

/-- (b3) in no event's waiter list -/
theorem EndInv.not_event_waiter (k : Nat) (l : List Pid) (hm : (k, l) ∈ w.evWaiters) : p ∉ l := by
  intro hq
  have := h.p.e1 k l p hm hq (S3.noEx_not p)
  rw [(h.nr p hp).1] at this
  cases this

/-- (b4) it holds no resource -/
theorem EndInv.not_holder (r : Nat) (x : Res) (hx : w.res[r]? = some x) : x.holder ≠ some p := by
  intro hh
  have := (h.full.all.hold.mem_iff r p).2 (by rw [holder_eq w r x hx, hh])
  rw [(h.full.all.dead p hp).2.2.1] at this
  cases this

/-- (b5) it is on no pool's holder list and holds no pool units -/
theorem EndInv.not_pool_holder (pl : Nat) (x : Pool) (hx : w.pools[pl]? = some x) :
    p + 1 ∉ keys (abs x.holders) := by
  have := h.full.pool.not_running h.full.all.dead p hp pl
  rw [hk_eq w pl x hx] at this
  exact this

theorem EndInv.heldAmount_zero (pl : Nat) : heldAmount w pl p = 0 := by
  unfold heldAmount
  cases hx : w.pools[pl]? with
  | none => rfl
  | some x =>
    dsimp only
    split
    · rfl
    · have hwf := h.full.pool.wf pl x.holders (ph_eq w pl x hx)
      rw [HashHeap.findIndex_of_not_mem hwf (h.not_pool_holder p hp pl x hx)]
      rfl

end

/-- every command of a running, unsuspended process keeps the combined invariant: it also holds at every command
    boundary inside a dispatch (in particular right before a `stop`) -/
theorem EndInv.execCmd {w : World} (h : EndInv w) (hside : S3.SideOk w) (p : Pid) (hp : p < w.procs.size)
    (hrun : (w.proc p).status = .running) (hb : (w.proc p).blocked = none) (c : Cmd) (hok : S3.CmdOk c) :
    EndInv (Sim.execCmd w p c).1 := by
  have hpa : w.pa p = [] := by
    rcases h.full.all.wait.frame p with e | ⟨q, _, b⟩
    · exact e
    · rw [hb] at b; cases b
  obtain ⟨fr1, h1⟩ := S3.PInv.execCmd_ex (p := p) h.p hb hrun c
  obtain ⟨fr2, h2⟩ := S3.GInv.execCmd_ex (p := p) h.g hb hp hside.sep c hok
  exact ⟨fullinv_execCmd h.full p hp hrun hpa c, h1.toB, h2.toB, (S3.NRr.execCmd ⟨h.nr, hrun⟩ c).1⟩

end CimbaModel.Sim
