/-
  S1 — frame lemmas, second part: pools, buffers, queues, conditions, recording switches.
-/
import CimbaModel.Sim.S1Frame

namespace CimbaModel.Sim
open CimbaModel CimbaModel.Event CimbaModel.Generated
open CimbaModel.HashHeap (HTag Item Order HH)

/-! ### recording keeps holder and guard of every resource -/

theorem rv_set_same (w : World) (r : Nat) (x y : Res) (hx : w.res[r]? = some x)
    (hh : y.holder = x.holder) (hg : y.guard = x.guard) (r' : Nat) :
    World.rv { w with res := w.res.set! r y } r' = w.rv r' := by
  unfold World.rv
  simp only [Array.set!_eq_setIfInBounds, Array.getElem?_setIfInBounds]
  split
  · rename_i h; subst h
    split
    · simp [hx, hh, hg]
    · rename_i h2
      have : w.res[r]? = none := by simp at h2; simp [h2]
      rw [this] at hx; cases hx
  · rfl

@[simp] theorem recordRes_rv (w : World) (r r' : Nat) : (recordRes w r).rv r' = w.rv r' := by
  unfold recordRes
  split
  · split
    · rename_i x hx _; apply rv_set_same w r x _ hx <;> rfl
    · rfl
  · rfl

/-! ### pools -/

section
variable (w : World) (pl : Nat) (p : Pid) (n : Nat)
world_frame setHeldAmount : (setHeldAmount w pl p n) ~ w keeps ev evWaiters procs guards res bufs oqs pqs conds flags gvars now
  by (unfold setHeldAmount; frame_close)
world_frame poolUpdateRecord : (poolUpdateRecord w pl p n) ~ w keeps ev evWaiters guards res bufs oqs pqs conds flags gvars now np
  by (unfold poolUpdateRecord; zeta; frame_close)
proc_frame poolUpdateRecord : (poolUpdateRecord w pl p n) ~ w keeps prio status awaits waiters blocked pc script vars exitVal
  by (unfold poolUpdateRecord; zeta; frame_close)
end

/-! ### how the holdings change -/

theorem hcount_modProc (w : World) (p : Pid) (f : Proc → Proc) (q : Pid) (r : Nat) :
    (w.modProc p f).hcount q r =
      if q = p ∧ p < w.procs.size then (f (w.proc p)).held.count (.res r) else w.hcount q r := by
  unfold World.hcount; rw [proc_modProc]; split <;> rfl

/-- dropping a reference from the list of holdings: only that reference of that process goes -/
@[simp] theorem removeHeld_hcount (w : World) (p : Pid) (h : HoldRef) (q : Pid) (r : Nat) :
    (removeHeld w p h).1.hcount q r = if q = p ∧ h = .res r then 0 else w.hcount q r := by
  unfold removeHeld
  simp only [hcount_modProc]
  by_cases hq : q = p
  · subst hq
    by_cases hp : q < w.procs.size
    · simp only [hp, and_self, if_true, true_and]
      split
      · rename_i he; subst he
        simp [List.count_eq_zero]
      · rename_i he
        unfold World.hcount
        rw [List.count_filter]
        simp only [ne_eq, decide_not, Bool.not_eq_eq_eq_not, Bool.not_true, decide_eq_false_iff_not]
        exact fun e => he e.symm
    · simp only [hp, and_false, if_false, true_and]
      split
      · unfold World.hcount; rw [proc_oob w q hp]; rfl
      · rfl
  · simp [hq]

@[simp] theorem poolUpdateRecord_hcount (w : World) (pl : Nat) (p : Pid) (n : Nat) (q : Pid) (r : Nat) :
    (poolUpdateRecord w pl p n).hcount q r = w.hcount q r := by
  have key : (w.modProc p fun y => { y with held := .pool pl :: y.held }).hcount q r = w.hcount q r := by
    rw [hcount_modProc]; split
    · rename_i h; obtain ⟨rfl, _⟩ := h; simp [World.hcount]
    · rfl
  have hp : ∀ w' w'' : World, w'.procs = w''.procs → w'.hcount q r = w''.hcount q r := by
    intro w' w'' h; unfold World.hcount World.proc; rw [h]
  unfold poolUpdateRecord
  zeta
  repeat' split
  all_goals first
    | rfl
    | exact hp _ _ rfl
    | exact (hp _ _ rfl).trans key
    | (simp; done)
    | (simp [key]; done)

/-! ### the pool loops -/

theorem poolMug_keeps {β : Type _} (k : World → β)
    (hfail : ∀ w m, k (World.fail w m) = k w)
    (hpools : ∀ (w : World) ps, k { w with pools := ps } = k w)
    (hrem : ∀ w p pl, k (removeHeld w p (.pool pl)).1 = k w)
    (hs : ∀ w a s sig t pri, k (sched w a s sig t pri).1 = k w)
    (hupd : ∀ w pl p n, k (poolUpdateRecord w pl p n) = k w)
    (hrec : ∀ w pl, k (recordPool w pl) = k w)
    (hsig : ∀ w g, k (signal w g) = k w) :
    ∀ fuel w p pl rem, k (poolMug fuel w p pl rem).1 = k w := by
  have hin : ∀ w pl v, k (setPoolInUse w pl v) = k w := fun w pl v => hpools w _
  intro fuel
  induction fuel with
  | zero => intro w p pl rem; rfl
  | succ n ih =>
    intro w p pl rem
    unfold poolMug
    zeta
    repeat' split
    all_goals first
      | rfl
      | (simp only [hfail]; done)
      | (rw [ih]; simp only [hupd, hs, hrem, hpools]; done)
      | (simp only [hsig, hrec, hin, hupd, hs, hrem, hpools]; done)

section
variable (fuel : Nat) (w : World) (p : Pid) (pl rem : Nat)
world_frame poolMug : (poolMug fuel w p pl rem).1 ~ w keeps evWaiters res bufs oqs pqs conds flags gvars now np
  by (first | apply poolMug_keeps | apply poolMug_keeps (fun w => w.ev.now) | apply poolMug_keeps (fun w => w.procs.size)) <;>
     (intros; frame_close)
proc_frame poolMug : (poolMug fuel w p pl rem).1 ~ w keeps prio status awaits waiters blocked pc script vars exitVal
  by (apply poolMug_keeps (onProc _ q)) <;> (intros; frame_close)
@[simp] theorem poolMug_hcount (q : Pid) (r : Nat) : (poolMug fuel w p pl rem).1.hcount q r = w.hcount q r := by
  apply poolMug_keeps (fun w => World.hcount w q r) <;> (intros; first | (simp; done) | exact hcount_congr (fun q => rfl) _ _)
end

section
variable (w : World) (p : Pid) (pl rem initially : Nat) (preempt : Bool)
world_frame poolLoop : (poolLoop w p pl rem initially preempt).1 ~ w keeps evWaiters res bufs oqs pqs conds flags gvars now np
  by (unfold poolLoop; zeta; frame_close)
proc_frame poolLoop : (poolLoop w p pl rem initially preempt).1 ~ w keeps prio status waiters pc script vars exitVal
  by (unfold poolLoop; zeta; frame_close)
@[simp] theorem poolLoop_hcount (q : Pid) (r : Nat) : (poolLoop w p pl rem initially preempt).1.hcount q r = w.hcount q r := by
  unfold poolLoop; zeta; frame_close
world_frame poolRollback : (poolRollback w p pl initially) ~ w keeps evWaiters res bufs oqs pqs conds flags gvars now np
  by (unfold poolRollback; zeta; frame_close)
proc_frame poolRollback : (poolRollback w p pl initially) ~ w keeps prio status awaits waiters blocked pc script vars exitVal
  by (unfold poolRollback; zeta; frame_close)
@[simp] theorem poolRollback_hcount (q : Pid) (r : Nat) : (poolRollback w p pl initially).hcount q r = w.hcount q r := by
  unfold poolRollback; zeta; frame_close
end

/-! ### buffers, object queues, priority queues -/

section
variable (w : World) (p : Pid) (b rem got : Nat)
world_frame bufGetLoop : (bufGetLoop w p b rem got).1 ~ w keeps evWaiters res pools oqs pqs conds flags gvars now np
  by (unfold bufGetLoop; zeta; frame_close)
proc_frame bufGetLoop : (bufGetLoop w p b rem got).1 ~ w keeps prio status waiters held pc script vars exitVal
  by (unfold bufGetLoop; zeta; frame_close)
world_frame bufPutLoop : (bufPutLoop w p b rem got).1 ~ w keeps evWaiters res pools oqs pqs conds flags gvars now np
  by (unfold bufPutLoop; zeta; frame_close)
proc_frame bufPutLoop : (bufPutLoop w p b rem got).1 ~ w keeps prio status waiters held pc script vars exitVal
  by (unfold bufPutLoop; zeta; frame_close)
end

section
variable (w : World) (p : Pid) (k obj : Nat) (pri : Int) (v : Nat)
world_frame oqGetLoop : (oqGetLoop w p k).1 ~ w keeps evWaiters res pools bufs pqs conds flags gvars now np
  by (unfold oqGetLoop; zeta; frame_close)
proc_frame oqGetLoop : (oqGetLoop w p k).1 ~ w keeps prio status waiters held pc script vars exitVal
  by (unfold oqGetLoop; zeta; frame_close)
world_frame oqPutLoop : (oqPutLoop w p k obj).1 ~ w keeps evWaiters res pools bufs pqs conds flags gvars now np
  by (unfold oqPutLoop; zeta; frame_close)
proc_frame oqPutLoop : (oqPutLoop w p k obj).1 ~ w keeps prio status waiters held pc script vars exitVal
  by (unfold oqPutLoop; zeta; frame_close)
world_frame pqGetLoop : (pqGetLoop w p k).1 ~ w keeps evWaiters res pools bufs oqs conds flags gvars now np
  by (unfold pqGetLoop; zeta; frame_close)
proc_frame pqGetLoop : (pqGetLoop w p k).1 ~ w keeps prio status waiters held pc script vars exitVal
  by (unfold pqGetLoop; zeta; frame_close)
world_frame pqPutLoop : (pqPutLoop w p k obj pri v).1 ~ w keeps evWaiters res pools bufs oqs conds flags now np
  by (unfold pqPutLoop; zeta; frame_close)
proc_frame pqPutLoop : (pqPutLoop w p k obj pri v).1 ~ w keeps prio status waiters held pc script exitVal
  by (unfold pqPutLoop; zeta; frame_close)
end

end CimbaModel.Sim
