/-
  S3 — the grant invariant (no lost wake-ups), part 1: definitions and counting.

  `need w d`   : how much of the demand `d` (= an object end: resource, pool, buffer front / rear, …) is available, in
                 the unit in which one grant consumes it (min 1 for resources, pools, buffers whose consumers signal
                 again; the number of objects / free slots for the queues, whose consumers take exactly one).
  `gOf w d`    : the guard of that object end.
  `G w g`      : the number of pending grants (aRes, SUCCESS) whose process awaits guard `g`.
  `GI df w`    : for every object end with a non-empty waiting list, `need ≤ G + df` (df = deficit, 0 between dispatches).
-/
import CimbaModel.Sim.S3All

namespace CimbaModel.Sim.S3
open CimbaModel CimbaModel.Sim CimbaModel.Event CimbaModel.Generated CimbaModel.KPQ
open CimbaModel.HashHeap (HTag Item Order HH WF abs liveTags)

/-! ### lists -/

theorem length_le_of_nodup_subset {α : Type} [DecidableEq α] : ∀ (l l' : List α), l.Nodup → (∀ x ∈ l, x ∈ l') →
    l.length ≤ l'.length
  | [], _, _, _ => Nat.zero_le _
  | a :: l, l', hnd, hs => by
    have ha : a ∈ l' := hs a List.mem_cons_self
    have hnd' := List.nodup_cons.1 hnd
    have hsub : ∀ x ∈ l, x ∈ l'.erase a := by
      intro x hx
      have hne : x ≠ a := fun h => hnd'.1 (h ▸ hx)
      exact (List.mem_erase_of_ne hne).2 (hs x (List.mem_cons_of_mem _ hx))
    have ih := length_le_of_nodup_subset l (l'.erase a) hnd'.2 hsub
    rw [List.length_erase_of_mem ha] at ih
    have : 0 < l'.length := List.length_pos_of_mem ha
    simp only [List.length_cons]
    omega

theorem length_le_succ_of_nodup_subset_except {α : Type} [DecidableEq α] (l l' : List α) (a : α) (hnd : l.Nodup)
    (hs : ∀ x ∈ l, x ≠ a → x ∈ l') : l.length ≤ l'.length + 1 := by
  have h1 : (l.erase a).length ≤ l'.length := by
    refine length_le_of_nodup_subset _ _ (hnd.erase a) ?_
    intro x hx
    have hne : x ≠ a := fun h => by
      subst h
      exact (List.Nodup.mem_erase_iff hnd).1 hx |>.1 rfl
    exact hs x (List.mem_of_mem_erase hx) hne
  have h2 : l.length ≤ (l.erase a).length + 1 := by
    rw [List.length_erase]; split <;> omega
  omega

/-! ### definitions -/

/-- a grant: (aRes, SUCCESS) -/
def isG01 (e : HTag) : Prop := e.item.a = aRes ∧ e.item.c = 0

instance (e : HTag) : Decidable (isG01 e) := by unfold isG01; infer_instance

/-- a pending grant of guard `g`: its process awaits `g` -/
def grantOf (w : World) (g : Nat) (e : HTag) : Prop := isG01 e ∧ Await.guard g ∈ (w.proc (e.item.b - 1)).awaits

instance (w : World) (g : Nat) (e : HTag) : Decidable (grantOf w g e) := by unfold grantOf; infer_instance

/-- the handles of the pending grants of guard `g` -/
def grantKeys (w : World) (g : Nat) : List Nat := (w.ev.pending.filter fun e => decide (grantOf w g e)).map (·.key)

/-- the number of pending grants of guard `g` -/
def G (w : World) (g : Nat) : Nat := (grantKeys w g).length

/-- the waiting list of `g` is not empty -/
def Qne (w : World) (g : Nat) : Prop := ∃ k, queued w g k

/-- the guard of an object end (object ends are named by their demand predicate) -/
def gOf (w : World) : Demand → Option Nat
  | .resAvail r => (w.res[r]?).map resStat
  | .poolAvail p => (w.pools[p]?).map (fun x => (poolStat x).1)
  | .bufContent b => (w.bufs[b]?).map (fun x => (bufStat x).1)
  | .bufSpace b => (w.bufs[b]?).map (fun x => (bufStat x).2.1)
  | .oqContent q => (w.oqs[q]?).map (fun x => (oqStat x).1)
  | .oqSpace q => (w.oqs[q]?).map (fun x => (oqStat x).2.1)
  | .pqContent k => (w.pqs[k]?).map (fun x => (pqStat x).1)
  | .pqSpace k => (w.pqs[k]?).map (fun x => (pqStat x).2.1)
  | .cond _ _ _ => none

/-- how much is available at an object end, in units of one grant -/
def need (w : World) : Demand → Nat
  | .resAvail r => ((w.res[r]?).map fun x => if x.holder.isNone then 1 else 0).getD 0
  | .poolAvail p => ((w.pools[p]?).map fun x => min (x.cap - x.inUse) 1).getD 0
  | .bufContent b => ((w.bufs[b]?).map fun x => min x.level 1).getD 0
  | .bufSpace b => ((w.bufs[b]?).map fun x => min (x.cap - x.level) 1).getD 0
  | .oqContent q => ((w.oqs[q]?).map fun x => x.items.length).getD 0
  | .oqSpace q => ((w.oqs[q]?).map fun x => x.cap - x.items.length).getD 0
  | .pqContent k => ((w.pqs[k]?).map fun x => x.queue.count).getD 0
  | .pqSpace k => ((w.pqs[k]?).map fun x => x.cap - x.queue.count).getD 0
  | .cond _ _ _ => 0

theorem opt_pos {α : Type} (o : Option α) (f : α → Bool) (n : α → Nat) (h : ∀ x, f x = true ↔ 0 < n x) :
    (o.map f).getD false = true ↔ 0 < (o.map n).getD 0 := by
  cases o with
  | none => simp
  | some x => simpa using h x

/-- the demand of an object end holds iff something is available -/
theorem evalDemand_need (w : World) (d : Demand) (hd : ∀ k a b, d ≠ .cond k a b) : evalDemand w d = true ↔ 0 < need w d := by
  cases d with
  | cond k a b => exact absurd rfl (hd k a b)
  | resAvail r => exact opt_pos _ _ _ (fun x => by cases hx : x.holder <;> simp)
  | poolAvail r => exact opt_pos _ _ _ (fun x => by simp; omega)
  | bufContent r => exact opt_pos _ _ _ (fun x => by simp; omega)
  | bufSpace r => exact opt_pos _ _ _ (fun x => by simp; omega)
  | oqContent r => exact opt_pos _ _ _ (fun x => by simp)
  | oqSpace r => exact opt_pos _ _ _ (fun x => by simp; omega)
  | pqContent r => exact opt_pos _ _ _ (fun x => by simp)
  | pqSpace r => exact opt_pos _ _ _ (fun x => by simp; omega)

theorem gOf_not_cond {w : World} {d : Demand} {g : Nat} (h : gOf w d = some g) : ∀ k a b, d ≠ .cond k a b := by
  intro k a b hd; subst hd; cases h

theorem gOf_of_stat {w w' : World} (hs : Stat w w') (d : Demand) : gOf w' d = gOf w d := by
  have hmap : ∀ {α β γ : Type} (o o' : Option α) (st : α → β) (pr : β → γ), o'.map st = o.map st →
      o'.map (fun x => pr (st x)) = o.map (fun x => pr (st x)) := by
    intro α β γ o o' st pr h
    have := congrArg (Option.map pr) h
    simpa [Option.map_map, Function.comp_def] using this
  cases d <;> simp only [gOf]
  · rw [hs.res]
  · rw [hmap _ _ poolStat Prod.fst (hs.pools _)]
  · rw [hmap _ _ bufStat Prod.fst (hs.bufs _)]
  · rw [hmap _ _ bufStat (fun x => x.2.1) (hs.bufs _)]
  · rw [hmap _ _ oqStat Prod.fst (hs.oqs _)]
  · rw [hmap _ _ oqStat (fun x => x.2.1) (hs.oqs _)]
  · rw [hmap _ _ pqStat Prod.fst (hs.pqs _)]
  · rw [hmap _ _ pqStat (fun x => x.2.1) (hs.pqs _)]

/-- the object end a guard frame waits on -/
def frameDemand : Frame → Option Demand
  | .acquire r => some (.resAvail r)
  | .pool pl _ _ _ => some (.poolAvail pl)
  | .bufGet b _ _ => some (.bufContent b)
  | .bufPut b _ _ => some (.bufSpace b)
  | .oqGet q => some (.oqContent q)
  | .oqPut q _ => some (.oqSpace q)
  | .pqGet k => some (.pqContent k)
  | .pqPut k _ _ _ => some (.pqSpace k)
  | _ => none

theorem frameOn_gOf {w : World} {f : Frame} {d : Demand} (h : frameDemand f = some d) (g : Nat) :
    FrameOn w f g ↔ gOf w d = some g := by
  cases f <;> simp only [frameDemand, Option.some.injEq, reduceCtorEq] at h <;> subst h <;> exact Iff.rfl

/-- the grant invariant with deficits `df` -/
def GI (df : Demand → Nat) (w : World) : Prop :=
  ∀ d g, gOf w d = some g → Qne w g → need w d ≤ G w g + df d

/-- homogeneity: every waiter of the guard of an object end has registered that end's demand -/
def HG (w : World) : Prop :=
  ∀ d g, gOf w d = some g → ∀ gd, w.guards[g]? = some gd → ∀ k ∈ keys (abs gd.q), demandOf gd k = d

/-- distinct object ends have distinct guards (static) -/
def EndSep (w : World) : Prop := ∀ d d' g, gOf w d = some g → gOf w d' = some g → d = d'

theorem EndSep.ofStat {w w' : World} (h : EndSep w) (hs : Stat w w') : EndSep w' := by
  intro d d' g h1 h2
  rw [gOf_of_stat hs] at h1 h2
  exact h d d' g h1 h2

theorem GI.mono {df df' : Demand → Nat} {w : World} (h : GI df w) (hle : ∀ d, df d ≤ df' d) : GI df' w := by
  intro d g hg hq
  have := h d g hg hq
  have := hle d
  omega

/-! ### counting grants -/

theorem grantKeys_nodup {w : World} (hi : EvInv w.ev) (g : Nat) : (grantKeys w g).Nodup := by
  unfold grantKeys
  have h1 : ((w.ev.pending.filter fun e => decide (grantOf w g e)).map (·.key)).Sublist (keys w.ev.pending) :=
    (List.filter_sublist).map _
  exact h1.nodup hi.part.keysNodup

theorem mem_grantKeys {w : World} {g k : Nat} : k ∈ grantKeys w g ↔ ∃ e ∈ w.ev.pending, e.key = k ∧ grantOf w g e := by
  unfold grantKeys
  simp only [List.mem_map, List.mem_filter, decide_eq_true_eq]
  constructor
  · rintro ⟨e, ⟨he, hg⟩, rfl⟩; exact ⟨e, he, rfl, hg⟩
  · rintro ⟨e, he, rfl, hg⟩; exact ⟨e, ⟨he, hg⟩, rfl⟩

/-- grants persist ⇒ the count does not drop -/
theorem G_le_of_keep {w w' : World} (hi : EvInv w.ev) (g : Nat)
    (h : ∀ e ∈ w.ev.pending, grantOf w g e → ∃ e' ∈ w'.ev.pending, e'.key = e.key ∧ grantOf w' g e') : G w g ≤ G w' g := by
  unfold G
  refine length_le_of_nodup_subset _ _ (grantKeys_nodup hi g) ?_
  intro k hk
  obtain ⟨e, he, rfl, hg⟩ := mem_grantKeys.1 hk
  obtain ⟨e', he', hk', hg'⟩ := h e he hg
  exact mem_grantKeys.2 ⟨e', he', hk', hg'⟩

/-- … except for one handle ⇒ it drops by at most one -/
theorem G_le_succ_of_keep_except {w w' : World} (hi : EvInv w.ev) (g : Nat) (k0 : Nat)
    (h : ∀ e ∈ w.ev.pending, e.key ≠ k0 → grantOf w g e → ∃ e' ∈ w'.ev.pending, e'.key = e.key ∧ grantOf w' g e') :
    G w g ≤ G w' g + 1 := by
  unfold G
  refine length_le_succ_of_nodup_subset_except _ _ k0 (grantKeys_nodup hi g) ?_
  intro k hk hne
  obtain ⟨e, he, rfl, hg⟩ := mem_grantKeys.1 hk
  obtain ⟨e', he', hk', hg'⟩ := h e he hne hg
  exact mem_grantKeys.2 ⟨e', he', hk', hg'⟩

/-- one more grant -/
theorem G_succ_le_of_new {w w' : World} (hi : EvInv w.ev) (g : Nat) {e0 : HTag} (he0 : e0 ∈ w'.ev.pending)
    (hg0 : grantOf w' g e0) (hnew : ∀ e ∈ w.ev.pending, e.key ≠ e0.key)
    (h : ∀ e ∈ w.ev.pending, grantOf w g e → ∃ e' ∈ w'.ev.pending, e'.key = e.key ∧ grantOf w' g e') :
    G w g + 1 ≤ G w' g := by
  unfold G
  have h1 : (e0.key :: grantKeys w g).length ≤ (grantKeys w' g).length := by
    refine length_le_of_nodup_subset _ _ ?_ ?_
    · refine List.nodup_cons.2 ⟨?_, grantKeys_nodup hi g⟩
      intro hk
      obtain ⟨e, he, hk', _⟩ := mem_grantKeys.1 hk
      exact hnew e he hk'
    · intro k hk
      rcases List.mem_cons.1 hk with rfl | hk
      · exact mem_grantKeys.2 ⟨e0, he0, rfl, hg0⟩
      · obtain ⟨e, he, rfl, hg⟩ := mem_grantKeys.1 hk
        obtain ⟨e', he', hk', hg'⟩ := h e he hg
        exact mem_grantKeys.2 ⟨e', he', hk', hg'⟩
  simpa using h1

theorem G_zero_of_no_pending {w : World} (h : w.ev.pending = []) (g : Nat) : G w g = 0 := by
  unfold G grantKeys; rw [h]; rfl

end CimbaModel.Sim.S3
