/-
  S2 — recorded histories (C14): resources.
-/
import CimbaModel.Sim.S2HistInv

namespace CimbaModel.Sim
open CimbaModel CimbaModel.Event CimbaModel.Generated CimbaModel.KPQ
open CimbaModel.HashHeap (HTag Item Order HH)

theorem HistRes.of_eq {w w' : World} (h : w'.res = w.res) (hn : w'.now = w.now) (hi : HistRes w) : HistRes w' := by
  unfold HistRes; rw [h, hn]; exact hi

/-- `grab` changes the holder of `r` only -/
theorem grab_res (w : World) (r : Nat) (p : Pid) :
    (grab w r p).res = match w.res[r]? with
      | some x => w.res.set! r { x with holder := some p }
      | none => w.res := by
  unfold grab
  cases hx : w.res[r]? with
  | none => rfl
  | some x =>
    dsimp only
    split <;> simp

theorem grab_exc {n : Int} {w : World} (r : Nat) (p : Pid) {i : Nat} (h : OKexc resOps n i w.res) (hi : i = r) :
    OKexc resOps n i (grab w r p).res := by
  rw [grab_res]
  subst hi
  split
  · rename_i x hx
    rw [Array.set!_eq_setIfInBounds]
    exact OKexc.set _ h hx rfl
  · exact h

theorem HistRes.acquireStep {w : World} (p : Pid) (r : Nat) (h : HistRes w) : HistRes (acquireStep w p r).1 := by
  unfold HistRes at *
  unfold Sim.acquireStep
  split
  · simpa using h
  · split
    · simp [recordRes_eq]
      exact genRecord_restores _ (grab_exc r p (OKexc.of_all _ h r) rfl)
    · simpa using h

theorem HistRes.release {w : World} (p : Pid) (r : Nat) (h : HistRes w) : HistRes (execCmd w p (.release r)).1 := by
  unfold HistRes at *
  simp only [execCmd]
  split
  · exact h
  · rename_i x hx
    split
    · exact h
    · simp [recordRes_eq]
      exact genRecord_restores _ (OKexc.set _ (OKexc.of_all _ h r) hx rfl)

theorem HistRes.preempt {w : World} (p : Pid) (r : Nat) (h : HistRes w) : HistRes (execCmd w p (.preempt r)).1 := by
  simp only [execCmd]
  split
  · exact h
  · rename_i x hx
    split
    · exact h
    · split
      · -- free: grab and record
        unfold HistRes at *
        simp [recordRes_eq]
        exact genRecord_restores _ (grab_exc r p (OKexc.of_all _ h r) rfl)
      · rename_i victim hvic
        split
        · -- the holder changes from the victim to the caller: the recorded value (held) stays
          unfold HistRes at *
          simp
          rw [grab_res]
          simp
          have hx' : (w.res.modify r fun y => { y with holder := none })[r]? =
              some { x with holder := none } := by
            rw [Array.getElem?_modify, if_pos rfl, hx]; rfl
          rw [hx']
          dsimp only
          have hexc := OKexc.set resOps (y := { x with holder := some p })
            (OKexc.modify resOps (f := fun y => { y with holder := none }) (OKexc.of_all _ h r) (fun _ => rfl)) hx' rfl
          refine hexc.upgrade _ ?_
          intro y hy
          rw [Array.getElem?_setIfInBounds, if_pos rfl] at hy
          split at hy
          · cases hy
            have ok := h r x hx
            refine ⟨ok.1, fun hr => ?_⟩
            obtain ⟨s, hs, hv⟩ := ok.2 hr
            refine ⟨s, hs, ?_⟩
            rw [hv]
            simp [resOps, hvic]
          · cases hy
        · exact HistRes.acquireStep _ _ h

theorem HistRes.dropResources {w : World} (p : Pid) (h : HistRes w) : HistRes (dropResources w p) := by
  unfold Sim.dropResources
  dsimp only
  have h0 : HistRes (w.modProc p fun x => { x with held := [] }) := HistRes.of_eq (by simp) (by simp) h
  generalize (w.modProc p fun x => { x with held := [] }) = w0 at h0
  generalize (w.proc p).held = hs
  induction hs generalizing w0 with
  | nil => exact h0
  | cons a rest ih =>
    rw [List.foldl_cons]
    apply ih
    cases a with
    | res r =>
      dsimp only
      split
      · rename_i x hx
        unfold HistRes at *
        simp [recordRes_eq]
        exact genRecord_restores _ (OKexc.set _ (OKexc.of_all _ h0 r) hx rfl)
      · exact h0
    | pool pl => exact HistRes.of_eq (by simp) (by simp) h0

theorem HistRes.finishProc {w : World} (p : Pid) (v : Int) (st : Bool) (h : HistRes w) : HistRes (finishProc w p v st) := by
  unfold Sim.finishProc
  dsimp only
  have h1 : HistRes (if st = true then Sim.dropResources (cancelAwaiteds w p) p else cancelAwaiteds (Sim.dropResources w p) p) := by
    split
    · exact HistRes.dropResources _ (HistRes.of_eq (by simp) (by simp) h)
    · exact HistRes.of_eq (by simp) (by simp) (HistRes.dropResources p h)
  exact HistRes.of_eq (by simp) (by simp) h1

theorem HistRes.setRecording {w : World} (kind idx : Nat) (on : Bool) (h : HistRes w) : HistRes (setRecording w kind idx on) := by
  by_cases hk : kind = 0
  · subst hk
    unfold HistRes at *
    unfold Sim.setRecording
    dsimp only
    split
    · show ArrAll (RecOK resOps (recordRes { w with res := w.res.modify idx fun x => { x with recording := on } } idx).now)
        (recordRes { w with res := w.res.modify idx fun x => { x with recording := on } } idx).res
      rw [recordRes_eq]
      simp
      exact genRecord_restores _ (OKexc.modify_flag _ h (fun _ => rfl))
    · rename_i hon
      show ArrAll (RecOK resOps (recordRes w idx).now) ((recordRes w idx).res.modify idx fun x => { x with recording := on })
      rw [recordRes_eq]
      simp
      exact RecOK.modify_off _ (genRecord_ok _ h idx) (fun x => by simpa [resOps] using hon) (fun _ => rfl)
  · have hf := setRecording_fp w kind idx on
    refine HistRes.of_eq (hf.1 ?_) hf.2.2.2.2.2.1 h
    unfold recMask
    split <;> simp_all

theorem HistRes.preserved : Preserved (fun w => TimeOk w.ev ∧ HistRes w) := by
  refine Preserved.withTime (fun hs h => HistRes.of_eq hs.1 hs.2.2.2.2.2.1 h) ?_ ?_ ?_ ?_
    (fun w p f h => HistRes.of_eq (by simp) (by simp) h)
  · intro w ev' n hle h
    exact ArrAll.mono h (fun x ok => ok.mono _ hle)
  · intro w p c h
    by_cases hm : (cmdMask c).res = false
    · exact HistRes.of_eq ((execCmd_fp w p c).1 hm) (execCmd_fp w p c).2.2.2.2.2.1 h
    · cases c <;> simp [cmdMask] at hm
      case stop q val =>
        simp only [execCmd]
        split
        · exact HistRes.finishProc _ _ _ h
        · split
          · exact HistRes.finishProc _ _ _ h
          · exact h
      case exit val => simp only [execCmd]; exact HistRes.finishProc _ _ _ h
      case acquire r => simp only [execCmd]; exact HistRes.acquireStep _ _ h
      case preempt r => exact HistRes.preempt _ _ h
      case release r => exact HistRes.release _ _ h
      case recStart kind idx => exact HistRes.setRecording _ _ _ h
      case recStop kind idx => exact HistRes.setRecording _ _ _ h
  · intro w p f sig h
    by_cases hm : (frameMask f).res = false
    · exact HistRes.of_eq ((resumeFrame_fp w p f sig).1 hm) (resumeFrame_fp w p f sig).2.2.2.2.2.1 h
    · cases f <;> simp [frameMask] at hm
      case acquire r =>
        simp only [resumeFrame]
        split
        · exact h
        · split
          · exact HistRes.acquireStep _ _ (HistRes.of_eq (by simp) (by simp) h)
          · exact HistRes.of_eq (by simp) (by simp) h
  · intro w p v st h
    exact HistRes.finishProc _ _ _ h

end CimbaModel.Sim
