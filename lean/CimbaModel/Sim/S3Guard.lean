/-
  S3 — the waiting lists: exact pre/post statements of `guardSignal` (front step), `guardRemove`,
  `guardWaitEnter`, `guardWithdraw`, on top of the hashheap refinement (C02).
-/
import CimbaModel.Sim.S3Frame
import CimbaModel.HashHeap.GuardOrder
import CimbaModel.HashHeap.RefineSpec

namespace CimbaModel.Sim.S3
open CimbaModel CimbaModel.Sim CimbaModel.Event CimbaModel.Generated CimbaModel.KPQ
open CimbaModel.HashHeap (HTag Item Order HH WF abs liveTags)

/-- the waiting list of a guard is a well-formed hashheap under the regenerated guard order -/
abbrev GWF (q : HH) : Prop := WF guard_queue_check q

/-- the demand predicate registered for key `k` (the C code keeps it in the tag) -/
def demandOf (gd : Guard) (k : Nat) : Demand := (gd.demands.lookup k).getD (.cond 99 0 0)

/-- the part of `cmb_resourceguard_signal` that concerns the guard's own queue -/
def frontStep (w : World) (g : Nat) (gd : Guard) : World :=
  if gd.q.count = 0 then w else
  match HashHeap.peek gd.q with
  | .ok (some t) =>
    let dem := (gd.demands.lookup t.key).getD (.cond 99 0 0)
    if evalDemand w dem then
      match HashHeap.dequeue guard_queue_check gd.q with
      | .ok (q', _) =>
        let w := setGuardQ w g q'
        let pid := t.key - 1
        (sched w aRes (pid + 1) sigSuccess w.now (w.proc pid).prio).1
      | .error f => w.fail s!"guard dequeue: {f}"
    else w
  | .ok none => w
  | .error f => w.fail s!"guard peek: {f}"

theorem guardSignalF_zero (fwd : Bool) (w : World) (g : Nat) :
    guardSignalF fwd 0 w g = w.fail "observer chain too deep (cycle?)" := rfl

theorem guardSignal_zero (w : World) (g : Nat) : guardSignal 0 w g = w.fail "observer chain too deep (cycle?)" := rfl

/-- what a signal does at the guard itself: `cmb_resourceguard_signal` called directly (`fwd = false`) looks at the front
    waiter; a signal forwarded from an observed guard (`fwd = true`) to a guard with a handler (a condition's guard) is
    `cmb_condition_signal` — every waiter is evaluated —, to any other guard again the front step -/
def ownStep (fwd : Bool) (w : World) (g : Nat) (gd : Guard) : World :=
  if fwd && hasHandler w g then (condSignal w g).1 else frontStep w g gd

/-- the delivery of a forwarded signal to the observer `o` (the body of the loop of `forward_signal`) -/
abbrev fwdSignal (fuel : Nat) (w : World) (o : Nat) : World := guardSignalF true fuel w o

theorem guardSignalF_succ (fwd : Bool) (fuel : Nat) (w : World) (g : Nat) :
    guardSignalF fwd (fuel + 1) w g =
      match w.guards[g]? with
      | none => w
      | some gd => gd.observers.foldl (fun w o => fwdSignal fuel w o) (ownStep fwd w g gd) := by
  simp only [guardSignalF, ownStep, frontStep, fwdSignal]
  rfl

/-- `guardSignal` = front step on the guard's own queue, then the forwarded signal to every observer -/
theorem guardSignal_succ (fuel : Nat) (w : World) (g : Nat) :
    guardSignal (fuel + 1) w g =
      match w.guards[g]? with
      | none => w
      | some gd => gd.observers.foldl (fun w o => fwdSignal fuel w o) (frontStep w g gd) := by
  show guardSignalF false (fuel + 1) w g = _
  rw [guardSignalF_succ]
  simp [ownStep]

theorem ownStep_direct (w : World) (g : Nat) (gd : Guard) : ownStep false w g gd = frontStep w g gd := by
  simp [ownStep]

theorem ownStep_handler {w : World} {g : Nat} (h : hasHandler w g = true) (gd : Guard) :
    ownStep true w g gd = (condSignal w g).1 := by
  simp [ownStep, h]

theorem ownStep_plain {w : World} {g : Nat} (h : hasHandler w g = false) (gd : Guard) :
    ownStep true w g gd = frontStep w g gd := by
  simp [ownStep, h]

/-- a forwarded signal reaches an observer without a handler as a plain `cmb_resourceguard_signal` -/
theorem fwdSignal_plain {w : World} {o : Nat} (h : hasHandler w o = false) (fuel : Nat) :
    fwdSignal fuel w o = guardSignal fuel w o := by
  cases fuel with
  | zero => rfl
  | succ n =>
    show guardSignalF true (n + 1) w o = guardSignalF false (n + 1) w o
    rw [guardSignalF_succ, guardSignalF_succ]
    cases hg : w.guards[o]? with
    | none => rfl
    | some gd => simp only [ownStep_plain h, ownStep_direct]

/-- a forwarded signal reaches an observer with a handler (a condition) as `cmb_condition_signal`, and travels on -/
theorem fwdSignal_handler {w : World} {o : Nat} (h : hasHandler w o = true) (fuel : Nat) :
    fwdSignal (fuel + 1) w o =
      match w.guards[o]? with
      | none => w
      | some od => od.observers.foldl (fun w o' => fwdSignal fuel w o') (condSignal w o).1 := by
  show guardSignalF true (fuel + 1) w o = _
  rw [guardSignalF_succ]
  cases hg : w.guards[o]? with
  | none => rfl
  | some gd => simp only [ownStep_handler h]

theorem hasHandler_iff {w : World} {g : Nat} : hasHandler w g = true ↔ ∃ c : Nat, w.conds[c]? = some g := by
  unfold hasHandler
  rw [Array.contains_iff_mem, Array.mem_iff_getElem?]

theorem hasHandler_congr {w w' : World} (h : w'.conds = w.conds) (g : Nat) : hasHandler w' g = hasHandler w g := by
  unfold hasHandler; rw [h]

/-- a grant: the entry leaves the queue and its wake-up (aRes, SUCCESS) is scheduled at the current time
    with the waiter's current priority -/
def grant (w : World) (g : Nat) (q' : HH) (k : Nat) : World :=
  pushEv (setGuardQ w g q') aRes k sigSuccess w.now (w.proc (k - 1)).prio

/-- exact behaviour of the front step on a well-formed queue -/
theorem frontStep_spec (w : World) (g : Nat) (gd : Guard) (hwf : GWF gd.q) :
    (gd.q.count = 0 → frontStep w g gd = w) ∧
    (0 < gd.q.count →
      IsMin guard_queue_check (abs gd.q) (norm (gd.q.tag 1)) ∧
      (evalDemand w (demandOf gd (gd.q.tag 1).key) = false → frontStep w g gd = w) ∧
      (evalDemand w (demandOf gd (gd.q.tag 1).key) = true →
        ∃ q', HashHeap.dequeue guard_queue_check gd.q = .ok (q', some (gd.q.tag 1)) ∧ GWF q' ∧
          (abs gd.q).Perm (norm (gd.q.tag 1) :: abs q') ∧
          frontStep w g gd = grant w g q' (gd.q.tag 1).key)) := by
  constructor
  · intro h0; simp [frontStep, h0]
  · intro hpos
    have hne : gd.q.count ≠ 0 := by omega
    have hpeek := HashHeap.peek_spec hwf hpos
    refine ⟨HashHeap.root_isMin_abs hwf hpos, ?_, ?_⟩
    · intro hd
      unfold demandOf at hd
      simp [frontStep, hne, hpeek, hd]
    · intro hd
      unfold demandOf at hd
      obtain ⟨q', hdq, hwf', hperm, _⟩ := HashHeap.dequeue_abs hwf hpos
      refine ⟨q', hdq, hwf', hperm, ?_⟩
      have hk : (gd.q.tag 1).key ≠ 0 := (hwf.keyOk 1 (Nat.le_refl _) hpos).1
      have hk1 : (gd.q.tag 1).key - 1 + 1 = (gd.q.tag 1).key := by omega
      simp only [frontStep, hne, if_false, hpeek, hd, if_true, hdq, hk1]
      have := sched_now (setGuardQ w g q') aRes (gd.q.tag 1).key sigSuccess ((setGuardQ w g q').proc ((gd.q.tag 1).key - 1)).prio
      rw [this]
      rfl


/-! ### the footprint of a signal, observers included -/

/-- every waiting list is a well-formed hashheap -/
def AllGWF (w : World) : Prop := ∀ (g : Nat) (gd : Guard), w.guards[g]? = some gd → GWF gd.q

/-- a wake-up with action `a` produced by a signal between `w` and `w'`: an (a, SUCCESS) event at the current time, with
    the waiter's priority, for a key that was waiting on some guard, whose demand held, and that is no longer queued
    there; a condition wake-up (`a = aCond`) only at a guard with a handler (a condition's guard) -/
def IsWakeEv (a : Nat) (w w' : World) (e : HTag) : Prop :=
  ∃ (g : Nat) (gd gd' : Guard), w.guards[g]? = some gd ∧ w'.guards[g]? = some gd' ∧
    e.item.b ∈ keys (abs gd.q) ∧ e.item.b ∉ keys (abs gd'.q) ∧
    evalDemand w (demandOf gd e.item.b) = true ∧ (a = aCond → hasHandler w g = true) ∧
    e = mkEv e.key a e.item.b sigSuccess w.now (w.proc (e.item.b - 1)).prio ∧ w.ev.counter < e.key

/-- a grant: the (aRes, SUCCESS) wake-up of a front step -/
abbrev IsGrantEv (w w' : World) (e : HTag) : Prop := IsWakeEv aRes w w' e

/-- a condition wake-up: the (aCond, SUCCESS) wake-up of a satisfied waiter of an observing condition -/
abbrev IsCondEv (w w' : World) (e : HTag) : Prop := IsWakeEv aCond w w' e

/-- what `cmb_resourceguard_signal` (front step + observers, recursively) can do to the world -/
structure SigRel (w w' : World) : Prop where
  evWaiters : w'.evWaiters = w.evWaiters
  procs : w'.procs = w.procs
  res : w'.res = w.res
  pools : w'.pools = w.pools
  bufs : w'.bufs = w.bufs
  oqs : w'.oqs = w.oqs
  pqs : w'.pqs = w.pqs
  conds : w'.conds = w.conds
  flags : w'.flags = w.flags
  gvars : w'.gvars = w.gvars
  log : w'.log = w.log
  dispatched : w'.dispatched = w.dispatched
  gsize : w'.guards.size = w.guards.size
  /-- queues only shrink; observers, demands and kind of every guard are untouched -/
  guards : ∀ (g : Nat) (gd : Guard), w.guards[g]? = some gd → ∃ gd' : Guard, w'.guards[g]? = some gd' ∧ gd'.observers = gd.observers ∧
    gd'.demands = gd.demands ∧ gd'.isCond = gd.isCond ∧ GWF gd'.q ∧ ∀ x ∈ abs gd'.q, x ∈ abs gd.q
  evnow : w'.ev.now = w.ev.now
  executed : w'.ev.executed = w.ev.executed
  cancelled : w'.ev.cancelled = w.ev.cancelled
  current : w'.ev.current = w.ev.current
  /-- pending events are only added, and every added one is a grant (front step of the signalled guard or of a plain
      observer) or the condition wake-up of a satisfied waiter of an observing condition -/
  pending : ∃ new, w'.ev.pending = new ++ w.ev.pending ∧ w'.ev.counter = w.ev.counter + new.length ∧
    ∀ e ∈ new, IsGrantEv w w' e ∨ IsCondEv w w' e
  evinv : EvInv w.ev → EvInv w'.ev
  fault : w'.fault = none → w.fault = none
  wf : AllGWF w'

theorem SigRel.now {w w' : World} (h : SigRel w w') : w'.now = w.now := h.evnow

theorem SigRel.proc {w w' : World} (h : SigRel w w') (p : Pid) : w'.proc p = w.proc p := by
  unfold World.proc; rw [h.procs]

theorem SigRel.evalDemand {w w' : World} (h : SigRel w w') (d : Demand) : evalDemand w' d = evalDemand w d :=
  evalDemand_congr h.res h.pools h.bufs h.oqs h.pqs h.flags d

theorem keys_subset_of_subset {q q' : KPQ} (h : ∀ x ∈ q', x ∈ q) {k : Nat} (hk : k ∈ keys q') : k ∈ keys q := by
  obtain ⟨e, he, rfl⟩ := Event.mem_keys.1 hk
  exact Event.mem_keys.2 ⟨e, h e he, rfl⟩

theorem SigRel.refl {w : World} (h : AllGWF w) : SigRel w w where
  evWaiters := rfl
  procs := rfl
  res := rfl
  pools := rfl
  bufs := rfl
  oqs := rfl
  pqs := rfl
  conds := rfl
  flags := rfl
  gvars := rfl
  log := rfl
  dispatched := rfl
  gsize := rfl
  guards := fun g gd hg => ⟨gd, hg, rfl, rfl, rfl, h g gd hg, fun _ hx => hx⟩
  evnow := rfl
  executed := rfl
  cancelled := rfl
  current := rfl
  pending := ⟨[], rfl, rfl, by simp⟩
  evinv := id
  fault := id
  wf := h

theorem SigRel.trans {w w1 w2 : World} (h1 : SigRel w w1) (h2 : SigRel w1 w2) : SigRel w w2 where
  evWaiters := h2.evWaiters.trans h1.evWaiters
  procs := h2.procs.trans h1.procs
  res := h2.res.trans h1.res
  pools := h2.pools.trans h1.pools
  bufs := h2.bufs.trans h1.bufs
  oqs := h2.oqs.trans h1.oqs
  pqs := h2.pqs.trans h1.pqs
  conds := h2.conds.trans h1.conds
  flags := h2.flags.trans h1.flags
  gvars := h2.gvars.trans h1.gvars
  log := h2.log.trans h1.log
  dispatched := h2.dispatched.trans h1.dispatched
  gsize := h2.gsize.trans h1.gsize
  guards := by
    intro g gd hg
    obtain ⟨gd1, hg1, ho1, hd1, hc1, _, hs1⟩ := h1.guards g gd hg
    obtain ⟨gd2, hg2, ho2, hd2, hc2, hwf2, hs2⟩ := h2.guards g gd1 hg1
    exact ⟨gd2, hg2, ho2.trans ho1, hd2.trans hd1, hc2.trans hc1, hwf2, fun x hx => hs1 x (hs2 x hx)⟩
  evnow := h2.evnow.trans h1.evnow
  executed := h2.executed.trans h1.executed
  cancelled := h2.cancelled.trans h1.cancelled
  current := h2.current.trans h1.current
  pending := by
    obtain ⟨n1, hp1, hc1, hg1⟩ := h1.pending
    obtain ⟨n2, hp2, hc2, hg2⟩ := h2.pending
    refine ⟨n2 ++ n1, by rw [hp2, hp1, List.append_assoc], by rw [hc2, hc1, List.length_append]; omega, ?_⟩
    have second : ∀ (a : Nat) (e : HTag), IsWakeEv a w1 w2 e → IsWakeEv a w w2 e := by
      intro a e ⟨g, gd1, gd2, hgd1, hgd2, hin, hout, hdem, hh, heq, hctr⟩
      -- the guard existed before the first half, with a larger queue
      have hsz : g < w.guards.size := by
        have : g < w1.guards.size := by
          rcases Nat.lt_or_ge g w1.guards.size with h | h
          · exact h
          · rw [Array.getElem?_eq_none h] at hgd1; cases hgd1
        rw [h1.gsize] at this; exact this
      have hgd : w.guards[g]? = some w.guards[g] := Array.getElem?_eq_getElem hsz
      obtain ⟨gd1', hgd1', _, hd1, _, _, hs1⟩ := h1.guards g _ hgd
      have : gd1' = gd1 := by rw [hgd1] at hgd1'; exact (Option.some.inj hgd1').symm
      subst this
      refine ⟨g, _, gd2, hgd, hgd2, keys_subset_of_subset hs1 hin, hout, ?_, ?_, ?_, by omega⟩
      · rw [← h1.evalDemand]; unfold demandOf at hdem ⊢; rw [← hd1]; exact hdem
      · intro ha; rw [← hasHandler_congr h1.conds]; exact hh ha
      · rw [heq]; simp only [mkEv]; rw [h1.now, h1.proc]
    have first : ∀ (a : Nat) (e : HTag), IsWakeEv a w w1 e → IsWakeEv a w w2 e := by
      intro a e ⟨g, gd, gd1, hgd, hgd1, hin, hout, hdem, hh, heq, hctr⟩
      obtain ⟨gd2, hgd2, _, _, _, _, hs2⟩ := h2.guards g gd1 hgd1
      exact ⟨g, gd, gd2, hgd, hgd2, hin, fun hk => hout (keys_subset_of_subset hs2 hk), hdem, hh, heq, hctr⟩
    intro e he
    rcases List.mem_append.1 he with he | he
    · exact (hg2 e he).imp (second _ e) (second _ e)
    · exact (hg1 e he).imp (first _ e) (first _ e)
  evinv := fun h => h2.evinv (h1.evinv h)
  fault := fun h => h1.fault (h2.fault h)
  wf := h2.wf

/-- pushing one event keeps the kernel invariant when its time is not in the past -/
theorem pushEv_evinv {w : World} (a s : Nat) (sig t pri : Int) (ht : w.now ≤ t) (h : EvInv w.ev) :
    EvInv (pushEv w a s sig t pri).ev := by
  have hs : schedule w.ev a s (encSig sig) t pri = .ok ((pushEv w a s sig t pri).ev, w.ev.counter + 1) := by
    unfold schedule pushEv mkEv World.now at *
    have : ¬ t < w.ev.now := by omega
    simp [this, KPQ.insert, KPQ.norm]
  exact (schedule_inv h hs).1

theorem frontStep_rel {w : World} {g : Nat} {gd : Guard} (hg : w.guards[g]? = some gd) (hwf : AllGWF w) :
    SigRel w (frontStep w g gd) := by
  have hq := hwf g gd hg
  obtain ⟨h0, hpos⟩ := frontStep_spec w g gd hq
  rcases Nat.eq_zero_or_pos gd.q.count with hc | hc
  · rw [h0 hc]; exact SigRel.refl hwf
  · obtain ⟨hmin, hfalse, htrue⟩ := hpos hc
    cases hd : evalDemand w (demandOf gd (gd.q.tag 1).key) with
    | false => rw [hfalse hd]; exact SigRel.refl hwf
    | true =>
      obtain ⟨q', hdq, hwf', hperm, heq⟩ := htrue hd
      rw [heq]
      have hguards : ∀ (g' : Nat) (gd0 : Guard), w.guards[g']? = some gd0 → ∃ gd' : Guard, (grant w g q' (gd.q.tag 1).key).guards[g']? = some gd' ∧
          gd'.observers = gd0.observers ∧ gd'.demands = gd0.demands ∧ gd'.isCond = gd0.isCond ∧ GWF gd'.q ∧
          ∀ x ∈ abs gd'.q, x ∈ abs gd0.q := by
        intro g' gd0 hg0
        simp only [grant, pushEv_guards, setGuardQ_guards_get]
        by_cases hgg : g' = g
        · subst hgg
          have e : gd = gd0 := by rw [hg0] at hg; exact (Option.some.inj hg).symm
          subst e
          refine ⟨{ gd with q := q' }, by simp [hg0], rfl, rfl, rfl, hwf', ?_⟩
          intro x hx
          exact hperm.mem_iff.2 (List.mem_cons_of_mem _ hx)
        · exact ⟨gd0, by simp [hgg, hg0], rfl, rfl, rfl, hwf g' gd0 hg0, fun _ hx => hx⟩
      refine { evWaiters := rfl, procs := rfl, res := rfl, pools := rfl, bufs := rfl, oqs := rfl, pqs := rfl,
               conds := rfl, flags := rfl, gvars := rfl, log := rfl, dispatched := rfl,
               gsize := by simp [grant], guards := hguards, evnow := rfl, executed := rfl, cancelled := rfl,
               current := rfl, pending := ?_, evinv := ?_, fault := id, wf := ?_ }
      · refine ⟨[mkEv (w.ev.counter + 1) aRes (gd.q.tag 1).key sigSuccess w.now (w.proc ((gd.q.tag 1).key - 1)).prio],
          rfl, rfl, ?_⟩
        intro e he
        simp only [List.mem_singleton] at he
        subst he
        have hkin : (gd.q.tag 1).key ∈ keys (abs gd.q) := Event.mem_keys.2 ⟨_, hmin.1, rfl⟩
        have hnd : (keys (abs gd.q)).Nodup := hq.keys_nodup
        have hkp : (keys (abs gd.q)).Perm ((gd.q.tag 1).key :: keys (abs q')) := by
          have := hperm.map (·.key)
          simpa [keys, norm] using this
        have hkout : (gd.q.tag 1).key ∉ keys (abs q') := (List.nodup_cons.1 (hkp.nodup_iff.1 hnd)).1
        refine Or.inl ⟨g, gd, { gd with q := q' }, hg, ?_, hkin, hkout, hd, fun h => absurd h (by decide), rfl, ?_⟩
        · simp [grant, setGuardQ_guards_get, hg]
        · simp [mkEv]
      · intro hi
        exact pushEv_evinv (w := setGuardQ w g q') _ _ _ _ _ (Int.le_refl _) hi
      · intro g' gd' hg'
        have hsz : g' < w.guards.size := by
          rcases Nat.lt_or_ge g' w.guards.size with h | h
          · exact h
          · have : (grant w g q' (gd.q.tag 1).key).guards.size = w.guards.size := by simp [grant]
            rw [Array.getElem?_eq_none (by omega)] at hg'; cases hg'
        obtain ⟨gd'', hg'', _, _, _, hw'', _⟩ := hguards g' _ (Array.getElem?_eq_getElem hsz)
        rw [hg'] at hg''; cases hg''
        exact hw''

theorem foldl_sigRel {α : Type} (f : World → α → World) (hf : ∀ w a, AllGWF w → SigRel w (f w a)) :
    ∀ (l : List α) (w : World), AllGWF w → SigRel w (l.foldl f w) := by
  intro l
  induction l with
  | nil => intro w h; exact SigRel.refl h
  | cons a l ih =>
    intro w h
    have h1 := hf w a h
    exact h1.trans (ih _ h1.wf)

theorem SigRel.fail {w : World} (h : AllGWF w) (m : String) : SigRel w (w.fail m) := by
  refine { evWaiters := by simp, procs := by simp, res := by simp, pools := by simp, bufs := by simp,
           oqs := by simp, pqs := by simp, conds := by simp, flags := by simp, gvars := by simp, log := by simp,
           dispatched := by simp, gsize := by simp, guards := ?_, evnow := by simp, executed := by simp,
           cancelled := by simp, current := by simp, pending := ?_, evinv := by simp, fault := ?_, wf := ?_ }
  · intro g gd hg; exact ⟨gd, by simpa using hg, rfl, rfl, rfl, h g gd hg, fun _ hx => hx⟩
  · exact ⟨[], by simp, by simp, by simp⟩
  · intro hf; exact (fail_fault_none hf).elim
  · intro g gd hg; exact h g gd (by simpa using hg)

end CimbaModel.Sim.S3
