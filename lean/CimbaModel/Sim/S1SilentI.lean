/-
  S1 — interrupts die with their target too (C09): every pending interrupt wake-up is addressed to a running
  process.  The two sources are the `interrupt` command (tests `isRunning`) and the mugging loop of a preempting
  pool acquisition (its victims are on a holder list, hence running by `PInv` and `DeadRec`).
-/
import CimbaModel.Sim.S1PendJ
import CimbaModel.Sim.S1PoolRun

namespace CimbaModel.Sim
open CimbaModel CimbaModel.Event CimbaModel.Generated
open CimbaModel.HashHeap (HTag Item Order HH WF)

/-- every pending interrupt is addressed to a process that is running according to `st` -/
def TgtI (st : Pid → Status) (w : World) : Prop :=
  ∀ e ∈ w.ev.pending, e.item.a = aIntr → 1 ≤ e.item.b ∧ st (e.item.b - 1) = .running

/-- **every pending interrupt wake-up is addressed to a running process** -/
def SilentI (w : World) : Prop := TgtI (fun q => (w.proc q).status) w

def notIntr (a : Nat) : Bool := a != aIntr

theorem allButIntr_notIntr : AllButIntr notIntr := by constructor <;> decide

theorem tgti_closed (st : Pid → Status) : EvClosed notIntr (TgtI st) where
  ev_only := fun h e => by unfold TgtI at *; rw [e]; exact h
  sub := fun w ev' hs h e he => h e (hs.subset he)
  sched := fun w a s sig t pri ha h e he hs => by
    rcases sched_pending_cases w a s sig t pri with e' | e' <;> rw [e'] at he
    · exact h e he hs
    · rcases List.mem_cons.1 he with rfl | he
      · simp [notIntr] at ha; exact absurd hs ha
      · exact h e he hs

theorem tgti_sched_run {st : Pid → Status} {w : World} (h : TgtI st w) (a s : Nat) (sig t pri : Int)
    (hs : 1 ≤ s) (hr : st (s - 1) = .running) : TgtI st (sched w a s sig t pri).1 := by
  intro e he hi
  rcases sched_pending_cases w a s sig t pri with e' | e' <;> rw [e'] at he
  · exact h e he hi
  · rcases List.mem_cons.1 he with rfl | he
    · exact ⟨hs, hr⟩
    · exact h e he hi

theorem tgti_mono {st st' : Pid → Status} {w : World} (h : TgtI st w) (hm : ∀ q, st q = .running → st' q = .running) :
    TgtI st' w := fun e he hs => ⟨(h e he hs).1, hm _ (h e he hs).2⟩

theorem SilentI.of_tgt {w w' : World} (h : TgtI (fun q => (w.proc q).status) w')
    (hst : ∀ q, (w'.proc q).status = (w.proc q).status) : SilentI w' := by
  unfold SilentI
  exact tgti_mono h (fun q hq => by rw [hst]; exact hq)

theorem silentI_of_same {w w' : World} (h : SilentI w) (he : w'.ev = w.ev)
    (hst : ∀ q, (w'.proc q).status = (w.proc q).status) : SilentI w' :=
  SilentI.of_tgt ((tgti_closed _).ev_only h he) hst

theorem SilentI.none_for {w : World} (h : SilentI w) (p : Pid) (hp : (w.proc p).status ≠ .running) :
    ∀ e ∈ w.ev.pending, e.item.b = p + 1 → e.item.a ≠ aIntr := by
  intro e he hb ha
  have := (h e he ha).2
  rw [hb] at this
  exact hp this

/-- an interrupt addressed to `z` -/
def isIntrFor (z : Pid) (it : Item) : Bool := it.a == aIntr && it.b == z + 1

theorem intrLe_closed (z : Pid) (w0 : World) : EvClosed notIntr fun w => cnt (isIntrFor z) w ≤ cnt (isIntrFor z) w0 where
  ev_only := fun h e => by rw [cnt_of_ev e]; exact h
  sub := fun w ev' hs h => by
    have : cnt (isIntrFor z) { w with ev := ev' } ≤ cnt (isIntrFor z) w := hs.countP_le
    omega
  sched := fun w a s sig t pri ha h => by
    have hn : isIntrFor z ⟨a, s, encSig sig, 0⟩ = false := by
      simp [notIntr] at ha; simp [isIntrFor, ha]
    exact Nat.le_trans (cnt_sched_of_not _ w a s sig t pri hn) h

theorem cancelAwaiteds_intr (w : World) (z : Pid) : cnt (isIntrFor z) (cancelAwaiteds w z) = 0 := by
  rw [cancelAwaiteds_eq]
  apply cancelAllFor_none
  · intro s c; rfl
  · intro it h
    unfold isIntrFor at h
    simp at h; exact h.2

/-! ### the end of a process -/

theorem silentI_finishProc {w : World} (hs : SilentI w) (z : Pid) (val : Int) (stopped : Bool) :
    SilentI (finishProc w z val stopped) := by
  have hA := allButIntr_notIntr
  have htw : TgtI (fun q => (w.proc q).status)
      (wakeWaiters (finishMid w z stopped) z (if stopped then sigStopped else sigSuccess)) := by
    apply ec_wakeWaiters (tgti_closed _) hA.proc
    unfold finishMid; split
    · exact ec_dropResources (tgti_closed _) ⟨hA.res, hA.cond⟩ _ _ (ec_cancelAwaiteds (tgti_closed _) hA.event ⟨hA.res, hA.cond⟩ _ _ hs)
    · exact ec_cancelAwaiteds (tgti_closed _) hA.event ⟨hA.res, hA.cond⟩ _ _ (ec_dropResources (tgti_closed _) ⟨hA.res, hA.cond⟩ _ _ hs)
  have hcw : cnt (isIntrFor z) (wakeWaiters (finishMid w z stopped) z (if stopped then sigStopped else sigSuccess)) = 0 := by
    have h1 : cnt (isIntrFor z) (finishMid w z stopped) = 0 := by
      unfold finishMid; split
      · have := ec_dropResources (intrLe_closed z (cancelAwaiteds w z)) ⟨hA.res, hA.cond⟩ (cancelAwaiteds w z) z (Nat.le_refl _)
        rw [cancelAwaiteds_intr] at this; omega
      · exact cancelAwaiteds_intr _ z
    have := ec_wakeWaiters (intrLe_closed z (finishMid w z stopped)) hA.proc (finishMid w z stopped) z
      (if stopped then sigStopped else sigSuccess) (Nat.le_refl _)
    omega
  rw [finishProc_eq]
  intro e he hi
  obtain ⟨h1, h2⟩ := htw e he hi
  refine ⟨h1, ?_⟩
  have hne : e.item.b - 1 ≠ z := by
    intro hz
    have : 0 < cnt (isIntrFor z) (wakeWaiters (finishMid w z stopped) z (if stopped then sigStopped else sigSuccess)) := by
      rw [cnt_pos_iff]
      refine ⟨e, he, ?_⟩
      unfold isIntrFor
      simp [hi]; omega
    omega
  dsimp only
  rw [proc_modProc_ne _ _ _ _ hne, wakeWaiters_status, finishMid_status]
  exact h2

/-! ### the mugging loop -/

theorem tgti_poolMug {st : Pid → Status} : ∀ (fuel : Nat) {w : World}, TgtI st w → PInv w → ∀ (p : Pid),
    DeadRecA p w → (∀ q, (w.proc q).status = st q) → ∀ pl rem, TgtI st (poolMug fuel w p pl rem).1 := by
  intro fuel
  induction fuel with
  | zero => intro w h _ p _ _ pl rem; exact h
  | succ n ih =>
    intro w h hp p hd hst pl rem
    have hA := allButIntr_notIntr
    have hplt : p < w.procs.size := lt_np_of_status w p (by rw [hd.2]; decide)
    unfold poolMug
    split
    · exact h
    · rename_i x hx
      split
      · exact h
      · rename_i hc
        split
        · split
          · split
            · rename_i h' t hdq
              have hwf := hp.wf pl x.holders (ph_eq w pl x hx)
              obtain ⟨t', ht', _, _, htk, _⟩ := hh_dequeue_ok hwf hc hdq
              injection ht' with ht'; subst ht'
              have hpos := hkeys_pos hwf htk
              -- the victim is on the holder list, hence running
              have hvr : st (t.key - 1) = .running := by
                rw [← hst]
                apply Classical.byContradiction
                intro hnr
                exact hp.not_running hd.1 (t.key - 1) hnr pl (by
                  rw [hk_eq w pl x hx, show t.key - 1 + 1 = t.key by omega]; exact htk)
              have hP3 := pinv_mug_step hp pl x hx hc h' t hdq
              have hD3 : DeadRecA p (removeHeld { w with pools := w.pools.set! pl { x with holders := h' } }
                  (t.key - 1) (.pool pl)).1 := dra_removeHeld (dra_of_procs hd rfl) _ _
              have hT3 : TgtI st (removeHeld { w with pools := w.pools.set! pl { x with holders := h' } }
                  (t.key - 1) (.pool pl)).1 := (tgti_closed st).ev_only h (by simp)
              have hT4 := tgti_sched_run hT3 aIntr (t.key - 1 + 1) sigPreempted
                (removeHeld { w with pools := w.pools.set! pl { x with holders := h' } } (t.key - 1) (.pool pl)).1.now
                ((removeHeld { w with pools := w.pools.set! pl { x with holders := h' } }
                  (t.key - 1) (.pool pl)).1.proc (t.key - 1)).prio (by omega) (by simpa using hvr)
              have hP4 := pinv_sched hP3 aIntr (t.key - 1 + 1) sigPreempted
                (removeHeld { w with pools := w.pools.set! pl { x with holders := h' } } (t.key - 1) (.pool pl)).1.now
                ((removeHeld { w with pools := w.pools.set! pl { x with holders := h' } }
                  (t.key - 1) (.pool pl)).1.proc (t.key - 1)).prio
              have hD4 := dra_sched hD3 aIntr (t.key - 1 + 1) sigPreempted
                (removeHeld { w with pools := w.pools.set! pl { x with holders := h' } } (t.key - 1) (.pool pl)).1.now
                ((removeHeld { w with pools := w.pools.set! pl { x with holders := h' } }
                  (t.key - 1) (.pool pl)).1.proc (t.key - 1)).prio
              dsimp only
              split
              · refine ih ((tgti_closed st).ev_only hT4 (by simp)) (pinv_poolUpdateRecord hP4 pl p _ (by simpa using hplt))
                  p (dra_poolUpdateRecord hD4 _ _) ?_ pl _
                intro q; rw [← hst q]; simp
              · apply ec_signal (tgti_closed st) ⟨hA.res, hA.cond⟩
                exact (tgti_closed st).ev_only hT4 (by simp)
            · exact h
            · exact ec_fail (tgti_closed st) _ _ h
          · exact h
        · exact h

theorem tgti_poolLoop {st : Pid → Status} {w : World} (h : TgtI st w) (hp : PInv w) (p : Pid) (hd : DeadRecA p w)
    (hst : ∀ q, (w.proc q).status = st q) (pl rem initially : Nat) (preempt : Bool) :
    TgtI st (poolLoop w p pl rem initially preempt).1 := by
  have hA := allButIntr_notIntr
  have hplt : p < w.procs.size := lt_np_of_status w p (by rw [hd.2]; decide)
  unfold poolLoop
  split
  · exact ec_fail (tgti_closed st) _ _ h
  · rename_i x hx
    dsimp only
    split
    · exact ec_signal (tgti_closed st) ⟨hA.res, hA.cond⟩ _ _ ((tgti_closed st).ev_only h (by simp))
    · -- the world before the mugging loop
      have h1 : TgtI st (if x.cap - x.inUse > 0 then
          (poolUpdateRecord (recordPool (setPoolInUse w pl (x.inUse + (x.cap - x.inUse))) pl) pl p (x.cap - x.inUse),
            rem - (x.cap - x.inUse)) else (w, rem)).1 ∧
          PInv (if x.cap - x.inUse > 0 then
          (poolUpdateRecord (recordPool (setPoolInUse w pl (x.inUse + (x.cap - x.inUse))) pl) pl p (x.cap - x.inUse),
            rem - (x.cap - x.inUse)) else (w, rem)).1 ∧
          DeadRecA p (if x.cap - x.inUse > 0 then
          (poolUpdateRecord (recordPool (setPoolInUse w pl (x.inUse + (x.cap - x.inUse))) pl) pl p (x.cap - x.inUse),
            rem - (x.cap - x.inUse)) else (w, rem)).1 ∧
          (∀ q, ((if x.cap - x.inUse > 0 then
          (poolUpdateRecord (recordPool (setPoolInUse w pl (x.inUse + (x.cap - x.inUse))) pl) pl p (x.cap - x.inUse),
            rem - (x.cap - x.inUse)) else (w, rem)).1.proc q).status = st q) := by
        split
        · refine ⟨(tgti_closed st).ev_only h (by simp),
            pinv_poolUpdateRecord (pinv_recordPool (pinv_setPoolInUse hp _ _) _) _ _ _ (by simpa using hplt),
            dra_poolUpdateRecord (dra_recordPool (dra_setPoolInUse hd _ _) _) _ _, ?_⟩
          intro q; rw [← hst q]; simp
        · exact ⟨h, hp, hd, hst⟩
      have h2 : TgtI st (if preempt = true then
          poolMug (x.holders.count + 1) (if x.cap - x.inUse > 0 then
            (poolUpdateRecord (recordPool (setPoolInUse w pl (x.inUse + (x.cap - x.inUse))) pl) pl p (x.cap - x.inUse),
              rem - (x.cap - x.inUse)) else (w, rem)).1 p pl (if x.cap - x.inUse > 0 then
            (poolUpdateRecord (recordPool (setPoolInUse w pl (x.inUse + (x.cap - x.inUse))) pl) pl p (x.cap - x.inUse),
              rem - (x.cap - x.inUse)) else (w, rem)).2
          else ((if x.cap - x.inUse > 0 then
            (poolUpdateRecord (recordPool (setPoolInUse w pl (x.inUse + (x.cap - x.inUse))) pl) pl p (x.cap - x.inUse),
              rem - (x.cap - x.inUse)) else (w, rem)).1, some (if x.cap - x.inUse > 0 then
            (poolUpdateRecord (recordPool (setPoolInUse w pl (x.inUse + (x.cap - x.inUse))) pl) pl p (x.cap - x.inUse),
              rem - (x.cap - x.inUse)) else (w, rem)).2)).1 := by
        split
        · exact tgti_poolMug _ h1.1 h1.2.1 p h1.2.2.1 h1.2.2.2 _ _
        · exact h1.1
      split
      · exact h2
      · exact (tgti_closed st).ev_only h2 (by simp)

/-- split the command's control structure, then peel each branch -/
syntax "tgti_cmd " term:max ident : tactic
macro_rules
  | `(tactic| tgti_cmd $hR $h) =>
    `(tactic| first
        | with_reducible exact $h
        | (split <;> tgti_cmd $hR $h)
        | (ej_peel2 $hR allButIntr_notIntr $h 12))

set_option maxHeartbeats 1000000 in
/-- the commands that schedule no interrupt -/
theorem tgti_execCmd_frame {st : Pid → Status} {w : World} (h : TgtI st w) (p : Pid) (c : Cmd)
    (h1 : ∀ z v, c ≠ .stop z v) (h2 : ∀ v, c ≠ .exit v) (h3 : ∀ q s pri, c ≠ .interrupt q s pri)
    (h4 : ∀ pl n, c ≠ .poolAcquire pl n) (h5 : ∀ pl n, c ≠ .poolPreempt pl n)
    (h8 : ∀ q v, c ≠ .prioSet q v) : TgtI st (execCmd w p c).1 := by
  cases c
  case stop z v => exact absurd rfl (h1 z v)
  case exit v => exact absurd rfl (h2 v)
  case interrupt q s pri => exact absurd rfl (h3 q s pri)
  case poolAcquire pl n => exact absurd rfl (h4 pl n)
  case poolPreempt pl n => exact absurd rfl (h5 pl n)
  case prioSet q v => exact absurd rfl (h8 q v)
  all_goals simp only [execCmd]
  all_goals tgti_cmd (tgti_closed st) h

theorem tgti_reprioritize {st : Pid → Status} {w : World} (hw : TgtI st w) {ev' : EvQ} {h : Nat} {v : Int}
    (hr : reprioritize w.ev h v = .ok ev') : TgtI st { w with ev := ev' } := by
  have hi := reprioritize_items hr
  intro e he hs
  have : e.item ∈ ev'.pending.map (·.item) := List.mem_map.2 ⟨e, he, rfl⟩
  rw [hi] at this
  obtain ⟨e0, he0, hie⟩ := List.mem_map.1 this
  have := hw e0 he0 (by rw [hie]; exact hs)
  rw [hie] at this; exact this

/-- **every command keeps `SilentI`** -/
theorem silentI_execCmd {w : World} (hs : SilentI w) (hp : PInv w) (hd : DeadRec w) (p : Pid)
    (hrun : (w.proc p).status = .running) (c : Cmd) : SilentI (execCmd w p c).1 := by
  by_cases h1 : ∃ z v, c = .stop z v
  · obtain ⟨z, v, rfl⟩ := h1
    simp only [execCmd]
    split
    · exact silentI_finishProc hs p v true
    · split
      · exact silentI_finishProc hs z v true
      · exact hs
  by_cases h2 : ∃ v, c = .exit v
  · obtain ⟨v, rfl⟩ := h2
    exact silentI_finishProc hs p v false
  have hst : ∀ q, ((execCmd w p c).1.proc q).status = (w.proc q).status :=
    fun q => execCmd_status w p c q (fun z v e => h1 ⟨z, v, e⟩) (fun v e => h2 ⟨v, e⟩)
  refine SilentI.of_tgt ?_ hst
  have hs : TgtI (fun q => (w.proc q).status) w := hs
  by_cases h3 : ∃ q s pri, c = .interrupt q s pri
  · obtain ⟨q, s, pri, rfl⟩ := h3
    simp only [execCmd]
    split
    · exact hs
    · rename_i hc
      have hq : (w.proc q).status = .running := by
        simp only [not_or, Classical.not_not] at hc
        have := hc.1; unfold isRunning at this; simpa using this
      exact tgti_sched_run hs aIntr (q + 1) s _ _ (by omega) (by simpa using hq)
  by_cases h4 : ∃ pl n, c = .poolAcquire pl n
  · obtain ⟨pl, n, rfl⟩ := h4
    simp only [execCmd]
    split
    · exact hs
    · split
      · exact hs
      · exact tgti_poolLoop hs hp p ⟨hd, hrun⟩ (fun _ => rfl) _ _ _ _
  by_cases h5 : ∃ pl n, c = .poolPreempt pl n
  · obtain ⟨pl, n, rfl⟩ := h5
    simp only [execCmd]
    split
    · exact hs
    · split
      · exact hs
      · exact tgti_poolLoop hs hp p ⟨hd, hrun⟩ (fun _ => rfl) _ _ _ _
  by_cases h8 : ∃ q v, c = .prioSet q v
  · obtain ⟨q, v, rfl⟩ := h8
    simp only [execCmd]
    split
    · exact hs
    · dsimp only
      apply foldl_inv (TgtI _)
      · intro w' a hw'
        ej_peel (tgti_closed _) allButIntr_notIntr hw' 10
      · apply foldl_inv (TgtI _)
        · intro w' a hw'
          split
          · split
            · rename_i ev' hr; exact tgti_reprioritize hw' hr
            · exact ec_fail (tgti_closed _) _ _ hw'
          · ej_peel (tgti_closed _) allButIntr_notIntr hw' 10
          · exact hw'
        · exact (tgti_closed _).ev_only hs rfl
  exact tgti_execCmd_frame hs p c (fun z v e => h1 ⟨z, v, e⟩) (fun v e => h2 ⟨v, e⟩)
    (fun q s pri e => h3 ⟨q, s, pri, e⟩) (fun pl n e => h4 ⟨pl, n, e⟩) (fun pl n e => h5 ⟨pl, n, e⟩)
    (fun q v e => h8 ⟨q, v, e⟩)

end CimbaModel.Sim
