/-
  S3 — the grant invariant, part 11: dropping resources and the end of a process.
-/
import CimbaModel.Sim.S3GrantObj

namespace CimbaModel.Sim.S3
open CimbaModel CimbaModel.Sim CimbaModel.Event CimbaModel.Generated CimbaModel.KPQ
open CimbaModel.HashHeap (HTag Item Order HH WF abs liveTags)

variable {fr : Pid → Option Frame} {df : Demand → Nat} {w : World}

theorem poolNeed_le_one (x : Pool) : poolNeed x ≤ 1 := by unfold poolNeed; omega
theorem resNeed_le_one (x : Res) : resNeed x ≤ 1 := by unfold resNeed; split <;> omega

/-- replacing the record of pool `pl` (same guard and capacity), recording, then signalling its guard -/
theorem GS.pool_set_signal (h : GS fr df w) {pl : Nat} {x : Pool} (hx : w.pools[pl]? = some x) (y : Pool)
    (hs : poolStat y = poolStat x) : GS fr df (Sim.signal (Sim.recordPool { w with pools := w.pools.set! pl y } pl) x.guard) := by
  have hp := h.ginv
  have hst : Stat w (Sim.recordPool { w with pools := w.pools.set! pl y } pl) := by
    refine Stat.recordPool ?_ pl
    exact (Stat.refl w).setPoolsSet pl y (fun x' hx' => by rw [hx] at hx'; cases hx'; exact hs)
  have hfr := recordPool_frame { w with pools := w.pools.set! pl y } pl
  refine h.obj_signal (W := Sim.recordPool { w with pools := w.pools.set! pl y } pl) ?_ hfr.2.1 hfr.1
    (fun x => by unfold World.proc; rw [hfr.2.2]) (gOf_of_stat hst) x.guard (.poolAvail pl) (gOf_pools_of hx) ?_
  · refine GInv.recordPool ?_ pl
    exact hp.setPoolsSet pl y (fun x' hx' => by rw [hx] at hx'; cases hx'; exact hs)
  · intro d
    have h1 := ((Inert.refl { w with pools := w.pools.set! pl y }).recordPool pl).need d
    rw [need_pools_set hx] at h1
    split
    · rename_i hd; subst hd
      simp only [if_true] at h1
      have := poolNeed_le_one y; omega
    · rename_i hd
      simp only [hd, if_false] at h1
      omega

theorem GS.poolDropHolder (h : GS fr df w) (pl : Nat) (p : Pid) : GS fr df (poolDropHolder w pl p) := by
  unfold Sim.poolDropHolder
  split
  · exact h
  · rename_i x hx
    split
    · exact h
    · split
      · exact h.pool_set_signal hx _ rfl
      · exact h.fail _
    · exact h.fail _

/-- replacing the record of resource `r` (same guard), recording, then signalling its guard -/
theorem GS.res_set_signal (h : GS fr df w) {r : Nat} {x : Res} (hx : w.res[r]? = some x) (y : Res)
    (hs : resStat y = resStat x) : GS fr df (Sim.signal (Sim.recordRes { w with res := w.res.set! r y } r) x.guard) := by
  have hp := h.ginv
  have hst : Stat w (Sim.recordRes { w with res := w.res.set! r y } r) := by
    refine Stat.recordRes ?_ r
    exact (Stat.refl w).setResSet r y (fun x' hx' => by rw [hx] at hx'; cases hx'; exact hs)
  have hfr := recordRes_frame { w with res := w.res.set! r y } r
  refine h.obj_signal (W := Sim.recordRes { w with res := w.res.set! r y } r) ?_ hfr.2.1 hfr.1
    (fun x => by unfold World.proc; rw [hfr.2.2]) (gOf_of_stat hst) x.guard (.resAvail r) (gOf_res_of hx) ?_
  · refine GInv.recordRes ?_ r
    exact hp.setResSet r y (fun x' hx' => by rw [hx] at hx'; cases hx'; exact hs)
  · intro d
    have h1 := ((Inert.refl { w with res := w.res.set! r y }).recordRes r).need d
    rw [need_res_set hx] at h1
    split
    · rename_i hd; subst hd
      simp only [if_true] at h1
      have := resNeed_le_one y; omega
    · rename_i hd
      simp only [hd, if_false] at h1
      omega

theorem GS.dropStep (h : GS fr df w) (p : Pid) (x : HoldRef) : GS fr df (dropStep p w x) := by
  cases x with
  | res r =>
    simp only [S3.dropStep]
    split
    · rename_i y hy; exact h.res_set_signal hy _ rfl
    · exact h
  | pool pl => exact h.poolDropHolder pl p

theorem GS.dropResources (h : GS fr df w) (p : Pid) : GS fr df (dropResources w p) := by
  rw [dropResources_eq]
  have h0 : GS fr df (w.modProc p fun x => { x with held := [] }) :=
    h.inert (h.ginv.modProc_ctl p _ (fun _ => ⟨rfl, rfl⟩)) ((Inert.refl w).modProc p _ (fun _ => rfl))
  generalize (w.modProc p fun x => { x with held := [] }) = W at h0
  generalize (w.proc p).held = l
  induction l generalizing W with
  | nil => exact h0
  | cons a l ih => exact ih _ (h0.dropStep p a)

/-- the end of a process (return, exit, stop) -/
theorem GS.finishProc (h : GS fr df w) (p : Pid) (v : Int) (s : Bool)
    (ht : ∀ k, Await.time k ∈ (w.proc p).awaits → NGc w k) : GS fr df (finishProc w p v s) := by
  suffices hs : HG (Sim.finishProc w p v s) ∧ GI df (Sim.finishProc w p v s) from
    ⟨h.ginv.finishProc p v s (noEx_not p), hs.1, hs.2⟩
  unfold Sim.finishProc
  have hpre : GS fr df (if s then Sim.dropResources (Sim.cancelAwaiteds w p) p else Sim.cancelAwaiteds (Sim.dropResources w p) p) := by
    split
    · exact (h.cancelAwaiteds p ht).dropResources p
    · refine (h.dropResources p).cancelAwaiteds p ?_
      intro k hk
      have hpf : PF w (Sim.dropResources w p) := (PF.refl w).dropResources p
      rw [(hpf.ctl p).1] at hk
      exact (ht k hk).ofEvo ((Evo.refl w).dropResources p)
  generalize (if s then Sim.dropResources (Sim.cancelAwaiteds w p) p else Sim.cancelAwaiteds (Sim.dropResources w p) p) = w1 at hpre
  have h2 : GS fr df (Sim.wakeWaiters w1 p (if s then sigStopped else sigSuccess)) :=
    hpre.inert (hpre.ginv.wakeWaiters p _) ((Inert.refl w1).wakeWaiters p _)
  have hi : Inert (Sim.wakeWaiters w1 p (if s then sigStopped else sigSuccess))
      ((Sim.wakeWaiters w1 p (if s then sigStopped else sigSuccess)).modProc p fun x =>
        { x with status := .finished, exitVal := v, blocked := none }) := (Inert.refl _).modProc p _ (fun _ => rfl)
  exact ⟨h2.hg.inert hi, h2.gi.inert h2.ginv.ei hi⟩

end CimbaModel.Sim.S3
