/-
  S3 — `TInv`, part 2: the footprint tactic `tinv` and all functions of the model that arm or disarm no timer.
-/
import CimbaModel.Sim.S3TInv

namespace CimbaModel.Sim.S3
open CimbaModel CimbaModel.Sim CimbaModel.Event CimbaModel.Generated CimbaModel.KPQ
open CimbaModel.HashHeap (HTag Item Order HH WF abs liveTags)

theorem TInv.foldl {α : Type} {ex : Pid → Prop} {f : World → α → World}
    (hf : ∀ w a, TInv ex w → TInv ex (f w a)) : ∀ (l : List α) {w : World}, TInv ex w → TInv ex (l.foldl f w) := by
  intro l
  induction l with
  | nil => intro w h; exact h
  | cons a l ih => intro w h; exact ih (hf w a h)

syntax "tinv_step" : tactic
macro_rules | `(tactic| tinv_step) => `(tactic| dsimp only)
macro_rules | `(tactic| tinv_step) => `(tactic| (guard_world_lit; with_reducible apply TInv.setGuards))
macro_rules | `(tactic| tinv_step) => `(tactic| (guard_world_lit; with_reducible apply TInv.setEvWaiters))
macro_rules | `(tactic| tinv_step) => `(tactic| (guard_world_lit; with_reducible apply TInv.setGvars))
macro_rules | `(tactic| tinv_step) => `(tactic| (guard_world_lit; with_reducible apply TInv.setFlags))
macro_rules | `(tactic| tinv_step) => `(tactic| (guard_world_lit; with_reducible apply TInv.setPqs))
macro_rules | `(tactic| tinv_step) => `(tactic| (guard_world_lit; with_reducible apply TInv.setOqs))
macro_rules | `(tactic| tinv_step) => `(tactic| (guard_world_lit; with_reducible apply TInv.setBufs))
macro_rules | `(tactic| tinv_step) => `(tactic| (guard_world_lit; with_reducible apply TInv.setPools))
macro_rules | `(tactic| tinv_step) => `(tactic| (guard_world_lit; with_reducible apply TInv.setRes))
macro_rules | `(tactic| tinv_step) => `(tactic| split)
macro_rules | `(tactic| tinv_step) => `(tactic| with_reducible apply TInv.evCancel_fst)
macro_rules | `(tactic| tinv_step) => `(tactic| (with_reducible refine TInv.sched_other ?_ _ _ _ _ _ (by decide)))
macro_rules | `(tactic| tinv_step) => `(tactic| with_reducible apply TInv.setGuardQ)
macro_rules | `(tactic| tinv_step) => `(tactic| (with_reducible refine TInv.modProc_ctl ?_ _ _ (fun _ => rfl)))
macro_rules | `(tactic| tinv_step) => `(tactic| with_reducible apply TInv.emit)
macro_rules | `(tactic| tinv_step) => `(tactic| with_reducible apply TInv.fail)
macro_rules | `(tactic| tinv_step) => `(tactic| with_reducible assumption)

macro "tinv" : tactic => `(tactic| repeat' tinv_step)

variable {ex : Pid → Prop}

theorem TInv.cancelAllFor {w : World} (h : TInv ex w) (p : Pid) : TInv ex (cancelAllFor w p) := by
  unfold Sim.cancelAllFor
  exact TInv.foldl (fun w q h => by tinv) _ h
macro_rules | `(tactic| tinv_step) => `(tactic| with_reducible apply TInv.cancelAllFor)

theorem TInv.cancelKindFor_fst {w : World} (h : TInv ex w) (p : Pid) (act : Nat) (sig : Option Int) :
    TInv ex (cancelKindFor w p act sig).1 := by
  unfold Sim.cancelKindFor
  exact TInv.foldl (fun w q h => by tinv) _ h
macro_rules | `(tactic| tinv_step) => `(tactic| with_reducible apply TInv.cancelKindFor_fst)
theorem TInv.cancelUserAll_fst {w : World} (h : TInv ex w) :
    TInv ex (cancelUserAll w).1 := by
  unfold Sim.cancelUserAll
  exact TInv.foldl (fun w q h => by tinv) _ h
macro_rules | `(tactic| tinv_step) => `(tactic| with_reducible apply TInv.cancelUserAll_fst)

theorem TInv.recordRes {w : World} (h : TInv ex w) (r : Nat) : TInv ex (recordRes w r) := by
  unfold Sim.recordRes; tinv
theorem TInv.recordPool {w : World} (h : TInv ex w) (r : Nat) : TInv ex (recordPool w r) := by
  unfold Sim.recordPool; tinv
theorem TInv.recordBuf {w : World} (h : TInv ex w) (r : Nat) : TInv ex (recordBuf w r) := by
  unfold Sim.recordBuf; tinv
theorem TInv.recordOQ {w : World} (h : TInv ex w) (r : Nat) : TInv ex (recordOQ w r) := by
  unfold Sim.recordOQ; tinv
theorem TInv.recordPQ {w : World} (h : TInv ex w) (r : Nat) : TInv ex (recordPQ w r) := by
  unfold Sim.recordPQ; tinv
macro_rules | `(tactic| tinv_step) => `(tactic| with_reducible apply TInv.recordRes)
macro_rules | `(tactic| tinv_step) => `(tactic| with_reducible apply TInv.recordPool)
macro_rules | `(tactic| tinv_step) => `(tactic| with_reducible apply TInv.recordBuf)
macro_rules | `(tactic| tinv_step) => `(tactic| with_reducible apply TInv.recordOQ)
macro_rules | `(tactic| tinv_step) => `(tactic| with_reducible apply TInv.recordPQ)

theorem TInv.guardRemove_fst {w : World} (h : TInv ex w) (g : Nat) (p : Pid) : TInv ex (guardRemove w g p).1 := by
  unfold Sim.guardRemove; tinv
macro_rules | `(tactic| tinv_step) => `(tactic| with_reducible apply TInv.guardRemove_fst)

theorem TInv.frontStep {w : World} (h : TInv ex w) (g : Nat) (gd : Guard) : TInv ex (frontStep w g gd) := by
  unfold S3.frontStep; tinv

theorem TInv.condSignal_fst {w : World} (h : TInv ex w) (g : Nat) : TInv ex (condSignal w g).1 := by
  simp only [Sim.condSignal]
  split
  · exact h
  · split
    · exact h
    · refine TInv.foldl (fun w q h => by tinv) _ ?_
      exact TInv.foldl (fun w q h => by tinv) _ h
macro_rules | `(tactic| tinv_step) => `(tactic| with_reducible apply TInv.condSignal_fst)

theorem TInv.ownStep {w : World} (h : TInv ex w) (fwd : Bool) (g : Nat) (gd : Guard) : TInv ex (ownStep fwd w g gd) := by
  unfold S3.ownStep
  split
  · exact h.condSignal_fst g
  · exact h.frontStep g gd

theorem TInv.guardSignalF : ∀ (fuel : Nat) (fwd : Bool) {w : World}, TInv ex w → ∀ g, TInv ex (guardSignalF fwd fuel w g) := by
  intro fuel
  induction fuel with
  | zero => intro fwd w h g; rw [guardSignalF_zero]; exact h.fail _
  | succ fuel ih =>
    intro fwd w h g
    rw [guardSignalF_succ]
    split
    · exact h
    · exact TInv.foldl (fun w o hw => ih true hw o) _ (h.ownStep fwd g _)

theorem TInv.guardSignal (fuel : Nat) {w : World} (h : TInv ex w) (g : Nat) : TInv ex (guardSignal fuel w g) :=
  TInv.guardSignalF fuel false h g

theorem TInv.signal {w : World} (h : TInv ex w) (g : Nat) : TInv ex (signal w g) := TInv.guardSignal 8 h g
macro_rules | `(tactic| tinv_step) => `(tactic| with_reducible apply TInv.signal)

theorem TInv.guardWithdraw {w : World} (h : TInv ex w) (g : Nat) (p : Pid) : TInv ex (guardWithdraw w g p) := by
  simp only [Sim.guardWithdraw]; tinv
macro_rules | `(tactic| tinv_step) => `(tactic| with_reducible apply TInv.guardWithdraw)

theorem TInv.removeHeld_fst {w : World} (h : TInv ex w) (p : Pid) (x : HoldRef) : TInv ex (removeHeld w p x).1 := by
  simp only [Sim.removeHeld]; tinv
macro_rules | `(tactic| tinv_step) => `(tactic| with_reducible apply TInv.removeHeld_fst)

theorem TInv.poolDropHolder {w : World} (h : TInv ex w) (pl : Nat) (p : Pid) : TInv ex (poolDropHolder w pl p) := by
  unfold Sim.poolDropHolder; tinv
macro_rules | `(tactic| tinv_step) => `(tactic| with_reducible apply TInv.poolDropHolder)

theorem TInv.dropResources {w : World} (h : TInv ex w) (p : Pid) : TInv ex (dropResources w p) := by
  unfold Sim.dropResources
  exact TInv.foldl (fun w q h => by tinv) _ (by tinv)
macro_rules | `(tactic| tinv_step) => `(tactic| with_reducible apply TInv.dropResources)

theorem TInv.grab {w : World} (h : TInv ex w) (r : Nat) (p : Pid) : TInv ex (grab w r p) := by
  unfold Sim.grab; tinv
macro_rules | `(tactic| tinv_step) => `(tactic| with_reducible apply TInv.grab)

theorem TInv.poolUpdateRecord {w : World} (h : TInv ex w) (pl : Nat) (p : Pid) (a : Nat) :
    TInv ex (poolUpdateRecord w pl p a) := by
  unfold Sim.poolUpdateRecord; tinv
macro_rules | `(tactic| tinv_step) => `(tactic| with_reducible apply TInv.poolUpdateRecord)

theorem TInv.setPoolInUse {w : World} (h : TInv ex w) (pl v : Nat) : TInv ex (setPoolInUse w pl v) := by
  unfold Sim.setPoolInUse; tinv
macro_rules | `(tactic| tinv_step) => `(tactic| with_reducible apply TInv.setPoolInUse)

theorem TInv.setHeldAmount {w : World} (h : TInv ex w) (pl : Nat) (p : Pid) (a : Nat) : TInv ex (setHeldAmount w pl p a) := by
  unfold Sim.setHeldAmount; tinv
macro_rules | `(tactic| tinv_step) => `(tactic| with_reducible apply TInv.setHeldAmount)

theorem TInv.setVar {w : World} (h : TInv ex w) (p : Pid) (v x : Nat) : TInv ex (setVar w p v x) := by
  unfold Sim.setVar; tinv
macro_rules | `(tactic| tinv_step) => `(tactic| with_reducible apply TInv.setVar)

theorem TInv.poolMug_fst : ∀ (fuel : Nat) {w : World}, TInv ex w → ∀ p pl rem, TInv ex (poolMug fuel w p pl rem).1 := by
  intro fuel
  induction fuel with
  | zero => intro w h p pl rem; exact h
  | succ fuel ih =>
    intro w h p pl rem
    simp only [Sim.poolMug]
    repeat' first | (with_reducible apply ih) | tinv_step

theorem TInv.poolRollback {w : World} (h : TInv ex w) (p : Pid) (pl ini : Nat) : TInv ex (poolRollback w p pl ini) := by
  simp only [Sim.poolRollback]; tinv
macro_rules | `(tactic| tinv_step) => `(tactic| with_reducible apply TInv.poolRollback)


theorem TInv.setRecording {w : World} (h : TInv ex w) (kind idx : Nat) (on : Bool) : TInv ex (setRecording w kind idx on) := by
  simp only [Sim.setRecording]; tinv
macro_rules | `(tactic| tinv_step) => `(tactic| with_reducible apply TInv.setRecording)

theorem TInv.reprioGuard {w : World} (h : TInv ex w) (q : Pid) (v : Int) (g : Nat) : TInv ex (reprioGuard w q v g) := by
  unfold S3.reprioGuard; tinv

theorem TInv.prioAwaitStep {w : World} (h : TInv ex w) (q : Pid) (v : Int) (a : Await) : TInv ex (prioAwaitStep q v w a) := by
  unfold S3.prioAwaitStep
  split
  · split
    · rename_i hr; exact h.reprioEv hr
    · exact h.fail _
  · exact h.reprioGuard q v _
  · exact h

theorem TInv.prioHeldStep {w : World} (h : TInv ex w) (q : Pid) (v : Int) (x : HoldRef) : TInv ex (prioHeldStep q v w x) := by
  unfold S3.prioHeldStep; tinv

end CimbaModel.Sim.S3
