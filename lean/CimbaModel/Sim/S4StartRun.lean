/-
  S4 — `StartInv` through scripts, resumptions and `dispatch` (fault "start of a running process").

  Result: `StartOk.dispatch`, i.e. `StartInv w ∧ StartPos w` is preserved by every dispatched event, without any other
  hypothesis; `StartInv.dispatch`, `StartPos.dispatch` are the projections; `StartInv.init` / `StartPos.init` /
  `StartOk.init` for initial states; `StartInv.no_start_fault`: the fault branch of the start action is not taken.
-/
import CimbaModel.Sim.S4StartCmd

namespace CimbaModel.Sim.S4
open CimbaModel CimbaModel.Sim CimbaModel.Event CimbaModel.Generated
open CimbaModel.HashHeap (HTag Item Order HH)

theorem startOk_emit {w : World} (h : StartOk w) (l : String) : StartOk (w.emit l) :=
  h.of_same (by simp) (fun q => by simp)

theorem startOk_fail {w : World} (h : StartOk w) (m : String) : StartOk (w.fail m) :=
  h.of_same (by simp) (fun q => by simp)

/-- a modification of a process record that keeps its status -/
theorem startOk_modProc {w : World} (h : StartOk w) (p : Pid) (f : Proc → Proc) (hf : ∀ x, (f x).status = x.status) :
    StartOk (w.modProc p f) :=
  h.of_same rfl (fun q => modProc_field Proc.status w p f hf q)

theorem startOk_runScript : ∀ (fuel : Nat) {w : World}, StartOk w → ∀ p, StartOk (runScript fuel w p) := by
  intro fuel
  induction fuel with
  | zero => intro w h p; unfold runScript; exact startOk_fail h _
  | succ n ih =>
    intro w h p
    unfold runScript
    dsimp only
    split
    · exact startOk_finishProc (startOk_emit h _) p 0 false
    · rename_i c text hc
      have h2 := startOk_execCmd (startOk_emit h s!"c {p} {(w.proc p).pc} {w.now} {text}") p c
      split
      · rename_i w2 v extra heq
        rw [heq] at h2
        apply ih
        refine startOk_modProc ?_ _ _ ?_
        · exact startOk_emit h2 _
        · intro _; rfl
      · rename_i w2 heq
        rw [heq] at h2
        apply ih
        refine startOk_modProc ?_ _ _ ?_
        · exact startOk_emit h2 _
        · intro _; rfl
      · rename_i w2 heq
        rw [heq] at h2
        exact h2
      · rename_i w2 heq
        rw [heq] at h2
        split <;> exact startOk_emit h2 _

theorem startOk_resumeProc {w : World} (h : StartOk w) (p : Pid) (sig : Int) : StartOk (resumeProc w p sig) := by
  unfold resumeProc
  dsimp only
  split
  · exact startOk_fail h _
  · split
    · exact startOk_fail h _
    · rename_i f hf
      have h2 := startOk_resumeFrame (startOk_modProc h p (fun y => { y with blocked := none }) (fun _ => rfl)) p f sig
      split
      · rename_i w2 v extra heq
        rw [heq] at h2
        apply startOk_runScript
        refine startOk_modProc ?_ _ _ ?_
        · exact startOk_emit h2 _
        · intro _; rfl
      all_goals (rename_i w2 heq; rw [heq] at h2; exact h2)

/-! ### dispatch -/

/-- the world in which the action of the dispatched event runs: the event is off the queue, its waiters are woken -/
theorem startTgt_takeNext {N : Pid → Prop} {w : World} (t : HTag) (ev' : EvQ) (h : StartTgt N { w with ev := ev' }) :
    StartTgt N (S3.takeNext w t ev') := by
  unfold S3.takeNext S3.afterNext
  apply ec_wakeEventWaiters (startTgt_closed N) noStart_notStart.event
  exact (startTgt_closed N).ev_only h rfl

theorem takeNext_proc (w : World) (t : HTag) (ev' : EvQ) (q : Pid) : (S3.takeNext w t ev').proc q = w.proc q := by
  unfold S3.takeNext S3.afterNext; simp

/-- a process no pending start event is addressed to may change status -/
theorem startOk_begin {w : World} (h : StartOk w) (p : Pid) (f : Proc → Proc)
    (hp : ∀ e ∈ w.ev.pending, e.item.a = aStart → e.item.b - 1 ≠ p) : StartOk (w.modProc p f) :=
  ⟨fun e he ha => ⟨(h.tgt e he ha).1, by
      show ((w.modProc p f).proc (e.item.b - 1)).status ≠ .running
      rw [proc_modProc_ne _ _ _ _ (hp e he ha)]; exact (h.tgt e he ha).2⟩, h.uq⟩

theorem startOk_dispatchBody {w : World} (t : HTag) (h : StartOk w)
    (ht : t.item.a = aStart → ∀ e ∈ w.ev.pending, e.item.a = aStart → e.item.b - 1 ≠ t.item.b - 1) :
    StartOk (S3.dispatchBody w t) := by
  simp only [S3.dispatchBody]
  split
  · rename_i ha
    split
    · exact startOk_fail h _
    · exact startOk_runScript _ (startOk_begin h _ _ (ht ha)) _
  · have hra : ∀ a, StartOk (removeAwait w (t.item.b - 1) a).1 := fun a =>
      h.of_same (by simp) (fun q => by simp)
    have hrk : ∀ k, StartOk (removeAwaitKind w (t.item.b - 1) k).1 := fun k =>
      h.of_same (by simp) (fun q => by simp)
    have hca : StartOk (cancelAwaiteds w (t.item.b - 1)) :=
      StartOk.of_tgt (ec_cancelAwaiteds (startTgt_closed _) noStart_notStart.event ⟨noStart_notStart.res, noStart_notStart.cond⟩ _ _ h)
        (fun q hq => by rw [cancelAwaiteds_status] at hq; exact hq)
    repeat' split
    all_goals with_reducible first
      | exact startOk_resumeProc (hra _) _ _
      | exact startOk_resumeProc (hrk _) _ _
      | exact startOk_resumeProc hca _ _
      | exact startOk_resumeProc h _ _
      | exact hrk _
      | exact h

/-- **every dispatched event keeps `StartInv`** (together with `StartPos`) -/
theorem StartOk.dispatch {w w' : World} (h : StartOk w) (hd : dispatch w = some w') : StartOk w' := by
  rw [S3.dispatch_eq] at hd
  split at hd
  · cases hd
  · rename_i t ev' hex
    injection hd with hd
    subst hd
    obtain ⟨hmem, hpend⟩ := Sim.executeNext_spec hex
    have hsub : ev'.pending.Sublist w.ev.pending := by rw [hpend]; exact List.filter_sublist
    apply startOk_dispatchBody
    · refine StartOk.of_tgt (startTgt_takeNext t ev' ((startTgt_closed _).sub w ev' hsub h))
        (fun q hq => by rw [takeNext_proc] at hq; exact hq)
    · intro ha
      -- the other pending start events are addressed to other processes
      have h0 : StartTgt (fun q => q ≠ t.item.b - 1) { w with ev := ev' } := by
        refine ⟨fun e he hs => ?_, fun e1 h1 e2 h2 => h.uq e1 (hsub.subset h1) e2 (hsub.subset h2)⟩
        have he' : e ∈ w.ev.pending.filter (·.key ≠ t.key) := by rw [← hpend]; exact he
        rw [List.mem_filter] at he'
        have hpe := (h.tgt e he'.1 hs).1
        have hpt := (h.tgt t hmem ha).1
        refine ⟨hpe, fun heq => ?_⟩
        have heq' : e.item.b - 1 = t.item.b - 1 := heq
        have : e = t := h.uq e he'.1 t hmem hs ha (by omega)
        rw [this] at he'
        simp at he'
      have h1 := startTgt_takeNext t ev' h0
      intro e he hs
      exact (h1.tgt e he hs).2

theorem StartInv.dispatch {w w' : World} (h : StartInv w) (hp : StartPos w) (hd : dispatch w = some w') : StartInv w' :=
  ((StartOk.mk h hp).dispatch hd).inv

theorem StartPos.dispatch {w w' : World} (h : StartInv w) (hp : StartPos w) (hd : dispatch w = some w') : StartPos w' :=
  ((StartOk.mk h hp).dispatch hd).pos

/-- the fault "start of a running process" does not occur: when a start event is dispatched, its process is not
    running in the world in which the action runs -/
theorem StartInv.no_start_fault {w : World} (h : StartInv w) {t : HTag} {ev' : EvQ}
    (hex : executeNext w.ev = some (t, ev')) (ha : t.item.a = aStart) :
    ((S3.takeNext w t ev').proc (t.item.b - 1)).status ≠ .running := by
  rw [takeNext_proc]
  exact h.nr t (Sim.executeNext_spec hex).1 ha

/-! ### initial states -/

theorem StartInv.init {w : World} (hnr : ∀ q, (w.proc q).status ≠ .running)
    (huq : ∀ e1 ∈ w.ev.pending, ∀ e2 ∈ w.ev.pending, e1.item.a = aStart → e2.item.a = aStart →
      e1.item.b = e2.item.b → e1 = e2) : StartInv w :=
  ⟨fun _ _ _ => hnr _, huq⟩

theorem StartOk.init {w : World} (hnr : ∀ q, (w.proc q).status ≠ .running)
    (hpos : ∀ e ∈ w.ev.pending, e.item.a = aStart → 1 ≤ e.item.b)
    (huq : ∀ e1 ∈ w.ev.pending, ∀ e2 ∈ w.ev.pending, e1.item.a = aStart → e2.item.a = aStart →
      e1.item.b = e2.item.b → e1 = e2) : StartOk w :=
  StartOk.mk (StartInv.init hnr huq) hpos

theorem inj_of_nodup_map {α β : Type} (f : α → β) : ∀ (l : List α), (l.map f).Nodup →
    ∀ x ∈ l, ∀ y ∈ l, f x = f y → x = y
  | [], _, x, hx, _, _, _ => by cases hx
  | a :: l, hd, x, hx, y, hy, hxy => by
    rw [List.map_cons, List.nodup_cons] at hd
    rcases List.mem_cons.1 hx with ex | mx
    · rcases List.mem_cons.1 hy with ey | my
      · rw [ex, ey]
      · rw [ex] at hxy; exact absurd (List.mem_map.2 ⟨y, my, hxy.symm⟩) hd.1
    · rcases List.mem_cons.1 hy with ey | my
      · rw [ey] at hxy; exact absurd (List.mem_map.2 ⟨x, mx, hxy⟩) hd.1
      · exact inj_of_nodup_map f l hd.2 x mx y my hxy

/-- the form asked for: the pending events (start events or not) have pairwise distinct subjects -/
theorem StartInv.init' {w : World} (hnr : ∀ q, (w.proc q).status ≠ .running)
    (huq : (w.ev.pending.map fun e => e.item.b).Nodup) : StartInv w :=
  StartInv.init hnr (fun e1 h1 e2 h2 _ _ hb => inj_of_nodup_map _ _ huq e1 h1 e2 h2 hb)

end CimbaModel.Sim.S4
