/-
  S1 — every world the scenario loader can build (`S3.Built`) satisfies the S1 invariants (`FullInv`), hence the
  combined initial conditions `InitAll`.
-/
import CimbaModel.Sim.S1EndAll

namespace CimbaModel.Sim
open CimbaModel CimbaModel.Event CimbaModel.Generated CimbaModel.KPQ
open CimbaModel.HashHeap (HTag Item Order HH WF abs)
open CimbaModel.Sim.S3 (Built addRes addPool addBuf addOQ addPQ addCond addProc subscribe autostart newGuardW)

/-- what the construction steps keep, beyond `S3.BInv`: nothing is held, nobody has started, the pools' holder lists are
    freshly initialised -/
structure BInv1 (w : World) : Prop where
  pr : ∀ p, (w.proc p).held = [] ∧ (w.proc p).status = .created
  res : ∀ (r : Nat) (x : Res), w.res[r]? = some x → x.holder = none
  pools : ∀ (pl : Nat) (x : Pool), w.pools[pl]? = some x → x.holders = mkHH 3

theorem BInv1.of_same {w w' : World} (h : BInv1 w) (hp : w'.procs = w.procs) (hr : w'.res = w.res)
    (hpl : w'.pools = w.pools) : BInv1 w' :=
  ⟨fun p => by rw [proc_congr hp]; exact h.pr p, fun r x hx => h.res r x (by rw [← hr]; exact hx),
   fun pl x hx => h.pools pl x (by rw [← hpl]; exact hx)⟩

theorem getElem?_push_cases {α : Type _} (a : Array α) (x y : α) (i : Nat) (h : (a.push x)[i]? = some y) :
    a[i]? = some y ∨ y = x := by
  rw [Array.getElem?_push] at h
  split at h
  · right; injection h with h; exact h.symm
  · left; exact h

theorem built_binv1 {w : World} (h : Built w) : BInv1 w := by
  induction h with
  | empty =>
    refine ⟨fun p => ?_, fun r x hx => ?_, fun pl x hx => ?_⟩
    · simp [World.proc]
    · simp at hx
    · simp at hx
  | res _ ih =>
    refine ⟨fun p => ih.pr p, fun r x hx => ?_, fun pl x hx => ih.pools pl x hx⟩
    rcases getElem?_push_cases _ _ _ _ hx with h1 | h1
    · exact ih.res r x h1
    · rw [h1]
  | pool cap _ ih =>
    refine ⟨fun p => ih.pr p, fun r x hx => ih.res r x hx, fun pl x hx => ?_⟩
    rcases getElem?_push_cases _ _ _ _ hx with h1 | h1
    · exact ih.pools pl x h1
    · rw [h1]
  | buf cap _ ih => exact ih.of_same rfl rfl rfl
  | oq cap _ ih => exact ih.of_same rfl rfl rfl
  | pq cap _ ih => exact ih.of_same rfl rfl rfl
  | cond _ ih => exact ih.of_same rfl rfl rfl
  | proc pr cmds _ _ ih =>
    refine ⟨fun p => ?_, fun r x hx => ih.res r x hx, fun pl x hx => ih.pools pl x hx⟩
    unfold World.proc addProc
    simp only [Array.getD_eq_getD_getElem?]
    cases hx : (_ : Array Proc)[p]? with
    | none => exact ⟨rfl, rfl⟩
    | some y =>
      rcases getElem?_push_cases _ _ _ _ hx with h1 | h1
      · have := ih.pr p
        unfold World.proc at this
        simp only [Array.getD_eq_getD_getElem?, h1] at this
        exact this
      · rw [h1]; exact ⟨rfl, rfl⟩
  | sub g cg _ ih => exact ih.of_same rfl rfl rfl
  | start p _ ih => exact ih.of_same (by unfold autostart; simp) (by unfold autostart; simp) (by unfold autostart; simp)

theorem mkHH_holder_spec : WF holder_queue_check (mkHH 3) ∧ abs (mkHH 3) = [] := by
  obtain ⟨s, hs, hwf, habs, _⟩ := HashHeap.init_spec (lt := holder_queue_check) 3 (by decide) (by decide)
  have : mkHH 3 = s := by unfold mkHH; rw [hs]
  rw [this]; exact ⟨hwf, habs⟩

/-- the S1 invariants of a freshly built world -/
theorem fullInv_of_binv {w : World} (h1 : BInv1 w) (h2 : S3.BInv w) (hsz : w.procs.size < 2 ^ 31) : FullInv w := by
  have hstart : ∀ e ∈ w.ev.pending, e.item.a = aStart := fun e he => (h2.pend e he).1
  have hpa : ∀ q, w.pa q = [] := fun q => by unfold World.pa; rw [(h2.pr q).1]; rfl
  have hnp : ∀ q, np w q = 0 := by
    intro q
    unfold np
    rw [cnt_zero_iff]
    intro e hem
    unfold isAProc
    rw [hstart e hem]; rfl
  refine ⟨⟨?_, ?_, ?_, ?_⟩, ?_, ?_⟩
  · intro r p
    have hc : w.hcount p r = 0 := by unfold World.hcount; rw [(h1.pr p).1]; rfl
    have hh : w.holder r = none := by
      cases hx : w.res[r]? with
      | none => exact holder_none_of_no_res w r hx
      | some x => rw [holder_eq w r x hx]; exact h1.res r x hx
    rw [hc, hh]; rfl
  · refine ⟨?_, ?_, fun p => Or.inl (hpa p), ?_, ?_, ?_⟩
    · intro p q hm; rw [(h2.pr q).2.1] at hm; cases hm
    · intro q; rw [(h2.pr q).2.1]; exact List.nodup_nil
    · intro p; rw [hnp]; omega
    · intro p hp; rw [hnp] at hp; omega
    · intro e hem ha; rw [hstart e hem] at ha; exact absurd ha (by decide)
  · intro p _
    exact ⟨(h2.pr p).1, (h2.pr p).2.2, (h1.pr p).1, fun _ => (h2.pr p).2.1⟩
  · intro e he hs; rw [hstart e he] at hs; exact absurd hs (by decide)
  · refine ⟨Nat.lt_trans hsz (by decide), ?_, ?_⟩
    · intro pl hh hph
      unfold World.ph at hph
      cases hx : w.pools[pl]? with
      | none => rw [hx] at hph; cases hph
      | some x =>
        rw [hx] at hph; injection hph with hph; subst hph
        show WF holder_queue_check x.holders
        rw [h1.pools pl x hx]; exact mkHH_holder_spec.1
    · intro pl p hk
      unfold World.hk World.ph at hk
      cases hx : w.pools[pl]? with
      | none => rw [hx] at hk; cases hk
      | some x =>
        rw [hx] at hk
        have hk : p + 1 ∈ hkeys x.holders := hk
        unfold hkeys at hk
        rw [h1.pools pl x hx, mkHH_holder_spec.2] at hk
        cases hk
  · intro e he hi; rw [hstart e he] at hi; exact absurd hi (by decide)

/-- **every world the scenario loader can build satisfies the combined initial conditions** -/
theorem built_initAll {w : World} (h : Built w) (hsz : w.procs.size < 2 ^ 31) : InitAll w :=
  ⟨fullInv_of_binv (built_binv1 h) h.binv hsz, (h.binv.initOk hsz).1, (h.binv.initOk hsz).2⟩

/-- a loader-built scenario for the non-vacuity examples of `end_silences`: process 0 takes the resource and holds 5;
    process 1 queues up on the resource's guard at t = 1; process 2 waits for the end of process 1 from t = 2;
    at t = 5 process 0 stops process 1 (value 7) — which ends while queued on a guard and while being waited for -/
def endScen : World :=
  autostart (autostart (autostart
    (addProc (addProc (addProc (addRes {}) 0
      #[(.acquire 0, "acquire"), (.hold 5, "hold"), (.stop 1 7, "stop"), (.release 0, "release")]) 0
      #[(.hold 1, "hold"), (.acquire 0, "acquire"), (.exit 0, "exit")]) 0
      #[(.hold 2, "hold"), (.waitProc 1, "wait"), (.exit 4, "exit")]) 0) 1) 2

theorem endScen_built : Built endScen := by
  unfold endScen
  refine Built.start _ (Built.start _ (Built.start _ (Built.proc _ _ (Built.proc _ _ (Built.proc _ _
    (Built.res Built.empty) ?_) ?_) ?_)))
  all_goals
    intro i c t h
    match i with
    | 0 => simp at h; rw [← h.1]; trivial
    | 1 => simp at h; rw [← h.1]; trivial
    | 2 => simp at h; rw [← h.1]; trivial
    | 3 => simp at h; try (rw [← h.1]; trivial)
    | n + 4 => simp at h

end CimbaModel.Sim
