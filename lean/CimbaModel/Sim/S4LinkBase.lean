/-
  S4 — the converse of the pool-holder invariant `PInv` (S1Pool): a process that lists pool `pl` among its holdings
  is on the holder list of `pl`.  It is what makes the holder re-sorting loop of `cmb_process_priority_set` safe
  (`HashHeap.reprioritize` fails on an absent key).  It is only an invariant together with well-formedness of the
  holder lists and the bound on the number of processes (the enqueue of a new holder record must not fail): the
  bundle `PL`.

  This file: definitions, congruence lemmas, the primitives that leave holder lists and `.pool` holdings alone.
-/
import CimbaModel.Sim.S1PoolRun
import CimbaModel.Sim.S4SafePool

namespace CimbaModel.Sim.S4
open CimbaModel CimbaModel.Sim CimbaModel.Event CimbaModel.Generated CimbaModel.KPQ
open CimbaModel.HashHeap (HTag Item Order HH WF abs)

/-- **listed ⇒ on the holder list** (the converse of `PInv.listed`) -/
def LC (w : World) : Prop :=
  ∀ q pl, HoldRef.pool pl ∈ (w.proc q).held → ∀ x, w.pools[pl]? = some x → q + 1 ∈ keys (abs x.holders)

/-- the pool-holder invariant in both directions, with the size bound that keeps the holder enqueue from failing -/
structure PL (w : World) : Prop where
  pinv : Sim.PInv w
  psz : w.procs.size < 2 ^ 31
  lc : LC w

variable {w w' : World}

theorem lc_iff : LC w ↔ ∀ q pl, HoldRef.pool pl ∈ (w.proc q).held → ∀ h, w.ph pl = some h → q + 1 ∈ hkeys h := by
  constructor
  · intro h q pl hm hh hhh
    unfold World.ph at hhh
    cases hx : w.pools[pl]? with
    | none => rw [hx] at hhh; cases hhh
    | some x =>
      rw [hx] at hhh
      injection hhh with hhh
      subst hhh
      exact h q pl hm x hx
  · intro h q pl hm x hx
    exact h q pl hm x.holders (ph_eq w pl x hx)

theorem LC.ph (h : LC w) {q : Pid} {pl : Nat} (hm : HoldRef.pool pl ∈ (w.proc q).held) {hh : HH}
    (hph : w.ph pl = some hh) : q + 1 ∈ hkeys hh := lc_iff.1 h q pl hm hh hph

/-- `LC` only looks at the holder lists and at which pools each process lists -/
theorem LC.of_same (h : LC w) (hph : ∀ pl, w'.ph pl = w.ph pl)
    (hheld : ∀ p pl, HoldRef.pool pl ∈ (w'.proc p).held → HoldRef.pool pl ∈ (w.proc p).held) : LC w' := by
  rw [lc_iff] at h ⊢
  intro q pl hm hh hhh
  exact h q pl (hheld q pl hm) hh (by rw [← hph]; exact hhh)

/-- replacing the holder list of pool `pl` by one that has every process listing the pool -/
theorem LC.set_holders (h : LC w) (pl : Nat) (h' : HH)
    (hph : ∀ pl', w'.ph pl' = if pl' = pl then some h' else w.ph pl')
    (hheld : ∀ p pl', pl' ≠ pl → HoldRef.pool pl' ∈ (w'.proc p).held → HoldRef.pool pl' ∈ (w.proc p).held)
    (hl : ∀ p, HoldRef.pool pl ∈ (w'.proc p).held → p + 1 ∈ hkeys h') : LC w' := by
  rw [lc_iff] at h ⊢
  intro q pl' hm hh hhh
  rw [hph] at hhh
  by_cases e : pl' = pl
  · subst e
    simp only [if_true] at hhh
    injection hhh with hhh
    subst hhh
    exact hl q hm
  · simp only [e, if_false] at hhh
    exact h q pl' (hheld q pl' e hm) hh hhh

/-- the generic congruence: same holder lists, same `.pool` holdings, same number of processes -/
theorem PL.of_same (h : PL w) (hph : ∀ pl, w'.ph pl = w.ph pl)
    (hheld : ∀ p pl, HoldRef.pool pl ∈ (w'.proc p).held ↔ HoldRef.pool pl ∈ (w.proc p).held)
    (hsz : w'.procs.size = w.procs.size := by simp) : PL w' :=
  ⟨h.pinv.of_same hph (fun p pl => (hheld p pl).2) hsz, by rw [hsz]; exact h.psz,
   h.lc.of_same hph (fun p pl => (hheld p pl).1)⟩

/-- the keys on a holder list are process keys -/
theorem PL.key_le (h : PL w) {pl : Nat} {hh : HH} (hph : w.ph pl = some hh) {k : Nat} (hk : k ∈ hkeys hh) :
    k ≤ w.procs.size := by
  have hwf := h.pinv.wf pl hh hph
  have hpos := hkeys_pos hwf hk
  have hk' : (k - 1) + 1 ∈ w.hk pl := by
    unfold World.hk; rw [hph]
    have : k - 1 + 1 = k := by omega
    rw [this]; exact hk
  have hlt : k - 1 < w.procs.size := lt_np_of_held w (k - 1) _ (h.pinv.listed pl (k - 1) hk')
  omega

/-- the consequence used by `priority_set` -/
theorem PL.prio_key (h : PL w) {q : Pid} {pl : Nat} {x : Pool} (hm : HoldRef.pool pl ∈ (w.proc q).held)
    (hx : w.pools[pl]? = some x) : q + 1 ∈ keys (abs x.holders) := h.lc q pl hm x hx

/-! ### frame -/

theorem PL.frame (h : PL w) (hp : w'.pools = w.pools) (hprocs : w'.procs = w.procs) : PL w' :=
  h.of_same (ph_congr hp) (fun p pl => by rw [proc_congr hprocs]) (by rw [hprocs])

theorem PL.mkW (h : PL w) (ev : EvQ) (evW : List (Nat × List Pid)) (guards : Array Guard)
    (res : Array Res) (bufs : Array Buf) (oqs : Array OQ) (pqs : Array PQ) (conds : Array Nat)
    (flags : Array Int) (gvars : Array Nat) (log : Array String) (fault : Option String) (d : Nat) :
    PL ⟨ev, evW, w.procs, guards, res, w.pools, bufs, oqs, pqs, conds, flags, gvars, log, fault, d⟩ :=
  h.frame rfl rfl

theorem PL.modProc_keep (h : PL w) (z : Pid) (f : Proc → Proc) (hf : ∀ x, (f x).held = x.held) :
    PL (w.modProc z f) :=
  h.of_same (fun pl => rfl) (fun q pl => by rw [modProc_held_keep _ _ _ _ hf])

theorem PL.sched (h : PL w) (a s : Nat) (sig t pri : Int) : PL (sched w a s sig t pri).1 :=
  h.frame (by simp) (by simp)
theorem PL.signal (h : PL w) (g : Nat) : PL (signal w g) := h.frame (by simp) (by simp)
theorem PL.fail (h : PL w) (m : String) : PL (w.fail m) := h.frame (by simp) (by simp)
theorem PL.recordPool (h : PL w) (pl : Nat) : PL (recordPool w pl) :=
  h.of_same (fun pl' => recordPool_ph w pl pl') (by simp)
theorem PL.setPoolInUse (h : PL w) (pl v : Nat) : PL (setPoolInUse w pl v) :=
  h.of_same (fun pl' => setPoolInUse_ph w pl v pl') (by simp)
theorem PL.guardWaitEnter (h : PL w) (g : Nat) (p : Pid) (d : Demand) : PL (guardWaitEnter w g p d) :=
  h.of_same (fun pl => ph_congr (by simp) pl) (by simp)
theorem PL.block (h : PL w) (p : Pid) (f : Frame) : PL (block w p f).1 :=
  h.of_same (fun pl => ph_congr (by simp) pl) (by simp)
theorem PL.emit (h : PL w) (l : String) : PL (w.emit l) :=
  h.of_same (fun pl => ph_congr (by simp) pl) (by simp)
theorem PL.setGuardQ (h : PL w) (g : Nat) (q' : HH) : PL (setGuardQ w g q') :=
  h.of_same (fun pl => ph_congr (by simp) pl) (by simp)
theorem PL.wakeEventWaiters (h : PL w) (ps : List Pid) (sig : Int) : PL (wakeEventWaiters w ps sig) :=
  h.of_same (fun pl => ph_congr (by simp) pl) (by simp)
theorem PL.evCancel (h : PL w) (x : Nat) : PL (evCancel w x).1 :=
  h.of_same (fun pl => ph_congr (by simp) pl) (by simp)
theorem PL.cancelAllFor (h : PL w) (z : Pid) : PL (cancelAllFor w z) :=
  h.of_same (fun pl => ph_congr (by simp) pl) (by simp)
theorem PL.cancelKindFor (h : PL w) (z : Pid) (act : Nat) (sig : Option Int) : PL (cancelKindFor w z act sig).1 :=
  h.of_same (fun pl => ph_congr (by simp) pl) (by simp)
theorem PL.cancelUserAll (h : PL w) : PL (cancelUserAll w).1 :=
  h.of_same (fun pl => ph_congr (by simp) pl) (by simp)
theorem PL.recordRes (h : PL w) (r : Nat) : PL (recordRes w r) :=
  h.of_same (fun pl => ph_congr (by simp) pl) (by simp)
theorem PL.recordBuf (h : PL w) (r : Nat) : PL (recordBuf w r) :=
  h.of_same (fun pl => ph_congr (by simp) pl) (by simp)
theorem PL.recordOQ (h : PL w) (r : Nat) : PL (recordOQ w r) :=
  h.of_same (fun pl => ph_congr (by simp) pl) (by simp)
theorem PL.recordPQ (h : PL w) (r : Nat) : PL (recordPQ w r) :=
  h.of_same (fun pl => ph_congr (by simp) pl) (by simp)
theorem PL.guardRemove (h : PL w) (g : Nat) (z : Pid) : PL (guardRemove w g z).1 :=
  h.of_same (fun pl => ph_congr (by simp) pl) (by simp)
theorem PL.guardSignal (h : PL w) (fuel g : Nat) : PL (guardSignal fuel w g) :=
  h.of_same (fun pl => ph_congr (by simp) pl) (by simp)
theorem PL.guardWithdraw (h : PL w) (g : Nat) (z : Pid) : PL (guardWithdraw w g z) :=
  h.of_same (fun pl => ph_congr (by simp) pl) (by simp)
theorem PL.condSignal (h : PL w) (g : Nat) : PL (condSignal w g).1 :=
  h.of_same (fun pl => ph_congr (by simp) pl) (by simp)
theorem PL.addAwait (h : PL w) (z : Pid) (a : Await) : PL (addAwait w z a) :=
  h.of_same (fun pl => ph_congr (by simp) pl) (by simp)
theorem PL.removeAwait_fst (h : PL w) (p : Pid) (a : Await) : PL (removeAwait w p a).1 :=
  h.of_same (fun pl => ph_congr (by simp) pl) (by simp)
theorem PL.removeAwaitKind_fst (h : PL w) (p : Pid) (k : Await → Bool) : PL (removeAwaitKind w p k).1 :=
  h.of_same (fun pl => ph_congr (by simp) pl) (by simp)
theorem PL.setVar (h : PL w) (z : Pid) (v x : Nat) : PL (setVar w z v x) :=
  h.of_same (fun pl => ph_congr (by simp) pl) (by simp)
theorem PL.timerAdd (h : PL w) (z : Pid) (d sig : Int) : PL (timerAdd w z d sig).1 :=
  h.of_same (fun pl => ph_congr (by simp) pl) (by simp)
theorem PL.timerCancel (h : PL w) (z : Pid) (x : Nat) : PL (timerCancel w z x).1 :=
  h.of_same (fun pl => ph_congr (by simp) pl) (by simp)
theorem PL.timersClear (h : PL w) (z : Pid) : PL (timersClear w z) :=
  h.of_same (fun pl => ph_congr (by simp) pl) (by simp)
theorem PL.guardWaitLeave (h : PL w) (g : Nat) (z : Pid) (sig : Int) : PL (guardWaitLeave w g z sig) :=
  h.of_same (fun pl => ph_congr (by simp) pl) (by simp)
theorem PL.bufGetLoop (h : PL w) (z : Pid) (b rem got : Nat) : PL (bufGetLoop w z b rem got).1 :=
  h.of_same (fun pl => ph_congr (by simp) pl) (by simp)
theorem PL.bufPutLoop (h : PL w) (z : Pid) (b rem left : Nat) : PL (bufPutLoop w z b rem left).1 :=
  h.of_same (fun pl => ph_congr (by simp) pl) (by simp)
theorem PL.oqGetLoop (h : PL w) (z : Pid) (k : Nat) : PL (oqGetLoop w z k).1 :=
  h.of_same (fun pl => ph_congr (by simp) pl) (by simp)
theorem PL.oqPutLoop (h : PL w) (z : Pid) (k obj : Nat) : PL (oqPutLoop w z k obj).1 :=
  h.of_same (fun pl => ph_congr (by simp) pl) (by simp)
theorem PL.pqGetLoop (h : PL w) (z : Pid) (k : Nat) : PL (pqGetLoop w z k).1 :=
  h.of_same (fun pl => ph_congr (by simp) pl) (by simp)
theorem PL.pqPutLoop (h : PL w) (z : Pid) (k obj : Nat) (pri : Int) (v : Nat) : PL (pqPutLoop w z k obj pri v).1 :=
  h.of_same (fun pl => ph_congr (by simp) pl) (by simp)
theorem PL.cancelAwaiteds (h : PL w) (p : Pid) : PL (cancelAwaiteds w p) :=
  h.of_same (fun pl => ph_congr (by simp) pl) (by simp)
theorem PL.wakeWaiters (h : PL w) (z : Pid) (sig : Int) : PL (wakeWaiters w z sig) :=
  h.of_same (fun pl => ph_congr (by simp) pl) (by simp)
theorem PL.setRecording (h : PL w) (kind idx : Nat) (on : Bool) : PL (setRecording w kind idx on) :=
  h.of_same (ph_setRecording w kind idx on) (by simp)

/-! ### `held` changes that do not concern pools -/

theorem removeHeld_mem_rev (w : World) (z : Pid) (a b : HoldRef) (q : Pid)
    (hm : b ∈ ((removeHeld w z a).1.proc q).held) : b ∈ (w.proc q).held ∧ (q ≠ z ∨ b ≠ a) := by
  unfold removeHeld at hm; dsimp only at hm
  rw [proc_modProc] at hm; split at hm
  · rename_i e; obtain ⟨rfl, _⟩ := e
    dsimp only at hm
    rw [List.mem_filter] at hm
    exact ⟨hm.1, Or.inr (by simpa using hm.2)⟩
  · rename_i hne
    refine ⟨hm, Or.inl ?_⟩
    intro e
    exact hne ⟨e, e ▸ lt_np_of_held w q b hm⟩

theorem removeHeld_mem_iff (w : World) (z : Pid) (a b : HoldRef) (q : Pid) (hne : b ≠ a) :
    b ∈ ((removeHeld w z a).1.proc q).held ↔ b ∈ (w.proc q).held :=
  ⟨fun hm => (removeHeld_mem_rev w z a b q hm).1, fun hm => removeHeld_mem w z a b q hm (Or.inr hne)⟩

theorem PL.removeHeld_res (h : PL w) (z : Pid) (r : Nat) : PL (removeHeld w z (.res r)).1 :=
  h.of_same (fun pl => by simp) (fun q pl => removeHeld_mem_iff w z _ _ q (by intro e; cases e))

theorem held_cons_modProc_rev (W : World) (p q : Pid) (a b : HoldRef) (hne : b ≠ a)
    (hm : b ∈ ((W.modProc p fun y => { y with held := a :: y.held }).proc q).held) : b ∈ (W.proc q).held := by
  rw [proc_modProc] at hm
  split at hm
  · rename_i e
    rcases List.mem_cons.1 hm with e' | e'
    · exact absurd e' hne
    · rw [e.1]; exact e'
  · exact hm

theorem grab_held_rev (w : World) (r : Nat) (p : Pid) (q : Pid) (pl : Nat)
    (hm : HoldRef.pool pl ∈ ((grab w r p).proc q).held) : HoldRef.pool pl ∈ (w.proc q).held := by
  unfold grab at hm
  cases hx : w.res[r]? with
  | none => rw [hx] at hm; exact hm
  | some x =>
    rw [hx] at hm
    dsimp only at hm
    have := held_cons_modProc_rev _ p q (.res r) (.pool pl) (by intro e; cases e) hm
    revert this
    split <;> simp

theorem PL.grab (h : PL w) (r : Nat) (p : Pid) : PL (grab w r p) :=
  h.of_same (fun pl => ph_congr (by simp) pl)
    (fun q pl => ⟨grab_held_rev w r p q pl, grab_held_mem w r p q _⟩)

theorem PL.acquireStep (h : PL w) (p : Pid) (r : Nat) : PL (acquireStep w p r).1 := by
  unfold Sim.acquireStep
  split
  · exact h.fail _
  · split
    · exact (h.grab _ _).recordRes _
    · exact (h.guardWaitEnter _ _ _).block _ _

end CimbaModel.Sim.S4
