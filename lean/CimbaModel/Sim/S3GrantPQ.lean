/-
  S3 — the grant invariant, part 16: priority queues of objects (counting, as for object queues; the hashheap operations
  are used only through what they do to `count`).
-/
import CimbaModel.Sim.S3GrantOQ
import CimbaModel.Sim.S3GrantHH

namespace CimbaModel.Sim.S3
open CimbaModel CimbaModel.Sim CimbaModel.Event CimbaModel.Generated CimbaModel.KPQ
open CimbaModel.HashHeap (HTag Item Order HH WF abs liveTags)

variable {fr : Pid → Option Frame} {df df' : Demand → Nat} {w : World} {p : Pid}

/-- the record of priority queue `k` is replaced (same guards and capacity) -/
theorem gs_pq_set (h : GS fr df w) {k : Nat} {x : PQ} (hx : w.pqs[k]? = some x) (y : PQ) (hs : pqStat y = pqStat x)
    (hn : ∀ d, (if d = .pqContent k then (pqNeed y).1 else if d = .pqSpace k then (pqNeed y).2 else need w d) + df d ≤
      need w d + df' d) :
    GS fr df' { w with pqs := w.pqs.set! k y } ∧ Stat w { w with pqs := w.pqs.set! k y } := by
  have hst0 : Stat w { w with pqs := w.pqs.set! k y } :=
    (Stat.refl w).setPqsSet k y (fun x' hx' => by rw [hx] at hx'; cases hx'; exact hs)
  exact ⟨h.objUpd hst0 rfl rfl rfl (fun d => by rw [need_pqs_set hx]; exact hn d), hst0⟩

/-- one pass of `priorityqueue_get` -/
theorem gs_pqGetLoop (h : GS fr df w) (hes : EndSep w) (hsep : CondSep w) (hfr : fr p = none) (hlt : p < w.procs.size)
    (k : Nat) (hdf : ∀ d, d ≠ .pqContent k → df d ≤ df' d) (hdf1 : df (.pqContent k) ≤ df' (.pqContent k) + 1) :
    (pqGetLoop w p k).1.fault = none → GH df' (pqGetLoop w p k).1 := by
  simp only [Sim.pqGetLoop]
  split
  · rename_i hn
    intro _
    have hi : Inert w (w.fail "no such pq") := (Inert.refl w).fail _
    refine (h.gh.inert h.ginv.ei hi).clear' (.pqContent k) ?_ hdf
    have := hi.need (.pqContent k)
    have h0 : need w (.pqContent k) = 0 := by rw [need_eq]; simp [hn]
    omega
  · rename_i x hx
    obtain ⟨hgf, hgr⟩ := gOf_pqs_of hx
    obtain ⟨hnf, hnr⟩ := need_pqs_of hx
    split
    · rename_i hpos
      split
      · rename_i q' t hdq
        have hc := dequeue_count hdq
        intro _
        obtain ⟨h1, hst1⟩ := gs_pq_set
          (df' := fun d => (if d = .pqContent k then df' d else df d) + (if d = .pqSpace k then 1 else 0)) h hx
          { x with queue := q', gotLog := x.gotLog ++ [t.key] } rfl (by
            intro d
            show _ + df d ≤ need w d + ((if d = .pqContent k then df' d else df d) + if d = .pqSpace k then 1 else 0)
            by_cases h1 : d = .pqContent k
            · subst h1; rw [if_pos rfl, if_pos rfl, if_neg (by simp), hnf]
              unfold pqNeed; simp only; omega
            · rw [if_neg h1, if_neg h1]
              by_cases h2 : d = .pqSpace k
              · subst h2; rw [if_pos rfl, if_pos rfl, hnr]
                unfold pqNeed; simp only; omega
              · rw [if_neg h2, if_neg h2]; omega)
        refine GS.gh (fr := fr) ((h1.recordPQ k).signal x.rear ?_ ?_)
        · intro d hd
          rw [gOf_of_stat (hst1.recordPQ k)] at hd
          have := hes d (.pqSpace k) x.rear hd hgr
          subst this
          show (if Demand.pqSpace k = .pqContent k then _ else _) + (if Demand.pqSpace k = .pqSpace k then 1 else 0) ≤ _
          rw [if_neg (by simp), if_pos rfl]
          have := hdf (.pqSpace k) (by simp); omega
        · intro d hd
          rw [gOf_of_stat (hst1.recordPQ k)] at hd
          have hne : d ≠ .pqSpace k := fun hdd => hd (hdd ▸ hgr)
          show (if d = .pqContent k then _ else _) + (if d = .pqSpace k then 1 else 0) ≤ _
          rw [if_neg hne]
          split
          · omega
          · rename_i hc'; have := hdf d hc'; omega
      · rename_i hdq
        -- the model's dequeue of a non-empty heap cannot return nothing
        have := dequeue_none hdq
        omega
      · -- a hashheap fault is recorded
        intro hf; exact (fail_fault_none hf).elim
    · rename_i hpos
      intro _
      have h0 : need w (.pqContent k) = 0 := by rw [hnf]; unfold pqNeed; simp only; omega
      have h' : GS fr df' w := h.clear (.pqContent k) h0 hdf
      have hon : FrameOn w (.pqGet k) x.front := by simp [FrameOn, hx, pqStat]
      refine (h'.enterBlock x.front (.pqContent k) (.pqGet k) hfr hlt hon (fun c hc => hsep c _ _ hc hon) ?_).gh
      intro d' hd'
      have := hes d' (.pqContent k) x.front hd' hgf
      subst this
      exact ⟨rfl, by omega⟩

/-- one pass of `priorityqueue_put` -/
theorem gs_pqPutLoop (h : GS fr df w) (hes : EndSep w) (hsep : CondSep w) (hfr : fr p = none) (hlt : p < w.procs.size)
    (k obj : Nat) (pri : Int) (v : Nat) (hdf : ∀ d, d ≠ .pqSpace k → df d ≤ df' d) (hdf1 : df (.pqSpace k) ≤ df' (.pqSpace k) + 1) :
    (pqPutLoop w p k obj pri v).1.fault = none → GH df' (pqPutLoop w p k obj pri v).1 := by
  simp only [Sim.pqPutLoop]
  split
  · rename_i hn
    intro _
    have hi : Inert w (w.fail "no such pq") := (Inert.refl w).fail _
    refine (h.gh.inert h.ginv.ei hi).clear' (.pqSpace k) ?_ hdf
    have := hi.need (.pqSpace k)
    have h0 : need w (.pqSpace k) = 0 := by rw [need_eq]; simp [hn]
    omega
  · rename_i x hx
    obtain ⟨hgf, hgr⟩ := gOf_pqs_of hx
    obtain ⟨hnf, hnr⟩ := need_pqs_of hx
    split
    · rename_i hroom
      split
      · rename_i q' hh henq
        have hc := enqueue_count henq
        intro _
        obtain ⟨h1, hst1⟩ := gs_pq_set
          (df' := fun d => (if d = .pqSpace k then df' d else df d) + (if d = .pqContent k then 1 else 0)) h hx
          { x with queue := q', putLog := x.putLog ++ [hh] } rfl (by
            intro d
            show _ + df d ≤ need w d + ((if d = .pqSpace k then df' d else df d) + if d = .pqContent k then 1 else 0)
            by_cases h1 : d = .pqContent k
            · subst h1; rw [if_pos rfl, if_pos rfl, if_neg (by simp), hnf]
              unfold pqNeed; simp only; omega
            · rw [if_neg h1, if_neg h1]
              by_cases h2 : d = .pqSpace k
              · subst h2; rw [if_pos rfl, if_pos rfl, hnr]
                unfold pqNeed; simp only; omega
              · rw [if_neg h2, if_neg h2]; omega)
        have hst2 : Stat w (recordPQ (setVar { w with pqs := w.pqs.set! k { x with queue := q', putLog := x.putLog ++ [hh] } } p v hh) k) :=
          (hst1.setVar p v hh).recordPQ k
        refine GS.gh (fr := fr) (((h1.setVar p v hh).recordPQ k).signal x.front ?_ ?_)
        · intro d hd
          rw [gOf_of_stat hst2] at hd
          have := hes d (.pqContent k) x.front hd hgf
          subst this
          show (if Demand.pqContent k = .pqSpace k then _ else _) + (if Demand.pqContent k = .pqContent k then 1 else 0) ≤ _
          rw [if_neg (by simp), if_pos rfl]
          have := hdf (.pqContent k) (by simp); omega
        · intro d hd
          rw [gOf_of_stat hst2] at hd
          have hne : d ≠ .pqContent k := fun hdd => hd (hdd ▸ hgf)
          show (if d = .pqSpace k then _ else _) + (if d = .pqContent k then 1 else 0) ≤ _
          rw [if_neg hne]
          split
          · omega
          · rename_i hc'; have := hdf d hc'; omega
      · intro hf; exact (fail_fault_none hf).elim
    · rename_i hroom
      intro _
      have h0 : need w (.pqSpace k) = 0 := by rw [hnr]; unfold pqNeed; simp only; omega
      have h' : GS fr df' w := h.clear (.pqSpace k) h0 hdf
      have hon : FrameOn w (.pqPut k obj pri v) x.rear := by simp [FrameOn, hx, pqStat]
      refine (h'.enterBlock x.rear (.pqSpace k) (.pqPut k obj pri v) hfr hlt hon (fun c hc => hsep c _ _ hc hon) ?_).gh
      intro d' hd'
      have := hes d' (.pqSpace k) x.rear hd' hgr
      subst this
      exact ⟨rfl, by omega⟩

/-- `priorityqueue_cancel`: a removed object frees a slot, the rear guard is signalled -/
theorem gs_cmd_pqCancel (h : GS fr df w) (k v : Nat) : GH df (execCmd w p (.pqCancel k v)).1 := by
  simp only [Sim.execCmd]
  split
  · exact h.gh
  · rename_i x hx
    obtain ⟨hgf, hgr⟩ := gOf_pqs_of hx
    obtain ⟨hnf, hnr⟩ := need_pqs_of hx
    split
    · exact h.gh
    · split
      · rename_i q' r hrm
        obtain ⟨hc, _⟩ := remove_count hrm
        cases r with
        | false =>
          simp only [Bool.false_eq_true, if_false] at hc ⊢
          obtain ⟨h1, _⟩ := gs_pq_set (df' := df) h hx { x with queue := q', cancelLog := x.cancelLog } rfl (by
            intro d
            by_cases h1 : d = .pqContent k
            · subst h1; rw [if_pos rfl, hnf]; unfold pqNeed; simp only; omega
            · rw [if_neg h1]
              by_cases h2 : d = .pqSpace k
              · subst h2; rw [if_pos rfl, hnr]; unfold pqNeed; simp only; omega
              · rw [if_neg h2]; omega)
          exact h1.gh
        | true =>
          simp only [if_true] at hc ⊢
          obtain ⟨h1, hst1⟩ := gs_pq_set (df' := fun d => df d + (if d = .pqSpace k then 1 else 0)) h hx
            { x with queue := q', cancelLog := x.cancelLog ++ [getVar w p v] } rfl (by
            intro d
            show _ + df d ≤ need w d + (df d + if d = .pqSpace k then 1 else 0)
            by_cases h1 : d = .pqContent k
            · subst h1; rw [if_pos rfl, if_neg (by simp), hnf]; unfold pqNeed; simp only; omega
            · rw [if_neg h1]
              by_cases h2 : d = .pqSpace k
              · subst h2; rw [if_pos rfl, if_pos rfl, hnr]; unfold pqNeed; simp only; omega
              · rw [if_neg h2, if_neg h2]; omega)
          refine GS.gh (fr := fr) ((h1.recordPQ k).signal x.rear (fun d _ => by show df d + _ ≤ df d + 1; split <;> omega) ?_)
          intro d hd
          rw [gOf_of_stat (hst1.recordPQ k)] at hd
          show df d + _ ≤ df d
          split
          · rename_i hdd; subst hdd; exact absurd hgr hd
          · omega
      · exact (h.fail _).gh

/-- `priorityqueue_reprioritize`: the number of objects does not change -/
theorem gs_cmd_pqReprio (h : GS fr df w) (k v : Nat) (pri : Int) : GH df (execCmd w p (.pqReprio k v pri)).1 := by
  simp only [Sim.execCmd]
  split
  · exact h.gh
  · rename_i x hx
    obtain ⟨hnf, hnr⟩ := need_pqs_of hx
    split
    · exact h.gh
    · split
      · rename_i q' hrp
        have hc := reprioritize_count hrp
        obtain ⟨h1, _⟩ := gs_pq_set (df' := df) h hx { x with queue := q' } rfl (by
          intro d
          by_cases h1 : d = .pqContent k
          · subst h1; rw [if_pos rfl, hnf]; unfold pqNeed; simp only; omega
          · rw [if_neg h1]
            by_cases h2 : d = .pqSpace k
            · subst h2; rw [if_pos rfl, hnr]; unfold pqNeed; simp only; omega
            · rw [if_neg h2]; omega)
        exact h1.gh
      · exact (h.fail _).gh

theorem gs_cmd_pqGet (h : GS fr df w) (hes : EndSep w) (hsep : CondSep w) (hfr : fr p = none) (hlt : p < w.procs.size)
    (k : Nat) : (execCmd w p (.pqGet k)).1.fault = none → GH df (execCmd w p (.pqGet k)).1 := by
  simp only [Sim.execCmd]
  split
  · exact fun _ => h.gh
  · exact gs_pqGetLoop h hes hsep hfr hlt k (fun _ _ => Nat.le_refl _) (Nat.le_succ _)

theorem gs_cmd_pqPut (h : GS fr df w) (hes : EndSep w) (hsep : CondSep w) (hfr : fr p = none) (hlt : p < w.procs.size)
    (k obj : Nat) (pri : Int) (v : Nat) : (execCmd w p (.pqPut k obj pri v)).1.fault = none → GH df (execCmd w p (.pqPut k obj pri v)).1 := by
  simp only [Sim.execCmd]
  split
  · exact fun _ => h.gh
  · exact gs_pqPutLoop h hes hsep hfr hlt k obj pri v (fun _ _ => Nat.le_refl _) (Nat.le_succ _)

theorem gs_resume_pqGet (h : GS fr df w) (hes : EndSep w) (hsep : CondSep w) {k : Nat}
    (hfr : fr p = some (.pqGet k)) (hlt : p < w.procs.size) (sig : Int) (hq : sig = sigSuccess → Quiet w p)
    (hdf : ∀ d, d ≠ .pqContent k → df d ≤ df' d) (hdf1 : df (.pqContent k) ≤ df' (.pqContent k) + 1)
    (hdf0 : sig ≠ sigSuccess → ∀ d, df d ≤ df' d) :
    (resumeFrame (w.modProc p fun y => { y with blocked := none }) p (.pqGet k) sig).1.fault = none →
    GH df' (resumeFrame (w.modProc p fun y => { y with blocked := none }) p (.pqGet k) sig).1 := by
  simp only [Sim.resumeFrame]
  split
  · rename_i hn
    intro _
    have hi : Inert w (w.modProc p fun y => { y with blocked := none }) := by have h0 := Inert.refl w; inert
    refine (h.gh.inert h.ginv.ei hi).clear' (.pqContent k) ?_ hdf
    rw [need_eq]; simp only; rw [hn]; rfl
  · rename_i x hx
    have hx' : w.pqs[k]? = some x := hx
    have hon : FrameOn w (.pqGet k) x.front := by simp [FrameOn, hx', pqStat]
    have hL := gs_leave h hfr hon (fun c hc => by cases hc) sig hq
    have hst := stat_leave w p x.front sig
    split
    · exact gs_pqGetLoop hL (hes.ofStat hst) (hsep.ofStat hst) (setFrame_self _ _ _) (by rw [hst.psize]; exact hlt) k hdf hdf1
    · rename_i hs
      exact fun _ => ⟨hL.hg, hL.gi.mono (hdf0 hs)⟩

theorem gs_resume_pqPut (h : GS fr df w) (hes : EndSep w) (hsep : CondSep w) {k obj : Nat} {pri : Int} {v : Nat}
    (hfr : fr p = some (.pqPut k obj pri v)) (hlt : p < w.procs.size) (sig : Int) (hq : sig = sigSuccess → Quiet w p)
    (hdf : ∀ d, d ≠ .pqSpace k → df d ≤ df' d) (hdf1 : df (.pqSpace k) ≤ df' (.pqSpace k) + 1)
    (hdf0 : sig ≠ sigSuccess → ∀ d, df d ≤ df' d) :
    (resumeFrame (w.modProc p fun y => { y with blocked := none }) p (.pqPut k obj pri v) sig).1.fault = none →
    GH df' (resumeFrame (w.modProc p fun y => { y with blocked := none }) p (.pqPut k obj pri v) sig).1 := by
  simp only [Sim.resumeFrame]
  split
  · rename_i hn
    intro _
    have hi : Inert w (w.modProc p fun y => { y with blocked := none }) := by have h0 := Inert.refl w; inert
    refine (h.gh.inert h.ginv.ei hi).clear' (.pqSpace k) ?_ hdf
    rw [need_eq]; simp only; rw [hn]; rfl
  · rename_i x hx
    have hx' : w.pqs[k]? = some x := hx
    have hon : FrameOn w (.pqPut k obj pri v) x.rear := by simp [FrameOn, hx', pqStat]
    have hL := gs_leave h hfr hon (fun c hc => by cases hc) sig hq
    have hst := stat_leave w p x.rear sig
    split
    · exact gs_pqPutLoop hL (hes.ofStat hst) (hsep.ofStat hst) (setFrame_self _ _ _) (by rw [hst.psize]; exact hlt) k obj pri v hdf hdf1
    · rename_i hs
      exact fun _ => ⟨hL.hg, hL.gi.mono (hdf0 hs)⟩

end CimbaModel.Sim.S3
