/-
  S4 — shared definitions for the "no fault" proof (C10): the static validity of programs beyond `S3.CmdOk`, and the
  extra invariants that the fault sites of `dispatch` / `priority_set` need.
-/
import CimbaModel.Sim.S3All

namespace CimbaModel.Sim.S4
open CimbaModel CimbaModel.Sim CimbaModel.Sim.S3 CimbaModel.Event CimbaModel.Generated CimbaModel.KPQ
open CimbaModel.HashHeap (HTag Item Order HH WF abs liveTags)

/-- durations are not negative (`cmb_process_hold`, `cmb_process_timer_add/set`, `cmb_event_schedule` release-assert it) -/
def DurOk : Cmd → Prop
  | .hold d => 0 ≤ d
  | .timerAdd _ d _ => 0 ≤ d
  | .timerSet _ d _ => 0 ≤ d
  | .timerAddOf _ d _ => 0 ≤ d
  | .schedUser _ d _ => 0 ≤ d
  | _ => True

/-- the variable discipline of the scenario language (as used by tools/gen_sim.py): handle variables 0..3 hold the
    process's own timer handles, 4..7 priority-queue handles, 8.. (shared) user-event handles.  It makes the static
    statement "`cmb_event_cancel` / `cmb_process_timer_cancel` are only applied to handles of the right kind" -/
def VarsOk : Cmd → Prop
  | .timerAdd v _ _ => v < 4
  | .timerSet v _ _ => v < 4
  | .timerCancel v => v < 4
  | .pqPut _ _ _ v => 4 ≤ v ∧ v < 8
  | .schedUser v _ _ => 8 ≤ v
  | .cancelUser v => 8 ≤ v
  | _ => True

/-- every armed timer of every process is still scheduled (I_timers without the "or was cancelled" escape) -/
def TL (w : World) : Prop :=
  ∀ q h, Await.time h ∈ (w.proc q).awaits → ∃ e ∈ w.ev.pending, e.key = h ∧ e.item.a = aTime ∧ e.item.b = q + 1

/-- what the handle variables can name: a private timer variable of `p` names (if anything pending) a timer of `p`;
    a shared user variable names (if anything pending) a user event; handles are never from the future -/
structure VarInv (w : World) : Prop where
  tv : ∀ p i, i < 4 → (w.proc p).vars.getD i 0 ≤ w.ev.counter ∧
    ∀ e ∈ w.ev.pending, e.key = (w.proc p).vars.getD i 0 → e.item.a = aTime ∧ e.item.b = p + 1
  uv : ∀ i, 8 ≤ i → w.gvars.getD i 0 ≤ w.ev.counter ∧
    ∀ e ∈ w.ev.pending, e.key = w.gvars.getD i 0 → e.item.a = aUser

/-- a pending start event is addressed to a process that is not running, and there is at most one per process -/
structure StartInv (w : World) : Prop where
  nr : ∀ e ∈ w.ev.pending, e.item.a = aStart → (w.proc (e.item.b - 1)).status ≠ .running
  uq : ∀ e1 ∈ w.ev.pending, ∀ e2 ∈ w.ev.pending, e1.item.a = aStart → e2.item.a = aStart → e1.item.b = e2.item.b → e1 = e2

/-- between dispatches every running process is suspended in some call -/
def RunBlocked (w : World) : Prop := ∀ q, (w.proc q).status = .running → (w.proc q).blocked ≠ none

end CimbaModel.Sim.S4
