/-
  S4 — `Safe ex w`: the structural facts that exclude the fault sites of the process layer, carried through every
  primitive of Sim/Model.lean together with "no fault recorded".

  * every waiting list is a well-formed hashheap whose keys are process keys (≤ number of processes) outside `ex`
    (`ex` = the key of the executing process while it runs: it is queued nowhere, so its next enqueue is fresh);
  * every holder list is a well-formed hashheap whose keys are process keys;
  * static part (`StaticOk`): fewer than 2³¹ processes, observers are flat (an observer has no observers of its own, so
    a signal is forwarded at most one level), every guard index named by an object / condition exists.
-/
import CimbaModel.Sim.S3All
import CimbaModel.Sim.S1Frame2

namespace CimbaModel.Sim.S4
open CimbaModel CimbaModel.Sim CimbaModel.Sim.S3 CimbaModel.Event CimbaModel.Generated CimbaModel.KPQ
open CimbaModel.HashHeap (HTag Item Order HH WF abs liveTags)

abbrev HWF (h : HH) : Prop := WF holder_queue_check h

/-- an observer of a guard has no observers itself -/
def ObsFlat (w : World) : Prop :=
  ∀ (g : Nat) (gd : Guard), w.guards[g]? = some gd → ∀ o ∈ gd.observers, ∀ od : Guard, w.guards[o]? = some od → od.observers = []

/-- every guard index named by an object or a condition exists -/
structure GEx (w : World) : Prop where
  res : ∀ (r : Nat) (x : Res), w.res[r]? = some x → x.guard < w.guards.size
  pools : ∀ (r : Nat) (x : Pool), w.pools[r]? = some x → x.guard < w.guards.size
  bufs : ∀ (r : Nat) (x : Buf), w.bufs[r]? = some x → x.front < w.guards.size ∧ x.rear < w.guards.size
  oqs : ∀ (r : Nat) (x : OQ), w.oqs[r]? = some x → x.front < w.guards.size ∧ x.rear < w.guards.size
  pqs : ∀ (r : Nat) (x : PQ), w.pqs[r]? = some x → x.front < w.guards.size ∧ x.rear < w.guards.size
  conds : ∀ (c g : Nat), w.conds[c]? = some g → g < w.guards.size

structure StaticOk (w : World) : Prop where
  psz : w.procs.size < 2 ^ 31
  obs : ObsFlat w
  gex : GEx w

theorem stat_guard {w w' : World} (hs : Stat w w') {g : Nat} {gd' : Guard} (h : w'.guards[g]? = some gd') :
    ∃ gd, w.guards[g]? = some gd ∧ gd.observers = gd'.observers ∧ gd.isCond = gd'.isCond := by
  have := hs.guards g
  rw [h] at this
  cases hg : w.guards[g]? with
  | none => rw [hg] at this; cases this
  | some gd =>
    rw [hg] at this
    simp only [Option.map_some, Option.some.injEq, guardStat, Prod.mk.injEq] at this
    exact ⟨gd, rfl, this.2.symm, this.1.symm⟩

theorem stat_gsize {w w' : World} (hs : Stat w w') : w'.guards.size = w.guards.size := by
  have h1 : ∀ i, i < w'.guards.size ↔ i < w.guards.size := by
    intro i
    have := hs.guards i
    constructor
    · intro hi
      rw [Array.getElem?_eq_getElem hi] at this
      by_cases h : i < w.guards.size
      · exact h
      · rw [Array.getElem?_eq_none (Nat.le_of_not_lt h)] at this; cases this
    · intro hi
      rw [Array.getElem?_eq_getElem hi] at this
      by_cases h : i < w'.guards.size
      · exact h
      · rw [Array.getElem?_eq_none (Nat.le_of_not_lt h)] at this; cases this
  rcases Nat.lt_trichotomy w'.guards.size w.guards.size with h | h | h
  · exact absurd ((h1 _).2 h) (Nat.lt_irrefl _)
  · exact h
  · exact absurd ((h1 _).1 h) (Nat.lt_irrefl _)

theorem map_eq_some_of {α β : Type} {o o' : Option α} {f : α → β} (h : o'.map f = o.map f) {x' : α} (hx : o' = some x') :
    ∃ x, o = some x ∧ f x = f x' := by
  subst hx
  cases o with
  | none => cases h
  | some x => exact ⟨x, rfl, by simpa using h.symm⟩

theorem StaticOk.ofStat {w w' : World} (h : StaticOk w) (hs : Stat w w') : StaticOk w' := by
  have hgs := stat_gsize hs
  refine ⟨by rw [hs.psize]; exact h.psz, ?_, ?_⟩
  · intro g gd' hg o ho od' hod
    obtain ⟨gd, hgd, hob, _⟩ := stat_guard hs hg
    obtain ⟨od, hod0, hob', _⟩ := stat_guard hs hod
    rw [← hob']
    exact h.obs g gd hgd o (by rw [hob]; exact ho) od hod0
  · refine ⟨?_, ?_, ?_, ?_, ?_, ?_⟩
    · intro r x' hx
      obtain ⟨x, hx0, he⟩ := map_eq_some_of (hs.res r) hx
      simp only [resStat] at he
      rw [hgs, ← he]; exact h.gex.res r x hx0
    · intro r x' hx
      obtain ⟨x, hx0, he⟩ := map_eq_some_of (hs.pools r) hx
      simp only [poolStat, Prod.mk.injEq] at he
      rw [hgs, ← he.1]; exact h.gex.pools r x hx0
    · intro r x' hx
      obtain ⟨x, hx0, he⟩ := map_eq_some_of (hs.bufs r) hx
      simp only [bufStat, Prod.mk.injEq] at he
      rw [hgs, ← he.1, ← he.2.1]; exact h.gex.bufs r x hx0
    · intro r x' hx
      obtain ⟨x, hx0, he⟩ := map_eq_some_of (hs.oqs r) hx
      simp only [oqStat, Prod.mk.injEq] at he
      rw [hgs, ← he.1, ← he.2.1]; exact h.gex.oqs r x hx0
    · intro r x' hx
      obtain ⟨x, hx0, he⟩ := map_eq_some_of (hs.pqs r) hx
      simp only [pqStat, Prod.mk.injEq] at he
      rw [hgs, ← he.1, ← he.2.1]; exact h.gex.pqs r x hx0
    · intro c g hc
      rw [hs.conds] at hc
      rw [hgs]; exact h.gex.conds c g hc

/-- the structural invariant; `ex` = keys that are queued in no waiting list -/
structure Safe (ex : Nat → Prop) (w : World) : Prop where
  nf : w.fault = none
  st : StaticOk w
  gq : ∀ (g : Nat) (gd : Guard), w.guards[g]? = some gd → GWF gd.q ∧ ∀ k ∈ keys (abs gd.q), k ≤ w.procs.size ∧ ¬ ex k
  hq : ∀ (pl : Nat) (x : Pool), w.pools[pl]? = some x → HWF x.holders ∧ ∀ k ∈ keys (abs x.holders), k ≤ w.procs.size

variable {ex : Nat → Prop}

theorem Safe.gwf {w : World} (h : Safe ex w) : AllGWF w := fun g gd hg => (h.gq g gd hg).1

/-- nothing relevant changed -/
theorem Safe.same {w w' : World} (h : Safe ex w) (hf : w'.fault = w.fault) (hg : w'.guards = w.guards)
    (hp : w'.pools = w.pools) (hs : Stat w w') : Safe ex w' :=
  ⟨hf.trans h.nf, h.st.ofStat hs, by rw [hg, hs.psize]; exact h.gq, by rw [hp, hs.psize]; exact h.hq⟩

/-- weaken the exclusion set -/
theorem Safe.mono {ex' : Nat → Prop} {w : World} (h : Safe ex w) (hx : ∀ k, ex' k → ex k) : Safe ex' w :=
  ⟨h.nf, h.st, fun g gd hg => ⟨(h.gq g gd hg).1, fun k hk => ⟨((h.gq g gd hg).2 k hk).1, fun hk' => ((h.gq g gd hg).2 k hk).2 (hx k hk')⟩⟩,
   h.hq⟩

/-- strengthen the exclusion set by a key that is queued nowhere -/
theorem Safe.exclude {w : World} (h : Safe ex w) (k0 : Nat) (hn : ∀ g, ¬ queued w g k0) : Safe (fun k => ex k ∨ k = k0) w :=
  ⟨h.nf, h.st, fun g gd hg => ⟨(h.gq g gd hg).1, fun k hk => ⟨((h.gq g gd hg).2 k hk).1, fun hk' => by
      rcases hk' with hk' | rfl
      · exact ((h.gq g gd hg).2 k hk).2 hk'
      · exact hn g ⟨gd, hg, hk⟩⟩⟩, h.hq⟩

def noKey : Nat → Prop := fun _ => False
def isKey (p : Pid) : Nat → Prop := fun k => k = p + 1

theorem Safe.toNoKey {w : World} (h : Safe ex w) : Safe noKey w := h.mono (fun _ hk => hk.elim)

theorem Safe.toKey {w : World} (h : Safe noKey w) (p : Pid) (hn : ∀ g, ¬ queued w g (p + 1)) : Safe (isKey p) w :=
  (h.exclude (p + 1) hn).mono (fun _ hk => Or.inr hk)


/-! ### `fault` is untouched by the primitives without a fault site -/

theorem sched_now_fault (w : World) (a s : Nat) (sig pri : Int) : (sched w a s sig w.now pri).1.fault = w.fault := by
  rw [S3.sched_now]; rfl
@[simp] theorem sched_now_fault' (w : World) (a s : Nat) (sig pri : Int) : (sched w a s sig w.ev.now pri).1.fault = w.fault :=
  sched_now_fault w a s sig pri

theorem sched_ge_fault (w : World) (a s : Nat) (sig t pri : Int) (ht : w.now ≤ t) : (sched w a s sig t pri).1.fault = w.fault := by
  rw [S3.sched_ge w a s sig t pri ht]; rfl

@[simp] theorem wakeEventWaiters_fault (w : World) (ps : List Pid) (sig : Int) : (wakeEventWaiters w ps sig).fault = w.fault := by
  unfold wakeEventWaiters
  exact foldl_keeps (fun w => w.fault) _ (fun w q => sched_now_fault w _ _ _ _) ps w

@[simp] theorem evCancel_fault (w : World) (h : Nat) : (evCancel w h).1.fault = w.fault := (evCancel_rel w h).fault

@[simp] theorem cancelAllFor_fault (w : World) (p : Pid) : (cancelAllFor w p).fault = w.fault := by
  unfold cancelAllFor
  exact foldl_keeps (fun w => w.fault) _ (fun w q => evCancel_fault w q) _ w

@[simp] theorem cancelKindFor_fault (w : World) (p : Pid) (act : Nat) (sig : Option Int) :
    (cancelKindFor w p act sig).1.fault = w.fault := by
  unfold cancelKindFor
  exact foldl_keeps (fun w => w.fault) _ (fun w q => evCancel_fault w q) _ w

@[simp] theorem cancelUserAll_fault (w : World) : (cancelUserAll w).1.fault = w.fault := by
  unfold cancelUserAll
  exact foldl_keeps (fun w => w.fault) _ (fun w q => evCancel_fault w q) _ w

@[simp] theorem recordRes_fault (w : World) (r : Nat) : (recordRes w r).fault = w.fault := by
  unfold recordRes; splits_rfl
@[simp] theorem recordPool_fault (w : World) (r : Nat) : (recordPool w r).fault = w.fault := by
  unfold recordPool; splits_rfl
@[simp] theorem recordBuf_fault (w : World) (r : Nat) : (recordBuf w r).fault = w.fault := by
  unfold recordBuf; splits_rfl
@[simp] theorem recordOQ_fault (w : World) (r : Nat) : (recordOQ w r).fault = w.fault := by
  unfold recordOQ; splits_rfl
@[simp] theorem recordPQ_fault (w : World) (r : Nat) : (recordPQ w r).fault = w.fault := by
  unfold recordPQ; splits_rfl
@[simp] theorem setPoolInUse_fault (w : World) (pl v : Nat) : (setPoolInUse w pl v).fault = w.fault := rfl
@[simp] theorem addAwait_fault (w : World) (p : Pid) (a : Await) : (addAwait w p a).fault = w.fault := rfl
@[simp] theorem removeAwait_fault (w : World) (p : Pid) (a : Await) : (removeAwait w p a).1.fault = w.fault := rfl
@[simp] theorem removeAwaitKind_fault (w : World) (p : Pid) (k : Await → Bool) : (removeAwaitKind w p k).1.fault = w.fault := rfl
@[simp] theorem removeHeld_fault (w : World) (p : Pid) (x : HoldRef) : (removeHeld w p x).1.fault = w.fault := rfl
@[simp] theorem block_fault (w : World) (p : Pid) (f : Frame) : (block w p f).1.fault = w.fault := rfl
@[simp] theorem setVar_fault (w : World) (p : Pid) (v x : Nat) : (setVar w p v x).fault = w.fault := by
  unfold setVar; split <;> rfl
@[simp] theorem timerCancel_fault (w : World) (p : Pid) (k : Nat) : (timerCancel w p k).1.fault = w.fault := by
  simp only [timerCancel, evCancel_fault, removeAwait_fault]
@[simp] theorem timersClear_fault (w : World) (p : Pid) : (timersClear w p).fault = w.fault := by
  unfold timersClear
  exact foldl_keeps_trans (fun w => w.fault) _ _ _ _ (fun w q => evCancel_fault w q) rfl
@[simp] theorem wakeWaiters_fault (w : World) (p : Pid) (sig : Int) : (wakeWaiters w p sig).fault = w.fault := by
  unfold wakeWaiters
  exact foldl_keeps_trans (fun w => w.fault) _ _ _ _ (fun w q => sched_now_fault w _ _ _ _) rfl


/-! ### primitives that touch neither a waiting list nor a holder list and have no fault site -/

variable {w : World}

theorem Safe.emit (h : Safe ex w) (l : String) : Safe ex (w.emit l) :=
  h.same rfl rfl rfl (by have h0 := Stat.refl w; stat)
theorem Safe.modProc (h : Safe ex w) (p : Pid) (f : Proc → Proc) (hf : ∀ x, (f x).script = x.script) : Safe ex (w.modProc p f) :=
  h.same rfl rfl rfl ((Stat.refl w).modProc p f hf)
theorem Safe.setEvWaiters (h : Safe ex w) (x : List (Nat × List Pid)) : Safe ex { w with evWaiters := x } :=
  h.same rfl rfl rfl ((Stat.refl w).setEvWaiters x)
theorem Safe.setEv (h : Safe ex w) (x : EvQ) : Safe ex { w with ev := x } :=
  h.same rfl rfl rfl ((Stat.refl w).setEv x)
theorem Safe.setFlags (h : Safe ex w) (x : Array Int) : Safe ex { w with flags := x } :=
  h.same rfl rfl rfl ((Stat.refl w).setFlags x)
theorem Safe.setGvars (h : Safe ex w) (x : Array Nat) : Safe ex { w with gvars := x } :=
  h.same rfl rfl rfl ((Stat.refl w).setGvars x)
theorem Safe.pushEv (h : Safe ex w) (a s : Nat) (sig t pri : Int) : Safe ex (pushEv w a s sig t pri) :=
  h.same rfl rfl rfl ((Stat.refl w).same rfl rfl rfl rfl rfl rfl rfl rfl)
theorem Safe.sched_now (h : Safe ex w) (a s : Nat) (sig pri : Int) : Safe ex (sched w a s sig w.now pri).1 :=
  h.same (sched_now_fault w a s sig pri) (by simp) (by simp) ((Stat.refl w).sched_fst _ _ _ _ _)
theorem Safe.sched_ge (h : Safe ex w) (a s : Nat) (sig t pri : Int) (ht : w.now ≤ t) : Safe ex (sched w a s sig t pri).1 :=
  h.same (sched_ge_fault w a s sig t pri ht) (by simp) (by simp) ((Stat.refl w).sched_fst _ _ _ _ _)
theorem Safe.wakeEventWaiters (h : Safe ex w) (ps : List Pid) (sig : Int) : Safe ex (wakeEventWaiters w ps sig) :=
  h.same (by simp) (by simp) (by simp) ((Stat.refl w).wakeEventWaiters ps sig)
theorem Safe.evCancel_fst (h : Safe ex w) (k : Nat) : Safe ex (evCancel w k).1 :=
  h.same (by simp) (by simp) (by simp) ((Stat.refl w).evCancel_fst k)
theorem Safe.cancelAllFor (h : Safe ex w) (p : Pid) : Safe ex (cancelAllFor w p) :=
  h.same (by simp) (by simp) (by simp) ((Stat.refl w).cancelAllFor p)
theorem Safe.cancelKindFor_fst (h : Safe ex w) (p : Pid) (act : Nat) (sig : Option Int) : Safe ex (cancelKindFor w p act sig).1 :=
  h.same (by simp) (by simp) (by simp) ((Stat.refl w).cancelKindFor_fst p act sig)
theorem Safe.cancelUserAll_fst (h : Safe ex w) : Safe ex (cancelUserAll w).1 :=
  h.same (by simp) (by simp) (by simp) ((Stat.refl w).cancelUserAll_fst)
theorem Safe.recordRes (h : Safe ex w) (r : Nat) : Safe ex (recordRes w r) :=
  h.same (by simp) (by simp) (by simp) ((Stat.refl w).recordRes r)
theorem Safe.recordBuf (h : Safe ex w) (r : Nat) : Safe ex (recordBuf w r) :=
  h.same (by simp) (by simp) (by simp) ((Stat.refl w).recordBuf r)
theorem Safe.recordOQ (h : Safe ex w) (r : Nat) : Safe ex (recordOQ w r) :=
  h.same (by simp) (by simp) (by simp) ((Stat.refl w).recordOQ r)
theorem Safe.recordPQ (h : Safe ex w) (r : Nat) : Safe ex (recordPQ w r) :=
  h.same (by simp) (by simp) (by simp) ((Stat.refl w).recordPQ r)
theorem Safe.addAwait (h : Safe ex w) (p : Pid) (a : Await) : Safe ex (addAwait w p a) :=
  h.same (by simp) (by simp) (by simp) ((Stat.refl w).addAwait p a)
theorem Safe.removeAwait_fst (h : Safe ex w) (p : Pid) (a : Await) : Safe ex (removeAwait w p a).1 :=
  h.same (by simp) (by simp) (by simp) ((Stat.refl w).removeAwait_fst p a)
theorem Safe.removeAwaitKind_fst (h : Safe ex w) (p : Pid) (k : Await → Bool) : Safe ex (removeAwaitKind w p k).1 :=
  h.same (by simp) (by simp) (by simp) ((Stat.refl w).removeAwaitKind_fst p k)
theorem Safe.removeHeld_fst (h : Safe ex w) (p : Pid) (x : HoldRef) : Safe ex (removeHeld w p x).1 :=
  h.same (by simp) (by simp) (by simp) ((Stat.refl w).removeHeld_fst p x)
theorem Safe.block_fst (h : Safe ex w) (p : Pid) (f : Frame) : Safe ex (block w p f).1 :=
  h.same (by simp) (by simp) (by simp) ((Stat.refl w).block_fst p f)
theorem Safe.setVar (h : Safe ex w) (p : Pid) (v x : Nat) : Safe ex (setVar w p v x) :=
  h.same (by simp) (by unfold Sim.setVar; split <;> rfl) (by unfold Sim.setVar; split <;> rfl) ((Stat.refl w).setVar p v x)
theorem Safe.timerCancel_fst (h : Safe ex w) (p : Pid) (k : Nat) : Safe ex (timerCancel w p k).1 :=
  h.same (by simp) (by simp) (by simp) ((Stat.refl w).timerCancel_fst p k)
theorem Safe.timersClear (h : Safe ex w) (p : Pid) : Safe ex (timersClear w p) :=
  h.same (by simp) (by simp) (by simp) ((Stat.refl w).timersClear p)
theorem Safe.wakeWaiters (h : Safe ex w) (p : Pid) (sig : Int) : Safe ex (wakeWaiters w p sig) :=
  h.same (by simp) (by simp) (by simp) ((Stat.refl w).wakeWaiters p sig)
theorem Safe.timerAdd_fst (h : Safe ex w) (p : Pid) (d sig : Int) (hd : 0 ≤ d) : Safe ex (timerAdd w p d sig).1 := by
  simp only [Sim.timerAdd]
  exact (h.sched_ge _ _ _ _ _ (by simp only [World.now]; omega)).addAwait _ _

/-- objects other than pools: writing an element that keeps the static data -/
theorem Safe.setResSet (h : Safe ex w) (r : Nat) (y : Res) (hy : ∀ x, w.res[r]? = some x → resStat y = resStat x) :
    Safe ex { w with res := w.res.set! r y } := h.same rfl rfl rfl ((Stat.refl w).setResSet r y hy)
theorem Safe.setResModify (h : Safe ex w) (r : Nat) (g : Res → Res) (hg : ∀ x, resStat (g x) = resStat x) :
    Safe ex { w with res := w.res.modify r g } := h.same rfl rfl rfl ((Stat.refl w).setResModify r g hg)
theorem Safe.setBufsSet (h : Safe ex w) (r : Nat) (y : Buf) (hy : ∀ x, w.bufs[r]? = some x → bufStat y = bufStat x) :
    Safe ex { w with bufs := w.bufs.set! r y } := h.same rfl rfl rfl ((Stat.refl w).setBufsSet r y hy)
theorem Safe.setBufsModify (h : Safe ex w) (r : Nat) (g : Buf → Buf) (hg : ∀ x, bufStat (g x) = bufStat x) :
    Safe ex { w with bufs := w.bufs.modify r g } := h.same rfl rfl rfl ((Stat.refl w).setBufsModify r g hg)
theorem Safe.setOqsSet (h : Safe ex w) (r : Nat) (y : OQ) (hy : ∀ x, w.oqs[r]? = some x → oqStat y = oqStat x) :
    Safe ex { w with oqs := w.oqs.set! r y } := h.same rfl rfl rfl ((Stat.refl w).setOqsSet r y hy)
theorem Safe.setOqsModify (h : Safe ex w) (r : Nat) (g : OQ → OQ) (hg : ∀ x, oqStat (g x) = oqStat x) :
    Safe ex { w with oqs := w.oqs.modify r g } := h.same rfl rfl rfl ((Stat.refl w).setOqsModify r g hg)
theorem Safe.setPqsSet (h : Safe ex w) (r : Nat) (y : PQ) (hy : ∀ x, w.pqs[r]? = some x → pqStat y = pqStat x) :
    Safe ex { w with pqs := w.pqs.set! r y } := h.same rfl rfl rfl ((Stat.refl w).setPqsSet r y hy)
theorem Safe.setPqsModify (h : Safe ex w) (r : Nat) (g : PQ → PQ) (hg : ∀ x, pqStat (g x) = pqStat x) :
    Safe ex { w with pqs := w.pqs.modify r g } := h.same rfl rfl rfl ((Stat.refl w).setPqsModify r g hg)

/-! ### pools: the holder list is untouched -/

theorem Safe.setPoolsModify (h : Safe ex w) (pl : Nat) (f : Pool → Pool) (hs : ∀ x, poolStat (f x) = poolStat x)
    (hf : ∀ x, (f x).holders = x.holders) : Safe ex { w with pools := w.pools.modify pl f } := by
  refine ⟨h.nf, h.st.ofStat ((Stat.refl w).setPoolsModify pl f hs), h.gq, ?_⟩
  intro i x hx
  simp only [Array.getElem?_modify] at hx
  split at hx
  · cases hy : w.pools[i]? with
    | none => rw [hy] at hx; cases hx
    | some y =>
      rw [hy] at hx
      simp only [Option.map_some, Option.some.injEq] at hx
      rw [← hx, hf]; exact h.hq i y hy
  · exact h.hq i x hx

/-- writing a pool record whose holder list is fine -/
theorem Safe.setPoolsSet (h : Safe ex w) (pl : Nat) (y : Pool) (hs : ∀ x, w.pools[pl]? = some x → poolStat y = poolStat x)
    (hy : HWF y.holders ∧ ∀ k ∈ keys (abs y.holders), k ≤ w.procs.size) :
    Safe ex { w with pools := w.pools.set! pl y } := by
  refine ⟨h.nf, h.st.ofStat ((Stat.refl w).setPoolsSet pl y hs), h.gq, ?_⟩
  intro i x hx
  simp only [Array.set!_eq_setIfInBounds, Array.getElem?_setIfInBounds] at hx
  split at hx
  · split at hx
    · cases hx; exact hy
    · cases hx
  · exact h.hq i x hx

theorem Safe.setPoolInUse (h : Safe ex w) (pl v : Nat) : Safe ex (setPoolInUse w pl v) :=
  h.setPoolsModify pl _ (fun _ => rfl) (fun _ => rfl)

theorem Safe.recordPool (h : Safe ex w) (r : Nat) : Safe ex (recordPool w r) := by
  unfold Sim.recordPool
  split
  · rename_i x hx
    split
    · exact h.setPoolsSet r _ (fun y hy => by rw [hx] at hy; cases hy; rfl) (h.hq r x hx)
    · exact h
  · exact h

/-! ### waiting lists -/

theorem Safe.setGuardQ (h : Safe ex w) (g : Nat) (q' : HH)
    (hq' : ∀ gd, w.guards[g]? = some gd → GWF q' ∧ ∀ k ∈ keys (abs q'), k ∈ keys (abs gd.q)) : Safe ex (setGuardQ w g q') := by
  refine ⟨h.nf, h.st.ofStat ((Stat.refl w).setGuardQ g q'), ?_, h.hq⟩
  intro g' gd' hg'
  rw [setGuardQ_guards_get] at hg'
  split at hg'
  · rename_i e; subst e
    cases hgd : w.guards[g']? with
    | none => rw [hgd] at hg'; cases hg'
    | some gd =>
      rw [hgd] at hg'
      simp only [Option.map_some, Option.some.injEq] at hg'
      subst hg'
      obtain ⟨h1, h2⟩ := hq' gd hgd
      exact ⟨h1, fun k hk => (h.gq g' gd hgd).2 k (h2 k hk)⟩
  · exact h.gq g' gd' hg'

theorem Safe.guardRemove_fst (h : Safe ex w) (g : Nat) (p : Pid) : Safe ex (guardRemove w g p).1 := by
  cases hg : w.guards[g]? with
  | none => rw [guardRemove_none hg]; exact h
  | some gd =>
    obtain ⟨q', _, hwf', hperm, heq⟩ := guardRemove_spec hg (h.gq g gd hg).1 p
    rw [heq]
    refine h.setGuardQ g q' (fun gd0 hgd0 => ?_)
    rw [hg] at hgd0; cases hgd0
    refine ⟨hwf', fun k hk => ?_⟩
    obtain ⟨e, he, rfl⟩ := Event.mem_keys.1 ((HashHeap.keys_perm hperm _).1 hk)
    exact Event.mem_keys.2 ⟨e, (S3.mem_remove.1 he).1, rfl⟩

theorem Safe.frontStep (h : Safe ex w) (g : Nat) (gd : Guard) (hg : w.guards[g]? = some gd) : Safe ex (S3.frontStep w g gd) := by
  obtain ⟨h0, hpos⟩ := frontStep_spec w g gd (h.gq g gd hg).1
  by_cases hc : gd.q.count = 0
  · rw [h0 hc]; exact h
  · obtain ⟨_, hf, ht⟩ := hpos (by omega)
    cases hd : evalDemand w (demandOf gd (gd.q.tag 1).key) with
    | false => rw [hf hd]; exact h
    | true =>
      obtain ⟨q', _, hwf', hperm, heq⟩ := ht hd
      rw [heq]
      unfold S3.grant
      refine (h.setGuardQ g q' (fun gd0 hgd0 => ?_)).pushEv _ _ _ _ _
      rw [hg] at hgd0; cases hgd0
      refine ⟨hwf', fun k hk => ?_⟩
      have := (HashHeap.keys_perm hperm k).2
      simp only [keys, List.map_cons, List.mem_cons] at this
      exact this (Or.inr hk)

/-- guard `o` has no observers -/
def NoObs (w : World) (o : Nat) : Prop := ∀ od : Guard, w.guards[o]? = some od → od.observers = []

theorem NoObs.ofStat {w w' : World} {o : Nat} (h : NoObs w o) (hs : Stat w w') : NoObs w' o := by
  intro od' hod
  obtain ⟨od, h1, h2, _⟩ := stat_guard hs hod
  rw [← h2]; exact h od h1

theorem Safe.foldl {α : Type} {f : World → α → World} (hf : ∀ w a, Safe ex w → Safe ex (f w a)) :
    ∀ (l : List α) {w : World}, Safe ex w → Safe ex (l.foldl f w) := by
  intro l
  induction l with
  | nil => intro w h; exact h
  | cons a l ih => intro w h; exact ih (hf w a h)

theorem Safe.condSignal_fst (h : Safe ex w) (g : Nat) : Safe ex (Sim.condSignal w g).1 := by
  unfold Sim.condSignal
  split
  · exact h
  · dsimp only
    split
    · exact h
    · exact Safe.foldl (fun w t h => h.guardRemove_fst _ _) _ (Safe.foldl (fun w t h => h.sched_now _ _ _ _) _ h)

/-- what a signal does at the guard itself -/
theorem Safe.ownStep (h : Safe ex w) (fwd : Bool) (g : Nat) (gd : Guard) (hg : w.guards[g]? = some gd) :
    Safe ex (S3.ownStep fwd w g gd) := by
  unfold S3.ownStep
  split
  · exact h.condSignal_fst g
  · exact h.frontStep g gd hg

/-- a signal (direct or forwarded) of a guard without observers: one step at the guard itself -/
theorem Safe.guardSignalF_leaf (h : Safe ex w) (fwd : Bool) (fuel : Nat) (g : Nat) (hno : NoObs w g) :
    Safe ex (Sim.guardSignalF fwd (fuel + 1) w g) := by
  rw [guardSignalF_succ]
  split
  · exact h
  · rename_i gd hg
    rw [hno gd hg]
    exact h.ownStep fwd g gd hg

theorem Safe.guardSignal (h : Safe ex w) (fuel : Nat) (g : Nat) : Safe ex (Sim.guardSignal (fuel + 2) w g) := by
  rw [guardSignal_succ]
  split
  · exact h
  · rename_i gd hg
    have hobs : ∀ o ∈ gd.observers, NoObs w o := fun o ho od hod => h.st.obs g gd hg o ho od hod
    have hs0 : Stat w (S3.frontStep w g gd) := (Stat.refl w).frontStep g gd
    have key : ∀ (os : List Nat) (w' : World), (∀ o ∈ os, NoObs w o) → Safe ex w' → Stat w w' →
        Safe ex (os.foldl (fun w o => S3.fwdSignal (fuel + 1) w o) w') := by
      intro os
      induction os with
      | nil => intro w' _ h' _; exact h'
      | cons o os ih =>
        intro w' hos h' hs'
        simp only [List.foldl_cons]
        refine ih _ (fun o' ho' => hos o' (List.mem_cons_of_mem _ ho')) ?_ (hs'.trans (Stat.guardSignalF' _ _ _ _))
        exact h'.guardSignalF_leaf true fuel o ((hos o List.mem_cons_self).ofStat hs')
    exact key _ _ hobs (h.frontStep g gd hg) hs0

theorem Safe.signal (h : Safe ex w) (g : Nat) : Safe ex (Sim.signal w g) := h.guardSignal 6 g

/-! ### the tactic: peel the outermost function -/

syntax "safe_step" : tactic
macro_rules | `(tactic| safe_step) => `(tactic| dsimp only)
macro_rules | `(tactic| safe_step) => `(tactic| (guard_world_lit; with_reducible apply Safe.setGvars))
macro_rules | `(tactic| safe_step) => `(tactic| (guard_world_lit; with_reducible apply Safe.setFlags))
macro_rules | `(tactic| safe_step) => `(tactic| (guard_world_lit; with_reducible apply Safe.setEvWaiters))
macro_rules | `(tactic| safe_step) => `(tactic| (guard_world_lit; with_reducible refine Safe.setPqsModify ?_ _ _ (fun _ => rfl)))
macro_rules | `(tactic| safe_step) => `(tactic| (guard_world_lit; with_reducible refine Safe.setPqsSet ?_ _ _ (by stat_side)))
macro_rules | `(tactic| safe_step) => `(tactic| (guard_world_lit; with_reducible refine Safe.setOqsModify ?_ _ _ (fun _ => rfl)))
macro_rules | `(tactic| safe_step) => `(tactic| (guard_world_lit; with_reducible refine Safe.setOqsSet ?_ _ _ (by stat_side)))
macro_rules | `(tactic| safe_step) => `(tactic| (guard_world_lit; with_reducible refine Safe.setBufsModify ?_ _ _ (fun _ => rfl)))
macro_rules | `(tactic| safe_step) => `(tactic| (guard_world_lit; with_reducible refine Safe.setBufsSet ?_ _ _ (by stat_side)))
macro_rules | `(tactic| safe_step) => `(tactic| (guard_world_lit; with_reducible refine Safe.setResModify ?_ _ _ (fun _ => rfl)))
macro_rules | `(tactic| safe_step) => `(tactic| (guard_world_lit; with_reducible refine Safe.setResSet ?_ _ _ (by stat_side)))
macro_rules | `(tactic| safe_step) => `(tactic| (guard_world_lit; with_reducible refine Safe.setPoolsModify ?_ _ _ (fun _ => rfl) (fun _ => rfl)))
macro_rules | `(tactic| safe_step) => `(tactic| split)
macro_rules | `(tactic| safe_step) => `(tactic| with_reducible apply Safe.signal)
macro_rules | `(tactic| safe_step) => `(tactic| with_reducible apply Safe.guardRemove_fst)
macro_rules | `(tactic| safe_step) => `(tactic| with_reducible apply Safe.wakeWaiters)
macro_rules | `(tactic| safe_step) => `(tactic| with_reducible apply Safe.timersClear)
macro_rules | `(tactic| safe_step) => `(tactic| with_reducible apply Safe.timerCancel_fst)
macro_rules | `(tactic| safe_step) => `(tactic| with_reducible apply Safe.setVar)
macro_rules | `(tactic| safe_step) => `(tactic| with_reducible apply Safe.block_fst)
macro_rules | `(tactic| safe_step) => `(tactic| with_reducible apply Safe.removeHeld_fst)
macro_rules | `(tactic| safe_step) => `(tactic| with_reducible apply Safe.removeAwaitKind_fst)
macro_rules | `(tactic| safe_step) => `(tactic| with_reducible apply Safe.removeAwait_fst)
macro_rules | `(tactic| safe_step) => `(tactic| with_reducible apply Safe.addAwait)
macro_rules | `(tactic| safe_step) => `(tactic| with_reducible apply Safe.recordPQ)
macro_rules | `(tactic| safe_step) => `(tactic| with_reducible apply Safe.recordOQ)
macro_rules | `(tactic| safe_step) => `(tactic| with_reducible apply Safe.recordBuf)
macro_rules | `(tactic| safe_step) => `(tactic| with_reducible apply Safe.recordPool)
macro_rules | `(tactic| safe_step) => `(tactic| with_reducible apply Safe.recordRes)
macro_rules | `(tactic| safe_step) => `(tactic| with_reducible apply Safe.setPoolInUse)
macro_rules | `(tactic| safe_step) => `(tactic| with_reducible apply Safe.cancelKindFor_fst)
macro_rules | `(tactic| safe_step) => `(tactic| with_reducible apply Safe.cancelUserAll_fst)
macro_rules | `(tactic| safe_step) => `(tactic| with_reducible apply Safe.cancelAllFor)
macro_rules | `(tactic| safe_step) => `(tactic| with_reducible apply Safe.evCancel_fst)
macro_rules | `(tactic| safe_step) => `(tactic| with_reducible apply Safe.wakeEventWaiters)
macro_rules | `(tactic| safe_step) => `(tactic| with_reducible apply Safe.sched_now)
macro_rules | `(tactic| safe_step) => `(tactic| (with_reducible refine Safe.modProc ?_ _ _ (fun _ => rfl)))
macro_rules | `(tactic| safe_step) => `(tactic| with_reducible apply Safe.emit)
macro_rules | `(tactic| safe_step) => `(tactic| with_reducible assumption)

/-- close a `Safe ex (expr)` goal by peeling `expr` -/
macro "safe" : tactic => `(tactic| repeat' safe_step)

theorem Safe.guardWithdraw (h : Safe ex w) (g : Nat) (p : Pid) : Safe ex (Sim.guardWithdraw w g p) := by
  simp only [Sim.guardWithdraw]; safe
macro_rules | `(tactic| safe_step) => `(tactic| with_reducible apply Safe.guardWithdraw)

theorem Safe.cancelAwaiteds (h : Safe ex w) (p : Pid) : Safe ex (Sim.cancelAwaiteds w p) := by
  unfold Sim.cancelAwaiteds
  apply Safe.cancelAllFor
  exact Safe.foldl (fun w a h => by safe) _ (by safe)
macro_rules | `(tactic| safe_step) => `(tactic| with_reducible apply Safe.cancelAwaiteds)

theorem Safe.guardWaitLeave (h : Safe ex w) (g : Nat) (p : Pid) (sig : Int) : Safe ex (Sim.guardWaitLeave w g p sig) := by
  unfold Sim.guardWaitLeave; safe
macro_rules | `(tactic| safe_step) => `(tactic| with_reducible apply Safe.guardWaitLeave)

end CimbaModel.Sim.S4
