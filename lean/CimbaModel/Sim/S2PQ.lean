/-
  S2 — object priority queues (C12): the concrete hashheap stays well-formed, within capacity, and its live handles
  are exactly the handles put minus those delivered minus those cancelled; what `get`, `cancel`, `reprioritize`
  and `position` do, in terms of the abstract keyed priority queue.
-/
import CimbaModel.Sim.S2OQ
import CimbaModel.Sim.S2HH
import CimbaModel.Event.Lemmas

namespace CimbaModel.Sim
open CimbaModel CimbaModel.Event CimbaModel.Generated CimbaModel.KPQ
open CimbaModel.HashHeap (HTag Item Order HH WF abs KeysBelowCounter)

structure PQOK (x : PQ) : Prop where
  wf : WF compare_func x.queue
  inCap : x.queue.count ≤ x.cap
  /-- handles are issued by the hashheap's item counter, one per put -/
  counter : x.queue.counter = x.putLog.length
  below : KeysBelowCounter x.queue
  putBelow : ∀ h ∈ x.putLog, h ≤ x.queue.counter
  /-- every handle put is live, delivered or cancelled — exactly one of the three -/
  part : (keys (abs x.queue) ++ x.gotLog ++ x.cancelLog).Perm x.putLog
  nodup : x.putLog.Nodup

/-- as long as the 64-bit handle counter has not wrapped (fewer than 2^64 − 1 puts so far) -/
def PQGood (x : PQ) : Prop := x.putLog.length + 1 < 2 ^ 64 → PQOK x

def PQInv (w : World) : Prop := ArrAll PQGood w.pqs

theorem PQInv.of_eq {w w' : World} (h : w'.pqs = w.pqs) (hi : PQInv w) : PQInv w' := by
  unfold PQInv; rw [h]; exact hi

@[simp] theorem arrAll_recordPQ (w : World) (b : Nat) : ArrAll PQGood (recordPQ w b).pqs ↔ ArrAll PQGood w.pqs := by
  unfold recordPQ
  split
  · split
    · rename_i x hx _
      constructor
      · intro h i y hy
        by_cases hi : b = i
        · subst hi
          have := h b _ (by
            rw [Array.set!_eq_setIfInBounds, Array.getElem?_setIfInBounds, if_pos rfl, if_pos]
            exact (Array.getElem?_eq_some_iff.1 hx).1)
          rw [hx] at hy; cases hy
          intro hl
          have := this hl
          exact ⟨this.wf, this.inCap, this.counter, this.below, this.putBelow, this.part, this.nodup⟩
        · exact h i y (by rw [Array.set!_eq_setIfInBounds, Array.getElem?_setIfInBounds, if_neg hi]; exact hy)
      · intro h
        rw [Array.set!_eq_setIfInBounds]
        refine ArrAll.set h b ?_
        intro hl
        have := h.get hx hl
        exact ⟨this.wf, this.inCap, this.counter, this.below, this.putBelow, this.part, this.nodup⟩
    · exact Iff.rfl
  · exact Iff.rfl

theorem PQInv.recordPQ {w : World} (b : Nat) (h : PQInv w) : PQInv (recordPQ w b) :=
  (arrAll_recordPQ w b).2 h

/-! ### the four updating operations, on one queue record -/

theorem PQGood.get {x : PQ} (hx : PQGood x) (hpos : x.queue.count > 0) {q' : HH} {t : HTag}
    (hd : HashHeap.dequeue compare_func x.queue = .ok (q', some t)) :
    PQGood { x with queue := q', gotLog := x.gotLog ++ [t.key] } := by
  intro hl
  have ok := hx hl
  obtain ⟨s', hrun, hwf, hperm, hc, _, _, hct⟩ := HashHeap.dequeue_abs ok.wf hpos
  rw [hrun] at hd
  injection hd with hd
  injection hd with h1 h2
  injection h2 with h2
  subst h1; subst h2
  have hk : (keys (abs x.queue)).Perm ((x.queue.tag 1).key :: keys (abs s')) := HashHeap.keys_perm_of_perm hperm
  refine ⟨hwf, ?_, ?_, ?_, ?_, ?_, ok.nodup⟩
  · show s'.count ≤ x.cap
    have := ok.inCap; omega
  · show s'.counter = _
    rw [hct]; exact ok.counter
  · intro k hkm
    show k ≤ s'.counter
    rw [hct]
    exact ok.below k (hk.mem_iff.2 (List.mem_cons_of_mem _ hkm))
  · intro h hh
    show h ≤ s'.counter
    rw [hct]; exact ok.putBelow h hh
  · show (keys (abs s') ++ (x.gotLog ++ [(x.queue.tag 1).key]) ++ x.cancelLog).Perm x.putLog
    refine List.Perm.trans ?_ ok.part
    refine List.Perm.append_right _ ?_
    refine List.Perm.trans ?_ (hk.symm.append_right _)
    simp only [List.cons_append]
    rw [← List.append_assoc]
    exact (List.perm_append_singleton _ _).trans (List.Perm.refl _)

theorem PQGood.put {x : PQ} (hx : PQGood x) (hroom : x.queue.count < x.cap) {obj : Nat} {pri : Int} {q' : HH} {h : Nat}
    (he : HashHeap.enqueue compare_func x.queue ⟨obj, 0, 0, 0⟩ 0 0 pri = .ok (q', h)) :
    PQGood { x with queue := q', putLog := x.putLog ++ [h] } := by
  intro hl
  have hl0 : x.putLog.length + 1 < 2 ^ 64 := by
    simp only [List.length_append, List.length_cons, List.length_nil] at hl; omega
  have ok := hx hl0
  have hc64 : x.queue.counter + 1 < 2 ^ 64 := by
    rw [ok.counter]
    simp only [List.length_append, List.length_cons, List.length_nil] at hl; omega
  obtain ⟨hk, hwf, hperm, hct, hc⟩ := HashHeap.enqueue_ok_inv ok.wf ⟨obj, 0, 0, 0⟩ 0 0 pri
    (by simp) (by simpa using hc64) (by simpa using ok.below.fresh) he
  simp only [if_true] at hk
  have hkeys : (keys (abs q')).Perm (h :: keys (abs x.queue)) := by
    have := hperm.map (·.key)
    simpa [KPQ.insert, KPQ.norm, keys] using this
  refine ⟨hwf, ?_, ?_, ?_, ?_, ?_, ?_⟩
  · show q'.count ≤ x.cap
    omega
  · show q'.counter = (x.putLog ++ [h]).length
    rw [hct, ok.counter]; simp
  · intro k hkm
    show k ≤ q'.counter
    rcases List.mem_cons.1 (hkeys.mem_iff.1 hkm) with rfl | hm
    · omega
    · have := ok.below k hm; omega
  · intro k hkm
    show k ≤ q'.counter
    rcases List.mem_append.1 hkm with hm | hm
    · have := ok.putBelow k hm; omega
    · simp at hm; omega
  · show (keys (abs q') ++ x.gotLog ++ x.cancelLog).Perm (x.putLog ++ [h])
    refine List.Perm.trans ((hkeys.append_right _).append_right _) ?_
    simp only [List.cons_append]
    exact (List.Perm.cons h ok.part).trans (List.perm_append_singleton _ _).symm
  · show (x.putLog ++ [h]).Nodup
    rw [List.nodup_append]
    refine ⟨ok.nodup, by simp, ?_⟩
    intro a ha b hb
    simp at hb; subst hb
    have := ok.putBelow a ha
    omega

theorem PQGood.cancel {x : PQ} (hx : PQGood x) {h : Nat} (h0 : h ≠ 0) {q' : HH} {r : Bool}
    (hr : HashHeap.remove compare_func x.queue h = .ok (q', r)) :
    PQGood { x with queue := q', cancelLog := if r then x.cancelLog ++ [h] else x.cancelLog } := by
  intro hl
  have ok := hx hl
  obtain ⟨s', hrun, hwf, hperm, _, _, hct, hc⟩ := HashHeap.remove_abs ok.wf h h0
  rw [hrun] at hr
  injection hr with hr
  injection hr with h1 h2
  subst h1
  have hkeys : ∀ j, j ∈ keys (abs s') ↔ j ∈ keys (abs x.queue) ∧ j ≠ h := by
    intro j; rw [HashHeap.keys_perm hperm, HashHeap.keys_remove]
  refine ⟨hwf, ?_, ?_, ?_, ?_, ?_, ok.nodup⟩
  · show s'.count ≤ x.cap
    have := ok.inCap; rw [hc]; omega
  · show s'.counter = _
    rw [hct]; exact ok.counter
  · intro k hkm
    show k ≤ s'.counter
    rw [hct]; exact ok.below k ((hkeys k).1 hkm).1
  · intro k hk
    show k ≤ s'.counter
    rw [hct]; exact ok.putBelow k hk
  · show (keys (abs s') ++ x.gotLog ++ (if r = true then x.cancelLog ++ [h] else x.cancelLog)).Perm x.putLog
    refine List.Perm.trans ?_ ok.part
    have hk' : (keys (abs s')).Perm (keys (KPQ.remove (abs x.queue) h)) := HashHeap.keys_perm_of_perm hperm
    by_cases hm : h ∈ keys (abs x.queue)
    · have : r = true := by rw [← h2]; simp [hm]
      subst this
      simp only [if_true]
      have h3 := keys_remove_perm (abs x.queue) h ok.wf.keys_nodup hm
      -- keys' ++ got ++ (cancel ++ [h])  ~  h :: keys' ++ got ++ cancel
      rw [← List.append_assoc]
      refine (List.perm_append_singleton _ _).trans ?_
      have : (h :: (keys (abs s') ++ x.gotLog ++ x.cancelLog)) = (h :: keys (abs s')) ++ x.gotLog ++ x.cancelLog := by simp
      rw [this]
      exact (((List.Perm.cons h hk').trans h3).append_right _).append_right _
    · have : r = false := by rw [← h2]; simp [hm]
      subst this
      simp only [Bool.false_eq_true, if_false]
      rw [HashHeap.remove_of_not_mem hm] at hk'
      exact (hk'.append_right _).append_right _

theorem PQGood.reprio {x : PQ} (hx : PQGood x) {h : Nat} (hm : x.putLog.length + 1 < 2 ^ 64 → h ∈ keys (abs x.queue))
    {pri : Int} {q' : HH} (hr : HashHeap.reprioritize compare_func x.queue h 0 pri = .ok q') :
    PQGood { x with queue := q' } := by
  intro hl
  have ok := hx hl
  obtain ⟨s', hrun, hwf, hperm, _, _, hct⟩ := HashHeap.reprio_abs ok.wf (hm hl) 0 pri
  rw [hrun] at hr
  injection hr with hr
  subst hr
  have hkeys : (keys (abs s')).Perm (keys (abs x.queue)) := by
    have := HashHeap.keys_perm_of_perm hperm
    rw [HashHeap.keys_reprio] at this
    exact this
  refine ⟨hwf, ?_, ?_, ?_, ?_, ?_, ok.nodup⟩
  · show s'.count ≤ x.cap
    have := HashHeap.reprioritize_count hrun
    rw [this]; exact ok.inCap
  · show s'.counter = _
    rw [hct]; exact ok.counter
  · intro k hkm
    show k ≤ s'.counter
    rw [hct]; exact ok.below k (hkeys.mem_iff.1 hkm)
  · intro k hk
    show k ≤ s'.counter
    rw [hct]; exact ok.putBelow k hk
  · show (keys (abs s') ++ x.gotLog ++ x.cancelLog).Perm x.putLog
    exact ((hkeys.append_right _).append_right _).trans ok.part

/-! ### the loops and commands -/

theorem PQInv.pqGetLoop {w : World} (p : Pid) (k : Nat) (h : PQInv w) : PQInv (pqGetLoop w p k).1 := by
  unfold PQInv at *
  unfold Sim.pqGetLoop
  split
  · simpa using h
  · rename_i x hx
    split
    · split
      · rename_i hpos _ q' t hd
        simp
        exact ArrAll.set h k ((h.get hx).get hpos hd)
      · simpa using h
      · simpa using h
    · simpa using h

theorem PQInv.pqPutLoop {w : World} (p : Pid) (k obj : Nat) (pri : Int) (v : Nat) (h : PQInv w) :
    PQInv (pqPutLoop w p k obj pri v).1 := by
  unfold PQInv at *
  unfold Sim.pqPutLoop
  split
  · simpa using h
  · rename_i x hx
    split
    · split
      · rename_i hroom _ q' hh he
        simp
        exact ArrAll.set h k ((h.get hx).put hroom he)
      · simpa using h
    · simpa using h

theorem PQInv.setRecording {w : World} (kind idx : Nat) (on : Bool) (h : PQInv w) : PQInv (setRecording w kind idx on) := by
  by_cases hk : kind = 0 ∨ kind = 1 ∨ kind = 2 ∨ kind = 3
  · refine PQInv.of_eq ((setRecording_fp w kind idx on).2.2.2.2.1 ?_) h
    unfold recMask
    rcases hk with rfl | rfl | rfl | rfl <;> rfl
  · unfold Sim.setRecording
    have hm : ∀ w : World, PQInv w → PQInv { w with pqs := w.pqs.modify idx fun x => { x with recording := on } } :=
      fun w hw => ArrAll.modify hw idx (fun x _ hx hl =>
        ⟨(hx hl).wf, (hx hl).inCap, (hx hl).counter, (hx hl).below, (hx hl).putBelow, (hx hl).part, (hx hl).nodup⟩)
    have e0 : kind ≠ 0 := fun e => hk (Or.inl e)
    have e1 : kind ≠ 1 := fun e => hk (Or.inr (Or.inl e))
    have e2 : kind ≠ 2 := fun e => hk (Or.inr (Or.inr (Or.inl e)))
    have e3 : kind ≠ 3 := fun e => hk (Or.inr (Or.inr (Or.inr e)))
    dsimp only
    split
    · split <;> first | contradiction | (split <;> first | contradiction | exact PQInv.recordPQ idx (hm w h))
    · split <;> first | contradiction | (split <;> first | contradiction | exact hm _ (PQInv.recordPQ idx h))

theorem mem_keys_of_pqPosition {x : PQ} (hwf : WF compare_func x.queue) {h : Nat} (hp : pqPosition x h ≠ 0) :
    h ∈ keys (abs x.queue) := by
  apply Classical.byContradiction
  intro hn
  apply hp
  unfold pqPosition
  split
  · rfl
  · rw [HashHeap.findIndex_of_not_mem hwf hn]
    rfl

theorem PQInv.pqCancel {w : World} (p : Pid) (k v : Nat) (h : PQInv w) : PQInv (execCmd w p (.pqCancel k v)).1 := by
  unfold PQInv at *
  simp only [execCmd]
  split
  · exact h
  · rename_i x hx
    split
    · exact h
    · rename_i h0
      split
      · rename_i q' r hr
        have := ArrAll.set h k ((h.get hx).cancel h0 hr)
        split <;> simp_all
      · simpa using h

theorem PQInv.pqReprio {w : World} (p : Pid) (k v : Nat) (pri : Int) (h : PQInv w) :
    PQInv (execCmd w p (.pqReprio k v pri)).1 := by
  unfold PQInv at *
  simp only [execCmd]
  split
  · exact h
  · rename_i x hx
    split
    · exact h
    · rename_i h0
      split
      · rename_i q' hr
        have hpos : pqPosition x (getVar w p v) ≠ 0 := fun e => h0 (Or.inr e)
        have := ArrAll.set h k ((h.get hx).reprio (fun hl => mem_keys_of_pqPosition (h.get hx hl).wf hpos) hr)
        simpa using this
      · simpa using h

theorem PQInv.preserved : Preserved PQInv where
  same hs h := PQInv.of_eq hs.2.2.2.2.1 h
  tick _ h := h
  finish w p v st h := PQInv.of_eq (by simp) h
  clear w p f _ _ _ h := PQInv.of_eq (by simp) h
  exec w p c _ h := by
    by_cases hm : (cmdMask c).pqs = false
    · exact PQInv.of_eq ((execCmd_fp w p c).2.2.2.2.1 hm) h
    · cases c <;> simp [cmdMask] at hm
      case pqGet k => simp only [execCmd]; split; exact h; exact PQInv.pqGetLoop _ _ h
      case pqPut k obj pri v => simp only [execCmd]; split; exact h; exact PQInv.pqPutLoop _ _ _ _ _ h
      case pqCancel k v => exact PQInv.pqCancel _ _ _ h
      case pqReprio k v pri => exact PQInv.pqReprio _ _ _ _ h
      case recStart kind idx => exact PQInv.setRecording _ _ _ h
      case recStop kind idx => exact PQInv.setRecording _ _ _ h
  resume w p f sig _ _ h := by
    by_cases hm : (frameMask f).pqs = false
    · exact PQInv.of_eq ((resumeFrame_fp w p f sig).2.2.2.2.1 hm) h
    · cases f <;> simp [frameMask] at hm
      case pqGet k =>
        simp only [resumeFrame]
        split
        · exact h
        · split
          · exact PQInv.pqGetLoop _ _ (PQInv.of_eq (by simp) h)
          · exact PQInv.of_eq (by simp) h
      case pqPut k obj pri v =>
        simp only [resumeFrame]
        split
        · exact h
        · split
          · exact PQInv.pqPutLoop _ _ _ _ _ (PQInv.of_eq (by simp) h)
          · exact PQInv.of_eq (by simp) h

end CimbaModel.Sim
