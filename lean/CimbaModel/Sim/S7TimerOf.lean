/-
  S7 — the timer API applied to ANOTHER process (`cmb_process_timers_clear(&procs[q])`, `cmb_process_timer_add(&procs[q], d, sig)`;
  commands `timersClearOf q`, `timerAddOf q d sig`): the exact effect of `timersClear` / `timerAdd` on a target that is
  typically suspended in a wait, so that its awaits list holds non-timer entries (RESOURCE / PROCESS / EVENT) too.

  `timersClear w q` is the fold of `cmb_event_cancel` (S5 `cancelList`) over the handles of `q`'s TIME awaitables, after those
  awaitables have been dropped from `q`'s list.  Unlike S5 `cancelList_closed` nothing is assumed about the handles here (they
  need neither be distinct nor still scheduled): `cancelList_old` / `cancelList_new` describe the fold for any list.
-/
import CimbaModel.Sim.S5Pattern
import CimbaModel.Sim.S3Hold
import CimbaModel.Sim.S3Built

namespace CimbaModel.Sim.S7
open CimbaModel CimbaModel.Sim CimbaModel.Sim.S3 CimbaModel.Sim.S5 CimbaModel.Event CimbaModel.Generated CimbaModel.KPQ
open CimbaModel.HashHeap (HTag Item Order HH)

/-- the handles of the TIME awaitables of `q`, in list order (latest registration first) -/
def timerHandles (w : World) (q : Pid) : List Nat :=
  (w.proc q).awaits.filterMap fun a => match a with | .time h => some h | _ => none

/-- an awaits list without its TIME entries: everything else, in the same order -/
def dropTimers (l : List Await) : List Await := l.filter fun a => match a with | .time _ => false | _ => true

theorem dropTimers_eq (l : List Await) : dropTimers l = l.filter fun a => !isTimeA a := by
  unfold dropTimers
  apply List.filter_congr
  intro a _; cases a <;> rfl

theorem mem_timerHandles {w : World} {q : Pid} {k : Nat} : k ∈ timerHandles w q ↔ Await.time k ∈ (w.proc q).awaits := by
  unfold timerHandles
  rw [List.mem_filterMap]
  constructor
  · rintro ⟨a, ha, hk⟩
    cases a <;> simp at hk
    subst hk; exact ha
  · intro h; exact ⟨_, h, rfl⟩

theorem mem_dropTimers {l : List Await} {a : Await} : a ∈ dropTimers l ↔ a ∈ l ∧ isTimeA a = false := by
  rw [dropTimers_eq]; simp [List.mem_filter]

theorem time_not_mem_dropTimers (l : List Await) (k : Nat) : Await.time k ∉ dropTimers l := by
  intro h; have := (mem_dropTimers.1 h).2; simp [isTimeA] at this

/-- `cmb_process_timers_clear(q)`: drop the TIME awaitables of `q`, then cancel their events one by one -/
theorem timersClear_eq (w : World) (q : Pid) :
    timersClear w q = cancelList (w.modProc q fun x => { x with awaits := dropTimers x.awaits }) (timerHandles w q) := by
  rfl

/-! ### the fold of `cmb_event_cancel` over ANY list of handles -/

theorem cancelList_cons (w : World) (h : Nat) (hs : List Nat) : cancelList w (h :: hs) = cancelList (evCancel w h).1 hs := rfl

theorem cancelList_rel (hs : List Nat) (w : World) (hi : EvInv w.ev) :
    CanRel w (cancelList w hs) ∧ (∀ e ∈ (cancelList w hs).ev.pending, e.key ≤ w.ev.counter → e.key ∉ hs) ∧
      (∀ e ∈ w.ev.pending, e.key ∉ hs → e ∈ (cancelList w hs).ev.pending) :=
  cancelFold_spec hs w hi

/-- one cancel: among the old handles, exactly `h` is gone, the order is kept -/
theorem evCancel_old (w : World) (h c : Nat) (hc : c ≤ w.ev.counter) :
    (evCancel w h).1.ev.pending.filter (fun e => decide (e.key ≤ c)) =
      (w.ev.pending.filter (fun e => decide (e.key ≤ c))).filter (fun e => decide (e.key ≠ h)) := by
  rw [evCancel_eq]
  split
  · simp only [pushAll_pending, cancelEv_pending, cancelEv_counter, List.filter_append]
    have h1 : (wakeEvs w.ev.counter (cancelEv w h).now (evWakes w ((w.evWaiters.lookup h).getD []) sigCancelled)).filter
        (fun e => decide (e.key ≤ c)) = [] := by
      apply List.filter_eq_nil_iff.2
      intro e he
      have := (wakeEvs_props he).1
      simp only [decide_eq_true_eq]; omega
    rw [h1, List.nil_append]
    simp only [KPQ.remove, List.filter_filter]
    apply List.filter_congr
    intro e _
    simp only [Bool.and_comm]
  · rename_i hk
    symm
    apply List.filter_eq_self.2
    intro e he
    simp only [decide_eq_true_eq]
    intro hek
    exact hk (Event.mem_keys.2 ⟨e, (List.mem_filter.1 he).1, hek⟩)

/-- the old events (handles up to `c`) that are left after cancelling `hs`: exactly those whose handle is not in `hs`, in
    their old order — whatever `hs` is -/
theorem cancelList_old : ∀ (hs : List Nat) (w : World) (c : Nat), c ≤ w.ev.counter →
    (cancelList w hs).ev.pending.filter (fun e => decide (e.key ≤ c)) =
      (w.ev.pending.filter (fun e => decide (e.key ≤ c))).filter (fun e => decide (e.key ∉ hs)) := by
  intro hs
  induction hs with
  | nil =>
    intro w c _
    symm
    exact List.filter_eq_self.2 (by simp)
  | cons h hs ih =>
    intro w c hc
    rw [cancelList_cons, ih (evCancel w h).1 c (Nat.le_trans hc (evCancel_rel w h).counter), evCancel_old w h c hc,
      List.filter_filter]
    apply List.filter_congr
    intro e _
    simp only [List.mem_cons, not_or, ne_eq, Bool.decide_and, Bool.and_comm]

/-- every event pending after cancelling `hs` was pending before, or is the (aEvent, CANCELLED) wake-up of a process that
    was registered (`wait_event`) as a waiter of one of the handles in `hs` — at the current time, with that process's
    priority -/
theorem cancelList_new : ∀ (hs : List Nat) (w : World), ∀ e ∈ (cancelList w hs).ev.pending,
    e ∈ w.ev.pending ∨ (w.ev.counter < e.key ∧ ∃ h ∈ hs, ∃ q ∈ (w.evWaiters.lookup h).getD [],
      e = mkEv e.key aEvent (q + 1) sigCancelled w.now (w.proc q).prio) := by
  intro hs
  induction hs with
  | nil => intro w e he; exact Or.inl he
  | cons h hs ih =>
    intro w e he
    rw [cancelList_cons] at he
    have hrel := evCancel_rel w h
    rcases ih (evCancel w h).1 e he with h1 | ⟨hc, h', hh', q, hq, heq⟩
    · -- pending after the first cancel
      rw [evCancel_eq] at h1
      split at h1
      · simp only [pushAll_pending, cancelEv_pending, List.mem_append] at h1
        rcases h1 with h1 | h1
        · right
          obtain ⟨hlo, _, _, _, x, hx, hxe⟩ := wakeEvs_props h1
          simp only [evWakes, List.mem_map] at hx
          obtain ⟨q, hq, rfl⟩ := hx
          exact ⟨by simpa using hlo, h, List.mem_cons_self, q, hq, by simpa using hxe⟩
        · exact Or.inl (mem_remove.1 h1).1
      · exact Or.inl h1
    · -- a wake-up of a later cancel: the registration was there from the start
      right
      refine ⟨Nat.lt_of_le_of_lt hrel.counter hc, h', List.mem_cons_of_mem _ hh', q, ?_, ?_⟩
      · rw [evCancel_eq] at hq
        split at hq
        · simp only [pushAll_evWaiters, cancelEv_evWaiters] at hq
          by_cases hne : h' = h
          · subst hne; rw [lookup_filter_self] at hq; simp at hq
          · rw [lookup_filter_ne _ _ _ hne] at hq; exact hq
        · exact hq
      · rw [heq]; simp only [mkEv]; rw [hrel.now, hrel.proc]

/-- the registrations (`wait_event`) with every event whose handle is not in `hs` are untouched -/
theorem cancelList_lookup : ∀ (hs : List Nat) (w : World) (k : Nat), k ∉ hs →
    (cancelList w hs).evWaiters.lookup k = w.evWaiters.lookup k := by
  intro hs
  induction hs with
  | nil => intro w k _; rfl
  | cons h hs ih =>
    intro w k hk
    have hk' : k ≠ h ∧ k ∉ hs := by simpa [List.mem_cons, not_or] using hk
    rw [cancelList_cons, ih _ k hk'.2, evCancel_eq]
    split
    · simp only [pushAll_evWaiters, cancelEv_evWaiters]
      exact lookup_filter_ne _ _ _ hk'.1
    · rfl

/-! ### `timersClear` of any process -/

theorem pending_not_cancelled {q : EvQ} (hi : EvInv q) {e : HTag} (he : e ∈ q.pending) : e.key ∉ q.cancelled := by
  have hnd := hi.part.nodup
  intro hc
  have h1 : e.key ∈ keys q.pending ++ q.executed := List.mem_append.2 (Or.inl (Event.mem_keys.2 ⟨e, he, rfl⟩))
  exact (List.nodup_append.1 hnd).2.2 _ h1 _ hc rfl

theorem key_pos' {q : EvQ} (hi : EvInv q) {e : HTag} (he : e ∈ q.pending) : e.key ≠ 0 := by
  have hp := hi.part
  unfold Partition at hp
  have : e.key ∈ List.range' 1 q.counter := by
    apply hp.mem_iff.1
    simp only [List.mem_append]
    exact Or.inl (Or.inl (Event.mem_keys.2 ⟨e, he, rfl⟩))
  simp [List.mem_range'] at this
  omega

/-- in a state satisfying the timer invariant, among the pending events the handles registered as TIME awaitables of `q` are
    exactly the timer events addressed to `q` -/
theorem key_mem_timerHandles {w : World} (ht : TInvB w) (q : Pid) {e : HTag} (he : e ∈ w.ev.pending) :
    e.key ∈ timerHandles w q ↔ (e.item.a = aTime ∧ e.item.b = q + 1) := by
  rw [mem_timerHandles]
  constructor
  · intro hk
    rcases ht.t1 q e.key (key_pos' ht.ei he) hk with ⟨e', he', hkk, ha, hb⟩ | hc
    · have : e' = e := HashHeap.eq_of_key_eq ht.ei.part.keysNodup he' he hkk
      subst this; exact ⟨ha, hb⟩
    · exact absurd hc (pending_not_cancelled ht.ei he)
  · rintro ⟨ha, hb⟩
    exact ht.t2 e he ha q hb (noEx_not q)

/-- the state after `timersClear w q`, for ANY process `q` (running or suspended in whatever wait), in a state satisfying
    the kernel invariant -/
structure Cleared (w : World) (q : Pid) (w' : World) : Prop where
  /-- `q`'s record: the TIME awaitables are gone, every other awaitable is still there in the same order, nothing else of
      the record (the frame it is suspended in, status, priority, waiters, holdings, program counter, variables) changes -/
  target : q < w.procs.size → w'.proc q = { w.proc q with awaits := dropTimers (w.proc q).awaits }
  /-- every other process is untouched -/
  others : ∀ x, x ≠ q → w'.proc x = w.proc x
  psize : w'.procs.size = w.procs.size
  /-- the old events that are left are exactly the old events whose handle was not a TIME awaitable of `q`, in their old order -/
  old : w'.ev.pending.filter (fun e => decide (e.key ≤ w.ev.counter)) =
    w.ev.pending.filter (fun e => decide (e.key ∉ timerHandles w q))
  /-- a new event is the CANCELLED wake-up of a process that was waiting (`wait_event`) for one of the cleared timer events -/
  new : ∀ e ∈ w'.ev.pending, w.ev.counter < e.key → ∃ h ∈ timerHandles w q, ∃ x ∈ (w.evWaiters.lookup h).getD [],
    e = mkEv e.key aEvent (x + 1) sigCancelled w.now (w.proc x).prio
  /-- the waiting lists, the objects, the clock, the fault flag and the log are untouched -/
  guards : w'.guards = w.guards
  res : w'.res = w.res
  pools : w'.pools = w.pools
  bufs : w'.bufs = w.bufs
  oqs : w'.oqs = w.oqs
  pqs : w'.pqs = w.pqs
  conds : w'.conds = w.conds
  flags : w'.flags = w.flags
  gvars : w'.gvars = w.gvars
  now : w'.now = w.now
  fault : w'.fault = w.fault
  log : w'.log = w.log
  /-- registrations with events only disappear (those with the cancelled timer events) … -/
  evWaiters : ∀ x ∈ w'.evWaiters, x ∈ w.evWaiters
  /-- … the registrations with every other event are untouched -/
  kept : ∀ k, k ∉ timerHandles w q → w'.evWaiters.lookup k = w.evWaiters.lookup k

theorem timersClear_cleared (w : World) (q : Pid) (hi : EvInv w.ev) : Cleared w q (timersClear w q) := by
  rw [timersClear_eq]
  let w0 := w.modProc q fun x => { x with awaits := dropTimers x.awaits }
  have hi0 : EvInv w0.ev := hi
  obtain ⟨hrel, _, _⟩ := cancelList_rel (timerHandles w q) w0 hi0
  have hold := cancelList_old (timerHandles w q) w0 w.ev.counter (Nat.le_refl _)
  have hnew := cancelList_new (timerHandles w q) w0
  refine { target := ?_, others := ?_, psize := ?_, old := ?_, new := ?_, guards := hrel.guards, res := hrel.res,
           pools := hrel.pools, bufs := hrel.bufs, oqs := hrel.oqs, pqs := hrel.pqs, conds := hrel.conds,
           flags := hrel.flags, gvars := hrel.gvars, now := hrel.now, fault := hrel.fault, log := hrel.log,
           evWaiters := hrel.evWaiters, kept := fun k hk => cancelList_lookup (timerHandles w q) w0 k hk }
  · intro hlt; rw [hrel.proc]; exact modProc_proc_self w _ hlt
  · intro x hx; rw [hrel.proc]; exact modProc_proc_ne w _ hx
  · rw [hrel.procs]; exact modProc_procs_size w q _
  · rw [hold]
    have hall : w.ev.pending.filter (fun e => decide (e.key ≤ w.ev.counter)) = w.ev.pending :=
      List.filter_eq_self.2 (fun e he => by simpa using EvInv.key_le hi he)
    show (w.ev.pending.filter _).filter _ = _
    rw [hall]
  · intro e he hk
    rcases hnew e he with hm | ⟨_, h, hh, x, hx, heq⟩
    · have : e.key ≤ w.ev.counter := EvInv.key_le hi hm
      omega
    · refine ⟨h, hh, x, hx, ?_⟩
      rw [heq]; simp only [mkEv]
      have hp : (w0.proc x).prio = (w.proc x).prio := by
        show ((w.modProc q _).proc x).prio = _
        rw [modProc_proc]; split
        · rename_i hc; rw [hc.1]
        · rfl
      rw [hp]; rfl

/-- with the timer invariant: no TIME awaitable and no pending timer event of `q` is left; the old events that are left
    are exactly those that were not timer events of `q` -/
theorem timersClear_exact {w : World} (ht : TInvB w) (q : Pid) :
    Cleared w q (timersClear w q) ∧
    (∀ e ∈ (timersClear w q).ev.pending, e.item.a = aTime → e.item.b ≠ q + 1) ∧
    (timersClear w q).ev.pending.filter (fun e => decide (e.key ≤ w.ev.counter)) =
      w.ev.pending.filter (fun e => !(decide (e.item.a = aTime) && decide (e.item.b = q + 1))) := by
  have hc := timersClear_cleared w q ht.ei
  refine ⟨hc, ?_, ?_⟩
  · intro e he ha hb
    by_cases hk : e.key ≤ w.ev.counter
    · have hm : e ∈ (timersClear w q).ev.pending.filter (fun e => decide (e.key ≤ w.ev.counter)) :=
        List.mem_filter.2 ⟨he, by simpa using hk⟩
      rw [hc.old] at hm
      obtain ⟨hm1, hm2⟩ := List.mem_filter.1 hm
      have := (key_mem_timerHandles ht q hm1).2 ⟨ha, hb⟩
      simp only [decide_eq_true_eq] at hm2
      exact hm2 this
    · obtain ⟨_, _, _, _, heq⟩ := hc.new e he (by omega)
      rw [heq] at ha
      simp [mkEv, aEvent, aTime] at ha
  · rw [hc.old]
    apply List.filter_congr
    intro e he
    have := key_mem_timerHandles ht q he
    by_cases h1 : e.key ∈ timerHandles w q
    · have h2 := this.1 h1
      simp [h1, h2.1, h2.2]
    · have h2 : ¬ (e.item.a = aTime ∧ e.item.b = q + 1) := fun h => h1 (this.2 h)
      simp only [h1, not_false_eq_true, decide_true]
      by_cases ha : e.item.a = aTime
      · have hb : e.item.b ≠ q + 1 := fun hb => h2 ⟨ha, hb⟩
        simp [ha, hb]
      · simp [ha]

/-- nobody waits (`wait_event`) for a timer event of `q` (the scenario language's variable discipline: `wait_event` is
    applied to user events only): then nothing new is scheduled, the event queue is exactly the old one without `q`'s
    timer events -/
theorem timersClear_no_waiters {w : World} (ht : TInvB w) (q : Pid)
    (hnw : ∀ k, Await.time k ∈ (w.proc q).awaits → (w.evWaiters.lookup k).getD [] = []) :
    (timersClear w q).ev.pending =
      w.ev.pending.filter (fun e => !(decide (e.item.a = aTime) && decide (e.item.b = q + 1))) := by
  obtain ⟨hc, _, hold⟩ := timersClear_exact ht q
  rw [← hold]
  symm
  apply List.filter_eq_self.2
  intro e he
  simp only [decide_eq_true_eq]
  apply Classical.byContradiction
  intro hk
  obtain ⟨h, hh, x, hx, _⟩ := hc.new e he (by omega)
  rw [hnw h (mem_timerHandles.1 hh)] at hx
  cases hx

/-! ### `timerAdd` for any process -/

/-- `cmb_process_timer_add(q, d, sig)` with `d ≥ 0`: one new event — action aTime, subject `q`, the signal, at now + d, with
    `q`'s priority, under the next handle — registered as TIME(handle) at the head of `q`'s awaits; nothing else changes -/
theorem timerAdd_exact (w : World) (q : Pid) (d sig : Int) (hd : 0 ≤ d) :
    timerAdd w q d sig =
      (addAwait (pushEv w aTime (q + 1) sig (w.now + d) (w.proc q).prio) q (.time (w.ev.counter + 1)), w.ev.counter + 1) :=
  timerAdd_eq w q d sig hd

/-! ### the two commands -/

theorem execCmd_timersClearOf (w : World) (p q : Pid) (hr : (w.proc q).status = .running) :
    execCmd w p (.timersClearOf q) = (timersClear w q, .ret 0 "") := by
  simp [execCmd, isRunning, hr]

theorem execCmd_timerAddOf (w : World) (p q : Pid) (d sig : Int) (hr : (w.proc q).status = .running) :
    execCmd w p (.timerAddOf q d sig) = ((timerAdd w q d sig).1, .ret 0 s!"h={(timerAdd w q d sig).2}") := by
  simp [execCmd, isRunning, hr]

/-- both are skipped (nothing changes) unless the target is a started, unfinished process -/
theorem execCmd_timerOf_skip (w : World) (p q : Pid) (hr : (w.proc q).status ≠ .running) :
    execCmd w p (.timersClearOf q) = (w, .skip) ∧ ∀ d sig, execCmd w p (.timerAddOf q d sig) = (w, .skip) := by
  simp [execCmd, isRunning, hr]

/-! ### a witness: the target is suspended in an acquire with two timers armed before the call -/

/-- scenario: `res / proc 9: acq 0, hold 10 / proc 5: tadd 0 3 -5, tadd 1 4 -7, acq 0 / proc 1: hold 1, tclearo 1` -/
def clearOfScenario : World :=
  autostart (autostart (autostart (addProc (addProc (addProc (addRes {}) 9
    #[(.acquire 0, "acq 0"), (.hold 10, "hold 10")]) 5
    #[(.timerAdd 0 3 (-5), "tadd 0 3 -5"), (.timerAdd 1 4 (-7), "tadd 1 4 -7"), (.acquire 0, "acq 0")]) 1
    #[(.hold 1, "hold 1"), (.timersClearOf 1, "tclearo 1")]) 0) 1) 2

theorem clearOfScenario_built : Built clearOfScenario := by
  refine .start 2 (.start 1 (.start 0 (.proc 1 _ (.proc 5 _ (.proc 9 _ (.res .empty) ?_) ?_) ?_)))
  · intro i c t h
    rcases i with _ | _ | i <;> cases h <;> trivial
  · intro i c t h
    rcases i with _ | _ | _ | i
    · cases h; show encSig (-5) ≠ 0; decide
    · cases h; show encSig (-7) ≠ 0; decide
    · cases h; trivial
    · cases h
  · intro i c t h
    rcases i with _ | _ | i <;> cases h <;> trivial

/-- the state after the three start events (time 0): process 0 holds the resource and is in `hold`, process 1 is suspended in
    `acquire 0` with its two timers armed, process 2 is in `hold 1` -/
def clearOfWorld : World := runAll 3 clearOfScenario

theorem clearOfWorld_tinv : TInvB clearOfWorld := (clearOfScenario_built.run (by decide) 3).t

end CimbaModel.Sim.S7
