/-
  S3 — `GInv`, part 3: the footprint tactic `ginv` and the functions that do not enter or leave a guard wait.
-/
import CimbaModel.Sim.S3GInvGuard

namespace CimbaModel.Sim.S3
open CimbaModel CimbaModel.Sim CimbaModel.Event CimbaModel.Generated CimbaModel.KPQ
open CimbaModel.HashHeap (HTag Item Order HH WF abs liveTags)

syntax "ginv_step" : tactic
macro_rules | `(tactic| ginv_step) => `(tactic| dsimp only)
macro_rules | `(tactic| ginv_step) => `(tactic| (guard_world_lit; with_reducible apply GInv.setEvWaiters))
macro_rules | `(tactic| ginv_step) => `(tactic| (guard_world_lit; with_reducible apply GInv.setGvars))
macro_rules | `(tactic| ginv_step) => `(tactic| (guard_world_lit; with_reducible apply GInv.setFlags))
macro_rules | `(tactic| ginv_step) => `(tactic| (guard_world_lit; with_reducible refine GInv.setPqsModify ?_ _ _ (fun _ => rfl)))
macro_rules | `(tactic| ginv_step) => `(tactic| (guard_world_lit; with_reducible refine GInv.setPqsSet ?_ _ _ (by stat_side)))
macro_rules | `(tactic| ginv_step) => `(tactic| (guard_world_lit; with_reducible refine GInv.setOqsModify ?_ _ _ (fun _ => rfl)))
macro_rules | `(tactic| ginv_step) => `(tactic| (guard_world_lit; with_reducible refine GInv.setOqsSet ?_ _ _ (by stat_side)))
macro_rules | `(tactic| ginv_step) => `(tactic| (guard_world_lit; with_reducible refine GInv.setBufsModify ?_ _ _ (fun _ => rfl)))
macro_rules | `(tactic| ginv_step) => `(tactic| (guard_world_lit; with_reducible refine GInv.setBufsSet ?_ _ _ (by stat_side)))
macro_rules | `(tactic| ginv_step) => `(tactic| (guard_world_lit; with_reducible refine GInv.setPoolsModify ?_ _ _ (fun _ => rfl)))
macro_rules | `(tactic| ginv_step) => `(tactic| (guard_world_lit; with_reducible refine GInv.setPoolsSet ?_ _ _ (by stat_side)))
macro_rules | `(tactic| ginv_step) => `(tactic| (guard_world_lit; with_reducible refine GInv.setResModify ?_ _ _ (fun _ => rfl)))
macro_rules | `(tactic| ginv_step) => `(tactic| (guard_world_lit; with_reducible refine GInv.setResSet ?_ _ _ (by stat_side)))
macro_rules | `(tactic| ginv_step) => `(tactic| split)
macro_rules | `(tactic| ginv_step) => `(tactic| with_reducible apply GInv.evCancel_fst)
macro_rules | `(tactic| ginv_step) => `(tactic| (with_reducible refine GInv.sched_harmless ?_ _ _ _ _ _ (by decide)))
macro_rules | `(tactic| ginv_step) => `(tactic| (with_reducible refine GInv.modProc_ctl ?_ _ _ (fun _ => ⟨rfl, rfl⟩)))
macro_rules | `(tactic| ginv_step) => `(tactic| with_reducible apply GInv.emit)
macro_rules | `(tactic| ginv_step) => `(tactic| with_reducible apply GInv.fail)
macro_rules | `(tactic| ginv_step) => `(tactic| with_reducible assumption)

macro "ginv" : tactic => `(tactic| repeat' ginv_step)

variable {ex : Pid → Prop} {fr : Pid → Option Frame}

theorem GInv.cancelAllFor {w : World} (h : GInv ex fr w) (p : Pid) : GInv ex fr (cancelAllFor w p) := by
  unfold Sim.cancelAllFor
  exact GInv.foldl (fun w q h => by ginv) _ h
macro_rules | `(tactic| ginv_step) => `(tactic| with_reducible apply GInv.cancelAllFor)

theorem GInv.cancelKindFor_fst {w : World} (h : GInv ex fr w) (p : Pid) (act : Nat) (sig : Option Int) :
    GInv ex fr (cancelKindFor w p act sig).1 := by
  unfold Sim.cancelKindFor
  exact GInv.foldl (fun w q h => by ginv) _ h
macro_rules | `(tactic| ginv_step) => `(tactic| with_reducible apply GInv.cancelKindFor_fst)
theorem GInv.cancelUserAll_fst {w : World} (h : GInv ex fr w) :
    GInv ex fr (cancelUserAll w).1 := by
  unfold Sim.cancelUserAll
  exact GInv.foldl (fun w q h => by ginv) _ h
macro_rules | `(tactic| ginv_step) => `(tactic| with_reducible apply GInv.cancelUserAll_fst)

theorem GInv.recordRes {w : World} (h : GInv ex fr w) (r : Nat) : GInv ex fr (recordRes w r) := by
  unfold Sim.recordRes; ginv
theorem GInv.recordPool {w : World} (h : GInv ex fr w) (r : Nat) : GInv ex fr (recordPool w r) := by
  unfold Sim.recordPool; ginv
theorem GInv.recordBuf {w : World} (h : GInv ex fr w) (r : Nat) : GInv ex fr (recordBuf w r) := by
  unfold Sim.recordBuf; ginv
theorem GInv.recordOQ {w : World} (h : GInv ex fr w) (r : Nat) : GInv ex fr (recordOQ w r) := by
  unfold Sim.recordOQ; ginv
theorem GInv.recordPQ {w : World} (h : GInv ex fr w) (r : Nat) : GInv ex fr (recordPQ w r) := by
  unfold Sim.recordPQ; ginv
macro_rules | `(tactic| ginv_step) => `(tactic| with_reducible apply GInv.recordRes)
macro_rules | `(tactic| ginv_step) => `(tactic| with_reducible apply GInv.recordPool)
macro_rules | `(tactic| ginv_step) => `(tactic| with_reducible apply GInv.recordBuf)
macro_rules | `(tactic| ginv_step) => `(tactic| with_reducible apply GInv.recordOQ)
macro_rules | `(tactic| ginv_step) => `(tactic| with_reducible apply GInv.recordPQ)

macro_rules | `(tactic| ginv_step) => `(tactic| with_reducible apply GInv.guardRemove_fst)

macro_rules | `(tactic| ginv_step) => `(tactic| with_reducible apply GInv.signal)

theorem GInv.guardWithdraw {w : World} (h : GInv ex fr w) (g : Nat) (p : Pid) : GInv ex fr (guardWithdraw w g p) := by
  simp only [Sim.guardWithdraw]; ginv
macro_rules | `(tactic| ginv_step) => `(tactic| with_reducible apply GInv.guardWithdraw)

theorem GInv.removeHeld_fst {w : World} (h : GInv ex fr w) (p : Pid) (x : HoldRef) : GInv ex fr (removeHeld w p x).1 := by
  simp only [Sim.removeHeld]; ginv
macro_rules | `(tactic| ginv_step) => `(tactic| with_reducible apply GInv.removeHeld_fst)

theorem GInv.poolDropHolder {w : World} (h : GInv ex fr w) (pl : Nat) (p : Pid) : GInv ex fr (poolDropHolder w pl p) := by
  unfold Sim.poolDropHolder; ginv
macro_rules | `(tactic| ginv_step) => `(tactic| with_reducible apply GInv.poolDropHolder)

theorem GInv.dropResources {w : World} (h : GInv ex fr w) (p : Pid) : GInv ex fr (dropResources w p) := by
  unfold Sim.dropResources
  exact GInv.foldl (fun w q h => by ginv) _ (by ginv)
macro_rules | `(tactic| ginv_step) => `(tactic| with_reducible apply GInv.dropResources)

theorem GInv.grab {w : World} (h : GInv ex fr w) (r : Nat) (p : Pid) : GInv ex fr (grab w r p) := by
  unfold Sim.grab; ginv
macro_rules | `(tactic| ginv_step) => `(tactic| with_reducible apply GInv.grab)

theorem GInv.poolUpdateRecord {w : World} (h : GInv ex fr w) (pl : Nat) (p : Pid) (a : Nat) :
    GInv ex fr (poolUpdateRecord w pl p a) := by
  unfold Sim.poolUpdateRecord; ginv
macro_rules | `(tactic| ginv_step) => `(tactic| with_reducible apply GInv.poolUpdateRecord)

theorem GInv.setPoolInUse {w : World} (h : GInv ex fr w) (pl v : Nat) : GInv ex fr (setPoolInUse w pl v) := by
  unfold Sim.setPoolInUse; ginv
macro_rules | `(tactic| ginv_step) => `(tactic| with_reducible apply GInv.setPoolInUse)

theorem GInv.setHeldAmount {w : World} (h : GInv ex fr w) (pl : Nat) (p : Pid) (a : Nat) : GInv ex fr (setHeldAmount w pl p a) := by
  unfold Sim.setHeldAmount; ginv
macro_rules | `(tactic| ginv_step) => `(tactic| with_reducible apply GInv.setHeldAmount)

theorem GInv.setVar {w : World} (h : GInv ex fr w) (p : Pid) (v x : Nat) : GInv ex fr (setVar w p v x) := by
  unfold Sim.setVar; ginv
macro_rules | `(tactic| ginv_step) => `(tactic| with_reducible apply GInv.setVar)

theorem GInv.poolMug_fst : ∀ (fuel : Nat) {w : World}, GInv ex fr w → ∀ p pl rem, GInv ex fr (poolMug fuel w p pl rem).1 := by
  intro fuel
  induction fuel with
  | zero => intro w h p pl rem; exact h
  | succ fuel ih =>
    intro w h p pl rem
    simp only [Sim.poolMug]
    repeat' first | (with_reducible apply ih) | ginv_step

theorem GInv.poolRollback {w : World} (h : GInv ex fr w) (p : Pid) (pl ini : Nat) : GInv ex fr (poolRollback w p pl ini) := by
  simp only [Sim.poolRollback]; ginv
macro_rules | `(tactic| ginv_step) => `(tactic| with_reducible apply GInv.poolRollback)


theorem GInv.setRecording {w : World} (h : GInv ex fr w) (kind idx : Nat) (on : Bool) : GInv ex fr (setRecording w kind idx on) := by
  simp only [Sim.setRecording]; ginv
macro_rules | `(tactic| ginv_step) => `(tactic| with_reducible apply GInv.setRecording)

theorem GInv.prioAwaitStep {w : World} (h : GInv ex fr w) (q : Pid) (v : Int) (a : Await) : GInv ex fr (prioAwaitStep q v w a) := by
  unfold S3.prioAwaitStep
  split
  · split
    · rename_i hr; exact h.reprioEv hr
    · exact h.fail _
  · exact h.reprioGuard q v _
  · exact h

theorem GInv.prioHeldStep {w : World} (h : GInv ex fr w) (q : Pid) (v : Int) (x : HoldRef) : GInv ex fr (prioHeldStep q v w x) := by
  unfold S3.prioHeldStep; ginv

end CimbaModel.Sim.S3
