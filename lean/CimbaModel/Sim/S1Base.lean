/-
  S1 — basic lemmas about the accessors of the process-layer model and the macros that state
  "frame" lemmas (what a primitive leaves literally unchanged) in bulk.

  Nothing here changes the model (Sim/Model.lean, Sim/Run.lean); these are reformulations for proofs.
-/
import CimbaModel.Sim.Run

namespace CimbaModel.Sim
open CimbaModel CimbaModel.Event CimbaModel.Generated
open CimbaModel.HashHeap (HTag Item Order HH)

attribute [simp] World.now

/-- what the resource layer shows of resource `r`: its holder and its guard (`none`: no such resource) -/
def World.rv (w : World) (r : Nat) : Option (Option Pid × Nat) := w.res[r]?.map fun x => (x.holder, x.guard)

/-- how many times process `q` lists resource `r` among what it holds -/
def World.hcount (w : World) (q : Pid) (r : Nat) : Nat := (w.proc q).held.count (.res r)

@[simp] theorem hcount_mk (w : World) (ev : EvQ) (evW : List (Nat × List Pid)) (guards : Array Guard)
    (res : Array Res) (pools : Array Pool) (bufs : Array Buf) (oqs : Array OQ) (pqs : Array PQ) (conds : Array Nat)
    (flags : Array Int) (gvars : Array Nat) (log : Array String) (fault : Option String) (d : Nat) (q : Pid) (r : Nat) :
    World.hcount ⟨ev, evW, w.procs, guards, res, pools, bufs, oqs, pqs, conds, flags, gvars, log, fault, d⟩ q r
      = w.hcount q r := rfl

@[simp] theorem rv_mk (w : World) (ev : EvQ) (evW : List (Nat × List Pid)) (procs : Array Proc) (guards : Array Guard)
    (pools : Array Pool) (bufs : Array Buf) (oqs : Array OQ) (pqs : Array PQ) (conds : Array Nat)
    (flags : Array Int) (gvars : Array Nat) (log : Array String) (fault : Option String) (d : Nat) (r : Nat) :
    World.rv ⟨ev, evW, procs, guards, w.res, pools, bufs, oqs, pqs, conds, flags, gvars, log, fault, d⟩ r
      = w.rv r := rfl

/-- the processes whose end process `p` is registered to be told about (the `.proc` entries of its awaits) -/
def procOf : Await → Option Pid
  | .proc q => some q
  | _ => none

def World.pa (w : World) (p : Pid) : List Pid := (w.proc p).awaits.filterMap procOf

theorem pa_congr {w w' : World} (h : ∀ q, (w'.proc q).awaits = (w.proc q).awaits) (q : Pid) : w'.pa q = w.pa q := by
  unfold World.pa; rw [h]

theorem rv_congr {w w' : World} (h : w'.res = w.res) (r : Nat) : w'.rv r = w.rv r := by
  unfold World.rv; rw [h]

theorem hcount_congr {w w' : World} (h : ∀ q, (w'.proc q).held = (w.proc q).held) (q : Pid) (r : Nat) :
    w'.hcount q r = w.hcount q r := by
  unfold World.hcount; rw [h]

@[simp] theorem proc_mk (ev : EvQ) (evW : List (Nat × List Pid)) (procs : Array Proc) (guards : Array Guard)
    (res : Array Res) (pools : Array Pool) (bufs : Array Buf) (oqs : Array OQ) (pqs : Array PQ) (conds : Array Nat)
    (flags : Array Int) (gvars : Array Nat) (log : Array String) (fault : Option String) (d : Nat) (q : Pid) :
    World.proc ⟨ev, evW, procs, guards, res, pools, bufs, oqs, pqs, conds, flags, gvars, log, fault, d⟩ q
      = procs.getD q {} := rfl

@[simp] theorem getD_procs (w : World) (q : Pid) : w.procs[q]?.getD {} = w.proc q := by
  simp [World.proc]

theorem proc_modProc (w : World) (p : Pid) (f : Proc → Proc) (q : Pid) :
    (w.modProc p f).proc q = if q = p ∧ p < w.procs.size then f (w.proc p) else w.proc q := by
  unfold World.modProc World.proc
  simp only [Array.getD_eq_getD_getElem?, Array.getElem?_modify]
  by_cases h : p = q
  · subst h
    by_cases h2 : p < w.procs.size
    · simp [h2]
    · simp [h2]
  · have : ¬ q = p := fun e => h e.symm
    simp [h, this]

theorem proc_modProc_self (w : World) (p : Pid) (f : Proc → Proc) (hp : p < w.procs.size) :
    (w.modProc p f).proc p = f (w.proc p) := by
  simp [proc_modProc, hp]

theorem proc_modProc_ne (w : World) (p : Pid) (f : Proc → Proc) (q : Pid) (h : q ≠ p) :
    (w.modProc p f).proc q = w.proc q := by
  simp [proc_modProc, h]

/-- a process slot outside the table reads as the default record -/
theorem proc_oob (w : World) (p : Pid) (hp : ¬ p < w.procs.size) : w.proc p = {} := by
  unfold World.proc
  simp [Array.getD_eq_getD_getElem?, Array.getElem?_eq_none (Nat.le_of_not_lt hp)]

theorem modProc_oob (w : World) (p : Pid) (f : Proc → Proc) (hp : ¬ p < w.procs.size) :
    w.modProc p f = w := by
  unfold World.modProc
  have : w.procs.modify p f = w.procs := by
    apply Array.ext
    · simp
    · intro i h1 h2
      have : p ≠ i := by
        intro e; subst e; exact hp h2
      simp [Array.getElem_modify, this]
  rw [this]

@[simp] theorem np_modProc (w : World) (p : Pid) (f : Proc → Proc) : (w.modProc p f).procs.size = w.procs.size := by
  simp [World.modProc]

/-- anything that is not the default record lives inside the table -/
theorem lt_np_of_status (w : World) (p : Pid) (h : (w.proc p).status ≠ .created) : p < w.procs.size := by
  apply Classical.byContradiction
  intro hp
  rw [proc_oob w p hp] at h
  exact h rfl

theorem lt_np_of_held (w : World) (p : Pid) (a : HoldRef) (h : a ∈ (w.proc p).held) : p < w.procs.size := by
  apply Classical.byContradiction
  intro hp
  rw [proc_oob w p hp] at h
  simp at h

theorem lt_np_of_script (w : World) (p : Pid) (i : Nat) (c : Cmd × String)
    (h : (w.proc p).script[i]? = some c) : p < w.procs.size := by
  apply Classical.byContradiction
  intro hp
  rw [proc_oob w p hp] at h
  simp at h

theorem count_le_one_of_nodup {α : Type _} [DecidableEq α] (l : List α) (q : α) (hnd : l.Nodup) : l.count q ≤ 1 := by
  induction l with
  | nil => simp
  | cons a l ih =>
    rw [List.nodup_cons] at hnd
    rw [List.count_cons]
    by_cases e : a = q
    · subst e
      have : l.count a = 0 := List.count_eq_zero.2 hnd.1
      simp [this]
    · have := ih hnd.2
      simp [e]; exact this

theorem count_eq_one_of_nodup_mem {α : Type _} [DecidableEq α] (l : List α) (q : α) (hnd : l.Nodup) (hm : q ∈ l) :
    l.count q = 1 := by
  have h1 := count_le_one_of_nodup l q hnd
  have h2 : 0 < l.count q := List.count_pos_iff.2 hm
  omega

theorem count_map_succ (l : List Nat) (q : Nat) : (l.map (· + 1)).count (q + 1) = l.count q := by
  induction l with
  | nil => rfl
  | cons a l ih => simp [List.count_cons, ih]

/-- a left fold keeps whatever every step keeps -/
theorem foldl_keeps {α β : Type _} (g : World → β) (f : World → α → World)
    (h : ∀ w a, g (f w a) = g w) (l : List α) (w : World) : g (l.foldl f w) = g w := by
  induction l generalizing w with
  | nil => rfl
  | cons a l ih => simp [List.foldl_cons, ih, h]

/-- a left fold preserves a predicate that every step preserves -/
theorem foldl_inv {α : Type _} (P : World → Prop) (f : World → α → World)
    (h : ∀ w a, P w → P (f w a)) (l : List α) (w : World) (hw : P w) : P (l.foldl f w) := by
  induction l generalizing w with
  | nil => exact hw
  | cons a l ih => exact ih _ (h _ _ hw)

/-- the same, when the step's preservation needs the element to come from the list -/
theorem foldl_inv_mem {α : Type _} (P : World → Prop) (f : World → α → World) (l : List α)
    (h : ∀ w a, a ∈ l → P w → P (f w a)) (w : World) (hw : P w) : P (l.foldl f w) := by
  induction l generalizing w with
  | nil => exact hw
  | cons a l ih =>
    exact ih (fun w b hb => h w b (List.mem_cons_of_mem _ hb)) _ (h _ _ List.mem_cons_self hw)

/-- `w.proc q` only looks at `w.procs` -/
theorem proc_congr {w w' : World} (h : w'.procs = w.procs) (q : Pid) : w'.proc q = w.proc q := by
  unfold World.proc; rw [h]

theorem np_congr {w w' : World} (h : w'.procs = w.procs) : w'.procs.size = w.procs.size := by
  rw [h]

open Lean in
/-- `world_frame pre : e ~ w keeps f₁ f₂ … by tac` declares simp lemmas `pre_fᵢ : (e).fᵢ = (w).fᵢ`
    (`fᵢ` a field of `World` or a function in the `World` namespace, e.g. `now`, `np`) -/
macro "world_frame " pre:ident " : " e:term " ~ " w0:term " keeps " fs:ident* " by " t:tacticSeq : command => do
  let cmds ← fs.mapM fun f => do
    let name := mkIdent (Name.mkSimple (pre.getId.toString ++ "_" ++ f.getId.toString))
    let proj := mkIdent (`CimbaModel.Sim.World ++ f.getId)
    if f.getId == `procs then
      let namep := mkIdent (Name.mkSimple (pre.getId.toString ++ "_proc"))
      let namen := mkIdent (Name.mkSimple (pre.getId.toString ++ "_np"))
      let nameh := mkIdent (Name.mkSimple (pre.getId.toString ++ "_hcount"))
      let namepa := mkIdent (Name.mkSimple (pre.getId.toString ++ "_pa"))
      `(@[simp] theorem $name : $proj $e = $proj $w0 := by $t
        @[simp] theorem $namep (q : Pid) : World.proc $e q = World.proc $w0 q := proc_congr (by $t) q
        @[simp] theorem $namen : (World.procs $e).size = (World.procs $w0).size := np_congr (by $t)
        @[simp] theorem $nameh (q : Pid) (r : Nat) : World.hcount $e q r = World.hcount $w0 q r :=
          hcount_congr (fun q => congrArg Proc.held (proc_congr (by $t) q)) q r
        @[simp] theorem $namepa (q : Pid) : World.pa $e q = World.pa $w0 q :=
          pa_congr (fun q => congrArg Proc.awaits (proc_congr (by $t) q)) q)
    else if f.getId == `res then
      let namer := mkIdent (Name.mkSimple (pre.getId.toString ++ "_rv"))
      `(@[simp] theorem $name : $proj $e = $proj $w0 := by $t
        @[simp] theorem $namer (r : Nat) : World.rv $e r = World.rv $w0 r := rv_congr (by $t) r)
    else if f.getId == `np then
      `(@[simp] theorem $name : (World.procs $e).size = (World.procs $w0).size := by $t)
    else if f.getId == `now then
      `(@[simp] theorem $name : (World.ev $e).now = (World.ev $w0).now := by $t)
    else
      `(@[simp] theorem $name : $proj $e = $proj $w0 := by $t)
  return ⟨mkNullNode cmds⟩

open Lean in
/-- `proc_frame pre : e ~ w keeps f₁ f₂ … by tac` declares simp lemmas
    `pre_fᵢ (q) : ((e).proc q).fᵢ = ((w).proc q).fᵢ` for fields of `Proc` -/
macro "proc_frame " pre:ident " : " e:term " ~ " w0:term " keeps " fs:ident* " by " t:tacticSeq : command => do
  let cmds ← fs.mapM fun f => do
    let name := mkIdent (Name.mkSimple (pre.getId.toString ++ "_" ++ f.getId.toString))
    let proj := mkIdent (`CimbaModel.Sim.Proc ++ f.getId)
    let q := mkIdent `q
    if f.getId == `held then
      let nameh := mkIdent (Name.mkSimple (pre.getId.toString ++ "_hcount"))
      `(@[simp] theorem $name ($q : Pid) : $proj (World.proc $e $q) = $proj (World.proc $w0 $q) := by $t
        @[simp] theorem $nameh ($q : Pid) (r : Nat) : World.hcount $e $q r = World.hcount $w0 $q r :=
          hcount_congr (fun $q => by $t) $q r)
    else if f.getId == `awaits then
      let namepa := mkIdent (Name.mkSimple (pre.getId.toString ++ "_pa"))
      `(@[simp] theorem $name ($q : Pid) : $proj (World.proc $e $q) = $proj (World.proc $w0 $q) := by $t
        @[simp] theorem $namepa ($q : Pid) : World.pa $e $q = World.pa $w0 $q :=
          pa_congr (fun $q => by $t) $q)
    else
      `(@[simp] theorem $name ($q : Pid) : $proj (World.proc $e $q) = $proj (World.proc $w0 $q) := by $t)
  return ⟨mkNullNode cmds⟩

theorem modProc_field {β : Type _} (k : Proc → β) (w : World) (p : Pid) (f : Proc → Proc)
    (hk : ∀ x, k (f x) = k x) (q : Pid) : k ((w.modProc p f).proc q) = k (w.proc q) := by
  rw [proc_modProc]; split
  · rename_i h; obtain ⟨rfl, _⟩ := h; exact hk _
  · rfl

theorem modProc_field_trans {β : Type _} (k : Proc → β) (w : World) (p : Pid) (f : Proc → Proc) (q : Pid) (x : β)
    (hk : ∀ y, k (f y) = k y) (h2 : k (w.proc q) = x) : k ((w.modProc p f).proc q) = x :=
  (modProc_field k w p f hk q).trans h2

/-- unfold `let`/`have` bindings in the goal, if any -/
macro "zeta" : tactic => `(tactic| try simp only [])

/-- close a frame goal: `rfl`, `simp`, the `modProc` field lemma, folds, splitting as little as needed -/
syntax "frame_close" : tactic
/-- strip a left fold whose steps keep the World field in the goal (closing the step goal by `frame_close`) -/
syntax "fold_world" : tactic
/-- the same for a field of a process record -/
syntax "fold_proc" : tactic
macro_rules
  | `(tactic| frame_close) =>
    `(tactic| first
        | with_reducible rfl
        | (simp; done)
        | (with_reducible apply modProc_field; intro; with_reducible rfl)
        | (with_reducible apply modProc_field_trans; (case hk => (intro; with_reducible rfl)); frame_close)
        | (unfold World.proc; with_reducible rfl)
        | (simp; with_reducible apply modProc_field; intro; with_reducible rfl)
        | (simp; with_reducible apply modProc_field_trans; (case hk => (intro; with_reducible rfl)); frame_close)
        | (fold_world; frame_close)
        | (fold_proc; frame_close)
        | (split <;> frame_close))

/-- close a goal by `rfl` after splitting every `match` / `if` in it -/
syntax "splits_rfl" : tactic
macro_rules | `(tactic| splits_rfl) => `(tactic| first | with_reducible rfl | (split <;> splits_rfl))

/-- close a goal by `simp` after splitting as little as needed -/
syntax "splits_simp" : tactic
macro_rules | `(tactic| splits_simp) => `(tactic| first | (simp; done) | (split <;> splits_simp))

/-- a field of a process record as a function of the world (for instantiating generic frame lemmas) -/
def onProc {β : Type _} (k : Proc → β) (q : Pid) (w : World) : β := k (w.proc q)

@[simp] theorem onProc_def {β : Type _} (k : Proc → β) (q : Pid) (w : World) : onProc k q w = k (w.proc q) := rfl

theorem foldl_keeps_proc {α β : Type _} (k : Proc → β) (q : Pid) (f : World → α → World)
    (h : ∀ w a, k ((f w a).proc q) = k (w.proc q)) (l : List α) (w : World) :
    k ((l.foldl f w).proc q) = k (w.proc q) :=
  foldl_keeps (fun w => k (w.proc q)) f h l w

theorem foldl_keeps_trans {α β : Type _} (g : World → β) (f : World → α → World) (l : List α) (w : World) (x : β)
    (h : ∀ w a, g (f w a) = g w) (h2 : g w = x) : g (l.foldl f w) = x :=
  (foldl_keeps g f h l w).trans h2

theorem foldl_keeps_proc_trans {α β : Type _} (k : Proc → β) (q : Pid) (f : World → α → World) (l : List α)
    (w : World) (x : β) (h : ∀ w a, k ((f w a).proc q) = k (w.proc q)) (h2 : k (w.proc q) = x) :
    k ((l.foldl f w).proc q) = x :=
  (foldl_keeps_proc k q f h l w).trans h2

macro_rules
  | `(tactic| fold_world) => `(tactic| (
      (try dsimp only)
      (with_reducible first
        | apply foldl_keeps_trans
        | apply foldl_keeps_trans (fun w => w.ev.now)
        | apply foldl_keeps_trans (fun w => w.procs.size))
      case h => (intro w a; frame_close)))
macro_rules
  | `(tactic| fold_proc) => `(tactic| (
      (try dsimp only)
      (with_reducible apply foldl_keeps_proc_trans)
      case h => (intro w a; frame_close)))

end CimbaModel.Sim
