/-
  S1 — the record of a finished process stays empty (C09): nothing held, nothing awaited, nobody
  registered as waiting for it, not suspended — until it is explicitly restarted.
-/
import CimbaModel.Sim.S1Query

namespace CimbaModel.Sim
open CimbaModel CimbaModel.Event CimbaModel.Generated
open CimbaModel.HashHeap (HTag Item Order HH)

/-- what the record of a process that is not running looks like: it awaits nothing, is not suspended and holds
    nothing; if it has finished, moreover nobody is registered as waiting for it (a process that has not started yet
    may already have waiters) -/
def Proc.quiet (x : Proc) : Prop :=
  x.awaits = [] ∧ x.blocked = none ∧ x.held = [] ∧ (x.status = .finished → x.waiters = [])

/-- **the record of every process that is not running is quiet** (finished: completely clean) -/
def DeadRec (w : World) : Prop := ∀ p, (w.proc p).status ≠ .running → (w.proc p).quiet

theorem DeadRec.clean {w : World} (h : DeadRec w) (p : Pid) (hp : (w.proc p).status = .finished) :
    (w.proc p).held = [] ∧ (w.proc p).awaits = [] ∧ (w.proc p).waiters = [] ∧ (w.proc p).blocked = none := by
  obtain ⟨a, b, c, d⟩ := h p (by rw [hp]; decide)
  exact ⟨c, a, d hp, b⟩

theorem DeadRec.of_proc {w w' : World} (h : DeadRec w) (e : ∀ q, w'.proc q = w.proc q) : DeadRec w' := by
  intro p hp; rw [e] at hp ⊢; exact h p hp

theorem DeadRec.of_procs {w w' : World} (h : DeadRec w) (e : w'.procs = w.procs) : DeadRec w' :=
  h.of_proc (proc_congr e)

/-- an update that, at record `x`, leaves the status alone and does not add to empty lists -/
def ShrinkAt (g : Proc → Proc) (x : Proc) : Prop :=
  (g x).status = x.status ∧ (x.held = [] → (g x).held = []) ∧ (x.awaits = [] → (g x).awaits = []) ∧
    (x.waiters = [] → (g x).waiters = []) ∧ (x.blocked = none → (g x).blocked = none)

theorem dr_modProc_shrink {w : World} (h : DeadRec w) (z : Pid) (g : Proc → Proc) (hg : ShrinkAt g (w.proc z)) :
    DeadRec (w.modProc z g) := by
  intro p hp
  rw [proc_modProc] at hp ⊢
  split at hp
  · rename_i c; obtain ⟨rfl, hz⟩ := c
    rw [if_pos ⟨rfl, hz⟩]
    obtain ⟨a, b, c, d, e⟩ := hg
    rw [a] at hp
    obtain ⟨h1, h2, h3, h4⟩ := h p hp
    refine ⟨c h1, e h2, b h3, ?_⟩
    intro hf; rw [a] at hf
    exact d (h4 hf)
  · rename_i c; rw [if_neg c]; exact h p hp

theorem dr_modProc_alive {w : World} (h : DeadRec w) (z : Pid) (g : Proc → Proc)
    (hz : (w.proc z).status = .running) (hg : ∀ x, (g x).status = x.status) : DeadRec (w.modProc z g) := by
  intro p hp
  rw [proc_modProc] at hp ⊢
  split at hp
  · rename_i c; obtain ⟨rfl, _⟩ := c
    rw [hg] at hp; exact absurd hz hp
  · rename_i c; rw [if_neg c]; exact h p hp

/-- registering a waiter with a process that has not finished -/
theorem dr_modProc_waiters {w : World} (h : DeadRec w) (z : Pid) (g : Proc → Proc)
    (hz : (w.proc z).status ≠ .finished)
    (hg : ∀ x, (g x).status = x.status ∧ (g x).awaits = x.awaits ∧ (g x).blocked = x.blocked ∧ (g x).held = x.held) :
    DeadRec (w.modProc z g) := by
  intro p hp
  rw [proc_modProc] at hp ⊢
  split at hp
  · rename_i c; obtain ⟨rfl, hlt⟩ := c
    rw [if_pos ⟨rfl, hlt⟩]
    obtain ⟨a, b, c, d⟩ := hg (w.proc p)
    rw [a] at hp
    obtain ⟨h1, h2, h3, _⟩ := h p hp
    exact ⟨b.trans h1, c.trans h2, d.trans h3, fun hf => absurd (a ▸ hf) hz⟩
  · rename_i c; rw [if_neg c]; exact h p hp

theorem removeFirst_nil {α : Type _} [DecidableEq α] (a : α) : (removeFirst ([] : List α) a).1 = [] := rfl

/-! ### primitives -/

theorem dr_addAwait {w : World} (h : DeadRec w) (z : Pid) (a : Await) (hz : (w.proc z).status = .running) :
    DeadRec (addAwait w z a) := dr_modProc_alive h z _ hz (fun _ => rfl)

theorem dr_removeAwait {w : World} (h : DeadRec w) (z : Pid) (a : Await) : DeadRec (removeAwait w z a).1 := by
  unfold removeAwait; dsimp only
  apply dr_modProc_shrink h
  refine ⟨rfl, fun e => e, ?_, fun e => e, fun e => e⟩
  intro e; dsimp only; rw [e]; rfl

theorem dr_removeAwaitKind {w : World} (h : DeadRec w) (z : Pid) (k : Await → Bool) : DeadRec (removeAwaitKind w z k).1 := by
  unfold removeAwaitKind; dsimp only
  apply dr_modProc_shrink h
  refine ⟨rfl, fun e => e, ?_, fun e => e, fun e => e⟩
  intro e; dsimp only; rw [e]; rfl

theorem dr_removeHeld {w : World} (h : DeadRec w) (z : Pid) (a : HoldRef) : DeadRec (removeHeld w z a).1 := by
  unfold removeHeld; dsimp only
  apply dr_modProc_shrink h
  refine ⟨rfl, ?_, fun e => e, fun e => e, fun e => e⟩
  intro e; dsimp only; rw [e]; rfl

theorem dr_block {w : World} (h : DeadRec w) (z : Pid) (f : Frame) (hz : (w.proc z).status = .running) :
    DeadRec (block w z f).1 := dr_modProc_alive h z _ hz (fun _ => rfl)

theorem dr_setVar {w : World} (h : DeadRec w) (z : Pid) (v x : Nat) : DeadRec (setVar w z v x) := by
  unfold setVar; split
  · exact h.of_procs rfl
  · exact dr_modProc_shrink h z _ ⟨rfl, fun e => e, fun e => e, fun e => e, fun e => e⟩

theorem dr_timerAdd {w : World} (h : DeadRec w) (z : Pid) (d sig : Int) (hz : (w.proc z).status = .running) :
    DeadRec (timerAdd w z d sig).1 := by
  rw [timerAdd_fst]
  exact dr_addAwait (h.of_procs (by simp)) z _ (by simpa using hz)

theorem dr_timerCancel {w : World} (h : DeadRec w) (z : Pid) (x : Nat) : DeadRec (timerCancel w z x).1 := by
  rw [timerCancel_fst]
  exact (dr_removeAwait h z (.time x)).of_procs (by simp)

theorem dr_timersClear {w : World} (h : DeadRec w) (z : Pid) : DeadRec (timersClear w z) := by
  unfold timersClear; dsimp only
  apply foldl_inv DeadRec _ (fun w a hw => hw.of_procs (by simp))
  apply dr_modProc_shrink h
  refine ⟨rfl, fun e => e, ?_, fun e => e, fun e => e⟩
  intro e; dsimp only; rw [e]; rfl

theorem dr_guardWithdraw {w : World} (h : DeadRec w) (g : Nat) (z : Pid) : DeadRec (guardWithdraw w g z) :=
  h.of_procs (by simp)

theorem dr_cancelAwaiteds {w : World} (h : DeadRec w) (z : Pid) : DeadRec (cancelAwaiteds w z) := by
  unfold cancelAwaiteds; dsimp only
  refine DeadRec.of_procs ?_ (cancelAllFor_procs _ _)
  apply foldl_inv DeadRec
  · intro w a hw
    split
    · exact hw.of_procs (by simp)
    · exact dr_guardWithdraw hw _ _
    · apply dr_modProc_shrink hw
      refine ⟨rfl, fun e => e, fun e => e, ?_, fun e => e⟩
      intro e; dsimp only; rw [e]; rfl
    · exact hw.of_procs rfl
  · exact dr_modProc_shrink h z _ ⟨rfl, fun e => e, fun _ => rfl, fun e => e, fun e => e⟩

theorem dr_wakeWaiters {w : World} (h : DeadRec w) (z : Pid) (sig : Int) : DeadRec (wakeWaiters w z sig) := by
  unfold wakeWaiters; dsimp only
  apply foldl_inv DeadRec _ (fun w a hw => hw.of_procs (by simp))
  exact dr_modProc_shrink h z _ ⟨rfl, fun e => e, fun e => e, fun _ => rfl, fun e => e⟩

theorem dr_dropResources {w : World} (h : DeadRec w) (z : Pid) : DeadRec (dropResources w z) := by
  rw [dropResources_eq]
  apply foldl_inv DeadRec
  · intro w a hw
    unfold dropStep
    split
    · split
      · exact hw.of_procs (by simp)
      · exact hw
    · exact hw.of_procs (by simp)
  · exact dr_modProc_shrink h z _ ⟨rfl, fun _ => rfl, fun e => e, fun e => e, fun e => e⟩

/-- the end of a process leaves its own record clean, whatever it was -/
theorem dr_finishProc {w : World} (h : DeadRec w) (z : Pid) (val : Int) (stopped : Bool) :
    DeadRec (finishProc w z val stopped) := by
  have hmid : DeadRec (finishMid w z stopped) := by
    unfold finishMid; split
    · exact dr_dropResources (dr_cancelAwaiteds h z) z
    · exact dr_cancelAwaiteds (dr_dropResources h z) z
  have hwake := dr_wakeWaiters hmid z (if stopped then sigStopped else sigSuccess)
  intro p hp
  by_cases hpz : p = z
  · subst hpz
    by_cases hsz : p < w.procs.size
    · obtain ⟨a, b, c, _, _, d⟩ := finishProc_record w p hsz val stopped
      exact ⟨b, d, a, fun _ => c⟩
    · have : finishProc w p val stopped = wakeWaiters (finishMid w p stopped) p (if stopped then sigStopped else sigSuccess) := by
        rw [finishProc_eq]
        apply modProc_oob
        unfold finishMid; split <;> simpa using hsz
      rw [this] at hp ⊢
      exact hwake p hp
  · rw [finishProc_eq, proc_modProc_ne _ _ _ _ hpz] at hp ⊢
    exact hwake p hp

theorem dr_guardWaitEnter {w : World} (h : DeadRec w) (g : Nat) (z : Pid) (d : Demand)
    (hz : (w.proc z).status = .running) : DeadRec (guardWaitEnter w g z d) := by
  unfold guardWaitEnter
  split
  · exact h.of_procs (by simp)
  · split
    · exact dr_addAwait (h.of_procs rfl) z _ hz
    · exact h.of_procs (by simp)

theorem dr_guardWaitLeave {w : World} (h : DeadRec w) (g : Nat) (z : Pid) (sig : Int) :
    DeadRec (guardWaitLeave w g z sig) := by
  unfold guardWaitLeave; dsimp only
  apply dr_removeAwait
  split
  · exact dr_guardWithdraw h g z
  · exact h

theorem dr_grab {w : World} (h : DeadRec w) (r : Nat) (z : Pid) (hz : (w.proc z).status = .running) :
    DeadRec (grab w r z) := by
  unfold grab
  split
  · dsimp only
    refine dr_modProc_alive ?_ z _ ?_ ?_
    · split
      · exact (h.of_procs (fail_procs _ _)).of_procs rfl
      · exact h.of_procs rfl
    · split <;> simpa using hz
    · intro; rfl
  · exact h

/-! ### pools, buffers, queues -/

theorem dr_poolUpdateRecord {w : World} (h : DeadRec w) (pl : Nat) (z : Pid) (n : Nat)
    (hz : (w.proc z).status = .running) : DeadRec (poolUpdateRecord w pl z n) := by
  have key : DeadRec (w.modProc z fun y => { y with held := .pool pl :: y.held }) :=
    dr_modProc_alive h z _ hz (fun _ => rfl)
  unfold poolUpdateRecord
  dsimp only
  repeat' split
  all_goals first
    | exact h
    | (refine DeadRec.of_procs h ?_; first | rfl | (simp; done))
    | (refine DeadRec.of_procs key ?_; first | rfl | (simp; done))

/-- a predicate that survives the elementary steps of the mugging loop survives the loop -/
theorem poolMug_inv (P : World → Prop) (p : Pid)
    (hfail : ∀ w m, P w → P (World.fail w m))
    (hpools : ∀ (w : World) ps, P w → P { w with pools := ps })
    (hrem : ∀ w z pl, P w → P (removeHeld w z (.pool pl)).1)
    (hs : ∀ w s t pri, P w → P (sched w aIntr s sigPreempted t pri).1)
    (hupd : ∀ w pl n, P w → P (poolUpdateRecord w pl p n))
    (hrec : ∀ w pl, P w → P (recordPool w pl))
    (hsig : ∀ w g, P w → P (signal w g)) :
    ∀ fuel w pl rem, P w → P (poolMug fuel w p pl rem).1 := by
  have hin : ∀ w pl v, P w → P (setPoolInUse w pl v) := fun w pl v h => hpools w _ h
  intro fuel
  induction fuel with
  | zero => intro w pl rem h; exact h
  | succ n ih =>
    intro w pl rem h
    unfold poolMug
    dsimp only
    repeat' split
    all_goals first
      | with_reducible exact h
      | with_reducible exact hfail _ _ h
      | with_reducible exact ih _ _ _ (hupd _ _ _ (hs _ _ _ _ (hrem _ _ _ (hpools _ _ h))))
      | with_reducible exact hsig _ _ (hrec _ _ (hin _ _ _ (hupd _ _ _ (hs _ _ _ _ (hrem _ _ _ (hpools _ _ h))))))

/-- the invariant together with "the caller is alive", which every step of a library call keeps -/
def DeadRecA (p : Pid) (w : World) : Prop := DeadRec w ∧ (w.proc p).status = .running

theorem dra_of_procs {p : Pid} {w w' : World} (h : DeadRecA p w) (e : w'.procs = w.procs) : DeadRecA p w' :=
  ⟨h.1.of_procs e, by rw [proc_congr e]; exact h.2⟩

theorem dra_poolMug {p : Pid} {w : World} (h : DeadRecA p w) (fuel pl rem : Nat) :
    DeadRecA p (poolMug fuel w p pl rem).1 := by
  refine poolMug_inv (DeadRecA p) p ?_ ?_ ?_ ?_ ?_ ?_ ?_ fuel w pl rem h
  · intro w m h; exact dra_of_procs h (by simp)
  · intro w ps h; exact dra_of_procs h rfl
  · intro w z pl h; exact ⟨dr_removeHeld h.1 z _, by simpa using h.2⟩
  · intro w s t pri h; exact dra_of_procs h (by simp)
  · intro w pl n h; exact ⟨dr_poolUpdateRecord h.1 pl p n h.2, by simpa using h.2⟩
  · intro w pl h; exact dra_of_procs h (by simp)
  · intro w g h; exact dra_of_procs h (by simp)

theorem dra_guardWaitEnter_block {p : Pid} {w : World} (h : DeadRecA p w) (g : Nat) (d : Demand) (f : Frame) :
    DeadRecA p (block (guardWaitEnter w g p d) p f).1 := by
  have h1 := dr_guardWaitEnter h.1 g p d h.2
  have h2 : ((guardWaitEnter w g p d).proc p).status = .running := by simpa using h.2
  exact ⟨dr_block h1 p f h2, by simpa using h.2⟩

theorem dra_poolLoop {p : Pid} {w : World} (h : DeadRecA p w) (pl rem initially : Nat) (preempt : Bool) :
    DeadRecA p (poolLoop w p pl rem initially preempt).1 := by
  have hupd : ∀ (w : World) n, DeadRecA p w → DeadRecA p (poolUpdateRecord w pl p n) :=
    fun w n h => ⟨dr_poolUpdateRecord h.1 pl p n h.2, by simpa using h.2⟩
  have hpre : ∀ (w : World) v, DeadRecA p w → DeadRecA p (recordPool (setPoolInUse w pl v) pl) :=
    fun w v h => dra_of_procs h (by simp)
  unfold poolLoop
  split
  · exact dra_of_procs h (by simp)
  · rename_i x hx
    dsimp only
    split
    · exact dra_of_procs (hupd _ rem (hpre _ (x.inUse + rem) h)) (by simp)
    · have h1 : DeadRecA p (if x.cap - x.inUse > 0 then
          (poolUpdateRecord (recordPool (setPoolInUse w pl (x.inUse + (x.cap - x.inUse))) pl) pl p (x.cap - x.inUse),
            rem - (x.cap - x.inUse)) else (w, rem)).1 := by
        split
        · exact hupd _ _ (hpre _ _ h)
        · exact h
      have h2 : DeadRecA p (if preempt = true then
          poolMug (x.holders.count + 1) (if x.cap - x.inUse > 0 then
            (poolUpdateRecord (recordPool (setPoolInUse w pl (x.inUse + (x.cap - x.inUse))) pl) pl p (x.cap - x.inUse),
              rem - (x.cap - x.inUse)) else (w, rem)).1 p pl (if x.cap - x.inUse > 0 then
            (poolUpdateRecord (recordPool (setPoolInUse w pl (x.inUse + (x.cap - x.inUse))) pl) pl p (x.cap - x.inUse),
              rem - (x.cap - x.inUse)) else (w, rem)).2
          else ((if x.cap - x.inUse > 0 then
            (poolUpdateRecord (recordPool (setPoolInUse w pl (x.inUse + (x.cap - x.inUse))) pl) pl p (x.cap - x.inUse),
              rem - (x.cap - x.inUse)) else (w, rem)).1, some (if x.cap - x.inUse > 0 then
            (poolUpdateRecord (recordPool (setPoolInUse w pl (x.inUse + (x.cap - x.inUse))) pl) pl p (x.cap - x.inUse),
              rem - (x.cap - x.inUse)) else (w, rem)).2)).1 := by
        split
        · exact dra_poolMug h1 _ _ _
        · exact h1
      split
      · exact h2
      · exact dra_guardWaitEnter_block h2 _ _ _


/-! ### the same for every primitive, in the form used to peel a composition from the outside in -/

theorem dra_mk {p : Pid} {w : World} (h : DeadRecA p w) (ev : EvQ) (evW : List (Nat × List Pid)) (guards : Array Guard)
    (res : Array Res) (pools : Array Pool) (bufs : Array Buf) (oqs : Array OQ) (pqs : Array PQ) (conds : Array Nat)
    (flags : Array Int) (gvars : Array Nat) (log : Array String) (fault : Option String) (d : Nat) :
    DeadRecA p ⟨ev, evW, w.procs, guards, res, pools, bufs, oqs, pqs, conds, flags, gvars, log, fault, d⟩ :=
  dra_of_procs h rfl
theorem dra_fail {p : Pid} {w : World} (h : DeadRecA p w) (m : String) : DeadRecA p (World.fail w m) :=
  dra_of_procs h (by simp)
theorem dra_emit {p : Pid} {w : World} (h : DeadRecA p w) (m : String) : DeadRecA p (World.emit w m) :=
  dra_of_procs h (by simp)
theorem dra_setGuardQ {p : Pid} {w : World} (h : DeadRecA p w) (g : Nat) (q' : HH) : DeadRecA p (setGuardQ w g q') :=
  dra_of_procs h (by simp)
theorem dra_setPoolInUse {p : Pid} {w : World} (h : DeadRecA p w) (pl v : Nat) : DeadRecA p (setPoolInUse w pl v) :=
  dra_of_procs h (by simp)
theorem dra_sched {p : Pid} {w : World} (h : DeadRecA p w) (a s : Nat) (sig t pri : Int) : DeadRecA p ((sched w a s sig t pri).1) :=
  dra_of_procs h (by simp)
theorem dra_wakeEventWaiters {p : Pid} {w : World} (h : DeadRecA p w) (ps : List Pid) (sig : Int) : DeadRecA p (wakeEventWaiters w ps sig) :=
  dra_of_procs h (by simp)
theorem dra_evCancel {p : Pid} {w : World} (h : DeadRecA p w) (x : Nat) : DeadRecA p ((evCancel w x).1) :=
  dra_of_procs h (by simp)
theorem dra_cancelAllFor {p : Pid} {w : World} (h : DeadRecA p w) (z : Pid) : DeadRecA p (cancelAllFor w z) :=
  dra_of_procs h (by simp)
theorem dra_cancelKindFor {p : Pid} {w : World} (h : DeadRecA p w) (z : Pid) (act : Nat) (sig : Option Int) : DeadRecA p ((cancelKindFor w z act sig).1) :=
  dra_of_procs h (by simp)
theorem dra_cancelUserAll {p : Pid} {w : World} (h : DeadRecA p w) : DeadRecA p ((cancelUserAll w).1) :=
  dra_of_procs h (by simp)
theorem dra_recordRes {p : Pid} {w : World} (h : DeadRecA p w) (r : Nat) : DeadRecA p (recordRes w r) :=
  dra_of_procs h (by simp)
theorem dra_recordPool {p : Pid} {w : World} (h : DeadRecA p w) (r : Nat) : DeadRecA p (recordPool w r) :=
  dra_of_procs h (by simp)
theorem dra_recordBuf {p : Pid} {w : World} (h : DeadRecA p w) (r : Nat) : DeadRecA p (recordBuf w r) :=
  dra_of_procs h (by simp)
theorem dra_recordOQ {p : Pid} {w : World} (h : DeadRecA p w) (r : Nat) : DeadRecA p (recordOQ w r) :=
  dra_of_procs h (by simp)
theorem dra_recordPQ {p : Pid} {w : World} (h : DeadRecA p w) (r : Nat) : DeadRecA p (recordPQ w r) :=
  dra_of_procs h (by simp)
theorem dra_guardRemove {p : Pid} {w : World} (h : DeadRecA p w) (g : Nat) (z : Pid) : DeadRecA p ((guardRemove w g z).1) :=
  dra_of_procs h (by simp)
theorem dra_guardSignal {p : Pid} {w : World} (h : DeadRecA p w) (fuel g : Nat) : DeadRecA p (guardSignal fuel w g) :=
  dra_of_procs h (by simp)
theorem dra_signal {p : Pid} {w : World} (h : DeadRecA p w) (g : Nat) : DeadRecA p (signal w g) :=
  dra_of_procs h (by simp)
theorem dra_guardWithdraw {p : Pid} {w : World} (h : DeadRecA p w) (g : Nat) (z : Pid) : DeadRecA p (guardWithdraw w g z) :=
  dra_of_procs h (by simp)
theorem dra_poolDropHolder {p : Pid} {w : World} (h : DeadRecA p w) (pl : Nat) (z : Pid) : DeadRecA p (poolDropHolder w pl z) :=
  dra_of_procs h (by simp)
theorem dra_setHeldAmount {p : Pid} {w : World} (h : DeadRecA p w) (pl : Nat) (z : Pid) (n : Nat) : DeadRecA p (setHeldAmount w pl z n) :=
  dra_of_procs h (by simp)
theorem dra_condSignal {p : Pid} {w : World} (h : DeadRecA p w) (g : Nat) : DeadRecA p ((condSignal w g).1) :=
  dra_of_procs h (by simp)
theorem dra_setRecording {p : Pid} {w : World} (h : DeadRecA p w) (kind idx : Nat) (on : Bool) : DeadRecA p (setRecording w kind idx on) :=
  dra_of_procs h (by simp)

theorem dra_addAwait {p : Pid} {w : World} (h : DeadRecA p w) (a : Await) : DeadRecA p (addAwait w p a) :=
  ⟨dr_addAwait h.1 p a h.2, by simpa using h.2⟩
theorem dra_block {p : Pid} {w : World} (h : DeadRecA p w) (f : Frame) : DeadRecA p (block w p f).1 :=
  ⟨dr_block h.1 p f h.2, by simpa using h.2⟩
theorem dra_timerAdd {p : Pid} {w : World} (h : DeadRecA p w) (d sig : Int) : DeadRecA p (timerAdd w p d sig).1 :=
  ⟨dr_timerAdd h.1 p d sig h.2, by simpa using h.2⟩
theorem dra_guardWaitEnter {p : Pid} {w : World} (h : DeadRecA p w) (g : Nat) (d : Demand) :
    DeadRecA p (guardWaitEnter w g p d) :=
  ⟨dr_guardWaitEnter h.1 g p d h.2, by simpa using h.2⟩
theorem dra_grab {p : Pid} {w : World} (h : DeadRecA p w) (r : Nat) : DeadRecA p (grab w r p) :=
  ⟨dr_grab h.1 r p h.2, by simpa using h.2⟩
theorem dra_poolUpdateRecord {p : Pid} {w : World} (h : DeadRecA p w) (pl n : Nat) :
    DeadRecA p (poolUpdateRecord w pl p n) :=
  ⟨dr_poolUpdateRecord h.1 pl p n h.2, by simpa using h.2⟩
theorem dra_removeAwait {p : Pid} {w : World} (h : DeadRecA p w) (z : Pid) (a : Await) : DeadRecA p (removeAwait w z a).1 :=
  ⟨dr_removeAwait h.1 z a, by simpa using h.2⟩
theorem dra_removeAwaitKind {p : Pid} {w : World} (h : DeadRecA p w) (z : Pid) (k : Await → Bool) :
    DeadRecA p (removeAwaitKind w z k).1 :=
  ⟨dr_removeAwaitKind h.1 z k, by simpa using h.2⟩
theorem dra_removeHeld {p : Pid} {w : World} (h : DeadRecA p w) (z : Pid) (a : HoldRef) : DeadRecA p (removeHeld w z a).1 :=
  ⟨dr_removeHeld h.1 z a, by simpa using h.2⟩
theorem dra_setVar {p : Pid} {w : World} (h : DeadRecA p w) (z : Pid) (v x : Nat) : DeadRecA p (setVar w z v x) :=
  ⟨dr_setVar h.1 z v x, by simpa using h.2⟩
theorem dra_timerCancel {p : Pid} {w : World} (h : DeadRecA p w) (z : Pid) (x : Nat) : DeadRecA p (timerCancel w z x).1 :=
  ⟨dr_timerCancel h.1 z x, by simpa using h.2⟩
theorem dra_timersClear {p : Pid} {w : World} (h : DeadRecA p w) (z : Pid) : DeadRecA p (timersClear w z) :=
  ⟨dr_timersClear h.1 z, by simpa using h.2⟩
theorem dra_cancelAwaiteds {p : Pid} {w : World} (h : DeadRecA p w) (z : Pid) : DeadRecA p (cancelAwaiteds w z) :=
  ⟨dr_cancelAwaiteds h.1 z, by simpa using h.2⟩
theorem dra_wakeWaiters {p : Pid} {w : World} (h : DeadRecA p w) (z : Pid) (sig : Int) : DeadRecA p (wakeWaiters w z sig) :=
  ⟨dr_wakeWaiters h.1 z sig, by simpa using h.2⟩
theorem dra_dropResources {p : Pid} {w : World} (h : DeadRecA p w) (z : Pid) : DeadRecA p (dropResources w z) :=
  ⟨dr_dropResources h.1 z, by simpa using h.2⟩
theorem dra_guardWaitLeave {p : Pid} {w : World} (h : DeadRecA p w) (g : Nat) (z : Pid) (sig : Int) :
    DeadRecA p (guardWaitLeave w g z sig) :=
  ⟨dr_guardWaitLeave h.1 g z sig, by simpa using h.2⟩

/-- peel a composition of primitives from the outside in, down to the hypothesis `h : DeadRecA p w` -/
syntax "dra_peel " ident : tactic
macro_rules
  | `(tactic| dra_peel $h) =>
    `(tactic| first
        | with_reducible exact $h
        | (with_reducible first
            | apply dra_fail
            | apply dra_emit
            | apply dra_setGuardQ
            | apply dra_setPoolInUse
            | apply dra_sched
            | apply dra_wakeEventWaiters
            | apply dra_evCancel
            | apply dra_cancelAllFor
            | apply dra_cancelKindFor
            | apply dra_cancelUserAll
            | apply dra_recordRes
            | apply dra_recordPool
            | apply dra_recordBuf
            | apply dra_recordOQ
            | apply dra_recordPQ
            | apply dra_guardRemove
            | apply dra_guardSignal
            | apply dra_signal
            | apply dra_guardWithdraw
            | apply dra_poolDropHolder
            | apply dra_setHeldAmount
            | apply dra_condSignal
            | apply dra_setRecording
            | apply dra_addAwait
            | apply dra_block
            | apply dra_timerAdd
            | apply dra_guardWaitEnter
            | apply dra_grab
            | apply dra_poolUpdateRecord
            | apply dra_removeAwait
            | apply dra_removeAwaitKind
            | apply dra_removeHeld
            | apply dra_setVar
            | apply dra_timerCancel
            | apply dra_timersClear
            | apply dra_cancelAwaiteds
            | apply dra_wakeWaiters
            | apply dra_dropResources
            | apply dra_guardWaitLeave
            | apply dra_poolMug
            | apply dra_poolLoop
          ) <;> dra_peel $h
        | (refine dra_of_procs $h ?_; first | rfl | (simp; done))
        | (split <;> dra_peel $h))

theorem dra_poolRollback {p : Pid} {w : World} (h : DeadRecA p w) (pl initially : Nat) :
    DeadRecA p (poolRollback w p pl initially) := by
  unfold poolRollback; dsimp only; dra_peel h

theorem dra_bufGetLoop {p : Pid} {w : World} (h : DeadRecA p w) (b rem got : Nat) :
    DeadRecA p (bufGetLoop w p b rem got).1 := by
  unfold bufGetLoop; dsimp only; dra_peel h

theorem dra_bufPutLoop {p : Pid} {w : World} (h : DeadRecA p w) (b rem left : Nat) :
    DeadRecA p (bufPutLoop w p b rem left).1 := by
  unfold bufPutLoop; dsimp only; dra_peel h

theorem dra_oqGetLoop {p : Pid} {w : World} (h : DeadRecA p w) (q : Nat) : DeadRecA p (oqGetLoop w p q).1 := by
  unfold oqGetLoop; dsimp only; dra_peel h

theorem dra_oqPutLoop {p : Pid} {w : World} (h : DeadRecA p w) (q obj : Nat) : DeadRecA p (oqPutLoop w p q obj).1 := by
  unfold oqPutLoop; dsimp only; dra_peel h

theorem dra_pqGetLoop {p : Pid} {w : World} (h : DeadRecA p w) (k : Nat) : DeadRecA p (pqGetLoop w p k).1 := by
  unfold pqGetLoop; dsimp only; dra_peel h

theorem dra_pqPutLoop {p : Pid} {w : World} (h : DeadRecA p w) (k obj : Nat) (pri : Int) (v : Nat) :
    DeadRecA p (pqPutLoop w p k obj pri v).1 := by
  unfold pqPutLoop; dsimp only; dra_peel h

theorem dra_acquireStep {p : Pid} {w : World} (h : DeadRecA p w) (r : Nat) : DeadRecA p (acquireStep w p r).1 := by
  unfold acquireStep; dra_peel h

end CimbaModel.Sim
